(* C12 — no reachable configuration has panicked: srv.ongoing[-1] after the full wake-up, close of the
   closed drain channel, a second Shutdown and a nil bases[b].recv are unreachable. (Proof contributed
   by the independent review, /verif/docs/audit.) *)
From CV Require Import Server.Server Server.ServerProofs Server.ServerSteps Server.ServerStart Server.ServerTheorems
  Server.AqInv Server.AqTheorems.
From Coq Require Import List Arith Bool Lia.
Import ListNotations.

Ltac brk H :=
  repeat match type of H with
  | context [match ?x with _ => _ end] => let E := fresh "E" in destruct x eqn:E; try discriminate H
  | context [if ?x then _ else _] => let E := fresh "E" in destruct x eqn:E; try discriminate H
  end.

Lemma deliver_nopanic : forall a p b k e c, panicked c = false -> b <= k -> k <= length (aq_q c a) ->
  panicked (deliver a p b k e c) = false.
Proof.
  intros a p b k e c N Hb Hk. unfold deliver.
  destruct b as [|j]; [simpl; auto|].
  assert (Hj : j < k) by lia. apply Nat.ltb_lt in Hj. rewrite Hj.
  destruct (nth_error (aq_q c a) j) eqn:En.
  - destruct (tret c c0); destruct e; simpl; auto.
  - apply nth_error_None in En. apply Nat.ltb_lt in Hj. lia.
Qed.

Lemma has_ongoing_nth : forall l i y, nth_error l i = Some (Some y) -> has_ongoing l = true.
Proof. induction l as [|[z|] l IH]; intros [|i] y H; simpl in *; try discriminate; eauto. Qed.

Lemma nopanic_impl : forall P c x c', inv P c -> invA P c -> step_impl P c x = Some c' ->
  panicked c = false -> panicked c' = false.
Proof.
  intros P c x c' I A H N. unfold step_impl in H.
  destruct (ipc c x) eqn:Ei; try discriminate.
  - inversion H; subst; simpl; auto.
  - destruct (aq_ph c x) eqn:Eph; try discriminate.
    destruct (nth_error (aq_q c x) k) eqn:En.
    + destruct (ierr c x).
      * inversion H; subst; simpl; auto.
      * assert (D : panicked (deliver x c0 (pbasis c c0) k true
             (ev (EvProc x c0) (set_aq_ph (upd (aq_ph c) x (ADraining (S k))) c))) = false).
        { apply deliver_nopanic; simpl; auto.
          - exact (a_q8 _ _ A _ _ _ En).
          - assert (k < length (aq_q c x)) by (apply nth_error_Some; congruence). lia. }
        inversion H; subst. destruct (p_slow P c0 && _); simpl; auto.
    + inversion H; subst; simpl; auto.
  - inversion H; subst; simpl; auto.
  - inversion H; subst. clear H.
    assert (Hs : nth_error (ongoing c) (slot c x) = Some (Some x)) by (apply (i_slot2 _ _ I); rewrite Ei; reflexivity).
    pose proof (has_ongoing_nth _ _ _ Hs) as Ho.
    destruct (drain c) eqn:Ed; simpl; rewrite ?Ed; simpl.
    + destruct (full c); simpl; auto.
    + destruct (all_free _); simpl; destruct (full c); simpl; auto.
    + pose proof (i_dclosed _ _ I Ed). congruence.
  - inversion H; subst; simpl; auto.
Qed.

Lemma nopanic_pipe : forall P c x c', inv P c -> invA P c -> step_pipe P c x = Some c' ->
  panicked c = false -> panicked c' = false.
Proof.
  intros P c p c' I A H N. unfold step_pipe in H.
  destruct (p_kind P p) eqn:Ek; try discriminate.
  destruct (ppc c p) eqn:Ep; try discriminate.
  - brk H; inversion H; subst; simpl; auto.
  - brk H; inversion H; subst; simpl; auto.
  - destruct (ready_closed c (proot c p)); try discriminate. inversion H; subst. unfold passthrough.
    destruct (ierr c (proot c p)); simpl; auto.
    apply deliver_nopanic; auto. apply (a_q9 _ _ A). congruence.
Qed.

Lemma reachable_nopanic : forall P c, reachable P c -> panicked c = false.
Proof.
  induction 1 as [|c t c' R IH H]; [reflexivity|].
  pose proof (inv_reachable _ _ R) as I. pose proof (invA_reachable _ _ R) as A.
  destruct t; simpl in H.
  - unfold step_start, enter_start, take_slot, start_reject, release_gate, complete, ev, panic in H.
    brk H; inversion H; subst; simpl; auto.
    all: try (exfalso; eapply (i_woken _ _ I); eauto; fail).
  - unfold step_start_ctx, start_reject, release_gate, complete, ev in H. brk H; inversion H; subst; simpl; auto.
  - unfold step_ack, ev in H. brk H; inversion H; subst; simpl; auto.
  - unfold step_ret, ev in H. brk H; inversion H; subst; simpl; auto.
  - eapply nopanic_impl; eauto.
  - eapply nopanic_pipe; eauto.
  - unfold step_pipe_ctx, complete, ev in H. brk H; inversion H; subst; simpl; auto.
  - unfold step_target_ret, complete, ev in H. brk H; inversion H; subst; simpl; auto.
  - unfold step_emb, complete, ev in H. brk H; inversion H; subst; simpl; auto.
  - unfold step_cancel in H. brk H; inversion H; subst; simpl; auto.
  - unfold step_shutdown, ev, panic in H. brk H; inversion H; subst; simpl; auto.
    all: try (exfalso; destruct (i_dnil _ _ I) as [_ X]; rewrite X in *; auto; discriminate).
  - unfold step_drain_ack in H. brk H; inversion H; subst; simpl; auto.
Qed.
