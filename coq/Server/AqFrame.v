(* C12 — steps of start, Ack/return decisions, cancel, Shutdown and the tail of the
   implementation goroutine leave the answerQueue state alone (frame conditions). *)
From CV Require Import Server.Server Server.ServerProofs Server.AqInv.
From Coq Require Import List Arith Bool Lia.
Import ListNotations.

Ltac frame :=
  constructor; cbn -[set_nth next_id has_ongoing]; try reflexivity; intros; unfold upd; eqb_cases;
  try reflexivity; try congruence.

Lemma frame_start : forall P c x c', inv P c -> invA P c -> step_start P c x = Some c' -> aq_frame P c c'.
Proof.
  intros P c x c' I A H. unfold step_start in H.
  destruct (p_kind P x) eqn:Ek; try discriminate.
  destruct (spc c x) eqn:Es; try discriminate.
  - destruct (pred_done P c x); inv_some. unfold enter_start, start_reject, take_slot.
    cbn -[next_id]. destruct (drain c); [destruct (starting c); [|cbn -[next_id]; destruct (next_id (ongoing c))]|..].
    all: frame.
    all: rewrite (i_pre _ _ I x) by (rewrite Es; reflexivity); reflexivity.
  - destruct (gate_rel c h); inv_some. unfold enter_start, start_reject, take_slot.
    cbn -[next_id]. destruct (drain c); [destruct (starting c); [|cbn -[next_id]; destruct (next_id (ongoing c))]|..].
    all: frame.
    all: rewrite (i_pre _ _ I x) by (rewrite Es; reflexivity); reflexivity.
  - destruct (next_id (ongoing c)); [destruct (drain c)|]; inv_some; unfold start_reject, release_gate, take_slot, panic.
    all: frame.
    all: rewrite (i_pre _ _ I x) by (rewrite Es; reflexivity); reflexivity.
  - destruct (acked c x || idone c x); inv_some. unfold release_gate. frame.
Qed.

Lemma frame_start_ctx : forall P c x c', step_start_ctx P c x = Some c' -> aq_frame P c c'.
Proof.
  intros P c x c' H. unfold step_start_ctx in H.
  destruct (p_kind P x) eqn:Ek; try discriminate.
  destruct (cancelled c x); try discriminate.
  destruct (p_relfix P); destruct (spc c x); inv_some; unfold start_reject, start_reject_if, release_gate; frame.
Qed.

Lemma frame_ack : forall P c x c', step_ack c x = Some c' -> aq_frame P c c'.
Proof.
  intros P c x c' H. unfold step_ack in H. destruct (ipc c x) eqn:E; inv_some. frame. rewrite E. reflexivity.
Qed.

Lemma frame_ret : forall P c x e c', step_ret c x e = Some c' -> aq_frame P c c'.
Proof.
  intros P c x e c' H. unfold step_ret in H. destruct (ipc c x) eqn:E; inv_some; frame; rewrite E; reflexivity.
Qed.

Lemma frame_cancel : forall P c x c', step_cancel c x = Some c' -> aq_frame P c c'.
Proof. intros P c x c' H. unfold step_cancel in H. destruct (cancelled c x); inv_some. frame. Qed.

Lemma frame_shutdown : forall P c c', step_shutdown c = Some c' -> aq_frame P c c'.
Proof.
  intros P c c' H. unfold step_shutdown in H. destruct (shpc c); try discriminate.
  - destruct (drain c); [destruct (has_ongoing (ongoing c))|..]; inv_some; unfold panic; frame.
  - destruct (drain c); inv_some. frame.
  - inv_some. frame.
Qed.

(* a pipelined call has no implementation goroutine *)
Lemma pipe_ipc_none : forall P c p, inv P c -> invA P c -> p_kind P p <> Direct -> ipc c p = INone.
Proof. intros P c p I A K. apply (i_pre _ _ I). rewrite (a_ks _ _ A p K). reflexivity. Qed.

(* the tail of the goroutine: Returner.Return, the slot section, close(done) *)
Lemma frame_impl_tail : forall P c x c', inv P c -> invA P c -> step_impl P c x = Some c' ->
  (ipc c x = IReturn \/ ipc c x = ISlot \/ ipc c x = IClose) -> aq_frame P c c'.
Proof.
  intros P c x c' I A H Hi. unfold step_impl in H.
  assert (Kx : p_kind P x = Direct).
  { destruct (p_kind P x) eqn:E; auto. exfalso.
    assert (N : ipc c x = INone) by (eapply pipe_ipc_none; eauto; congruence).
    destruct Hi as [Hi|[Hi|Hi]]; congruence. }
  destruct Hi as [Hi|[Hi|Hi]]; rewrite Hi in H.
  - inv_some. frame. rewrite Hi. reflexivity.
  - inv_some. unfold all_free, panic. cbn -[set_nth has_ongoing].
    destruct (drain c); cbn -[set_nth has_ongoing]; try destruct (has_ongoing _); cbn -[set_nth has_ongoing];
      destruct (full c) eqn:Ef; cbn -[set_nth has_ongoing].
    all: try (pose proof (i_full1 _ _ I _ Ef) as Ew).
    all: frame.
    all: try solve [rewrite Hi; reflexivity].
    all: try solve [exfalso; match goal with K : p_kind _ ?w <> Direct |- _ => pose proof (a_ks _ _ A w K) end; congruence].
  - inv_some. frame. rewrite Hi. reflexivity.
Qed.
