(* C12 — each call completes exactly once (direct and pipelined calls together). *)
From CV Require Import Server.Server Server.ServerProofs Server.ServerSteps Server.ServerStart Server.ServerTheorems
  Server.ServerOnce Server.AqInv Server.AqTheorems.
From Coq Require Import List Arith Bool Lia.
Import ListNotations.

(* the stage from which on the call's Returner.Return has been called *)
Definition finished (P : params) (c : config) (x : cid) : bool :=
  match p_kind P x with
  | Direct => finished_direct c x
  | Pipe _ => pdone (ppc c x)
  end.

Lemma each_call_once_lemma : forall P c x, reachable P c ->
  length (compl c x) <= 1 /\ (finished P c x = true <-> length (compl c x) = 1).
Proof.
  intros P c x R. unfold finished. destruct (p_kind P x) eqn:Ek.
  - destruct (direct_once_lemma P c x R Ek) as (H1 & H2 & H3). split; auto.
    destruct (finished_direct c x); split; intros; auto; try discriminate.
    rewrite H3 in H; auto. discriminate.
  - assert (K : p_kind P x <> Direct) by congruence.
    destruct (pipe_once_lemma P c x R K) as (H1 & H2). split; auto.
    rewrite <- H2. destruct (ppc c x); simpl; split; intros; auto; discriminate.
Qed.
