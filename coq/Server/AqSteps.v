(* C12 — preservation of the answerQueue invariant: generic lemmas about the three kinds of
   change (a pipelined call moves between non-queued states; the drain loop processes an entry;
   a call is appended to the queue). The new configuration is characterised by equations on
   its fields, so the proofs do not unfold the step functions. *)
From CV Require Import Server.Server Server.ServerProofs Server.AqInv.
From Coq Require Import List Arith Bool Lia.
Import ListNotations.

Definition movable (s : ppc_t) : Prop := s <> PInit /\ s <> PQueued.

Ltac cid_cases x y :=
  destruct (Nat.eq_dec x y) as [?E|?N];
  [ subst x; rewrite ?Nat.eqb_refl in *
  | let N' := fresh in pose proof (proj2 (Nat.eqb_neq x y) ltac:(assumption)) as N'; rewrite ?N' in *; clear N' ].

Section Move.
  Variable P : params.
  Variables c c' : config.
  Variable p : cid.
  Variable s' : ppc_t.
  Hypothesis A : invA P c.
  Hypothesis Hfrom : movable (ppc c p).
  Hypothesis Hto : movable s'.
  Hypothesis Hppc : ppc c' = upd (ppc c) p s'.
  Hypothesis Hq : aq_q c' = aq_q c.
  Hypothesis Hph : aq_ph c' = aq_ph c.
  Hypothesis Hpenq : penq c' = penq c.
  Hypothesis Hproot : proot c' = proot c.
  Hypothesis Hpbasis : pbasis c' = pbasis c.
  Hypothesis Hipc : ipc c' = ipc c.
  Hypothesis Hspc : spc c' = spc c.
  Hypothesis Hcomp : forall y, y <> p -> compl c' y = compl c y.
  Hypothesis Hcomp' : length (compl c' p) = if pdone s' then 1 else 0.
  Hypothesis Henqs : forall a, enqs a (trace c') = enqs a (trace c).
  Hypothesis Hprocs : forall a, procs a (trace c') = procs a (trace c).

  Lemma invA_move : invA P c'.
  Proof.
    destruct Hfrom as (F1 & F2). destruct Hto as (T1 & T2).
    constructor; intros; rewrite ?Hppc, ?Hq, ?Hph, ?Hpenq, ?Hproot, ?Hpbasis, ?Hipc, ?Hspc, ?Henqs, ?Hprocs in *;
      unfold upd in *.
    - eqb_cases; eauto using (a_kp _ _ A). rewrite (a_kp _ _ A _ H) in F1. congruence.
    - eauto using (a_ks _ _ A).
    - pose proof (a_q1 _ _ A _ _ _ H) as Q. eqb_cases; auto. rewrite <- Q. split; intros; congruence.
    - apply (a_q1b _ _ A).
    - eauto using (a_q2 _ _ A).
    - eqb_cases; try congruence. apply (a_q2' _ _ A); auto.
    - eauto using (a_q3 _ _ A).
    - eqb_cases; try congruence. apply (a_q4 _ _ A); auto.
    - apply (a_q5 _ _ A).
    - eauto using (a_q8 _ _ A).
    - apply (a_q9 _ _ A). eqb_cases; auto.
    - destruct (Nat.eqb_spec p0 p); subst; auto. rewrite Hcomp by auto. apply (a_j3 _ _ A); auto.
    - apply (a_t1 _ _ A).
    - apply (a_t2 _ _ A).
  Qed.
End Move.

Section Process.
  Variable P : params.
  Variables c c' : config.
  Variables a p : cid.
  Variable k : nat.
  Variable s' : ppc_t.
  Variable ph' : aqphase.
  Hypothesis A : invA P c.
  Hypothesis Hqi : forall n, qidx ph' n = S k.
  Hypothesis Hpc : pclass ph' = 1.
  Hypothesis Hph0 : aq_ph c a = ADraining k.
  Hypothesis Hnth : nth_error (aq_q c a) k = Some p.
  Hypothesis Hto : movable s'.
  Hypothesis Hppc : ppc c' = upd (ppc c) p s'.
  Hypothesis Hq : aq_q c' = aq_q c.
  Hypothesis Hph : forall y, aq_ph c' y = upd (aq_ph c) a ph' y.
  Hypothesis Hpenq : penq c' = penq c.
  Hypothesis Hproot : proot c' = proot c.
  Hypothesis Hpbasis : pbasis c' = pbasis c.
  Hypothesis Hipc : ipc c' = ipc c.
  Hypothesis Hspc : spc c' = spc c.
  Hypothesis Hcomp : forall y, y <> p -> compl c' y = compl c y.
  Hypothesis Hcomp' : length (compl c' p) = if pdone s' then 1 else 0.
  Hypothesis Henqs : forall b, enqs b (trace c') = enqs b (trace c).
  Hypothesis Hprocs : forall b, procs b (trace c') = if Nat.eqb a b then procs b (trace c) ++ [p] else procs b (trace c).

  Lemma process_queued : ppc c p = PQueued.
  Proof. apply (a_q1 _ _ A _ _ _ Hnth). rewrite Hph0. simpl. lia. Qed.

  Lemma process_lt : k < length (aq_q c a).
  Proof. apply nth_error_Some. rewrite Hnth. discriminate. Qed.

  Lemma invA_process : invA P c'.
  Proof.
    pose proof process_queued as Hpq. pose proof process_lt as Hlt.
    destruct Hto as (T1 & T2).
    constructor; intros; rewrite ?Hppc, ?Hq, ?Hph, ?Hpenq, ?Hproot, ?Hpbasis, ?Hipc, ?Hspc, ?Henqs, ?Hprocs in *;
      unfold upd in *.
    - eqb_cases; eauto using (a_kp _ _ A). rewrite (a_kp _ _ A _ H) in Hpq. discriminate.
    - eauto using (a_ks _ _ A).
    - (* q1 *)
      destruct (a_q3 _ _ A _ _ _ H) as (E1 & E2). destruct (a_q3 _ _ A _ _ _ Hnth) as (E3 & E4).
      pose proof (a_q1 _ _ A _ _ _ H) as Q.
      destruct (Nat.eqb_spec a0 a) as [->|Na].
      + rewrite Hqi. rewrite Hph0 in Q. simpl in Q.
        destruct (Nat.eqb_spec p0 p) as [->|Np].
        * assert (i = k) by congruence. split; intros; [congruence|lia].
        * assert (i <> k) by (intros ->; congruence). rewrite Q. lia.
      + destruct (Nat.eqb_spec p0 p) as [->|Np]; [congruence|]. exact Q.
    - pose proof (a_q1b _ _ A a0). destruct (Nat.eqb_spec a0 a) as [->|Na]; auto. rewrite Hqi. exact Hlt.
    - eauto using (a_q2 _ _ A).
    - eqb_cases; try congruence. apply (a_q2' _ _ A); auto.
    - eauto using (a_q3 _ _ A).
    - eqb_cases; try congruence. apply (a_q4 _ _ A); auto.
    - pose proof (a_q5 _ _ A a0) as Q. destruct (Nat.eqb_spec a0 a) as [->|Na]; auto. rewrite Hph0 in Q. rewrite Hpc. exact Q.
    - eauto using (a_q8 _ _ A).
    - apply (a_q9 _ _ A). eqb_cases; auto. rewrite Hpq. discriminate.
    - destruct (Nat.eqb_spec p0 p) as [->|Np]; auto. rewrite Hcomp by auto. apply (a_j3 _ _ A); auto.
    - apply (a_t1 _ _ A).
    - pose proof (a_t2 _ _ A a0) as Q. destruct (Nat.eqb_spec a a0) as [<-|Na].
      + rewrite Nat.eqb_refl. rewrite Hqi. rewrite Hph0 in Q. simpl in Q. rewrite Q.
        symmetry. apply firstn_snoc_nth. auto.
      + destruct (Nat.eqb_spec a0 a); [congruence|]. exact Q.
  Qed.
End Process.

(* a pipelined call enters queueCaller.PipelineRecv: target recorded; not (yet) queued, or queued *)
Section Enter.
  Variable P : params.
  Variables c c' : config.
  Variables p a : cid.
  Variable b : nat.
  Variable s' : ppc_t.
  Hypothesis A : invA P c.
  Hypothesis Hkind : p_kind P p <> Direct.
  Hypothesis Hfrom : ppc c p = PInit.
  Hypothesis Hb : b <= length (aq_q c a).
  Hypothesis Hproot : proot c' = upd (proot c) p a.
  Hypothesis Hpbasis : pbasis c' = upd (pbasis c) p b.
  Hypothesis Hph : aq_ph c' = aq_ph c.
  Hypothesis Hipc : ipc c' = ipc c.
  Hypothesis Hspc : spc c' = spc c.
  Hypothesis Hcomp : compl c' = compl c.
  Hypothesis Hprocs : forall x, procs x (trace c') = procs x (trace c).

  Lemma not_entry : forall x i, nth_error (aq_q c x) i = Some p -> False.
  Proof.
    intros x i H. destruct (a_q3 _ _ A _ _ _ H) as (E & _). rewrite (a_q4 _ _ A _ Hfrom) in E. discriminate.
  Qed.

  Section NotQueued.
    Hypothesis Hto : movable s'.
    Hypothesis Hnd : pdone s' = false.
    Hypothesis Hppc : ppc c' = upd (ppc c) p s'.
    Hypothesis Hq : aq_q c' = aq_q c.
    Hypothesis Hpenq : penq c' = penq c.
    Hypothesis Henqs : forall x, enqs x (trace c') = enqs x (trace c).

    Lemma invA_enter : invA P c'.
    Proof.
      destruct Hto as (T1 & T2).
      constructor; intros; rewrite ?Hppc, ?Hq, ?Hph, ?Hpenq, ?Hproot, ?Hpbasis, ?Hipc, ?Hspc, ?Hcomp, ?Henqs, ?Hprocs in *;
        unfold upd in *.
      - eqb_cases; eauto using (a_kp _ _ A). contradiction.
      - eauto using (a_ks _ _ A).
      - destruct (Nat.eqb_spec p0 p) as [->|Np]; [exfalso; eapply not_entry; eauto|]. apply (a_q1 _ _ A); auto.
      - apply (a_q1b _ _ A).
      - destruct (Nat.eqb_spec p0 p) as [->|Np]; [rewrite (a_q4 _ _ A _ Hfrom) in H; discriminate|]. apply (a_q2 _ _ A); auto.
      - eqb_cases; try congruence. apply (a_q2' _ _ A); auto.
      - destruct (Nat.eqb_spec p0 p) as [->|Np]; [exfalso; eapply not_entry; eauto|]. apply (a_q3 _ _ A); auto.
      - eqb_cases; try congruence. apply (a_q4 _ _ A); auto.
      - apply (a_q5 _ _ A).
      - destruct (Nat.eqb_spec p0 p) as [->|Np]; [exfalso; eapply not_entry; eauto|]. eapply (a_q8 _ _ A); eauto.
      - cid_cases p0 p; auto. apply (a_q9 _ _ A); auto.
      - destruct (Nat.eqb_spec p0 p) as [->|Np]; [|apply (a_j3 _ _ A); auto].
        pose proof (a_j3 _ _ A p H) as J. rewrite Hfrom in J. simpl in J. rewrite J.
        rewrite Hnd. reflexivity.
      - apply (a_t1 _ _ A).
      - apply (a_t2 _ _ A).
    Qed.
  End NotQueued.

  Section Queued.
    Hypothesis Hphq : aq_ph c a = AQueueing.
    Hypothesis Hppc : ppc c' = upd (ppc c) p PQueued.
    Hypothesis Hq : aq_q c' = upd (aq_q c) a (aq_q c a ++ [p]).
    Hypothesis Hpenq : penq c' = upd (penq c) p (Some (length (aq_q c a))).
    Hypothesis Henqs : forall x, enqs x (trace c') = if Nat.eqb a x then enqs x (trace c) ++ [p] else enqs x (trace c).

    Lemma invA_enqueue : invA P c'.
    Proof.
      constructor; intros; rewrite ?Hppc, ?Hq, ?Hph, ?Hpenq, ?Hproot, ?Hpbasis, ?Hipc, ?Hspc, ?Hcomp, ?Henqs, ?Hprocs in *;
        unfold upd in *.
      - eqb_cases; eauto using (a_kp _ _ A). contradiction.
      - eauto using (a_ks _ _ A).
      - (* q1 *)
        destruct (Nat.eqb_spec a0 a) as [->|Na].
        + rewrite Hphq. simpl. apply nth_error_snoc_inv in H. destruct H as [(Hl & H)|(Hl & ->)].
          * destruct (Nat.eqb_spec p0 p) as [->|Np]; [exfalso; eapply not_entry; eauto|].
            pose proof (a_q1 _ _ A _ _ _ H) as Q. rewrite Hphq in Q. exact Q.
          * rewrite Nat.eqb_refl. split; intros; auto; lia.
        + destruct (Nat.eqb_spec p0 p) as [->|Np]; [exfalso; eapply not_entry; eauto|]. apply (a_q1 _ _ A); auto.
      - destruct (Nat.eqb_spec a0 a) as [->|Na]; [|apply (a_q1b _ _ A)]. rewrite Hphq. simpl. lia.
      - (* q2 *)
        destruct (Nat.eqb_spec p0 p) as [->|Np].
        + inversion H; subst. rewrite Nat.eqb_refl. apply nth_error_snoc_eq.
        + pose proof (a_q2 _ _ A _ _ H) as Q. destruct (Nat.eqb_spec (proot c p0) a) as [E|Ne]; auto.
          rewrite E in Q. rewrite nth_error_snoc_lt; auto. apply nth_error_Some. rewrite Q. discriminate.
      - eqb_cases; try congruence. apply (a_q2' _ _ A); auto.
      - (* q3 *)
        destruct (Nat.eqb_spec a0 a) as [->|Na].
        + apply nth_error_snoc_inv in H. destruct H as [(Hl & H)|(Hl & ->)].
          * destruct (Nat.eqb_spec p0 p) as [->|Np]; [exfalso; eapply not_entry; eauto|]. apply (a_q3 _ _ A); auto.
          * rewrite Nat.eqb_refl. subst. auto.
        + destruct (Nat.eqb_spec p0 p) as [->|Np]; [exfalso; eapply not_entry; eauto|]. apply (a_q3 _ _ A); auto.
      - eqb_cases; try congruence. apply (a_q4 _ _ A); auto.
      - apply (a_q5 _ _ A).
      - (* q8 *)
        destruct (Nat.eqb_spec a0 a) as [->|Na].
        + apply nth_error_snoc_inv in H. destruct H as [(Hl & H)|(Hl & ->)].
          * destruct (Nat.eqb_spec p0 p) as [->|Np]; [exfalso; eapply not_entry; eauto|]. eapply (a_q8 _ _ A); eauto.
          * rewrite Nat.eqb_refl. lia.
        + destruct (Nat.eqb_spec p0 p) as [->|Np]; [exfalso; eapply not_entry; eauto|]. eapply (a_q8 _ _ A); eauto.
      - (* q9 *)
        cid_cases p0 p.
        + rewrite app_length. simpl. lia.
        + pose proof (a_q9 _ _ A p0 H) as Q. destruct (Nat.eqb_spec (proot c p0) a) as [E|Ne]; auto.
          rewrite app_length. rewrite E in Q. lia.
      - destruct (Nat.eqb_spec p0 p) as [->|Np]; [|apply (a_j3 _ _ A); auto].
        pose proof (a_j3 _ _ A p H) as J. rewrite Hfrom in J. simpl in J. rewrite J. reflexivity.
      - destruct (Nat.eqb_spec a a0) as [<-|Na].
        + rewrite Nat.eqb_refl. rewrite (a_t1 _ _ A). reflexivity.
        + destruct (Nat.eqb_spec a0 a); [congruence|]. apply (a_t1 _ _ A).
      - pose proof (a_t2 _ _ A a0) as Q. destruct (Nat.eqb_spec a0 a) as [->|Na]; auto.
        rewrite Hphq in *. simpl in *. exact Q.
    Qed.
  End Queued.
End Enter.

(* fulfill / reject enter the draining state; the drain loop ends *)
Section Phase.
  Variable P : params.
  Variables c c' : config.
  Variable a : cid.
  Variable i' : ipc_t.
  Variable ph' : aqphase.
  Hypothesis A : invA P c.
  Hypothesis Hipc : ipc c' = upd (ipc c) a i'.
  Hypothesis Hph : aq_ph c' = upd (aq_ph c) a ph'.
  Hypothesis Hcl : iclass i' = pclass ph'.
  Hypothesis Hidx : qidx ph' (length (aq_q c a)) = qidx (aq_ph c a) (length (aq_q c a)).
  Hypothesis Hppc : ppc c' = ppc c.
  Hypothesis Hq : aq_q c' = aq_q c.
  Hypothesis Hpenq : penq c' = penq c.
  Hypothesis Hproot : proot c' = proot c.
  Hypothesis Hpbasis : pbasis c' = pbasis c.
  Hypothesis Hspc : spc c' = spc c.
  Hypothesis Hcomp : compl c' = compl c.
  Hypothesis Henqs : forall x, enqs x (trace c') = enqs x (trace c).
  Hypothesis Hprocs : forall x, procs x (trace c') = procs x (trace c).

  Lemma invA_phase : invA P c'.
  Proof.
    constructor; intros; rewrite ?Hppc, ?Hq, ?Hph, ?Hpenq, ?Hproot, ?Hpbasis, ?Hipc, ?Hspc, ?Hcomp, ?Henqs, ?Hprocs in *;
      unfold upd in *.
    - apply (a_kp _ _ A); auto.
    - apply (a_ks _ _ A); auto.
    - destruct (Nat.eqb_spec a0 a) as [->|Na]; [rewrite Hidx|]; apply (a_q1 _ _ A); auto.
    - destruct (Nat.eqb_spec a0 a) as [->|Na]; [rewrite Hidx|]; apply (a_q1b _ _ A); auto.
    - apply (a_q2 _ _ A); auto.
    - apply (a_q2' _ _ A); auto.
    - apply (a_q3 _ _ A); auto.
    - apply (a_q4 _ _ A); auto.
    - destruct (Nat.eqb_spec a0 a) as [->|Na]; auto. apply (a_q5 _ _ A).
    - eapply (a_q8 _ _ A); eauto.
    - apply (a_q9 _ _ A); auto.
    - apply (a_j3 _ _ A); auto.
    - apply (a_t1 _ _ A).
    - destruct (Nat.eqb_spec a0 a) as [->|Na]; [rewrite Hidx|]; apply (a_t2 _ _ A).
  Qed.
End Phase.

(* only the phase of a changes, to one with the same drain index and class (the target the drain
   loop is blocked in acknowledges delivery) *)
Section Rephase.
  Variable P : params.
  Variables c c' : config.
  Variable a : cid.
  Variable ph' : aqphase.
  Hypothesis A : invA P c.
  Hypothesis Hph : aq_ph c' = upd (aq_ph c) a ph'.
  Hypothesis Hcl : pclass ph' = pclass (aq_ph c a).
  Hypothesis Hidx : qidx ph' (length (aq_q c a)) = qidx (aq_ph c a) (length (aq_q c a)).
  Hypothesis Hipc : ipc c' = ipc c.
  Hypothesis Hppc : ppc c' = ppc c.
  Hypothesis Hq : aq_q c' = aq_q c.
  Hypothesis Hpenq : penq c' = penq c.
  Hypothesis Hproot : proot c' = proot c.
  Hypothesis Hpbasis : pbasis c' = pbasis c.
  Hypothesis Hspc : spc c' = spc c.
  Hypothesis Hcomp : compl c' = compl c.
  Hypothesis Htrace : trace c' = trace c.

  Lemma invA_rephase : invA P c'.
  Proof.
    constructor; intros; rewrite ?Hppc, ?Hq, ?Hph, ?Hpenq, ?Hproot, ?Hpbasis, ?Hipc, ?Hspc, ?Hcomp, ?Htrace in *;
      unfold upd in *.
    - apply (a_kp _ _ A); auto.
    - apply (a_ks _ _ A); auto.
    - destruct (Nat.eqb_spec a0 a) as [->|Na]; [rewrite Hidx|]; apply (a_q1 _ _ A); auto.
    - destruct (Nat.eqb_spec a0 a) as [->|Na]; [rewrite Hidx|]; apply (a_q1b _ _ A); auto.
    - apply (a_q2 _ _ A); auto.
    - apply (a_q2' _ _ A); auto.
    - apply (a_q3 _ _ A); auto.
    - apply (a_q4 _ _ A); auto.
    - destruct (Nat.eqb_spec a0 a) as [->|Na]; [rewrite Hcl|]; apply (a_q5 _ _ A).
    - eapply (a_q8 _ _ A); eauto.
    - apply (a_q9 _ _ A); auto.
    - apply (a_j3 _ _ A); auto.
    - apply (a_t1 _ _ A).
    - destruct (Nat.eqb_spec a0 a) as [->|Na]; [rewrite Hidx|]; apply (a_t2 _ _ A).
  Qed.
End Rephase.
