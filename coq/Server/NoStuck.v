(* C12 — deadlock freedom: in every reachable configuration with an unfinished thread either a
   step of the library's own code is enabled or the application holds the ball (a method
   implementation is executing, or a delivered pipelined call has not been returned by its target). *)
From CV Require Import Server.Server Server.ServerProofs Server.ServerSteps Server.ServerStart Server.ServerTheorems
  Server.AqInv Server.AqFrame Server.AqSteps Server.AqPreserve Server.AqTheorems Server.Live.
From Coq Require Import List Arith Bool Lia.
Import ListNotations.

Lemma invD_reachable : forall P c, reachable P c -> invD P c.
Proof.
  induction 1. apply invD_init.
  eapply invD_step; eauto. apply inv_reachable; auto. apply invA_reachable; auto.
Qed.

(* a step of library code (not: a caller entering a call, the application calling Shutdown, an
   implementation acknowledging / returning, a target returning, a context being cancelled) *)
Definition lib_step (c : config) (t : tid) : Prop :=
  match t with
  | TStart x => spc c x <> S0
  | TPipe p => ppc c p <> PInit
  | TShutdown => shpc c <> ShInit
  | TImpl _ | TEmb _ => True
  | _ => False
  end.

Definition lib_enabled (P : params) (c : config) : Prop :=
  exists t, lib_step c t /\ step P c t <> None.

Definition busy_start (c : config) (x : cid) : Prop := spc c x <> S0 /\ spc c x <> SDone.
Definition busy_impl (c : config) (x : cid) : Prop := ipc c x <> INone /\ ipc c x <> IDone.
Definition busy_pipe (c : config) (p : cid) : Prop := ppc c p <> PInit /\ ppc c p <> PDone.
Definition busy_shut (c : config) : Prop := shpc c = ShWait \/ shpc c = ShUser.

(* some thread has begun and not finished *)
Definition live (c : config) : Prop :=
  (exists x, busy_start c x \/ busy_impl c x \/ busy_pipe c x) \/ busy_shut c.

(* the application holds the ball *)
Definition app_pending (c : config) : Prop :=
  (exists x, in_impl (ipc c x) = true) \/ (exists p, ppc c p = PDelivered \/ ppc c p = PDirect)
  \/ (exists a k, aq_ph c a = ADrainWait k).

Definition progress (P : params) (c : config) : Prop := lib_enabled P c \/ app_pending c.

Section NoStuck.
  Variable P : params.
  Variable c : config.
  Hypothesis Hmax : 1 <= p_max P.
  Hypothesis I : inv P c.
  Hypothesis A : invA P c.
  Hypothesis D : invD P c.

  Lemma deliver_some : forall a p b k e cc, Some (deliver a p b k e cc) <> None.
  Proof. intros; discriminate. Qed.

  Lemma L_impl : forall x, busy_impl c x -> progress P c.
  Proof.
    intros x (H1 & H2). destruct (ipc c x) eqn:Ei; try congruence.
    - right. left. exists x. rewrite Ei. reflexivity.
    - right. left. exists x. rewrite Ei. reflexivity.
    - left. exists (TImpl x). split; simpl; auto. unfold step_impl. rewrite Ei. discriminate.
    - pose proof (a_q5 _ _ A x) as Q. rewrite Ei in Q.
      destruct (aq_ph c x) eqn:Eph; simpl in Q; try discriminate.
      + left. exists (TImpl x). split; simpl; auto. unfold step_impl. rewrite Ei, Eph.
        destruct (nth_error (aq_q c x) k); [destruct (ierr c x)|]; discriminate.
      + right. right. right. eauto.
    - left. exists (TImpl x). split; simpl; auto. unfold step_impl. rewrite Ei. discriminate.
    - left. exists (TImpl x). split; simpl; auto. unfold step_impl. rewrite Ei. discriminate.
    - left. exists (TImpl x). split; simpl; auto. unfold step_impl. rewrite Ei. discriminate.
  Qed.

  Lemma L_slot : forall i y, nth_error (ongoing c) i = Some (Some y) -> progress P c.
  Proof.
    intros i y H. destruct (i_slot1 _ _ I _ _ H) as (Hs & _). apply (L_impl y).
    split; intros E; rewrite E in Hs; discriminate.
  Qed.

  Lemma kind_of_started : forall x, spc c x <> S0 -> p_kind P x = Direct.
  Proof.
    intros x H. destruct (p_kind P x) eqn:E; auto. exfalso. apply H. apply (a_ks _ _ A). congruence.
  Qed.

  (* a start goroutine that holds the gate *)
  Lemma L_holder : forall x, holds_gate (spc c x) = true -> progress P c.
  Proof.
    intros x H.
    assert (K : p_kind P x = Direct) by (apply kind_of_started; intros E; rewrite E in H; discriminate).
    destruct (spc c x) eqn:Es; try discriminate.
    - (* SWaitFull: every slot is taken, and there is at least one *)
      pose proof (i_fullslots _ _ I _ Es) as Hn.
      assert (Hl : 0 < length (ongoing c)) by (rewrite (i_len _ _ I); lia).
      destruct (nth_error (ongoing c) 0) as [[y|]|] eqn:E0.
      + eapply L_slot; eauto.
      + exfalso. eapply next_id_none; eauto.
      + apply nth_error_None in E0. lia.
    - (* SFullWoken *)
      left. exists (TStart x). split; [simpl; congruence|]. simpl. unfold step_start. rewrite K, Es.
      pose proof (i_woken _ _ I _ Es) as Hn.
      destruct (next_id (ongoing c)); [|congruence]. destruct (drain c); discriminate.
    - (* SWaitAck *)
      pose proof (i_ack _ _ I _ Es) as Hn.
      destruct (ipc c x) eqn:Ei; try congruence.
      all: try (apply (L_impl x); split; congruence).
      left. exists (TStart x). split; [simpl; congruence|]. simpl. unfold step_start. rewrite K, Es.
      assert (Hd : idone c x = true) by (apply (i_idone _ _ I); auto).
      rewrite Hd. rewrite orb_true_r. discriminate.
  Qed.

  Lemma enter_start_some : forall x cc, Some (enter_start x cc) <> None.
  Proof. intros; discriminate. Qed.

  Lemma L_start : forall x, busy_start c x -> progress P c.
  Proof.
    intros x (H1 & H2).
    assert (K : p_kind P x = Direct) by (apply kind_of_started; auto).
    destruct (spc c x) eqn:Es; try congruence.
    - (* SWaitGate h *)
      destruct (gate_rel c h) eqn:Eg.
      + left. exists (TStart x). split; [simpl; congruence|]. simpl. unfold step_start. rewrite K, Es, Eg. discriminate.
      + destruct (i_gaterel _ _ I _ _ Es) as [E|E]; [congruence|].
        apply (L_holder h). apply (i_gate2 _ _ I); auto.
    - apply (L_holder x). rewrite Es. reflexivity.
    - apply (L_holder x). rewrite Es. reflexivity.
    - apply (L_holder x). rewrite Es. reflexivity.
  Qed.

  Lemma L_shut : busy_shut c -> progress P c.
  Proof.
    intros [H|H].
    - destruct (drain c) eqn:Ed.
      + exfalso. apply (i_shwait _ _ I H). auto.
      + destruct (i_dopen _ _ I Ed) as (_ & Ho). apply has_ongoing_true in Ho.
        destruct Ho as (i & y & Hy). eapply L_slot; eauto.
      + left. exists TShutdown. split; [simpl; congruence|]. simpl. unfold step_shutdown. rewrite H, Ed. discriminate.
    - left. exists TShutdown. split; [simpl; congruence|]. simpl. unfold step_shutdown. rewrite H. discriminate.
  Qed.

  (* the answer a pipelined call waits for has not finished draining: its goroutine is busy *)
  Lemma L_root : forall a, ipc c a <> INone -> aq_ph c a <> ADrained -> progress P c.
  Proof.
    intros a Hn Hp. apply (L_impl a). split; auto.
    intros E. pose proof (a_q5 _ _ A a) as Q. rewrite E in Q.
    destruct (aq_ph c a); simpl in Q; try discriminate. congruence.
  Qed.

  Lemma L_pipe : forall p, busy_pipe c p -> progress P c.
  Proof.
    intros p (H1 & H2).
    assert (K : exists on, p_kind P p = Pipe on).
    { destruct (p_kind P p) eqn:E; eauto. exfalso. apply H1. apply (a_kp _ _ A); auto. }
    destruct K as (on & K).
    pose proof (d_root _ _ D p H1) as Hr.
    destruct (ppc c p) eqn:Ep; try congruence.
    - (* PWaitDrain *)
      destruct (aq_ph c (proot c p)) eqn:Eph.
      + apply (L_root (proot c p)); auto. congruence.
      + left. exists (TPipe p). split; [simpl; congruence|]. simpl. unfold step_pipe. rewrite K, Ep, Eph. discriminate.
      + left. exists (TPipe p). split; [simpl; congruence|]. simpl. unfold step_pipe. rewrite K, Ep, Eph. discriminate.
      + left. exists (TPipe p). split; [simpl; congruence|]. simpl. unfold step_pipe. rewrite K, Ep, Eph. discriminate.
    - (* PWaitReady *)
      destruct (ready_closed c (proot c p)) eqn:Er.
      + left. exists (TPipe p). split; [simpl; congruence|]. simpl. unfold step_pipe. rewrite K, Ep, Er. discriminate.
      + apply (L_root (proot c p)); auto. intros E. unfold ready_closed in Er. rewrite E in Er. discriminate.
    - (* PQueued *)
      assert (Hq : penq c p <> None) by (apply (a_q2' _ _ A); auto).
      destruct (penq c p) as [i|] eqn:Eq; [|congruence].
      pose proof (a_q2 _ _ A _ _ Eq) as Hn.
      apply (L_root (proot c p)); auto. intros E.
      pose proof (proj1 (a_q1 _ _ A _ _ _ Hn) Ep) as Q. rewrite E in Q. simpl in Q.
      assert (i < length (aq_q c (proot c p))) by (apply nth_error_Some; rewrite Hn; discriminate). lia.
    - right. right. left. exists p. auto.
    - (* PEmbRet *)
      destruct (aq_ph c (proot c p)) eqn:Eph.
      + apply (L_root (proot c p)); auto. congruence.
      + apply (L_root (proot c p)); auto. congruence.
      + left. exists (TEmb p). split; [simpl; auto|]. simpl. unfold step_emb. rewrite Ep, Eph.
        pose proof (d_tret _ _ D p Ep). destruct (tret c p); try congruence; discriminate.
      + apply (L_root (proot c p)); auto. congruence.
    - right. right. left. exists p. auto.
  Qed.

  Lemma no_stuck_inv : live c -> progress P c.
  Proof.
    intros [(x & [H|[H|H]])|H].
    - eapply L_start; eauto.
    - eapply L_impl; eauto.
    - eapply L_pipe; eauto.
    - apply L_shut; auto.
  Qed.
End NoStuck.

Lemma no_stuck_lemma : forall P c, 1 <= p_max P -> reachable P c -> live c -> lib_enabled P c \/ app_pending c.
Proof.
  intros P c Hm R L. apply no_stuck_inv; auto.
  apply inv_reachable; auto. apply invA_reachable; auto. apply invD_reachable; auto.
Qed.

(* when the application holds the ball it can move: implementations can return, targets can return *)
Lemma app_can_move_lemma : forall P c, app_pending c ->
  exists t, (exists x e, t = TRet x e \/ t = TTargetRet x e \/ t = TDrainAck x) /\ step P c t <> None.
Proof.
  intros P c [(x & H)|[(p & H)|(a & k & H)]].
  - exists (TRet x false). split; [eauto|]. simpl. unfold step_ret. destruct (ipc c x); try discriminate; discriminate.
  - exists (TTargetRet p false). split; [eauto 6|]. simpl. unfold step_target_ret. destruct H as [-> | ->]; discriminate.
  - exists (TDrainAck a). split; [exists a, false; auto|]. simpl. unfold step_drain_ack. rewrite H. discriminate.
Qed.
