(* C12 — delivery-target theorems (repaired code) and the separating witness for the code before
   the fix. *)
From CV Require Import Server.Server Server.ServerProofs Server.ServerSteps Server.ServerStart Server.ServerTheorems
  Server.AqInv Server.AqTheorems Server.Target Server.ServerExamples.
From Coq Require Import List Arith Bool Lia.
Import ListNotations.

Lemma invB_reachable : forall P c, p_fixed P = true -> reachable P c -> invB P c.
Proof.
  intros P c F. induction 1. apply invB_init.
  eapply invB_step; eauto. apply inv_reachable; auto. apply invA_reachable; auto.
Qed.

(* every delivery ever recorded went to the answer the call was pipelined on: to a capability in
   the result of [on], or - only if [on] is itself a pipelined call that is delivered and still
   running - to [on]'s pipeline caller *)
Lemma delivery_target_lemma : forall P c p d on, p_fixed P = true -> reachable P c ->
  In (EvDeliver p d) (trace c) -> p_kind P p = Pipe on ->
  d = DRes on \/ (d = DFwd on /\ p_kind P on <> Direct).
Proof.
  intros P c p d on F R H K. apply delivs_in in H.
  destruct (b_deliv _ _ (invB_reachable P c F R) p d H) as (on' & K' & Hd).
  assert (on' = on) by congruence. subst. exact Hd.
Qed.

(* only pipelined calls are ever delivered *)
Lemma delivered_is_pipelined_lemma : forall P c p d, p_fixed P = true -> reachable P c ->
  In (EvDeliver p d) (trace c) -> exists on, p_kind P p = Pipe on.
Proof.
  intros P c p d F R H. apply delivs_in in H.
  destruct (b_deliv _ _ (invB_reachable P c F R) p d H) as (on & K & _). eauto.
Qed.

(* the basis recorded when a call enters queueCaller.PipelineRecv: 0 for a call on a direct call's
   answer; 1 + the queue position of the queued call it was pipelined on otherwise *)
Lemma basis_recorded_lemma : forall P c p on, p_fixed P = true -> reachable P c ->
  p_kind P p = Pipe on -> ppc c p <> PInit -> basis_ok P c p on.
Proof. intros P c p on F R K H. apply (b_basis _ _ (invB_reachable P c F R)); auto. Qed.

(* the code before the fix: the statement of delivery_target_lemma FAILS at p_fixed = false *)
Lemma delivery_target_refuted :
  exists c p d on, reachable (ex_params false) c /\ In (EvDeliver p d) (trace c) /\
                   p_kind (ex_params false) p = Pipe on /\ d <> DRes on /\ d <> DFwd on.
Proof.
  exists (run (ex_params false) (init (ex_params false)) ex_sched), 2, (DRes 0), 1.
  split; [apply run_reachable; constructor|].
  split; [vm_compute; left; reflexivity|].
  split; [reflexivity|]. split; discriminate.
Qed.
