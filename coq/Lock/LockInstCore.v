(* The per-run obligation for the lock-bearing code below the RPC layer (answer.go,
   capability.go, server/server.go, server/answer.go): the regenerated lock programs are
   accepted by the verified checker. *)
From Coq Require Import List String.
From CV Require Import Lock.LockCheck Lock.LockCheckProofs Gen.LockProgsCore.

Lemma core_ok : check_prog core_prog = true.
Proof. vm_compute. reflexivity. Qed.
