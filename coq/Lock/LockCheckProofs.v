(* Soundness of the lock-program checker, once for all programs. *)
From Coq Require Import List Arith Bool String Lia.
From CV Require Import Lock.LockCheck.
Import ListNotations.

Definition sound (r : result) (rs : list cres) : Prop :=
  match r with
  | RNorm σ => In (CNorm σ) rs
  | RBrk σ => In (CBrk σ) rs
  | RCont σ => In (CCont σ) rs
  | RRet o σ => In (CRet o σ) rs
  | RAbort => True
  | RFail _ => False
  end.

Lemma sound_incl r a b : sound r a -> incl a b -> sound r b.
Proof. destruct r; cbn; auto. Qed.

Lemma bind_all_spec {A} (f : A -> option (list cres)) : forall l rs,
  bind_all f l = Some rs -> forall a, In a l -> exists ra, f a = Some ra /\ incl ra rs.
Proof.
  induction l as [|x l IH]; intros rs H a Ha; cbn in *; [contradiction|].
  destruct (f x) as [rx|] eqn:Hx; [|discriminate].
  destruct (bind_all f l) as [rl|] eqn:Hl; [|discriminate].
  inversion H; subst. destruct Ha as [->|Ha].
  - exists rx. split; auto. apply incl_appl, incl_refl.
  - destruct (IH _ eq_refl _ Ha) as (ra & Hfa & Hi). exists ra. split; auto.
    apply incl_appr; exact Hi.
Qed.

Lemma dedup_spec o rs : dedup o = Some rs -> exists l, o = Some l /\ incl l rs.
Proof.
  destruct o as [l|]; cbn; [|discriminate]. intros H. inversion H; subst.
  exists l. split; auto. intros x Hx. now apply nodup_In.
Qed.

Lemma list_eqb_true a b : list_eqb a b = true -> a = b.
Proof. unfold list_eqb. destruct (list_eq_dec Nat.eq_dec a b); auto. discriminate. Qed.

Lemma state_eqb_true a b : state_eqb a b = true -> a = b.
Proof. unfold state_eqb. destruct (state_eq_dec a b); auto. discriminate. Qed.

Lemma find_case_spec fd σ c : find_case fd σ = Some c ->
  In c (f_cases fd) /\ init c = entry_of σ.
Proof.
  unfold find_case. intros H. apply find_some in H. destruct H as [Hin Hm]. split; auto.
  unfold case_matches in Hm. apply andb_prop in Hm. destruct Hm as [Hm Hc].
  apply andb_prop in Hm. destruct Hm as [Hm Hn].
  apply andb_prop in Hm. destruct Hm as [Hh Hs].
  apply list_eqb_true in Hh. apply Bool.eqb_prop in Hs, Hc. apply Nat.eqb_eq in Hn.
  unfold init, entry_of. now rewrite Hh, Hs, Hn, Hc.
Qed.

Lemma exit_matches_spec o σ e : exit_matches o σ e = true ->
  e_out e = o /\ e_held e = held σ /\ e_sender e = sender σ /\ e_tasks e = tasks σ.
Proof.
  unfold exit_matches. intros H.
  apply andb_prop in H. destruct H as [H Ht].
  apply andb_prop in H. destruct H as [H Hs].
  apply andb_prop in H. destruct H as [Ho Hh].
  apply Nat.eqb_eq in Ho, Ht. apply list_eqb_true in Hh. apply Bool.eqb_prop in Hs. auto.
Qed.

Arguments dedup : simpl never.

Section Sound.
Variable P : prog.
Hypothesis Hprog : check_prog P = true.

Lemma prog_fn f fd : nth_error P f = Some fd -> check_fn P fd = true.
Proof.
  intros H. unfold check_prog in Hprog. rewrite forallb_forall in Hprog.
  apply Hprog. eapply nth_error_In; eauto.
Qed.

Lemma prog_case f fd b c : nth_error P f = Some fd -> f_body fd = Some b -> In c (f_cases fd) ->
  exists rs, chk P b (init c) = Some rs /\ forall r, In r rs -> exit_ok c r = true.
Proof.
  intros Hf Hb Hc. pose proof (prog_fn _ _ Hf) as H. unfold check_fn in H.
  apply andb_prop in H. destruct H as [_ H]. rewrite Hb in H.
  rewrite forallb_forall in H. specialize (H _ Hc). unfold check_case in H.
  destruct (chk P b (init c)) as [rs|]; [|discriminate].
  exists rs. split; auto. now rewrite forallb_forall in H.
Qed.

(* the outcome of a checked body is one of the exits of the contract case *)
Lemma exit_of_ret c rs rb o σc :
  (forall r, In r rs -> exit_ok c r = true) -> sound rb rs -> ret_of rb = Some (o, σc) ->
  exists e, In e (c_exits c) /\ e_out e = o /\ e_held e = held σc /\
            e_sender e = sender σc /\ e_tasks e = tasks σc.
Proof.
  intros Hok Hs Hr. destruct rb; cbn in Hr; try discriminate; inversion Hr; subst; cbn in Hs;
    specialize (Hok _ Hs); cbn in Hok; apply existsb_exists in Hok;
    destruct Hok as (e & Hin & Hm); apply exit_matches_spec in Hm; exists e; tauto.
Qed.

Lemma after_merge σ σc e :
  e_held e = held σc -> e_sender e = sender σc -> e_tasks e = tasks σc -> after σ e = merge σ σc.
Proof. intros H1 H2 H3. unfold after, merge. now rewrite H1, H2, H3. Qed.

Lemma chk_sound : forall s σ r, exec P s σ r -> forall rs, chk P s σ = Some rs -> sound r rs.
Proof.
  induction 1; intros rs Hc; cbn in Hc.
  - (* Skip *) inversion Hc; subst. cbn. auto.
  - (* Act *) rewrite H in Hc. inversion Hc; subst. cbn. auto.
  - (* ActFail *) rewrite H in Hc. discriminate.
  - (* Seq *)
    destruct (chk P s1 σ) as [r1|] eqn:H1; [|discriminate].
    apply dedup_spec in Hc. destruct Hc as (l & Hl & Hi).
    pose proof (IHexec1 _ eq_refl) as Hs1. cbn in Hs1.
    destruct (bind_all_spec _ _ _ Hl _ Hs1) as (ra & Hra & Hia).
    eapply sound_incl; [apply IHexec2; exact Hra|]. eapply incl_tran; eauto.
  - (* SeqStop *)
    destruct (chk P s1 σ) as [r1|] eqn:H1; [|discriminate].
    apply dedup_spec in Hc. destruct Hc as (l & Hl & Hi).
    pose proof (IHexec _ eq_refl) as Hs1.
    destruct r; cbn in H0; try discriminate; cbn in Hs1 |- *; auto;
      destruct (bind_all_spec _ _ _ Hl _ Hs1) as (ra & Hra & Hia);
      inversion Hra; subst; apply Hi, Hia; left; reflexivity.
  - (* ChoiceL *)
    destruct (chk P s1 σ) as [a|] eqn:H1; [|discriminate].
    destruct (chk P s2 σ) as [b|] eqn:H2; [|discriminate].
    apply dedup_spec in Hc. destruct Hc as (l & Hl & Hi). inversion Hl; subst.
    eapply sound_incl; [apply IHexec; reflexivity|].
    eapply incl_tran; [apply incl_appl, incl_refl|exact Hi].
  - (* ChoiceR *)
    destruct (chk P s1 σ) as [a|] eqn:H1; [|discriminate].
    destruct (chk P s2 σ) as [b|] eqn:H2; [|discriminate].
    apply dedup_spec in Hc. destruct Hc as (l & Hl & Hi). inversion Hl; subst.
    eapply sound_incl; [apply IHexec; reflexivity|].
    eapply incl_tran; [apply incl_appr, incl_refl|exact Hi].
  - (* LoopExit *)
    destruct (chk P b σ) as [rb|] eqn:Hb; [|discriminate].
    destruct (forallb (loop_back_ok σ) rb); [|discriminate].
    apply dedup_spec in Hc. destruct Hc as (l & Hl & Hi). inversion Hl; subst.
    cbn. apply Hi. left. reflexivity.
  - (* LoopIter *)
    destruct (chk P b σ) as [rb|] eqn:Hb; [|discriminate].
    destruct (forallb (loop_back_ok σ) rb) eqn:Hf; [|discriminate].
    pose proof (IHexec1 _ eq_refl) as Hs1. cbn in Hs1.
    pose proof Hf as Hf0.
    rewrite forallb_forall in Hf. specialize (Hf _ Hs1). cbn in Hf.
    apply state_eqb_true in Hf. subst σ1.
    apply IHexec2. cbn. rewrite Hb, Hf0. exact Hc.
  - (* LoopCont *)
    destruct (chk P b σ) as [rb|] eqn:Hb; [|discriminate].
    destruct (forallb (loop_back_ok σ) rb) eqn:Hf; [|discriminate].
    pose proof (IHexec1 _ eq_refl) as Hs1. cbn in Hs1.
    pose proof Hf as Hf0.
    rewrite forallb_forall in Hf. specialize (Hf _ Hs1). cbn in Hf.
    apply state_eqb_true in Hf. subst σ1.
    apply IHexec2. cbn. rewrite Hb, Hf0. exact Hc.
  - (* LoopBrk *)
    destruct (chk P b σ) as [rb|] eqn:Hb; [|discriminate].
    destruct (forallb (loop_back_ok σ) rb); [|discriminate].
    apply dedup_spec in Hc. destruct Hc as (l & Hl & Hi). inversion Hl; subst.
    pose proof (IHexec _ eq_refl) as Hs1. cbn in Hs1 |- *.
    apply Hi. right. apply in_flat_map. exists (CBrk σ1). split; auto. cbn. auto.
  - (* LoopRet *)
    destruct (chk P b σ) as [rb|] eqn:Hb; [|discriminate].
    destruct (forallb (loop_back_ok σ) rb); [|discriminate].
    apply dedup_spec in Hc. destruct Hc as (l & Hl & Hi). inversion Hl; subst.
    pose proof (IHexec _ eq_refl) as Hs1. cbn in Hs1 |- *.
    apply Hi. right. apply in_flat_map. exists (CRet o σ1). split; auto. cbn. auto.
  - (* LoopAbort *) cbn. auto.
  - (* LoopFail *)
    destruct (chk P b σ) as [rb|] eqn:Hb; [|discriminate].
    exact (IHexec _ eq_refl).
  - (* Break *) inversion Hc; subst. cbn. auto.
  - (* Continue *) inversion Hc; subst. cbn. auto.
  - (* Return *) inversion Hc; subst. cbn. auto.
  - (* Panic *) cbn. auto.
  - (* Call with body *)
    rewrite H in Hc.
    destruct (find_case fd σ) as [c|] eqn:Hfc; [|discriminate].
    apply dedup_spec in Hc. destruct Hc as (l & Hl & Hi).
    destruct (find_case_spec _ _ _ Hfc) as [Hin Hinit].
    destruct (prog_case _ _ _ _ H H0 Hin) as (rsb & Hchk & Hex).
    rewrite Hinit in Hchk.
    pose proof (IHexec1 _ Hchk) as Hsb.
    destruct (exit_of_ret _ _ _ _ _ Hex Hsb H2) as (e & Hein & Ho & Hh & Hs & Ht).
    destruct (bind_all_spec _ _ _ Hl _ Hein) as (ra & Hra & Hia).
    rewrite Ho, (after_merge _ _ _ Hh Hs Ht) in Hra.
    eapply sound_incl; [apply IHexec2; exact Hra|]. eapply incl_tran; eauto.
  - (* CallAbort *) cbn. auto.
  - (* CallFail *)
    rewrite H in Hc.
    destruct (find_case fd σ) as [c|] eqn:Hfc; [|discriminate].
    destruct (find_case_spec _ _ _ Hfc) as [Hin Hinit].
    destruct (prog_case _ _ _ _ H H0 Hin) as (rsb & Hchk & Hex).
    rewrite Hinit in Hchk. exact (IHexec _ Hchk).
  - (* CallIll *)
    rewrite H in Hc.
    destruct (find_case fd σ) as [c|] eqn:Hfc; [|discriminate].
    destruct (find_case_spec _ _ _ Hfc) as [Hin Hinit].
    destruct (prog_case _ _ _ _ H H0 Hin) as (rsb & Hchk & Hex).
    rewrite Hinit in Hchk. pose proof (IHexec _ Hchk) as Hsb.
    destruct H2 as (σ1 & [-> | ->]); cbn in Hsb; specialize (Hex _ Hsb); discriminate.
  - (* CallEnv *)
    rewrite H in Hc. rewrite H1 in Hc.
    apply dedup_spec in Hc. destruct Hc as (l & Hl & Hi).
    destruct (bind_all_spec _ _ _ Hl _ H2) as (ra & Hra & Hia).
    eapply sound_incl; [apply IHexec; exact Hra|]. eapply incl_tran; eauto.
  - (* CallEnvPre *) rewrite H, H1 in Hc. discriminate.
  - (* CallUndef *) rewrite H in Hc. discriminate.
  - (* Spawn *)
    rewrite H, H0 in Hc. apply Nat.leb_le in H1. rewrite H1 in Hc. inversion Hc; subst. cbn. auto.
  - (* SpawnUnder *)
    rewrite H, H0 in Hc. destruct (Nat.leb n (tasks σ)) eqn:E; [|discriminate].
    apply Nat.leb_le in E. lia.
  - (* SpawnIll *)
    destruct H as [H | (fd & H & H')]; rewrite H in Hc; [discriminate|].
    rewrite H' in Hc. discriminate.
Qed.

(* THE soundness theorem.  For a program accepted by the checker, every execution of every
   function body from every entry state allowed by its contract
     - never fails: (a) no Unlock of a mutex not held, (b) no Lock of a mutex already held,
       (d) no transport operation / application call-out / blocking wait while a mutex is held,
       sender lock taken and released consistently and only under Conn.mu, outbound transport
       operations only with the sender lock, no Done or hand-over of a task obligation the
       function does not own, contract-only functions called only in allowed states;
     - (c) when it returns, the locks held and the obligations owned are an exit of the
       contract case (for the outcome returned);
     - does not leave a break/continue behind. *)
Theorem check_sound : forall f fd b c r,
  nth_error P f = Some fd -> f_body fd = Some b -> In c (f_cases fd) ->
  exec P b (init c) r ->
  (forall v, r <> RFail v) /\
  (forall o σ, ret_of r = Some (o, σ) ->
     exists e, In e (c_exits c) /\ e_out e = o /\ e_held e = held σ /\
               e_sender e = sender σ /\ e_tasks e = tasks σ) /\
  (forall σ, r <> RBrk σ /\ r <> RCont σ).
Proof.
  intros f fd b c r Hf Hb Hc Hex.
  destruct (prog_case _ _ _ _ Hf Hb Hc) as (rs & Hchk & Hok).
  pose proof (chk_sound _ _ _ Hex _ Hchk) as Hs.
  repeat split.
  - intros v ->. exact Hs.
  - intros o σ Hr. eapply exit_of_ret; eauto.
  - intros ->. cbn in Hs. specialize (Hok _ Hs). discriminate.
  - intros ->. cbn in Hs. specialize (Hok _ Hs). discriminate.
Qed.

(* exported methods, handlers, goroutine bodies, callbacks: entered with nothing, and every
   return leaves no mutex, no sender lock and no task obligation behind *)
Theorem api_exits_empty : forall f fd b c r o σ,
  nth_error P f = Some fd -> f_api fd = true -> f_body fd = Some b -> In c (f_cases fd) ->
  exec P b (init c) r -> ret_of r = Some (o, σ) ->
  c_held c = [] /\ c_sender c = false /\ held σ = [] /\ sender σ = false /\ tasks σ = 0.
Proof.
  intros f fd b c r o σ Hf Hapi Hb Hc Hex Hr.
  destruct (check_sound _ _ _ _ _ Hf Hb Hc Hex) as (_ & Hexit & _).
  destruct (Hexit _ _ Hr) as (e & Hein & _ & Hh & Hs & Ht).
  pose proof (prog_fn _ _ Hf) as H. unfold check_fn in H. apply andb_prop in H.
  destruct H as [H _]. rewrite Hapi in H. rewrite forallb_forall in H. specialize (H _ Hc).
  unfold api_case_ok in H. destruct (c_held c) eqn:Hch; [|discriminate].
  apply andb_prop in H. destruct H as [Hcs He]. rewrite forallb_forall in He.
  specialize (He _ Hein). unfold exit_empty in He.
  destruct (e_held e) eqn:Heh; [|discriminate]. apply andb_prop in He. destruct He as [He1 He2].
  apply Nat.eqb_eq in He2. apply negb_true_iff in He1, Hcs.
  repeat split; auto; congruence.
Qed.
End Sound.

(* every task obligation created (tasks.Add) is discharged (Done), handed to a spawned body or
   to the Returner on every path: nothing is left at the exits of api functions and Done is
   never called without an obligation *)
Theorem tasks_balanced_sound : forall P, check_prog P = true ->
  forall f fd b c r,
  nth_error P f = Some fd -> f_body fd = Some b -> In c (f_cases fd) ->
  exec P b (init c) r ->
  r <> RFail VTasksUnderflow /\
  (f_api fd = true -> forall o σ, ret_of r = Some (o, σ) -> tasks σ = 0).
Proof.
  intros P HP f fd b c r Hf Hb Hc Hex. split.
  - destruct (check_sound P HP _ _ _ _ _ Hf Hb Hc Hex) as (Hnf & _). apply Hnf.
  - intros Hapi o σ Hr.
    destruct (api_exits_empty P HP _ _ _ _ _ _ _ Hf Hapi Hb Hc Hex Hr) as (_ & _ & _ & _ & Ht).
    exact Ht.
Qed.

(* ---- non-vacuity: a small program in the style of rpc.go that the checker accepts, one it
   rejects, and real executions of both ---------------------------------------------------- *)
Definition demo_trylock : fdef :=   (* 0: tryLockSender: mu -> ok: mu+sender | err: mu *)
  mkF "tryLockSender" false [mkC [0] false 0 [mkE 0 [0] true 0; mkE 1 [0] false 0]]
    (Some (SSeq (SLoop (SSeq (SChoice (SReturn 1) SSkip)
                        (SSeq (SChoice SBreak SSkip)
                        (SSeq (SAct (AUnlock 0)) (SSeq (SAct AWait) (SAct (ALock 0)))))))
                (SSeq (SAct AAcqSender) (SReturn 0)))).
Definition demo_unlock : fdef :=    (* 1: unlockSender *)
  mkF "unlockSender" false [mkC [0] true 0 [mkE 0 [0] false 0]] (Some (SAct ARelSender)).
Definition demo_send (leak : bool) : fdef :=   (* 2: an exported method *)
  mkF "Send" true [mkC [] false 0 [mkE 0 [] false 0]]
    (Some (SSeq (SAct (ALock 0))
          (SCall 0
             (* ok *) (SSeq (SAct (AUnlock 0)) (SSeq (SAct ATransport)
                      (SSeq (SAct (ALock 0))
                      (SSeq (if leak then SChoice (SSeq (SAct (AUnlock 0)) (SReturn 0)) SSkip else SSkip)
                      (SSeq (SCall 1 SSkip SSkip) (SSeq (SAct (AUnlock 0)) (SReturn 0)))))))
             (* err *) (SSeq (SAct (AUnlock 0)) (SReturn 0))))).
Definition demo_prog (leak : bool) : prog := [demo_trylock; demo_unlock; demo_send leak].

Example demo_accepted : check_prog (demo_prog false) = true.
Proof. vm_compute. reflexivity. Qed.

Example demo_leak_rejected : check_prog (demo_prog true) = false.
Proof. vm_compute. reflexivity. Qed.

(* the hypotheses of check_sound are satisfiable: an accepted body has executions *)
Example demo_execution : exists σ,
  exec (demo_prog false) (SSeq (SAct (ALock 0)) (SCall 0 (SAct (AUnlock 0)) (SAct (AUnlock 0))))
       (mkS [] false 0) (RNorm σ) /\ held σ = [] /\ sender σ = false.
Proof.
  eexists. split.
  - eapply E_Seq. { apply E_Act. reflexivity. }
    eapply E_Call with (o := 1) (rb := RRet 1 (mkS [0] false 0)); [reflexivity | reflexivity | | reflexivity | ].
    + (* tryLockSender gives up in the first iteration *)
      cbn. eapply E_SeqStop; [|reflexivity].
      apply E_LoopRet. eapply E_SeqStop; [|reflexivity]. apply E_ChoiceL. apply E_Return.
    + cbn. apply E_Act. reflexivity.
  - split; reflexivity.
Qed.

(* ---- sequences of API calls from a thread that holds nothing ------------------------------- *)
Definition empty_state : state := mkS [] false 0.

Fixpoint calls (l : list nat) : stmt :=
  match l with
  | [] => SSkip
  | f :: r => SSeq (SCall f SSkip SSkip) (calls r)
  end.

(* f is an api function with a body that can be called by a thread holding nothing *)
Definition api_callable (P : prog) (f : nat) : bool :=
  match nth_error P f with
  | Some fd => f_api fd && (match f_body fd with Some _ => true | None => false end) &&
               (match find_case fd empty_state with Some _ => true | None => false end)
  | None => false
  end.

Section ApiCalls.
Variable P : prog.
Hypothesis HP : check_prog P = true.

Lemma api_call_sound f r : api_callable P f = true ->
  exec P (SCall f SSkip SSkip) empty_state r -> r = RNorm empty_state \/ r = RAbort.
Proof.
  unfold api_callable. destruct (nth_error P f) as [fd|] eqn:Hf; [|discriminate].
  destruct (f_body fd) as [b|] eqn:Hb; [|rewrite andb_false_r; discriminate].
  destruct (find_case fd empty_state) as [c|] eqn:Hc; [|rewrite andb_false_r; discriminate].
  rewrite !andb_true_r. intros Hapi Hex.
  destruct (find_case_spec _ _ _ Hc) as [Hin Hinit].
  inversion Hex; subst;
    repeat match goal with
    | H1 : nth_error P f = Some _, H2 : nth_error P f = Some _ |- _ =>
        rewrite H1 in H2; inversion H2; subst; clear H2
    | H1 : nth_error P f = Some _, H2 : nth_error P f = None |- _ => rewrite H1 in H2; discriminate
    | H1 : f_body ?x = Some _, H2 : f_body ?x = Some _ |- _ =>
        rewrite H1 in H2; inversion H2; subst; clear H2
    | H1 : f_body ?x = Some _, H2 : f_body ?x = None |- _ => rewrite H1 in H2; discriminate
    | H : exec P _ (entry_of empty_state) _ |- _ => rewrite <- Hinit in H
    end.
  - (* the body returned *)
    match goal with
    | Hb' : exec P _ (init c) ?rb, Hr : ret_of ?rb = Some (?o, ?σc),
      Hk : exec P (branch ?o SSkip SSkip) _ r |- _ =>
        destruct (api_exits_empty P HP _ _ _ _ _ _ _ Hf Hapi Hb Hin Hb' Hr) as (_ & _ & Hh & Hs & Ht);
        assert (Hm : merge empty_state σc = empty_state)
          by (unfold merge, empty_state; cbn; now rewrite Hh, Hs, Ht);
        rewrite Hm in Hk;
        assert (Hbr : branch o SSkip SSkip = SSkip) by (destruct o; reflexivity);
        rewrite Hbr in Hk; inversion Hk; subst
    end. now left.
  - now right.
  - (* failure inside the body: excluded by soundness *)
    match goal with
    | Hb' : exec P _ (init c) (RFail ?v) |- _ =>
        destruct (check_sound P HP _ _ _ _ _ Hf Hb Hin Hb') as (Hnf & _); exfalso; now apply (Hnf v)
    end.
  - match goal with
    | Hb' : exec P _ (init c) ?rb, He : exists σ1, _ |- _ =>
        destruct (check_sound P HP _ _ _ _ _ Hf Hb Hin Hb') as (_ & _ & Hbc);
        destruct He as (σ1 & [-> | ->]); exfalso;
        [apply (proj1 (Hbc σ1)) | apply (proj2 (Hbc σ1))]; reflexivity
    end.
Qed.

(* any sequence of callable api functions, executed by a thread that holds nothing: no
   violation, and when the sequence completes nothing is held (RAbort: a panic inside) *)
Theorem api_sequence_sound : forall l r,
  forallb (api_callable P) l = true ->
  exec P (calls l) empty_state r -> r = RNorm empty_state \/ r = RAbort.
Proof.
  induction l as [|f l IH]; intros r Hl Hex; cbn in *.
  - inversion Hex; subst. now left.
  - apply andb_prop in Hl. destruct Hl as [Hf Hl].
    inversion Hex; subst.
    + match goal with
      | H1 : exec P (SCall f SSkip SSkip) empty_state (RNorm ?s1), H2 : exec P (calls l) ?s1 r |- _ =>
          destruct (api_call_sound _ _ Hf H1) as [Heq | Heq]; [|discriminate];
          inversion Heq; subst; now apply IH
      end.
    + match goal with
      | H1 : exec P (SCall f SSkip SSkip) empty_state r |- _ =>
          destruct (api_call_sound _ _ Hf H1) as [-> | ->]; [discriminate | now right]
      end.
Qed.
End ApiCalls.

(* the lock-order obligation is really checked: "9 must be acquired before 4" (AOrder 4; ALock 9)
   is accepted when 4 is free and rejected when 4 is already held *)
Example order_respected_accepted :
  check_prog [mkF "fulfill" true [mkC [] false 0 [mkE 0 [] false 0]]
    (Some (SSeq (SAct (AOrder 4)) (SSeq (SAct (ALock 9)) (SSeq (SAct (ALock 4))
          (SSeq (SAct (AUnlock 4)) (SAct (AUnlock 9)))))))] = true.
Proof. vm_compute. reflexivity. Qed.

Example order_inverted_rejected :
  check_prog [mkF "fulfill" true [mkC [] false 0 [mkE 0 [] false 0]]
    (Some (SSeq (SAct (ALock 4)) (SSeq (SAct (AOrder 4)) (SSeq (SAct (ALock 9))
          (SSeq (SAct (AUnlock 9)) (SAct (AUnlock 4)))))))] = false.
Proof. vm_compute. reflexivity. Qed.

(* tasks.Wait() must not be reached by a thread that still owns a task obligation (it would wait
   for itself): shutdown = 0 (reaches AWaitTasks, only a "clean" contract case), Return = 1 owns one
   obligation at entry.  Done before shutdown: accepted; Done deferred until after: rejected. *)
Definition demo_shutdown : fdef :=
  mkF "shutdown" false [mkC [0] false 0 [mkE 0 [] false 0]]
    (Some (SSeq (SAct (AUnlock 0)) (SAct AWaitTasks))).
Definition demo_return (deferred : bool) : fdef :=
  mkF "Return" true [mkC [] false 1 [mkE 0 [] false 0]]
    (Some (SSeq (SAct (ALock 0))
          (if deferred
           then SSeq (SCall 0 SSkip SSkip) (SAct ATasksDone)
           else SSeq (SAct ATasksDone) (SCall 0 SSkip SSkip)))).

Example wait_after_done_accepted : check_prog [demo_shutdown; demo_return false] = true.
Proof. vm_compute. reflexivity. Qed.

Example wait_own_task_rejected : check_prog [demo_shutdown; demo_return true] = false.
Proof. vm_compute. reflexivity. Qed.

(* and semantically: run directly (not through a contract) the deferred variant fails *)
Example wait_own_task_execution :
  exec [demo_shutdown; demo_return true]
       (SSeq (SAct (ALock 0)) (SSeq (SCall 0 SSkip SSkip) (SAct ATasksDone)))
       (mkS [] false 1) (RFail VWaitOwnTask).
Proof.
  eapply E_Seq. { apply E_Act. reflexivity. }
  eapply E_SeqStop; [|reflexivity].
  eapply E_CallFail; [reflexivity | reflexivity | ].
  cbn. eapply E_Seq. { apply E_Act. reflexivity. }
  apply E_ActFail. reflexivity.
Qed.
