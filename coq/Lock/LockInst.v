(* The per-run obligation: the lock programs regenerated from rpc/*.go are accepted by the
   verified checker.  Finite data: the kernel evaluates the checker (vm_compute). *)
From Coq Require Import List String.
From CV Require Import Lock.LockCheck Lock.LockCheckProofs Gen.LockProgs.

Lemma generated_ok : check_prog generated_prog = true.
Proof. vm_compute. reflexivity. Qed.

(* ---- Close, any number of times ----------------------------------------------------------- *)
Fixpoint index_of (name : string) (P : prog) (i : nat) : option nat :=
  match P with
  | nil => None
  | cons fd r => if String.eqb (f_name fd) name then Some i else index_of name r (S i)
  end.

Definition close_id : nat :=
  match index_of "Conn.Close"%string generated_prog 0 with Some i => i | None => 0 end.

(* the entry found really is Conn.Close, an api function with a body, callable with nothing held *)
Lemma close_id_ok :
  index_of "Conn.Close"%string generated_prog 0 = Some close_id /\
  api_callable generated_prog close_id = true.
Proof. split; vm_compute; reflexivity. Qed.

Lemma close_idempotent_lock : forall n r,
  exec generated_prog (calls (repeat close_id n)) empty_state r ->
  r = RNorm empty_state \/ r = RAbort.
Proof.
  intros n r Hex.
  refine (api_sequence_sound generated_prog generated_ok (repeat close_id n) r _ Hex).
  apply forallb_forall. intros x Hx. apply repeat_spec in Hx. subst x. exact (proj2 close_id_ok).
Qed.

Lemma api_sequences_lock : forall l r,
  forallb (api_callable generated_prog) l = true ->
  exec generated_prog (calls l) empty_state r ->
  r = RNorm empty_state \/ r = RAbort.
Proof. exact (api_sequence_sound generated_prog generated_ok). Qed.

(* ---- the entry-state assumption made visible ------------------------------------------------
   answer.Return is accepted only for callers that own no Conn task in any enclosing frame; the
   same body entered by a thread that does own one (the receive goroutine, which owns the NewConn
   task and does run Return synchronously inside handleCall) is REJECTED: its sendReturn-error
   branch runs shutdown -> tasks.Wait().  Calls of Returner.Return are opaque call-outs, so the
   checker does not compare callers with this entry condition; that the branch is unreachable on
   the receive goroutine is an assumption recorded in props/C09.py (finishReceived cannot be set
   while handleCall for the same answer is still running).  See docs/C09.md section 6b. *)
Definition check_entry (name : string) (c : ccase) : option bool :=
  match index_of name generated_prog 0 with
  | Some i =>
      match nth_error generated_prog i with
      | Some fd => match f_body fd with
                   | Some b => Some (check_case generated_prog b c)
                   | None => None
                   end
      | None => None
      end
  | None => None
  end.

Example return_entered_owning_a_task_rejected :
  check_entry "answer.Return" (mkCn nil false 1 (cons (mkE 0 nil false 0) nil)) = Some false.
Proof. vm_compute. reflexivity. Qed.

Example return_entered_clean_accepted :
  check_entry "answer.Return" (mkC nil false 1 (cons (mkE 0 nil false 0) nil)) = Some true.
Proof. vm_compute. reflexivity. Qed.
