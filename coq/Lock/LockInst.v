(* The per-run obligation: the lock programs regenerated from rpc/*.go are accepted by the
   verified checker.  Finite data: the kernel evaluates the checker (vm_compute). *)
From Coq Require Import List String.
From CV Require Import Lock.LockCheck Lock.LockCheckProofs Gen.LockProgs.

Lemma generated_ok : check_prog generated_prog = true.
Proof. vm_compute. reflexivity. Qed.
