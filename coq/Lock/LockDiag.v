(* Diagnostics for lock programs: an unverified twin of [chk] that records the source lines
   (AMark) passed on each path and reports the first failing path of every function.  Only used
   to print a readable explanation when the verified obligation [check_prog P = true] fails;
   nothing is proved about it and no theorem depends on it. *)
From Coq Require Import List Arith Bool String DecimalString.
From CV Require Import Lock.LockCheck.
Import ListNotations.
Local Open Scope string_scope.

Definition nat_str (n : nat) : string := NilEmpty.string_of_uint (Nat.to_uint n).

Definition lock_name (l : lockid) : string :=
  match l with
  | 0 => "mu" | 1 => "promise" | 2 => "promise2" | 3 => "client" | 4 => "hook"
  | 5 => "server" | 6 => "aq" | 7 => "sr" | 8 => "re" | 9 => "hookp" | _ => "lock" ++ nat_str l
  end.

Definition locks_str (h : list lockid) (s : bool) : string :=
  "{" ++ String.concat "," (map lock_name h ++ (if s then ["sender"] else [])) ++ "}".

Definition state_str (σ : state) : string :=
  locks_str (held σ) (sender σ) ++ " tasks=" ++ nat_str (tasks σ) ++
  (if clean σ then "" else " (an enclosing frame owns a task)").

Definition act_str (a : act) : string :=
  match a with
  | ATransport => "transport operation" | ATransportX => "transport operation (recv/exclusive)"
  | ACallout => "application call-out" | AWait => "blocking wait" | _ => "action"
  end.

Definition viol_str (v : violation) : string :=
  match v with
  | VUnlockNotHeld _ => "Unlock of a mutex that is not held"
  | VDoubleLock _ => "Lock of a mutex the thread already holds (self-deadlock)"
  | VBlockingUnderMutex a => act_str a ++ " while a mutex is held"
  | VSenderNotHeld => "sender lock released but not held"
  | VSenderDouble => "sender lock taken twice"
  | VSenderNoMutex => "sender lock state changed without c.mu"
  | VTransportNoSender => "outbound transport operation without the sender lock"
  | VRebindHeld _ => "variable that names a held mutex is re-assigned"
  | VLockOrder l => "lock order: this mutex must be acquired before " ++ lock_name l ++ ", which is already held"
  | VWaitOwnTask => "tasks.Wait() reached by a thread that still owns a task obligation: it waits for itself"
  | VTasksUnderflow => "tasks.Done / hand-over of a task obligation the function does not own"
  | VPrecondition _ => "contract-only function called in a state its contract does not allow"
  | VIllFormed => "ill-formed program"
  end.

Inductive dres := DOk (rs : list (cres * list nat)) | DFail (msg : string) (trace : list nat).

Fixpoint has_res (r : cres) (l : list (cres * list nat)) : bool :=
  match l with [] => false | (x, _) :: t => if cres_eq_dec r x then true else has_res r t end.

Fixpoint dnub (l acc : list (cres * list nat)) : list (cres * list nat) :=
  match l with
  | [] => rev acc
  | (r, t) :: rest => if has_res r acc then dnub rest acc else dnub rest ((r, t) :: acc)
  end.

Fixpoint dbind {A} (f : A -> dres) (l : list A) : dres :=
  match l with
  | [] => DOk []
  | a :: r =>
      match f a with
      | DFail m t => DFail m t
      | DOk x => match dbind f r with DFail m t => DFail m t | DOk y => DOk (x ++ y) end
      end
  end.

Definition fname (P : prog) (f : nat) : string :=
  match nth_error P f with Some fd => f_name fd | None => "?" end.

Section D.
Variable P : prog.

Fixpoint dchk (s : stmt) (σ : state) (tr : list nat) : dres :=
  match s with
  | SSkip => DOk [(CNorm σ, tr)]
  | SAct (AMark n) => DOk [(CNorm σ, n :: tr)]
  | SAct a => match step a σ with
              | inl σ' => DOk [(CNorm σ', tr)]
              | inr v => DFail (viol_str v ++ " (state " ++ state_str σ ++ ")") tr
              end
  | SSeq s1 s2 =>
      match dchk s1 σ tr with
      | DFail m t => DFail m t
      | DOk r1 =>
          match dbind (fun rt => match rt with (CNorm σ1, t1) => dchk s2 σ1 t1 | _ => DOk [rt] end) r1 with
          | DFail m t => DFail m t
          | DOk l => DOk (dnub l [])
          end
      end
  | SChoice s1 s2 =>
      match dchk s1 σ tr with
      | DFail m t => DFail m t
      | DOk a => match dchk s2 σ tr with DFail m t => DFail m t | DOk b => DOk (dnub (a ++ b) []) end
      end
  | SLoop b =>
      match dchk b σ tr with
      | DFail m t => DFail m t
      | DOk rb =>
          match find (fun rt => negb (loop_back_ok σ (fst rt))) rb with
          | Some (r, t) => DFail ("lock state at the end of a loop iteration differs from the state at the loop head (" ++ state_str σ ++ ")") t
          | None => DOk (dnub ((CNorm σ, tr) :: flat_map (fun rt => map (fun r => (r, snd rt)) (loop_out (fst rt))) rb) [])
          end
      end
  | SBreak => DOk [(CBrk σ, tr)]
  | SContinue => DOk [(CCont σ, tr)]
  | SReturn o => DOk [(CRet o σ, tr)]
  | SPanic => DOk []
  | SCall f s0 s1 =>
      match nth_error P f with
      | None => DFail "call of an undefined function" tr
      | Some fd =>
          match find_case fd σ with
          | None => DFail ("call of " ++ f_name fd ++ " in state " ++ state_str σ ++ ": not an entry state of its contract" ++
                           (if existsb (fun c => list_eqb (c_held c) (held σ) && Bool.eqb (c_sender c) (sender σ) && Nat.eqb (c_need c) 0) (f_cases fd)
                            then " (the callee reaches tasks.Wait(), which waits for every task of the connection: the calling thread must not own a task obligation -- it would wait for itself)"
                            else "")) tr
          | Some c =>
              match dbind (fun e => dchk (branch (e_out e) s0 s1) (after σ e) tr) (c_exits c) with
              | DFail m t => DFail m t
              | DOk l => DOk (dnub l [])
              end
          end
      end
  | SSpawn f =>
      match nth_error P f with
      | None => DFail "spawn of an undefined function" tr
      | Some fd =>
          match spawn_need fd with
          | None => DFail ("go " ++ f_name fd ++ ": the contract of a goroutine body must have one case without locks") tr
          | Some n => if Nat.leb n (tasks σ) then DOk [(CNorm (mkS4 (held σ) (sender σ) (tasks σ - n) (clean σ)), tr)]
                      else DFail ("go " ++ f_name fd ++ ": it expects a task obligation (tasks.Add) the spawner does not own") tr
          end
      end
  end.

Definition lines_str (tr : list nat) : string :=
  String.concat "," (map nat_str (rev tr)).

Definition diag_case (fd : fdef) (b : stmt) (c : ccase) : list string :=
  match dchk b (init c) [] with
  | DFail m t => [f_name fd ++ ": " ++ m ++ "; path (source lines): " ++ lines_str t]
  | DOk rs =>
      flat_map (fun rt =>
        if exit_ok c (fst rt) then [] else
        [f_name fd ++ ": " ++
         match fst rt with
         | CNorm σ | CRet _ σ => "returns with " ++ state_str σ ++ " (entered with " ++ state_str (init c) ++ "), not an exit of its contract"
         | _ => "break/continue escapes the function"
         end ++ "; path (source lines): " ++ lines_str (snd rt)]) rs
  end.

Definition diag_fn (fd : fdef) : list string :=
  (if f_api fd && negb (forallb api_case_ok (f_cases fd))
   then [f_name fd ++ ": exported/handler/goroutine function with a contract that holds something at entry or exit"] else []) ++
  match f_body fd with
  | None => []
  | Some b =>
      (* each contract case usually comes twice (clean / not clean): report the clean ones, the
         others only if those are fine *)
      match flat_map (diag_case fd b) (filter c_clean (f_cases fd)) with
      | [] => flat_map (diag_case fd b) (filter (fun c => negb (c_clean c)) (f_cases fd))
      | l => l
      end
  end.
End D.

Definition diag_prog (P : prog) : list string := flat_map (diag_fn P) P.
