(* C09 / Lock — lock programs, their semantics and an executable modular checker.

   A lock program is the control-flow skeleton of one Go function over lock actions; the
   translator locktrans regenerates one per function/closure of rpc/*.go (coq/Gen/LockProgs.v).
   Semantics [exec]: all executions -- any branch of every Choice, any number of iterations of
   every Loop, any outcome of every call; calls to functions that have a body run that body
   (inlining semantics, recursion allowed), calls to functions without a body (function-typed
   parameters, the environment) behave as their contract says.  A violation is reported as
   soon as it happens ([RFail] propagates), so violations in executions that never terminate
   (the receive loop) are covered too.

   The abstract state of a thread: the mutexes it holds, whether it holds the sender lock, and
   the number of task obligations (Conn.tasks.Add without the matching Done) the current
   function owns.  Obligations are accounted per call frame: a callee starts with 0 and what
   it leaves is added to the caller; [ATasksGive] hands one obligation to the environment
   (the capnp.Returner contract: answer.Return is called exactly once and calls Done);
   [SSpawn] hands the spawned body the obligations its contract asks for.

   The checker [chk] is structural (a call is checked against the callee's contract, not its
   body), [check_prog] checks every body against every case of its contract.  Soundness for
   all programs is proved in LockCheckProofs.v. *)
From Coq Require Import List Arith Bool String.
Import ListNotations.

Definition lockid := nat.        (* 0 = Conn.mu *)

Inductive act :=
| ALock (l : lockid)
| AUnlock (l : lockid)
| AAcqSender           (* c.sendCond = make(chan struct{})  : the sender lock is taken *)
| ARelSender           (* close(c.sendCond)                 : the sender lock is released *)
| ATransport           (* outbound transport operation: NewMessage, send, release of an outbound message *)
| ATransportX          (* transport operation that does not need the sender lock: RecvMessage, release
                          of a received message, and the operations of the exclusive phase of shutdown *)
| ACallout             (* application code: ClientHook / Returner / PipelineCaller methods, Client.Release, ... *)
| AWait                (* blocking channel operation / WaitGroup.Wait *)
| AWaitTasks           (* Conn.tasks.Wait(): waits for every task of the connection -- the waiting
                          thread must not own a task obligation itself, in any of its frames *)
| ATasksAdd
| ATasksDone
| ATasksGive           (* obligation handed to the environment (Returner) *)
| ARebind (l : lockid) (* the program variable through which mutex l is named is re-assigned
                          (p = p.next): only allowed while l is not held, so that a lock name
                          always denotes the same object for as long as it is held *)
| AOrder (l : lockid)  (* lock-order obligation: the acquisition that follows must come BEFORE any
                          acquisition of l -- a violation if l is already held.  Used for the one place
                          where two instances of a mutex class are held together in a fixed order
                          (ClientPromise.Fulfill: the promise hook, then its resolution target) *)
| AMark (line : nat).  (* source position, no effect *)

Inductive stmt :=
| SSkip
| SAct (a : act)
| SSeq (s1 s2 : stmt)
| SChoice (s1 s2 : stmt)
| SLoop (body : stmt)
| SBreak
| SContinue
| SCall (f : nat) (s_ok s_err : stmt)   (* call, then continue by outcome: 0 -> s_ok, other -> s_err *)
| SReturn (o : nat)                     (* return with outcome o (0 = ok / only outcome) *)
| SSpawn (f : nat)                      (* go f() *)
| SPanic.                               (* explicit panic: the thread aborts *)

(* clean: no ENCLOSING call frame of this thread owns a task obligation (the thread as a whole owns
   none iff clean && tasks = 0) *)
Record state := mkS4 { held : list lockid; sender : bool; tasks : nat; clean : bool }.
Definition mkS (h : list lockid) (s : bool) (t : nat) : state := mkS4 h s t true.

Record exit := mkE { e_out : nat; e_held : list lockid; e_sender : bool; e_tasks : nat }.

(* one case of a contract: entry lock state, obligations received at entry, possible exits *)
(* c_clean: the case is entered by a thread none of whose frames owns a task obligation at the
   call (a thread root, or a call made with tasks = 0 from a clean frame) *)
Record ccase := mkC5 { c_held : list lockid; c_sender : bool; c_need : nat; c_exits : list exit;
                       c_clean : bool }.
Definition mkC h s n e : ccase := mkC5 h s n e true.
Definition mkCn h s n e : ccase := mkC5 h s n e false.

Record fdef := mkF {
  f_name : string;
  f_api : bool;                 (* exported method / handler / goroutine body / callback given to the application *)
  f_cases : list ccase;
  f_body : option stmt }.

Definition prog := list fdef.

Inductive violation :=
| VUnlockNotHeld (l : lockid)        (* (a) *)
| VDoubleLock (l : lockid)           (* (b) *)
| VBlockingUnderMutex (a : act)      (* (d) *)
| VSenderNotHeld
| VSenderDouble
| VSenderNoMutex                     (* sendCond touched without Conn.mu *)
| VTransportNoSender                 (* outbound transport operation without the sender lock *)
| VRebindHeld (l : lockid)           (* variable naming a held mutex re-assigned *)
| VLockOrder (l : lockid)            (* a mutex that must be acquired before l is acquired while l is held *)
| VWaitOwnTask                       (* tasks.Wait() by a thread that still owns a task: waits for itself *)
| VTasksUnderflow                    (* Done / hand-over of an obligation the function does not own *)
| VPrecondition (f : nat)            (* contract-only function called in a state its contract does not allow *)
| VIllFormed.

(* ---- lock sets: sorted lists without duplicates -------------------------------- *)
Fixpoint mem (l : lockid) (h : list lockid) : bool :=
  match h with [] => false | x :: r => Nat.eqb l x || mem l r end.

Fixpoint insert (l : lockid) (h : list lockid) : list lockid :=
  match h with
  | [] => [l]
  | x :: r => if Nat.leb l x then l :: h else x :: insert l r
  end.

Fixpoint remove (l : lockid) (h : list lockid) : list lockid :=
  match h with
  | [] => []
  | x :: r => if Nat.eqb l x then r else x :: remove l r
  end.

Definition no_mutex (σ : state) : bool := match held σ with [] => true | _ => false end.

Definition step (a : act) (σ : state) : state + violation :=
  match a with
  | ALock l => if mem l (held σ) then inr (VDoubleLock l)
               else inl (mkS4 (insert l (held σ)) (sender σ) (tasks σ) (clean σ))
  | AUnlock l => if mem l (held σ) then inl (mkS4 (remove l (held σ)) (sender σ) (tasks σ) (clean σ))
                 else inr (VUnlockNotHeld l)
  | AAcqSender => if negb (mem 0 (held σ)) then inr VSenderNoMutex
                  else if sender σ then inr VSenderDouble
                  else inl (mkS4 (held σ) true (tasks σ) (clean σ))
  | ARelSender => if negb (mem 0 (held σ)) then inr VSenderNoMutex
                  else if sender σ then inl (mkS4 (held σ) false (tasks σ) (clean σ))
                  else inr VSenderNotHeld
  | ATransport => if negb (no_mutex σ) then inr (VBlockingUnderMutex a)
                  else if sender σ then inl σ else inr VTransportNoSender
  | ATransportX | ACallout | AWait =>
      if no_mutex σ then inl σ else inr (VBlockingUnderMutex a)
  | AWaitTasks =>
      if negb (no_mutex σ) then inr (VBlockingUnderMutex a)
      else if clean σ && Nat.eqb (tasks σ) 0 then inl σ else inr VWaitOwnTask
  | ATasksAdd => inl (mkS4 (held σ) (sender σ) (S (tasks σ)) (clean σ))
  | ATasksDone | ATasksGive =>
      match tasks σ with
      | 0 => inr VTasksUnderflow
      | S n => inl (mkS4 (held σ) (sender σ) n (clean σ))
      end
  | ARebind l => if mem l (held σ) then inr (VRebindHeld l) else inl σ
  | AOrder l => if mem l (held σ) then inr (VLockOrder l) else inl σ
  | AMark _ => inl σ
  end.

(* ---- semantics ------------------------------------------------------------------ *)
Inductive result :=
| RNorm (σ : state) | RBrk (σ : state) | RCont (σ : state) | RRet (o : nat) (σ : state)
| RAbort | RFail (v : violation).

Definition is_norm (r : result) : bool := match r with RNorm _ => true | _ => false end.

Definition ret_of (r : result) : option (nat * state) :=
  match r with RRet o σ => Some (o, σ) | RNorm σ => Some (0, σ) | _ => None end.

(* a callee sees the caller's locks and owns no obligation *)
Definition entry_of (σ : state) : state :=
  mkS4 (held σ) (sender σ) 0 (clean σ && Nat.eqb (tasks σ) 0).
(* after the call: the callee's locks, the caller's obligations plus what the callee left *)
Definition merge (σ σc : state) : state := mkS4 (held σc) (sender σc) (tasks σ + tasks σc) (clean σ).
Definition after (σ : state) (e : exit) : state :=
  mkS4 (e_held e) (e_sender e) (tasks σ + e_tasks e) (clean σ).

Definition branch (o : nat) (s0 s1 : stmt) : stmt := match o with 0 => s0 | _ => s1 end.

Definition list_eqb (a b : list nat) : bool := if list_eq_dec Nat.eq_dec a b then true else false.

Definition case_matches (σ : state) (c : ccase) : bool :=
  list_eqb (c_held c) (held σ) && Bool.eqb (c_sender c) (sender σ) && Nat.eqb (c_need c) 0
  && Bool.eqb (c_clean c) (clean σ && Nat.eqb (tasks σ) 0).

Definition find_case (fd : fdef) (σ : state) : option ccase := find (case_matches σ) (f_cases fd).

(* obligations a spawned body receives: its contract must have exactly one case, entered
   without any lock *)
Definition spawn_need (fd : fdef) : option nat :=
  match filter c_clean (f_cases fd) with   (* a new goroutine is a thread root *)
  | [c] => match c_held c, c_sender c with [], false => Some (c_need c) | _, _ => None end
  | _ => None
  end.

Section Exec.
Variable P : prog.

Inductive exec : stmt -> state -> result -> Prop :=
| E_Skip : forall σ, exec SSkip σ (RNorm σ)
| E_Act : forall a σ σ', step a σ = inl σ' -> exec (SAct a) σ (RNorm σ')
| E_ActFail : forall a σ v, step a σ = inr v -> exec (SAct a) σ (RFail v)
| E_Seq : forall s1 s2 σ σ1 r, exec s1 σ (RNorm σ1) -> exec s2 σ1 r -> exec (SSeq s1 s2) σ r
| E_SeqStop : forall s1 s2 σ r, exec s1 σ r -> is_norm r = false -> exec (SSeq s1 s2) σ r
| E_ChoiceL : forall s1 s2 σ r, exec s1 σ r -> exec (SChoice s1 s2) σ r
| E_ChoiceR : forall s1 s2 σ r, exec s2 σ r -> exec (SChoice s1 s2) σ r
| E_LoopExit : forall b σ, exec (SLoop b) σ (RNorm σ)
| E_LoopIter : forall b σ σ1 r, exec b σ (RNorm σ1) -> exec (SLoop b) σ1 r -> exec (SLoop b) σ r
| E_LoopCont : forall b σ σ1 r, exec b σ (RCont σ1) -> exec (SLoop b) σ1 r -> exec (SLoop b) σ r
| E_LoopBrk : forall b σ σ1, exec b σ (RBrk σ1) -> exec (SLoop b) σ (RNorm σ1)
| E_LoopRet : forall b σ o σ1, exec b σ (RRet o σ1) -> exec (SLoop b) σ (RRet o σ1)
| E_LoopAbort : forall b σ, exec b σ RAbort -> exec (SLoop b) σ RAbort
| E_LoopFail : forall b σ v, exec b σ (RFail v) -> exec (SLoop b) σ (RFail v)
| E_Break : forall σ, exec SBreak σ (RBrk σ)
| E_Continue : forall σ, exec SContinue σ (RCont σ)
| E_Return : forall o σ, exec (SReturn o) σ (RRet o σ)
| E_Panic : forall σ, exec SPanic σ RAbort
| E_Call : forall f fd b s0 s1 σ rb o σc r,
    nth_error P f = Some fd -> f_body fd = Some b ->
    exec b (entry_of σ) rb -> ret_of rb = Some (o, σc) ->
    exec (branch o s0 s1) (merge σ σc) r ->
    exec (SCall f s0 s1) σ r
| E_CallAbort : forall f fd b s0 s1 σ,
    nth_error P f = Some fd -> f_body fd = Some b ->
    exec b (entry_of σ) RAbort -> exec (SCall f s0 s1) σ RAbort
| E_CallFail : forall f fd b s0 s1 σ v,
    nth_error P f = Some fd -> f_body fd = Some b ->
    exec b (entry_of σ) (RFail v) -> exec (SCall f s0 s1) σ (RFail v)
| E_CallIll : forall f fd b s0 s1 σ rb,
    nth_error P f = Some fd -> f_body fd = Some b ->
    exec b (entry_of σ) rb -> (exists σ1, rb = RBrk σ1 \/ rb = RCont σ1) ->
    exec (SCall f s0 s1) σ (RFail VIllFormed)
| E_CallEnv : forall f fd s0 s1 σ c e r,
    nth_error P f = Some fd -> f_body fd = None ->
    find_case fd σ = Some c -> In e (c_exits c) ->
    exec (branch (e_out e) s0 s1) (after σ e) r ->
    exec (SCall f s0 s1) σ r
| E_CallEnvPre : forall f fd s0 s1 σ,
    nth_error P f = Some fd -> f_body fd = None ->
    find_case fd σ = None -> exec (SCall f s0 s1) σ (RFail (VPrecondition f))
| E_CallUndef : forall f s0 s1 σ,
    nth_error P f = None -> exec (SCall f s0 s1) σ (RFail VIllFormed)
| E_Spawn : forall f fd n σ,
    nth_error P f = Some fd -> spawn_need fd = Some n -> n <= tasks σ ->
    exec (SSpawn f) σ (RNorm (mkS4 (held σ) (sender σ) (tasks σ - n) (clean σ)))
| E_SpawnUnder : forall f fd n σ,
    nth_error P f = Some fd -> spawn_need fd = Some n -> tasks σ < n ->
    exec (SSpawn f) σ (RFail VTasksUnderflow)
| E_SpawnIll : forall f σ,
    (nth_error P f = None \/ exists fd, nth_error P f = Some fd /\ spawn_need fd = None) ->
    exec (SSpawn f) σ (RFail VIllFormed).
End Exec.

(* ---- the checker ------------------------------------------------------------------ *)
Inductive cres := CNorm (σ : state) | CBrk (σ : state) | CCont (σ : state) | CRet (o : nat) (σ : state).

Definition state_eq_dec : forall a b : state, {a = b} + {a <> b}.
Proof. repeat decide equality. Defined.

Definition cres_eq_dec : forall a b : cres, {a = b} + {a <> b}.
Proof. repeat decide equality. Defined.

Definition state_eqb (a b : state) : bool := if state_eq_dec a b then true else false.

(* union of the results of f over l; None if any fails *)
Fixpoint bind_all {A} (f : A -> option (list cres)) (l : list A) : option (list cres) :=
  match l with
  | [] => Some []
  | a :: r =>
      match f a, bind_all f r with
      | Some x, Some y => Some (x ++ y)
      | _, _ => None
      end
  end.

Definition dedup (o : option (list cres)) : option (list cres) :=
  match o with Some l => Some (nodup cres_eq_dec l) | None => None end.

Definition loop_back_ok (σ : state) (r : cres) : bool :=
  match r with CNorm σ1 | CCont σ1 => state_eqb σ1 σ | _ => true end.

Definition loop_out (r : cres) : list cres :=
  match r with CBrk σ1 => [CNorm σ1] | CRet o σ1 => [CRet o σ1] | _ => [] end.

Section Chk.
Variable P : prog.

Fixpoint chk (s : stmt) (σ : state) : option (list cres) :=
  match s with
  | SSkip => Some [CNorm σ]
  | SAct a => match step a σ with inl σ' => Some [CNorm σ'] | inr _ => None end
  | SSeq s1 s2 =>
      match chk s1 σ with
      | None => None
      | Some r1 =>
          dedup (bind_all (fun r => match r with CNorm σ1 => chk s2 σ1 | _ => Some [r] end) r1)
      end
  | SChoice s1 s2 =>
      match chk s1 σ, chk s2 σ with
      | Some a, Some b => dedup (Some (a ++ b))
      | _, _ => None
      end
  | SLoop b =>
      (* the lock state at the back edge must be the lock state at the loop head *)
      match chk b σ with
      | None => None
      | Some rb =>
          if forallb (loop_back_ok σ) rb
          then dedup (Some (CNorm σ :: flat_map loop_out rb))
          else None
      end
  | SBreak => Some [CBrk σ]
  | SContinue => Some [CCont σ]
  | SReturn o => Some [CRet o σ]
  | SPanic => Some []
  | SCall f s0 s1 =>
      match nth_error P f with
      | None => None
      | Some fd =>
          match find_case fd σ with
          | None => None
          | Some c =>
              dedup (bind_all (fun e => chk (branch (e_out e) s0 s1) (after σ e)) (c_exits c))
          end
      end
  | SSpawn f =>
      match nth_error P f with
      | None => None
      | Some fd =>
          match spawn_need fd with
          | None => None
          | Some n => if Nat.leb n (tasks σ)
                      then Some [CNorm (mkS4 (held σ) (sender σ) (tasks σ - n) (clean σ))] else None
          end
      end
  end.

Definition init (c : ccase) : state := mkS4 (c_held c) (c_sender c) (c_need c) (c_clean c).

Definition exit_matches (o : nat) (σ : state) (e : exit) : bool :=
  Nat.eqb (e_out e) o && list_eqb (e_held e) (held σ) && Bool.eqb (e_sender e) (sender σ)
  && Nat.eqb (e_tasks e) (tasks σ).

Definition exit_ok (c : ccase) (r : cres) : bool :=
  match r with
  | CNorm σ => existsb (exit_matches 0 σ) (c_exits c)
  | CRet o σ => existsb (exit_matches o σ) (c_exits c)
  | _ => false
  end.

Definition check_case (b : stmt) (c : ccase) : bool :=
  match chk b (init c) with
  | None => false
  | Some rs => forallb (exit_ok c) rs
  end.

(* exported methods, handlers, goroutine bodies and callbacks: entered and left with nothing *)
Definition exit_empty (e : exit) : bool :=
  match e_held e with [] => negb (e_sender e) && Nat.eqb (e_tasks e) 0 | _ => false end.

Definition api_case_ok (c : ccase) : bool :=
  match c_held c with [] => negb (c_sender c) && forallb exit_empty (c_exits c) | _ => false end.

Definition check_fn (fd : fdef) : bool :=
  (if f_api fd then forallb api_case_ok (f_cases fd) else true) &&
  match f_body fd with
  | None => true
  | Some b => forallb (check_case b) (f_cases fd)
  end.
End Chk.

Definition check_prog (P : prog) : bool := forallb (check_fn P) P.
