(* C09 / a COUNTER MODEL of the shutdown path with liveness ASSUMED (close_returns_model in Props).

   A small hand-written transition system of Conn.shutdown and the threads it waits for, with
   the environment assumptions made explicit as the enabledness of steps.  It is NOT generated
   from the source; each rule cites what justifies it:

     cancel       shutdown: c.bgcancel() (first action, c.mu held by the closer)
     task_start   startTask: c.tasks.Add(1) only while bgctx is not Done (rpc.go startTask);
                  handleCall's Add happens on the receive goroutine, itself a task
     task_finish  a task ends: tasks.Done().  That every Add is followed by a Done on every path
                  of the code is C09_tasks_balanced; that the path is actually travelled once
                  bgctx is cancelled is the ENVIRONMENT ASSUMPTION
                    (A1) application call-outs return after their context is cancelled and call
                         Returner.Return exactly once; ErrorReporter / ClientHook.Shutdown return;
                    (A2) Transport.RecvMessage returns once its context is cancelled (the receive
                         goroutine is a task), NewMessage/send/release return;
                    (A3) every blocking wait on the way is on a channel that shutdown's cancel or
                         a finishing task closes (bgctx, sender lock: C09_lock_discipline; the
                         other channels: docs/C09.md section 7, item 4 -- observed, not proved);
                  here: whenever a task other than a counted closer is outstanding, a finish step
                  is enabled (S_finish / S_finish_other)
     wait_done    c.tasks.Wait() returns when the count is 0.  The closer is NOT one of the counted
                  tasks: C09_lock_sound (VWaitOwnTask).  The variant [self_wait] below, where it is,
                  is the seeded defect C08-1: stuck for ever.
     close_tr     tables cleared, Abort attempted under abortTimeout, Transport.Close returns
                  (A4: the transport's Close returns and unblocks a pending Read)

   Theorems: after cancel every step decreases a measure (so every execution is finite, at most
   tasks + 2 steps), and every state in which Close has not returned has an enabled step; hence
   under A1-A4 and a scheduler that runs enabled threads, Close returns. *)
From Coq Require Import Arith Lia Wellfounded Relations.

Inductive phase := PHolding | PWaiting | PClosing | PReturned.

Record cstate := mkCS { cancelled : bool; ntasks : nat; ph : phase; closer_counted : bool }.

Inductive cstep : cstate -> cstate -> Prop :=
| S_cancel : forall n k, cstep (mkCS false n PHolding k) (mkCS true n PWaiting k)
| S_task_start : forall n p k, cstep (mkCS false n p k) (mkCS false (S n) p k)
| S_finish : forall c n p, cstep (mkCS c (S n) p false) (mkCS c n p false)
| S_finish_other : forall c n p, cstep (mkCS c (S (S n)) p true) (mkCS c (S n) p true)
| S_wait_done : forall k, cstep (mkCS true 0 PWaiting k) (mkCS true 0 PClosing k)
| S_close_tr : forall n k, cstep (mkCS true n PClosing k) (mkCS true n PReturned k).

Definition rank (p : phase) : nat :=
  match p with PHolding => 3 | PWaiting => 2 | PClosing => 1 | PReturned => 0 end.

Definition measure (s : cstate) : nat := ntasks s + rank (ph s).

(* after cancel no task is added and every step makes progress *)
Lemma step_decreases : forall s s', cancelled s = true -> cstep s s' ->
  cancelled s' = true /\ measure s' < measure s.
Proof.
  intros s s' Hc H. induction H; cbn in *; try discriminate; unfold measure; cbn; auto; try (split; auto; lia).
Qed.

(* termination: from a cancelled state there is no infinite execution *)
Theorem close_terminates : forall s, cancelled s = true -> Acc (fun a b => cstep b a /\ cancelled b = true) s.
Proof.
  intros s _. induction s using (well_founded_induction (wf_inverse_image _ _ _ measure lt_wf)).
  constructor. intros y [Hstep Hc]. apply H. apply (step_decreases _ _ Hc Hstep).
Qed.

(* progress: with a closer that is not a counted task, every cancelled state in which Close has
   not returned has an enabled step *)
Theorem close_progress : forall s, cancelled s = true -> closer_counted s = false ->
  ph s <> PReturned -> ph s <> PHolding -> exists s', cstep s s'.
Proof.
  intros [c n p k] Hc Hk Hp Hh. cbn in *. subst.
  destruct p; try congruence.
  - destruct n.
    + eexists. apply S_wait_done.
    + eexists. apply S_finish.
  - eexists. apply S_close_tr.
Qed.

(* close_returns: every maximal execution from the state right after cancel is finite and ends
   with Close returned *)
Theorem close_returns : forall s, cancelled s = true -> closer_counted s = false -> ph s <> PHolding ->
  Acc (fun a b => cstep b a /\ cancelled b = true) s /\
  (forall s', clos_refl_trans _ cstep s s' -> (forall s'', ~ cstep s' s'') -> ph s' = PReturned).
Proof.
  intros s Hc Hk Hh. split; [now apply close_terminates|].
  intros s' Hreach Hstuck.
  assert (Hinv : cancelled s' = true /\ closer_counted s' = false /\ ph s' <> PHolding).
  { clear Hstuck. induction Hreach as [x y Hs | x | x y z _ IH1 _ IH2]; auto.
    - inversion Hs; subst; cbn in *; try discriminate; try congruence; repeat split; auto; congruence.
    - apply IH2; apply IH1; auto. }
  destruct Hinv as (Hc' & Hk' & Hh').
  destruct (ph s') eqn:E; auto; try congruence; exfalso;
    (destruct (close_progress s' Hc' Hk') as [s'' Hs]; [congruence | congruence | eapply Hstuck; eauto]).
Qed.

(* the seeded defect C08-1: the closer is itself a counted task (defer tasks.Done() runs after
   shutdown): once every other task has finished the system is stuck in PWaiting for ever *)
Example self_wait_stuck_refuted :
  let s := mkCS true 1 PWaiting true in
  ph s <> PReturned /\ forall s', ~ cstep s s'.
Proof.
  cbn. split; [discriminate|]. intros s' H. inversion H.
Qed.

(* non-vacuity: a run with two outstanding tasks *)
Example close_run :
  clos_refl_trans _ cstep (mkCS false 2 PHolding false) (mkCS true 0 PReturned false).
Proof.
  eapply rt_trans; [apply rt_step, S_cancel|].
  eapply rt_trans; [apply rt_step, S_finish|].
  eapply rt_trans; [apply rt_step, S_finish|].
  eapply rt_trans; [apply rt_step, S_wait_done|].
  apply rt_step, S_close_tr.
Qed.
