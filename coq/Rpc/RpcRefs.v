(* Proofs about the RPC machine, part 9: history-level C07 close_releases_all.
   [s_lrefs] counts, per local server j, the references the connection and the application's
   handles hold on it.  The accounting invariant: at every point of every history
     lrefs j = [bootstrap is j] + exports whose client is j + capabilities j in the arguments and
               result tables of the answers + handles resolved to j + embargoes on j,
   with every embargo's reference count equal to the number of handles that still name it.  It goes
   through every handler, through shutdown and through the handlers of a shut-down connection;
   after Close all tables are empty, so a server whose handles have been released has count 0:
   its Shutdown has run, exactly once (the count never goes below 0 on the way). *)
From CV Require Import Rpc.Rpc Rpc.RpcSpec Rpc.RpcProofs Rpc.RpcInv Rpc.RpcResp Rpc.RpcLocal Rpc.RpcHist Rpc.RpcQids Rpc.RpcCalls.
From Coq Require Import ZifyBool.
Open Scope Z_scope.

(* ---------------------------------------------------------------- weights *)
Definition cl (j : Z) (x : cap) : Z := match x with CLocal k => if k =? j then 1 else 0 | _ => 0 end.
Fixpoint cls (j : Z) (l : list cap) : Z := match l with [] => 0 | x :: r => cl j x + cls j r end.
Definition ew (j : Z) (o : option expent) : Z := match o with Some (x, _) => cl j x | None => 0 end.
Fixpoint EXP (j : Z) (t : tbl expent) : Z := match t with [] => 0 | o :: r => ew j o + EXP j r end.
Definition aw (j : Z) (a : answer) : Z := cls j (a_args a) + cls j (rct_caps (a_rct a)).
Definition awo (j : Z) (o : option answer) : Z := match o with Some a => aw j a | None => 0 end.
Fixpoint ANS (j : Z) (l : list (Z * answer)) : Z := match l with [] => 0 | (_, a) :: r => aw j a + ANS j r end.
Definition hw (j : Z) (h : hstate) : Z := match h with HCap x => cl j x | _ => 0 end.
Fixpoint HND (j : Z) (l : list hstate) : Z := match l with [] => 0 | h :: r => hw j h + HND j r end.
Definition mw (j : Z) (o : option embent) : Z := match o with Some em => cl j (e_cap em) | None => 0 end.
Fixpoint EMB (j : Z) (t : tbl embent) : Z := match t with [] => 0 | o :: r => mw j o + EMB j r end.
Definition RC (j : Z) (s : state) : Z :=
  (if s_boot s && (j =? 0) then 1 else 0) + EXP j (s_exp s) + ANS j (s_ans s) + HND j (s_handles s) + EMB j (s_emb s).
Definition X (j : Z) (s : state) : Z := cget j (s_lrefs s) - RC j s.

(* references on embargo promises *)
Definition ce (e : Z) (x : cap) : Z := match x with CEmb e' => if e' =? e then 1 else 0 | _ => 0 end.
Fixpoint ces (e : Z) (l : list cap) : Z := match l with [] => 0 | x :: r => ce e x + ces e r end.
Definition he (e : Z) (h : hstate) : Z := match h with HCap x => ce e x | _ => 0 end.
Fixpoint HE (e : Z) (l : list hstate) : Z := match l with [] => 0 | h :: r => he e h + HE e r end.
(* every embargo counts its holders: the handles, and the transient table [l] of a handler *)
Definition TI (s : state) (l : list cap) : Prop :=
  forall e, match tget e (s_emb s) with
            | Some em => e_refs em = HE e (s_handles s) + ces e l
            | None => HE e (s_handles s) = 0 /\ ces e l = 0
            end.
Definition noemb (l : list cap) : Prop := Forall not_emb l.

Lemma cls_app : forall j a b, cls j (a ++ b) = cls j a + cls j b.
Proof. intros j a b. induction a as [|x a IH]; simpl; [reflexivity|]. rewrite IH. lia. Qed.
Lemma cls_rev : forall j l, cls j (rev l) = cls j l.
Proof. intros j l. induction l as [|x l IH]; simpl; [reflexivity|]. rewrite cls_app, IH. simpl. lia. Qed.
Lemma ces_noemb : forall e l, noemb l -> ces e l = 0.
Proof. intros e l H. induction H as [|x l Hx _ IH]; simpl; [reflexivity|]. rewrite IH. destruct x; simpl in *; try lia; contradiction. Qed.
Lemma cl_nonneg : forall j x, 0 <= cl j x. Proof. intros j x. destruct x; simpl; try lia. destruct (_ =? _); lia. Qed.
Lemma ce_nonneg : forall e x, 0 <= ce e x. Proof. intros e x. destruct x; simpl; try lia. destruct (_ =? _); lia. Qed.
Lemma ces_nonneg : forall e l, 0 <= ces e l. Proof. intros e l. induction l as [|x l IH]; simpl; [lia|]. pose proof (ce_nonneg e x). lia. Qed.
Lemma HE_nonneg : forall e l, 0 <= HE e l.
Proof. intros e l. induction l as [|h l IH]; simpl; [lia|]. assert (0 <= he e h) by (destruct h; simpl; try lia; apply ce_nonneg). lia. Qed.
Lemma noemb_app : forall a b, noemb a -> noemb b -> noemb (a ++ b).
Proof. intros. apply Forall_app. split; assumption. Qed.
Lemma noemb_rct : forall l, noemb (rct_caps l).
Proof. intros l. unfold noemb, rct_caps. apply Forall_forall. intros x Hx. apply in_map_iff in Hx. destruct Hx as [[k|] [<- _]]; exact I. Qed.

(* tables *)
Lemma EXP_app : forall j t o, EXP j (t ++ [o]) = EXP j t + ew j o.
Proof. intros j t o. induction t as [|a t IH]; simpl; [lia|]. rewrite IH. lia. Qed.
Lemma EXP_replace : forall j t n v old, nth_error t n = Some old -> EXP j (replace_nth n v t) = EXP j t - ew j old + ew j v.
Proof.
  intros j t. induction t as [|a t IH]; intros n v old H; destruct n; simpl in H; try discriminate; cbn [replace_nth EXP].
  - inversion H; subst. lia.
  - rewrite (IH _ v _ H). lia.
Qed.
Lemma EMB_app : forall j t o, EMB j (t ++ [o]) = EMB j t + mw j o.
Proof. intros j t o. induction t as [|a t IH]; simpl; [lia|]. rewrite IH. lia. Qed.
Lemma EMB_replace : forall j t n v old, nth_error t n = Some old -> EMB j (replace_nth n v t) = EMB j t - mw j old + mw j v.
Proof.
  intros j t. induction t as [|a t IH]; intros n v old H; destruct n; simpl in H; try discriminate; cbn [replace_nth EMB].
  - inversion H; subst. lia.
  - rewrite (IH _ v _ H). lia.
Qed.
Lemma HND_app : forall j t h, HND j (t ++ [h]) = HND j t + hw j h.
Proof. intros j t h. induction t as [|a t IH]; simpl; [lia|]. rewrite IH. lia. Qed.
Lemma HND_replace : forall j t n v old, nth_error t n = Some old -> HND j (replace_nth n v t) = HND j t - hw j old + hw j v.
Proof.
  intros j t. induction t as [|a t IH]; intros n v old H; destruct n; simpl in H; try discriminate; cbn [replace_nth HND].
  - inversion H; subst. lia.
  - rewrite (IH _ v _ H). lia.
Qed.
Lemma HE_app : forall e t h, HE e (t ++ [h]) = HE e t + he e h.
Proof. intros e t h. induction t as [|a t IH]; simpl; [lia|]. rewrite IH. lia. Qed.
Lemma HE_replace : forall e t n v old, nth_error t n = Some old -> HE e (replace_nth n v t) = HE e t - he e old + he e v.
Proof.
  intros e t. induction t as [|a t IH]; intros n v old H; destruct n; simpl in H; try discriminate; cbn [replace_nth HE].
  - inversion H; subst. lia.
  - rewrite (IH _ v _ H). lia.
Qed.
Lemma replace_nth_out : forall A (l : list A) n v, (length l <= n)%nat -> replace_nth n v l = l.
Proof. induction l as [|a l IH]; intros n v H; destruct n; simpl in *; try reflexivity; try lia. f_equal. apply IH. lia. Qed.

(* the answer table: unique keys *)
Lemma ANS_adel : forall j id l, keys_ok l -> ANS j (adel id l) = ANS j l - awo j (aget id l).
Proof.
  intros j id l. unfold keys_ok. induction l as [|[k a] l IH]; simpl; intros K; [lia|].
  inversion K as [|? ? Hn K']; subst. destruct (k =? id) eqn:E.
  - assert (k = id) by lia. subst k.
    assert (A : adel id l = l).
    { clear - Hn. induction l as [|[a b] l IH]; simpl in *; [reflexivity|].
      destruct (a =? id) eqn:E; [exfalso; apply Hn; left; lia|]. f_equal. apply IH. tauto. }
    rewrite A. simpl. lia.
  - simpl. rewrite (IH K'). lia.
Qed.
Lemma ANS_aput : forall j id a l, keys_ok l -> ANS j (aput id a l) = ANS j l - awo j (aget id l) + aw j a.
Proof. intros j id a l K. unfold aput. simpl. rewrite (ANS_adel j id l K). lia. Qed.

(* ---------------------------------------------------------------- side conditions and frames *)
Definition pa1 (a : answer) : Prop := noemb (a_args a) /\ (a_ret a = true -> a_args a = []) /\ (a_ret a = false -> a_rct a = []).
Definition PA (l : list (Z * answer)) : Prop := forall id a, In (id, a) l -> pa1 a.
Definition EN (t : tbl expent) : Prop := forall x w, In (Some (x, w)) t -> not_emb x.
Definition EC (t : tbl embent) : Prop := forall em, In (Some em) t -> not_emb (e_cap em).
Definition XM (s : state) : Prop := gen_ok (s_mgen s) (length (s_emb s)) /\ slots_free (s_mgen s) (s_emb s).
Definition SI (s : state) : Prop := keys_ok (s_ans s) /\ PA (s_ans s) /\ EN (s_exp s) /\ EC (s_emb s).
Definition FA (s s1 : state) : Prop := s_ans s1 = s_ans s.
Definition FE (s s1 : state) : Prop := s_exp s1 = s_exp s /\ s_egen s1 = s_egen s.
Definition FH (s s1 : state) : Prop := s_handles s1 = s_handles s /\ s_emb s1 = s_emb s /\ s_boot s1 = s_boot s /\ s_mgen s1 = s_mgen s.

Lemma FA_trans : forall s s1 s2, FA s s1 -> FA s1 s2 -> FA s s2. Proof. unfold FA. congruence. Qed.
Lemma FE_trans : forall s s1 s2, FE s s1 -> FE s1 s2 -> FE s s2. Proof. unfold FE. intros s s1 s2 [A B] [C D]. split; congruence. Qed.
Lemma FE_refl : forall s, FE s s. Proof. split; reflexivity. Qed.
Lemma FH_refl : forall s, FH s s. Proof. intros; repeat split. Qed.
Lemma FH_trans : forall s s1 s2, FH s s1 -> FH s1 s2 -> FH s s2.
Proof. intros s s1 s2 (A & B & C & D) (A' & B' & C' & D'). repeat split; congruence. Qed.
Lemma TI_FH : forall s s1 l, FH s s1 -> TI s l -> TI s1 l.
Proof. intros s s1 l (A & B & _ & _) T e. rewrite A, B. apply T. Qed.

Lemma X_tabs : forall j s s1, s_boot s1 = s_boot s -> s_exp s1 = s_exp s -> s_ans s1 = s_ans s -> s_handles s1 = s_handles s ->
  s_emb s1 = s_emb s -> X j s1 = X j s + (cget j (s_lrefs s1) - cget j (s_lrefs s)).
Proof. intros j s s1 A B C D E. unfold X, RC. rewrite A, B, C, D, E. destruct (s_boot s && (j =? 0)); lia. Qed.

Lemma X_eq : forall j s s1, s_boot s1 = s_boot s -> s_exp s1 = s_exp s -> s_ans s1 = s_ans s -> s_handles s1 = s_handles s ->
  s_emb s1 = s_emb s -> s_lrefs s1 = s_lrefs s -> X j s1 = X j s.
Proof. intros j s s1 A B C D E F. rewrite (X_tabs j s s1) by assumption. rewrite F. lia. Qed.

Lemma cget_lref : forall j d k s, cget j (s_lrefs (lref d k s)) = cget j (s_lrefs s) + (if j =? k then d else 0).
Proof. intros. unfold lref. cbn [s_lrefs set_lrefs]. rewrite cget_cadd. destruct (j =? k) eqn:E; [assert (j = k) by lia; subst; lia|lia]. Qed.

(* ---------------------------------------------------------------- releasing and adding references *)
Lemma rf_imp_shutdown : forall i g s s1 o, imp_shutdown cfg_fixed i g s = Ok (s1, o) ->
  FA s s1 /\ FE s s1 /\ FH s s1 /\ s_lrefs s1 = s_lrefs s.
Proof.
  intros i g s s1 o H. unfold imp_shutdown in H. destruct (s_shut s); [inversion H; subst; repeat split|].
  destruct (aget i (s_imp s)) as [e|]; [destruct (i_gen e =? g)|]; inversion H; subst; repeat split.
Qed.

Lemma rf_imp_release : forall i g s s1 o, imp_release cfg_fixed i g s = Ok (s1, o) ->
  FA s s1 /\ FE s s1 /\ FH s s1 /\ s_lrefs s1 = s_lrefs s.
Proof.
  intros i g s s1 o H. unfold imp_release in H. destruct (aget i (s_imp s)) as [e|]; [|eapply rf_imp_shutdown; eauto].
  destruct ((i_gen e =? g) && (0 <? i_refs e)); [|eapply rf_imp_shutdown; eauto].
  cbn [i_refs] in H. destruct (i_refs e - 1 =? 0); [|inversion H; subst; repeat split].
  destruct (busy_get i g (s_busy s) =? 0); [|inversion H; subst; repeat split].
  apply rf_imp_shutdown in H. exact H.
Qed.

(* a capability that is not an embargo promise *)
Lemma rf_release_cap_ne : forall x s s1 o, release_cap cfg_fixed x s = Ok (s1, o) -> not_emb x ->
  FA s s1 /\ FE s s1 /\ FH s s1 /\ forall j, X j s1 = X j s - cl j x.
Proof.
  intros x s s1 o H Hx. destruct x; simpl in H, Hx; try contradiction.
  - inversion H; subst. repeat split. intros j. simpl. lia.
  - inversion H; subst. repeat split. intros j. simpl. lia.
  - inversion H; subst. repeat split. intros j0. rewrite (X_tabs j0 s (lref (-1) j s)) by reflexivity. rewrite cget_lref. simpl.
    rewrite (Z.eqb_sym j j0). destruct (j0 =? j); lia.
  - destruct (rf_imp_release _ _ _ _ _ H) as (A & (B & B') & (C1 & C2 & C3 & C4) & D). repeat split; try assumption.
    intros j. rewrite (X_tabs j s s1) by assumption. rewrite D. simpl. lia.
Qed.

Lemma rf_release_caps_ne : forall l s s1 o, release_caps cfg_fixed l s = Ok (s1, o) -> noemb l ->
  FA s s1 /\ FE s s1 /\ FH s s1 /\ forall j, X j s1 = X j s - cls j l.
Proof.
  induction l as [|x l IH]; intros s s1 o H N; simpl in H.
  - inversion H; subst. repeat split. intros j. simpl. lia.
  - destruct (release_cap cfg_fixed x s) as [[sa oa]| |] eqn:Ea; simpl in H; try discriminate.
    destruct (release_caps cfg_fixed l sa) as [[sb ob]| |] eqn:Eb; simpl in H; try discriminate. inversion H; subst.
    inversion N as [|? ? Nx Nl]; subst.
    destruct (rf_release_cap_ne _ _ _ _ Ea Nx) as (A1 & B1 & C1 & D1). destruct (IH _ _ _ Eb Nl) as (A2 & B2 & C2 & D2).
    split; [eapply FA_trans; eauto|split; [eapply FE_trans; eauto|split; [eapply FH_trans; eauto|]]].
    intros j. rewrite D2, D1. simpl. lia.
Qed.

(* an embargo promise: the transient holder x of the handler's table goes *)
Lemma tget_replace_same : forall A (t : tbl A) e v old i, tget e t = Some old ->
  tget i (replace_nth (Z.to_nat e) (Some v) t) = if i =? e then Some v else tget i t.
Proof.
  intros A t e v old i H. apply tget_some in H. destruct H as [Hr Hn].
  rewrite RpcInv.tget_replace by lia. replace (Z.of_nat (Z.to_nat e)) with e by lia. reflexivity.
Qed.

Lemma EMB_same_cap : forall j t e em em', tget e t = Some em -> e_cap em' = e_cap em ->
  EMB j (replace_nth (Z.to_nat e) (Some em') t) = EMB j t.
Proof. intros j t e em em' H E. apply tget_some in H. destruct H as [_ Hn]. rewrite (EMB_replace j t _ (Some em') _ Hn). simpl. rewrite E. lia. Qed.

Lemma EC_same_cap : forall t e em em', EC t -> tget e t = Some em -> e_cap em' = e_cap em -> EC (replace_nth (Z.to_nat e) (Some em') t).
Proof.
  intros t e em em' H Hg E em0 Hin. apply replace_nth_in in Hin. destruct Hin as [Hin|Hin]; [|apply H; exact Hin].
  inversion Hin; subst. rewrite E. apply H. eapply tget_in; eauto.
Qed.

Lemma rf_emb_release : forall e s l, TI s (CEmb e :: l) ->
  let s1 := emb_release cfg_fixed e s in
  TI s1 l /\ FA s s1 /\ FE s s1 /\ s_handles s1 = s_handles s /\ s_boot s1 = s_boot s /\ s_lrefs s1 = s_lrefs s /\
  (forall j, EMB j (s_emb s1) = EMB j (s_emb s)) /\ (EC (s_emb s) -> EC (s_emb s1)) /\ (XM s -> XM s1).
Proof.
  intros e s l T. unfold emb_release. pose proof (T e) as Te. destruct (tget e (s_emb s)) as [em|] eqn:E.
  - simpl in Te. rewrite Z.eqb_refl in Te. pose proof (HE_nonneg e (s_handles s)). pose proof (ces_nonneg e l).
    replace (0 <? e_refs em) with true by lia. cbn [fx22 cfg_fixed negb]. rewrite andb_false_r.
    set (s1 := set_emb (replace_nth (Z.to_nat e) (Some (mkEmb (e_cap em) (e_refs em - 1))) (s_emb s)) s).
    assert (P2 : FA s s1) by reflexivity. assert (P3 : FE s s1) by (split; reflexivity).
    assert (P7 : forall j, EMB j (s_emb s1) = EMB j (s_emb s)) by (intros j; cbn [s1 s_emb set_emb]; eapply EMB_same_cap; eauto).
    assert (P8 : EC (s_emb s) -> EC (s_emb s1)) by (intros HC; cbn [s1 s_emb set_emb]; eapply EC_same_cap; eauto).
    assert (P9 : XM s -> XM s1).
    { intros [G S]. unfold XM. cbn [s1 s_emb s_mgen set_emb]. rewrite replace_nth_length. split; [exact G|].
      eapply slots_free_replace; [exact S|apply (proj2 (tget_some _ _ _ _ E))]. }
    refine (conj _ (conj P2 (conj P3 (conj eq_refl (conj eq_refl (conj eq_refl (conj P7 (conj P8 P9)))))))).
    intros e'. cbn [s1 s_emb set_emb s_handles]. rewrite (tget_replace_same _ _ _ _ _ _ E). specialize (T e').
    destruct (e' =? e) eqn:Ee.
    + assert (e' = e) by lia. subst e'. cbn [e_refs]. lia.
    + simpl in T. replace (e =? e') with false in T by lia. destruct (tget e' (s_emb s)); [lia|exact T].
  - simpl in Te. rewrite Z.eqb_refl in Te. pose proof (ces_nonneg e l). lia.
Qed.

Lemma rf_release_cap : forall x s s1 o l, release_cap cfg_fixed x s = Ok (s1, o) -> TI s (x :: l) ->
  TI s1 l /\ FA s s1 /\ FE s s1 /\ s_handles s1 = s_handles s /\ s_boot s1 = s_boot s /\
  (forall j, EMB j (s_emb s1) = EMB j (s_emb s)) /\ (EC (s_emb s) -> EC (s_emb s1)) /\ (forall j, X j s1 = X j s - cl j x) /\ (XM s -> XM s1) /\ s_mgen s1 = s_mgen s.
Proof.
  intros x s s1 o l H T.
  assert (NE : not_emb x -> TI s1 l /\ FA s s1 /\ FE s s1 /\ s_handles s1 = s_handles s /\ s_boot s1 = s_boot s /\
            (forall j, EMB j (s_emb s1) = EMB j (s_emb s)) /\ (EC (s_emb s) -> EC (s_emb s1)) /\ (forall j, X j s1 = X j s - cl j x) /\ (XM s -> XM s1) /\ s_mgen s1 = s_mgen s).
  { intros Hx. destruct (rf_release_cap_ne _ _ _ _ H Hx) as (A & B & (C1 & C2 & C3 & C4) & D).
    split; [|split; [exact A|split; [exact B|split; [exact C1|split; [exact C3|split; [intros j; rewrite C2; reflexivity|split; [rewrite C2; auto|split; [exact D|split; [unfold XM; rewrite C2, C4; auto|exact C4]]]]]]]]].
    apply (TI_FH s s1 l); [repeat split; assumption|]. intros e. specialize (T e). simpl in T.
    replace (ce e x) with 0 in T by (destruct x; simpl in *; try reflexivity; contradiction).
    destruct (tget e (s_emb s)); [lia|destruct T; split; lia]. }
  destruct x; try (apply NE; exact I).
  simpl in H. inversion H; subst. destruct (rf_emb_release e s l T) as (T1 & A & B & C & D & L & M & N & XMp).
  split; [exact T1|split; [exact A|split; [exact B|split; [exact C|split; [exact D|split; [exact M|split; [exact N|split; [|split; [exact XMp|]]]]]]]]].
  - intros j. unfold X, RC. rewrite D, (proj1 B), A, C, M, L. simpl. lia.
  - unfold emb_release. destruct (tget e (s_emb s)); [destruct (0 <? e_refs e0); [destruct (_ && _ && _); [destruct (e_cap e0)|]|]|]; reflexivity.
Qed.

Lemma rf_release_caps : forall l s s1 o l', release_caps cfg_fixed l s = Ok (s1, o) -> TI s (l ++ l') ->
  TI s1 l' /\ FA s s1 /\ FE s s1 /\ s_handles s1 = s_handles s /\ s_boot s1 = s_boot s /\
  (forall j, EMB j (s_emb s1) = EMB j (s_emb s)) /\ (EC (s_emb s) -> EC (s_emb s1)) /\ (forall j, X j s1 = X j s - cls j l) /\ (XM s -> XM s1) /\ s_mgen s1 = s_mgen s.
Proof.
  induction l as [|x l IH]; intros s s1 o l' H T; simpl in H.
  - inversion H; subst. split; [exact T|split; [unfold FA; reflexivity|split; [apply FE_refl|split; [reflexivity|split; [reflexivity|split; [reflexivity|split; [auto|split; [intros j; simpl; lia|split; [auto|reflexivity]]]]]]]]].
  - destruct (release_cap cfg_fixed x s) as [[sa oa]| |] eqn:Ea; simpl in H; try discriminate.
    destruct (release_caps cfg_fixed l sa) as [[sb ob]| |] eqn:Eb; simpl in H; try discriminate. inversion H; subst.
    destruct (rf_release_cap _ _ _ _ (l ++ l') Ea T) as (T1 & A1 & B1 & C1 & D1 & M1 & N1 & X1 & P1 & G1).
    destruct (IH _ _ _ _ Eb T1) as (T2 & A2 & B2 & C2 & D2 & M2 & N2 & X2 & P2 & G2).
    split; [exact T2|split; [eapply FA_trans; eauto|split; [eapply FE_trans; eauto|split; [congruence|split; [congruence|
      split; [intros j; rewrite M2, M1; reflexivity|split; [auto|split; [intros j; rewrite X2, X1; simpl; lia|split; [auto|congruence]]]]]]]]].
Qed.

Lemma rf_addref_ne : forall x s, not_emb x ->
  FA s (addref_cap x s) /\ FE s (addref_cap x s) /\ FH s (addref_cap x s) /\ forall j, X j (addref_cap x s) = X j s + cl j x.
Proof.
  intros x s Hx. destruct x; simpl in Hx; try contradiction; simpl.
  - repeat split. intros j. lia.
  - repeat split. intros j. lia.
  - repeat split. intros j0. rewrite (X_tabs j0 s (lref 1 j s)) by reflexivity. rewrite cget_lref. rewrite (Z.eqb_sym j j0). destruct (j0 =? j); lia.
  - destruct (aget i (s_imp s)) as [e|]; [destruct (_ && _)|]; repeat split; intros j; rewrite Z.add_0_r; apply X_eq; reflexivity.
Qed.

Lemma rf_add_import : forall i s, let s1 := fst (add_import cfg_fixed i s) in
  FA s s1 /\ FE s s1 /\ FH s s1 /\ (forall j, X j s1 = X j s) /\ not_emb (snd (add_import cfg_fixed i s)) /\
  forall j, cl j (snd (add_import cfg_fixed i s)) = 0.
Proof.
  intros i s. unfold add_import. destruct (aget i (s_imp s)) as [e|]; [destruct (0 <? i_refs e)|]; simpl;
    (repeat split; intros j; try reflexivity; apply X_eq; reflexivity).
Qed.

Lemma EN_tget : forall t e x w, EN t -> tget e t = Some (x, w) -> not_emb x.
Proof. intros t e x w H Hg. eapply H. eapply tget_in; eauto. Qed.

Lemma rf_recv_caps : forall ds s tab loc, EN (s_exp s) -> noemb tab ->
  match recv_caps cfg_fixed ds s tab loc with
  | RPOk s1 tab' _ => FA s s1 /\ FE s s1 /\ FH s s1 /\ noemb tab' /\ forall j, X j s1 = X j s + cls j tab' - cls j tab
  | RPErr s1 part => FA s s1 /\ FE s s1 /\ FH s s1 /\ noemb part /\ forall j, X j s1 = X j s + cls j part - cls j tab
  end.
Proof.
  induction ds as [|d ds IH]; intros s tab loc He Nt; simpl.
  - repeat split. + unfold noemb. apply Forall_rev. exact Nt. + intros j. rewrite cls_rev. lia.
  - assert (T : forall sa x b, FA s sa -> FE s sa -> FH s sa -> not_emb x -> (forall j, X j sa = X j s + cl j x) ->
              match recv_caps cfg_fixed ds sa (x :: tab) (b :: loc) with
              | RPOk s1 tab' _ => FA s s1 /\ FE s s1 /\ FH s s1 /\ noemb tab' /\ forall j, X j s1 = X j s + cls j tab' - cls j tab
              | RPErr s1 part => FA s s1 /\ FE s s1 /\ FH s s1 /\ noemb part /\ forall j, X j s1 = X j s + cls j part - cls j tab
              end).
    { intros sa x b A B C Nx Dx.
      assert (He' : EN (s_exp sa)) by (rewrite (proj1 B); exact He).
      specialize (IH sa (x :: tab) (b :: loc) He' (Forall_cons _ Nx Nt)).
      destruct (recv_caps cfg_fixed ds sa (x :: tab) (b :: loc)); destruct IH as (A2 & B2 & C2 & N2 & D2);
        (split; [eapply FA_trans; eauto|split; [eapply FE_trans; eauto|split; [eapply FH_trans; eauto|split; [exact N2|]]]]);
        intros j; rewrite D2, Dx; simpl; lia. }
    destruct d.
    + apply (T s CNull false eq_refl (FE_refl s) (FH_refl s) I). intros j. simpl. lia.
    + pose proof (rf_add_import i s) as R. destruct (add_import cfg_fixed i s) as [s1 x]. simpl in R. destruct R as (A & B & C & D & N & Z0).
      apply T; auto. intros j. rewrite D, Z0. lia.
    + pose proof (rf_add_import i s) as R. destruct (add_import cfg_fixed i s) as [s1 x]. simpl in R. destruct R as (A & B & C & D & N & Z0).
      apply T; auto. intros j. rewrite D, Z0. lia.
    + destruct (tget i (s_exp s)) as [[x w]|] eqn:Eg.
      * pose proof (EN_tget _ _ _ _ He Eg) as Nx. destruct (rf_addref_ne x s Nx) as (A & B & C & D). apply T; auto.
      * repeat split. -- unfold noemb. apply Forall_rev. exact Nt. -- intros j. rewrite cls_rev. lia.
    + apply (T s CErr false eq_refl (FE_refl s) (FH_refl s) I). intros j. simpl. lia.
Qed.

Lemma rf_recv_payload : forall p s, EN (s_exp s) ->
  match recv_payload cfg_fixed p s with
  | PLOk s1 _ tab _ => FA s s1 /\ FE s s1 /\ FH s s1 /\ noemb tab /\ forall j, X j s1 = X j s + cls j tab
  | PLErr s1 part => FA s s1 /\ FE s s1 /\ FH s s1 /\ noemb part /\ forall j, X j s1 = X j s + cls j part
  end.
Proof.
  intros p s He. unfold recv_payload.
  assert (Z0 : FA s s /\ FE s s /\ FH s s /\ noemb [] /\ forall j, X j s = X j s + cls j []).
  { repeat split. - constructor. - intros j. simpl. lia. }
  destruct (negb (p_valid p)); [exact Z0|]. destruct (p_cerr p); [exact Z0|].
  destruct (p_caps p) as [ds|]; [|exact Z0]. pose proof (rf_recv_caps ds s [] [] He (Forall_nil _)) as H.
  destruct (recv_caps cfg_fixed ds s [] []); destruct H as (A & B & C & N & D);
    (split; [exact A|split; [exact B|split; [exact C|split; [exact N|intros j; rewrite D; simpl; lia]]]]).
Qed.

(* ---------------------------------------------------------------- allocation of table slots *)
Lemma alloc_inv : forall A (g : idgen) (t : tbl A) (v : A) id g' t', gen_ok g (length t) -> slots_free g t ->
  gen_next g = Ok (id, g') -> tput id v t = Ok t' ->
  gen_ok g' (length t') /\ slots_free g' t' /\ tget id t = None /\ (forall i, tget i t' = if i =? id then Some v else tget i t) /\
  (t' = t ++ [Some v] \/ (nth_error t (Z.to_nat id) = Some None /\ t' = replace_nth (Z.to_nat id) (Some v) t)).
Proof.
  intros A g t v id g' t' [Hi Hf] Hsl HG HT. unfold gen_next in HG.
  destruct (list_min (g_free g)) as [m|] eqn:E.
  - inversion HG; subst. apply list_min_in in E. rewrite Forall_forall in Hf. pose proof (Hf _ E) as Hm.
    unfold tput in HT. destruct (id =? Z.of_nat (length t)) eqn:E1; [lia|].
    replace ((0 <=? id) && (id <? Z.of_nat (length t))) with true in HT by lia. inversion HT; subst.
    rewrite replace_nth_length. simpl.
    assert (TG : forall i, tget i (replace_nth (Z.to_nat id) (Some v) t) = if i =? id then Some v else tget i t).
    { intros i. rewrite RpcInv.tget_replace by lia. replace (Z.of_nat (Z.to_nat id)) with id by lia. reflexivity. }
    pose proof (Hsl _ E) as Hn.
    split; [split; [assumption|apply zremove_forall; rewrite Forall_forall; exact Hf]|].
    split; [|split; [exact Hn|split; [exact TG|right]]].
    + intros x Hx. simpl in Hx. unfold zremove in Hx. apply filter_In in Hx. destruct Hx as [Hx Hne]. rewrite TG.
      destruct (x =? id) eqn:Exm; [discriminate|]. apply Hsl; exact Hx.
    + split; [|reflexivity]. unfold tget, znth in Hn. replace ((id <? 0) || (Z.of_nat (length t) <=? id)) with false in Hn by lia.
      destruct (nth_error t (Z.to_nat id)) as [[x|]|] eqn:En; try discriminate; [reflexivity|]. apply nth_error_None in En. lia.
  - apply list_min_none in E. destruct (g_i g =? 4294967295); [discriminate|]. inversion HG; subst.
    unfold tput in HT. rewrite Hi, Z.eqb_refl in HT. inversion HT; subst. rewrite app_length. simpl.
    assert (TG : forall i, tget i (t ++ [Some v]) = if i =? Z.of_nat (length t) then Some v else tget i t) by (intros; apply tget_app).
    split; [split; simpl; [lia|rewrite E; constructor]|].
    split; [intros x Hx; simpl in Hx; rewrite E in Hx; destruct Hx|].
    split; [|split; [rewrite Hi; exact TG|left; reflexivity]].
    unfold tget, znth. replace ((g_i g <? 0) || (Z.of_nat (length t) <=? g_i g)) with true by lia. reflexivity.
Qed.

(* ---------------------------------------------------------------- exports *)
Definition XS (s : state) : Prop := gen_ok (s_egen s) (length (s_exp s)) /\ slots_free (s_egen s) (s_exp s).
Lemma XS_FE : forall s s1, FE s s1 -> XS s -> XS s1.
Proof. intros s s1 [A B] H. unfold XS. rewrite A, B. exact H. Qed.
Lemma EN_FE : forall s s1, FE s s1 -> EN (s_exp s) -> EN (s_exp s1).
Proof. intros s s1 [A B] H. rewrite A. exact H. Qed.

Lemma find_export_some : forall x t i id w, find_export x t i = Some (id, w) ->
  exists y, nth_error t (Z.to_nat (id - i)) = Some (Some (y, w)) /\ cap_eqb y x = true /\ i <= id.
Proof.
  intros x t. induction t as [|[[y w0]|] t IH]; intros i id w H; simpl in H; try discriminate.
  - destruct (cap_eqb y x) eqn:E.
    + inversion H; subst. exists y. replace (id - id) with 0 by lia. simpl. repeat split; auto. lia.
    + destruct (IH _ _ _ H) as (y' & Hn & He & Hl). exists y'. replace (Z.to_nat (id - i)) with (S (Z.to_nat (id - (i + 1)))) by lia. simpl. repeat split; auto. lia.
  - destruct (IH _ _ _ H) as (y' & Hn & He & Hl). exists y'. replace (Z.to_nat (id - i)) with (S (Z.to_nat (id - (i + 1)))) by lia. simpl. repeat split; auto. lia.
Qed.

Lemma cap_eqb_cl : forall j y x, cap_eqb y x = true -> cl j y = cl j x.
Proof. intros j y x H. destruct y, x; simpl in *; try discriminate; try reflexivity. replace j0 with j1 by lia. reflexivity. Qed.

Lemma rf_send_cap : forall x s s1 d oe, send_cap cfg_fixed x s = Ok (s1, d, oe) -> not_emb x -> EN (s_exp s) -> XS s ->
  FA s s1 /\ FH s s1 /\ EN (s_exp s1) /\ XS s1 /\ forall j, X j s1 = X j s.
Proof.
  intros x s s1 d oe H Nx He Hx. unfold send_cap in H.
  assert (SAME : forall d0 oe0, Ok (s, d0, oe0) = Ok (s1, d, oe) -> FA s s1 /\ FH s s1 /\ EN (s_exp s1) /\ XS s1 /\ forall j, X j s1 = X j s).
  { intros d0 oe0 E. inversion E; subst. split; [reflexivity|split; [apply FH_refl|auto]]. }
  assert (OLD : forall id w, find_export x (s_exp s) 0 = Some (id, w) ->
            Ok (set_sent (cadd id 1 (s_sent s)) (set_exp (replace_nth (Z.to_nat id) (Some (x, w + 1)) (s_exp s)) s), DSH id, Some id) = Ok (s1, d, oe) ->
            FA s s1 /\ FH s s1 /\ EN (s_exp s1) /\ XS s1 /\ forall j, X j s1 = X j s).
  { intros id w Hf E. inversion E; subst. destruct (find_export_some _ _ _ _ _ Hf) as (y & Hn & Hy & Hl). rewrite Z.sub_0_r in Hn.
    split; [reflexivity|split; [repeat split|split; [|split]]].
    - intros x0 w0 Hin. cbn [s_exp set_sent set_exp] in Hin. apply replace_nth_in in Hin. destruct Hin as [Hin|Hin]; [inversion Hin; subst; exact Nx|eapply He; eauto].
    - destruct Hx as [G S]. unfold XS. cbn [s_exp s_egen set_sent set_exp]. rewrite replace_nth_length. split; [exact G|].
      eapply slots_free_replace; eauto.
    - intros j. unfold X, RC. cbn [s_boot s_exp s_ans s_handles s_emb s_lrefs set_sent set_exp].
      pose proof (EXP_replace j _ _ (Some (x, w + 1)) _ Hn) as R. unfold expent in *. rewrite R. simpl. rewrite (cap_eqb_cl j y x Hy). lia. }
  assert (NEW : forall s0, FA s s0 -> FH s s0 -> s_exp s0 = s_exp s -> (forall j, X j s0 = X j s + cl j x) ->
            (do '(id, g) <- gen_next (s_egen s); do t <- tput id (x, 1) (s_exp s);
             Ok (set_sent (cadd id 1 (s_sent s)) (set_allocs (s_allocs s + 1) (set_egen g (set_exp t s0))), DSH id, Some id)) = Ok (s1, d, oe) ->
            FA s s1 /\ FH s s1 /\ EN (s_exp s1) /\ XS s1 /\ forall j, X j s1 = X j s).
  { intros s0 A0 (H1 & H2 & H3 & H4) E0 X0 HH. destruct (gen_next (s_egen s)) as [[id g']| |] eqn:EG; cbn [bind] in HH; try discriminate.
    destruct (tput id (x, 1) (s_exp s)) as [t'| |] eqn:ET; cbn [bind] in HH; try discriminate. inversion HH; subst.
    destruct Hx as [G S]. destruct (alloc_inv _ _ _ _ _ _ _ G S EG ET) as (G' & S' & Hn & TG & SH).
    split; [exact A0|split; [repeat split; assumption|split; [|split; [split; assumption|]]]].
    - intros x0 w0 Hin. cbn [s_exp set_sent set_allocs set_egen set_exp] in Hin.
      destruct SH as [->|[_ ->]]; [apply in_app_or in Hin; destruct Hin as [Hin|[Hin|[]]]; [eapply He; eauto|inversion Hin; subst; exact Nx]|].
      apply replace_nth_in in Hin. destruct Hin as [Hin|Hin]; [inversion Hin; subst; exact Nx|eapply He; eauto].
    - intros j. specialize (X0 j). unfold X, RC in *. cbn [s_boot s_exp s_ans s_handles s_emb s_lrefs set_sent set_allocs set_egen set_exp].
      rewrite E0 in X0. unfold FA in A0. rewrite A0, H1, H2, H3 in X0.
      assert (EX : EXP j t' = EXP j (s_exp s) + cl j x).
      { destruct SH as [->|[Hne ->]]; [rewrite EXP_app; reflexivity|]. pose proof (EXP_replace j _ _ (Some (x, 1)) _ Hne) as R. unfold expent in *. rewrite R. simpl. lia. }
      rewrite EX. rewrite A0, H1, H2, H3. lia. }
  destruct x; simpl in Nx; try contradiction.
  - eapply SAME. exact H.
  - simpl in H. destruct (find_export CErr (s_exp s) 0) as [[id w]|] eqn:Ef; [eapply OLD; eauto|].
    apply (NEW s (eq_refl) (FH_refl s) eq_refl); [intros j; simpl; lia|exact H].
  - simpl in H. destruct (find_export (CLocal j) (s_exp s) 0) as [[id w]|] eqn:Ef; [eapply OLD; eauto|].
    destruct (rf_addref_ne (CLocal j) s I) as (A & B & C & D). apply (NEW (lref 1 j s) A C (proj1 B) D H).
  - destruct (imp_current i g s); [eapply SAME; exact H|].
    destruct (find_export (CImp i g) (s_exp s) 0) as [[id w]|] eqn:Ef; [eapply OLD; eauto|].
    destruct (rf_addref_ne (CImp i g) s I) as (A & B & C & D). apply (NEW (addref_cap (CImp i g) s) A C (proj1 B) D H).
Qed.

Lemma rf_fill_caps : forall l s s1 ds refs, fill_caps cfg_fixed l s = Ok (s1, ds, refs) -> noemb l -> EN (s_exp s) -> XS s ->
  FA s s1 /\ FH s s1 /\ EN (s_exp s1) /\ XS s1 /\ forall j, X j s1 = X j s.
Proof.
  induction l as [|x l IH]; intros s s1 ds refs H N He Hx; simpl in H.
  - inversion H; subst. split; [reflexivity|split; [apply FH_refl|auto]].
  - destruct (send_cap cfg_fixed x s) as [[[sa d] oe]| |] eqn:Ea; cbn [bind] in H; try discriminate.
    destruct (fill_caps cfg_fixed l sa) as [[[sb ds'] refs']| |] eqn:Eb; cbn [bind] in H; try discriminate. inversion H; subst.
    inversion N as [|? ? Nx Nl]; subst.
    destruct (rf_send_cap _ _ _ _ _ Ea Nx He Hx) as (A1 & B1 & C1 & D1 & X1).
    destruct (IH _ _ _ _ Eb Nl C1 D1) as (A2 & B2 & C2 & D2 & X2).
    split; [eapply FA_trans; eauto|split; [eapply FH_trans; eauto|split; [exact C2|split; [exact D2|]]]].
    intros j. rewrite X2, X1. reflexivity.
Qed.

Definition ocw (j : Z) (oc : option cap) : Z := match oc with Some x => cl j x | None => 0 end.

Lemma slots_free_tclear : forall A (g : idgen) (t : tbl A) id, slots_free g t -> slots_free (gen_remove id g) (tclear id t).
Proof.
  intros A g t id H x Hx. unfold gen_remove in Hx. simpl in Hx. rewrite tget_tclear. destruct (x =? id) eqn:E; [reflexivity|].
  destruct (zmem id (g_free g)); [apply H; exact Hx|]. destruct Hx as [Hx|Hx]; [lia|apply H; exact Hx].
Qed.

Lemma rf_release_export : forall id n s, EN (s_exp s) -> XS s ->
  let '(s1, oc, err) := release_export id n s in
  FA s s1 /\ FH s s1 /\ EN (s_exp s1) /\ XS s1 /\ (forall j, X j s1 = X j s + ocw j oc) /\ (forall x, oc = Some x -> not_emb x).
Proof.
  intros id n s He Hx. unfold release_export.
  assert (SAME : FA s s /\ FH s s /\ EN (s_exp s) /\ XS s /\ (forall j, X j s = X j s + ocw j None) /\ (forall x, @None cap = Some x -> not_emb x)).
  { split; [reflexivity|split; [apply FH_refl|split; [exact He|split; [exact Hx|split; [intros j; simpl; lia|discriminate]]]]]. }
  destruct (tget id (s_exp s)) as [[x w]|] eqn:E; [|exact SAME].
  pose proof (tget_some _ _ _ _ E) as [Hr Hn]. pose proof (EN_tget _ _ _ _ He E) as Nx. destruct Hx as [G S].
  destruct (n =? w).
  - split; [reflexivity|split; [repeat split|split; [|split; [|split]]]].
    + intros x0 w0 Hin. cbn [s_exp set_rel set_egen set_exp] in Hin. apply tclear_in in Hin. destruct Hin as [Hin|Hin]; [discriminate|eapply He; eauto].
    + unfold XS. cbn [s_exp s_egen set_rel set_egen set_exp]. rewrite tclear_length. split; [apply gen_remove_ok; [exact G|lia]|apply slots_free_tclear; exact S].
    + intros j. unfold X, RC. cbn [s_boot s_exp s_ans s_handles s_emb s_lrefs set_rel set_egen set_exp]. unfold tclear.
      replace ((0 <=? id) && (id <? Z.of_nat (length (s_exp s)))) with true by lia.
      pose proof (EXP_replace j _ _ None _ Hn) as R. unfold expent in *. rewrite R. simpl. lia.
    + intros x0 Hx0. inversion Hx0; subst. exact Nx.
  - destruct (w <? n); [exact SAME|].
    split; [reflexivity|split; [repeat split|split; [|split; [|split]]]].
    + intros x0 w0 Hin. cbn [s_exp set_rel set_exp] in Hin. apply replace_nth_in in Hin. destruct Hin as [Hin|Hin]; [inversion Hin; subst; exact Nx|eapply He; eauto].
    + unfold XS. cbn [s_exp s_egen set_rel set_exp]. rewrite replace_nth_length. split; [exact G|eapply slots_free_replace; eauto].
    + intros j. unfold X, RC. cbn [s_boot s_exp s_ans s_handles s_emb s_lrefs set_rel set_exp].
      pose proof (EXP_replace j _ _ (Some (x, w - n)) _ Hn) as R. unfold expent in *. rewrite R. simpl. lia.
    + discriminate.
Qed.

Lemma rf_release_exports : forall refs s, EN (s_exp s) -> XS s ->
  let '(s1, cl0, err) := release_exports refs s in
  FA s s1 /\ FH s s1 /\ EN (s_exp s1) /\ XS s1 /\ (forall j, X j s1 = X j s + cls j cl0) /\ noemb cl0.
Proof.
  induction refs as [|[i n] refs IH]; intros s He Hx; simpl.
  - split; [reflexivity|split; [apply FH_refl|split; [exact He|split; [exact Hx|split; [intros j; simpl; lia|constructor]]]]].
  - pose proof (rf_release_export i n s He Hx) as F1. destruct (release_export i n s) as [[sa oc] ea].
    destruct F1 as (A1 & B1 & C1 & D1 & X1 & N1).
    specialize (IH sa C1 D1). destruct (release_exports refs sa) as [[sb clb] eb]. destruct IH as (A2 & B2 & C2 & D2 & X2 & N2).
    split; [eapply FA_trans; eauto|split; [eapply FH_trans; eauto|split; [exact C2|split; [exact D2|split]]]].
    + intros j. rewrite X2, X1. destruct oc; simpl; lia.
    + destruct oc as [x|]; [constructor; [apply N1; reflexivity|exact N2]|exact N2].
Qed.

(* ---------------------------------------------------------------- answers *)
Definition AI (s : state) : Prop := keys_ok (s_ans s) /\ PA (s_ans s) /\ EN (s_exp s) /\ XS s.
Definition OT (id : Z) (s s1 : state) : Prop := forall i, i <> id -> aget i (s_ans s1) = aget i (s_ans s).
Definition OTL (ids : list Z) (s s1 : state) : Prop := forall i, ~ In i ids -> aget i (s_ans s1) = aget i (s_ans s).

Lemma In_adel : forall A k (m : list (Z * A)) x, In x (adel k m) -> In x m.
Proof. induction m as [|[k0 v0] m IH]; simpl; intros x H; [exact H|]. destruct (k0 =? k); [right; apply IH; exact H|destruct H; [left; exact H|right; apply IH; exact H]]. Qed.
Lemma PA_adel : forall id l, PA l -> PA (adel id l).
Proof. intros id l H i a Hin. eapply H. eapply In_adel; eauto. Qed.
Lemma PA_aput : forall id a l, PA l -> pa1 a -> PA (aput id a l).
Proof. intros id a l H Ha i b Hin. unfold aput in Hin. destruct Hin as [Hin|Hin]; [inversion Hin; subst; exact Ha|eapply H; eapply In_adel; eauto]. Qed.
Lemma PA_aget : forall l id a, PA l -> aget id l = Some a -> pa1 a.
Proof. intros l id a H Hg. eapply H. eapply aget_in; eauto. Qed.

Lemma X_set_ans : forall j s l, X j (set_ans l s) = X j s + ANS j (s_ans s) - ANS j l.
Proof. intros. unfold X, RC. cbn [s_boot s_exp s_ans s_handles s_emb s_lrefs set_ans]. lia. Qed.

Lemma rf_destroy : forall id a s s1 o err, destroy cfg_fixed id a s = Ok (s1, o, err) -> AI s ->
  FH s s1 /\ AI s1 /\ OT id s s1 /\ forall j, X j s1 = X j s + awo j (aget id (s_ans s)) - cls j (rct_caps (a_rct a)).
Proof.
  intros id a s s1 o err H (K & P & He & Hx). unfold destroy in H.
  set (sa := set_ans (adel id (s_ans s)) s) in *.
  assert (Xa : forall j, X j sa = X j s + awo j (aget id (s_ans s))).
  { intros j. unfold sa. rewrite X_set_ans, (ANS_adel j id _ K). lia. }
  assert (Ka : keys_ok (s_ans sa)) by (apply keys_adel; exact K).
  assert (Pa : PA (s_ans sa)) by (apply PA_adel; exact P).
  assert (Oa : OT id s sa) by (intros i Hi; unfold sa; cbn [s_ans set_ans]; rewrite aget_adel; replace (i =? id) with false by lia; reflexivity).
  assert (FIN : forall sx cl0 s3 o3, FA sa sx -> FH sa sx -> EN (s_exp sx) -> XS sx -> (forall j, X j sx = X j sa + cls j cl0) -> noemb cl0 ->
            release_caps cfg_fixed (rct_caps (a_rct a) ++ cl0) sx = Ok (s3, o3) ->
            FH s s3 /\ AI s3 /\ OT id s s3 /\ forall j, X j s3 = X j s + awo j (aget id (s_ans s)) - cls j (rct_caps (a_rct a))).
  { intros sx cl0 s3 o3 A1 B1 C1 D1 X1 N1 E3.
    destruct (rf_release_caps_ne _ _ _ _ E3 (noemb_app _ _ (noemb_rct _) N1)) as (A3 & B3 & C3 & X3). unfold FA in *.
    split; [eapply FH_trans; [|exact C3]; eapply FH_trans; [|exact B1]; repeat split|].
    split; [split; [rewrite A3, A1; exact Ka|split; [rewrite A3, A1; exact Pa|split; [eapply EN_FE; eauto|eapply XS_FE; eauto]]]|].
    split; [intros i Hi; rewrite A3, A1; apply Oa; exact Hi|].
    intros j. rewrite X3, X1, Xa, cls_app. lia. }
  destruct (a_rrc a && negb match a_xrefs a with [] => true | _ :: _ => false end).
  - pose proof (rf_release_exports (a_xrefs a) sa He Hx) as F.
    destruct (release_exports (a_xrefs a) sa) as [[sx cl0] e2]. destruct F as (A1 & B1 & C1 & D1 & X1 & N1).
    destruct (release_caps cfg_fixed (rct_caps (a_rct a) ++ cl0) sx) as [[s3 o3]| |] eqn:E3; simpl in H; try discriminate.
    inversion H; subst. eapply FIN; eauto.
  - destruct (release_caps cfg_fixed (rct_caps (a_rct a) ++ []) sa) as [[s3 o3]| |] eqn:E3; simpl in H; try discriminate.
    inversion H; subst. eapply (FIN sa []); eauto; [reflexivity|apply FH_refl|intros j; simpl; lia|constructor].
Qed.

Lemma rf_send_exception : forall id a s s1 o ab, send_exception cfg_fixed id a s = Ok (s1, o, ab) -> AI s -> a_args a = [] ->
  FH s s1 /\ AI s1 /\ OT id s s1 /\ forall j, X j s1 = X j s + awo j (aget id (s_ans s)) - cls j (rct_caps (a_rct a)).
Proof.
  intros id a s s1 o ab H Ai Ha. unfold send_exception in H. set (s0 := zremove_q id s) in *.
  assert (A0 : AI s0) by exact Ai. assert (X0 : forall j, X j s0 = X j s) by (intros j; apply X_eq; reflexivity).
  destruct (a_fin a).
  - destruct (destroy cfg_fixed id _ s0) as [[[s2 o2] e2]| |] eqn:E; simpl in H; try discriminate. inversion H; subst.
    destruct (rf_destroy _ _ _ _ _ _ E A0) as (F & A & O & D). split; [exact F|split; [exact A|split; [exact O|]]].
    intros j. rewrite D, X0. reflexivity.
  - inversion H; subst. destruct Ai as (K & P & He & Hx). split; [repeat split|split; [|split]].
    + split; [apply keys_aput; exact K|split; [|split; [exact He|exact Hx]]].
      apply PA_aput; [exact P|]. split; [simpl; rewrite Ha; constructor|split; [intros _; exact Ha|simpl; discriminate]].
    + intros i Hi. cbn [s_ans set_ans]. rewrite aget_aput. replace (i =? id) with false by lia. reflexivity.
    + intros j. rewrite X_set_ans. cbn [s_ans]. change (s_ans s0) with (s_ans s). rewrite (ANS_aput j id _ _ K), X0.
      unfold aw. cbn [a_args a_rct mark_done]. rewrite Ha. simpl. lia.
Qed.

Lemma rf_send_return : forall id a k rct s s1 o ab, send_return cfg_fixed id a k rct s = Ok (s1, o, ab) -> AI s -> a_args a = [] ->
  FH s s1 /\ AI s1 /\ OT id s s1 /\ forall j, X j s1 = X j s + awo j (aget id (s_ans s)) - cls j (rct_caps rct).
Proof.
  intros id a k rct s s1 o ab H (K & P & He & Hx) Ha. unfold send_return in H.
  destruct (fill_caps cfg_fixed (rct_caps rct) s) as [[[sf ds] refs]| |] eqn:E0; cbn [bind] in H; try discriminate.
  destruct (rf_fill_caps _ _ _ _ _ E0 (noemb_rct _) He Hx) as (A0 & B0 & C0 & D0 & X0). unfold FA in A0.
  set (s2 := zremove_q id sf) in *.
  assert (A2 : AI s2) by (split; [change (s_ans s2) with (s_ans sf); rewrite A0; exact K|split; [change (s_ans s2) with (s_ans sf); rewrite A0; exact P|split; [exact C0|exact D0]]]).
  assert (X2 : forall j, X j s2 = X j s) by (intros j; rewrite <- X0; apply X_eq; reflexivity).
  assert (F2 : FH s s2) by (eapply FH_trans; [exact B0|repeat split]).
  destruct (a_fin a).
  - destruct (destroy cfg_fixed id _ s2) as [[[s3 o3] e3]| |] eqn:E; simpl in H; try discriminate. inversion H; subst.
    destruct (rf_destroy _ _ _ _ _ _ E A2) as (F & A & O & D). split; [eapply FH_trans; eauto|split; [exact A|split]].
    + intros i Hi. rewrite (O i Hi). change (s_ans s2) with (s_ans sf). rewrite A0. reflexivity.
    + intros j. rewrite D, X2. change (s_ans s2) with (s_ans sf). rewrite A0. reflexivity.
  - inversion H; subst. split; [eapply FH_trans; [exact F2|repeat split]|split; [|split]].
    + destruct A2 as (K2 & P2 & He2 & Hx2). split; [apply keys_aput; exact K2|split; [|split; [exact He2|exact Hx2]]].
      apply PA_aput; [exact P2|]. split; [simpl; rewrite Ha; constructor|split; [intros _; exact Ha|simpl; discriminate]].
    + intros i Hi. cbn [s_ans set_ans]. rewrite aget_aput. replace (i =? id) with false by lia. change (s_ans s2) with (s_ans sf). rewrite A0. reflexivity.
    + intros j. rewrite X_set_ans. cbn [s_ans]. change (s_ans s2) with (s_ans sf). rewrite A0. rewrite (ANS_aput j id _ _ K), X2.
      unfold aw. cbn [a_args a_rct]. rewrite Ha. simpl. lia.
Qed.

Lemma rf_reject : forall id a s s1 o ab, reject cfg_fixed id a s = Ok (s1, o, ab) -> AI s -> pa1 a ->
  FH s s1 /\ AI s1 /\ OT id s s1 /\ forall j, X j s1 = X j s + awo j (aget id (s_ans s)) - aw j a.
Proof.
  intros id a s s1 o ab H (K & P & He & Hx) (Na & Ra & Rc). unfold reject in H.
  destruct (release_caps cfg_fixed (a_args a) s) as [[s0 o0]| |] eqn:E0; simpl in H; try discriminate.
  destruct (send_exception cfg_fixed id (set_a_args [] a) s0) as [[[s2 o2] b2]| |] eqn:E2; simpl in H; try discriminate.
  inversion H; subst. destruct (rf_release_caps_ne _ _ _ _ E0 Na) as (A0 & B0 & C0 & X0). unfold FA in A0.
  assert (A0' : AI s0) by (split; [rewrite A0; exact K|split; [rewrite A0; exact P|split; [eapply EN_FE; eauto|eapply XS_FE; eauto]]]).
  destruct (rf_send_exception _ _ _ _ _ _ E2 A0' eq_refl) as (F & A & O & D).
  split; [eapply FH_trans; eauto|split; [exact A|split]].
  - intros i Hi. rewrite (O i Hi), A0. reflexivity.
  - intros j. rewrite D, X0, A0. unfold aw. cbn [a_rct set_a_args]. lia.
Qed.

Lemma rf_deliver : forall id a t s s1 o ab, deliver cfg_fixed id a t s = Ok (s1, o, ab) -> AI s -> pa1 a ->
  FH s s1 /\ AI s1 /\ OT id s s1 /\ forall j, X j s1 = X j s + awo j (aget id (s_ans s)) - aw j a.
Proof.
  intros id a t s s1 o ab H Ai Pa. unfold deliver in H.
  destruct t; [|eapply rf_reject; eauto|discriminate].
  destruct (a_mok a); [|eapply rf_reject; eauto]. inversion H; subst. destruct Ai as (K & P & He & Hx).
  split; [repeat split|split; [|split]].
  - split; [apply keys_aput; exact K|split; [|split; [exact He|exact Hx]]]. apply PA_aput; [exact P|exact Pa].
  - intros i Hi. cbn [s_ans set_ndeliv set_ans]. rewrite aget_aput. replace (i =? id) with false by lia. reflexivity.
  - intros j0. unfold X, RC. cbn [s_boot s_exp s_ans s_handles s_emb s_lrefs set_ndeliv set_ans zremove_q set_queue].
    rewrite (ANS_aput j0 id _ _ K). unfold aw. cbn [a_args a_rct set_a_deliv set_a_st]. lia.
Qed.

Lemma OTL_nil : forall s, OTL [] s s. Proof. intros s i _. reflexivity. Qed.

Lemma rf_reject_all : forall ids s s1 o ab, reject_all cfg_fixed ids s = Ok (s1, o, ab) -> AI s ->
  FH s s1 /\ AI s1 /\ OTL ids s s1 /\ forall j, X j s1 = X j s.
Proof.
  induction ids as [|id ids IH]; intros s s1 o ab H Ai; simpl in H.
  - inversion H; subst. split; [apply FH_refl|split; [exact Ai|split; [apply OTL_nil|reflexivity]]].
  - destruct (aget id (s_ans s)) as [a|] eqn:Ea.
    + destruct (reject cfg_fixed id a s) as [[[s' o'] b']| |] eqn:E; cbn [bind] in H; try discriminate.
      destruct (reject_all cfg_fixed ids s') as [[[s2 o2] b2]| |] eqn:E2; simpl in H; try discriminate. inversion H; subst.
      destruct (rf_reject _ _ _ _ _ _ E Ai (PA_aget _ _ _ (proj1 (proj2 Ai)) Ea)) as (F1 & A1 & O1 & D1).
      destruct (IH _ _ _ _ E2 A1) as (F2 & A2 & O2 & D2).
      split; [eapply FH_trans; eauto|split; [exact A2|split]].
      * intros i Hi. rewrite (O2 i), (O1 i); [reflexivity| |]; intros Hc; apply Hi; simpl; auto.
      * intros j. rewrite D2, D1, Ea. simpl. lia.
    + destruct (IH _ _ _ _ H Ai) as (F2 & A2 & O2 & D2). split; [exact F2|split; [exact A2|split; [|exact D2]]].
      intros i Hi. apply O2. intros Hc. apply Hi. simpl. auto.
Qed.

Lemma rf_drain : forall r k rct lst ids s s1 o ab, drain cfg_fixed r k rct lst ids s = Ok (s1, o, ab) -> AI s ->
  FH s s1 /\ AI s1 /\ OTL ids s s1 /\ forall j, X j s1 = X j s.
Proof.
  induction ids as [|id ids IH]; intros s s1 o ab H Ai; simpl in H.
  - inversion H; subst. split; [apply FH_refl|split; [exact Ai|split; [apply OTL_nil|reflexivity]]].
  - match type of H with (bind ?x _) = _ => destruct x as [[[s' o'] b']| |] eqn:E; cbn [bind] in H; try discriminate end.
    destruct (drain cfg_fixed r k rct lst ids s') as [[[s2 o2] b2]| |] eqn:E2; simpl in H; try discriminate. inversion H; subst.
    assert (STEP : FH s s' /\ AI s' /\ OT id s s' /\ forall j, X j s' = X j s).
    { assert (SAME : Ok (s, @nil output, false) = Ok (s', o', b') -> FH s s' /\ AI s' /\ OT id s s' /\ forall j, X j s' = X j s).
      { intros EE. inversion EE; subst. split; [apply FH_refl|split; [exact Ai|split; [intros i _; reflexivity|reflexivity]]]. }
      destruct (aget id (s_ans s)) as [a|] eqn:Ea; [|apply SAME; exact E].
      pose proof (PA_aget _ _ _ (proj1 (proj2 Ai)) Ea) as Pa.
      assert (ZERO : forall sx, (FH s sx /\ AI sx /\ OT id s sx /\ forall j, X j sx = X j s + awo j (aget id (s_ans s)) - aw j a) ->
                FH s sx /\ AI sx /\ OT id s sx /\ forall j, X j sx = X j s).
      { intros sx (F & A & O & D). split; [exact F|split; [exact A|split; [exact O|]]]. intros j. rewrite D, Ea. cbn [awo]. ring. }
      destruct (a_st a) eqn:Est; try (apply SAME; exact E).
      destruct (_ =? r); [apply ZERO; eapply rf_deliver; eauto|].
      match type of E with context [aget ?ep (s_ans s)] => destruct (aget ep (s_ans s)) as [b|] end; [|apply ZERO; eapply rf_reject; eauto].
      destruct (a_ready b); [destruct (a_err b); apply ZERO; [eapply rf_reject; eauto|eapply rf_deliver; eauto]|].
      inversion E; subst. destruct Ai as (K & P & He & Hx). split; [repeat split|split; [|split]].
      - split; [apply keys_aput; exact K|split; [|split; [exact He|exact Hx]]]. apply PA_aput; [exact P|exact Pa].
      - intros i Hi. cbn [s_ans set_ans]. rewrite aget_aput. replace (i =? id) with false by lia. reflexivity.
      - intros j. rewrite X_set_ans, (ANS_aput j id _ _ K), Ea. cbn [awo]. unfold aw. cbn [a_args a_rct set_a_st]. lia. }
    destruct STEP as (F1 & A1 & O1 & D1). destruct (IH _ _ _ _ E2 A1) as (F2 & A2 & O2 & D2).
    split; [eapply FH_trans; eauto|split; [exact A2|split]].
    + intros i Hi. rewrite (O2 i), (O1 i); [reflexivity| |]; intros Hc; apply Hi; simpl; auto.
    + intros j. rewrite D2, D1. reflexivity.
Qed.

(* ---------------------------------------------------------------- embargoes *)

Lemma cls_replace : forall j l n v old, nth_error l n = Some old -> cls j (replace_nth n v l) = cls j l - cl j old + cl j v.
Proof.
  intros j l. induction l as [|a l IH]; intros n v old H; destruct n; simpl in H; try discriminate; cbn [replace_nth cls].
  - inversion H; subst. lia.
  - rewrite (IH _ v _ H). lia.
Qed.
Lemma ces_replace : forall e l n v old, nth_error l n = Some old -> ces e (replace_nth n v l) = ces e l - ce e old + ce e v.
Proof.
  intros e l. induction l as [|a l IH]; intros n v old H; destruct n; simpl in H; try discriminate; cbn [replace_nth ces].
  - inversion H; subst. lia.
  - rewrite (IH _ v _ H). lia.
Qed.
Lemma noemb_nth : forall l n x, noemb l -> nth_error l n = Some x -> not_emb x.
Proof. intros l n x H Hn. unfold noemb in H. rewrite Forall_forall in H. apply H. eapply nth_error_In; eauto. Qed.

(* [sub] is the part of the table that came from the peer (no embargo promises); the entries embargoed so far
   are promises of this very Return *)
Lemma rf_embargo_caps : forall qid k called loc done tab s s1 tab1 o,
  embargo_caps cfg_fixed qid k called loc done tab s = Ok (s1, tab1, o) -> XM s -> EC (s_emb s) -> TI s tab ->
  (forall i lc, znth i tab = Some lc -> zmem i done = false -> not_emb lc) ->
  FA s s1 /\ FE s s1 /\ s_handles s1 = s_handles s /\ s_boot s1 = s_boot s /\ XM s1 /\ EC (s_emb s1) /\ TI s1 tab1 /\
  (forall j, X j s1 - cls j tab1 = X j s - cls j tab).
Proof.
  induction called as [|x called IH]; intros loc done tab s s1 tab1 o H Xm Ec Ti Nd; simpl in H.
  - inversion H; subst. split; [reflexivity|split; [apply FE_refl|split; [reflexivity|split; [reflexivity|split; [exact Xm|split; [exact Ec|split; [exact Ti|reflexivity]]]]]]].
  - destruct (transform_eval k x) as [|i| |]; try (eapply IH; eauto; fail).
    destruct (znth i tab) as [lc|] eqn:Ez; [|eapply IH; eauto].
    destruct (znth i loc) as [[|]|]; try (eapply IH; eauto; fail).
    destruct (zmem i done) eqn:Ed; [eapply IH; eauto|].
    destruct (gen_next (s_mgen s)) as [[e g]| |] eqn:EG; cbn [bind] in H; try discriminate.
    destruct (tput e (mkEmb lc 1) (s_emb s)) as [t| |] eqn:ET; cbn [bind] in H; try discriminate.
    match type of H with (bind ?r _) = _ => destruct r as [[[s2 tab2] o2]| |] eqn:E2; cbn [bind] in H; try discriminate end.
    inversion H; subst. clear H.
    destruct Xm as [G S]. destruct (alloc_inv _ _ _ _ _ _ _ G S EG ET) as (G' & S' & Hn & TG & SH).
    pose proof (Nd _ _ Ez Ed) as Nlc. apply znth_some in Ez. destruct Ez as [Hr Hnth].
    set (sa := set_allocs (s_allocs s + 1) (set_mgen g (set_emb t s))) in *.
    set (tab' := replace_nth (Z.to_nat i) (CEmb e) tab) in *.
    assert (Xa : XM sa) by (split; assumption).
    assert (Ea : EC (s_emb sa)).
    { intros em Hin. cbn [sa s_emb set_allocs set_mgen set_emb] in Hin.
      destruct SH as [->|[_ ->]]; [apply in_app_or in Hin; destruct Hin as [Hin|[Hin|[]]]; [apply Ec; exact Hin|inversion Hin; subst; exact Nlc]|].
      apply replace_nth_in in Hin. destruct Hin as [Hin|Hin]; [inversion Hin; subst; exact Nlc|apply Ec; exact Hin]. }
    assert (Ta : TI sa tab').
    { intros e'. cbn [sa s_emb s_handles set_allocs set_mgen set_emb]. rewrite TG. specialize (Ti e').
      unfold tab'. rewrite (ces_replace e' _ _ (CEmb e) _ Hnth).
      replace (ce e' lc) with 0 by (destruct lc; simpl in *; try reflexivity; contradiction). simpl ce.
      destruct (e' =? e) eqn:Ee.
      - assert (e' = e) by lia. subst e'. rewrite Hn in Ti. destruct Ti as [T1 T2]. rewrite Z.eqb_refl. cbn [e_refs]. lia.
      - replace (e =? e') with false by lia. destruct (tget e' (s_emb s)); [lia|destruct Ti; split; lia]. }
    assert (Na : forall i0 lc0, znth i0 tab' = Some lc0 -> zmem i0 (i :: done) = false -> not_emb lc0).
    { intros i0 lc0 Hz Hm. simpl in Hm. apply orb_false_iff in Hm. destruct Hm as [Hi Hm]. unfold tab' in Hz.
      rewrite znth_replace in Hz by lia. replace (i0 =? i) with false in Hz by lia. eapply Nd; eauto. }
    destruct (IH _ _ _ _ _ _ _ E2 Xa Ea Ta Na) as (A2 & B2 & C2 & D2 & X2 & E2' & T2 & W2).
    split; [exact A2|split; [exact B2|split; [exact C2|split; [exact D2|split; [exact X2|split; [exact E2'|split; [exact T2|]]]]]]].
    intros j. rewrite W2. unfold tab'. rewrite (cls_replace j _ _ (CEmb e) _ Hnth). change (cl j (CEmb e)) with 0.
    unfold X, RC. cbn [sa s_boot s_exp s_ans s_handles s_emb s_lrefs set_allocs set_mgen set_emb].
    assert (EM : EMB j t = EMB j (s_emb s) + cl j lc).
    { destruct SH as [->|[Hne ->]]; [rewrite EMB_app; reflexivity|]. rewrite (EMB_replace j _ _ (Some (mkEmb lc 1)) _ Hne). simpl. lia. }
    rewrite EM. ring.
Qed.

(* embargo.lift *)
Lemma hw_rewrite : forall j e x h, hw j (rewrite_handle e x h) = hw j h + he e h * cl j x.
Proof.
  intros j e x h. unfold rewrite_handle. destruct h as [q|c|]; cbn [hw he]; try ring. destruct c; cbn [hw he ce cl]; try ring.
  destruct (e0 =? e) eqn:E; cbn [hw cl]; ring.
Qed.
Lemma HND_rewrite : forall j e x l, HND j (map (rewrite_handle e x) l) = HND j l + HE e l * cl j x.
Proof. intros j e x l. induction l as [|h l IH]; simpl; [lia|]. rewrite IH, hw_rewrite. lia. Qed.
Lemma HE_rewrite : forall e' e x l, not_emb x -> HE e' (map (rewrite_handle e x) l) = if e' =? e then 0 else HE e' l.
Proof.
  intros e' e x l Nx. induction l as [|h l IH]; simpl; [destruct (e' =? e); reflexivity|]. rewrite IH.
  assert (Hh : he e' (rewrite_handle e x h) = if e' =? e then 0 else he e' h).
  { destruct h as [q|c|]; simpl; try (destruct (e' =? e); reflexivity). destruct c; simpl; try (destruct (e' =? e); reflexivity).
    destruct (e0 =? e) eqn:E0; simpl.
    - replace (ce e' x) with 0 by (destruct x; simpl in *; try reflexivity; contradiction).
      destruct (e' =? e) eqn:E1; [reflexivity|]. replace (e0 =? e') with false by lia. reflexivity.
    - destruct (e' =? e) eqn:E1; [|reflexivity]. replace (e0 =? e') with false by lia. reflexivity. }
  rewrite Hh. destruct (e' =? e); lia.
Qed.

Lemma rf_wake_calls : forall e x l s, let s1 := fst (wake_calls e x l s) in
  s_boot s1 = s_boot s /\ s_exp s1 = s_exp s /\ s_ans s1 = s_ans s /\ s_handles s1 = s_handles s /\ s_emb s1 = s_emb s /\
  s_lrefs s1 = s_lrefs s /\ s_egen s1 = s_egen s /\ s_mgen s1 = s_mgen s /\ s_qs s1 = s_qs s.
Proof.
  induction l as [|[[e' n] tag] l IH]; intros s; simpl; [repeat split|].
  destruct (e' =? e); [|apply IH].
  destruct x; try (specialize (IH s); destruct (wake_calls e _ l s); exact IH).
  match goal with |- context [wake_calls e ?x l ?s1] => specialize (IH s1); destruct (wake_calls e x l s1) end. exact IH.
Qed.

Lemma rf_lift : forall e em s s1 o, lift cfg_fixed e em s = Ok (s1, o) -> not_emb (e_cap em) -> e_refs em = HE e (s_handles s) ->
  FA s s1 /\ FE s s1 /\ s_emb s1 = s_emb s /\ s_boot s1 = s_boot s /\ s_mgen s1 = s_mgen s /\ s_qs s1 = s_qs s /\
  s_handles s1 = map (rewrite_handle e (e_cap em)) (s_handles s) /\ forall j, X j s1 = X j s - cl j (e_cap em).
Proof.
  intros e em s s1 o H Nc Hr. unfold lift in H. cbn [fx22 cfg_fixed negb] in H. rewrite andb_false_r in H. cbv iota in H.
  match type of H with context [wake_calls e ?x ?l ?s1] => set (sb := s1) in * end.
  pose proof (rf_wake_calls e (e_cap em) (s_ecalls sb) sb) as W.
  destruct (wake_calls e (e_cap em) (s_ecalls sb) sb) as [s2 o2]. simpl in W. destruct W as (W1 & W2 & W3 & W4 & W5 & W6 & W7 & W8 & W9).
  inversion H; subst. clear H.
  set (d := if e_refs em =? 0 then -1 else e_refs em - 1) in *.
  assert (Sb : s_boot sb = s_boot s /\ s_exp sb = s_exp s /\ s_ans sb = s_ans s /\ s_emb sb = s_emb s /\ s_egen sb = s_egen s /\ s_mgen sb = s_mgen s /\ s_qs sb = s_qs s /\
               s_handles sb = map (rewrite_handle e (e_cap em)) (s_handles s) /\ forall j, cget j (s_lrefs sb) = cget j (s_lrefs s) + d * cl j (e_cap em)).
  { unfold sb. destruct (e_cap em); cbn [lref_cap];
      (split; [reflexivity|split; [reflexivity|split; [reflexivity|split; [reflexivity|split; [reflexivity|split; [reflexivity|split; [reflexivity|split; [reflexivity|]]]]]]]]);
      intros j0; try (cbn [cl s_lrefs set_handles]; lia).
    rewrite cget_lref. cbn [cl s_lrefs set_handles]. rewrite (Z.eqb_sym j j0). destruct (j0 =? j); lia. }
  destruct Sb as (B1 & B2 & B3 & B4 & B5 & B6 & B9 & B7 & B8).
  split; [unfold FA; cbn [s_ans set_ecalls]; congruence|split; [split; cbn [s_exp s_egen set_ecalls]; congruence|
    split; [cbn [s_emb set_ecalls]; congruence|split; [cbn [s_boot set_ecalls]; congruence|split; [cbn [s_mgen set_ecalls]; congruence|
    split; [cbn [s_qs set_ecalls]; congruence|split; [cbn [s_handles set_ecalls]; congruence|]]]]]]].
  intros j. unfold X, RC. cbn [s_boot s_exp s_ans s_handles s_emb s_lrefs set_ecalls].
  rewrite W1, W2, W3, W4, W5, W6, B1, B2, B3, B4, B7, B8, HND_rewrite.
  pose proof (HE_nonneg e (s_handles s)). unfold d. destruct (e_refs em =? 0) eqn:E0; [replace (HE e (s_handles s)) with 0 by lia; lia|].
  rewrite <- Hr. destruct (s_boot s && (j =? 0)); lia.
Qed.

(* ---------------------------------------------------------------- the invariant at handler boundaries *)
Definition HB (s : state) : Prop := forall qid q h, tget qid (s_qs s) = Some q -> q_fin q = false -> q_boot q = Some h ->
  znth h (s_handles s) = Some (HBoot qid).
Definition RI (s : state) : Prop :=
  (forall j, X j s = 0) /\ TI s [] /\ AI s /\ EC (s_emb s) /\ XM s /\ HB s.

Lemma HB_same : forall s s1, s_qs s1 = s_qs s -> s_handles s1 = s_handles s -> HB s -> HB s1.
Proof. intros s s1 A B H. unfold HB. rewrite A, B. exact H. Qed.
Lemma HB_qinert : forall s o s1, qinert s o s1 -> HB s -> HB s1.
Proof. intros s o s1 [(F1 & F2 & _) _] H. eapply HB_same; [exact F1|exact F2|exact H]. Qed.
Lemma XM_FH : forall s s1, FH s s1 -> XM s -> XM s1.
Proof. intros s s1 (_ & B & _ & M) H. unfold XM. rewrite B, M. exact H. Qed.
Lemma EC_FH : forall s s1, FH s s1 -> EC (s_emb s) -> EC (s_emb s1).
Proof. intros s s1 (_ & B & _) H. rewrite B. exact H. Qed.

(* assembling RI after a handler that keeps handles, embargoes, questions *)
Lemma RI_keep : forall s s1, RI s -> FH s s1 -> s_qs s1 = s_qs s -> AI s1 -> (forall j, X j s1 = X j s) -> RI s1.
Proof.
  intros s s1 (Hx & Ti & Ai & Ec & Xm & Hb) F Q A1 X1.
  split; [intros j; rewrite X1; apply Hx|split; [eapply TI_FH; eauto|split; [exact A1|split; [eapply EC_FH; eauto|split; [eapply XM_FH; eauto|]]]]].
  eapply HB_same; [exact Q|apply (proj1 F)|exact Hb].
Qed.

Lemma AI_FA_FE : forall s s1, FA s s1 -> FE s s1 -> AI s -> AI s1.
Proof. intros s s1 A B (K & P & He & Hx). unfold FA in A. split; [rewrite A; exact K|split; [rewrite A; exact P|split; [eapply EN_FE; eauto|eapply XS_FE; eauto]]]. Qed.

Lemma pa1_new : forall tab mok tag, noemb tab -> pa1 (new_answer tab mok tag).
Proof. intros tab mok tag N. split; [exact N|split; [simpl; discriminate|reflexivity]]. Qed.
Lemma pa1_placeholder : pa1 placeholder.
Proof. split; [constructor|split; [simpl; discriminate|reflexivity]]. Qed.

(* ---------------------------------------------------------------- peer messages *)
Lemma X_lref0 : forall j d k s, X j (lref d k s) = X j s + (if j =? k then d else 0).
Proof. intros. rewrite (X_tabs j s (lref d k s)) by reflexivity. rewrite cget_lref. lia. Qed.

Lemma ri_handle_bootstrap : forall id s s0 o0 ab, handle_bootstrap cfg_fixed id s = Ok (s0, o0, ab) -> RI s -> RI s0.
Proof.
  intros id s s0 o0 ab H R. pose proof (handle_bootstrap_qinert _ _ _ _ _ H) as [(Q1 & _) _]. simpl in Q1.
  pose proof R as (Hx & Ti & Ai & Ec & Xm & Hb). unfold handle_bootstrap in H.
  destruct (aget id (s_ans s)) eqn:Ea; [inversion H; subst; exact R|].
  destruct (negb (s_boot s)).
  - destruct (rf_send_exception _ _ _ _ _ _ H Ai eq_refl) as (F & A & O & D).
    eapply RI_keep; eauto. intros j. rewrite D, Ea. simpl. lia.
  - destruct (send_return cfg_fixed id _ _ _ _) as [[[s1 o] err]| |] eqn:E; cbn [bind] in H; try discriminate.
    destruct err; [discriminate|]. inversion H; subst.
    assert (Al : AI (lref 1 0 s)) by exact Ai.
    destruct (rf_send_return _ _ _ _ _ _ _ _ E Al eq_refl) as (F & A & O & D).
    eapply RI_keep; [exact R|eapply FH_trans; [|exact F]; repeat split|exact Q1|exact A|].
    intros j. rewrite D, X_lref0. change (s_ans (lref 1 0 s)) with (s_ans s). rewrite Ea. cbn [awo rct_caps map cls cl]. rewrite (Z.eqb_sym 0 j). destruct (j =? 0); lia.
Qed.

Lemma ri_handle_finish : forall id rrc s s0 o0 ab, handle_finish cfg_fixed id rrc s = Ok (s0, o0, ab) -> RI s -> RI s0.
Proof.
  intros id rrc s s0 o0 ab H R. pose proof (handle_finish_qinert _ _ _ _ _ _ H) as [(Q1 & _) _]. simpl in Q1.
  pose proof R as (Hx & Ti & Ai & Ec & Xm & Hb). unfold handle_finish in H.
  destruct (aget id (s_ans s)) as [a|] eqn:Ea; [|inversion H; subst; exact R].
  destruct (a_fin a); [inversion H; subst; exact R|].
  pose proof (PA_aget _ _ _ (proj1 (proj2 Ai)) Ea) as (Na & Ra & Rc).
  destruct (negb (a_ret a)) eqn:Er.
  - inversion H; subst. destruct Ai as (K & P & He & Hx').
    eapply RI_keep; [exact R|repeat split|reflexivity| |].
    + split; [apply keys_aput; exact K|split; [|split; [exact He|exact Hx']]]. apply PA_aput; [exact P|]. split; [exact Na|split; [exact Ra|exact Rc]].
    + intros j. rewrite X_set_ans, (ANS_aput j id _ _ K), Ea. cbn [awo]. unfold aw. cbn [a_args a_rct set_a_fin]. lia.
  - destruct (rf_destroy _ _ _ _ _ _ H Ai) as (F & A & O & D).
    eapply RI_keep; eauto. intros j. rewrite D, Ea. cbn [awo]. unfold aw. cbn [a_rct set_a_fin].
    rewrite (Ra ltac:(destruct (a_ret a); [reflexivity|discriminate])). simpl. lia.
Qed.

Lemma ri_handle_release : forall id n s s0 o0 ab, handle_release cfg_fixed id n s = Ok (s0, o0, ab) -> RI s -> RI s0.
Proof.
  intros id n s s0 o0 ab H R. pose proof (handle_release_qinert _ _ _ _ _ _ H) as [(Q1 & _) _]. simpl in Q1.
  pose proof R as (Hx & Ti & (K & P & He & Hx') & Ec & Xm & Hb). unfold handle_release in H.
  pose proof (rf_release_export id n s He Hx') as F. destruct (release_export id n s) as [[s1 oc] err].
  destruct F as (A1 & B1 & C1 & D1 & X1 & N1).
  destruct err; [inversion H; subst; exact R|].
  assert (Ai1 : AI s1) by (unfold FA in A1; split; [rewrite A1; exact K|split; [rewrite A1; exact P|split; [exact C1|exact D1]]]).
  destruct oc as [x|].
  - destruct (release_cap cfg_fixed x s1) as [[s2 o]| |] eqn:E; cbn [bind] in H; try discriminate. inversion H; subst.
    destruct (rf_release_cap_ne _ _ _ _ E (N1 x eq_refl)) as (A2 & B2 & C2 & X2).
    eapply RI_keep; [exact R|eapply FH_trans; eauto|exact Q1|eapply AI_FA_FE; eauto|].
    intros j. rewrite X2, X1. simpl. lia.
  - inversion H; subst. eapply RI_keep; [exact R|exact B1|exact Q1|exact Ai1|]. intros j. rewrite X1. simpl. lia.
Qed.

Lemma ri_handle_call : forall id tg params toCaller mok tag s s0 o0 ab,
  handle_call cfg_fixed id tg params toCaller mok tag s = Ok (s0, o0, ab) -> RI s -> RI s0.
Proof.
  intros id tg params toCaller mok tag s s0 o0 ab H R. pose proof (handle_call_qinert _ _ _ _ _ _ _ _ _ _ H) as [(Q1 & _) _]. simpl in Q1.
  pose proof R as (Hx & Ti & Ai & Ec & Xm & Hb). unfold handle_call in H.
  destruct toCaller; simpl negb in H; cbv iota in H; [|inversion H; subst; exact R].
  destruct (aget id (s_ans s)) eqn:Ea; [inversion H; subst; exact R|].
  match type of H with (bind ?r _) = _ => destruct r as [[[s1 parsed] tor]| |] eqn:EP; cbn [bind] in H; try discriminate end.
  (* after parseCall: the table of the message holds [held] *)
  assert (P1 : exists held, FA s s1 /\ FE s s1 /\ FH s s1 /\ noemb held /\ (forall j, X j s1 = X j s + cls j held) /\
            match parsed with Some (_, tab) => tab = held /\ tor = [] | None => tor = held end).
  { destruct params as [p|].
    - pose proof (rf_recv_payload p s (proj1 (proj2 (proj2 Ai)))) as C.
      destruct (recv_payload cfg_fixed p s) as [sa k tab loc|sa part].
      + destruct C as (A & B & Cf & N & D). destruct (parse_target tg); inversion EP; subst; eexists;
          (split; [exact A|split; [exact B|split; [exact Cf|split; [exact N|split; [exact D|try split; reflexivity]]]]]).
      + destruct C as (A & B & Cf & N & D). rewrite payload_err_fixed in EP. simpl in EP. inversion EP; subst. eexists.
        split; [exact A|split; [exact B|split; [exact Cf|split; [exact N|split; [exact D|reflexivity]]]]].
    - inversion EP; subst. exists []. split; [reflexivity|split; [apply FE_refl|split; [apply FH_refl|split; [constructor|split; [intros j; simpl; lia|reflexivity]]]]]. }
  destruct P1 as (held & A1 & B1 & C1 & N1 & X1 & PM).
  assert (Ai1 : AI s1) by (eapply AI_FA_FE; eauto).
  assert (Ea1 : aget id (s_ans s1) = None) by (unfold FA in A1; rewrite A1; exact Ea).
  assert (FIN : FH s1 s0 -> AI s0 -> (forall j, X j s0 = X j s1 - cls j held) -> RI s0).
  { intros F A D. eapply RI_keep; [exact R|eapply FH_trans; eauto|exact Q1|exact A|]. intros j. rewrite D, X1. lia. }
  destruct parsed as [[pt tab]|].
  2:{ subst tor. cbn [fx15 cfg_fixed negb] in H.
      destruct (send_exception cfg_fixed id _ s1) as [[[s2 o2] b2]| |] eqn:E2; cbn [bind] in H; try discriminate.
      destruct (release_caps cfg_fixed held s2) as [[s3 o3]| |] eqn:E3; cbn [bind] in H; try discriminate. inversion H; subst.
      destruct (rf_send_exception _ _ _ _ _ _ E2 Ai1 eq_refl) as (F2 & A2 & O2 & D2).
      destruct (rf_release_caps_ne _ _ _ _ E3 N1) as (A3 & B3 & C3 & D3).
      apply FIN; [eapply FH_trans; eauto|eapply AI_FA_FE; eauto|]. intros j. rewrite D3, D2, Ea1. simpl. lia. }
  destruct PM as [-> ->].
  assert (Pa : pa1 (new_answer held mok tag)) by (apply pa1_new; exact N1).
  assert (AW : forall j, aw j (new_answer held mok tag) = cls j held) by (intros j; unfold aw; simpl; lia).
  assert (UNK : forall o2, (do '(s2, o2) <- release_caps cfg_fixed held (set_ans (aput id placeholder (s_ans s1)) s1); Ok (s2, o2, true)) = Ok (s0, o2, ab) -> RI s0).
  { intros o2 HU. destruct (release_caps cfg_fixed held _) as [[s2 o2']| |] eqn:E2; cbn [bind] in HU; try discriminate. inversion HU; subst.
    destruct (rf_release_caps_ne _ _ _ _ E2 N1) as (A3 & B3 & C3 & D3). destruct Ai1 as (K1 & P1 & He1 & Hx1).
    apply FIN; [eapply FH_trans; [|exact C3]; repeat split| |].
    - eapply AI_FA_FE; [exact A3|exact B3|]. split; [apply keys_aput; exact K1|split; [apply PA_aput; [exact P1|exact pa1_placeholder]|split; [exact He1|exact Hx1]]].
    - intros j. rewrite D3, X_set_ans, (ANS_aput j id _ _ K1), Ea1. unfold aw. simpl. lia. }
  assert (DEL : forall t, deliver cfg_fixed id (new_answer held mok tag) t s1 = Ok (s0, o0, ab) -> RI s0).
  { intros t HD. destruct (rf_deliver _ _ _ _ _ _ _ HD Ai1 Pa) as (F & A & O & D). apply FIN; [exact F|exact A|].
    intros j. rewrite D, Ea1, AW. simpl. lia. }
  assert (REJ : reject cfg_fixed id (new_answer held mok tag) s1 = Ok (s0, o0, ab) -> RI s0).
  { intros HD. destruct (rf_reject _ _ _ _ _ _ HD Ai1 Pa) as (F & A & O & D). apply FIN; [exact F|exact A|].
    intros j. rewrite D, Ea1, AW. simpl. lia. }
  destruct pt as [e|t x].
  - destruct (tget e (s_exp s1)) as [[xc w]|]; [eapply DEL; eauto|apply (UNK _ H)].
  - cbn [fx24 cfg_fixed negb andb] in H. rewrite andb_false_r in H. destruct (t =? id); [apply (UNK _ H)|].
    destruct (aget t (s_ans s1)) as [ta|]; [|apply (UNK _ H)].
    destruct (a_fin ta); [apply (UNK _ H)|].
    destruct (a_ready ta).
    + destruct (a_err ta); [apply REJ; exact H|eapply DEL; eauto].
    + destruct (a_st ta); [discriminate| |]; cbn [fx14 cfg_fixed] in H; inversion H; subst; destruct Ai1 as (K1 & P1 & He1 & Hx1);
        (apply FIN; [repeat split|split; [apply keys_aput; exact K1|split; [apply PA_aput; [exact P1|exact Pa]|split; [exact He1|exact Hx1]]]|];
         intros j; unfold X, RC; cbn [s_boot s_exp s_ans s_handles s_emb s_lrefs set_queue set_ans];
         rewrite (ANS_aput j id _ _ K1), Ea1; unfold aw; simpl; lia).
Qed.

Lemma znth_map : forall A B (f : A -> B) l h v, znth h l = Some v -> znth h (map f l) = Some (f v).
Proof.
  intros A B f l h v H. apply znth_some in H. destruct H as [Hr Hn]. unfold znth. rewrite map_length.
  replace ((h <? 0) || (Z.of_nat (length l) <=? h)) with false by lia. rewrite nth_error_map, Hn. reflexivity.
Qed.

Lemma EMB_tclear : forall j t e em, tget e t = Some em -> EMB j (tclear e t) = EMB j t - cl j (e_cap em).
Proof.
  intros j t e em H. apply tget_some in H. destruct H as [Hr Hn]. unfold tclear.
  replace ((0 <=? e) && (e <? Z.of_nat (length t))) with true by lia. rewrite (EMB_replace j t _ None _ Hn). simpl. lia.
Qed.

Lemma ri_handle_disembargo : forall tg cx s s0 o0 ab, handle_disembargo cfg_fixed tg cx s = Ok (s0, o0, ab) -> RI s -> RI s0.
Proof.
  intros tg cx s s0 o0 ab H R. pose proof R as (Hx & Ti & Ai & Ec & (G & S) & Hb). unfold handle_disembargo in H.
  destruct (parse_target tg); [|inversion H; subst; exact R].
  destruct cx as [i|e|]; [inversion H; subst; exact R| |inversion H; subst; exact R].
  destruct (tget e (s_emb s)) as [em|] eqn:Eg; [|inversion H; subst; exact R].
  match type of H with (bind (lift cfg_fixed e em ?sx) _) = _ => set (sa := sx) in *; destruct (lift cfg_fixed e em sa) as [[s1 o1]| |] eqn:EL; cbn [bind] in H; try discriminate end.
  inversion H; subst. clear H.
  pose proof (tget_some _ _ _ _ Eg) as [Hr Hn]. pose proof (Ti e) as Te. rewrite Eg in Te. simpl in Te.
  assert (Nc : not_emb (e_cap em)) by (apply Ec; eapply tget_in; eauto).
  destruct (rf_lift _ _ _ _ _ EL Nc ltac:(change (s_handles sa) with (s_handles s); lia)) as (A & B & C & D & M & Q & Hh & Xl).
  split; [|split; [|split; [|split; [|split]]]].
  - intros j. rewrite Xl. unfold sa. unfold X, RC. cbn [s_boot s_exp s_ans s_handles s_emb s_lrefs set_mgen set_emb].
    rewrite (EMB_tclear j _ _ _ Eg). specialize (Hx j). unfold X, RC in Hx. lia.
  - intros e'. rewrite C, Hh. change (s_emb sa) with (tclear e (s_emb s)). change (s_handles sa) with (s_handles s).
    rewrite tget_tclear, (HE_rewrite e' e _ _ Nc). specialize (Ti e'). simpl in Ti. destruct (e' =? e); [split; reflexivity|].
    cbn [ces]. destruct (tget e' (s_emb s)); [lia|destruct Ti; split; lia].
  - eapply AI_FA_FE; [exact A|exact B|exact Ai].
  - rewrite C. change (s_emb sa) with (tclear e (s_emb s)). intros em0 Hin. apply tclear_in in Hin. destruct Hin as [Hin|Hin]; [discriminate|apply Ec; exact Hin].
  - unfold XM. rewrite C, M. change (s_emb sa) with (tclear e (s_emb s)). change (s_mgen sa) with (gen_remove e (s_mgen s)).
    rewrite tclear_length. split; [apply gen_remove_ok; [exact G|lia]|apply slots_free_tclear; exact S].
  - intros qid q h Hq Hf Hbq. rewrite Q in Hq. change (s_qs sa) with (s_qs s) in Hq. rewrite Hh. change (s_handles sa) with (s_handles s).
    apply (znth_map _ _ (rewrite_handle e (e_cap em)) _ _ _ (Hb _ _ _ Hq Hf Hbq)).
Qed.

(* ---------------------------------------------------------------- a Return arrives *)
(* the bootstrap handle resolves to x: one more reference on x, held by the handle *)
Lemma rf_resolve : forall h x s l qid, TI s l -> (not_emb x \/ In x l) -> znth h (s_handles s) = Some (HBoot qid) ->
  let s1 := set_handle h (HCap x) (addref_cap x s) in
  TI s1 l /\ FA s s1 /\ FE s s1 /\ s_boot s1 = s_boot s /\ s_mgen s1 = s_mgen s /\ (forall j, X j s1 = X j s) /\
  (EC (s_emb s) -> EC (s_emb s1)) /\ (XM s -> XM s1) /\ s_handles s1 = replace_nth (Z.to_nat h) (HCap x) (s_handles s) /\ s_qs s1 = s_qs s.
Proof.
  intros h x s l qid T Hx Hz. pose proof (znth_some _ _ _ _ Hz) as [Hr Hn].
  assert (NE : not_emb x -> let s1 := set_handle h (HCap x) (addref_cap x s) in
            TI s1 l /\ FA s s1 /\ FE s s1 /\ s_boot s1 = s_boot s /\ s_mgen s1 = s_mgen s /\ (forall j, X j s1 = X j s) /\
            (EC (s_emb s) -> EC (s_emb s1)) /\ (XM s -> XM s1) /\ s_handles s1 = replace_nth (Z.to_nat h) (HCap x) (s_handles s) /\ s_qs s1 = s_qs s).
  { intros Nx. destruct (rf_addref_ne x s Nx) as (A & B & (C1 & C2 & C3 & C4) & D). pose proof (aux_addref x s) as AQ.
    assert (Q : s_qs (addref_cap x s) = s_qs s) by (change (x_qs (aux_of (addref_cap x s)) = s_qs s); rewrite AQ; reflexivity).
    cbv zeta. unfold set_handle. set (sr := addref_cap x s) in *.
    split; [|split; [exact A|split; [exact B|split; [exact C3|split; [exact C4|split; [|split; [cbn [s_emb set_handles]; rewrite C2; auto|split; [unfold XM; cbn [s_emb s_mgen set_handles]; rewrite C2, C4; auto|split; [cbn [s_handles set_handles]; rewrite C1; reflexivity|exact Q]]]]]]]]].
    - intros e. cbn [s_emb s_handles set_handles]. rewrite C2, C1. rewrite (HE_replace e _ _ (HCap x) _ Hn). specialize (T e).
      replace (he e (HCap x)) with 0 by (destruct x; simpl in *; try reflexivity; contradiction). simpl he. destruct (tget e (s_emb s)); [lia|destruct T; split; lia].
    - intros j. unfold X, RC. cbn [s_boot s_exp s_ans s_handles s_emb s_lrefs set_handles].
      specialize (D j). unfold X, RC in D. rewrite C1. rewrite (HND_replace j _ _ (HCap x) _ Hn). simpl hw.
      unfold FA in A. destruct B as [B1 B2]. rewrite C1, C2, C3, A, B1 in D. rewrite C2, C3, A, B1. lia. }
  destruct x; try (apply NE; exact I).
  destruct Hx as [Hx|Hx]; [contradiction|].
  (* an embargo promise of this very Return: it is in the table, so its entry counts at least one holder *)
  assert (Cp : 1 <= ces e l).
  { clear - Hx. induction l as [|y l IH]; [destruct Hx|]. destruct Hx as [->|Hx]; simpl; [rewrite Z.eqb_refl; pose proof (ces_nonneg e l); lia|].
    specialize (IH Hx). pose proof (ce_nonneg e y). lia. }
  pose proof (T e) as Te. destruct (tget e (s_emb s)) as [em|] eqn:Eg; [|lia].
  pose proof (HE_nonneg e (s_handles s)).
  cbv zeta. unfold set_handle. simpl addref_cap. rewrite Eg. replace (0 <? e_refs em) with true by lia.
  set (sr := set_emb (replace_nth (Z.to_nat e) (Some (mkEmb (e_cap em) (e_refs em + 1))) (s_emb s)) s).
  split; [|split; [reflexivity|split; [split; reflexivity|split; [reflexivity|split; [reflexivity|split; [|split; [|split; [|split; reflexivity]]]]]]]].
  - intros e'. cbn [sr s_emb s_handles set_handles set_emb]. rewrite (tget_replace_same _ _ _ _ _ _ Eg).
    rewrite (HE_replace e' _ _ (HCap (CEmb e)) _ Hn). simpl he. specialize (T e'). destruct (e' =? e) eqn:Ee.
    + assert (e' = e) by lia. subst e'. rewrite Z.eqb_refl. cbn [e_refs]. lia.
    + replace (e =? e') with false by lia. destruct (tget e' (s_emb s)); [lia|destruct T; split; lia].
  - intros j. unfold X, RC. cbn [sr s_boot s_exp s_ans s_handles s_emb s_lrefs set_handles set_emb].
    rewrite (HND_replace j _ _ (HCap (CEmb e)) _ Hn), (EMB_same_cap j _ _ _ _ Eg) by reflexivity. simpl hw. lia.
  - intros HC. cbn [sr s_emb set_handles set_emb]. eapply EC_same_cap; eauto.
  - intros [G S]. unfold XM. cbn [sr s_emb s_mgen set_handles set_emb]. rewrite replace_nth_length. split; [exact G|].
    eapply slots_free_replace; [exact S|apply (proj2 (tget_some _ _ _ _ Eg))].
Qed.

Lemma TI_noemb : forall s l, TI s [] -> noemb l -> TI s l.
Proof. intros s l T N e. specialize (T e). simpl in T. rewrite (ces_noemb e l N). destruct (tget e (s_emb s)); [lia|destruct T; split; lia]. Qed.

Lemma RI_qgen : forall s g, RI s -> RI (set_qgen g s).
Proof. intros s g R. exact R. Qed.

Lemma ri_handle_return : forall qid rpc k s s0 o0 ab, handle_return cfg_fixed qid rpc k s = Ok (s0, o0, ab) -> RI s -> RI s0.
Proof.
  intros qid rpc k s s0 o0 ab H R. pose proof R as (Hx & Ti & Ai & Ec & Xm & Hb). unfold handle_return in H.
  destruct (tget qid (s_qs s)) as [q|] eqn:Eq; [|inversion H; subst; exact R].
  set (sa := set_qs (tclear qid (s_qs s)) s) in *.
  destruct Ai as (K & P & He & Hxs).
  (* 1: the export references of the parameters *)
  assert (A1 : exists s1 pc, (if fx19 cfg_fixed && rpc then let '(s1, cl, _) := release_exports (q_prefs q) sa in (s1, cl) else (sa, [])) = (s1, pc) /\
            FA sa s1 /\ FH sa s1 /\ EN (s_exp s1) /\ XS s1 /\ (forall j, X j s1 = X j sa + cls j pc) /\ noemb pc /\ s_qs s1 = s_qs sa).
  { destruct (fx19 cfg_fixed && rpc).
    - pose proof (rf_release_exports (q_prefs q) sa He Hxs) as F. pose proof (aux_release_exports (q_prefs q) sa) as AQ.
      destruct (release_exports (q_prefs q) sa) as [[s1 cl0] e]. simpl in AQ. destruct F as (F1 & F2 & F3 & F4 & F5 & F6).
      exists s1, cl0. split; [reflexivity|]. split; [exact F1|split; [exact F2|split; [exact F3|split; [exact F4|split; [exact F5|split; [exact F6|]]]]]].
      change (x_qs (aux_of s1) = x_qs (aux_of sa)). rewrite AQ. reflexivity.
    - exists sa, []. split; [reflexivity|]. split; [reflexivity|split; [apply FH_refl|split; [exact He|split; [exact Hxs|split; [intros j; simpl; lia|split; [constructor|reflexivity]]]]]]. }
  destruct A1 as (s1 & pc & E1 & A1 & B1 & C1 & D1 & X1 & N1 & Q1). rewrite E1 in H. clear E1.
  assert (Xa : forall j, X j sa = 0) by (intros j; rewrite <- (Hx j); apply X_eq; reflexivity).
  assert (T1 : TI s1 []) by (eapply TI_FH; [exact B1|exact Ti]).
  assert (Ec1 : EC (s_emb s1)) by (eapply EC_FH; [exact B1|exact Ec]).
  assert (Xm1 : XM s1) by (eapply XM_FH; [exact B1|exact Xm]).
  assert (Ans1 : s_ans s1 = s_ans s) by exact A1.
  assert (Hn1 : s_handles s1 = s_handles s) by (apply (proj1 B1)).
  (* closing: release the parameter clients, free the id; [hs] are the final handles *)
  assert (FINAL : forall sx o5 s5, release_caps cfg_fixed pc sx = Ok (s5, o5) ->
            TI sx [] -> s_ans sx = s_ans s -> EN (s_exp sx) -> XS sx -> EC (s_emb sx) -> XM sx ->
            (forall j, X j sx = cls j pc) -> s_qs sx = tclear qid (s_qs s) ->
            (forall qid' q' h', qid' <> qid -> tget qid' (s_qs s) = Some q' -> q_fin q' = false -> q_boot q' = Some h' -> znth h' (s_handles sx) = Some (HBoot qid')) ->
            RI s5).
  { intros sx o5 s5 E5 Tx Ax Ex Xsx Ecx Xmx Xx Qx Hbx.
    destruct (rf_release_caps_ne _ _ _ _ E5 N1) as (A5 & B5 & C5 & X5). pose proof (aux_release_caps _ _ _ _ _ E5) as AQ5.
    unfold FA in A5.
    split; [|split; [|split; [|split; [|split]]]].
    - intros j. rewrite X5, Xx. lia.
    - apply (TI_FH sx); [exact C5|exact Tx].
    - split; [rewrite A5, Ax; exact K|split; [rewrite A5, Ax; exact P|split; [eapply EN_FE; eauto|apply (XS_FE sx s5 B5 Xsx)]]].
    - eapply EC_FH; eauto.
    - apply (XM_FH sx s5 C5 Xmx).
    - intros qid' q' h' Hq Hf Hbq.
      assert (Q5 : s_qs s5 = s_qs sx) by (change (x_qs (aux_of s5) = x_qs (aux_of sx)); rewrite AQ5; reflexivity).
      rewrite Q5, Qx, tget_tclear in Hq. destruct (qid' =? qid) eqn:E; [discriminate|].
      rewrite (proj1 C5). eapply Hbx; eauto. lia. }
  assert (HBK : forall sx, s_handles sx = s_handles s ->
            forall qid' q' h', qid' <> qid -> tget qid' (s_qs s) = Some q' -> q_fin q' = false -> q_boot q' = Some h' -> znth h' (s_handles sx) = Some (HBoot qid')).
  { intros sx Hs qid' q' h' _ Hq Hf Hbq. rewrite Hs. eapply Hb; eauto. }
  destruct (q_fin q) eqn:Ef.
  { destruct (release_caps cfg_fixed pc _) as [[s2 o2]| |] eqn:E2; cbn [bind] in H; try discriminate. inversion H; subst.
    apply (FINAL _ _ _ E2 T1 Ans1 C1 D1 Ec1 Xm1); [|exact Q1|apply HBK; exact Hn1].
    intros j. rewrite (X_eq j s1) by reflexivity. rewrite X1, Xa. lia. }
  match type of H with (bind ?r _) = _ => destruct r as [[[[s2 parsed] tor] disemb]| |] eqn:EP; cbn [bind] in H; try discriminate end.
  (* 2: parseReturn; [tabT] is what the message table holds afterwards *)
  assert (P2 : exists tabT, TI s2 tabT /\ s_ans s2 = s_ans s /\ EN (s_exp s2) /\ XS s2 /\ EC (s_emb s2) /\ XM s2 /\ s_handles s2 = s_handles s /\
            (forall j, X j s2 - cls j tabT = cls j pc) /\ s_qs s2 = tclear qid (s_qs s) /\
            match parsed with Some (_, tab) => tab = tabT /\ tor = [] | None => tor = tabT /\ noemb tabT end).
  { assert (NOP : s2 = s1 -> parsed = None -> tor = [] -> exists tabT, TI s2 tabT /\ s_ans s2 = s_ans s /\ EN (s_exp s2) /\ XS s2 /\ EC (s_emb s2) /\ XM s2 /\ s_handles s2 = s_handles s /\
              (forall j, X j s2 - cls j tabT = cls j pc) /\ s_qs s2 = tclear qid (s_qs s) /\
              match parsed with Some (_, tab) => tab = tabT /\ tor = [] | None => tor = tabT /\ noemb tabT end).
    { intros -> -> ->. exists []. split; [exact T1|split; [exact Ans1|split; [exact C1|split; [exact D1|split; [exact Ec1|split; [exact Xm1|split; [exact Hn1|split; [|split; [exact Q1|split; [reflexivity|constructor]]]]]]]]]].
      intros j. rewrite X1, Xa. simpl. lia. }
    destruct k as [[p|]| |]; try (inversion EP; subst; apply NOP; reflexivity).
    pose proof (rf_recv_payload p s1 C1) as Cp. pose proof (aux_recv_payload cfg_fixed p s1) as AQp.
    destruct (recv_payload cfg_fixed p s1) as [sb kc tab loc|sb part].
    - destruct Cp as (Ap & Bp & Fp & Np & Xp).
      destruct (embargo_caps cfg_fixed qid kc (q_called q) loc [] tab sb) as [[[s3 tab3] o3]| |] eqn:E3; cbn [bind] in EP; try discriminate.
      inversion EP; subst. pose proof (aux_embargo_caps _ _ _ _ _ _ _ _ _ _ E3) as [AQ3 _].
      destruct (rf_embargo_caps _ _ _ _ _ _ _ _ _ _ E3 (XM_FH _ _ Fp Xm1) (EC_FH _ _ Fp Ec1) (TI_noemb _ _ (TI_FH _ _ _ Fp T1) Np)
                  ltac:(intros i lc Hz _; apply znth_some in Hz; eapply noemb_nth; [exact Np|apply (proj2 Hz)])) as (A3 & B3 & C3 & D3 & Xm3 & Ec3 & T3 & W3).
      exists tab3. unfold FA in *.
      split; [exact T3|split; [congruence|split; [eapply EN_FE; [exact B3|eapply EN_FE; eauto]|split; [eapply XS_FE; [exact B3|eapply XS_FE; eauto]|
        split; [exact Ec3|split; [exact Xm3|split; [rewrite C3, (proj1 Fp); exact Hn1|split; [|split; [|split; reflexivity]]]]]]]]].
      + intros j. rewrite W3, Xp, X1, Xa. lia.
      + change (x_qs (aux_of s2) = tclear qid (s_qs s)). rewrite AQ3, AQp. exact Q1.
    - destruct Cp as (Ap & Bp & Fp & Np & Xp). rewrite payload_err_fixed in EP. simpl in EP. inversion EP; subst.
      exists tor. unfold FA in *.
      split; [apply TI_noemb; [eapply TI_FH; eauto|exact Np]|split; [congruence|split; [eapply EN_FE; eauto|split; [eapply XS_FE; eauto|
        split; [eapply EC_FH; eauto|split; [eapply XM_FH; eauto|split; [rewrite (proj1 Fp); exact Hn1|split; [|split; [|split; [reflexivity|exact Np]]]]]]]]]].
      + intros j. rewrite Xp, X1, Xa. lia.
      + change (x_qs (aux_of s2) = tclear qid (s_qs s)). rewrite AQp. exact Q1. }
  destruct P2 as (tabT & T2 & Ans2 & En2 & Xs2 & Ec2 & Xm2 & Hn2 & X2 & Q2 & PM).
  match type of H with (bind ?r _) = _ => destruct r as [[s3 o3]| |] eqn:E3; cbn [bind] in H; try discriminate end.
  destruct (release_caps cfg_fixed pc s3) as [[s5 o5]| |] eqn:E5; cbn [bind] in H; try discriminate. inversion H; subst. clear H.
  apply (RI_qgen s5).
  (* 3: the resolution step: a state [sr] in which the table is still held, then the table is released *)
  assert (REL : forall sr o4, release_caps cfg_fixed tabT sr = Ok (s3, o4) ->
            TI sr tabT -> s_ans sr = s_ans s -> EN (s_exp sr) -> XS sr -> EC (s_emb sr) -> XM sr ->
            (forall j, X j sr - cls j tabT = cls j pc) -> s_qs sr = tclear qid (s_qs s) ->
            (forall qid' q' h', qid' <> qid -> tget qid' (s_qs s) = Some q' -> q_fin q' = false -> q_boot q' = Some h' -> znth h' (s_handles sr) = Some (HBoot qid')) ->
            RI s5).
  { intros sr o4 E4 Tr Ar Er Xsr Ecr Xmr Xr Qr Hbr. set (s4 := s3) in *.
    rewrite <- (app_nil_r tabT) in Tr. destruct (rf_release_caps _ _ _ _ _ E4 Tr) as (T4 & A4 & B4 & C4 & D4 & M4 & N4 & X4 & P4 & G4).
    pose proof (aux_release_caps _ _ _ _ _ E4) as AQ4. unfold FA in A4.
    apply (FINAL s4 o5 s5 E5); auto.
    - congruence.
    - eapply EN_FE; eauto.
    - eapply XS_FE; eauto.
    - intros j. rewrite X4. specialize (Xr j). lia.
    - change (x_qs (aux_of s4) = tclear qid (s_qs s)). rewrite AQ4. exact Qr.
    - intros qid' q' h' Hne Hq Hf Hbq. rewrite C4. eapply Hbr; eauto. }
  destruct (q_boot q) as [h|] eqn:Eb; destruct parsed as [[kc tab]|]; cbn [fx17 cfg_fixed negb andb] in E3;
    match type of E3 with (bind ?r _) = _ => destruct r as [[s4 o4]| |] eqn:E4; cbn [bind] in E3; try discriminate end;
    inversion E3; subst.
  - (* bootstrap question, results *)
    destruct PM as [-> _]. pose proof (Hb _ _ _ Eq Ef Eb) as Hz. rewrite <- Hn2 in Hz.
    match type of E4 with release_caps _ _ (set_handle h (HCap ?x) _) = _ => set (xr := x) in * end.
    assert (Hxr : not_emb xr \/ In xr tabT).
    { unfold xr. destruct (transform_eval kc []) as [|ix| |]; try (left; exact I). destruct (znth ix tabT) as [y|] eqn:Ey; [|left; exact I].
      right. apply znth_some in Ey. eapply nth_error_In. apply (proj2 Ey). }
    destruct (rf_resolve h xr s2 tabT qid T2 Hxr Hz) as (Tr & Ar & Br & Cr & Dr & Xr & Ecr & Xmr & Hr & Qr).
    apply (REL _ _ E4 Tr); [transitivity (s_ans s2); [exact Ar|exact Ans2]|eapply EN_FE; [exact Br|exact En2]|eapply XS_FE; [exact Br|exact Xs2]|
      exact (Ecr Ec2)|exact (Xmr Xm2)|intros j; rewrite Xr; apply X2|transitivity (s_qs s2); [exact Qr|exact Q2]|].
    + intros qid' q' h' Hne Hq Hf Hbq. rewrite Hr, Hn2. pose proof (Hb _ _ _ Hq Hf Hbq) as Hz'. pose proof (Hb _ _ _ Eq Ef Eb) as Hz0.
      assert (h' <> h) by (intros ->; rewrite Hz0 in Hz'; inversion Hz'; lia).
      apply znth_some in Hz0. rewrite znth_replace by lia. replace (h' =? h) with false by lia. exact Hz'.
  - (* bootstrap question, no results: the handle becomes an error *)
    destruct PM as [-> Nt]. pose proof (Hb _ _ _ Eq Ef Eb) as Hz. rewrite <- Hn2 in Hz.
    destruct (rf_resolve h CErr s2 tabT qid T2 (or_introl I) Hz) as (Tr & Ar & Br & Cr & Dr & Xr & Ecr & Xmr & Hr & Qr).
    apply (REL _ _ E4 Tr); [transitivity (s_ans s2); [exact Ar|exact Ans2]|eapply EN_FE; [exact Br|exact En2]|eapply XS_FE; [exact Br|exact Xs2]|
      exact (Ecr Ec2)|exact (Xmr Xm2)|intros j; rewrite Xr; apply X2|transitivity (s_qs s2); [exact Qr|exact Q2]|].
    + intros qid' q' h' Hne Hq Hf Hbq. cbn [addref_cap] in Hr. rewrite Hr, Hn2. pose proof (Hb _ _ _ Hq Hf Hbq) as Hz'. pose proof (Hb _ _ _ Eq Ef Eb) as Hz0.
      assert (h' <> h) by (intros ->; rewrite Hz0 in Hz'; inversion Hz'; lia).
      apply znth_some in Hz0. rewrite znth_replace by lia. replace (h' =? h) with false by lia. exact Hz'.
  - destruct PM as [-> _]. apply (REL s2 _ E4 T2 Ans2 En2 Xs2 Ec2 Xm2 X2 Q2). apply HBK. exact Hn2.
  - destruct PM as [-> Nt]. apply (REL s2 _ E4 T2 Ans2 En2 Xs2 Ec2 Xm2 X2 Q2). apply HBK. exact Hn2.
Qed.

(* ---------------------------------------------------------------- application actions *)
Lemma HB_new : forall q s s1 id, new_question q s = Ok (s1, id) -> live s -> q_boot q = None -> HB s -> HB s1.
Proof.
  intros q s s1 id H L Qb Hb. destruct (new_question_q _ _ _ _ H L) as (Hn & TG & Hh & _).
  intros qid q0 h Hq Hf Hbq. rewrite TG in Hq. rewrite Hh. destruct (qid =? id); [inversion Hq; subst; congruence|eapply Hb; eauto].
Qed.

Lemma HB_replace : forall s id q q', tget id (s_qs s) = Some q ->
  (q_fin q' = false -> forall h, q_boot q' = Some h -> q_boot q = Some h /\ q_fin q = false) -> HB s ->
  HB (set_qs (replace_nth (Z.to_nat id) (Some q') (s_qs s)) s).
Proof.
  intros s id q q' Hg Hc Hb qid q0 h Hq Hf Hbq. cbn [s_qs s_handles set_qs] in *.
  rewrite (tget_replace_same _ _ _ _ _ _ Hg) in Hq. destruct (qid =? id) eqn:E; [|eapply Hb; eauto].
  inversion Hq; subst q0. assert (qid = id) by lia. subst qid. destruct (Hc Hf h Hbq) as [C1 C2]. eapply Hb; eauto.
Qed.

Lemma acap_noemb : forall s s2 caps, forallb (acap_ok s) caps = true -> s_handles s2 = s_handles s -> noemb (map (acap_cap s2) caps).
Proof.
  intros s s2 caps H Hh. unfold noemb. apply Forall_forall. intros x Hx. apply in_map_iff in Hx. destruct Hx as (a & <- & Ha).
  rewrite forallb_forall in H. specialize (H a Ha). destruct a; simpl; try exact I.
  unfold acap_ok in H. unfold hget in *. rewrite Hh. destruct (znth h (s_handles s)) as [[q|c|]|]; try exact I. destruct c; try exact I. discriminate.
Qed.

(* RI over states that differ in fields RI does not read, with the question table and handles given *)
Lemma RI_frame : forall s s1, RI s -> s_boot s1 = s_boot s -> s_exp s1 = s_exp s -> s_egen s1 = s_egen s -> s_ans s1 = s_ans s ->
  s_emb s1 = s_emb s -> s_mgen s1 = s_mgen s -> s_lrefs s1 = s_lrefs s -> s_handles s1 = s_handles s -> HB s1 -> RI s1.
Proof.
  intros s s1 (Hx & Ti & (K & P & He & Hxs) & Ec & Xm & Hb) B E G A M MG L Hh Hb1.
  split; [intros j; rewrite (X_eq j s s1) by assumption; apply Hx|split; [intros e; rewrite M, Hh; apply Ti|split; [|split; [rewrite M; exact Ec|split; [unfold XM; rewrite M, MG; exact Xm|exact Hb1]]]]].
  split; [rewrite A; exact K|split; [rewrite A; exact P|split; [rewrite E; exact He|unfold XS; rewrite E, G; exact Hxs]]].
Qed.

Lemma ri_send_call : forall s s1 n caps (mk : Z -> list desc -> output) s0 o0 ab, live s1 -> RI s1 -> s_handles s1 = s_handles s ->
  forallb (acap_ok s) caps = true ->
  (do '(s2, id) <- new_question (mkQ None n false [] [] None) s1;
   do '(s3, ds, refs) <- fill_caps cfg_fixed (map (acap_cap s2) caps) s2;
   let s4 := if fx19 cfg_fixed then set_qs (replace_nth (Z.to_nat id) (Some (mkQ None n false [] refs None)) (s_qs s3)) s3 else s3 in
   Ok (s4, [mk id ds], false)) = Ok (s0, o0, ab) -> RI s0.
Proof.
  intros s s1 n caps mk s0 o0 ab L1 R Hh Hc H.
  destruct (new_question _ s1) as [[s2 id]| |] eqn:E; cbn [bind] in H; try discriminate.
  pose proof (HB_new _ _ _ _ E L1 eq_refl (proj2 (proj2 (proj2 (proj2 (proj2 R)))))) as Hb2.
  destruct (new_question_q _ _ _ _ E L1) as (Hn & TG & Hh1 & _).
  assert (R2 : RI s2).
  { unfold new_question in E. destruct (gen_next (s_qgen s1)) as [[i g]| |]; cbn [bind] in E; try discriminate.
    destruct (tput i _ (s_qs s1)) as [t| |]; cbn [bind] in E; try discriminate. inversion E; subst.
    eapply RI_frame; [exact R|reflexivity..|exact Hb2]. }
  destruct (fill_caps cfg_fixed _ s2) as [[[s3 ds] refs]| |] eqn:E3; cbn [bind] in H; try discriminate.
  pose proof (aux_fill_caps _ _ _ _ _ _ E3) as AQ. cbn [fx19 cfg_fixed] in H. inversion H; subst.
  pose proof R2 as (Hx2 & Ti2 & (K2 & P2 & He2 & Hxs2) & Ec2 & Xm2 & _).
  destruct (rf_fill_caps _ _ _ _ _ E3 (acap_noemb s s2 caps Hc ltac:(congruence)) He2 Hxs2) as (A3 & B3 & C3 & D3 & X3).
  assert (Q3 : s_qs s3 = s_qs s2) by (change (x_qs (aux_of s3) = x_qs (aux_of s2)); rewrite AQ; reflexivity).
  assert (R3 : RI s3).
  { eapply RI_keep; [exact R2|exact B3|exact Q3| |exact X3]. unfold FA in A3. split; [rewrite A3; exact K2|split; [rewrite A3; exact P2|split; [exact C3|exact D3]]]. }
  assert (T3 : tget id (s_qs s3) = Some (mkQ None n false [] [] None)) by (rewrite Q3, TG, Z.eqb_refl; reflexivity).
  eapply RI_frame; [exact R3|reflexivity..|]. eapply HB_replace; [exact T3| |apply (proj2 (proj2 (proj2 (proj2 (proj2 R3)))))].
  intros _ h0 Hh0. discriminate.
Qed.

Lemma RI_ncall : forall s v, RI s -> RI (set_ncall v s).
Proof. intros s v R. exact R. Qed.

Lemma ri_app_pipe : forall q0 x caps s s0 o0 ab, app_pipe cfg_fixed q0 x caps s = Ok (s0, o0, ab) ->
  (s_shut s = false -> live s) -> forallb (acap_ok s) caps = true -> RI s -> RI s0.
Proof.
  intros q0 x caps s s0 o0 ab H Lv Hc R. unfold app_pipe, next_call in H.
  set (sa := set_ncall (s_ncall s + 1) s) in *.
  assert (SIMPLE : forall c, Ok (sa, [LAppRes (s_ncall s) c], false) = Ok (s0, o0, ab) -> RI s0).
  { intros c E. inversion E; subst. exact R. }
  destruct (s_shut sa) eqn:Es; [apply (SIMPLE _ H)|]. pose proof (Lv Es) as L.
  destruct (tget q0 (s_qs sa)) as [q|] eqn:Eq; [|apply (SIMPLE _ H)].
  destruct (q_fin q) eqn:Ef; [apply (SIMPLE _ H)|].
  pose proof (tget_some _ _ _ _ Eq) as [Hr Hn].
  set (s1 := set_qs (replace_nth (Z.to_nat q0) (Some (mark_called x q)) (s_qs sa)) sa) in *.
  assert (La : live sa) by (eapply live_core; [exact L|reflexivity]).
  assert (L1 : live s1) by (apply live_set_qs; [exact La|apply replace_nth_length|eapply slots_free_replace; [apply qs_slots; exact La|exact Hn]]).
  destruct (mark_called_same x q) as (S1 & S2 & S3 & S4).
  assert (R1 : RI s1).
  { eapply RI_frame; [exact R|reflexivity..|]. apply (HB_replace sa q0 q (mark_called x q) Eq); [intros _ h0 Hh0; split; [congruence|exact Ef]|apply R]. }
  eapply (ri_send_call s s1); [exact L1|exact R1|reflexivity|exact Hc|exact H].
Qed.

Lemma ri_app_call : forall h caps tag s s0 o0 ab, app_call cfg_fixed h caps tag s = Ok (s0, o0, ab) ->
  (s_shut s = false -> live s) -> forallb (acap_ok s) caps = true -> RI s -> RI s0.
Proof.
  intros h caps tag s s0 o0 ab H Lv Hc R. unfold app_call in H.
  destruct (hget h s) as [q0|x|]; [eapply ri_app_pipe; eauto| |unfold next_call in H; inversion H; subst; exact R].
  unfold next_call in H. set (sa := set_ncall (s_ncall s + 1) s) in *.
  destruct x; try (inversion H; subst; exact R; fail).
  destruct (s_shut sa) eqn:Es; [inversion H; subst; exact R|]. pose proof (Lv Es) as L.
  destruct (negb (imp_current i g sa)); [inversion H; subst; exact R|].
  assert (La : live sa) by (eapply live_core; [exact L|reflexivity]).
  eapply (ri_send_call s sa); [exact La|exact R|reflexivity|exact Hc|exact H].
Qed.

Lemma ri_app_hold : forall h s s0 o0 ab, app_hold cfg_fixed h s = Ok (s0, o0, ab) -> (s_shut s = false -> live s) -> RI s -> RI s0.
Proof.
  intros h s s0 o0 ab H Lv R. unfold app_hold, next_call in H.
  set (sa := set_ncall (s_ncall s + 1) s) in *.
  destruct (hget h sa) as [q0|x|]; try (inversion H; subst; exact R; fail).
  destruct x; try (inversion H; subst; exact R; fail).
  destruct (s_shut sa) eqn:Es; [inversion H; subst; exact R|]. cbn [orb] in H. pose proof (Lv Es) as L.
  destruct (negb (imp_current i g sa)); [inversion H; subst; exact R|].
  assert (La : live sa) by (eapply live_core; [exact L|reflexivity]).
  destruct (new_question _ sa) as [[s2 id]| |] eqn:E; cbn [bind] in H; try discriminate. inversion H; subst.
  pose proof (HB_new _ _ _ _ E La eq_refl (proj2 (proj2 (proj2 (proj2 (proj2 R)))))) as Hb2.
  unfold new_question in E. destruct (gen_next (s_qgen sa)) as [[i0 g0]| |]; cbn [bind] in E; try discriminate.
  destruct (tput i0 _ (s_qs sa)) as [t| |]; cbn [bind] in E; try discriminate. inversion E; subst.
  eapply RI_frame; [exact R|reflexivity..|exact Hb2].
Qed.

Lemma ri_app_unhold : forall n s s0 o0 ab, app_unhold cfg_fixed n s = Ok (s0, o0, ab) -> RI s -> RI s0.
Proof.
  intros n s s0 o0 ab H R. unfold app_unhold in H.
  destruct (find_held n (s_qs s) 0) as [[qid q]|] eqn:Ef; [|inversion H; subst; exact R].
  destruct (find_held_tget _ _ _ _ Ef) as [Eq Hheld].
  destruct (q_held q) as [[[i g] cs]|] eqn:Eh; [|inversion H; subst; exact R].
  destruct (s_shut s); [inversion H; subst; exact R|].
  set (q' := mkQ None (q_call q) (q_fin q) [] [] None) in *.
  set (s1 := set_qs (replace_nth (Z.to_nat qid) (Some q') (s_qs s)) s) in *.
  assert (R1 : RI s1).
  { eapply RI_frame; [exact R|reflexivity..|]. apply (HB_replace s qid q q' Eq); [|apply R].
    intros _ h0 Hh0. discriminate. }
  match type of H with context [if ?c then _ else _] => destruct c end.
  - match type of H with context [imp_shutdown cfg_fixed i g ?sx] => destruct (imp_shutdown cfg_fixed i g sx) as [[s3 o3]| |] eqn:E3; cbn [bind] in H; try discriminate end.
    inversion H; subst. destruct (rf_imp_shutdown _ _ _ _ _ E3) as (A & B & C & D). pose proof (aux_imp_shutdown _ _ _ _ _ _ E3) as AQ.
    eapply RI_frame; [exact R1|apply (proj1 (proj2 (proj2 C)))|apply (proj1 B)|apply (proj2 B)|exact A|apply (proj1 (proj2 C))|apply (proj2 (proj2 (proj2 C)))|exact D|apply (proj1 C)|].
    eapply HB_same; [|apply (proj1 C)|apply R1]. change (x_qs (aux_of s0) = x_qs (aux_of (set_dead (dead_del i g (s_dead (set_busy (busy_add i g (-1) (s_busy s1)) s1))) (set_busy (busy_add i g (-1) (s_busy s1)) s1)))). rewrite AQ. reflexivity.
  - inversion H; subst. eapply RI_frame; [exact R1|reflexivity..|apply R1].
Qed.

Lemma ri_app_cancel : forall qid s s0 o0 ab, app_cancel cfg_fixed qid s = Ok (s0, o0, ab) -> RI s -> RI s0.
Proof.
  intros qid s s0 o0 ab H R. unfold app_cancel in H.
  destruct (s_shut s); [inversion H; subst; exact R|].
  destruct (tget qid (s_qs s)) as [q|] eqn:Eq; [|inversion H; subst; exact R].
  destruct (q_fin q || (q_call q <? 0) || _); [inversion H; subst; exact R|].
  unfold cancel_question in H. cbn [bind] in H. inversion H; subst.
  eapply RI_frame; [exact R|reflexivity..|]. eapply HB_replace; [exact Eq| |apply R]. cbn [q_fin]. discriminate.
Qed.

Lemma ri_app_bootstrap : forall s s0 o0 ab, app_bootstrap cfg_fixed s = Ok (s0, o0, ab) -> (s_shut s = false -> live s) -> RI s -> RI s0.
Proof.
  intros s s0 o0 ab H Lv R. pose proof R as (Hx & Ti & Ai & Ec & Xm & Hb). unfold app_bootstrap in H.
  assert (APP : forall sx v, s_boot sx = s_boot s -> s_exp sx = s_exp s -> s_egen sx = s_egen s -> s_ans sx = s_ans s -> s_emb sx = s_emb s ->
            s_mgen sx = s_mgen s -> s_lrefs sx = s_lrefs s -> s_handles sx = s_handles s -> hw 0 v = 0 -> (forall j, hw j v = 0) -> (forall e, he e v = 0) ->
            HB (set_handles (s_handles sx ++ [v]) sx) -> RI (set_handles (s_handles sx ++ [v]) sx)).
  { intros sx v B E G A M MG L Hh _ Hw Hv Hb1. destruct Ai as (K & P & He & Hxs).
    split; [|split; [|split; [|split; [|split]]]].
    - intros j. unfold X, RC. cbn [s_boot s_exp s_ans s_handles s_emb s_lrefs set_handles]. rewrite B, E, A, M, L, Hh, HND_app, Hw.
      specialize (Hx j). unfold X, RC in Hx. lia.
    - intros e. cbn [s_emb s_handles set_handles]. rewrite M, Hh, HE_app, Hv. specialize (Ti e). destruct (tget e (s_emb s)); [lia|destruct Ti; split; lia].
    - split; [cbn [s_ans set_handles]; rewrite A; exact K|split; [cbn [s_ans set_handles]; rewrite A; exact P|
        split; [cbn [s_exp set_handles]; rewrite E; exact He|unfold XS; cbn [s_exp s_egen set_handles]; rewrite E, G; exact Hxs]]].
    - cbn [s_emb set_handles]. rewrite M. exact Ec.
    - unfold XM. cbn [s_emb s_mgen set_handles]. rewrite M, MG. exact Xm.
    - exact Hb1. }
  destruct (s_shut s) eqn:Es.
  - inversion H; subst. apply (APP s (HCap CErr)); try reflexivity.
    intros qid q h Hq Hf Hbq. cbn [s_qs s_handles set_handles] in *. apply znth_app_old. eapply Hb; eauto.
  - pose proof (Lv eq_refl) as L.
    destruct (new_question _ s) as [[s1 id]| |] eqn:E; cbn [bind] in H; try discriminate. inversion H; subst.
    destruct (new_question_q _ _ _ _ E L) as (Hn & TG & Hh1 & _).
    assert (F : s_boot s1 = s_boot s /\ s_exp s1 = s_exp s /\ s_egen s1 = s_egen s /\ s_ans s1 = s_ans s /\ s_emb s1 = s_emb s /\ s_mgen s1 = s_mgen s /\ s_lrefs s1 = s_lrefs s).
    { unfold new_question in E. destruct (gen_next (s_qgen s)) as [[i g]| |]; cbn [bind] in E; try discriminate.
      destruct (tput i _ (s_qs s)) as [t| |]; cbn [bind] in E; try discriminate. inversion E; subst. repeat split. }
    destruct F as (F1 & F2 & F3 & F4 & F5 & F6 & F7).
    apply (APP s1 (HBoot id)); auto.
    intros qid q h Hq Hf Hbq. cbn [s_qs s_handles set_handles] in *. rewrite TG in Hq. rewrite Hh1. destruct (qid =? id) eqn:Ei.
    + inversion Hq; subst q. cbn [q_boot] in Hbq. inversion Hbq; subst h. assert (qid = id) by lia. subst qid.
      unfold znth. rewrite app_length. simpl. replace ((Z.of_nat (length (s_handles s)) <? 0) || (Z.of_nat (length (s_handles s) + 1) <=? Z.of_nat (length (s_handles s)))) with false by lia.
      rewrite Nat2Z.id, nth_error_app2 by lia. rewrite Nat.sub_diag. reflexivity.
    + apply znth_app_old. eapply Hb; eauto.
Qed.

Lemma ri_app_release : forall h s s0 o0 ab, app_release cfg_fixed h s = Ok (s0, o0, ab) ->
  (s_shut s = true -> s_qs s = []) -> RI s -> RI s0.
Proof.
  intros h s s0 o0 ab H Sq R. pose proof R as (Hx & Ti & Ai & Ec & Xm & Hb). unfold app_release in H.
  destruct (hget h s) as [qid|x|] eqn:Eh; [| |inversion H; subst; exact R].
  - pose proof (hget_znth _ _ _ Eh ltac:(discriminate)) as Hz. pose proof (znth_some _ _ _ _ Hz) as [Hr Hn].
    set (sa := set_handle h HGone s) in *.
    (* the handle of an unresolved bootstrap weighs nothing *)
    assert (Ra : forall t, HB (set_qs t sa) -> RI (set_qs t sa)).
    { intros t Hb1. destruct Ai as (K & P & He & Hxs). split; [|split; [|split; [|split; [|split]]]].
      - intros j. unfold X, RC. cbn [sa s_boot s_exp s_ans s_handles s_emb s_lrefs set_qs set_handle set_handles].
        rewrite (HND_replace j _ _ HGone _ Hn). simpl hw. specialize (Hx j). unfold X, RC in Hx. lia.
      - intros e. cbn [sa s_emb s_handles set_qs set_handle set_handles]. rewrite (HE_replace e _ _ HGone _ Hn). simpl he.
        specialize (Ti e). destruct (tget e (s_emb s)); [lia|destruct Ti; split; lia].
      - split; [exact K|split; [exact P|split; [exact He|exact Hxs]]].
      - exact Ec.
      - exact Xm.
      - exact Hb1. }
    assert (HBa : forall qid' q' h', qid' <> qid \/ q_fin q' = true -> tget qid' (s_qs s) = Some q' -> q_fin q' = false -> q_boot q' = Some h' ->
              znth h' (s_handles sa) = Some (HBoot qid')).
    { intros qid' q' h' Hne Hq Hf Hbq. pose proof (Hb _ _ _ Hq Hf Hbq) as Hz'.
      assert (h' <> h) by (intros ->; rewrite Hz in Hz'; inversion Hz'; destruct Hne; congruence).
      unfold sa, set_handle. cbn [s_handles set_handles]. rewrite znth_replace by lia. replace (h' =? h) with false by lia. exact Hz'. }
    destruct (s_shut sa) eqn:Es.
    + inversion H; subst. apply (Ra (s_qs s)). intros qid' q' h' Hq. cbn [s_qs set_qs] in Hq. rewrite (Sq Es) in Hq.
      unfold tget, znth in Hq. simpl in Hq. destruct ((qid' <? 0) || (0 <=? qid')); [discriminate|destruct (Z.to_nat qid'); discriminate].
    + destruct (tget qid (s_qs sa)) as [q|] eqn:Eq.
      * destruct (q_fin q) eqn:Ef.
        -- inversion H; subst. apply (Ra (s_qs s)). intros qid' q' h' Hq Hf Hbq. cbn [s_qs set_qs] in Hq.
           apply (HBa qid' q' h'); auto. destruct (Z.eq_dec qid' qid); [subst; change (s_qs sa) with (s_qs s) in Eq; rewrite Eq in Hq; inversion Hq; subst; right; exact Ef|left; exact n].
        -- unfold cancel_question in H. cbn [bind] in H. inversion H; subst.
           match goal with |- RI (set_qs ?t sa) => apply (Ra t) end.
           intros qid' q' h' Hq Hf Hbq. cbn [s_qs s_handles set_qs] in Hq |- *. change (s_qs sa) with (s_qs s) in Hq, Eq.
           rewrite (tget_replace_same _ _ _ _ _ _ Eq) in Hq. destruct (qid' =? qid) eqn:E; [inversion Hq; subst q'; cbn [q_fin] in Hf; discriminate|].
           apply (HBa qid' q' h'); auto. left. lia.
      * inversion H; subst. apply (Ra (s_qs s)). intros qid' q' h' Hq Hf Hbq. cbn [s_qs set_qs] in Hq.
        apply (HBa qid' q' h'); auto. left. intros ->. change (s_qs sa) with (s_qs s) in Eq. congruence.
  - destruct (release_cap cfg_fixed x _) as [[s1 o]| |] eqn:E; cbn [bind] in H; try discriminate. inversion H; subst.
    pose proof (hget_znth _ _ _ Eh ltac:(discriminate)) as Hz. pose proof (znth_some _ _ _ _ Hz) as [Hr Hn].
    set (sa := set_handle h HGone s) in *.
    assert (Ta : TI sa [x]).
    { intros e. cbn [sa s_emb s_handles set_handle set_handles]. rewrite (HE_replace e _ _ HGone _ Hn). simpl. specialize (Ti e). simpl in Ti.
      destruct (tget e (s_emb s)); [lia|]. destruct Ti as [T1 T2]. pose proof (ce_nonneg e x). pose proof (HE_nonneg e (s_handles s)).
      assert (HE e (s_handles s) >= ce e x).
      { clear - Hn. revert Hn. generalize (Z.to_nat h) as n. induction (s_handles s) as [|a l IH]; intros n Hn; destruct n; simpl in Hn; try discriminate.
        - inversion Hn; subst. simpl. pose proof (HE_nonneg e l). lia.
        - specialize (IH _ Hn). simpl. assert (0 <= he e a) by (destruct a; simpl; try lia; apply ce_nonneg). lia. }
      split; lia. }
    assert (Xa : forall j, X j sa = cl j x).
    { intros j. unfold X, RC. cbn [sa s_boot s_exp s_ans s_handles s_emb s_lrefs set_handle set_handles].
      rewrite (HND_replace j _ _ HGone _ Hn). simpl hw. specialize (Hx j). unfold X, RC in Hx. lia. }
    destruct (rf_release_cap _ _ _ _ [] E Ta) as (T1 & A1 & B1 & C1 & D1 & M1 & N1 & X1 & P1 & G1). pose proof (aux_release_cap _ _ _ _ _ E) as AQ.
    destruct Ai as (K & P & He & Hxs). unfold FA in A1.
    split; [intros j; rewrite X1, Xa; lia|split; [exact T1|split; [|split; [apply N1; exact Ec|split; [apply P1; exact Xm|]]]]].
    + split; [rewrite A1; exact K|split; [rewrite A1; exact P|split; [eapply EN_FE; [exact B1|exact He]|eapply XS_FE; [exact B1|exact Hxs]]]].
    + intros qid' q' h' Hq Hf Hbq. assert (Q : s_qs s0 = s_qs s) by (change (x_qs (aux_of s0) = s_qs s); rewrite AQ; reflexivity).
      rewrite Q in Hq. rewrite C1. pose proof (Hb _ _ _ Hq Hf Hbq) as Hz'.
      assert (h' <> h) by (intros ->; rewrite Hz in Hz'; discriminate).
      unfold sa, set_handle. cbn [s_handles set_handles]. rewrite znth_replace by lia. replace (h' =? h) with false by lia. exact Hz'.
Qed.

Lemma X_addrefs_local : forall rct s, (forall j, X j (addrefs_local rct s) = X j s + cls j (rct_caps rct)) /\
  FA s (addrefs_local rct s) /\ FE s (addrefs_local rct s) /\ FH s (addrefs_local rct s) /\ s_queue (addrefs_local rct s) = s_queue s.
Proof.
  induction rct as [|[k|] rct IH]; intros s; simpl.
  - split; [intros j; lia|split; [reflexivity|split; [apply FE_refl|split; [apply FH_refl|reflexivity]]]].
  - destruct (IH (lref 1 k s)) as (A & B & C & D & E). split; [|split; [exact B|split; [exact C|split; [exact D|exact E]]]].
    intros j. rewrite A, X_lref0. rewrite (Z.eqb_sym k j). destruct (j =? k); lia.
  - destruct (IH s) as (A & B & C & D & E). split; [|split; [exact B|split; [exact C|split; [exact D|exact E]]]]. intros j. rewrite A. lia.
Qed.

Lemma ri_app_return : forall k r s s0 o0 ab, app_return cfg_fixed k r s = Ok (s0, o0, ab) -> (s_shut s = false -> live s) ->
  (s_shut s = true -> s_ans s = []) -> RI s -> RI s0.
Proof.
  intros k r s s0 o0 ab H Lv Sa R. pose proof R as (Hx & Ti & Ai & Ec & Xm & Hb). unfold app_return in H.
  destruct (find_running k (s_ans s)) as [[id a]|] eqn:Ef.
  2:{ destruct (aget k (s_lcalls s)); inversion H; subst; [eapply RI_frame; [exact R|reflexivity..|apply R]|exact R]. }
  destruct (s_shut s) eqn:Es; [rewrite (Sa eq_refl) in Ef; discriminate|]. pose proof (Lv eq_refl) as L.
  destruct Ai as (K & P & He & Hxs).
  pose proof (find_running_aget _ _ _ _ K Ef) as Ea. destruct (find_running_some _ _ _ _ Ef) as [[jr Hst] Hin].
  pose proof (PA_aget _ _ _ P Ea) as (Na & Ra & Rc).
  assert (Hret : a_ret a = false).
  { destruct L as [_ (_ & _ & _ & Ao & _)]. simpl in Ao. destruct (Ao _ _ Hin) as [_ A2]. apply A2. rewrite Hst. discriminate. }
  destruct (release_caps cfg_fixed (a_args a) s) as [[s1 o1]| |] eqn:E1; cbn [bind] in H; try discriminate.
  destruct (rf_release_caps_ne _ _ _ _ E1 Na) as (A1 & B1 & C1 & X1). pose proof (aux_release_caps _ _ _ _ _ E1) as AQ1. unfold FA in A1.
  set (a1 := set_a_args [] a) in *.
  set (s1' := set_ans (aput id a1 (s_ans s1)) s1) in *.
  assert (K1 : keys_ok (s_ans s1')) by (cbn [s1' s_ans set_ans]; rewrite A1; apply keys_aput; exact K).
  assert (Pa1 : pa1 a1) by (split; [constructor|split; [reflexivity|exact Rc]]).
  assert (Ai1 : AI s1').
  { split; [exact K1|split; [cbn [s1' s_ans set_ans]; rewrite A1; apply PA_aput; [exact P|exact Pa1]|split; [eapply EN_FE; [exact B1|exact He]|eapply XS_FE; [exact B1|exact Hxs]]]]. }
  assert (X1' : forall j, X j s1' = 0).
  { intros j. unfold s1'. rewrite X_set_ans, A1, (ANS_aput j id _ _ K), Ea, X1, Hx. cbn [awo]. unfold aw. cbn [a1 a_args a_rct set_a_args]. simpl cls. lia. }
  assert (Ea1 : aget id (s_ans s1') = Some a1) by (cbn [s1' s_ans set_ans]; rewrite aget_aput, Z.eqb_refl; reflexivity).
  assert (F1 : FH s s1') by (eapply FH_trans; [exact C1|repeat split]).
  assert (Q1 : s_qs s1' = s_qs s) by (change (x_qs (aux_of s1) = s_qs s); rewrite AQ1; reflexivity).
  assert (W0 : forall j, aw j a1 = 0) by (intros j; unfold aw; cbn [a1 a_args a_rct set_a_args]; rewrite (Rc Hret); reflexivity).
  (* the running answer itself is not among the queued ones *)
  assert (NIN : forall sm, s_ans sm = s_ans s1' -> ~ In id (queued_under (s_ans sm) (s_queue sm) [id])).
  { intros sm Hsm Hi. apply queued_under_queued in Hi. destruct Hi as (a' & p & y & Hg & Hq). rewrite Hsm, Ea1 in Hg. inversion Hg; subst a'.
    cbn [a1 a_st set_a_args] in Hq. rewrite Hst in Hq. discriminate. }
  assert (FIN : forall sm sx sy (rc : list (option Z)), FH s1' sm -> AI sm -> s_ans sm = s_ans s1' -> s_qs sm = s_qs s1' ->
            (forall j, X j sm = cls j (rct_caps rc)) ->
            (FH sm sx /\ AI sx /\ OTL (queued_under (s_ans sm) (s_queue sm) [id]) sm sx /\ forall j, X j sx = X j sm) -> s_qs sx = s_qs sm ->
            (FH sx sy /\ AI sy /\ OT id sx sy /\ forall j, X j sy = X j sx + awo j (aget id (s_ans sx)) - cls j (rct_caps rc)) -> s_qs sy = s_qs sx ->
            RI sy).
  { intros sm sx sy rc Fm Am Ansm Qm Xm' (F2 & A2 & O2 & D2) Q2 (F3 & A3 & O3 & D3) Q3.
    eapply RI_keep; [exact R|eapply FH_trans; [exact F1|eapply FH_trans; [exact Fm|eapply FH_trans; eauto]]|congruence|exact A3|].
    intros j. rewrite D3, D2, Xm', (O2 id (NIN sm Ansm)), Ansm, Ea1, Hx. cbn [awo]. rewrite W0. lia. }
  destruct r as [fs| |].
  - destruct (results_of fs) as [kc rct].
    destruct (X_addrefs_local rct s1') as (XA & FAa & FEa & FHa & Qa).
    match type of H with (bind ?x _) = _ => destruct x as [[[s3 o3] b3]| |] eqn:E3; cbn [bind] in H; try discriminate end.
    match type of H with (bind ?x _) = _ => destruct x as [[[s4 o4] b4]| |] eqn:E4; cbn [bind] in H; try discriminate end.
    inversion H; subst.
    set (sm := addrefs_local rct s1') in *.
    assert (Am : AI sm) by (eapply AI_FA_FE; eauto).
    pose proof (rf_drain _ _ _ _ _ _ _ _ _ E3 Am) as D3.
    destruct D3 as (F3 & A3 & O3 & X3).
    pose proof (rf_send_return _ _ _ _ _ _ _ _ E4 A3 eq_refl) as D4.
    pose proof (drain_qinert _ _ _ _ _ _ _ _ _ _ E3) as [(Qd & _) _]. pose proof (aux_send_return _ _ _ _ _ _ _ _ _ E4) as AQ4.
    assert (Q4 : s_qs s0 = s_qs s3) by (change (x_qs (aux_of s0) = x_qs (aux_of s3)); rewrite AQ4; reflexivity).
    assert (Qm : s_qs sm = s_qs s1') by (unfold sm; clear; generalize s1'; induction rct as [|[j|] rct IH]; intros sz; simpl; auto; rewrite IH; reflexivity).
    assert (Xm0 : forall j, X j sm = cls j (rct_caps rct)) by (intros j; unfold sm; rewrite XA, X1'; lia).
    exact (FIN sm s3 s0 rct FHa Am FAa Qm Xm0 (conj F3 (conj A3 (conj O3 X3))) Qd D4 Q4).
  - match type of H with (bind ?x _) = _ => destruct x as [[[s3 o3] b3]| |] eqn:E3; cbn [bind] in H; try discriminate end.
    match type of H with (bind ?x _) = _ => destruct x as [[[s4 o4] b4]| |] eqn:E4; cbn [bind] in H; try discriminate end.
    inversion H; subst.
    pose proof (rf_drain _ _ _ _ _ _ _ _ _ E3 Ai1) as (F3 & A3 & O3 & X3).
    pose proof (rf_send_return _ _ _ _ _ _ _ _ E4 A3 eq_refl) as D4.
    pose proof (drain_qinert _ _ _ _ _ _ _ _ _ _ E3) as [(Qd & _) _]. pose proof (aux_send_return _ _ _ _ _ _ _ _ _ E4) as AQ4.
    assert (Q4 : s_qs s0 = s_qs s3) by (change (x_qs (aux_of s0) = x_qs (aux_of s3)); rewrite AQ4; reflexivity).
    exact (FIN s1' s3 s0 [] (FH_refl s1') Ai1 eq_refl eq_refl (fun j => X1' j) (conj F3 (conj A3 (conj O3 X3))) Qd D4 Q4).
  - match type of H with (bind ?x _) = _ => destruct x as [[[s3 o3] b3]| |] eqn:E3; cbn [bind] in H; try discriminate end.
    match type of H with (bind ?x _) = _ => destruct x as [[[s4 o4] b4]| |] eqn:E4; cbn [bind] in H; try discriminate end.
    inversion H; subst.
    pose proof (rf_reject_all _ _ _ _ _ E3 Ai1) as (F3 & A3 & O3 & X3).
    pose proof (rf_send_exception _ _ _ _ _ _ E4 A3 eq_refl) as (F4 & A4 & O4 & X4).
    pose proof (reject_all_qinert _ _ _ _ _ _ E3) as [(Qd & _) _]. pose proof (aux_send_exception _ _ _ _ _ _ _ E4) as AQ4.
    eapply RI_keep; [exact R|eapply FH_trans; [exact F1|eapply FH_trans; eauto]| |exact A4|].
    + transitivity (s_qs s3); [change (x_qs (aux_of s0) = x_qs (aux_of s3)); rewrite AQ4; reflexivity|]. transitivity (s_qs s1'); [exact Qd|exact Q1].
    + intros j. rewrite X4, X3, (O3 id (NIN s1' eq_refl)), Ea1, X1', Hx. cbn [awo]. unfold aw. cbn [a1 a_args a_rct set_a_args]. simpl cls. lia.
Qed.

(* ---------------------------------------------------------------- every handler of a connection that is up *)
Lemma ri_handler : forall e s s0 o0 ab, handler cfg_fixed e s = Ok (s0, o0, ab) -> (s_shut s = false -> live s) ->
  (s_shut s = true -> s_qs s = [] /\ s_ans s = []) -> env_ok s e = true -> RI s -> RI s0.
Proof.
  intros e s s0 o0 ab H Lv Sh Henv R.
  destruct e; simpl in H; try (inversion H; subst; exact R; fail).
  - eapply ri_handle_bootstrap; eauto.
  - eapply ri_handle_call; eauto.
  - eapply ri_handle_return; eauto.
  - eapply ri_handle_finish; eauto.
  - eapply ri_handle_release; eauto.
  - eapply ri_handle_disembargo; eauto.
  - eapply ri_app_bootstrap; eauto.
  - eapply ri_app_call; eauto.
  - eapply ri_app_pipe; eauto.
  - eapply ri_app_return; eauto. intros Hs. apply (Sh Hs).
  - eapply ri_app_release; eauto. intros Hs. apply (Sh Hs).
  - eapply ri_app_cancel; eauto.
  - eapply ri_app_hold; eauto.
  - eapply ri_app_unhold; eauto.
Qed.

(* ---------------------------------------------------------------- shutdown, and the connection afterwards *)
Definition RS (s : state) : Prop :=
  s_qs s = [] /\ s_ans s = [] /\ s_exp s = [] /\ s_emb s = [] /\ s_boot s = false /\
  (forall j, cget j (s_lrefs s) = HND j (s_handles s)) /\ (forall e, HE e (s_handles s) = 0).

Lemma hw_fail : forall j h, hw j (fail_handle h) = hw j h. Proof. intros j h. destruct h; reflexivity. Qed.
Lemma he_fail : forall e h, he e (fail_handle h) = he e h. Proof. intros e h. destruct h; reflexivity. Qed.
Lemma HND_fail : forall j l, HND j (map fail_handle l) = HND j l.
Proof. intros j l. induction l as [|h l IH]; simpl; [reflexivity|]. rewrite IH, hw_fail. reflexivity. Qed.
Lemma HE_fail : forall e l, HE e (map fail_handle l) = HE e l.
Proof. intros e l. induction l as [|h l IH]; simpl; [reflexivity|]. rewrite IH, he_fail. reflexivity. Qed.

Lemma cls_exp_clients : forall j t, cls j (exp_clients t) = EXP j t.
Proof. intros j t. unfold exp_clients. induction t as [|[[x w]|] t IH]; simpl; [reflexivity| |exact IH]. rewrite IH. lia. Qed.
Lemma noemb_exp_clients : forall t, EN t -> noemb (exp_clients t).
Proof.
  intros t H. unfold noemb, exp_clients. apply Forall_forall. intros x Hx. apply in_flat_map in Hx. destruct Hx as ([[y w]|] & Hin & Hy); [|destruct Hy].
  destruct Hy as [<-|[]]. eapply H; eauto.
Qed.

(* the arguments of every answer are released while the table still lists them *)
Lemma rf_release_all_args : forall l s s1 o, release_all_args cfg_fixed l s = Ok (s1, o) -> PA l ->
  FA s s1 /\ FE s s1 /\ FH s s1 /\ s_qs s1 = s_qs s /\ forall j, X j s1 = X j s - fold_right (fun p acc => cls j (a_args (snd p)) + acc) 0 l.
Proof.
  induction l as [|[id a] l IH]; intros s s1 o H P; simpl in H.
  - inversion H; subst. split; [reflexivity|split; [apply FE_refl|split; [apply FH_refl|split; [reflexivity|intros j; simpl; lia]]]].
  - destruct (release_caps cfg_fixed (a_args a) s) as [[sa oa]| |] eqn:E1; cbn [bind] in H; try discriminate.
    destruct (release_all_args cfg_fixed l sa) as [[sb ob]| |] eqn:E2; cbn [bind] in H; try discriminate. inversion H; subst.
    destruct (rf_release_caps_ne _ _ _ _ E1 (proj1 (P id a (or_introl eq_refl)))) as (A1 & B1 & C1 & X1). pose proof (aux_release_caps _ _ _ _ _ E1) as AQ.
    destruct (IH _ _ _ E2 (fun i b Hi => P i b (or_intror Hi))) as (A2 & B2 & C2 & Q2 & X2).
    split; [eapply FA_trans; eauto|split; [eapply FE_trans; eauto|split; [eapply FH_trans; eauto|split; [|intros j; rewrite X2, X1; simpl; lia]]]].
    rewrite Q2. change (x_qs (aux_of sa) = x_qs (aux_of s)). rewrite AQ. reflexivity.
Qed.

Lemma rf_release_answers : forall l s s1 o, release_answers cfg_fixed l s = Ok (s1, o) ->
  FA s s1 /\ FE s s1 /\ FH s s1 /\ s_qs s1 = s_qs s /\ forall j, X j s1 = X j s - fold_right (fun p acc => cls j (rct_caps (a_rct (snd p))) + acc) 0 l.
Proof.
  induction l as [|[id a] l IH]; intros s s1 o H; simpl in H.
  - inversion H; subst. split; [reflexivity|split; [apply FE_refl|split; [apply FH_refl|split; [reflexivity|intros j; simpl; lia]]]].
  - destruct (release_caps cfg_fixed _ s) as [[sa oa]| |] eqn:E1; cbn [bind] in H; try discriminate. rewrite andb_false_r in H.
    destruct (release_answers cfg_fixed l sa) as [[sb ob]| |] eqn:E2; cbn [bind] in H; try discriminate. inversion H; subst.
    destruct (rf_release_caps_ne _ _ _ _ E1 (noemb_rct _)) as (A1 & B1 & C1 & X1). pose proof (aux_release_caps _ _ _ _ _ E1) as AQ.
    destruct (IH _ _ _ E2) as (A2 & B2 & C2 & Q2 & X2).
    split; [eapply FA_trans; eauto|split; [eapply FE_trans; eauto|split; [eapply FH_trans; eauto|split; [|intros j; rewrite X2, X1; simpl; lia]]]].
    rewrite Q2. change (x_qs (aux_of sa) = x_qs (aux_of s)). rewrite AQ. reflexivity.
Qed.

Lemma ANS_split : forall j l, ANS j l = fold_right (fun p acc => cls j (a_args (snd p)) + acc) 0 l + fold_right (fun p acc => cls j (rct_caps (a_rct (snd p))) + acc) 0 l.
Proof. intros j l. induction l as [|[id a] l IH]; simpl; [reflexivity|]. rewrite IH. unfold aw. lia. Qed.

(* lifting every embargo of the saved table [t] (entries from index i on); [W j] is what the entries still hold *)
Fixpoint EMBs (j : Z) (t : tbl embent) : Z := match t with [] => 0 | o :: r => mw j o + EMBs j r end.
Lemma EMBs_EMB : forall j t, EMBs j t = EMB j t. Proof. intros j t. induction t as [|o t IH]; simpl; [reflexivity|]. rewrite IH. reflexivity. Qed.

Lemma rf_lift_all : forall t i s s1 o, lift_all cfg_fixed t i s = Ok (s1, o) ->
  (forall k em, nth_error t k = Some (Some em) -> not_emb (e_cap em) /\ e_refs em = HE (i + Z.of_nat k) (s_handles s)) ->
  (forall e, e < i -> HE e (s_handles s) = 0) ->
  (forall e, i + Z.of_nat (length t) <= e -> HE e (s_handles s) = 0) ->
  (forall k, nth_error t k = Some None -> HE (i + Z.of_nat k) (s_handles s) = 0) ->
  FA s s1 /\ FE s s1 /\ s_emb s1 = s_emb s /\ s_boot s1 = s_boot s /\ s_qs s1 = s_qs s /\
  (forall j, X j s1 = X j s - EMBs j t) /\ (forall e, HE e (s_handles s1) = 0).
Proof.
  induction t as [|[em|] t IH]; intros i s s1 o H Hent Hlo Hhi Hnone; simpl in H.
  - inversion H; subst. split; [reflexivity|split; [apply FE_refl|split; [reflexivity|split; [reflexivity|split; [reflexivity|split; [intros j; simpl; lia|]]]]]].
    intros e. destruct (Z_lt_le_dec e i); [apply Hlo; exact l|apply Hhi; simpl; lia].
  - destruct (lift cfg_fixed i em s) as [[sa oa]| |] eqn:E1; cbn [bind] in H; try discriminate.
    destruct (lift_all cfg_fixed t (i + 1) sa) as [[sb ob]| |] eqn:E2; cbn [bind] in H; try discriminate. inversion H; subst.
    destruct (Hent 0%nat em eq_refl) as [Nc Hr]. rewrite Z.add_0_r in Hr.
    destruct (rf_lift _ _ _ _ _ E1 Nc Hr) as (A1 & B1 & C1 & D1 & M1 & Q1 & Hh1 & X1).
    assert (HEa : forall e, HE e (s_handles sa) = if e =? i then 0 else HE e (s_handles s)) by (intros e; rewrite Hh1; apply HE_rewrite; exact Nc).
    destruct (IH (i + 1) sa s1 ob E2) as (A2 & B2 & C2 & D2 & Q2 & X2 & Z2).
    + intros k em' Hk. destruct (Hent (S k) em' Hk) as [N' R']. split; [exact N'|]. rewrite HEa. replace (i + 1 + Z.of_nat k =? i) with false by lia.
      rewrite R'. f_equal. lia.
    + intros e He. rewrite HEa. destruct (e =? i) eqn:E; [reflexivity|apply Hlo; lia].
    + intros e He. rewrite HEa. replace (e =? i) with false by (simpl in He; lia). apply Hhi. simpl. lia.
    + intros k Hk. rewrite HEa. replace (i + 1 + Z.of_nat k =? i) with false by lia. replace (i + 1 + Z.of_nat k) with (i + Z.of_nat (S k)) by lia. apply Hnone. exact Hk.
    + split; [eapply FA_trans; eauto|split; [eapply FE_trans; eauto|split; [congruence|split; [congruence|split; [congruence|split; [|exact Z2]]]]]].
      intros j. rewrite X2, X1. simpl. lia.
  - destruct (IH (i + 1) s s1 o H) as (A2 & B2 & C2 & D2 & Q2 & X2 & Z2).
    + intros k em' Hk. destruct (Hent (S k) em' Hk) as [N' R']. split; [exact N'|]. rewrite R'. f_equal. lia.
    + intros e He. destruct (Z.eq_dec e i); [subst; pose proof (Hnone 0%nat eq_refl) as Z0; rewrite Z.add_0_r in Z0; exact Z0|apply Hlo; lia].
    + intros e He. apply Hhi. simpl. lia.
    + intros k Hk. replace (i + 1 + Z.of_nat k) with (i + Z.of_nat (S k)) by lia. apply Hnone. exact Hk.
    + split; [exact A2|split; [exact B2|split; [exact C2|split; [exact D2|split; [exact Q2|split; [|exact Z2]]]]]]. intros j. rewrite X2. simpl. lia.
Qed.

Lemma tget_nth_none : forall A (t : tbl A) k, nth_error t k = Some None -> tget (Z.of_nat k) t = None.
Proof.
  intros A t k H. unfold tget, znth. assert (k < length t)%nat by (apply nth_error_Some; rewrite H; discriminate).
  replace ((Z.of_nat k <? 0) || (Z.of_nat (length t) <=? Z.of_nat k)) with false by lia. rewrite Nat2Z.id, H. reflexivity.
Qed.
Lemma tget_out : forall A (t : tbl A) e, e < 0 \/ Z.of_nat (length t) <= e -> tget e t = None.
Proof. intros A t e H. unfold tget, znth. replace ((e <? 0) || (Z.of_nat (length t) <=? e)) with true by lia. reflexivity. Qed.

Lemma do_shutdown_RS : forall abort s s1 o, do_shutdown cfg_fixed abort s = Ok (s1, o) -> RI s -> RS s1.
Proof.
  intros abort s s1 o H R. pose proof R as (Hx & Ti & (K & P & He & Hxs) & Ec & Xm & Hb). unfold do_shutdown in H.
  set (s0 := set_shut true s) in *.
  destruct (release_all_args cfg_fixed (s_ans s0) s0) as [[sa o1]| |] eqn:E1; cbn [bind] in H; try discriminate.
  destruct (rf_release_all_args _ _ _ _ E1 P) as (A1 & B1 & C1 & Q1 & X1). unfold FA in A1. change (s_ans s0) with (s_ans s) in *.
  set (s2 := set_handles (map fail_handle (s_handles sa)) (set_queue [] (set_busy [] (set_dead [] (set_imp [] (set_exp [] (set_qs [] (set_ans [] sa)))))))) in *.
  set (s3 := if s_boot s2 then set_boot false (lref (-1) 0 s2) else s2) in *.
  destruct (release_caps cfg_fixed (exp_clients (s_exp sa)) s3) as [[s4 o4]| |] eqn:E4; cbn [bind] in H; try discriminate.
  destruct (lift_all cfg_fixed (s_emb s4) 0 (set_emb [] s4)) as [[s5 o5]| |] eqn:E5; cbn [bind] in H; try discriminate.
  destruct (release_answers cfg_fixed (s_ans sa) s5) as [[s6 o6]| |] eqn:E6; cbn [bind] in H; try discriminate.
  inversion H; subst. clear H.
  destruct C1 as (C1h & C1e & C1b & C1m). destruct B1 as (B1e & B1g).
  assert (Xs0 : forall j, X j s0 = 0) by (intros j; rewrite <- (Hx j); apply X_eq; reflexivity).
  (* s2 *)
  assert (X2 : forall j, X j s2 = fold_right (fun p acc => cls j (rct_caps (a_rct (snd p))) + acc) 0 (s_ans s) + EXP j (s_exp s)).
  { intros j. unfold X, RC. cbn [s2 s_boot s_exp s_ans s_handles s_emb s_lrefs set_handles set_queue set_busy set_dead set_imp set_exp set_qs set_ans].
    rewrite HND_fail. specialize (X1 j). unfold X, RC in X1. specialize (Xs0 j). unfold X, RC in Xs0.
    change (s_boot s0) with (s_boot s) in *. change (s_exp s0) with (s_exp s) in *. change (s_handles s0) with (s_handles s) in *.
    change (s_emb s0) with (s_emb s) in *. change (s_lrefs s0) with (s_lrefs s) in *. change (s_ans s0) with (s_ans s) in *.
    rewrite A1, B1e, C1h, C1e, C1b in X1. rewrite C1h, C1e, C1b. simpl EXP. simpl ANS. rewrite (ANS_split j (s_ans s)) in *. destruct (s_boot s && (j =? 0)); lia. }
  assert (X3 : forall j, X j s3 = X j s2).
  { intros j. unfold s3. destruct (s_boot s2) eqn:Eb; [|reflexivity]. unfold X, RC.
    cbn [s_boot s_exp s_ans s_handles s_emb s_lrefs set_boot lref set_lrefs]. rewrite Eb, cget_cadd. cbn [andb]. destruct (j =? 0) eqn:E0; [assert (j = 0) by lia; subst j|]; cbv iota; lia. }
  assert (F3 : s_ans s3 = [] /\ s_exp s3 = [] /\ s_qs s3 = [] /\ s_emb s3 = s_emb s /\ s_handles s3 = map fail_handle (s_handles s) /\ s_boot s3 = false).
  { unfold s3. destruct (s_boot s2) eqn:Eb; cbn [s2 s_boot s_exp s_ans s_qs s_handles s_emb set_boot lref set_lrefs set_handles set_queue set_busy set_dead set_imp set_exp set_qs set_ans];
      rewrite ?C1h, ?C1e; repeat split; try reflexivity. exact Eb. }
  destruct F3 as (F3a & F3e & F3q & F3m & F3h & F3b).
  destruct (rf_release_caps_ne _ _ _ _ E4 (noemb_exp_clients (s_exp sa) ltac:(rewrite B1e; exact He))) as (A4 & (B4e & B4g) & (C4h & C4e & C4b & C4m) & X4).
  pose proof (aux_release_caps _ _ _ _ _ E4) as AQ4. unfold FA in A4.
  assert (Q4 : s_qs s4 = []) by (change (x_qs (aux_of s4) = []); rewrite AQ4; exact F3q).
  assert (Em4 : s_emb s4 = s_emb s) by congruence.
  assert (Hh4 : s_handles s4 = map fail_handle (s_handles s)) by congruence.
  (* the embargoes *)
  rewrite Em4 in E5.
  destruct (rf_lift_all (s_emb s) 0 (set_emb [] s4) s5 o5 E5) as (A5 & (B5e & B5g) & C5 & D5 & Q5 & X5 & Z5).
  { intros k em Hk. cbn [s_handles set_emb]. rewrite Hh4, HE_fail. assert (Tg : tget (Z.of_nat k) (s_emb s) = Some em).
    { apply nth_tget. exact Hk. }
    split; [apply Ec; eapply tget_in; eauto|]. specialize (Ti (Z.of_nat k)). rewrite Tg in Ti. simpl in Ti. simpl. lia. }
  { intros e Hlt. cbn [s_handles set_emb]. rewrite Hh4, HE_fail. specialize (Ti e). rewrite (tget_out _ _ e (or_introl Hlt)) in Ti. apply Ti. }
  { intros e Hge. cbn [s_handles set_emb]. rewrite Hh4, HE_fail. specialize (Ti e). assert (Hge' : Z.of_nat (length (s_emb s)) <= e) by lia. rewrite (tget_out _ _ e (or_intror Hge')) in Ti. apply Ti. }
  { intros k Hk. cbn [s_handles set_emb]. rewrite Hh4, HE_fail. specialize (Ti (0 + Z.of_nat k)). simpl in Ti. rewrite (tget_nth_none _ _ _ Hk) in Ti. apply Ti. }
  destruct (rf_release_answers _ _ _ _ E6) as (A6 & (B6e & B6g) & (C6h & C6e & C6b & C6m) & Q6 & X6). unfold FA in A5, A6.
  cbn [s_ans s_exp s_emb s_boot s_qs set_emb] in *.
  assert (Xf : forall j, X j s1 = 0).
  { intros j. rewrite X6, X5, A1. unfold X at 1, RC. cbn [s_boot s_exp s_ans s_handles s_emb s_lrefs set_emb].
    specialize (X4 j). rewrite X3, X2 in X4. unfold X, RC in X4. rewrite cls_exp_clients in X4.
    assert (EE : EXP j (s_exp sa) = EXP j (s_exp s)) by (f_equal; exact B1e). pose proof (EMBs_EMB j (s_emb s)) as EM. change (EMB j []) with 0.
    assert (E4m : EMB j (s_emb s4) = EMB j (s_emb s)) by (f_equal; congruence). destruct (s_boot s4 && (j =? 0)); lia. }
  split; [congruence|split; [congruence|split; [congruence|split; [congruence|split; [congruence|split]]]]].
  - intros j. specialize (Xf j). unfold X, RC in Xf.
    assert (E1' : s_boot s1 = false) by congruence. assert (E2' : s_exp s1 = []) by congruence. assert (E3' : s_ans s1 = []) by congruence.
    assert (E4' : s_emb s1 = []) by congruence. rewrite E1', E2', E3', E4' in Xf. simpl in Xf. lia.
  - intros e. rewrite C6h. apply Z5.
Qed.

(* a connection that is shut down: only the handles hold references *)
Lemma RS_frame : forall s s1, RS s -> s_qs s1 = s_qs s -> s_ans s1 = s_ans s -> s_exp s1 = s_exp s -> s_emb s1 = s_emb s ->
  s_boot s1 = s_boot s -> s_lrefs s1 = s_lrefs s -> s_handles s1 = s_handles s -> RS s1.
Proof. intros s s1 (A & B & C & D & E & F & G) Q1 Q2 Q3 Q4 Q5 Q6 Q7. unfold RS. rewrite Q1, Q2, Q3, Q4, Q5, Q6, Q7. repeat split; assumption. Qed.

Lemma HE_ge : forall e l n h, nth_error l n = Some h -> he e h <= HE e l.
Proof.
  intros e l. induction l as [|a l IH]; intros n h H; destruct n; simpl in H; try discriminate.
  - inversion H; subst. simpl. pose proof (HE_nonneg e l). lia.
  - specialize (IH _ _ H). simpl. assert (0 <= he e a) by (destruct a; simpl; try lia; apply ce_nonneg). lia.
Qed.

Lemma rs_handler : forall e s s0 o0 ab, handler cfg_fixed e s = Ok (s0, o0, ab) -> s_shut s = true -> is_peer e = false -> RS s -> RS s0 /\ s_shut s0 = true.
Proof.
  intros e s s0 o0 ab H Hs Hp R. pose proof R as (Q & A & E & M & B & L & Z).
  destruct e; simpl in Hp; try discriminate; simpl in H.
  - unfold app_bootstrap in H. rewrite Hs in H. inversion H; subst. split; [|exact Hs].
    unfold RS. cbn [s_qs s_ans s_exp s_emb s_boot s_lrefs s_handles set_handles]. split; [exact Q|split; [exact A|split; [exact E|split; [exact M|split; [exact B|split]]]]].
    + intros j. rewrite HND_app. simpl hw. rewrite L. lia.
    + intros e. rewrite HE_app. simpl he. rewrite Z. reflexivity.
  - unfold app_call in H. destruct (hget h s) as [q0|x|].
    + unfold app_pipe, next_call in H. cbn [s_shut set_ncall] in H. rewrite Hs in H. inversion H; subst. split; [exact R|exact Hs].
    + destruct x; unfold next_call in H; try (inversion H; subst; split; [exact R|exact Hs]; fail).
      cbn [s_shut set_ncall] in H. rewrite Hs in H. inversion H; subst. split; [exact R|exact Hs].
    + unfold next_call in H. inversion H; subst. split; [exact R|exact Hs].
  - unfold app_pipe, next_call in H. cbn [s_shut set_ncall] in H. rewrite Hs in H. inversion H; subst. split; [exact R|exact Hs].
  - unfold app_return in H. rewrite A in H. cbn [find_running] in H. destruct (aget k (s_lcalls s)); inversion H; subst; (split; [exact R|exact Hs]).
  - unfold app_release in H. destruct (hget h s) as [qid|x|] eqn:Eh; [| |inversion H; subst; split; [exact R|exact Hs]].
    + cbn [s_shut set_handle set_handles] in H. rewrite Hs in H. inversion H; subst. split; [|exact Hs].
      pose proof (hget_znth _ _ _ Eh ltac:(discriminate)) as Hz. pose proof (znth_some _ _ _ _ Hz) as [Hr Hn].
      unfold RS, set_handle. cbn [s_qs s_ans s_exp s_emb s_boot s_lrefs s_handles set_handles].
      split; [exact Q|split; [exact A|split; [exact E|split; [exact M|split; [exact B|split]]]]].
      * intros j. rewrite (HND_replace j _ _ HGone _ Hn). simpl hw. rewrite L. lia.
      * intros e. rewrite (HE_replace e _ _ HGone _ Hn). simpl he. rewrite Z. lia.
    + destruct (release_cap cfg_fixed x _) as [[s1 o]| |] eqn:E1; cbn [bind] in H; try discriminate. inversion H; subst.
      pose proof (hget_znth _ _ _ Eh ltac:(discriminate)) as Hz. pose proof (znth_some _ _ _ _ Hz) as [Hr Hn].
      assert (Nx : not_emb x).
      { destruct x; try exact I. pose proof (HE_ge e _ _ _ Hn) as G. simpl in G. rewrite Z.eqb_refl, Z in G. lia. }
      destruct (rf_release_cap_ne _ _ _ _ E1 Nx) as (A1 & (B1 & _) & (C1 & C2 & C3 & _) & X1). pose proof (aux_release_cap _ _ _ _ _ E1) as AQ.
      unfold FA in A1. set (sa := set_handle h HGone s) in *.
      split; [|change (x_shut (aux_of s0) = true); rewrite AQ; exact Hs].
      unfold RS. rewrite A1, B1, C1, C2, C3. cbn [sa s_ans s_exp s_emb s_boot s_handles set_handle set_handles].
      split; [change (x_qs (aux_of s0) = []); rewrite AQ; exact Q|split; [exact A|split; [exact E|split; [exact M|split; [exact B|split]]]]].
      * intros j. specialize (X1 j). unfold X, RC in X1. rewrite A1, B1, C1, C2, C3 in X1.
        cbn [sa s_boot s_exp s_ans s_handles s_emb s_lrefs set_handle set_handles] in X1. rewrite A, E, M, B in X1. simpl in X1.
        rewrite (HND_replace j _ _ HGone _ Hn) in *. simpl hw in *. specialize (L j). lia.
      * intros e. rewrite (HE_replace e _ _ HGone _ Hn). simpl he. rewrite Z.
        replace (ce e x) with 0 by (destruct x; simpl in *; try reflexivity; contradiction). lia.
  - unfold app_cancel in H. rewrite Hs in H. inversion H; subst. split; [exact R|exact Hs].
  - unfold app_hold, next_call in H. destruct (hget h _) as [q0|x|]; try (inversion H; subst; split; [exact R|exact Hs]; fail).
    destruct x; try (inversion H; subst; split; [exact R|exact Hs]; fail). cbn [s_shut set_ncall] in H. rewrite Hs in H. cbn [orb] in H.
    inversion H; subst. split; [exact R|exact Hs].
  - unfold app_unhold in H. rewrite Q in H. cbn [find_held] in H. inversion H; subst. split; [exact R|exact Hs].
  - inversion H; subst. split; [exact R|exact Hs].
Qed.

(* ---------------------------------------------------------------- histories *)
Definition CI (s : state) : Prop := if s_shut s then RS s else RI s.

Lemma CI_init : forall boot, CI (init boot).
Proof.
  intros boot. unfold CI. simpl. split; [|split; [|split; [|split; [|split]]]].
  - intros j. unfold X, RC. cbn [init s_boot s_exp s_ans s_handles s_emb s_lrefs EXP ANS HND EMB]. destruct boot; cbn [andb]; [|reflexivity].
    unfold cget. cbn [aget]. rewrite (Z.eqb_sym 0 j). destruct (j =? 0); reflexivity.
  - intros e. simpl. rewrite (tget_out _ [] e ltac:(simpl; lia)). split; reflexivity.
  - split; [constructor|split; [intros id a []|split; [intros x w []|]]]. split; [split; [reflexivity|constructor]|intros x []].
  - intros em [].
  - split; [split; [reflexivity|constructor]|intros x []].
  - intros qid q h Hq. simpl in Hq. rewrite (tget_out _ [] qid ltac:(simpl; lia)) in Hq. discriminate.
Qed.

Lemma step_CI : forall s e W s1 o, sinv s W -> CI s -> W + ev_work e < LIM -> env_ok s e = true ->
  step cfg_fixed s e = Ok (s1, o) -> CI s1.
Proof.
  intros s e W s1 o I C Hb Henv Hstep. unfold step in Hstep. unfold sinv in I. unfold CI in C.
  destruct (s_shut s) eqn:Hs.
  - destruct (is_peer e) eqn:Hp; simpl in Hstep.
    + inversion Hstep; subst. unfold CI. cbn [s_shut set_out]. rewrite Hs. exact C.
    + destruct e; simpl in Hp; try discriminate;
        try (match type of Hstep with context [handler cfg_fixed ?ev s] =>
               destruct (handler cfg_fixed ev s) as [[[s0 o0] ab]| |] eqn:E; cbn [bind] in Hstep; try discriminate;
               destruct (rs_handler ev s s0 o0 ab E Hs eq_refl C) as [R0 S0] end;
             rewrite S0 in Hstep; rewrite andb_false_r in Hstep; cbn [bind] in Hstep; inversion Hstep; subst;
             unfold CI; cbn [s_shut set_out]; rewrite S0; exact R0).
      inversion Hstep; subst. unfold CI. cbn [s_shut set_out]. rewrite Hs. exact C.
  - destruct I as [Li P]. assert (L : live s) by (split; assumption). simpl in Hstep.
    assert (SHUT : forall abort s0 o0, RI s0 -> (do '(sx, ox) <- (do '(s2, o2) <- do_shutdown cfg_fixed abort s0; Ok (s2, o0 ++ o2)); Ok (set_out (rev ox ++ s_out sx) sx, ox)) = Ok (s1, o) -> CI s1).
    { intros abort s0 o0 R0 HH. destruct (shutdown_total abort s0) as (s2 & o2 & H2 & _ & S2). pose proof (do_shutdown_RS _ _ _ _ H2 R0) as RS2.
      rewrite H2 in HH. cbn [bind] in HH. inversion HH; subst. unfold CI. cbn [s_shut set_out]. rewrite S2. exact RS2. }
    assert (GEN : forall ev, ev = e -> match ev with MAbort | AClose => False | _ => True end ->
              (do '(sx, ox) <- (do '(sa, o1, abort) <- handler cfg_fixed ev s;
                   if abort && negb (s_shut sa) then do '(s2, o2) <- do_shutdown cfg_fixed true sa; Ok (s2, o1 ++ o2) else Ok (sa, o1));
                 Ok (set_out (rev ox ++ s_out sx) sx, ox)) = Ok (s1, o) -> CI s1).
    { intros ev -> Hne HH.
      pose proof (handler_live e s L ltac:(lia) Henv) as PL.
      destruct (handler cfg_fixed e s) as [[[s0 o0] ab]| |] eqn:EH; simpl in PL; try contradiction. cbn [bind] in HH.
      destruct PL as [S0 _].
      assert (R0 : RI s0) by (eapply ri_handler; [exact EH|intros _; exact L|intros Hc; congruence|exact Henv|exact C]).
      rewrite S0 in HH. simpl negb in HH. rewrite andb_true_r in HH.
      destruct ab; [eapply SHUT; [exact R0|exact HH]|].
      cbn [bind] in HH. inversion HH; subst. unfold CI. cbn [s_shut set_out]. rewrite S0. exact R0. }
    destruct e; try (apply (GEN _ eq_refl I Hstep));
      match type of Hstep with (bind (do_shutdown cfg_fixed ?a s) _) = _ =>
        destruct (shutdown_total a s) as (s2 & o2 & H2 & _ & S2); pose proof (do_shutdown_RS _ _ _ _ H2 C) as RS2;
        rewrite H2 in Hstep; cbn [bind] in Hstep; inversion Hstep; subst; unfold CI; cbn [s_shut set_out]; rewrite S2; exact RS2 end.
Qed.

Lemma run_o_CI : forall evs s W out s' out', sinv s W -> CI s -> W + work evs < LIM -> run_o s evs out = Ok (s', out') -> CI s'.
Proof.
  induction evs as [|e evs IH]; intros s W out s' out' I C Hb H; simpl in H.
  - inversion H; subst. exact C.
  - destruct (env_ok s e) eqn:Henv; [|inversion H; subst; exact C].
    pose proof (ev_work_nonneg e) as He.
    assert (Hwork : 0 <= work evs) by (clear; induction evs as [|x l IHl]; simpl; [lia|pose proof (ev_work_nonneg x); lia]).
    simpl in Hb.
    destruct (step_ok s e W I ltac:(lia) Henv) as (s1 & o & H1 & I1). rewrite H1 in H. cbn [bind] in H.
    eapply (IH s1 (W + ev_work e)); [exact I1| |lia|exact H].
    eapply step_CI; [exact I| exact C| |exact Henv|exact H1]. lia.
Qed.

Lemma HND_zero : forall j l, (forall h, In h l -> h <> HCap (CLocal j)) -> HND j l = 0.
Proof.
  intros j l H. induction l as [|h l IH]; simpl; [reflexivity|]. rewrite IH by (intros h' Hh'; apply H; right; exact Hh').
  destruct h as [q|x|]; simpl; try reflexivity. destruct x; simpl; try reflexivity. destruct (j0 =? j) eqn:E; [|reflexivity].
  exfalso. apply (H (HCap (CLocal j0))); [left; reflexivity|]. f_equal. f_equal. lia.
Qed.

(* C07 close_releases_all over histories.  [s_lrefs] counts the references held on local server j.
   While the connection is up it equals, exactly, what the tables hold: the bootstrap capability,
   the exports whose client is j, the capabilities j in the arguments and result tables of the
   answers, the handles resolved to j and the embargoes on j ([RC]); every embargo's reference
   count is the number of handles that name it.  After Close (or an Abort) every table is empty
   and the count is exactly the number of application handles still resolved to j -- so a server
   none of whose handles is left has count 0: every reference the connection ever took has been
   given back, once (the equation holds at every step, the count never runs ahead of the holders). *)
Theorem close_releases_all : forall boot evs s out, work evs < LIM -> run_o (init boot) evs [] = Ok (s, out) ->
  (s_shut s = false -> forall j, cget j (s_lrefs s) = RC j s) /\
  (s_shut s = true -> s_qs s = [] /\ s_ans s = [] /\ s_exp s = [] /\ s_emb s = [] /\ s_boot s = false /\
                      forall j, cget j (s_lrefs s) = HND j (s_handles s)) /\
  (s_shut s = true -> forall j, (forall h, In h (s_handles s) -> h <> HCap (CLocal j)) -> cget j (s_lrefs s) = 0).
Proof.
  intros boot evs s out Hb H.
  pose proof (run_o_CI evs (init boot) 0 [] s out (sinv_init boot) (CI_init boot) ltac:(lia) H) as C. unfold CI in C.
  split; [|split].
  - intros Hs j. rewrite Hs in C. destruct C as (Hx & _). specialize (Hx j). unfold X in Hx. lia.
  - intros Hs. rewrite Hs in C. destruct C as (Q & A & E & M & B & L & Z). repeat split; assumption.
  - intros Hs j Hh. rewrite Hs in C. destruct C as (_ & _ & _ & _ & _ & L & _). rewrite L. apply HND_zero. exact Hh.
Qed.
