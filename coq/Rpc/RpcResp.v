(* Proofs about the RPC machine, part 3: C08 response_class. *)
From CV Require Import Rpc.Rpc Rpc.RpcSpec Rpc.RpcProofs Rpc.RpcInv.
From Coq Require Import ZifyBool.
Open Scope Z_scope.

(* the protocol-level answers among the outputs of a step *)
Definition resp_msgs (o : list output) : list output :=
  filter (fun x => match x with OReturnRes _ _ | OReturnExc _ | OUnimpl | OAbort => true | _ => false end) o.
Definition quiet (o : list output) : Prop := resp_msgs o = [].

Lemma resp_app : forall a b, resp_msgs (a ++ b) = resp_msgs a ++ resp_msgs b.
Proof. intros. apply filter_app. Qed.

Lemma quiet_app : forall a b, quiet a -> quiet b -> quiet (a ++ b).
Proof. unfold quiet. intros a b Ha Hb. rewrite resp_app, Ha, Hb. reflexivity. Qed.

Lemma quiet_imp_shutdown : forall c i g s s' o, imp_shutdown c i g s = Ok (s', o) -> quiet o.
Proof.
  intros c i g s s' o H. unfold imp_shutdown in H. destruct (s_shut s); [inversion H; reflexivity|].
  destruct (aget i (s_imp s)) as [e|].
  - destruct (i_gen e =? g); inversion H; reflexivity.
  - destruct (fx20 c); [inversion H; reflexivity|discriminate].
Qed.

Lemma quiet_release_cap : forall c x s s' o, release_cap c x s = Ok (s', o) -> quiet o.
Proof.
  intros c x s s' o H. destruct x; simpl in H; try (inversion H; reflexivity).
  unfold imp_release in H. destruct (aget i (s_imp s)) as [e|]; [|eapply quiet_imp_shutdown; eauto].
  destruct ((i_gen e =? g) && (0 <? i_refs e)); [|eapply quiet_imp_shutdown; eauto].
  simpl in H. destruct (i_refs e - 1 =? 0); [|inversion H; reflexivity].
  destruct (busy_get i g (s_busy s) =? 0); [eapply quiet_imp_shutdown; eauto|inversion H; reflexivity].
Qed.

Lemma quiet_release_caps : forall c l s s' o, release_caps c l s = Ok (s', o) -> quiet o.
Proof.
  induction l as [|x l IH]; intros s s' o H; simpl in H; [inversion H; reflexivity|].
  destruct (release_cap c x s) as [[s1 o1]| |] eqn:E1; simpl in H; try discriminate.
  destruct (release_caps c l s1) as [[s2 o2]| |] eqn:E2; simpl in H; try discriminate.
  inversion H; subst. apply quiet_app; [eapply quiet_release_cap; eauto|eapply IH; eauto].
Qed.

Lemma quiet_release_all_args : forall c l s s' o, release_all_args c l s = Ok (s', o) -> quiet o.
Proof.
  induction l as [|[id a] l IH]; intros s s' o H; simpl in H; [inversion H; reflexivity|].
  destruct (release_caps c (a_args a) s) as [[s1 o1]| |] eqn:E1; simpl in H; try discriminate.
  destruct (release_all_args c l s1) as [[s2 o2]| |] eqn:E2; simpl in H; try discriminate.
  inversion H; subst. apply quiet_app; [eapply quiet_release_caps; eauto|eapply IH; eauto].
Qed.

Lemma quiet_release_answers : forall l s s' o, release_answers cfg_fixed l s = Ok (s', o) -> quiet o.
Proof.
  induction l as [|[id a] l IH]; intros s s' o H; simpl in H; [inversion H; reflexivity|].
  destruct (release_caps cfg_fixed (rct_caps (a_rct a)) s) as [[s1 o1]| |] eqn:E1; simpl in H; try discriminate.
  rewrite andb_false_r in H.
  destruct (release_answers cfg_fixed l s1) as [[s2 o2]| |] eqn:E2; simpl in H; try discriminate.
  inversion H; subst. apply quiet_app; [eapply quiet_release_caps; eauto|eapply IH; eauto].
Qed.

Lemma quiet_wake_calls : forall e x l s, quiet (snd (wake_calls e x l s)).
Proof.
  induction l as [|[[e' n] tag] l IH]; intros s; simpl; [reflexivity|].
  destruct (e' =? e); [|apply IH].
  destruct x; try (specialize (IH s); destruct (wake_calls e _ l s); simpl in *; exact IH).
  match goal with |- context [wake_calls e ?x l ?s1] => specialize (IH s1); destruct (wake_calls e x l s1) end.
  simpl in *. exact IH.
Qed.

Lemma quiet_lift : forall e em s s' o, lift cfg_fixed e em s = Ok (s', o) -> quiet o.
Proof.
  intros e em s s' o H. unfold lift in H. cbn [fx22 cfg_fixed negb] in H. rewrite andb_false_r in H. cbv iota in H.
  match type of H with context [wake_calls e ?x ?l ?s1] => pose proof (quiet_wake_calls e x l s1) as Q; destruct (wake_calls e x l s1) end.
  inversion H; subst. exact Q.
Qed.

Lemma quiet_lift_all : forall t i s s' o, lift_all cfg_fixed t i s = Ok (s', o) -> quiet o.
Proof.
  induction t as [|[em|] t IH]; intros i s s' o H; simpl in H; [inversion H; reflexivity| |eapply IH; eauto].
  destruct (lift cfg_fixed i em s) as [[s1 o1]| |] eqn:E1; simpl in H; try discriminate.
  destruct (lift_all cfg_fixed t (i + 1) s1) as [[s2 o2]| |] eqn:E2; simpl in H; try discriminate.
  inversion H; subst. apply quiet_app; [eapply quiet_lift; eauto|eapply IH; eauto].
Qed.

Lemma quiet_fail_questions : forall t i, quiet (fail_questions t i).
Proof.
  induction t as [|[q|] t IH]; intros i; simpl; [reflexivity| |apply IH].
  apply quiet_app; [destruct (q_held q) as [[[a b] c]|]; reflexivity|].
  apply quiet_app; [destruct (q_fin q || (q_call q <? 0)); reflexivity|apply IH].
Qed.

Lemma quiet_lappres : forall l, quiet (map (fun p : Z * Z => LAppRes (snd p) 1) l).
Proof. induction l as [|a l IH]; [reflexivity|]. unfold quiet in *. simpl. exact IH. Qed.

Lemma do_shutdown_resp : forall s s' o, do_shutdown cfg_fixed true s = Ok (s', o) -> resp_msgs o = [OAbort].
Proof.
  intros s s' o H. unfold do_shutdown in H.
  destruct (release_all_args cfg_fixed _ _) as [[s1 o1]| |] eqn:E1; simpl in H; try discriminate.
  destruct (release_caps cfg_fixed _ _) as [[s4 o4]| |] eqn:E4; simpl in H; try discriminate.
  destruct (lift_all cfg_fixed _ _ _) as [[s5 o5]| |] eqn:E5; simpl in H; try discriminate.
  destruct (release_answers cfg_fixed _ _) as [[s6 o6]| |] eqn:E6; simpl in H; try discriminate.
  inversion H; subst. repeat rewrite resp_app.
  rewrite (quiet_release_all_args _ _ _ _ _ E1), (quiet_fail_questions _ _),
          (quiet_release_caps _ _ _ _ _ E4), (quiet_lift_all _ _ _ _ _ E5), (quiet_release_answers _ _ _ _ E6).
  reflexivity.
Qed.

Lemma do_shutdown_abort_out : forall s s' o, do_shutdown cfg_fixed true s = Ok (s', o) -> In OAbort o.
Proof.
  intros s s' o H. unfold do_shutdown in H.
  destruct (release_all_args cfg_fixed _ _) as [[s1 o1]| |]; simpl in H; try discriminate.
  destruct (release_caps cfg_fixed _ _) as [[s4 o4]| |]; simpl in H; try discriminate.
  destruct (lift_all cfg_fixed _ _ _) as [[s5 o5]| |]; simpl in H; try discriminate.
  destruct (release_answers cfg_fixed _ _) as [[s6 o6]| |]; simpl in H; try discriminate.
  inversion H; subst. repeat (apply in_or_app; right). left. reflexivity.
Qed.

(* a handler whose error aborts the connection: Abort is sent, everything is torn down *)
Lemma step_abort : forall s e s0 o0 s1 o, s_shut s = false ->
  match e with MAbort | AClose => False | _ => True end ->
  handler cfg_fixed e s = Ok (s0, o0, true) -> s_shut s0 = false -> quiet o0 ->
  step cfg_fixed s e = Ok (s1, o) -> resp_msgs o = [OAbort] /\ s_shut s1 = true /\ tables_empty s1.
Proof.
  intros s e s0 o0 s1 o Hs Hne Hh Hs0 Hq Hstep. unfold step in Hstep. rewrite Hs in Hstep. simpl in Hstep.
  assert (E : (do '(s1, o1, abort) <- handler cfg_fixed e s;
               if abort && negb (s_shut s1) then do '(s2, o2) <- do_shutdown cfg_fixed true s1; Ok (s2, o1 ++ o2) else Ok (s1, o1))
              = (do '(s2, o2) <- do_shutdown cfg_fixed true s0; Ok (s2, o0 ++ o2))).
  { rewrite Hh. cbn [bind]. rewrite Hs0. reflexivity. }
  destruct e; try contradiction; rewrite E in Hstep; clear E;
    destruct (shutdown_total true s0) as (s2 & o2 & H2 & T2 & S2);
    pose proof (do_shutdown_resp _ _ _ H2) as Hin;
    rewrite H2 in Hstep; simpl in Hstep; inversion Hstep; subst;
    (split; [rewrite resp_app, Hq, Hin; reflexivity|split; [exact S2|exact T2]]).
Qed.

Lemma recv_caps_err : forall ds s tab loc,
  (exists e, In (DRH e) ds /\ tget e (s_exp s) = None) ->
  exists s1 part, recv_caps cfg_fixed ds s tab loc = RPErr s1 part.
Proof.
  induction ds as [|d ds IH]; intros s tab loc [e [Hin He]]; [destruct Hin|].
  assert (REC : forall s' tab' loc', s_exp s' = s_exp s -> In (DRH e) ds ->
            exists s1 part, recv_caps cfg_fixed ds s' tab' loc' = RPErr s1 part).
  { intros s' tab' loc' Hx Hi. apply IH. exists e. split; auto. rewrite Hx. exact He. }
  assert (EXPI : forall i, s_exp (fst (add_import cfg_fixed i s)) = s_exp s).
  { intros i. pose proof (core_add_import cfg_fixed i s) as C.
    change (k_exp (core_of (fst (add_import cfg_fixed i s))) = k_exp (core_of s)). rewrite C. reflexivity. }
  simpl. destruct Hin as [Hd|Hin].
  - subst d. rewrite He. eauto.
  - destruct d.
    + apply REC; auto.
    + specialize (EXPI i). destruct (add_import cfg_fixed i s) as [s1 x]. apply REC; auto.
    + specialize (EXPI i). destruct (add_import cfg_fixed i s) as [s1 x]. apply REC; auto.
    + destruct (tget i (s_exp s)) as [[x w]|]; [|eauto]. apply REC; auto.
      pose proof (core_addref x s) as C. change (k_exp (core_of (addref_cap x s)) = k_exp (core_of s)). rewrite C. reflexivity.
    + apply REC; auto.
Qed.

Lemma payload_bad_err : forall s p, payload_bad s (Some p) = true ->
  exists s1 part, recv_payload cfg_fixed p s = PLErr s1 part.
Proof.
  intros s p H. unfold payload_bad in H. apply andb_true_iff in H. destruct H as [Hv H].
  unfold recv_payload. rewrite Hv. simpl. destruct (p_cerr p); [eauto|]. simpl in H.
  destruct (p_caps p) as [ds|]; [|discriminate].
  apply existsb_exists in H. destruct H as [d [Hin Hd]]. destruct d; try discriminate.
  destruct (tget i (s_exp s)) eqn:E; [discriminate|].
  destruct (recv_caps_err ds s [] [] (ex_intro _ i (conj Hin E))) as (s1 & part & H1). rewrite H1. eauto.
Qed.

(* the exception class: the call is answered with an exception Return and the connection stays up *)
Lemma call_exception : forall s id tg params mok tag, live s -> aget id (s_ans s) = None ->
  (payload_bad s params = true \/ (payload_bad s params = false /\ parse_target tg = None)) ->
  okp (handle_call cfg_fixed id tg params true mok tag s)
      (fun r => let '(s1, o, ab) := r in resp_msgs o = [OReturnExc id] /\ ab = false /\ s_shut s1 = false).
Proof.
  intros s id tg params mok tag L Hid Hbad. unfold handle_call. simpl negb. cbv iota. rewrite Hid.
  assert (Hs : s_shut s = false) by apply L.
  assert (TAIL : forall s1 tor, core_of s1 = core_of s ->
    okp (if negb (fx15 cfg_fixed) then Panic W_F15 else
         do '(s2, o2, _) <- send_exception cfg_fixed id (new_answer [] mok tag) s1;
         do '(s3, o3) <- release_caps cfg_fixed tor s2; Ok (s3, o2 ++ o3, false))
        (fun r => let '(s1, o, ab) := r in resp_msgs o = [OReturnExc id] /\ ab = false /\ s_shut s1 = false)).
  { intros s1 tor C. cbn [fx15 cfg_fixed negb].
    assert (L1 : live s1) by (eapply live_core; eauto).
    assert (Hs1 : s_shut s1 = false) by apply L1.
    unfold send_exception. rewrite Hs1. cbn [new_answer a_fin]. cbn [bind].
    destruct (release_caps_fixed tor (set_ans (aput id (mark_done true (new_answer [] mok tag)) (s_ans (zremove_q id s1))) (zremove_q id s1))) as (s3 & o3 & H3 & C3).
    pose proof (quiet_release_caps _ _ _ _ _ H3) as Q3.
    simpl in H3. simpl. rewrite H3. simpl. unfold quiet in Q3. rewrite Q3. split; [reflexivity|]. split; [reflexivity|].
    change (s_shut s3) with (k_shut (core_of s3)). rewrite C3. exact Hs1. }
  destruct params as [p|].
  - destruct Hbad as [Hb|[Hb Ht]].
    + destruct (payload_bad_err s p Hb) as (s1 & part & H1). rewrite H1.
      pose proof (recv_payload_core cfg_fixed p s) as C. rewrite H1 in C.
      rewrite payload_err_fixed. cbn [bind]. apply TAIL. exact C.
    + pose proof (recv_payload_core cfg_fixed p s) as C.
      destruct (recv_payload cfg_fixed p s) as [s1 k tab loc|s1 part].
      * rewrite Ht. cbn [bind]. apply TAIL. exact C.
      * rewrite payload_err_fixed. cbn [bind]. apply TAIL. exact C.
  - cbn [bind]. apply TAIL. reflexivity.
Qed.

(* C08 response_class: the Return / Unimplemented / Abort messages a step sends ([resp_msgs]) are
   exactly what the protocol prescribes.  For every message the peer can send to a live connection in a state satisfying the invariant:
   - protocol violations (reused answer id, unknown question / answer / export / embargo, finish
     twice, release of more references than held, unknown or unreadable target of a Disembargo,
     sender-loopback on a capability that is not an import, a call naming itself / an unknown or
     finished promised answer / an unknown export) are answered by Abort and a complete shutdown;
   - unsupported features (sendResultsTo /= caller, Disembargo accept/provide, unknown message
     kinds) by exactly one Unimplemented;
   - calls with unreadable or invalid parameters or target by an exception Return carrying the
     call's question id, and the connection stays up. *)
Theorem response_class : forall s W e s1 o,
  sinv s W -> s_shut s = false -> W + ev_work e < LIM -> is_peer e = true ->
  step cfg_fixed s e = Ok (s1, o) ->
  match classify s e with
  | RespAbort => resp_msgs o = [OAbort] /\ s_shut s1 = true /\ tables_empty s1
  | RespUnimpl => o = [OUnimpl] /\ s_shut s1 = false
  | RespException a => resp_msgs o = [OReturnExc a] /\ s_shut s1 = false
  | RespNone => True
  end.
Proof.
  intros s W e s1 o I Hs Hb Hp Hstep.
  unfold sinv in I. rewrite Hs in I. destruct I as [Li P]. assert (L : live s) by (split; assumption).
  assert (ABORT : forall o0, match e with MAbort | AClose => False | _ => True end ->
            handler cfg_fixed e s = Ok (s, o0, true) -> quiet o0 -> resp_msgs o = [OAbort] /\ s_shut s1 = true /\ tables_empty s1).
  { intros o0 Hne Hh Hq. eapply (step_abort s e); [exact Hs|exact Hne|exact Hh|exact Hs|exact Hq|exact Hstep]. }
  assert (PLAIN : forall s0 o0, match e with MAbort | AClose => False | _ => True end ->
            handler cfg_fixed e s = Ok (s0, o0, false) -> o = o0 /\ s_shut s1 = s_shut s0).
  { intros s0 o0 Hne Hh. unfold step in Hstep. rewrite Hs in Hstep. simpl in Hstep.
    destruct e; try contradiction; rewrite Hh in Hstep; simpl in Hstep; inversion Hstep; subst; split; reflexivity. }
  destruct e; simpl in Hp; try discriminate; simpl classify; auto; try (cbv iota; exact I).
  - (* MBootstrap *)
    destruct (aget q (s_ans s)) eqn:E; auto. apply (ABORT []); [exact I| |reflexivity]. simpl. unfold handle_bootstrap. rewrite E. reflexivity.
  - (* MCall *)
    destruct toCaller; simpl negb; cbv iota.
    2:{ destruct (PLAIN s [OUnimpl] I) as [-> ->]; [reflexivity|]. split; [reflexivity|exact Hs]. }
    destruct (aget q (s_ans s)) eqn:E.
    { apply (ABORT []); [exact I| |reflexivity]. simpl. unfold handle_call. simpl. rewrite E. reflexivity. }
    destruct (payload_bad s params) eqn:Eb.
    { pose proof (call_exception s q tg params mok tag L E (or_introl Eb)) as H.
      apply okp_inv in H. destruct H as ([[s0 o0] ab] & Hh & Hin & -> & Hs0).
      destruct (PLAIN s0 o0 I Hh) as [-> ->]. split; assumption. }
    destruct (parse_target tg) as [pt|] eqn:Et.
    2:{ pose proof (call_exception s q tg params mok tag L E (or_intror (conj Eb Et))) as H.
        apply okp_inv in H. destruct H as ([[s0 o0] ab] & Hh & Hin & -> & Hs0).
        destruct (PLAIN s0 o0 I Hh) as [-> ->]. split; assumption. }
    (* well-formed parameters and target: protocol violations in the target *)
    assert (PARSE : exists s0 tab, core_of s0 = core_of s /\
              handle_call cfg_fixed q tg params true mok tag s =
              (let a := new_answer tab mok tag in
               let unknown := do '(s2, o2) <- release_caps cfg_fixed tab (set_ans (aput q placeholder (s_ans s0)) s0); Ok (s2, o2, true) in
               match pt with
               | PImp e => match tget e (s_exp s0) with None => unknown | Some (x, _) => deliver cfg_fixed q a (cap_dtgt x) s0 end
               | PAns t x =>
                 if (t =? q) && negb (fx24 cfg_fixed) then Panic W_F24 else
                 if t =? q then unknown else
                 match aget t (s_ans s0) with
                 | None => unknown
                 | Some ta => if a_fin ta then unknown
                              else if a_ready ta then (if a_err ta then reject cfg_fixed q a s0 else deliver cfg_fixed q a (pipeline_tgt (a_content ta) (a_rct ta) x) s0)
                              else match a_st ta with
                                   | AIdle => Panic W_PCALL
                                   | _ => let s2 := set_queue (s_queue s0 ++ [q]) (set_ans (aput q (set_a_st (AQueued t x) a) (s_ans s0)) s0) in
                                          if fx14 cfg_fixed then Ok (s2, [], false) else Stuck W_F14
                                   end
                 end
               end)).
    { unfold handle_call. simpl negb. cbv iota. rewrite E.
      destruct params as [p|]; [|discriminate].
      pose proof (recv_payload_core cfg_fixed p s) as C.
      destruct (recv_payload cfg_fixed p s) as [s0 k tab loc|s0 part] eqn:Er.
      - rewrite Et. cbn [bind]. exists s0, tab. split; [exact C|reflexivity].
      - exfalso. unfold payload_bad in Eb. unfold recv_payload in Er.
        destruct (negb (p_valid p)) eqn:Ev; [discriminate|]. apply negb_false_iff in Ev. rewrite Ev in Eb. simpl in Eb.
        destruct (p_cerr p); [discriminate|]. simpl in Eb.
        destruct (p_caps p) as [ds|]; [|discriminate].
        destruct (recv_caps cfg_fixed ds s [] []) as [? ? ?|s0' part'] eqn:Erc; [discriminate|].
        (* an error of recv_caps means a receiverHosted descriptor naming no export *)
        clear - Eb Erc. revert Erc. generalize (@nil cap) as tab. generalize (@nil bool) as loc.
        assert (EX : forall i x, s_exp (fst (add_import cfg_fixed i x)) = s_exp x).
        { intros i x. pose proof (core_add_import cfg_fixed i x) as C.
          change (k_exp (core_of (fst (add_import cfg_fixed i x))) = k_exp (core_of x)). rewrite C. reflexivity. }
        assert (G : forall ds s', s_exp s' = s_exp s ->
                  existsb (fun d => match d with DRH e => match tget e (s_exp s) with None => true | Some _ => false end | _ => false end) ds = false ->
                  forall loc tab, recv_caps cfg_fixed ds s' tab loc = RPErr s0' part' -> False).
        { induction ds0 as [|d ds0 IH]; intros s' Hx Hex loc tab H; simpl in *; [discriminate|].
          apply orb_false_iff in Hex. destruct Hex as [Hd Hex].
          destruct d.
          - eapply IH; eauto.
          - specialize (EX i s'). destruct (add_import cfg_fixed i s') as [s2 x]. eapply IH; [|exact Hex|exact H]. simpl in EX. congruence.
          - specialize (EX i s'). destruct (add_import cfg_fixed i s') as [s2 x]. eapply IH; [|exact Hex|exact H]. simpl in EX. congruence.
          - rewrite Hx in H. destruct (tget i (s_exp s)) as [[x w]|]; [|discriminate].
            eapply IH; [|exact Hex|exact H].
            pose proof (core_addref x s') as C. change (k_exp (core_of (addref_cap x s')) = k_exp (core_of s)).
            rewrite C. simpl. exact Hx.
          - eapply IH; eauto. }
        intros loc tab H. exact (G ds s eq_refl Eb loc tab H). }
    destruct PARSE as (s0 & tab & C0 & Hh).
    assert (Xe : s_exp s0 = s_exp s) by (change (k_exp (core_of s0) = k_exp (core_of s)); rewrite C0; reflexivity).
    assert (Xa : s_ans s0 = s_ans s) by (change (k_ans (core_of s0) = k_ans (core_of s)); rewrite C0; reflexivity).
    assert (Hs0 : s_shut s0 = false) by (change (k_shut (core_of s0) = false); rewrite C0; exact Hs).
    assert (UNK : forall s', s_shut s' = false ->
              exists s2 o2, (do '(s2, o2) <- release_caps cfg_fixed tab s'; Ok (s2, o2, true)) = Ok (s2, o2, true) /\ (s_shut s2 = false /\ quiet o2)).
    { intros s' C'. destruct (release_caps_fixed tab s') as (s2 & o2 & H2 & C2). rewrite H2. simpl.
      exists s2, o2. split; [reflexivity|]. split; [|eapply quiet_release_caps; eauto].
      change (k_shut (core_of s2) = false). rewrite C2. exact C'. }
    assert (FIN : forall s2 o2, handler cfg_fixed (MCall q tg params true mok tag) s = Ok (s2, o2, true) -> s_shut s2 = false /\ quiet o2 ->
              resp_msgs o = [OAbort] /\ s_shut s1 = true /\ tables_empty s1).
    { intros s2 o2 H2 [S2 Q2]. eapply (step_abort s (MCall q tg params true mok tag)); [exact Hs|exact I|exact H2|exact S2|exact Q2|exact Hstep]. }
    simpl in Hh.
    destruct pt as [e|t x].
    + rewrite Xe in Hh. destruct (tget e (s_exp s)) as [[x w]|]; [exact I|].
      destruct (UNK (set_ans (aput q placeholder (s_ans s0)) s0) Hs0) as (s2 & o2 & H2 & S2).
      rewrite H2 in Hh. eapply FIN; eauto.
    + rewrite andb_false_r in Hh. destruct (t =? q) eqn:Etq.
      * destruct (UNK (set_ans (aput q placeholder (s_ans s0)) s0) Hs0) as (s2 & o2 & H2 & S2).
        rewrite H2 in Hh. eapply FIN; eauto.
      * rewrite Xa in Hh. destruct (aget t (s_ans s)) as [ta|]; [destruct (a_fin ta); [|exact I]|];
          destruct (UNK (set_ans (aput q placeholder (s_ans s)) s0) Hs0) as (s2 & o2 & H2 & S2);
          rewrite H2 in Hh; eapply FIN; eauto.
  - (* MReturn *)
    destruct (tget a (s_qs s)) eqn:E; auto. apply (ABORT []); [exact I| |reflexivity]. simpl. unfold handle_return. rewrite E. reflexivity.
  - (* MFinish *)
    destruct (aget q (s_ans s)) as [a|] eqn:E.
    + destruct (a_fin a) eqn:Ef; auto. apply (ABORT []); [exact I| |reflexivity]. simpl. unfold handle_finish. rewrite E, Ef. reflexivity.
    + apply (ABORT []); [exact I| |reflexivity]. simpl. unfold handle_finish. rewrite E. reflexivity.
  - (* MRelease *)
    destruct (tget i (s_exp s)) as [[x w]|] eqn:E.
    + destruct (w <? n) eqn:Ew; auto. apply (ABORT []); [exact I| |reflexivity]. simpl. unfold handle_release, release_export. rewrite E.
      replace (n =? w) with false by lia. rewrite Ew. reflexivity.
    + apply (ABORT []); [exact I| |reflexivity]. simpl. unfold handle_release, release_export. rewrite E. reflexivity.
  - (* MDisembargo *)
    destruct (parse_target tg) eqn:Et.
    + destruct cx as [i|e|].
      * apply (ABORT []); [exact I| |reflexivity]. simpl. unfold handle_disembargo. rewrite Et. reflexivity.
      * destruct (tget e (s_emb s)) eqn:E; auto. apply (ABORT []); [exact I| |reflexivity]. simpl. unfold handle_disembargo. rewrite Et, E. reflexivity.
      * destruct (PLAIN s [OUnimpl] I) as [-> ->]; [simpl; unfold handle_disembargo; rewrite Et; reflexivity|].
        split; [reflexivity|exact Hs].
    + apply (ABORT []); [exact I| |reflexivity]. simpl. unfold handle_disembargo. rewrite Et. reflexivity.
  - (* MUnknown *)
    destruct (PLAIN s [OUnimpl] I) as [-> ->]; [reflexivity|]. split; [reflexivity|exact Hs].
Qed.
