(* Proofs about the RPC machine, part 5: history-level C06 one_return.
   Balance of every handler: Returns sent + answers still owing a Return = the same before, plus one
   for an accepted Bootstrap / Call. *)
From CV Require Import Rpc.Rpc Rpc.RpcSpec Rpc.RpcProofs Rpc.RpcInv Rpc.RpcResp Rpc.RpcLocal.
From Coq Require Import ZifyBool.
Open Scope Z_scope.

Lemma okp_elim : forall A (r : res A) Q a, okp r Q -> r = Ok a -> Q a.
Proof. intros A r Q a H E. subst. exact H. Qed.

(* an answer owes its Return *)
Definition pending (id : Z) (s : state) : nat :=
  match aget id (s_ans s) with Some a => if a_ret a then 0%nat else 1%nat | None => 0%nat end.

(* keys of the answer table are unique; the queue lists each queued answer once *)
Definition keys_ok (l : list (Z * answer)) : Prop := NoDup (map fst l).
Definition queue_ok (l : list (Z * answer)) (q : list Z) : Prop :=
  NoDup q /\ forall id, In id q -> exists a p x, aget id l = Some a /\ a_st a = AQueued p x.
Definition J (s : state) : Prop := keys_ok (s_ans s) /\ queue_ok (s_ans s) (s_queue s).

Lemma adel_keys : forall A k (m : list (Z * A)) x, In x (map fst (adel k m)) -> In x (map fst m) /\ x <> k.
Proof.
  induction m as [|[k0 v0] m IH]; intros x H; simpl in *; [destruct H|].
  destruct (k0 =? k) eqn:E.
  - destruct (IH _ H). split; auto.
  - simpl in H. destruct H as [H|H]; [subst; split; [left; reflexivity|lia]|]. destruct (IH _ H). split; auto.
Qed.

Lemma adel_nodup : forall A k (m : list (Z * A)), NoDup (map fst m) -> NoDup (map fst (adel k m)).
Proof.
  induction m as [|[k0 v0] m IH]; intros H; simpl in *; [constructor|].
  inversion H; subst. destruct (k0 =? k); [apply IH; assumption|].
  simpl. constructor; [|apply IH; assumption]. intros Hin. apply adel_keys in Hin. tauto.
Qed.

Lemma keys_aput : forall id a l, keys_ok l -> keys_ok (aput id a l).
Proof.
  intros id a l H. unfold keys_ok, aput. simpl. constructor; [|apply adel_nodup; exact H].
  intros Hin. apply adel_keys in Hin. destruct Hin as [_ Hne]. apply Hne. reflexivity.
Qed.

Lemma keys_adel : forall id l, keys_ok l -> keys_ok (adel id l).
Proof. intros. apply adel_nodup. assumption. Qed.

Lemma zremove_in : forall x y l, In y (zremove x l) <-> In y l /\ y <> x.
Proof.
  intros x y l. unfold zremove. rewrite filter_In. split; intros [H1 H2]; split; auto; lia.
Qed.

Lemma zremove_nodup : forall x l, NoDup l -> NoDup (zremove x l).
Proof. intros. unfold zremove. apply NoDup_filter. assumption. Qed.

(* the answer id leaves the queue and is replaced / removed *)
Lemma queue_ok_put : forall id a l q, queue_ok l q -> queue_ok (aput id a l) (zremove id q).
Proof.
  intros id a l q [N H]. split; [apply zremove_nodup; exact N|].
  intros b Hb. apply zremove_in in Hb. destruct Hb as [Hb Hne]. destruct (H b Hb) as (a0 & p & x & E & S).
  exists a0, p, x. rewrite aget_aput. replace (b =? id) with false by lia. split; assumption.
Qed.

Lemma queue_ok_del : forall id l q, queue_ok l q -> queue_ok (adel id l) (zremove id q).
Proof.
  intros id l q [N H]. split; [apply zremove_nodup; exact N|].
  intros b Hb. apply zremove_in in Hb. destruct Hb as [Hb Hne]. destruct (H b Hb) as (a0 & p & x & E & S).
  exists a0, p, x. rewrite aget_adel. replace (b =? id) with false by lia. split; assumption.
Qed.

(* a queued answer stays queued (drain re-parents it) *)
Lemma queue_ok_requeue : forall id a p x l q, queue_ok l q -> a_st a = AQueued p x -> queue_ok (aput id a l) q.
Proof.
  intros id a p x l q [N H] Ha. split; [exact N|].
  intros b Hb. rewrite aget_aput. destruct (b =? id) eqn:E; [eauto 6|apply H; exact Hb].
Qed.

Lemma zremove_notin : forall x l, ~ In x l -> zremove x l = l.
Proof.
  intros x l H. unfold zremove. induction l as [|y l IH]; simpl; [reflexivity|].
  destruct (y =? x) eqn:E; simpl.
  - exfalso. apply H. left. lia.
  - f_equal. apply IH. intros Hin. apply H. right. exact Hin.
Qed.

Lemma pending_put : forall id a s b, pending b (set_ans (aput id a (s_ans s)) s) = if b =? id then (if a_ret a then 0%nat else 1%nat) else pending b s.
Proof. intros. unfold pending, set_ans. cbn [s_ans]. rewrite aget_aput. destruct (b =? id); reflexivity. Qed.

(* ---------------------------------------------------------------- shape of the answer table after the senders *)
Lemma release_export_frame : forall id n s, frame_x s (fst (fst (release_export id n s))).
Proof.
  intros id n s. unfold release_export. destruct (tget id (s_exp s)) as [[x w]|]; [|apply frame_x_refl].
  destruct (n =? w); [repeat split|]. destruct (w <? n); [apply frame_x_refl|repeat split].
Qed.

Lemma release_exports_frame : forall refs s, frame_x s (fst (fst (release_exports refs s))).
Proof.
  induction refs as [|[i n] refs IH]; intros s; simpl; [apply frame_x_refl|].
  pose proof (release_export_frame i n s) as F1. destruct (release_export i n s) as [[sa oc] ea]. simpl in F1.
  specialize (IH sa). destruct (release_exports refs sa) as [[sb clb] eb]. simpl in *.
  eapply frame_x_trans; eauto.
Qed.

Lemma release_caps_inv : forall l s s1 o, release_caps cfg_fixed l s = Ok (s1, o) -> core_of s1 = core_of s /\ quiet o.
Proof.
  intros l s s1 o H. split; [|eapply quiet_release_caps; eauto].
  destruct (release_caps_fixed l s) as (s' & o' & H' & C). rewrite H in H'. inversion H'; subst. exact C.
Qed.

Lemma release_cap_inv : forall x s s1 o, release_cap cfg_fixed x s = Ok (s1, o) -> core_of s1 = core_of s /\ quiet o.
Proof.
  intros x s s1 o H. split; [|eapply quiet_release_cap; eauto].
  destruct (release_cap_fixed x s) as (s' & o' & H' & C). rewrite H in H'. inversion H'; subst. exact C.
Qed.

Lemma core_ans : forall s s1, core_of s1 = core_of s -> s_ans s1 = s_ans s /\ s_queue s1 = s_queue s /\ s_shut s1 = s_shut s.
Proof.
  intros s s1 C. repeat split.
  - change (k_ans (core_of s1) = k_ans (core_of s)). rewrite C. reflexivity.
  - change (k_queue (core_of s1) = k_queue (core_of s)). rewrite C. reflexivity.
  - change (k_shut (core_of s1) = k_shut (core_of s)). rewrite C. reflexivity.
Qed.

Lemma destroy_shape : forall id a s s1 o err, destroy cfg_fixed id a s = Ok (s1, o, err) ->
  s_ans s1 = adel id (s_ans s) /\ s_queue s1 = s_queue s /\ s_shut s1 = s_shut s /\ quiet o.
Proof.
  intros id a s s1 o err H. unfold destroy in H.
  destruct (a_rrc a && negb match a_xrefs a with [] => true | _ :: _ => false end).
  - pose proof (release_exports_frame (a_xrefs a) (set_ans (adel id (s_ans s)) s)) as F.
    destruct (release_exports (a_xrefs a) (set_ans (adel id (s_ans s)) s)) as [[sx cl] e2]. simpl in F.
    destruct (release_caps cfg_fixed (rct_caps (a_rct a) ++ cl) sx) as [[s3 o3]| |] eqn:E3; simpl in H; try discriminate.
    inversion H; subst. apply release_caps_inv in E3. destruct E3 as [C Q].
    destruct (core_ans _ _ C) as (A1 & A2 & A3). destruct F as (_ & _ & F3 & F4 & _ & _ & F7).
    simpl in *. repeat split; congruence.
  - destruct (release_caps cfg_fixed (rct_caps (a_rct a) ++ []) (set_ans (adel id (s_ans s)) s)) as [[s3 o3]| |] eqn:E3; simpl in H; try discriminate.
    inversion H; subst. apply release_caps_inv in E3. destruct E3 as [C Q].
    destruct (core_ans _ _ C) as (A1 & A2 & A3). simpl in *. repeat split; assumption.
Qed.

(* what a sender does to the tables: the answer is marked done or removed, it leaves the queue *)
Definition sent_shape (id : Z) (s s1 : state) : Prop :=
  (exists a1, s_ans s1 = aput id a1 (s_ans s) /\ a_ret a1 = true /\ a_st a1 = AIdle) \/ s_ans s1 = adel id (s_ans s).

Lemma send_exception_h : forall id a s s1 o ab, send_exception cfg_fixed id a s = Ok (s1, o, ab) -> s_shut s = false ->
  sent_shape id s s1 /\ s_queue s1 = zremove id (s_queue s) /\ s_shut s1 = false /\
  returns id o = 1%nat /\ (forall b, b <> id -> returns b o = 0%nat).
Proof.
  intros id a s s1 o ab H Hs. pose proof (send_exception_one_return _ _ _ _ _ _ _ H) as (R1 & R2 & _).
  rewrite Hs in R1. unfold send_exception in H. rewrite Hs in H.
  destruct (a_fin a).
  - destruct (destroy cfg_fixed id (mark_done true a) (zremove_q id s)) as [[[s2 o2] e2]| |] eqn:E; simpl in H; try discriminate.
    inversion H; subst. apply destroy_shape in E. destruct E as (A & Q & S & _).
    repeat split; auto; [right; exact A|rewrite S; exact Hs].
  - inversion H; subst. repeat split; auto. left. exists (mark_done true a). repeat split.
Qed.

(* ---------------------------------------------------------------- balance *)
Definition rbal (d : Z -> nat) (s : state) (o : list output) (s1 : state) : Prop :=
  forall id, (returns id o + pending id s1 = pending id s + d id)%nat.
Definition d0 : Z -> nat := fun _ => 0%nat.
Definition d1 (i : Z) : Z -> nat := fun x => if x =? i then 1%nat else 0%nat.

Lemma rbal_trans : forall da db s o1 s1 o2 s2, rbal da s o1 s1 -> rbal db s1 o2 s2 ->
  rbal (fun x => (da x + db x)%nat) s (o1 ++ o2) s2.
Proof. intros da db s o1 s1 o2 s2 H1 H2 id. rewrite returns_app. specialize (H1 id). specialize (H2 id). lia. Qed.

Lemma rbal_ext : forall d d' s o s1, rbal d s o s1 -> (forall x, d x = d' x) -> rbal d' s o s1.
Proof. intros d d' s o s1 H E id. rewrite <- E. apply H. Qed.

Lemma rbal_inert : forall s o s1, s_ans s1 = s_ans s -> quiet o -> rbal d0 s o s1.
Proof. intros s o s1 A Q id. rewrite (quiet_returns _ _ Q). unfold pending, d0. rewrite A. lia. Qed.

Lemma rbal_same : forall s o s1, s_ans s1 = s_ans s -> (forall id, returns id o = 0%nat) -> rbal d0 s o s1.
Proof. intros s o s1 A Q id. rewrite Q. unfold pending, d0. rewrite A. lia. Qed.

Lemma rbal_trans0 : forall d s o1 s1 o2 s2, rbal d0 s o1 s1 -> rbal d s1 o2 s2 -> rbal d s (o1 ++ o2) s2.
Proof. intros. eapply rbal_ext; [eapply rbal_trans; eauto|]. intros x. reflexivity. Qed.

Lemma rbal_trans0r : forall d s o1 s1 o2 s2, rbal d s o1 s1 -> rbal d0 s1 o2 s2 -> rbal d s (o1 ++ o2) s2.
Proof. intros. eapply rbal_ext; [eapply rbal_trans; eauto|]. intros x. unfold d0. lia. Qed.

Lemma J_inert : forall s s1, J s -> s_ans s1 = s_ans s -> s_queue s1 = s_queue s -> J s1.
Proof. intros s s1 H A Q. unfold J in *. rewrite A, Q. exact H. Qed.

(* one answer is dealt with: it is sent its Return (marked done / removed) or starts running; it
   leaves the queue; nothing else changes *)
Definition proc (id : Z) (s : state) (o : list output) (s1 : state) : Prop :=
  ((exists a1, s_ans s1 = aput id a1 (s_ans s) /\
      ((a_ret a1 = true /\ returns id o = 1%nat) \/ (a_ret a1 = false /\ returns id o = 0%nat))) \/
   (s_ans s1 = adel id (s_ans s) /\ returns id o = 1%nat)) /\
  s_queue s1 = zremove id (s_queue s) /\ s_shut s1 = false /\ (forall b, b <> id -> returns b o = 0%nat).

Lemma proc_J : forall id s o s1, J s -> proc id s o s1 -> J s1.
Proof.
  intros id s o s1 [K Q] ([(a1 & A & _)|[A _]] & Hq & _); unfold J; rewrite A, Hq.
  - split; [apply keys_aput; exact K|apply queue_ok_put; exact Q].
  - split; [apply keys_adel; exact K|apply queue_ok_del; exact Q].
Qed.

Lemma proc_other : forall id s o s1 b, proc id s o s1 -> b <> id -> aget b (s_ans s1) = aget b (s_ans s).
Proof.
  intros id s o s1 b ([(a1 & A & _)|[A _]] & _) Hb; rewrite A.
  - rewrite aget_aput. replace (b =? id) with false by lia. reflexivity.
  - rewrite aget_adel. replace (b =? id) with false by lia. reflexivity.
Qed.

Lemma proc_rbal : forall id s o s1, proc id s o s1 ->
  rbal (fun x => if x =? id then (1 - pending id s)%nat else 0%nat) s o s1.
Proof.
  intros id s o s1 P b. destruct (b =? id) eqn:E.
  - assert (b = id) by lia. subst b. assert (Hp : (pending id s <= 1)%nat).
    { unfold pending. destruct (aget id (s_ans s)) as [a|]; [destruct (a_ret a)|]; lia. }
    destruct P as ([(a1 & A & [[R1 R2]|[R1 R2]])|[A R]] & _); unfold pending at 1; rewrite A.
    + rewrite aget_aput, Z.eqb_refl, R1. lia.
    + rewrite aget_aput, Z.eqb_refl, R1. lia.
    + rewrite aget_adel, Z.eqb_refl. lia.
  - assert (Hb : b <> id) by lia. unfold pending. rewrite (proc_other _ _ _ _ _ P Hb).
    destruct P as (_ & _ & _ & R). rewrite (R _ Hb). lia.
Qed.

Lemma proc_owing : forall id s o s1, proc id s o s1 -> pending id s = 1%nat -> rbal d0 s o s1.
Proof.
  intros id s o s1 P Hp. eapply rbal_ext; [apply proc_rbal; exact P|].
  intros x. unfold d0. destruct (x =? id); [rewrite Hp|]; reflexivity.
Qed.

Lemma proc_fresh : forall id s o s1, proc id s o s1 -> aget id (s_ans s) = None -> rbal (d1 id) s o s1.
Proof.
  intros id s o s1 P Hn. eapply rbal_ext; [apply proc_rbal; exact P|].
  intros x. unfold d1, pending. rewrite Hn. destruct (x =? id); reflexivity.
Qed.

(* inert work before a [proc] (releases) *)
Lemma proc_pre : forall id s s0 o0 o s1, core_of s0 = core_of s -> quiet o0 -> proc id s0 o s1 -> proc id s (o0 ++ o) s1.
Proof.
  intros id s s0 o0 o s1 C Q P. destruct (core_ans _ _ C) as (A0 & Q0 & S0).
  destruct P as (Sh & Hq & Hs & R). rewrite A0 in Sh. rewrite Q0 in Hq.
  assert (RR : forall b, returns b (o0 ++ o) = returns b o) by (intros b; rewrite returns_app, (quiet_returns _ _ Q); reflexivity).
  split; [|split; [exact Hq|split; [exact Hs|intros b Hb; rewrite RR; apply R; exact Hb]]].
  rewrite RR. exact Sh.
Qed.

Lemma proc_post : forall id s o s1 o1 s2, proc id s o s1 -> core_of s2 = core_of s1 -> quiet o1 -> proc id s (o ++ o1) s2.
Proof.
  intros id s o s1 o1 s2 P C Q. destruct (core_ans _ _ C) as (A0 & Q0 & S0).
  destruct P as (Sh & Hq & Hs & R).
  assert (RR : forall b, returns b (o ++ o1) = returns b o) by (intros b; rewrite returns_app, (quiet_returns _ _ Q); lia).
  split; [|split; [congruence|split; [congruence|intros b Hb; rewrite RR; apply R; exact Hb]]].
  rewrite RR, A0. exact Sh.
Qed.

Lemma send_exception_proc : forall id a s s1 o ab, send_exception cfg_fixed id a s = Ok (s1, o, ab) -> s_shut s = false ->
  proc id s o s1.
Proof.
  intros id a s s1 o ab H Hs. destruct (send_exception_h _ _ _ _ _ _ H Hs) as (Sh & Q & S & R1 & R2).
  split; [|split; [exact Q|split; [exact S|exact R2]]].
  destruct Sh as [(a1 & A & Ar & _)|A]; [left; exists a1; split; [exact A|left; split; assumption]|right; split; assumption].
Qed.

Lemma send_return_proc : forall id a k rct s s1 o ab, send_return cfg_fixed id a k rct s = Ok (s1, o, ab) ->
  live s -> s_allocs s + Z.of_nat (length rct) < LIM -> proc id s o s1.
Proof.
  intros id a k rct s s1 o ab H L Hb. assert (Hs : s_shut s = false) by apply L. unfold send_return in H.
  pose proof (fill_caps_ok (rct_caps rct) s L (rct_caps_not_emb rct)) as P. rewrite rct_caps_length in P. specialize (P Hb).
  destruct (fill_caps cfg_fixed (rct_caps rct) s) as [[[s0 ds] refs]| |] eqn:E; simpl in P; try contradiction.
  cbn [bind] in H. destruct P as [G (_ & _ & F3 & F4 & _ & _ & F7)]. rewrite Hs in H.
  assert (R1 : forall o', quiet o' -> returns id ([OReturnRes id ds] ++ o') = 1%nat).
  { intros o' Q. rewrite returns_app, (quiet_returns _ _ Q). unfold returns. simpl. rewrite Z.eqb_refl. reflexivity. }
  assert (R2 : forall o' b, quiet o' -> b <> id -> returns b ([OReturnRes id ds] ++ o') = 0%nat).
  { intros o' b Q Hb'. rewrite returns_app, (quiet_returns _ _ Q). unfold returns. simpl. replace (id =? b) with false by lia. reflexivity. }
  destruct (a_fin a).
  - match type of H with context [destroy cfg_fixed id ?a1 ?sx] => destruct (destroy cfg_fixed id a1 sx) as [[[s2 o2] e2]| |] eqn:E2; simpl in H; try discriminate end.
    inversion H; subst. apply destroy_shape in E2. destruct E2 as (A & Q & S & Qo). simpl in A, Q, S.
    split; [right; split; [congruence|apply R1; exact Qo]|].
    split; [congruence|]. split; [congruence|]. intros b Hb'. apply R2; assumption.
  - inversion H; subst. unfold proc, set_ans, zremove_q, set_queue. cbn [s_ans s_queue s_shut].
    split; [left; eexists; split; [rewrite F3; reflexivity|left; split; [reflexivity|]]|].
    + unfold returns. simpl. rewrite Z.eqb_refl. reflexivity.
    + split; [rewrite F4; reflexivity|]. split; [congruence|].
      intros b Hb'. unfold returns. simpl. replace (id =? b) with false by lia. reflexivity.
Qed.

Lemma reject_proc : forall id a s s1 o ab, reject cfg_fixed id a s = Ok (s1, o, ab) -> s_shut s = false -> proc id s o s1.
Proof.
  intros id a s s1 o ab H Hs. unfold reject in H.
  destruct (release_caps cfg_fixed (a_args a) s) as [[s0 o0]| |] eqn:E0; simpl in H; try discriminate.
  destruct (send_exception cfg_fixed id (set_a_args [] a) s0) as [[[s2 o2] b2]| |] eqn:E2; simpl in H; try discriminate.
  inversion H; subst. apply release_caps_inv in E0. destruct E0 as [C Q].
  eapply proc_pre; [exact C|exact Q|]. apply (send_exception_proc _ _ _ _ _ _ E2).
  destruct (core_ans _ _ C) as (_ & _ & S). congruence.
Qed.

Lemma deliver_proc : forall id a t s s1 o ab, deliver cfg_fixed id a t s = Ok (s1, o, ab) -> s_shut s = false ->
  a_ret a = false -> proc id s o s1.
Proof.
  intros id a t s s1 o ab H Hs Hr. unfold deliver in H.
  destruct t; try discriminate; try (eapply reject_proc; eauto; fail).
  destruct (a_mok a); [|eapply reject_proc; eauto].
  inversion H; subst. unfold proc, set_ans, set_ndeliv, zremove_q, set_queue. cbn [s_ans s_queue s_shut].
  split; [left; eexists; split; [reflexivity|right; split; [exact Hr|reflexivity]]|].
  split; [reflexivity|]. split; [exact Hs|]. intros b Hb. reflexivity.
Qed.

Lemma live_shut : forall s, live s -> s_shut s = false.
Proof. intros s [H _]. exact H. Qed.

Lemma pending_of_busy : forall s id a, live s -> aget id (s_ans s) = Some a -> a_st a <> AIdle -> pending id s = 1%nat.
Proof.
  intros s id a L E H. unfold pending. rewrite E.
  destruct (ans_of_live _ L _ _ (aget_in _ _ _ _ E)) as [_ H2]. rewrite (H2 H). reflexivity.
Qed.

Lemma pending_one_some : forall s id, pending id s = 1%nat -> exists a, aget id (s_ans s) = Some a /\ a_ret a = false.
Proof.
  intros s id H. unfold pending in H. destruct (aget id (s_ans s)) as [a|]; [|discriminate].
  exists a. split; [reflexivity|]. destruct (a_ret a); [discriminate|reflexivity].
Qed.

Lemma reject_all_h : forall ids s s1 o ab, reject_all cfg_fixed ids s = Ok (s1, o, ab) -> live s -> J s -> NoDup ids ->
  (forall id, In id ids -> pending id s = 1%nat) ->
  live s1 /\ J s1 /\ rbal d0 s o s1 /\ (forall b, ~ In b ids -> aget b (s_ans s1) = aget b (s_ans s)).
Proof.
  induction ids as [|id ids IH]; intros s s1 o ab H L Jh N Hp; simpl in H.
  - inversion H; subst. split; [exact L|]. split; [exact Jh|]. split; [apply rbal_inert; reflexivity|auto].
  - destruct (pending_one_some _ _ (Hp id (or_introl eq_refl))) as (a & Ea & _). rewrite Ea in H.
    pose proof (reject_ok id a s L) as P.
    destruct (reject cfg_fixed id a s) as [[[s' o'] b']| |] eqn:E; simpl in P; try contradiction. cbn [bind] in H.
    destruct P as [G _]. assert (L' : live s') by apply G.
    pose proof (reject_proc _ _ _ _ _ _ E (live_shut _ L)) as Pr.
    inversion N; subst.
    destruct (reject_all cfg_fixed ids s') as [[[s2 o2] b2]| |] eqn:E2; simpl in H; try discriminate. inversion H; subst.
    assert (Hp' : forall id', In id' ids -> pending id' s' = 1%nat).
    { intros id' Hin. assert (id' <> id) by (intros ->; contradiction).
      unfold pending. rewrite (proc_other _ _ _ _ _ Pr H0). apply (Hp id' (or_intror Hin)). }
    destruct (IH _ _ _ _ E2 L' (proc_J _ _ _ _ Jh Pr) H3 Hp') as (L2 & J2 & B2 & O2).
    split; [exact L2|]. split; [exact J2|]. split.
    + eapply rbal_trans0; [apply (proc_owing _ _ _ _ Pr); apply Hp; left; reflexivity|exact B2].
    + intros b Hb. rewrite O2 by (intros Hin; apply Hb; right; exact Hin).
      apply (proc_other _ _ _ _ _ Pr). intros ->. apply Hb. left. reflexivity.
Qed.

Lemma drain_h : forall r k rct lst ids s s1 o ab, drain cfg_fixed r k rct lst ids s = Ok (s1, o, ab) -> live s -> J s ->
  live s1 /\ J s1 /\ rbal d0 s o s1 /\
  (forall b a, aget b (s_ans s) = Some a -> (forall p x, a_st a <> AQueued p x) -> aget b (s_ans s1) = Some a).
Proof.
  induction ids as [|id ids IH]; intros s s1 o ab H L Jh; simpl in H.
  - inversion H; subst. split; [exact L|]. split; [exact Jh|]. split; [apply rbal_inert; reflexivity|auto].
  - match type of H with (bind ?r _) = _ => destruct r as [[[s' o'] b']| |] eqn:E; cbn [bind] in H; try discriminate end.
    destruct (drain cfg_fixed r k rct lst ids s') as [[[s2 o2] b2]| |] eqn:E2; simpl in H; try discriminate. inversion H; subst.
    assert (STEP : live s' /\ J s' /\ rbal d0 s o' s' /\
              (forall b a, aget b (s_ans s) = Some a -> (forall p x, a_st a <> AQueued p x) -> aget b (s_ans s') = Some a)).
    { destruct (aget id (s_ans s)) as [a|] eqn:Ea; [|inversion E; subst; split; [exact L|]; split; [exact Jh|]; split; [apply rbal_inert; reflexivity|auto]].
      destruct (a_st a) as [|j|p x] eqn:Est; try (inversion E; subst; split; [exact L|]; split; [exact Jh|]; split; [apply rbal_inert; reflexivity|auto]).
      assert (Hpend : pending id s = 1%nat) by (eapply pending_of_busy; eauto; rewrite Est; discriminate).
      destruct (pending_one_some _ _ Hpend) as (a' & Ea' & Hret). rewrite Ea in Ea'. inversion Ea'; subst a'.
      assert (OTHER : forall s'' o'', proc id s o'' s'' ->
                forall b a0, aget b (s_ans s) = Some a0 -> (forall p x, a_st a0 <> AQueued p x) -> aget b (s_ans s'') = Some a0).
      { intros s'' o'' Pr b a0 Eb Hb. assert (b <> id) by (intros ->; rewrite Ea in Eb; inversion Eb; subst; eapply Hb; eauto).
        rewrite (proc_other _ _ _ _ _ Pr H0). exact Eb. }
      assert (VIA : forall s'' o'' (b'' : bool), proc id s o'' s'' -> live s'' ->
                live s'' /\ J s'' /\ rbal d0 s o'' s'' /\
                (forall b a0, aget b (s_ans s) = Some a0 -> (forall p x, a_st a0 <> AQueued p x) -> aget b (s_ans s'') = Some a0)).
      { intros s'' o'' _ Pr L''. split; [exact L''|]. split; [eapply proc_J; eauto|]. split; [eapply proc_owing; eauto|eapply OTHER; eauto]. }
      destruct (eff_parent cfg_fixed r lst p =? r).
      - pose proof (deliver_ok id a (pipeline_tgt k rct x) s L (pipeline_tgt_not_block _ _ _) Hret) as P. rewrite E in P. simpl in P.
        apply (VIA s' o' b'); [eapply deliver_proc; eauto; apply L|apply P].
      - destruct (aget (eff_parent cfg_fixed r lst p) (s_ans s)) as [b|].
        + destruct (a_ready b).
          * destruct (a_err b).
            -- pose proof (reject_ok id a s L) as P. rewrite E in P. simpl in P.
               apply (VIA s' o' b'); [eapply reject_proc; eauto; apply L|apply P].
            -- pose proof (deliver_ok id a (pipeline_tgt (a_content b) (a_rct b) x) s L (pipeline_tgt_not_block _ _ _) Hret) as P. rewrite E in P. simpl in P.
               apply (VIA s' o' b'); [eapply deliver_proc; eauto; apply L|apply P].
          * inversion E; subst. clear E.
            assert (L' : live (set_ans (aput id (set_a_st (AQueued (eff_parent cfg_fixed r lst p) x) a) (s_ans s)) s)).
            { apply live_set_ans; [exact L|]. apply ans_ok_aput; [apply (ans_of_live _ L)|]. apply ans1_busy; simpl; [discriminate|exact Hret]. }
            split; [exact L'|]. destruct Jh as [K Q]. split; [|split].
            -- split; unfold set_ans; cbn [s_ans s_queue]; [apply keys_aput; exact K|eapply queue_ok_requeue; [exact Q|reflexivity]].
            -- intros c. unfold d0. rewrite pending_put. simpl. rewrite Hret.
               destruct (c =? id) eqn:Ec; [assert (c = id) by lia; subst c; rewrite Hpend; reflexivity|]. unfold returns; simpl. lia.
            -- intros c a0 Ec Hc. unfold set_ans. cbn [s_ans]. rewrite aget_aput. destruct (c =? id) eqn:Eci; [|exact Ec].
               assert (c = id) by lia. subst c. rewrite Ea in Ec. inversion Ec; subst. exfalso. eapply Hc; eauto.
        + pose proof (reject_ok id a s L) as P. rewrite E in P. simpl in P.
          apply (VIA s' o' b'); [eapply reject_proc; eauto; apply L|apply P]. }
    destruct STEP as (L' & J' & B' & O').
    destruct (IH _ _ _ _ E2 L' J') as (L2 & J2 & B2 & O2).
    split; [exact L2|]. split; [exact J2|]. split; [eapply rbal_trans0; eauto|].
    intros b a0 Eb Hb. apply O2; [apply O'; assumption|exact Hb].
Qed.

(* ---------------------------------------------------------------- handlers *)
Lemma queue_ok_put_notin : forall id a l q, queue_ok l q -> ~ In id q -> queue_ok (aput id a l) q.
Proof.
  intros id a l q [N H] Hn. split; [exact N|]. intros b Hb. destruct (H b Hb) as (a0 & p & x & E & S).
  exists a0, p, x. rewrite aget_aput. destruct (b =? id) eqn:Eb; [exfalso; apply Hn; replace id with b by lia; exact Hb|]. split; assumption.
Qed.

Lemma not_queued_notin : forall s id, J s -> (forall a p x, aget id (s_ans s) = Some a -> a_st a <> AQueued p x) -> ~ In id (s_queue s).
Proof.
  intros s id [_ [_ H]] Hn Hin. destruct (H id Hin) as (a & p & x & E & S). eapply Hn; eauto.
Qed.

Lemma find_running_aget : forall k l id a, keys_ok l -> find_running k l = Some (id, a) -> aget id l = Some a.
Proof.
  intros k l id a K H. apply find_running_some in H. destruct H as [_ Hin].
  induction l as [|[k0 v0] l IH]; [destruct Hin|]. unfold keys_ok in K. simpl in K. inversion K; subst. simpl.
  destruct Hin as [E|Hin].
  - inversion E; subst. rewrite Z.eqb_refl. reflexivity.
  - destruct (k0 =? id) eqn:E; [|apply IH; assumption].
    exfalso. apply H1. replace k0 with id by lia. apply (in_map fst) in Hin. exact Hin.
Qed.

Lemma queued_under_nodup : forall ans q under, NoDup q -> NoDup (queued_under ans q under).
Proof.
  intros ans q. induction q as [|id q IH]; intros under N; simpl; [constructor|]. inversion N; subst.
  assert (SUB : forall under' x, In x (queued_under ans q under') -> In x q).
  { clear. induction q as [|y q IH]; intros under' x H; simpl in *; [destruct H|].
    destruct (aget y ans) as [a|]; [|right; eapply IH; eauto].
    destruct (a_st a); try (right; eapply IH; eauto; fail).
    destruct (zmem on under'); [destruct H as [H|H]; [left; exact H|right; eapply IH; eauto]|right; eapply IH; eauto]. }
  destruct (aget id ans) as [a|]; [|apply IH; assumption].
  destruct (a_st a); try (apply IH; assumption).
  destruct (zmem on under); [|apply IH; assumption].
  constructor; [intros Hin; apply H1; eapply SUB; eauto|apply IH; assumption].
Qed.

Lemma queued_under_queued : forall ans q under x, In x (queued_under ans q under) ->
  exists a p y, aget x ans = Some a /\ a_st a = AQueued p y.
Proof.
  intros ans q. induction q as [|id q IH]; intros under x H; simpl in H; [destruct H|].
  destruct (aget id ans) as [a|] eqn:E; [|eapply IH; eauto].
  destruct (a_st a) eqn:S; try (eapply IH; eauto; fail).
  destruct (zmem on under); [|eapply IH; eauto].
  destruct H as [<-|H]; [eauto 6|eapply IH; eauto].
Qed.

Lemma app_return_h : forall k r s s0 o0 ab, app_return cfg_fixed k r s = Ok (s0, o0, ab) -> live s -> J s ->
  pot s + ev_work (AReturn k r) < LIM -> J s0 /\ rbal d0 s o0 s0.
Proof.
  intros k r s s0 o0 ab H L Jh Hb. unfold app_return in H.
  destruct (find_running k (s_ans s)) as [[id a]|] eqn:Ef.
  2:{ destruct (aget k (s_lcalls s)); inversion H; subst; (split; [exact Jh|apply rbal_inert; reflexivity]). }
  pose proof (find_running_aget _ _ _ _ (proj1 Jh) Ef) as Ea.
  destruct (find_running_some _ _ _ _ Ef) as [[j Hj] _].
  destruct (release_caps cfg_fixed (a_args a) s) as [[s1 o1]| |] eqn:E1; cbn [bind] in H; try discriminate.
  apply release_caps_inv in E1. destruct E1 as [C1 Q1]. destruct (core_ans _ _ C1) as (A1 & Qu1 & S1).
  assert (L1 : live s1) by (eapply live_core; eauto).
  set (a1 := set_a_args [] a) in *.
  set (s1' := set_ans (aput id a1 (s_ans s1)) s1) in *.
  assert (Hpend : pending id s = 1%nat) by (eapply pending_of_busy; eauto; rewrite Hj; discriminate).
  destruct (pending_one_some _ _ Hpend) as (a' & Ea' & Hret). rewrite Ea in Ea'. inversion Ea'; subst a'.
  assert (Hnq : ~ In id (s_queue s)).
  { apply not_queued_notin; [exact Jh|]. intros a2 p x E2 S2. rewrite Ea in E2. inversion E2; subst. rewrite Hj in S2. discriminate. }
  assert (L1' : live s1').
  { apply live_set_ans; [exact L1|]. apply ans_ok_aput; [apply (ans_of_live _ L1)|].
    exact (ans_of_live _ L _ _ (aget_in _ _ _ _ Ea)). }
  assert (J1' : J s1').
  { destruct Jh as [K Q]. split; unfold s1', set_ans; cbn [s_ans s_queue]; rewrite A1, ?Qu1.
    - apply keys_aput; exact K.
    - apply queue_ok_put_notin; assumption. }
  assert (B1 : rbal d0 s o1 s1').
  { intros c. rewrite (quiet_returns _ _ Q1). unfold d0, s1'. rewrite pending_put. unfold a1. simpl. rewrite Hret.
    destruct (c =? id) eqn:Ec; [assert (c = id) by lia; subst c; rewrite Hpend; reflexivity|].
    unfold pending. rewrite A1. lia. }
  assert (Ea1 : aget id (s_ans s1') = Some a1) by (unfold s1', set_ans; cbn [s_ans]; rewrite aget_aput, Z.eqb_refl; reflexivity).
  assert (Hst1 : forall p x, a_st a1 <> AQueued p x) by (intros p x; unfold a1; simpl; rewrite Hj; discriminate).
  pose proof (pot_allocs s) as Hpa.
  assert (FINISH : forall s2 o2 (b2 : bool) send, live s2 -> J s2 -> rbal d0 s1' o2 s2 -> aget id (s_ans s2) = Some a1 ->
            (forall s3 o3 b3, send s2 = Ok (s3, o3, b3) -> proc id s2 o3 s3) ->
            (do '(s3, o3, b3) <- send s2; Ok (s3, o1 ++ o2 ++ o3, b2 || b3)) = Ok (s0, o0, ab) ->
            J s0 /\ rbal d0 s o0 s0).
  { intros s2 o2 b2 send L2 J2 B2 E2 PR HH.
    destruct (send s2) as [[[s3 o3] b3]| |] eqn:E3; simpl in HH; try discriminate. inversion HH; subst.
    specialize (PR _ _ _ eq_refl). split; [eapply proc_J; eauto|].
    eapply rbal_trans0; [exact B1|]. eapply rbal_trans0; [exact B2|].
    apply (proc_owing _ _ _ _ PR). unfold pending. rewrite E2. unfold a1. simpl. rewrite Hret. reflexivity. }
  destruct r as [fs| |].
  - pose proof (results_of_length fs) as Hlen. destruct (results_of fs) as [kc rct]. simpl snd in Hlen.
    set (s2 := addrefs_local rct s1') in *.
    pose proof (core_addrefs_local rct s1') as C2. fold s2 in C2. destruct (core_ans _ _ C2) as (A2 & Qu2 & S2).
    assert (L2 : live s2) by (eapply live_core; eauto).
    assert (J2 : J s2) by (eapply J_inert; eauto).
    match type of H with (bind ?x _) = _ => destruct x as [[[s3 o3] b3]| |] eqn:E3; cbn [bind] in H; try discriminate end.
    destruct (drain_h _ _ _ _ _ _ _ _ _ E3 L2 J2) as (L3 & J3 & B3 & O3).
    eapply (FINISH s3 o3 b3 (fun sx => send_return cfg_fixed id a1 kc rct sx)); eauto.
    + intros c. specialize (B3 c). unfold pending in *. rewrite A2 in B3. exact B3.
    + apply O3; [rewrite A2; exact Ea1|exact Hst1].
    + intros s4 o4 b4 E4. eapply send_return_proc; eauto.
      pose proof (drain_ok id kc rct (queued_under (s_ans s2) (s_queue s2) [id]) (queued_under (s_ans s2) (s_queue s2) [id]) s2 L2) as P.
      rewrite E3 in P. simpl in P. destruct P as [[_ [Al _]] _].
      rewrite (allocs_core _ _ C2) in Al. simpl in Al. rewrite (allocs_core _ _ C1) in Al. simpl ev_work in Hb. lia.
  - match type of H with (bind ?x _) = _ => destruct x as [[[s3 o3] b3]| |] eqn:E3; cbn [bind] in H; try discriminate end.
    destruct (drain_h _ _ _ _ _ _ _ _ _ E3 L1' J1') as (L3 & J3 & B3 & O3).
    eapply (FINISH s3 o3 b3 (fun sx => send_return cfg_fixed id a1 KNull [] sx)); eauto.
    intros s4 o4 b4 E4. eapply send_return_proc; eauto.
    pose proof (drain_ok id KNull [] (queued_under (s_ans s1') (s_queue s1') [id]) (queued_under (s_ans s1') (s_queue s1') [id]) s1' L1') as P.
    rewrite E3 in P. simpl in P. destruct P as [[_ [Al _]] _]. simpl in Al. rewrite (allocs_core _ _ C1) in Al. simpl. simpl ev_work in Hb. lia.
  - match type of H with (bind ?x _) = _ => destruct x as [[[s3 o3] b3]| |] eqn:E3; cbn [bind] in H; try discriminate end.
    assert (N : NoDup (queued_under (s_ans s1') (s_queue s1') [id])) by (apply queued_under_nodup; apply J1').
    assert (Hq : forall c, In c (queued_under (s_ans s1') (s_queue s1') [id]) -> pending c s1' = 1%nat).
    { intros c Hc. destruct (queued_under_queued _ _ _ _ Hc) as (ac & p & y & Ec & Sc).
      eapply pending_of_busy; eauto. rewrite Sc. discriminate. }
    destruct (reject_all_h _ _ _ _ _ E3 L1' J1' N Hq) as (L3 & J3 & B3 & O3).
    eapply (FINISH s3 o3 b3 (fun sx => send_exception cfg_fixed id a1 sx)); eauto.
    + rewrite O3; [exact Ea1|]. intros Hin. destruct (queued_under_queued _ _ _ _ Hin) as (ac & p & y & Ec & Sc).
      rewrite Ea1 in Ec. inversion Ec; subst. eapply Hst1; eauto.
    + intros s4 o4 b4 E4. eapply send_exception_proc; eauto. apply L3.
Qed.

Definition creates (s : state) (e : event) : option Z :=
  match e with
  | MBootstrap q => match aget q (s_ans s) with None => Some q | Some _ => None end
  | MCall q _ _ true _ _ => match aget q (s_ans s) with None => Some q | Some _ => None end
  | _ => None
  end.
Definition dcr (s : state) (e : event) : Z -> nat := match creates s e with Some q => d1 q | None => d0 end.

Lemma fresh_notin : forall s id, J s -> aget id (s_ans s) = None -> ~ In id (s_queue s).
Proof. intros s id Jh E. apply not_queued_notin; [exact Jh|]. intros a p x E2. rewrite E in E2. discriminate. Qed.

Lemma NoDup_app_intro_single : forall (l : list Z) x, NoDup l -> ~ In x l -> NoDup (l ++ [x]).
Proof.
  induction l as [|y l IH]; intros x N Hn; simpl; [constructor; [intros []|constructor]|].
  inversion N; subst. constructor.
  - intros Hin. apply in_app_or in Hin. destruct Hin as [Hin|[<-|[]]]; [contradiction|apply Hn; left; reflexivity].
  - apply IH; [assumption|intros Hin; apply Hn; right; exact Hin].
Qed.

Lemma handle_bootstrap_h : forall id s s0 o0 ab, handle_bootstrap cfg_fixed id s = Ok (s0, o0, ab) -> live s -> J s ->
  pot s + 1 < LIM -> J s0 /\ rbal (dcr s (MBootstrap id)) s o0 s0.
Proof.
  intros id s s0 o0 ab H L Jh Hb. unfold handle_bootstrap in H. unfold dcr, creates.
  destruct (aget id (s_ans s)) eqn:E; [inversion H; subst; split; [exact Jh|apply rbal_inert; reflexivity]|].
  pose proof (pot_allocs s) as Hpa.
  destruct (negb (s_boot s)).
  - pose proof (send_exception_proc _ _ _ _ _ _ H (live_shut _ L)) as P.
    split; [eapply proc_J; eauto|apply proc_fresh; assumption].
  - assert (L1 : live (lref 1 0 s)) by (eapply live_core; eauto).
    destruct (send_return cfg_fixed id (new_answer [] true 0) (KCap 0) [Some 0] (lref 1 0 s)) as [[[s1 o] err]| |] eqn:E1; cbn [bind] in H; try discriminate.
    pose proof (send_return_proc _ _ _ _ _ _ _ _ E1 L1 ltac:(simpl; lia)) as P.
    destruct err; [discriminate|]. inversion H; subst.
    assert (P' : proc id s o0 s0).
    { destruct P as (Sh & Q & S & R). split; [exact Sh|]. split; [exact Q|]. split; assumption. }
    split; [eapply proc_J; eauto|apply proc_fresh; assumption].
Qed.

Lemma handle_finish_h : forall id rrc s s0 o0 ab, handle_finish cfg_fixed id rrc s = Ok (s0, o0, ab) -> live s -> J s ->
  J s0 /\ rbal d0 s o0 s0.
Proof.
  intros id rrc s s0 o0 ab H L Jh. unfold handle_finish in H.
  destruct (aget id (s_ans s)) as [a|] eqn:Ea; [|inversion H; subst; split; [exact Jh|apply rbal_inert; reflexivity]].
  destruct (a_fin a); [inversion H; subst; split; [exact Jh|apply rbal_inert; reflexivity]|].
  destruct (a_ret a) eqn:Er; simpl in H.
  - (* returned: destroyed *)
    apply destroy_shape in H. destruct H as (A & Q & S & Qo).
    assert (Hnq : ~ In id (s_queue s)).
    { apply not_queued_notin; [exact Jh|]. intros a2 p x E2 S2. rewrite Ea in E2. inversion E2; subst.
      destruct (ans_of_live _ L _ _ (aget_in _ _ _ _ Ea)) as [_ H2]. rewrite H2 in Er; [discriminate|rewrite S2; discriminate]. }
    split.
    + destruct Jh as [K Qk]. unfold J. rewrite A, Q. split; [apply keys_adel; exact K|].
      rewrite <- (zremove_notin id (s_queue s) Hnq). apply queue_ok_del. exact Qk.
    + intros c. rewrite (quiet_returns _ _ Qo). unfold pending, d0. rewrite A, aget_adel.
      destruct (c =? id) eqn:Ec; [assert (c = id) by lia; subst c; rewrite Ea, Er; reflexivity|lia].
  - inversion H; subst. split.
    + destruct Jh as [K Qk]. split; unfold set_ans; cbn [s_ans s_queue]; [apply keys_aput; exact K|].
      destruct (in_dec Z.eq_dec id (s_queue s)) as [Hin|Hn]; [|apply queue_ok_put_notin; assumption].
      destruct Qk as [N Hq]. destruct (Hq id Hin) as (a0 & p & x & E0 & S0). rewrite Ea in E0. inversion E0; subst a0.
      eapply queue_ok_requeue; [split; assumption|simpl; exact S0].
    + intros c. unfold d0. rewrite pending_put. simpl. rewrite Er.
      destruct (c =? id) eqn:Ec; [assert (c = id) by lia; subst c; unfold pending; rewrite Ea, Er; reflexivity|unfold returns; simpl; lia].
Qed.

Lemma handle_call_h : forall id tg params toCaller mok tag s s0 o0 ab,
  handle_call cfg_fixed id tg params toCaller mok tag s = Ok (s0, o0, ab) -> live s -> J s ->
  J s0 /\ rbal (dcr s (MCall id tg params toCaller mok tag)) s o0 s0.
Proof.
  intros id tg params toCaller mok tag s s0 o0 ab H L Jh. unfold handle_call in H. unfold dcr, creates.
  destruct toCaller; simpl negb in H; cbv iota in H.
  2:{ inversion H; subst. split; [exact Jh|apply rbal_same; [reflexivity|intros c; reflexivity]]. }
  destruct (aget id (s_ans s)) eqn:Eid; [inversion H; subst; split; [exact Jh|apply rbal_inert; reflexivity]|].
  match type of H with (bind ?r _) = _ => destruct r as [[[s1 parsed] tor]| |] eqn:EP; cbn [bind] in H; try discriminate end.
  assert (C : core_of s1 = core_of s).
  { destruct params as [p|]; [|inversion EP; reflexivity].
    pose proof (recv_payload_core cfg_fixed p s) as C.
    destruct (recv_payload cfg_fixed p s) as [sa k tab loc|sa part].
    - destruct (parse_target tg); inversion EP; subst; exact C.
    - rewrite payload_err_fixed in EP. simpl in EP. inversion EP; subst. exact C. }
  destruct (core_ans _ _ C) as (A1 & Q1 & S1).
  assert (L1 : live s1) by (eapply live_core; eauto).
  assert (J1 : J s1) by (eapply J_inert; eauto).
  assert (Eid1 : aget id (s_ans s1) = None) by (rewrite A1; exact Eid).
  assert (Hs1 : s_shut s1 = false) by apply L1.
  (* everything below starts from s1, which has the tables of s *)
  assert (LIFT : forall o, J s0 /\ rbal (d1 id) s1 o s0 -> J s0 /\ rbal (d1 id) s o s0).
  { intros o [Ja B]. split; [exact Ja|]. intros c. specialize (B c). unfold pending in *. rewrite A1 in B. exact B. }
  assert (FRESH : forall o, proc id s1 o s0 -> J s0 /\ rbal (d1 id) s o s0).
  { intros o P. apply LIFT. split; [eapply proc_J; eauto|apply proc_fresh; assumption]. }
  assert (Hnq : ~ In id (s_queue s1)) by (apply fresh_notin; assumption).
  destruct parsed as [[pt tab]|].
  2:{ cbn [fx15 cfg_fixed negb] in H.
      destruct (send_exception cfg_fixed id (new_answer [] mok tag) s1) as [[[s2 o2] b2]| |] eqn:E2; cbn [bind] in H; try discriminate.
      destruct (release_caps cfg_fixed tor s2) as [[s3 o3]| |] eqn:E3; cbn [bind] in H; try discriminate. inversion H; subst.
      apply release_caps_inv in E3. destruct E3 as [C3 Q3].
      apply FRESH. eapply proc_post; [eapply send_exception_proc; eauto|exact C3|exact Q3]. }
  assert (UNK : forall o2, (do '(s2, o2) <- release_caps cfg_fixed tab (set_ans (aput id placeholder (s_ans s1)) s1); Ok (s2, o2, true)) = Ok (s0, o2, ab) ->
            J s0 /\ rbal (d1 id) s o2 s0).
  { intros o2 HU. destruct (release_caps cfg_fixed tab (set_ans (aput id placeholder (s_ans s1)) s1)) as [[s2 o2']| |] eqn:E2; cbn [bind] in HU; try discriminate.
    inversion HU; subst. apply release_caps_inv in E2. destruct E2 as [C2 Q2]. destruct (core_ans _ _ C2) as (A2 & Qu2 & _).
    apply LIFT. split.
    - eapply J_inert; [|exact A2|exact Qu2]. destruct J1 as [K Q]. split; unfold set_ans; cbn [s_ans s_queue]; [apply keys_aput; exact K|apply queue_ok_put_notin; assumption].
    - intros c. rewrite (quiet_returns _ _ Q2). unfold pending at 1. rewrite A2. unfold set_ans. cbn [s_ans]. rewrite aget_aput.
      unfold d1, pending. destruct (c =? id) eqn:Ec; [assert (c = id) by lia; subst c; rewrite Eid1; reflexivity|lia]. }
  destruct pt as [e|t x].
  - destruct (tget e (s_exp s1)) as [[xc w]|] eqn:Ee; [|apply UNK; exact H].
    apply FRESH. eapply deliver_proc; eauto.
  - cbn [fx24 cfg_fixed negb andb] in H. rewrite andb_false_r in H. destruct (t =? id) eqn:Et; [apply UNK; exact H|].
    destruct (aget t (s_ans s1)) as [ta|] eqn:Eta; [|apply UNK; exact H].
    destruct (a_fin ta); [apply UNK; exact H|].
    destruct (a_ready ta) eqn:Er.
    + destruct (a_err ta); apply FRESH; [eapply reject_proc; eauto|eapply deliver_proc; eauto].
    + assert (QUEUE : Ok (set_queue (s_queue s1 ++ [id]) (set_ans (aput id (set_a_st (AQueued t x) (new_answer tab mok tag)) (s_ans s1)) s1), @nil output, false) = Ok (s0, o0, ab) ->
                J s0 /\ rbal (d1 id) s o0 s0).
      { intros HQ. inversion HQ; subst. apply LIFT. split.
        - destruct J1 as [K [N Hq]]. split; unfold set_queue, set_ans; cbn [s_ans s_queue]; [apply keys_aput; exact K|]. split.
          + apply NoDup_app_intro_single; assumption.
          + intros b Hb. rewrite aget_aput. apply in_app_or in Hb. destruct Hb as [Hb|[<-|[]]].
            * destruct (b =? id) eqn:Eb; [exfalso; apply Hnq; replace id with b by lia; exact Hb|apply Hq; exact Hb].
            * rewrite Z.eqb_refl. eexists _, _, _. split; reflexivity.
        - intros c. unfold set_queue. unfold pending at 1. unfold set_ans. cbn [s_ans]. rewrite aget_aput.
          unfold d1, pending, returns. simpl. destruct (c =? id) eqn:Ec; [assert (c = id) by lia; subst c; rewrite Eid1; reflexivity|lia]. }
      destruct (a_st ta); [discriminate| |]; apply (QUEUE H).
Qed.

(* ---------------------------------------------------------------- handlers that neither touch answers nor send Returns *)
Definition noret (o : list output) : Prop := forall id, returns id o = 0%nat.
Definition inert (s : state) (o : list output) (s0 : state) : Prop :=
  s_ans s0 = s_ans s /\ s_queue s0 = s_queue s /\ noret o.

Lemma noret_app : forall a b, noret a -> noret b -> noret (a ++ b).
Proof. intros a b Ha Hb id. rewrite returns_app, Ha, Hb. reflexivity. Qed.
Lemma noret_quiet : forall o, quiet o -> noret o.
Proof. intros o Q id. apply quiet_returns. exact Q. Qed.
Lemma noret_nil : noret [].
Proof. intros id. reflexivity. Qed.
Lemma noret_cons : forall x o, (forall id, is_return id x = false) -> noret o -> noret (x :: o).
Proof. intros x o Hx Ho id. unfold returns in *. simpl. rewrite Hx. apply Ho. Qed.

Lemma inert_core : forall s s0 o, core_of s0 = core_of s -> noret o -> inert s o s0.
Proof. intros s s0 o C N. destruct (core_ans _ _ C) as (A & Q & _). split; [exact A|]. split; [exact Q|exact N]. Qed.

Lemma inert_frame : forall s s0 o, frame_x s s0 -> noret o -> inert s o s0.
Proof. intros s s0 o (_ & _ & A & Q & _) N. split; [exact A|]. split; [exact Q|exact N]. Qed.

Lemma inert_trans : forall s o1 s1 o2 s2, inert s o1 s1 -> inert s1 o2 s2 -> inert s (o1 ++ o2) s2.
Proof. intros s o1 s1 o2 s2 (A1 & Q1 & N1) (A2 & Q2 & N2). split; [congruence|]. split; [congruence|apply noret_app; assumption]. Qed.

Lemma inert_result : forall s o s0, J s -> inert s o s0 -> J s0 /\ rbal d0 s o s0.
Proof. intros s o s0 Jh (A & Q & N). split; [eapply J_inert; eauto|apply rbal_same; assumption]. Qed.

Lemma embargo_caps_inert : forall qid k called loc done tab s s1 tab1 o,
  embargo_caps cfg_fixed qid k called loc done tab s = Ok (s1, tab1, o) -> inert s o s1.
Proof.
  induction called as [|x called IH]; intros loc done tab s s1 tab1 o H; simpl in H.
  - inversion H; subst. split; [reflexivity|]. split; [reflexivity|apply noret_nil].
  - destruct (transform_eval k x); try (eapply IH; eauto; fail).
    destruct (znth k0 tab) as [lc|]; [|eapply IH; eauto].
    destruct (znth k0 loc) as [[|]|]; try (eapply IH; eauto; fail).
    destruct (zmem k0 done); [eapply IH; eauto|].
    destruct (gen_next (s_mgen s)) as [[e g]| |]; cbn [bind] in H; try discriminate.
    destruct (tput e (mkEmb lc 1) (s_emb s)) as [t| |]; cbn [bind] in H; try discriminate.
    match type of H with (bind ?r _) = _ => destruct r as [[[s2 tab2] o2]| |] eqn:E2; cbn [bind] in H; try discriminate end.
    inversion H; subst. apply IH in E2. destruct E2 as (A & Q & N).
    split; [exact A|]. split; [exact Q|]. apply noret_cons; [reflexivity|exact N].
Qed.

Lemma handle_return_inert : forall qid rpc k s s0 o0 ab, handle_return cfg_fixed qid rpc k s = Ok (s0, o0, ab) -> inert s o0 s0.
Proof.
  intros qid rpc k s s0 o0 ab H. unfold handle_return in H.
  destruct (tget qid (s_qs s)) as [q|]; [|inversion H; subst; split; [reflexivity|split; [reflexivity|apply noret_nil]]].
  set (sa := set_qs (tclear qid (s_qs s)) s) in *.
  assert (I1 : exists s1 pc, (if fx19 cfg_fixed && rpc then let '(s1, cl, _) := release_exports (q_prefs q) sa in (s1, cl) else (sa, [])) = (s1, pc) /\ inert s [] s1).
  { destruct (fx19 cfg_fixed && rpc).
    - pose proof (release_exports_frame (q_prefs q) sa) as F. destruct (release_exports (q_prefs q) sa) as [[s1 cl] e]. simpl in F.
      exists s1, cl. split; [reflexivity|]. destruct F as (_ & _ & A & Q & _). split; [exact A|]. split; [exact Q|apply noret_nil].
    - exists sa, []. split; [reflexivity|]. split; [reflexivity|]. split; [reflexivity|apply noret_nil]. }
  destruct I1 as (s1 & pc & E1 & I1). rewrite E1 in H. clear E1.
  destruct (q_fin q).
  { destruct (release_caps cfg_fixed pc _) as [[s2 o2]| |] eqn:E2; cbn [bind] in H; try discriminate. inversion H; subst.
    apply release_caps_inv in E2. destruct E2 as [C2 Q2].
    destruct (core_ans _ _ C2) as (A2 & Qu2 & _). destruct I1 as (A1 & Q1 & _). simpl in A2, Qu2.
    split; [congruence|]. split; [congruence|apply noret_quiet; exact Q2]. }
  match type of H with (bind ?r _) = _ => destruct r as [[[[s2 parsed] tor] disemb]| |] eqn:EP; cbn [bind] in H; try discriminate end.
  assert (I2 : inert s1 disemb s2).
  { destruct k as [[p|]| |]; try (inversion EP; subst; split; [reflexivity|split; [reflexivity|apply noret_nil]]).
    pose proof (recv_payload_core cfg_fixed p s1) as C.
    destruct (recv_payload cfg_fixed p s1) as [sb kc tab loc|sb part].
    - destruct (embargo_caps cfg_fixed qid kc (q_called q) loc [] tab sb) as [[[s3 tab3] o3]| |] eqn:E3; cbn [bind] in EP; try discriminate.
      inversion EP; subst. apply embargo_caps_inert in E3. destruct (core_ans _ _ C) as (A & Q & _).
      destruct E3 as (A3 & Q3 & N3). split; [congruence|]. split; [congruence|exact N3].
    - rewrite payload_err_fixed in EP. simpl in EP. inversion EP; subst. apply inert_core; [exact C|apply noret_nil]. }
  match type of H with (bind ?r _) = _ => destruct r as [[s3 o3]| |] eqn:E3; cbn [bind] in H; try discriminate end.
  assert (I3 : inert s2 o3 s3).
  { destruct (q_boot q) as [h|]; destruct parsed as [[kc tab]|]; cbn [fx17 cfg_fixed negb andb] in E3;
      match type of E3 with (bind ?r _) = _ => destruct r as [[s4 o4]| |] eqn:E4; cbn [bind] in E3; try discriminate end;
      inversion E3; subst; apply release_caps_inv in E4; destruct E4 as [C4 Q4].
    - apply inert_core; [rewrite C4; apply core_addref|apply noret_quiet; exact Q4].
    - apply inert_core; [rewrite C4; reflexivity|apply noret_quiet; exact Q4].
    - apply inert_core; [exact C4|apply noret_cons; [reflexivity|apply noret_quiet; exact Q4]].
    - apply inert_core; [exact C4|apply noret_cons; [reflexivity|apply noret_quiet; exact Q4]]. }
  destruct (release_caps cfg_fixed pc s3) as [[s5 o5]| |] eqn:E5; cbn [bind] in H; try discriminate. inversion H; subst.
  apply release_caps_inv in E5. destruct E5 as [C5 Q5].
  assert (I5 : inert s3 o5 s5) by (apply inert_core; [exact C5|apply noret_quiet; exact Q5]).
  destruct I1 as (A1 & Q1 & _). destruct I2 as (A2 & Q2 & N2). destruct I3 as (A3 & Q3 & N3). destruct I5 as (A5 & Q5' & N5).
  split; [simpl; congruence|]. split; [simpl; congruence|].
  apply noret_app; [exact N2|]. apply noret_cons; [reflexivity|]. apply noret_app; assumption.
Qed.

Lemma inert_refl : forall s, inert s [] s.
Proof. intros. split; [reflexivity|]. split; [reflexivity|apply noret_nil]. Qed.

Ltac nr := repeat (first [apply noret_nil | apply noret_cons; [reflexivity|]]).
Ltac it := first [ apply inert_refl | apply inert_core; [reflexivity|nr] | (split; [reflexivity|split; [reflexivity|nr]]) ].

Lemma handle_release_inert : forall id n s s0 o0 ab, handle_release cfg_fixed id n s = Ok (s0, o0, ab) -> inert s o0 s0.
Proof.
  intros id n s s0 o0 ab H. unfold handle_release in H.
  pose proof (release_export_frame id n s) as F. destruct (release_export id n s) as [[s1 oc] err]. simpl in F.
  destruct err; [inversion H; subst; it|].
  destruct oc as [x|]; [|inversion H; subst; apply inert_frame; [exact F|apply noret_nil]].
  destruct (release_cap cfg_fixed x s1) as [[s2 o]| |] eqn:E; cbn [bind] in H; try discriminate. inversion H; subst.
  apply release_cap_inv in E. destruct E as [C Q].
  change o0 with ([] ++ o0). eapply inert_trans; [apply inert_frame; [exact F|apply noret_nil]|apply inert_core; [exact C|apply noret_quiet; exact Q]].
Qed.

Lemma handle_disembargo_inert : forall tg cx s s0 o0 ab, handle_disembargo cfg_fixed tg cx s = Ok (s0, o0, ab) -> inert s o0 s0.
Proof.
  intros tg cx s s0 o0 ab H. unfold handle_disembargo in H.
  destruct (parse_target tg); [|inversion H; subst; it].
  destruct cx as [i|e|]; [inversion H; subst; it| |].
  - destruct (tget e (s_emb s)) as [em|]; [|inversion H; subst; it].
    match type of H with context [lift cfg_fixed e em ?sx] => destruct (lift_fixed e em sx) as (s1 & o1 & H1 & C1 & _); pose proof (quiet_lift _ _ _ _ _ H1) as Q1; rewrite H1 in H end.
    cbn [bind] in H. inversion H; subst. destruct (core_ans _ _ C1) as (A & Q & _). simpl in A, Q.
    split; [exact A|split; [exact Q|apply noret_quiet; exact Q1]].
  - inversion H; subst. split; [reflexivity|]. split; [reflexivity|]. apply noret_cons; [reflexivity|apply noret_nil].
Qed.

Lemma new_question_inert : forall q s s1 id, new_question q s = Ok (s1, id) -> s_ans s1 = s_ans s /\ s_queue s1 = s_queue s.
Proof.
  intros q s s1 id H. unfold new_question in H.
  destruct (gen_next (s_qgen s)) as [[i g]| |]; cbn [bind] in H; try discriminate.
  destruct (tput i q (s_qs s)) as [t| |]; cbn [bind] in H; try discriminate. inversion H; subst. split; reflexivity.
Qed.

Lemma app_bootstrap_inert : forall s s0 o0 ab, app_bootstrap cfg_fixed s = Ok (s0, o0, ab) -> inert s o0 s0.
Proof.
  intros s s0 o0 ab H. unfold app_bootstrap in H. destruct (s_shut s); [inversion H; subst; it|].
  destruct (new_question _ s) as [[s1 id]| |] eqn:E; cbn [bind] in H; try discriminate. inversion H; subst.
  apply new_question_inert in E. destruct E as [A Q]. split; [exact A|]. split; [exact Q|]. apply noret_cons; [reflexivity|apply noret_nil].
Qed.

(* the tail shared by the two kinds of local calls *)
Lemma send_call_inert : forall s s1 n caps (mk : Z -> list desc -> output) s0 o0 ab, live s1 -> s_handles s1 = s_handles s ->
  forallb (acap_ok s) caps = true -> s_allocs s1 + 1 + Z.of_nat (length caps) < LIM -> (forall id ds c, is_return c (mk id ds) = false) ->
  (do '(s2, id) <- new_question (mkQ None n false [] [] None) s1;
   do '(s3, ds, refs) <- fill_caps cfg_fixed (map (acap_cap s2) caps) s2;
   let s4 := if fx19 cfg_fixed then set_qs (replace_nth (Z.to_nat id) (Some (mkQ None n false [] refs None)) (s_qs s3)) s3 else s3 in
   Ok (s4, [mk id ds], false)) = Ok (s0, o0, ab) -> inert s1 o0 s0.
Proof.
  intros s s1 n caps mk s0 o0 ab L1 Hh Henv Hb Hmk H.
  pose proof (new_question_ok (mkQ None n false [] [] None) s1 L1 ltac:(lia) eq_refl) as P.
  destruct (new_question (mkQ None n false [] [] None) s1) as [[s2 id]| |] eqn:E; simpl in P; try contradiction. cbn [bind] in H.
  destruct P as (L2 & P2 & C2 & H2 & _).
  assert (A2 : s_allocs s2 = s_allocs s1 + 1) by (change (s_allocs s2) with (k_allocs (core_of s2)); rewrite C2; reflexivity).
  apply new_question_inert in E. destruct E as [Aq Qq].
  destruct (fill_caps cfg_fixed (map (acap_cap s2) caps) s2) as [[[s3 ds] refs]| |] eqn:E3; cbn [bind] in H; try discriminate.
  pose proof (fill_caps_ok (map (acap_cap s2) caps) s2 L2) as P3. rewrite E3 in P3. simpl in P3.
  destruct P3 as [_ (_ & _ & A3 & Q3 & _)]; [apply caps_not_emb with (s := s); [congruence|exact Henv]|rewrite map_length; lia|].
  cbn [fx19 cfg_fixed] in H. inversion H; subst. split; [simpl; congruence|]. split; [simpl; congruence|].
  apply noret_cons; [intros c; apply Hmk|apply noret_nil].
Qed.

Lemma app_pipe_inert : forall q0 x caps s s0 o0 ab, app_pipe cfg_fixed q0 x caps s = Ok (s0, o0, ab) -> live s ->
  pot s + 2 + Z.of_nat (length caps) < LIM -> forallb (acap_ok s) caps = true -> inert s o0 s0.
Proof.
  intros q0 x caps s s0 o0 ab H L Hb Henv. unfold app_pipe, next_call in H.
  set (sa := set_ncall (s_ncall s + 1) s) in *.
  assert (LA : forall c, inert s [LAppRes (s_ncall s) c] sa).
  { intros c. split; [reflexivity|]. split; [reflexivity|]. apply noret_cons; [reflexivity|apply noret_nil]. }
  destruct (s_shut sa); [inversion H; subst; apply LA|].
  destruct (tget q0 (s_qs sa)) as [q|] eqn:Eq; [|inversion H; subst; apply LA].
  destruct (q_fin q); [inversion H; subst; apply LA|].
  apply tget_some in Eq. destruct Eq as [Hr Hn].
  set (s1 := set_qs (replace_nth (Z.to_nat q0) (Some (mark_called x q)) (s_qs sa)) sa) in *.
  assert (La : live sa) by (eapply live_core; [exact L|reflexivity]).
  assert (L1 : live s1) by (apply live_set_qs; [exact La|apply replace_nth_length|eapply slots_free_replace; [apply qs_slots; exact La|exact Hn]]).
  assert (P1 : pot s1 <= pot s + 1).
  { unfold pot, s1; simpl. rewrite (called_total_replace_some _ _ _ _ Hn). pose proof (mark_called_length x q). change (s_qs sa) with (s_qs s). lia. }
  pose proof (pot_allocs s1).
  assert (HI : inert s1 o0 s0).
  { eapply (send_call_inert s s1 (s_ncall s) caps (fun id ds => OCall id (OTAns q0 x) ds)); [exact L1|reflexivity|exact Henv|lia|reflexivity|exact H]. }
  exact HI.
Qed.

Lemma app_call_inert : forall h caps tag s s0 o0 ab, app_call cfg_fixed h caps tag s = Ok (s0, o0, ab) -> live s ->
  pot s + 2 + Z.of_nat (length caps) < LIM -> forallb (acap_ok s) caps = true -> inert s o0 s0.
Proof.
  intros h caps tag s s0 o0 ab H L Hb Henv. unfold app_call in H.
  assert (SIMPLE : forall sx o, core_of sx = core_of s -> noret o -> Ok (sx, o, false) = Ok (s0, o0, ab) -> inert s o0 s0).
  { intros sx o C N E. inversion E; subst. apply inert_core; assumption. }
  destruct (hget h s) as [q0|x|]; [eapply app_pipe_inert; eauto| |unfold next_call in H; (match goal with S : forall sx o, _ -> _ -> _ -> inert _ _ _ |- _ => eapply S; [| |exact H]; [reflexivity|nr] end)].
  destruct x; unfold next_call in H; try ((match goal with S : forall sx o, _ -> _ -> _ -> inert _ _ _ |- _ => eapply S; [| |exact H]; [reflexivity|nr] end)).
  set (sa := set_ncall (s_ncall s + 1) s) in *.
  assert (La : live sa) by (eapply live_core; [exact L|reflexivity]).
  destruct (s_shut sa); [(match goal with S : forall sx o, _ -> _ -> _ -> inert _ _ _ |- _ => eapply S; [| |exact H]; [reflexivity|nr] end)|].
  destruct (negb (imp_current i g sa)); [(match goal with S : forall sx o, _ -> _ -> _ -> inert _ _ _ |- _ => eapply S; [| |exact H]; [reflexivity|nr] end)|].
  pose proof (pot_allocs s).
  assert (HI : inert sa o0 s0).
  { eapply (send_call_inert s sa (s_ncall s) caps (fun id ds => OCall id (OTImp i) ds)); [exact La|reflexivity|exact Henv|simpl; lia|reflexivity|exact H]. }
  exact HI.
Qed.

Lemma app_misc_inert : forall e s s0 o0 ab, handler cfg_fixed e s = Ok (s0, o0, ab) -> live s ->
  match e with ARelease _ | ACancel _ | AHold _ | AUnhold _ => True | _ => False end -> inert s o0 s0.
Proof.
  intros e s s0 o0 ab H L He. destruct e; try contradiction; simpl in H.
  - (* ARelease *) unfold app_release in H. destruct (hget h s) as [qid|x|]; [| |inversion H; subst; it].
    + destruct (s_shut _); [inversion H; subst; it|].
      destruct (tget qid _) as [q|]; [|inversion H; subst; it].
      destruct (q_fin q); [inversion H; subst; it|].
      unfold cancel_question in H. simpl in H. inversion H; subst. split; [reflexivity|]. split; [reflexivity|]. apply noret_cons; [reflexivity|apply noret_nil].
    + destruct (release_cap cfg_fixed x _) as [[s1 o]| |] eqn:E; cbn [bind] in H; try discriminate. inversion H; subst.
      apply release_cap_inv in E. destruct E as [C Q]. apply inert_core; [rewrite C; reflexivity|apply noret_quiet; exact Q].
  - (* ACancel *) unfold app_cancel in H. destruct (s_shut s); [inversion H; subst; it|].
    destruct (tget q (s_qs s)) as [qq|]; [|inversion H; subst; it].
    destruct (q_fin qq || (q_call qq <? 0) || _); [inversion H; subst; it|].
    unfold cancel_question in H. simpl in H. inversion H; subst. split; [reflexivity|]. split; [reflexivity|].
    apply noret_cons; [reflexivity|]. apply noret_cons; [reflexivity|apply noret_nil].
  - (* AHold *) unfold app_hold, next_call in H.
    assert (N1 : forall n c, noret [LAppRes n c]) by (intros; apply noret_cons; [reflexivity|apply noret_nil]).
    destruct (hget h _) as [q0|x|]; try (inversion H; subst; split; [reflexivity|split; [reflexivity|apply N1]]).
    destruct x; try (inversion H; subst; split; [reflexivity|split; [reflexivity|apply N1]]).
    destruct (s_shut _ || _); [inversion H; subst; split; [reflexivity|split; [reflexivity|apply N1]]|].
    destruct (new_question _ _) as [[s2 id]| |] eqn:E; cbn [bind] in H; try discriminate. inversion H; subst.
    apply new_question_inert in E. destruct E as [A Q]. split; [exact A|]. split; [exact Q|apply noret_nil].
  - (* AUnhold *) unfold app_unhold in H.
    destruct (find_held n (s_qs s) 0) as [[qid q]|]; [|inversion H; subst; it].
    destruct (q_held q) as [[[i g] cs]|]; [|inversion H; subst; it].
    destruct (s_shut s); [inversion H; subst; it|].
    match type of H with context [if ?c then _ else _] => destruct c end.
    + match type of H with context [imp_shutdown cfg_fixed i g ?sx] => destruct (imp_shutdown_fixed i g sx) as (s3 & o3 & H3 & C3); pose proof (quiet_imp_shutdown _ _ _ _ _ _ H3) as Q3; rewrite H3 in H end.
      cbn [bind] in H. inversion H; subst. destruct (core_ans _ _ C3) as (A & Q & _). simpl in A, Q.
      split; [exact A|split; [exact Q|apply noret_cons; [reflexivity|apply noret_quiet; exact Q3]]].
    + inversion H; subst. split; [reflexivity|]. split; [reflexivity|]. apply noret_cons; [reflexivity|apply noret_nil].
Qed.

(* ---------------------------------------------------------------- every handler, every step *)
Lemma handler_rbal : forall e s s0 o0 ab, handler cfg_fixed e s = Ok (s0, o0, ab) -> live s -> J s ->
  pot s + ev_work e < LIM -> env_ok s e = true -> J s0 /\ rbal (dcr s e) s o0 s0.
Proof.
  intros e s s0 o0 ab H L Jh Hb Henv.
  assert (TRIV : forall o, noret o -> Ok (s, o, false) = Ok (s0, o0, ab) -> J s0 /\ rbal d0 s o0 s0).
  { intros o N E. inversion E; subst. split; [exact Jh|apply rbal_same; [reflexivity|exact N]]. }
  assert (IN : inert s o0 s0 -> J s0 /\ rbal d0 s o0 s0) by (apply inert_result; exact Jh).
  destruct e; simpl in H; unfold dcr; simpl creates;
    try (apply (TRIV [] noret_nil H)).
  - eapply handle_bootstrap_h; eauto.
  - apply (handle_call_h _ _ _ _ _ _ _ _ _ _ H L Jh).
  - apply IN. eapply handle_return_inert; eauto.
  - eapply handle_finish_h; eauto.
  - apply IN. eapply handle_release_inert; eauto.
  - apply IN. eapply handle_disembargo_inert; eauto.
  - apply (TRIV [OUnimpl]); [nr|exact H].
  - apply IN. eapply app_bootstrap_inert; eauto.
  - apply IN. unfold ev_work in Hb. eapply app_call_inert; eauto. lia.
  - apply IN. unfold ev_work in Hb. eapply app_pipe_inert; eauto. lia.
  - eapply app_return_h; eauto.
  - apply IN. eapply (app_misc_inert (ARelease h)); eauto.
  - apply IN. eapply (app_misc_inert (ACancel q)); eauto.
  - apply IN. eapply (app_misc_inert (AHold h)); eauto.
  - apply IN. eapply (app_misc_inert (AUnhold n)); eauto.
Qed.

Lemma do_shutdown_noret : forall abort s s1 o, do_shutdown cfg_fixed abort s = Ok (s1, o) -> noret o.
Proof.
  intros abort s s1 o H. unfold do_shutdown in H.
  destruct (release_all_args cfg_fixed _ _) as [[sa o1]| |] eqn:E1; simpl in H; try discriminate.
  destruct (release_caps cfg_fixed _ _) as [[s4 o4]| |] eqn:E4; simpl in H; try discriminate.
  destruct (lift_all cfg_fixed _ _ _) as [[s5 o5]| |] eqn:E5; simpl in H; try discriminate.
  destruct (release_answers cfg_fixed _ _) as [[s6 o6]| |] eqn:E6; simpl in H; try discriminate.
  inversion H; subst.
  apply noret_app; [apply noret_quiet; eapply quiet_release_all_args; eauto|].
  apply noret_app; [apply noret_quiet; apply quiet_fail_questions|].
  apply noret_app; [apply noret_quiet; eapply quiet_release_caps; eauto|].
  apply noret_app; [apply noret_quiet; eapply quiet_lift_all; eauto|].
  apply noret_app; [apply noret_quiet; eapply quiet_release_answers; eauto|].
  destruct abort; nr.
Qed.

Lemma handler_shut_noret : forall e s s0 o0 ab, handler cfg_fixed e s = Ok (s0, o0, ab) -> shut_ok s -> is_peer e = false -> noret o0.
Proof.
  intros e s s0 o0 ab H [Hs Ha] Hp.
  destruct e; simpl in Hp; try discriminate; simpl in H.
  - unfold app_bootstrap in H. rewrite Hs in H. inversion H; nr.
  - unfold app_call in H. destruct (hget h s) as [q0|x|].
    + unfold app_pipe, next_call in H. cbn [s_shut set_ncall] in H. rewrite Hs in H. inversion H; nr.
    + destruct x; unfold next_call in H; try (inversion H; nr; fail). cbn [s_shut set_ncall] in H. rewrite Hs in H. inversion H; nr.
    + unfold next_call in H. inversion H; nr.
  - unfold app_pipe, next_call in H. cbn [s_shut set_ncall] in H. rewrite Hs in H. inversion H; nr.
  - unfold app_return in H. rewrite Ha in H. cbn [find_running] in H. destruct (aget k (s_lcalls s)); inversion H; nr.
  - unfold app_release in H. destruct (hget h s) as [qid|x|]; [| |inversion H; nr].
    + cbn [s_shut set_handle set_handles] in H. rewrite Hs in H. inversion H; nr.
    + destruct (release_cap cfg_fixed x _) as [[s1 o]| |] eqn:E; cbn [bind] in H; try discriminate. inversion H; subst.
      apply noret_quiet. eapply quiet_release_cap; eauto.
  - unfold app_cancel in H. rewrite Hs in H. inversion H; nr.
  - unfold app_hold, next_call in H. destruct (hget h _) as [q0|x|]; try (inversion H; nr; fail).
    destruct x; try (inversion H; nr; fail). cbn [s_shut set_ncall] in H. rewrite Hs in H. cbn [orb] in H. inversion H; nr.
  - unfold app_unhold in H. destruct (find_held n (s_qs s) 0) as [[qid q]|]; [|inversion H; nr].
    destruct (q_held q) as [[[i g] cs]|]; [|inversion H; nr]. rewrite Hs in H. inversion H; nr.
  - inversion H; nr.
Qed.

Lemma returns_rev : forall id o, returns id (rev o) = returns id o.
Proof.
  intros id o. induction o as [|x o IH]; [reflexivity|]. simpl. rewrite returns_app, IH. unfold returns. simpl.
  destruct (is_return id x); simpl; lia.
Qed.

(* the invariant of histories: [cr id] counts the Bootstrap / Call messages accepted with id,
   [out] is everything sent so far *)
Definition hinv (s : state) (cr : Z -> nat) (out : list output) : Prop :=
  (s_shut s = false -> J s /\ forall id, (returns id out + pending id s = cr id)%nat) /\
  (forall id, (returns id out <= cr id)%nat).

Definition cr_step (s : state) (e : event) (cr : Z -> nat) : Z -> nat :=
  fun x => (cr x + (if s_shut s then 0 else dcr s e x))%nat.

Lemma pending_shut : forall s id, tables_empty s -> pending id s = 0%nat.
Proof. intros s id (_ & A & _). unfold pending. rewrite A. reflexivity. Qed.

Lemma step_hinv : forall s e W cr out s1 o, sinv s W -> hinv s cr out -> W + ev_work e < LIM -> env_ok s e = true ->
  step cfg_fixed s e = Ok (s1, o) -> hinv s1 (cr_step s e cr) (out ++ o).
Proof.
  intros s e W cr out s1 o I [HL HU] Hb Henv Hstep. unfold step in Hstep. unfold sinv in I. unfold cr_step.
  destruct (s_shut s) eqn:Hs.
  - (* shut down: nothing is sent as a Return any more *)
    assert (N : noret o /\ s_shut s1 = true).
    { destruct (is_peer e) eqn:Hp; simpl in Hstep.
      - inversion Hstep; subst. split; [nr|exact Hs].
      - assert (S : shut_ok s) by (split; assumption).
        destruct e; simpl in Hp; try discriminate;
          try (match type of Hstep with context [handler cfg_fixed ?ev s] =>
                 pose proof (handler_shut ev s S eq_refl) as P;
                 destruct (handler cfg_fixed ev s) as [[[s0 o0] ab]| |] eqn:E; simpl in P; try contradiction;
                 pose proof (handler_shut_noret _ _ _ _ _ E S eq_refl) as N0 end;
               cbn [bind fst] in *; destruct P as [S1 S2]; rewrite S1 in Hstep; rewrite andb_false_r in Hstep; cbn [bind] in Hstep;
               inversion Hstep; subst; split; [exact N0|exact S1]).
        simpl in Hstep. inversion Hstep; subst. split; [nr|exact Hs]. }
    destruct N as [N S1].
    split; [intros C; rewrite S1 in C; discriminate|].
    intros id. rewrite returns_app, N. specialize (HU id). lia.
  - destruct I as [Li P]. assert (L : live s) by (split; assumption).
    destruct (HL eq_refl) as [Jh EQ]. simpl in Hstep.
    (* a shutdown after outputs o0 of the handler *)
    assert (SHUT : forall abort s0 o0 d, (forall id, (returns id o0 <= pending id s + d id)%nat) ->
              (do '(sx, ox) <- (do '(s2, o2) <- do_shutdown cfg_fixed abort s0; Ok (s2, o0 ++ o2)); Ok (set_out (rev ox ++ s_out sx) sx, ox)) = Ok (s1, o) ->
              hinv s1 (fun x => (cr x + d x)%nat) (out ++ o)).
    { intros abort s0 o0 d B HH.
      destruct (do_shutdown cfg_fixed abort s0) as [[s2 o2]| |] eqn:E2; cbn [bind] in HH; try discriminate. inversion HH; subst.
      pose proof (do_shutdown_noret _ _ _ _ E2) as N2.
      destruct (shutdown_total abort s0) as (s2' & o2' & H2' & _ & S2). rewrite E2 in H2'. inversion H2'; subst s2' o2'.
      split; [intros C; simpl in C; rewrite S2 in C; discriminate|].
      intros id. rewrite !returns_app, N2. specialize (B id). specialize (EQ id). lia. }
    assert (SHUT0 : forall abort, (do '(sx, ox) <- do_shutdown cfg_fixed abort s; Ok (set_out (rev ox ++ s_out sx) sx, ox)) = Ok (s1, o) ->
              hinv s1 (fun x => (cr x + d0 x)%nat) (out ++ o)).
    { intros abort HH. apply (SHUT abort s [] d0); [intros id; unfold returns; simpl; lia|].
      destruct (do_shutdown cfg_fixed abort s) as [[s2 o2]| |]; cbn [bind] in *; try discriminate. exact HH. }
    assert (GEN : forall ev, ev = e -> match ev with MAbort | AClose => False | _ => True end ->
              (do '(sx, ox) <- (do '(sa, o1, abort) <- handler cfg_fixed ev s;
                   if abort && negb (s_shut sa) then do '(s2, o2) <- do_shutdown cfg_fixed true sa; Ok (s2, o1 ++ o2) else Ok (sa, o1));
                 Ok (set_out (rev ox ++ s_out sx) sx, ox)) = Ok (s1, o) ->
              hinv s1 (fun x => (cr x + dcr s e x)%nat) (out ++ o)).
    { intros ev -> Hne HH.
      pose proof (handler_live e s L ltac:(lia) Henv) as PL.
      destruct (handler cfg_fixed e s) as [[[s0 o0] ab]| |] eqn:EH; simpl in PL; try contradiction. cbn [bind] in HH.
      destruct PL as [S0 PL2].
      destruct (handler_rbal _ _ _ _ _ EH L Jh ltac:(lia) Henv) as [J0 B0].
      rewrite S0 in HH. simpl negb in HH. rewrite andb_true_r in HH.
      destruct ab.
      - apply (SHUT true s0 o0 (dcr s e)); [|exact HH]. intros id. specialize (B0 id). lia.
      - cbn [bind] in HH. inversion HH; subst. split.
        + intros _. split; [exact J0|]. intros id. rewrite returns_app. specialize (B0 id). specialize (EQ id).
          change (pending id (set_out (rev o ++ s_out s0) s0)) with (pending id s0). lia.
        + intros id. rewrite returns_app. specialize (B0 id). specialize (EQ id). lia. }
    destruct e; try (apply (GEN _ eq_refl I Hstep)); apply SHUT0 in Hstep; exact Hstep.
Qed.

(* the run of a history with its ghosts *)
Fixpoint run_h (s : state) (evs : list event) (cr : Z -> nat) (out : list output) : res (state * (Z -> nat) * list output) :=
  match evs with
  | [] => Ok (s, cr, out)
  | e :: r => if env_ok s e then do '(s1, o) <- step cfg_fixed s e; run_h s1 r (cr_step s e cr) (out ++ o) else Ok (s, cr, out)
  end.

Lemma run_h_inv : forall evs s W cr out s' cr' out', sinv s W -> hinv s cr out -> W + work evs < LIM ->
  run_h s evs cr out = Ok (s', cr', out') -> hinv s' cr' out' /\ exists W', sinv s' W'.
Proof.
  induction evs as [|e evs IH]; intros s W cr out s' cr' out' I Hh Hb H; simpl in H.
  - inversion H; subst. split; [exact Hh|eauto].
  - destruct (env_ok s e) eqn:Henv; [|inversion H; subst; split; [exact Hh|eauto]].
    pose proof (ev_work_nonneg e) as He.
    assert (Hwork : 0 <= work evs) by (clear; induction evs as [|x l IHl]; simpl; [lia|pose proof (ev_work_nonneg x); lia]).
    simpl in Hb.
    destruct (step_ok s e W I ltac:(lia) Henv) as (s1 & o & H1 & I1). rewrite H1 in H. cbn [bind] in H.
    eapply (IH s1 (W + ev_work e)); [exact I1| |lia|exact H].
    eapply step_hinv; eauto. lia.
Qed.

Lemma hinv_init : forall boot, hinv (init boot) (fun _ => 0%nat) [].
Proof.
  intros boot. split.
  - intros _. split; [split; [constructor|split; [constructor|intros id []]]|]. intros id. reflexivity.
  - intros id. unfold returns. simpl. lia.
Qed.

(* C06 one_return: in every history, for every answer id: the Returns sent for it never exceed the
   Bootstrap / Call messages accepted with it, and while the connection is up every accepted one
   has got exactly one Return, except the one (at most) that is still owing it -- i.e. whose
   target has not produced its outcome *)
Theorem one_return : forall boot evs s cr out, work evs < LIM ->
  run_h (init boot) evs (fun _ => 0%nat) [] = Ok (s, cr, out) ->
  forall id, (returns id out <= cr id)%nat /\
             (s_shut s = false -> (returns id out + pending id s = cr id)%nat /\ (pending id s <= 1)%nat).
Proof.
  intros boot evs s cr out Hb H id.
  destruct (run_h_inv evs (init boot) 0 _ _ _ _ _ (sinv_init boot) (hinv_init boot) ltac:(lia) H) as [[HL HU] _].
  split; [apply HU|]. intros Hs. destruct (HL Hs) as [_ EQ]. split; [apply EQ|].
  unfold pending. destruct (aget id (s_ans s)) as [a|]; [destruct (a_ret a)|]; lia.
Qed.

(* the Return carries the outcome the target produced: results for a normal return, an exception
   for an exception; afterwards the answer owes nothing *)
Lemma send_exception_in : forall id a s s1 o ab, send_exception cfg_fixed id a s = Ok (s1, o, ab) -> s_shut s = false ->
  In (OReturnExc id) o.
Proof.
  intros id a s s1 o ab H Hs. unfold send_exception in H. rewrite Hs in H. destruct (a_fin a).
  - destruct (destroy cfg_fixed id _ _) as [[[s2 o2] e2]| |]; simpl in H; try discriminate. inversion H; subst. left. reflexivity.
  - inversion H; subst. left. reflexivity.
Qed.

Lemma send_return_in : forall id a k rct s s1 o ab, send_return cfg_fixed id a k rct s = Ok (s1, o, ab) -> s_shut s = false ->
  exists ds, In (OReturnRes id ds) o.
Proof.
  intros id a k rct s s1 o ab H Hs. unfold send_return in H.
  destruct (fill_caps cfg_fixed (rct_caps rct) s) as [[[s0 ds] refs]| |]; cbn [bind] in H; try discriminate.
  rewrite Hs in H. exists ds. destruct (a_fin a).
  - destruct (destroy cfg_fixed id _ _) as [[[s2 o2] e2]| |]; simpl in H; try discriminate. inversion H; subst. left. reflexivity.
  - inversion H; subst. left. reflexivity.
Qed.

Lemma proc_settled : forall id s o s1, proc id s o s1 -> returns id o = 1%nat -> pending id s1 = 0%nat.
Proof.
  intros id s o s1 ([(a1 & A & [[R1 R2]|[R1 R2]])|[A R]] & _) HR; unfold pending; rewrite A.
  - rewrite aget_aput, Z.eqb_refl, R1. reflexivity.
  - rewrite R2 in HR. discriminate.
  - rewrite aget_adel, Z.eqb_refl. reflexivity.
Qed.

Theorem app_return_result : forall k r s s0 o0 ab id a, app_return cfg_fixed k r s = Ok (s0, o0, ab) -> live s ->
  find_running k (s_ans s) = Some (id, a) ->
  match r with ARExc => In (OReturnExc id) o0 | _ => exists ds, In (OReturnRes id ds) o0 end.
Proof.
  intros k r s s0 o0 ab id a H L Ef. unfold app_return in H. rewrite Ef in H.
  destruct (release_caps cfg_fixed (a_args a) s) as [[s1 o1]| |] eqn:E1; cbn [bind] in H; try discriminate.
  apply release_caps_inv in E1. destruct E1 as [C1 _].
  assert (L1 : live s1) by (eapply live_core; eauto).
  apply find_running_some in Ef. destruct Ef as [[j Hj] Hin].
  assert (L1' : live (set_ans (aput id (set_a_args [] a) (s_ans s1)) s1)).
  { apply live_set_ans; [exact L1|]. apply ans_ok_aput; [apply (ans_of_live _ L1)|]. exact (ans_of_live _ L _ _ Hin). }
  destruct r as [fs| |].
  - destruct (results_of fs) as [kc rct].
    match type of H with (bind ?x _) = _ => destruct x as [[[s3 o3] b3]| |] eqn:E3; cbn [bind] in H; try discriminate end.
    match type of H with (bind ?x _) = _ => destruct x as [[[s4 o4] b4]| |] eqn:E4; cbn [bind] in H; try discriminate end.
    inversion H; subst.
    assert (L3 : live s3).
    { match type of E3 with drain _ ?r ?k ?rc ?l1 ?l2 ?sx = _ =>
        assert (Lx : live sx) by (eapply live_core; [exact L1'|apply core_addrefs_local]);
        pose proof (drain_ok r k rc l1 l2 sx Lx) as P; rewrite E3 in P; simpl in P; apply P end. }
    destruct (send_return_in _ _ _ _ _ _ _ _ E4 (live_shut _ L3)) as [ds Hds]. exists ds.
    apply in_or_app. right. apply in_or_app. right. exact Hds.
  - match type of H with (bind ?x _) = _ => destruct x as [[[s3 o3] b3]| |] eqn:E3; cbn [bind] in H; try discriminate end.
    match type of H with (bind ?x _) = _ => destruct x as [[[s4 o4] b4]| |] eqn:E4; cbn [bind] in H; try discriminate end.
    inversion H; subst.
    assert (L3 : live s3).
    { match type of E3 with drain _ ?r ?k ?rc ?l1 ?l2 ?sx = _ =>
        pose proof (drain_ok r k rc l1 l2 sx L1') as P; rewrite E3 in P; simpl in P; apply P end. }
    destruct (send_return_in _ _ _ _ _ _ _ _ E4 (live_shut _ L3)) as [ds Hds]. exists ds.
    apply in_or_app. right. apply in_or_app. right. exact Hds.
  - match type of H with (bind ?x _) = _ => destruct x as [[[s3 o3] b3]| |] eqn:E3; cbn [bind] in H; try discriminate end.
    match type of H with (bind ?x _) = _ => destruct x as [[[s4 o4] b4]| |] eqn:E4; cbn [bind] in H; try discriminate end.
    inversion H; subst.
    assert (L3 : live s3).
    { match type of E3 with reject_all _ ?l ?sx = _ =>
        pose proof (reject_all_ok l sx L1') as P; rewrite E3 in P; simpl in P; apply P end. }
    apply in_or_app. right. apply in_or_app. right. eapply send_exception_in; eauto. apply L3.
Qed.
