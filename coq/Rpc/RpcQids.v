(* Proofs about the RPC machine, part 6: history-level C06 question_ids.
   (1) a question id is never handed out while an earlier use of it has no Finish in the outbox;
   (2) every local call resolves exactly once. *)
From CV Require Import Rpc.Rpc Rpc.RpcSpec Rpc.RpcProofs Rpc.RpcInv Rpc.RpcResp Rpc.RpcLocal Rpc.RpcHist.
From Coq Require Import ZifyBool.
Open Scope Z_scope.

(* ---------------------------------------------------------------- the part of the state these statements read *)
Record aux := mkAux { x_qs : tbl question; x_handles : list hstate; x_lcalls : list (Z * Z);
                      x_ecalls : list (Z * Z * Z); x_ncall : Z; x_ndeliv : Z; x_shut : bool }.
Definition aux_of (s : state) : aux :=
  mkAux (s_qs s) (s_handles s) (s_lcalls s) (s_ecalls s) (s_ncall s) (s_ndeliv s) (s_shut s).

Lemma aux_lref : forall d j s, aux_of (lref d j s) = aux_of s. Proof. reflexivity. Qed.
Lemma aux_lref_cap : forall d x s, aux_of (lref_cap d x s) = aux_of s. Proof. intros d x s. destruct x; reflexivity. Qed.

Lemma aux_emb_release : forall c e s, aux_of (emb_release c e s) = aux_of s.
Proof.
  intros c e s. unfold emb_release. destruct (tget e (s_emb s)) as [em|]; auto. destruct (0 <? e_refs em); auto.
  destruct (_ && _ && _); [rewrite aux_lref_cap|]; reflexivity.
Qed.

Lemma aux_imp_shutdown : forall c i g s s1 o, imp_shutdown c i g s = Ok (s1, o) -> aux_of s1 = aux_of s.
Proof.
  intros c i g s s1 o H. unfold imp_shutdown in H. destruct (s_shut s); [inversion H; reflexivity|].
  destruct (aget i (s_imp s)) as [e|]; [destruct (i_gen e =? g); inversion H; reflexivity|].
  destruct (fx20 c); [inversion H; reflexivity|discriminate].
Qed.

Lemma aux_release_cap : forall c x s s1 o, release_cap c x s = Ok (s1, o) -> aux_of s1 = aux_of s.
Proof.
  intros c x s s1 o H. destruct x; simpl in H; try (inversion H; reflexivity).
  - unfold imp_release in H. destruct (aget i (s_imp s)) as [e|]; [|eapply aux_imp_shutdown; eauto].
    destruct ((i_gen e =? g) && (0 <? i_refs e)); [|eapply aux_imp_shutdown; eauto].
    simpl in H. destruct (i_refs e - 1 =? 0); [|inversion H; reflexivity].
    destruct (busy_get i g (s_busy s) =? 0); [apply aux_imp_shutdown in H; exact H|inversion H; reflexivity].
  - inversion H; subst. apply aux_emb_release.
Qed.

Lemma aux_release_caps : forall c l s s1 o, release_caps c l s = Ok (s1, o) -> aux_of s1 = aux_of s.
Proof.
  induction l as [|x l IH]; intros s s1 o H; simpl in H; [inversion H; reflexivity|].
  destruct (release_cap c x s) as [[sa oa]| |] eqn:Ea; simpl in H; try discriminate.
  destruct (release_caps c l sa) as [[sb ob]| |] eqn:Eb; simpl in H; try discriminate. inversion H; subst.
  rewrite (IH _ _ _ Eb). eapply aux_release_cap; eauto.
Qed.

Lemma aux_addref : forall x s, aux_of (addref_cap x s) = aux_of s.
Proof.
  intros x s. destruct x; simpl; auto.
  - destruct (aget i (s_imp s)); auto. destruct (_ && _); auto.
  - destruct (tget e (s_emb s)) as [em|]; auto. destruct (0 <? e_refs em); auto.
Qed.

Lemma aux_add_import : forall c i s, aux_of (fst (add_import c i s)) = aux_of s.
Proof. intros c i s. unfold add_import. destruct (aget i (s_imp s)); [destruct (0 <? i_refs i0)|]; reflexivity. Qed.

Lemma aux_recv_caps : forall c ds s tab loc,
  match recv_caps c ds s tab loc with RPOk s1 _ _ => aux_of s1 = aux_of s | RPErr s1 _ => aux_of s1 = aux_of s end.
Proof.
  induction ds as [|d ds IH]; intros s tab loc; simpl; auto.
  destruct d; try apply IH.
  - destruct (add_import c i s) as [s1 x] eqn:E. specialize (IH s1 (x :: tab) (false :: loc)).
    pose proof (aux_add_import c i s) as C. rewrite E in C. simpl in C.
    destruct (recv_caps c ds s1 (x :: tab) (false :: loc)); congruence.
  - destruct (add_import c i s) as [s1 x] eqn:E. specialize (IH s1 (x :: tab) (false :: loc)).
    pose proof (aux_add_import c i s) as C. rewrite E in C. simpl in C.
    destruct (recv_caps c ds s1 (x :: tab) (false :: loc)); congruence.
  - destruct (tget i (s_exp s)) as [[x w]|]; auto.
    specialize (IH (addref_cap x s) (x :: tab) (true :: loc)).
    destruct (recv_caps c ds (addref_cap x s) (x :: tab) (true :: loc)); rewrite IH; apply aux_addref.
Qed.

Lemma aux_recv_payload : forall c p s,
  match recv_payload c p s with PLOk s1 _ _ _ => aux_of s1 = aux_of s | PLErr s1 _ => aux_of s1 = aux_of s end.
Proof.
  intros c p s. unfold recv_payload. destruct (negb (p_valid p)); auto. destruct (p_cerr p); auto.
  destruct (p_caps p) as [ds|]; auto. pose proof (aux_recv_caps c ds s [] []) as H.
  destruct (recv_caps c ds s [] []); exact H.
Qed.

Lemma aux_send_cap : forall c x s s1 d oe, send_cap c x s = Ok (s1, d, oe) -> aux_of s1 = aux_of s.
Proof.
  intros c x s s1 d oe H. unfold send_cap in H.
  assert (NEW : forall y s0, aux_of s0 = aux_of s ->
            (do '(id, g) <- gen_next (s_egen s); do t <- tput id (y, 1) (s_exp s);
             Ok (set_sent (cadd id 1 (s_sent s)) (set_allocs (s_allocs s + 1) (set_egen g (set_exp t s0))), DSH id, Some id)) = Ok (s1, d, oe) ->
            aux_of s1 = aux_of s).
  { intros y s0 A HH. destruct (gen_next (s_egen s)) as [[id g']| |]; cbn [bind] in HH; try discriminate.
    destruct (tput id (y, 1) (s_exp s)) as [t'| |]; cbn [bind] in HH; try discriminate. inversion HH; subst.
    unfold aux_of in *. simpl. inversion A. reflexivity. }
  destruct x.
  - inversion H; reflexivity.
  - simpl in H. destruct (find_export CErr (s_exp s) 0) as [[id w]|]; [inversion H; reflexivity|apply (NEW CErr s eq_refl H)].
  - simpl in H. destruct (find_export (CLocal j) (s_exp s) 0) as [[id w]|]; [inversion H; reflexivity|apply (NEW (CLocal j) (lref 1 j s) eq_refl H)].
  - destruct (imp_current i g s); [inversion H; reflexivity|].
    destruct (find_export (CImp i g) (s_exp s) 0) as [[id w]|]; [inversion H; reflexivity|apply (NEW (CImp i g) (addref_cap (CImp i g) s) (aux_addref _ _) H)].
  - simpl in H. destruct (find_export (CEmb e) (s_exp s) 0) as [[id w]|]; [inversion H; reflexivity|apply (NEW (CEmb e) (addref_cap (CEmb e) s) (aux_addref _ _) H)].
Qed.

Lemma aux_fill_caps : forall c l s s1 ds refs, fill_caps c l s = Ok (s1, ds, refs) -> aux_of s1 = aux_of s.
Proof.
  induction l as [|x l IH]; intros s s1 ds refs H; simpl in H; [inversion H; reflexivity|].
  destruct (send_cap c x s) as [[[sa d] oe]| |] eqn:Ea; cbn [bind] in H; try discriminate.
  destruct (fill_caps c l sa) as [[[sb ds'] refs']| |] eqn:Eb; cbn [bind] in H; try discriminate. inversion H; subst.
  rewrite (IH _ _ _ _ Eb). eapply aux_send_cap; eauto.
Qed.

Lemma aux_release_export : forall id n s, aux_of (fst (fst (release_export id n s))) = aux_of s.
Proof.
  intros id n s. unfold release_export. destruct (tget id (s_exp s)) as [[x w]|]; [|reflexivity].
  destruct (n =? w); [reflexivity|]. destruct (w <? n); reflexivity.
Qed.

Lemma aux_release_exports : forall refs s, aux_of (fst (fst (release_exports refs s))) = aux_of s.
Proof.
  induction refs as [|[i n] refs IH]; intros s; simpl; [reflexivity|].
  pose proof (aux_release_export i n s) as F1. destruct (release_export i n s) as [[sa oc] ea]. simpl in F1.
  specialize (IH sa). destruct (release_exports refs sa) as [[sb clb] eb]. simpl in *. congruence.
Qed.

Lemma aux_destroy : forall c id a s s1 o err, destroy c id a s = Ok (s1, o, err) -> aux_of s1 = aux_of s.
Proof.
  intros c id a s s1 o err H. unfold destroy in H.
  destruct (a_rrc a && negb match a_xrefs a with [] => true | _ :: _ => false end).
  - pose proof (aux_release_exports (a_xrefs a) (set_ans (adel id (s_ans s)) s)) as F.
    destruct (release_exports (a_xrefs a) (set_ans (adel id (s_ans s)) s)) as [[sx cl] e2]. simpl in F.
    destruct (release_caps c (rct_caps (a_rct a) ++ cl) sx) as [[s3 o3]| |] eqn:E3; simpl in H; try discriminate.
    inversion H; subst. rewrite (aux_release_caps _ _ _ _ _ E3). exact F.
  - destruct (release_caps c (rct_caps (a_rct a) ++ []) (set_ans (adel id (s_ans s)) s)) as [[s3 o3]| |] eqn:E3; simpl in H; try discriminate.
    inversion H; subst. rewrite (aux_release_caps _ _ _ _ _ E3). reflexivity.
Qed.

Lemma aux_send_exception : forall c id a s s1 o ab, send_exception c id a s = Ok (s1, o, ab) -> aux_of s1 = aux_of s.
Proof.
  intros c id a s s1 o ab H. unfold send_exception in H. destruct (a_fin a).
  - destruct (destroy c id _ _) as [[[s2 o2] e2]| |] eqn:E; simpl in H; try discriminate. inversion H; subst.
    rewrite (aux_destroy _ _ _ _ _ _ _ E). reflexivity.
  - inversion H; reflexivity.
Qed.

Lemma aux_send_return : forall c id a k rct s s1 o ab, send_return c id a k rct s = Ok (s1, o, ab) -> aux_of s1 = aux_of s.
Proof.
  intros c id a k rct s s1 o ab H. unfold send_return in H.
  destruct (fill_caps c (rct_caps rct) s) as [[[s0 ds] refs]| |] eqn:E0; cbn [bind] in H; try discriminate.
  apply aux_fill_caps in E0. destruct (a_fin a).
  - destruct (destroy c id _ _) as [[[s2 o2] e2]| |] eqn:E; simpl in H; try discriminate. inversion H; subst.
    rewrite (aux_destroy _ _ _ _ _ _ _ E). exact E0.
  - inversion H; subst. exact E0.
Qed.

Lemma aux_reject : forall c id a s s1 o ab, reject c id a s = Ok (s1, o, ab) -> aux_of s1 = aux_of s.
Proof.
  intros c id a s s1 o ab H. unfold reject in H.
  destruct (release_caps c (a_args a) s) as [[s0 o0]| |] eqn:E0; simpl in H; try discriminate.
  destruct (send_exception c id (set_a_args [] a) s0) as [[[s2 o2] b2]| |] eqn:E2; simpl in H; try discriminate.
  inversion H; subst. rewrite (aux_send_exception _ _ _ _ _ _ _ E2). eapply aux_release_caps; eauto.
Qed.

(* ---------------------------------------------------------------- outputs that concern questions and local calls *)
Definition qkind (o : output) : bool :=
  match o with OBootstrap _ | OCall _ _ _ | OFinish _ _ | LAppRes _ _ => true | _ => false end.
Definition qquiet (o : list output) : Prop := filter qkind o = [].

Lemma qq_app : forall a b, qquiet a -> qquiet b -> qquiet (a ++ b).
Proof. unfold qquiet. intros a b Ha Hb. rewrite filter_app, Ha, Hb. reflexivity. Qed.
Lemma qq_nil : qquiet []. Proof. reflexivity. Qed.
Lemma qq_cons : forall x o, qkind x = false -> qquiet o -> qquiet (x :: o).
Proof. unfold qquiet. intros x o Hx Ho. simpl. rewrite Hx. exact Ho. Qed.
Ltac qq := repeat (first [apply qq_nil | apply qq_cons; [reflexivity|] | apply qq_app]).

Lemma qq_imp_shutdown : forall c i g s s' o, imp_shutdown c i g s = Ok (s', o) -> qquiet o.
Proof.
  intros c i g s s' o H. unfold imp_shutdown in H. destruct (s_shut s); [inversion H; qq|].
  destruct (aget i (s_imp s)) as [e|]; [destruct (i_gen e =? g); inversion H; qq|].
  destruct (fx20 c); [inversion H; qq|discriminate].
Qed.

Lemma qq_release_cap : forall c x s s' o, release_cap c x s = Ok (s', o) -> qquiet o.
Proof.
  intros c x s s' o H. destruct x; simpl in H; try (inversion H; qq; fail).
  unfold imp_release in H. destruct (aget i (s_imp s)) as [e|]; [|eapply qq_imp_shutdown; eauto].
  destruct ((i_gen e =? g) && (0 <? i_refs e)); [|eapply qq_imp_shutdown; eauto].
  simpl in H. destruct (i_refs e - 1 =? 0); [|inversion H; qq].
  destruct (busy_get i g (s_busy s) =? 0); [eapply qq_imp_shutdown; eauto|inversion H; qq].
Qed.

Lemma qq_release_caps : forall c l s s' o, release_caps c l s = Ok (s', o) -> qquiet o.
Proof.
  induction l as [|x l IH]; intros s s' o H; simpl in H; [inversion H; qq|].
  destruct (release_cap c x s) as [[s1 o1]| |] eqn:E1; simpl in H; try discriminate.
  destruct (release_caps c l s1) as [[s2 o2]| |] eqn:E2; simpl in H; try discriminate.
  inversion H; subst. apply qq_app; [eapply qq_release_cap; eauto|eapply IH; eauto].
Qed.

Lemma qq_destroy : forall c id a s s1 o err, destroy c id a s = Ok (s1, o, err) -> qquiet o.
Proof.
  intros c id a s s1 o err H. unfold destroy in H.
  destruct (a_rrc a && negb match a_xrefs a with [] => true | _ :: _ => false end).
  - destruct (release_exports (a_xrefs a) _) as [[sx cl] e2].
    destruct (release_caps c _ sx) as [[s3 o3]| |] eqn:E3; simpl in H; try discriminate. inversion H; subst. eapply qq_release_caps; eauto.
  - destruct (release_caps c _ _) as [[s3 o3]| |] eqn:E3; simpl in H; try discriminate. inversion H; subst. eapply qq_release_caps; eauto.
Qed.

Lemma qq_send_exception : forall c id a s s1 o ab, send_exception c id a s = Ok (s1, o, ab) -> qquiet o.
Proof.
  intros c id a s s1 o ab H. unfold send_exception in H. destruct (a_fin a).
  - destruct (destroy c id _ _) as [[[s2 o2] e2]| |] eqn:E; simpl in H; try discriminate. inversion H; subst.
    apply qq_app; [destruct (s_shut s); qq|eapply qq_destroy; eauto].
  - inversion H; subst. destruct (s_shut s); qq.
Qed.

Lemma qq_send_return : forall c id a k rct s s1 o ab, send_return c id a k rct s = Ok (s1, o, ab) -> qquiet o.
Proof.
  intros c id a k rct s s1 o ab H. unfold send_return in H.
  destruct (fill_caps c (rct_caps rct) s) as [[[s0 ds] refs]| |]; cbn [bind] in H; try discriminate. destruct (a_fin a).
  - destruct (destroy c id _ _) as [[[s2 o2] e2]| |] eqn:E; simpl in H; try discriminate. inversion H; subst.
    apply qq_app; [destruct (s_shut s); qq|eapply qq_destroy; eauto].
  - inversion H; subst. destruct (s_shut s); qq.
Qed.

Lemma qq_reject : forall c id a s s1 o ab, reject c id a s = Ok (s1, o, ab) -> qquiet o.
Proof.
  intros c id a s s1 o ab H. unfold reject in H.
  destruct (release_caps c (a_args a) s) as [[s0 o0]| |] eqn:E0; simpl in H; try discriminate.
  destruct (send_exception c id (set_a_args [] a) s0) as [[[s2 o2] b2]| |] eqn:E2; simpl in H; try discriminate.
  inversion H; subst. apply qq_app; [eapply qq_release_caps; eauto|eapply qq_send_exception; eauto].
Qed.

(* unchanged, except that deliveries advance the delivery counter *)
Definition qframe (x x1 : aux) : Prop :=
  x_qs x1 = x_qs x /\ x_handles x1 = x_handles x /\ x_lcalls x1 = x_lcalls x /\ x_ecalls x1 = x_ecalls x /\
  x_ncall x1 = x_ncall x /\ x_shut x1 = x_shut x /\ x_ndeliv x <= x_ndeliv x1.
Definition qinert (s : state) (o : list output) (s1 : state) : Prop := qframe (aux_of s) (aux_of s1) /\ qquiet o.

Lemma qframe_refl : forall x, qframe x x.
Proof. intros. repeat split; lia. Qed.
Lemma qframe_eq : forall x x1, x1 = x -> qframe x x1.
Proof. intros; subst; apply qframe_refl. Qed.
Lemma qframe_trans : forall x x1 x2, qframe x x1 -> qframe x1 x2 -> qframe x x2.
Proof. unfold qframe. intros x x1 x2 H1 H2. intuition (try congruence; try lia). Qed.
Lemma qinert_trans : forall s o1 s1 o2 s2, qinert s o1 s1 -> qinert s1 o2 s2 -> qinert s (o1 ++ o2) s2.
Proof. intros s o1 s1 o2 s2 [F1 Q1] [F2 Q2]. split; [eapply qframe_trans; eauto|apply qq_app; assumption]. Qed.

Lemma deliver_qinert : forall c id a t s s1 o ab, deliver c id a t s = Ok (s1, o, ab) -> qinert s o s1.
Proof.
  intros c id a t s s1 o ab H. unfold deliver in H.
  assert (REJ : reject c id a s = Ok (s1, o, ab) -> qinert s o s1).
  { intros HR. split; [apply qframe_eq; eapply aux_reject; eauto|eapply qq_reject; eauto]. }
  destruct t; [|apply REJ; exact H|discriminate].
  destruct (a_mok a); [|apply REJ; exact H]. inversion H; subst. split; [|qq].
  unfold qframe, aux_of; simpl. repeat split; try reflexivity. lia.
Qed.

Lemma reject_all_qinert : forall c ids s s1 o ab, reject_all c ids s = Ok (s1, o, ab) -> qinert s o s1.
Proof.
  induction ids as [|id ids IH]; intros s s1 o ab H; simpl in H; [inversion H; subst; split; [apply qframe_refl|qq]|].
  destruct (aget id (s_ans s)) as [a|]; [|eapply IH; eauto].
  destruct (reject c id a s) as [[[s' o'] b']| |] eqn:E; cbn [bind] in H; try discriminate.
  destruct (reject_all c ids s') as [[[s2 o2] b2]| |] eqn:E2; simpl in H; try discriminate. inversion H; subst.
  eapply qinert_trans; [split; [apply qframe_eq; eapply aux_reject; eauto|eapply qq_reject; eauto]|eapply IH; eauto].
Qed.

Lemma drain_qinert : forall c r k rct lst ids s s1 o ab, drain c r k rct lst ids s = Ok (s1, o, ab) -> qinert s o s1.
Proof.
  induction ids as [|id ids IH]; intros s s1 o ab H; simpl in H; [inversion H; subst; split; [apply qframe_refl|qq]|].
  match type of H with (bind ?x _) = _ => destruct x as [[[s' o'] b']| |] eqn:E; cbn [bind] in H; try discriminate end.
  destruct (drain c r k rct lst ids s') as [[[s2 o2] b2]| |] eqn:E2; simpl in H; try discriminate. inversion H; subst.
  eapply qinert_trans; [|eapply IH; eauto].
  assert (SAME : qinert s [] s) by (split; [apply qframe_refl|qq]).
  destruct (aget id (s_ans s)) as [a|]; [|inversion E; subst; exact SAME].
  destruct (a_st a); try (inversion E; subst; exact SAME).
  destruct (_ =? r); [eapply deliver_qinert; eauto|].
  destruct (aget _ (s_ans s)) as [b|]; [|split; [apply qframe_eq; eapply aux_reject; eauto|eapply qq_reject; eauto]].
  destruct (a_ready b); [destruct (a_err b); [split; [apply qframe_eq; eapply aux_reject; eauto|eapply qq_reject; eauto]|eapply deliver_qinert; eauto]|].
  inversion E; subst. split; [apply qframe_eq; reflexivity|qq].
Qed.

Lemma qinert_refl : forall s, qinert s [] s.
Proof. intros. split; [apply qframe_refl|qq]. Qed.

Lemma handle_bootstrap_qinert : forall id s s0 o0 ab, handle_bootstrap cfg_fixed id s = Ok (s0, o0, ab) -> qinert s o0 s0.
Proof.
  intros id s s0 o0 ab H. unfold handle_bootstrap in H.
  destruct (aget id (s_ans s)); [inversion H; subst; apply qinert_refl|].
  destruct (negb (s_boot s)).
  - split; [apply qframe_eq; eapply aux_send_exception; eauto|eapply qq_send_exception; eauto].
  - destruct (send_return cfg_fixed id _ _ _ _) as [[[s1 o] err]| |] eqn:E; cbn [bind] in H; try discriminate.
    destruct err; [discriminate|]. inversion H; subst.
    split; [apply qframe_eq; rewrite (aux_send_return _ _ _ _ _ _ _ _ _ E); reflexivity|eapply qq_send_return; eauto].
Qed.

Lemma handle_finish_qinert : forall id rrc s s0 o0 ab, handle_finish cfg_fixed id rrc s = Ok (s0, o0, ab) -> qinert s o0 s0.
Proof.
  intros id rrc s s0 o0 ab H. unfold handle_finish in H.
  destruct (aget id (s_ans s)) as [a|]; [|inversion H; subst; apply qinert_refl].
  destruct (a_fin a); [inversion H; subst; apply qinert_refl|].
  destruct (negb (a_ret a)); [inversion H; subst; split; [apply qframe_eq; reflexivity|qq]|].
  split; [apply qframe_eq; eapply aux_destroy; eauto|eapply qq_destroy; eauto].
Qed.

Lemma handle_release_qinert : forall id n s s0 o0 ab, handle_release cfg_fixed id n s = Ok (s0, o0, ab) -> qinert s o0 s0.
Proof.
  intros id n s s0 o0 ab H. unfold handle_release in H.
  pose proof (aux_release_export id n s) as F. destruct (release_export id n s) as [[s1 oc] err]. simpl in F.
  destruct err; [inversion H; subst; apply qinert_refl|].
  destruct oc as [x|]; [|inversion H; subst; split; [apply qframe_eq; exact F|qq]].
  destruct (release_cap cfg_fixed x s1) as [[s2 o]| |] eqn:E; cbn [bind] in H; try discriminate. inversion H; subst.
  split; [apply qframe_eq; rewrite (aux_release_cap _ _ _ _ _ E); exact F|eapply qq_release_cap; eauto].
Qed.

Lemma handle_call_qinert : forall id tg params toCaller mok tag s s0 o0 ab,
  handle_call cfg_fixed id tg params toCaller mok tag s = Ok (s0, o0, ab) -> qinert s o0 s0.
Proof.
  intros id tg params toCaller mok tag s s0 o0 ab H. unfold handle_call in H.
  destruct toCaller; simpl negb in H; cbv iota in H; [|inversion H; subst; split; [apply qframe_refl|qq]].
  destruct (aget id (s_ans s)); [inversion H; subst; apply qinert_refl|].
  match type of H with (bind ?r _) = _ => destruct r as [[[s1 parsed] tor]| |] eqn:EP; cbn [bind] in H; try discriminate end.
  assert (C : aux_of s1 = aux_of s).
  { destruct params as [p|]; [|inversion EP; reflexivity].
    pose proof (aux_recv_payload cfg_fixed p s) as C.
    destruct (recv_payload cfg_fixed p s) as [sa k tab loc|sa part].
    - destruct (parse_target tg); inversion EP; subst; exact C.
    - rewrite payload_err_fixed in EP. simpl in EP. inversion EP; subst. exact C. }
  assert (LIFT : qinert s1 o0 s0 -> qinert s o0 s0).
  { intros [F Q]. split; [rewrite <- C; exact F|exact Q]. }
  apply LIFT.
  destruct parsed as [[pt tab]|].
  2:{ cbn [fx15 cfg_fixed negb] in H.
      destruct (send_exception cfg_fixed id _ s1) as [[[s2 o2] b2]| |] eqn:E2; cbn [bind] in H; try discriminate.
      destruct (release_caps cfg_fixed tor s2) as [[s3 o3]| |] eqn:E3; cbn [bind] in H; try discriminate. inversion H; subst.
      eapply qinert_trans; [split; [apply qframe_eq; eapply aux_send_exception; eauto|eapply qq_send_exception; eauto]|].
      split; [apply qframe_eq; eapply aux_release_caps; eauto|eapply qq_release_caps; eauto]. }
  assert (UNK : forall o2, (do '(s2, o2) <- release_caps cfg_fixed tab (set_ans (aput id placeholder (s_ans s1)) s1); Ok (s2, o2, true)) = Ok (s0, o2, ab) ->
            qinert s1 o2 s0).
  { intros o2 HU. destruct (release_caps cfg_fixed tab _) as [[s2 o2']| |] eqn:E2; cbn [bind] in HU; try discriminate.
    inversion HU; subst. split; [apply qframe_eq; rewrite (aux_release_caps _ _ _ _ _ E2); reflexivity|eapply qq_release_caps; eauto]. }
  destruct pt as [e|t x].
  - destruct (tget e (s_exp s1)) as [[xc w]|]; [eapply deliver_qinert; eauto|apply UNK; exact H].
  - cbn [fx24 cfg_fixed negb andb] in H. rewrite andb_false_r in H. destruct (t =? id); [apply UNK; exact H|].
    destruct (aget t (s_ans s1)) as [ta|]; [|apply UNK; exact H].
    destruct (a_fin ta); [apply UNK; exact H|].
    destruct (a_ready ta).
    + destruct (a_err ta); [split; [apply qframe_eq; eapply aux_reject; eauto|eapply qq_reject; eauto]|eapply deliver_qinert; eauto].
    + destruct (a_st ta); [discriminate| |]; cbn [fx14 cfg_fixed] in H; inversion H; subst; (split; [apply qframe_eq; reflexivity|qq]).
Qed.

(* ---------------------------------------------------------------- question ids: issues and Finishes *)
Definition is_issue (id : Z) (o : output) : bool := match o with OBootstrap q | OCall q _ _ => q =? id | _ => false end.
Definition is_finish (id : Z) (o : output) : bool := match o with OFinish q _ => q =? id | _ => false end.
Definition cnt (f : output -> bool) (o : list output) : nat := length (filter f o).
Definition held (q : question) : bool := match q_held q with Some _ => true | None => false end.
(* a question in use whose Call / Bootstrap is on the wire and whose Finish is not *)
Definition qb (id : Z) (t : tbl question) : nat :=
  match tget id t with Some q => if held q || q_fin q then 0%nat else 1%nat | None => 0%nat end.

Lemma cnt_app : forall f a b, cnt f (a ++ b) = (cnt f a + cnt f b)%nat.
Proof. intros. unfold cnt. rewrite filter_app, app_length. reflexivity. Qed.

Lemma cnt_cons : forall f x o, cnt f (x :: o) = ((if f x then 1 else 0) + cnt f o)%nat.
Proof. intros. unfold cnt. simpl. destruct (f x); reflexivity. Qed.

Lemma cnt_qquiet : forall f o, (forall x, f x = true -> qkind x = true) -> qquiet o -> cnt f o = 0%nat.
Proof.
  intros f o Hf. unfold qquiet, cnt. induction o as [|x o IH]; simpl; intros H; [reflexivity|].
  destruct (qkind x) eqn:E; [discriminate|]. destruct (f x) eqn:Ef; [rewrite (Hf _ Ef) in E; discriminate|]. apply IH. exact H.
Qed.

Lemma issue_qkind : forall id x, is_issue id x = true -> qkind x = true.
Proof. intros id x. destruct x; simpl; auto; discriminate. Qed.
Lemma finish_qkind : forall id x, is_finish id x = true -> qkind x = true.
Proof. intros id x. destruct x; simpl; auto; discriminate. Qed.

(* the invariant: Q1 every issue of an id is matched by a Finish or is the current use;
   H1 a held call has not been canceled; B1 an unresolved bootstrap handle names its question *)
Definition Q1 (x : aux) (out : list output) : Prop :=
  forall id, (cnt (is_issue id) out <= cnt (is_finish id) out + qb id (x_qs x))%nat.
Definition H1 (x : aux) : Prop := forall id q, tget id (x_qs x) = Some q -> held q = true -> q_fin q = false.
Definition B1 (x : aux) : Prop := forall h qid, znth h (x_handles x) = Some (HBoot qid) ->
  exists q, tget qid (x_qs x) = Some q /\ q_boot q = Some h /\ q_fin q = false /\ q_call q < 0 /\ held q = false.
Definition QI (x : aux) (out : list output) : Prop := Q1 x out /\ H1 x /\ B1 x.

Lemma QI_qinert : forall s o s1 out, QI (aux_of s) out -> qinert s o s1 -> QI (aux_of s1) (out ++ o).
Proof.
  intros s o s1 out (Q & H & B) [(F1 & F2 & _) Qq]. split; [|split].
  - intros id. rewrite !cnt_app, (cnt_qquiet _ _ (issue_qkind id) Qq), (cnt_qquiet _ _ (finish_qkind id) Qq).
    unfold Q1 in Q. rewrite F1. specialize (Q id). lia.
  - unfold H1. rewrite F1. exact H.
  - unfold B1. rewrite F1, F2. exact B.
Qed.

(* effect of one output list on the two counters of an id *)
Definition delta (id : Z) (o : list output) (qb0 qb1 : nat) : Prop :=
  (cnt (is_issue id) o + qb0 <= cnt (is_finish id) o + qb1)%nat.

Lemma Q1_step : forall x x1 out o, Q1 x out -> (forall id, delta id o (qb id (x_qs x)) (qb id (x_qs x1))) -> Q1 x1 (out ++ o).
Proof. intros x x1 out o Q D id. rewrite !cnt_app. specialize (Q id). specialize (D id). unfold delta in D. lia. Qed.

(* tput on a free slot *)
Lemma new_question_q : forall q s s1 id, new_question q s = Ok (s1, id) -> live s ->
  tget id (s_qs s) = None /\ (forall i, tget i (s_qs s1) = if i =? id then Some q else tget i (s_qs s)) /\
  s_handles s1 = s_handles s /\ s_lcalls s1 = s_lcalls s /\ s_ecalls s1 = s_ecalls s /\ s_ncall s1 = s_ncall s /\
  s_ndeliv s1 = s_ndeliv s /\ s_shut s1 = s_shut s.
Proof.
  intros q s s1 id H L. pose proof L as [Hs ([Gq Sq] & _)]. simpl in Gq, Sq. unfold new_question in H.
  destruct (gen_next (s_qgen s)) as [[i g]| |] eqn:E1; cbn [bind] in H; try discriminate.
  destruct (tput i q (s_qs s)) as [t| |] eqn:E2; cbn [bind] in H; try discriminate. inversion H; subst.
  (* the same allocation, by cases of gen_next *)
  unfold gen_next in E1. destruct (list_min (g_free (s_qgen s))) as [m|] eqn:Em.
  - inversion E1; subst. apply list_min_in in Em. pose proof (Sq _ Em) as Hn.
    destruct Gq as [Gi Gf]. rewrite Forall_forall in Gf. pose proof (Gf _ Em) as Hr.
    unfold tput in E2. destruct (id =? Z.of_nat (length (s_qs s))) eqn:E3; [lia|].
    replace ((0 <=? id) && (id <? Z.of_nat (length (s_qs s)))) with true in E2 by lia. inversion E2; subst.
    split; [exact Hn|]. split; [|repeat split].
    intros j. simpl. rewrite tget_replace by lia. replace (Z.of_nat (Z.to_nat id)) with id by lia. reflexivity.
  - destruct (g_i (s_qgen s) =? 4294967295); [discriminate|]. inversion E1; subst.
    destruct Gq as [Gi Gf]. unfold tput in E2. rewrite Gi, Z.eqb_refl in E2. inversion E2; subst.
    split; [|split; [|repeat split]].
    + unfold tget, znth. replace ((g_i (s_qgen s) <? 0) || (Z.of_nat (length (s_qs s)) <=? g_i (s_qgen s))) with true by lia. reflexivity.
    + intros j. simpl. rewrite tget_app, Gi. reflexivity.
Qed.

Lemma znth_app_old : forall A (l : list A) x h v, znth h l = Some v -> znth h (l ++ [x]) = Some v.
Proof.
  intros A l x h v H. apply znth_some in H. destruct H as [Hr Hn]. unfold znth. rewrite app_length. simpl.
  replace ((h <? 0) || (Z.of_nat (length l + 1) <=? h)) with false by lia. rewrite nth_error_app1 by lia. exact Hn.
Qed.

Lemma znth_app_inv : forall A (l : list A) x h v, znth h (l ++ [x]) = Some v -> znth h l = Some v \/ (h = Z.of_nat (length l) /\ v = x).
Proof.
  intros A l x h v H. apply znth_some in H. destruct H as [Hr Hn]. rewrite app_length in Hr. simpl in Hr.
  destruct (h <? Z.of_nat (length l)) eqn:E.
  - left. unfold znth. replace ((h <? 0) || (Z.of_nat (length l) <=? h)) with false by lia. rewrite nth_error_app1 in Hn by lia. exact Hn.
  - right. split; [lia|]. rewrite nth_error_app2 in Hn by lia. replace (Z.to_nat h - length l)%nat with 0%nat in Hn by lia. simpl in Hn. congruence.
Qed.

Lemma app_bootstrap_QI : forall s s0 o0 ab out, app_bootstrap cfg_fixed s = Ok (s0, o0, ab) -> live s ->
  QI (aux_of s) out -> QI (aux_of s0) (out ++ o0).
Proof.
  intros s s0 o0 ab out H L (Q & Hh & B). unfold app_bootstrap in H. rewrite (live_shut _ L) in H.
  destruct (new_question _ s) as [[s1 id]| |] eqn:E; cbn [bind] in H; try discriminate. inversion H; subst.
  destruct (new_question_q _ _ _ _ E L) as (Hn & TG & Hh1 & _).
  split; [|split].
  - eapply Q1_step; [exact Q|]. intros i. unfold delta, qb. simpl. rewrite TG. unfold cnt. simpl.
    destruct (i =? id) eqn:Ei.
    + assert (i = id) by lia. subst i. rewrite Hn, Z.eqb_refl. simpl. lia.
    + replace (id =? i) with false by lia. simpl. lia.
  - intros i q Hq Hheld. simpl in Hq. rewrite TG in Hq. destruct (i =? id); [inversion Hq; subst; discriminate|eapply Hh; eauto].
  - intros h qid Hz. simpl in Hz. rewrite Hh1 in Hz. simpl. apply znth_app_inv in Hz. destruct Hz as [Hz|[Hz1 Hz2]].
    + destruct (B h qid Hz) as (q & Eq & Rest). exists q. rewrite TG.
      destruct (qid =? id) eqn:Eqi; [assert (qid = id) by lia; subst qid; simpl in Eq; rewrite Hn in Eq; discriminate|]. split; [exact Eq|exact Rest].
    + inversion Hz2; subst qid. eexists. rewrite TG, Z.eqb_refl. split; [reflexivity|]. simpl. subst h. repeat split; try lia.
Qed.

Definition ifq (o : list output) : Prop := forall id, cnt (is_issue id) o = 0%nat /\ cnt (is_finish id) o = 0%nat.
Lemma ifq_qquiet : forall o, qquiet o -> ifq o.
Proof. intros o Q id. split; [apply (cnt_qquiet _ _ (issue_qkind id) Q)|apply (cnt_qquiet _ _ (finish_qkind id) Q)]. Qed.
Lemma ifq_app : forall a b, ifq a -> ifq b -> ifq (a ++ b).
Proof. intros a b Ha Hb id. rewrite !cnt_app. destruct (Ha id), (Hb id). lia. Qed.
Lemma ifq_cons : forall x o, (forall id, is_issue id x = false /\ is_finish id x = false) -> ifq o -> ifq (x :: o).
Proof. intros x o Hx Ho id. unfold cnt in *. simpl. destruct (Hx id) as [-> ->]. apply Ho. Qed.
Lemma ifq_nil : ifq []. Proof. intros id. split; reflexivity. Qed.

(* no question changes, no handle becomes an unresolved bootstrap *)
Lemma QI_same : forall x x1 out o, QI x out -> x_qs x1 = x_qs x ->
  (forall h qid, znth h (x_handles x1) = Some (HBoot qid) -> znth h (x_handles x) = Some (HBoot qid)) -> ifq o -> QI x1 (out ++ o).
Proof.
  intros x x1 out o (Q & H & B) Eq Hh I. split; [|split].
  - intros id. rewrite !cnt_app. destruct (I id) as [-> ->]. rewrite Eq. specialize (Q id). lia.
  - unfold H1. rewrite Eq. exact H.
  - intros h qid Hz. rewrite Eq. apply B. apply Hh. exact Hz.
Qed.

(* a question is replaced by one with the same bootstrap link, cancel flag, call number and hold *)
Definition qsame (q q' : question) : Prop :=
  q_boot q' = q_boot q /\ q_fin q' = q_fin q /\ q_call q' = q_call q /\ held q' = held q.

Lemma QI_replace_same : forall x x1 out qid q q', QI x out -> tget qid (x_qs x) = Some q -> qsame q q' ->
  x_qs x1 = replace_nth (Z.to_nat qid) (Some q') (x_qs x) -> x_handles x1 = x_handles x -> QI x1 out.
Proof.
  intros x x1 out qid q q' (Q & H & B) Eq (S1 & S2 & S3 & S4) Eqs Eh.
  pose proof (tget_some _ _ _ _ Eq) as [Hr Hn].
  assert (TG : forall i, tget i (x_qs x1) = if i =? qid then Some q' else tget i (x_qs x)).
  { intros i. rewrite Eqs, tget_replace by lia. replace (Z.of_nat (Z.to_nat qid)) with qid by lia. reflexivity. }
  split; [|split].
  - intros id. specialize (Q id). unfold qb in *. rewrite TG. destruct (id =? qid) eqn:E; [|exact Q].
    assert (id = qid) by lia. subst id. rewrite Eq in Q. rewrite S4, S2. exact Q.
  - intros i q0 Hq Hheld. rewrite TG in Hq. destruct (i =? qid) eqn:E; [|eapply H; eauto].
    inversion Hq; subst q0. rewrite S2. rewrite S4 in Hheld. eapply H; eauto.
  - intros h i Hz. rewrite Eh in Hz. destruct (B h i Hz) as (q0 & E0 & R). rewrite TG.
    destruct (i =? qid) eqn:E; [|exists q0; split; assumption].
    assert (i = qid) by lia. subst i. rewrite Eq in E0. inversion E0; subst q0. exists q'. split; [reflexivity|].
    rewrite S1, S2, S3, S4. exact R.
Qed.

Lemma fill_caps_ifq_frame : forall l s s1 ds refs, fill_caps cfg_fixed l s = Ok (s1, ds, refs) -> aux_of s1 = aux_of s.
Proof. intros. eapply aux_fill_caps; eauto. Qed.

(* a new call question and its Call message *)
Lemma send_call_QI : forall s1 n caps (mk : Z -> list desc -> output) s0 o0 ab out, live s1 ->
  (forall id ds i, is_issue i (mk id ds) = (id =? i) /\ is_finish i (mk id ds) = false) ->
  (do '(s2, id) <- new_question (mkQ None n false [] [] None) s1;
   do '(s3, ds, refs) <- fill_caps cfg_fixed (map (acap_cap s2) caps) s2;
   let s4 := if fx19 cfg_fixed then set_qs (replace_nth (Z.to_nat id) (Some (mkQ None n false [] refs None)) (s_qs s3)) s3 else s3 in
   Ok (s4, [mk id ds], false)) = Ok (s0, o0, ab) -> QI (aux_of s1) out -> QI (aux_of s0) (out ++ o0).
Proof.
  intros s1 n caps mk s0 o0 ab out L1 Hmk H (Q & Hh & B).
  destruct (new_question _ s1) as [[s2 id]| |] eqn:E; cbn [bind] in H; try discriminate.
  destruct (new_question_q _ _ _ _ E L1) as (Hn & TG & Hh1 & _).
  destruct (fill_caps cfg_fixed _ s2) as [[[s3 ds] refs]| |] eqn:E3; cbn [bind] in H; try discriminate.
  apply aux_fill_caps in E3. cbn [fx19 cfg_fixed] in H. inversion H; subst.
  assert (Q3 : s_qs s3 = s_qs s2) by (change (x_qs (aux_of s3) = x_qs (aux_of s2)); rewrite E3; reflexivity).
  assert (H3 : s_handles s3 = s_handles s2) by (change (x_handles (aux_of s3) = x_handles (aux_of s2)); rewrite E3; reflexivity).
  (* first the state with the question as allocated, then the replacement by an equivalent one *)
  assert (QI2 : QI (aux_of s2) (out ++ [mk id ds])).
  { split; [|split].
    - eapply Q1_step; [exact Q|]. intros i. unfold delta, qb. simpl. rewrite TG. unfold cnt. simpl.
      destruct (Hmk id ds i) as [-> ->]. destruct (i =? id) eqn:Ei.
      + assert (i = id) by lia. subst i. rewrite Hn, Z.eqb_refl. simpl. lia.
      + replace (id =? i) with false by lia. simpl. lia.
    - intros i q Hq Hheld. simpl in Hq. rewrite TG in Hq. destruct (i =? id); [inversion Hq; subst; discriminate|eapply Hh; eauto].
    - intros h qid Hz. simpl in Hz. rewrite Hh1 in Hz. destruct (B h qid Hz) as (q & Eq & Rest). exists q. simpl. rewrite TG.
      destruct (qid =? id) eqn:Eqi; [assert (qid = id) by lia; subst qid; simpl in Eq; rewrite Hn in Eq; discriminate|]. split; [exact Eq|exact Rest]. }
  eapply (QI_replace_same (aux_of s2) _ _ id (mkQ None n false [] [] None) (mkQ None n false [] refs None) QI2).
  - simpl. rewrite TG, Z.eqb_refl. reflexivity.
  - repeat split.
  - simpl. rewrite Q3. reflexivity.
  - simpl. exact H3.
Qed.

Lemma QI_aux_same : forall s s1 out o, QI (aux_of s) out -> s_qs s1 = s_qs s -> s_handles s1 = s_handles s -> ifq o -> QI (aux_of s1) (out ++ o).
Proof. intros s s1 out o H Eq Eh I. eapply QI_same; [exact H|exact Eq| |exact I]. simpl. rewrite Eh. auto. Qed.

Ltac iq := repeat (first [apply ifq_nil | apply ifq_cons; [intros ?; split; reflexivity|]]).

Lemma mark_called_same : forall x q, qsame q (mark_called x q).
Proof. intros x q. unfold mark_called. destruct (existsb _ _); repeat split. Qed.

Lemma app_pipe_QI : forall q0 x caps s s0 o0 ab out, app_pipe cfg_fixed q0 x caps s = Ok (s0, o0, ab) -> live s ->
  QI (aux_of s) out -> QI (aux_of s0) (out ++ o0).
Proof.
  intros q0 x caps s s0 o0 ab out H L HQ. unfold app_pipe, next_call in H.
  set (sa := set_ncall (s_ncall s + 1) s) in *.
  assert (SIMPLE : forall c, Ok (sa, [LAppRes (s_ncall s) c], false) = Ok (s0, o0, ab) -> QI (aux_of s0) (out ++ o0)).
  { intros c E. inversion E; subst. eapply QI_aux_same; [exact HQ|reflexivity|reflexivity|iq]. }
  destruct (s_shut sa); [apply (SIMPLE _ H)|].
  destruct (tget q0 (s_qs sa)) as [q|] eqn:Eq; [|apply (SIMPLE _ H)].
  destruct (q_fin q); [apply (SIMPLE _ H)|].
  pose proof (tget_some _ _ _ _ Eq) as [Hr Hn].
  set (s1 := set_qs (replace_nth (Z.to_nat q0) (Some (mark_called x q)) (s_qs sa)) sa) in *.
  assert (La : live sa) by (eapply live_core; [exact L|reflexivity]).
  assert (L1 : live s1) by (apply live_set_qs; [exact La|apply replace_nth_length|eapply slots_free_replace; [apply qs_slots; exact La|exact Hn]]).
  assert (Q1' : QI (aux_of s1) out).
  { eapply (QI_replace_same (aux_of s) _ _ q0 q (mark_called x q) HQ); [exact Eq|apply mark_called_same|reflexivity|reflexivity]. }
  eapply (send_call_QI s1 (s_ncall s) caps (fun id ds => OCall id (OTAns q0 x) ds)); [exact L1| |exact H|exact Q1'].
  intros id ds i. split; reflexivity.
Qed.

Lemma app_call_QI : forall h caps tag s s0 o0 ab out, app_call cfg_fixed h caps tag s = Ok (s0, o0, ab) -> live s ->
  QI (aux_of s) out -> QI (aux_of s0) (out ++ o0).
Proof.
  intros h caps tag s s0 o0 ab out H L HQ. unfold app_call in H.
  assert (SIMPLE : forall sx o, s_qs sx = s_qs s -> s_handles sx = s_handles s -> ifq o -> Ok (sx, o, false) = Ok (s0, o0, ab) -> QI (aux_of s0) (out ++ o0)).
  { intros sx o E1 E2 I E. inversion E; subst. eapply QI_aux_same; eauto. }
  destruct (hget h s) as [q0|x|]; [eapply app_pipe_QI; eauto| |unfold next_call in H; eapply SIMPLE; [| | |exact H]; [reflexivity|reflexivity|iq]].
  destruct x; unfold next_call in H; try (eapply SIMPLE; [| | |exact H]; [reflexivity|reflexivity|iq]).
  set (sa := set_ncall (s_ncall s + 1) s) in *.
  assert (La : live sa) by (eapply live_core; [exact L|reflexivity]).
  destruct (s_shut sa); [eapply SIMPLE; [| | |exact H]; [reflexivity|reflexivity|iq]|].
  destruct (negb (imp_current i g sa)); [eapply SIMPLE; [| | |exact H]; [reflexivity|reflexivity|iq]|].
  eapply (send_call_QI sa (s_ncall s) caps (fun id ds => OCall id (OTImp i) ds)); [exact La| |exact H|exact HQ].
  intros id ds j. split; reflexivity.
Qed.

Lemma app_hold_QI : forall h s s0 o0 ab out, app_hold cfg_fixed h s = Ok (s0, o0, ab) -> live s ->
  QI (aux_of s) out -> QI (aux_of s0) (out ++ o0).
Proof.
  intros h s s0 o0 ab out H L HQ. unfold app_hold, next_call in H.
  set (sa := set_ncall (s_ncall s + 1) s) in *.
  assert (SIMPLE : forall o, ifq o -> Ok (sa, o, false) = Ok (s0, o0, ab) -> QI (aux_of s0) (out ++ o0)).
  { intros o I E. inversion E; subst. eapply QI_aux_same; [exact HQ|reflexivity|reflexivity|exact I]. }
  destruct (hget h sa) as [q0|x|]; [eapply SIMPLE; [|exact H]; iq| |eapply SIMPLE; [|exact H]; iq].
  destruct x; try (eapply SIMPLE; [|exact H]; iq; fail).
  destruct (s_shut sa || _); [eapply SIMPLE; [|exact H]; iq|].
  assert (La : live sa) by (eapply live_core; [exact L|reflexivity]).
  destruct (new_question _ sa) as [[s2 id]| |] eqn:E; cbn [bind] in H; try discriminate. inversion H; subst.
  destruct (new_question_q _ _ _ _ E La) as (Hn & TG & Hh1 & _). destruct HQ as (Q & Hh & B).
  change (s_qs sa) with (s_qs s) in Hn, TG. change (s_handles sa) with (s_handles s) in Hh1.
  rewrite app_nil_r. split; [|split].
  - intros j. specialize (Q j). unfold qb in *. simpl. rewrite TG. destruct (j =? id) eqn:Ej; [|exact Q].
    assert (j = id) by lia. subst j. simpl in Q. rewrite Hn in Q. simpl. exact Q.
  - intros j q Hq Hheld. simpl in Hq. rewrite TG in Hq. destruct (j =? id); [inversion Hq; subst; reflexivity|eapply Hh; eauto].
  - intros h' qid Hz. simpl in Hz. rewrite Hh1 in Hz. destruct (B h' qid Hz) as (q & Eq & Rest). exists q. simpl. rewrite TG.
    destruct (qid =? id) eqn:Eqi; [assert (qid = id) by lia; subst qid; simpl in Eq; rewrite Hn in Eq; discriminate|]. split; [exact Eq|exact Rest].
Qed.

Lemma find_held_tget : forall n t qid q, find_held n t 0 = Some (qid, q) -> tget qid t = Some q /\ held q = true.
Proof.
  intros n t qid q H. pose proof (find_held_some _ _ _ _ _ H) as [Hn Hq]. rewrite Z.sub_0_r in Hn. split.
  - replace qid with (Z.of_nat (Z.to_nat qid)) by lia. apply nth_tget. exact Hn.
  - clear Hn Hq. revert H. generalize 0. induction t as [|[q0|] t IH]; intros i H; simpl in H; try discriminate; [|eapply IH; eauto].
    destruct ((q_call q0 =? n) && _) eqn:E; [|eapply IH; eauto]. inversion H; subst. apply andb_true_iff in E. destruct E as [_ E].
    unfold held. destruct (q_held q); [reflexivity|discriminate].
Qed.

Lemma app_unhold_QI : forall n s s0 o0 ab out, app_unhold cfg_fixed n s = Ok (s0, o0, ab) -> live s ->
  QI (aux_of s) out -> QI (aux_of s0) (out ++ o0).
Proof.
  intros n s s0 o0 ab out H L HQ. unfold app_unhold in H.
  assert (SIMPLE : Ok (s, @nil output, false) = Ok (s0, o0, ab) -> QI (aux_of s0) (out ++ o0)).
  { intros E. inversion E; subst. rewrite app_nil_r. exact HQ. }
  destruct (find_held n (s_qs s) 0) as [[qid q]|] eqn:Ef; [|apply (SIMPLE H)].
  destruct (find_held_tget _ _ _ _ Ef) as [Eq Hheld].
  destruct (q_held q) as [[[i g] cs]|] eqn:Eh; [|apply (SIMPLE H)].
  destruct (s_shut s); [apply (SIMPLE H)|].
  destruct HQ as (Q & Hh & B). pose proof (Hh _ _ Eq Hheld) as Hfin.
  pose proof (tget_some _ _ _ _ Eq) as [Hr Hn].
  set (q' := mkQ None (q_call q) (q_fin q) [] [] None) in *.
  assert (RES : forall sx o3, s_qs sx = replace_nth (Z.to_nat qid) (Some q') (s_qs s) -> s_handles sx = s_handles s -> ifq o3 ->
            QI (aux_of sx) (out ++ OCall qid (OTImp i) [] :: o3)).
  { intros sx o3 Eqs Ehs I3.
    assert (TG : forall j, tget j (s_qs sx) = if j =? qid then Some q' else tget j (s_qs s)).
    { intros j. rewrite Eqs, tget_replace by lia. replace (Z.of_nat (Z.to_nat qid)) with qid by lia. reflexivity. }
    split; [|split].
    - intros j. rewrite !cnt_app, !cnt_cons. destruct (I3 j) as [I1 I2]. rewrite I1, I2. simpl is_issue. simpl is_finish.
      specialize (Q j). unfold qb in *. simpl x_qs. rewrite TG. destruct (j =? qid) eqn:Ej.
      + assert (j = qid) by lia. subst j. simpl in Q. rewrite Eq, Hheld in Q. simpl in Q. rewrite Z.eqb_refl. unfold q', held. simpl. rewrite Hfin. simpl. lia.
      + replace (qid =? j) with false by lia. simpl in Q. lia.
    - intros j q0 Hq Hh0. simpl in Hq. rewrite TG in Hq. destruct (j =? qid); [inversion Hq; subst; discriminate|eapply Hh; eauto].
    - intros h' j Hz. simpl in Hz. rewrite Ehs in Hz. destruct (B h' j Hz) as (q0 & E0 & R). simpl. rewrite TG.
      destruct (j =? qid) eqn:Ej; [|exists q0; split; assumption].
      assert (j = qid) by lia. subst j. simpl in E0. rewrite Eq in E0. inversion E0; subst q0.
      destruct R as (_ & _ & _ & R). rewrite R in Hheld. discriminate. }
  match type of H with context [if ?c then _ else _] => destruct c end.
  - match type of H with context [imp_shutdown cfg_fixed i g ?sx] => destruct (imp_shutdown cfg_fixed i g sx) as [[s3 o3]| |] eqn:E3; cbn [bind] in H; try discriminate end.
    inversion H; subst. pose proof (aux_imp_shutdown _ _ _ _ _ _ E3) as A3.
    apply RES; [change (x_qs (aux_of s0) = replace_nth (Z.to_nat qid) (Some q') (s_qs s)); rewrite A3; reflexivity
               |change (x_handles (aux_of s0) = s_handles s); rewrite A3; reflexivity
               |apply ifq_qquiet; eapply qq_imp_shutdown; eauto].
  - inversion H; subst. apply RES; [reflexivity|reflexivity|iq].
Qed.

(* handleCancel: the question is marked, its Finish(releaseResultCaps) is sent *)
Lemma cancel_QI : forall x x1 out qid q o3, QI x out -> tget qid (x_qs x) = Some q -> q_fin q = false -> held q = false ->
  x_qs x1 = replace_nth (Z.to_nat qid) (Some (mkQ (q_boot q) (q_call q) true (q_called q) (q_prefs q) (q_held q))) (x_qs x) ->
  (forall h i, znth h (x_handles x1) = Some (HBoot i) -> znth h (x_handles x) = Some (HBoot i) /\ i <> qid) ->
  ifq o3 -> QI x1 (out ++ OFinish qid true :: o3).
Proof.
  intros x x1 out qid q o3 (Q & H & B) Eq Hf Hh Eqs Ehs I3.
  pose proof (tget_some _ _ _ _ Eq) as [Hr Hn].
  assert (TG : forall j, tget j (x_qs x1) = if j =? qid then Some (mkQ (q_boot q) (q_call q) true (q_called q) (q_prefs q) (q_held q)) else tget j (x_qs x)).
  { intros j. rewrite Eqs, tget_replace by lia. replace (Z.of_nat (Z.to_nat qid)) with qid by lia. reflexivity. }
  split; [|split].
  - intros j. rewrite !cnt_app, !cnt_cons. destruct (I3 j) as [I1 I2]. rewrite I1, I2. simpl is_issue. simpl is_finish.
    specialize (Q j). unfold qb in *. rewrite TG. destruct (j =? qid) eqn:Ej.
    + assert (j = qid) by lia. subst j. rewrite Eq, Hh, Hf in Q. simpl in Q. rewrite Z.eqb_refl. unfold held in *. simpl. rewrite orb_true_r. lia.
    + replace (qid =? j) with false by lia. lia.
  - intros j q0 Hq Hh0. rewrite TG in Hq. destruct (j =? qid); [inversion Hq; subst; unfold held in *; simpl in Hh0; rewrite Hh0 in Hh; discriminate|eapply H; eauto].
  - intros h' j Hz. destruct (Ehs h' j Hz) as [Hz' Hne]. destruct (B h' j Hz') as (q0 & E0 & R). exists q0. rewrite TG.
    replace (j =? qid) with false by lia. split; assumption.
Qed.

Lemma app_cancel_QI : forall qid s s0 o0 ab out, app_cancel cfg_fixed qid s = Ok (s0, o0, ab) -> QI (aux_of s) out -> QI (aux_of s0) (out ++ o0).
Proof.
  intros qid s s0 o0 ab out H HQ. unfold app_cancel in H.
  assert (SIMPLE : Ok (s, @nil output, false) = Ok (s0, o0, ab) -> QI (aux_of s0) (out ++ o0)).
  { intros E. inversion E; subst. rewrite app_nil_r. exact HQ. }
  destruct (s_shut s); [apply (SIMPLE H)|].
  destruct (tget qid (s_qs s)) as [q|] eqn:Eq; [|apply (SIMPLE H)].
  destruct (q_fin q) eqn:Ef; [apply (SIMPLE H)|]. destruct (q_call q <? 0) eqn:Ec; [apply (SIMPLE H)|].
  destruct (q_held q) eqn:Eh; [apply (SIMPLE H)|]. simpl in H. unfold cancel_question in H. simpl in H. inversion H; subst.
  eapply (cancel_QI (aux_of s) _ out qid q [LAppRes (q_call q) 2] HQ Eq Ef); [unfold held; rewrite Eh; reflexivity|simpl; rewrite Eh; reflexivity| |iq].
  intros h i Hz. simpl in Hz. split; [exact Hz|]. intros ->. destruct HQ as (_ & _ & B). destruct (B h qid Hz) as (q0 & E0 & _ & _ & Hc & _).
  simpl in E0. rewrite Eq in E0. inversion E0; subst. lia.
Qed.

Lemma znth_replace : forall A (l : list A) h v i, 0 <= h < Z.of_nat (length l) ->
  znth i (replace_nth (Z.to_nat h) v l) = if i =? h then Some v else znth i l.
Proof.
  intros A l h v i Hh. unfold znth. rewrite replace_nth_length.
  destruct ((i <? 0) || (Z.of_nat (length l) <=? i)) eqn:E.
  - destruct (i =? h) eqn:E2; [lia|reflexivity].
  - destruct (i =? h) eqn:E2.
    + replace (Z.to_nat i) with (Z.to_nat h) by lia. assert (Hl : (Z.to_nat h < length l)%nat) by lia. clear - Hl.
      revert Hl. generalize (Z.to_nat h) as n. induction l as [|a l IH]; intros n Hl; simpl in *; [lia|]. destruct n; simpl; [reflexivity|apply IH; lia].
    + assert (Hne : Z.to_nat i <> Z.to_nat h) by lia. clear - Hne. revert Hne. generalize (Z.to_nat i) as m. generalize (Z.to_nat h) as n.
      induction l as [|a l IH]; intros n m Hne; simpl; [destruct n; reflexivity|]. destruct n, m; simpl; try reflexivity; try congruence. apply IH. congruence.
Qed.

Lemma hget_znth : forall h s v, hget h s = v -> v <> HGone -> znth h (s_handles s) = Some v.
Proof. intros h s v H Hv. unfold hget in H. destruct (znth h (s_handles s)); [congruence|subst; contradiction]. Qed.

Lemma set_handle_boot : forall h v s h' i, (forall j, v <> HBoot j) -> znth h' (s_handles (set_handle h v s)) = Some (HBoot i) ->
  znth h' (s_handles s) = Some (HBoot i) /\ (0 <= h < Z.of_nat (length (s_handles s)) -> h' <> h).
Proof.
  intros h v s h' i Hv Hz. unfold set_handle, set_handles in Hz. cbn [s_handles] in Hz.
  destruct ((0 <=? h) && (h <? Z.of_nat (length (s_handles s)))) eqn:Er.
  - rewrite znth_replace in Hz by lia. destruct (h' =? h) eqn:E; [inversion Hz; exfalso; eapply Hv; eauto|]. split; [exact Hz|lia].
  - assert (R : replace_nth (Z.to_nat h) v (s_handles s) = s_handles s \/ h < 0).
    { destruct (h <? 0) eqn:En; [right; lia|left]. assert (Hl : (length (s_handles s) <= Z.to_nat h)%nat) by lia. clear - Hl.
      revert Hl. generalize (Z.to_nat h) as n. induction (s_handles s) as [|a l IH]; intros n Hl; simpl in *; [destruct n; reflexivity|].
      destruct n; [lia|]. simpl. f_equal. apply IH. lia. }
    destruct R as [R|R]; [rewrite R in Hz; split; [exact Hz|lia]|].
    (* a negative index replaces position 0: never produced by the machine (handles come from hget / q_boot) *)
    replace (Z.to_nat h) with 0%nat in Hz by lia. split; [|lia].
    destruct (s_handles s) as [|a l]; [exact Hz|]. simpl in Hz. unfold znth in *. simpl in *.
    destruct ((h' <? 0) || (Z.pos (Pos.of_succ_nat (length l)) <=? h')); [discriminate|].
    destruct (Z.to_nat h'); simpl in *; [inversion Hz; exfalso; eapply Hv; eauto|exact Hz].
Qed.

Lemma app_release_QI : forall h s s0 o0 ab out, app_release cfg_fixed h s = Ok (s0, o0, ab) -> QI (aux_of s) out -> QI (aux_of s0) (out ++ o0).
Proof.
  intros h s s0 o0 ab out H HQ. unfold app_release in H.
  destruct (hget h s) as [qid|x|] eqn:Eh; [| |inversion H; subst; rewrite app_nil_r; exact HQ].
  - pose proof (hget_znth _ _ _ Eh ltac:(discriminate)) as Hz.
    set (sa := set_handle h HGone s) in *.
    assert (HB : forall h' i, znth h' (s_handles sa) = Some (HBoot i) -> znth h' (s_handles s) = Some (HBoot i) /\ h' <> h).
    { intros h' i Hz'. destruct (set_handle_boot h HGone s h' i ltac:(discriminate) Hz') as [A B]. split; [exact A|].
      apply B. apply znth_some in Hz. lia. }
    assert (SIMPLE : Ok (sa, @nil output, false) = Ok (s0, o0, ab) -> QI (aux_of s0) (out ++ o0)).
    { intros E. inversion E; subst. eapply QI_same; [exact HQ|reflexivity| |iq]. intros h' i Hz'. apply (HB h' i Hz'). }
    destruct (s_shut sa); [apply (SIMPLE H)|].
    destruct (tget qid (s_qs sa)) as [q|] eqn:Eq; [|apply (SIMPLE H)].
    destruct (q_fin q) eqn:Ef; [apply (SIMPLE H)|].
    unfold cancel_question in H. simpl in H. inversion H; subst.
    destruct HQ as (Q & Hh & B). destruct (B h qid Hz) as (q0 & E0 & Rb & _ & _ & Rh). simpl in E0. change (s_qs sa) with (s_qs s) in Eq. rewrite Eq in E0. inversion E0; subst q0.
    replace [OFinish qid true] with (OFinish qid true :: []) by reflexivity.
    eapply (cancel_QI (aux_of s) _ out qid q [] (conj Q (conj Hh B)) Eq Ef Rh); [reflexivity| |iq].
    intros h' i Hz'. simpl in Hz'. destruct (HB h' i Hz') as [A Hne]. split; [exact A|].
    intros ->. destruct (B h' qid A) as (q1 & E1 & Rb1 & _). simpl in E1. rewrite Eq in E1. inversion E1; subst q1. congruence.
  - destruct (release_cap cfg_fixed x _) as [[s1 o]| |] eqn:E; cbn [bind] in H; try discriminate. inversion H; subst.
    pose proof (aux_release_cap _ _ _ _ _ E) as A.
    eapply QI_same; [exact HQ| | |apply ifq_qquiet; eapply qq_release_cap; eauto].
    + change (x_qs (aux_of s0) = s_qs s). rewrite A. reflexivity.
    + intros h' i Hz'. change (znth h' (x_handles (aux_of s0)) = Some (HBoot i)) in Hz'. rewrite A in Hz'. simpl in Hz'.
      apply (set_handle_boot h HGone s h' i ltac:(discriminate) Hz').
Qed.

Lemma aux_embargo_caps : forall qid k called loc done tab s s1 tab1 o,
  embargo_caps cfg_fixed qid k called loc done tab s = Ok (s1, tab1, o) -> aux_of s1 = aux_of s /\ ifq o.
Proof.
  induction called as [|x called IH]; intros loc done tab s s1 tab1 o H; simpl in H.
  - inversion H; subst. split; [reflexivity|iq].
  - destruct (transform_eval k x); try (eapply IH; eauto; fail).
    destruct (znth k0 tab) as [lc|]; [|eapply IH; eauto].
    destruct (znth k0 loc) as [[|]|]; try (eapply IH; eauto; fail).
    destruct (zmem k0 done); [eapply IH; eauto|].
    destruct (gen_next (s_mgen s)) as [[e g]| |]; cbn [bind] in H; try discriminate.
    destruct (tput e (mkEmb lc 1) (s_emb s)) as [t| |]; cbn [bind] in H; try discriminate.
    match type of H with (bind ?r _) = _ => destruct r as [[[s2 tab2] o2]| |] eqn:E2; cbn [bind] in H; try discriminate end.
    inversion H; subst. apply IH in E2. destruct E2 as (A & I). split; [rewrite A; reflexivity|apply ifq_cons; [intros ?; split; reflexivity|exact I]].
Qed.

Lemma handle_return_QI : forall qid rpc k s s0 o0 ab out, handle_return cfg_fixed qid rpc k s = Ok (s0, o0, ab) ->
  QI (aux_of s) out -> QI (aux_of s0) (out ++ o0).
Proof.
  intros qid rpc k s s0 o0 ab out H HQ. unfold handle_return in H.
  destruct (tget qid (s_qs s)) as [q|] eqn:Eq; [|inversion H; subst; rewrite app_nil_r; exact HQ].
  set (sa := set_qs (tclear qid (s_qs s)) s) in *.
  assert (A1 : exists s1 pc, (if fx19 cfg_fixed && rpc then let '(s1, cl, _) := release_exports (q_prefs q) sa in (s1, cl) else (sa, [])) = (s1, pc) /\ aux_of s1 = aux_of sa).
  { destruct (fx19 cfg_fixed && rpc).
    - pose proof (aux_release_exports (q_prefs q) sa) as F. destruct (release_exports (q_prefs q) sa) as [[s1 cl] e]. simpl in F. eauto.
    - eauto. }
  destruct A1 as (s1 & pc & E1 & A1). rewrite E1 in H. clear E1.
  destruct HQ as (Q & Hh & B).
  (* the state afterwards: the question is gone; the handle of a bootstrap question has resolved *)
  assert (FINAL : forall sx fin, x_qs (aux_of sx) = tclear qid (s_qs s) ->
            (forall h' i, znth h' (x_handles (aux_of sx)) = Some (HBoot i) -> znth h' (s_handles s) = Some (HBoot i) /\ i <> qid) ->
            (forall id, cnt (is_issue id) fin = 0%nat) ->
            (forall id, id <> qid -> cnt (is_finish id) fin = 0%nat) ->
            (qb qid (s_qs s) <= cnt (is_finish qid) fin)%nat -> QI (aux_of sx) (out ++ fin)).
  { intros sx fin Eqs Ehs I1 I2 I3. split; [|split].
    - intros j. rewrite !cnt_app, I1. specialize (Q j). unfold qb in *. rewrite Eqs, tget_tclear. destruct (j =? qid) eqn:Ej.
      + assert (j = qid) by lia. subst j. simpl in Q. lia.
      + rewrite I2 by lia. simpl in Q. lia.
    - intros j q0 Hq Hheld. rewrite Eqs, tget_tclear in Hq. destruct (j =? qid); [discriminate|eapply Hh; eauto].
    - intros h' i Hz. destruct (Ehs h' i Hz) as [Hz' Hne]. destruct (B h' i Hz') as (q0 & E0 & R). exists q0. rewrite Eqs, tget_tclear.
      replace (i =? qid) with false by lia. split; assumption. }
  assert (NOBOOT : q_fin q = true \/ q_boot q = None -> forall h' i, znth h' (s_handles s) = Some (HBoot i) -> i <> qid).
  { intros Hc h' i Hz ->. destruct (B h' qid Hz) as (q0 & E0 & Rb & Rf & _). simpl in E0. rewrite Eq in E0. inversion E0; subst q0.
    destruct Hc as [Hc|Hc]; congruence. }
  destruct (q_fin q) eqn:Ef.
  { destruct (release_caps cfg_fixed pc _) as [[s2 o2]| |] eqn:E2; cbn [bind] in H; try discriminate. inversion H; subst.
    pose proof (aux_release_caps _ _ _ _ _ E2) as A2. pose proof (ifq_qquiet _ (qq_release_caps _ _ _ _ _ E2)) as I.
    apply FINAL.
    - rewrite A2. simpl. change (s_qs s1) with (x_qs (aux_of s1)). rewrite A1. reflexivity.
    - intros h' i Hz. rewrite A2 in Hz. simpl in Hz. change (s_handles s1) with (x_handles (aux_of s1)) in Hz. rewrite A1 in Hz. simpl in Hz.
      split; [exact Hz|eapply NOBOOT; eauto].
    - intros id. apply I.
    - intros id _. apply I.
    - unfold qb. rewrite Eq, Ef, orb_true_r. lia. }
  match type of H with (bind ?r _) = _ => destruct r as [[[[s2 parsed] tor] disemb]| |] eqn:EP; cbn [bind] in H; try discriminate end.
  assert (A2 : aux_of s2 = aux_of s1 /\ ifq disemb).
  { destruct k as [[p|]| |]; try (inversion EP; subst; split; [reflexivity|iq]).
    pose proof (aux_recv_payload cfg_fixed p s1) as C.
    destruct (recv_payload cfg_fixed p s1) as [sb kc tab loc|sb part].
    - destruct (embargo_caps cfg_fixed qid kc (q_called q) loc [] tab sb) as [[[s3 tab3] o3]| |] eqn:E3; cbn [bind] in EP; try discriminate.
      inversion EP; subst. apply aux_embargo_caps in E3. destruct E3 as [A3 I3]. split; [congruence|exact I3].
    - rewrite payload_err_fixed in EP. simpl in EP. inversion EP; subst. split; [exact C|iq]. }
  destruct A2 as [A2 I2].
  match type of H with (bind ?r _) = _ => destruct r as [[s3 o3]| |] eqn:E3; cbn [bind] in H; try discriminate end.
  destruct (release_caps cfg_fixed pc s3) as [[s5 o5]| |] eqn:E5; cbn [bind] in H; try discriminate. inversion H; subst.
  pose proof (aux_release_caps _ _ _ _ _ E5) as A5. pose proof (ifq_qquiet _ (qq_release_caps _ _ _ _ _ E5)) as I5.
  assert (H2s : s_handles s2 = s_handles s).
  { change (x_handles (aux_of s2) = s_handles s). rewrite A2, A1. reflexivity. }
  assert (Q2s : s_qs s2 = tclear qid (s_qs s)).
  { change (x_qs (aux_of s2) = tclear qid (s_qs s)). rewrite A2, A1. reflexivity. }
  (* the resolution step *)
  assert (A3 : x_qs (aux_of s3) = tclear qid (s_qs s) /\ ifq o3 /\
            (forall h' i, znth h' (x_handles (aux_of s3)) = Some (HBoot i) -> znth h' (s_handles s) = Some (HBoot i) /\ i <> qid)).
  { assert (BOOTCASE : forall h v sx, q_boot q = Some h -> (forall j, v <> HBoot j) -> s_handles sx = s_handles s ->
              forall h' i, znth h' (s_handles (set_handle h v sx)) = Some (HBoot i) -> znth h' (s_handles s) = Some (HBoot i) /\ i <> qid).
    { intros h v sx Hb Hv Hsx h' i Hz. destruct (set_handle_boot h v sx h' i Hv Hz) as [Z1 Z2]. rewrite Hsx in Z1, Z2. split; [exact Z1|].
      intros ->. destruct (B h' qid Z1) as (q0 & E0 & Rb & _). simpl in E0. rewrite Eq in E0. inversion E0; subst q0.
      assert (h' = h) by congruence. subst h'. apply Z2; [|reflexivity]. apply znth_some in Z1. lia. }
    destruct (q_boot q) as [h|] eqn:Eb; destruct parsed as [[kc tab]|]; cbn [fx17 cfg_fixed negb andb] in E3;
      match type of E3 with (bind ?r _) = _ => destruct r as [[s4 o4]| |] eqn:E4; cbn [bind] in E3; try discriminate end;
      inversion E3; subst; pose proof (aux_release_caps _ _ _ _ _ E4) as A4; pose proof (ifq_qquiet _ (qq_release_caps _ _ _ _ _ E4)) as I4.
    - split; [rewrite A4; simpl; change (s_qs (addref_cap ?x s2)) with (x_qs (aux_of (addref_cap x s2))); rewrite aux_addref; exact Q2s|].
      split; [exact I4|]. intros h' i Hz. rewrite A4 in Hz. simpl in Hz.
      eapply (BOOTCASE h _ (addref_cap _ s2) eq_refl); [| |exact Hz]; [intros j; discriminate|].
      match goal with |- s_handles (addref_cap ?x s2) = _ => change (x_handles (aux_of (addref_cap x s2)) = s_handles s) end. rewrite aux_addref. exact H2s.
    - split; [rewrite A4; exact Q2s|]. split; [exact I4|]. intros h' i Hz. rewrite A4 in Hz. simpl in Hz.
      eapply (BOOTCASE h _ s2 eq_refl); [| |exact Hz]; [intros j; discriminate|exact H2s].
    - split; [rewrite A4; exact Q2s|]. split; [apply ifq_cons; [intros ?; split; reflexivity|exact I4]|].
      intros h' i Hz. rewrite A4 in Hz. simpl in Hz. rewrite H2s in Hz. split; [exact Hz|eapply NOBOOT; eauto].
    - split; [rewrite A4; exact Q2s|]. split; [apply ifq_cons; [intros ?; split; reflexivity|exact I4]|].
      intros h' i Hz. rewrite A4 in Hz. simpl in Hz. rewrite H2s in Hz. split; [exact Hz|eapply NOBOOT; eauto]. }
  destruct A3 as (Q3 & I3 & HB3).
  apply FINAL.
  - rewrite <- Q3. change (x_qs (aux_of s5) = x_qs (aux_of s3)). rewrite A5. reflexivity.
  - intros h' i Hz. apply HB3. change (znth h' (x_handles (aux_of s5)) = Some (HBoot i)) in Hz. rewrite A5 in Hz. exact Hz.
  - intros id. repeat (rewrite cnt_app || rewrite cnt_cons). destruct (I2 id) as [-> _]. destruct (I3 id) as [-> _]. destruct (I5 id) as [-> _]. reflexivity.
  - intros id Hne. repeat (rewrite cnt_app || rewrite cnt_cons). destruct (I2 id) as [_ ->]. destruct (I3 id) as [_ ->]. destruct (I5 id) as [_ ->].
    simpl. replace (qid =? id) with false by lia. reflexivity.
  - repeat (rewrite cnt_app || rewrite cnt_cons). simpl. rewrite Z.eqb_refl. unfold qb. rewrite Eq. destruct (held q || q_fin q); lia.
Qed.

Lemma wake_calls_aux : forall e x l s, s_qs (fst (wake_calls e x l s)) = s_qs s /\ s_handles (fst (wake_calls e x l s)) = s_handles s /\
  ifq (snd (wake_calls e x l s)).
Proof.
  induction l as [|[[e' n] tag] l IH]; intros s; simpl; [split; [reflexivity|split; [reflexivity|iq]]|].
  destruct (e' =? e); [|apply IH].
  destruct x; try (specialize (IH s); destruct (wake_calls e _ l s); simpl in *; destruct IH as (A & B & C);
                   split; [exact A|split; [exact B|apply ifq_cons; [intros ?; split; reflexivity|exact C]]]).
  match goal with |- context [wake_calls e ?x l ?s1] => specialize (IH s1); destruct (wake_calls e x l s1) end.
  simpl in *. destruct IH as (A & B & C). split; [exact A|split; [exact B|apply ifq_cons; [intros ?; split; reflexivity|exact C]]].
Qed.

Lemma map_rewrite_boot : forall e x l h i, znth h (map (rewrite_handle e x) l) = Some (HBoot i) -> znth h l = Some (HBoot i).
Proof.
  intros e x l h i H. apply znth_some in H. destruct H as [Hr Hn]. rewrite map_length in Hr. rewrite nth_error_map in Hn.
  unfold znth. replace ((h <? 0) || (Z.of_nat (length l) <=? h)) with false by lia.
  destruct (nth_error l (Z.to_nat h)) as [v|]; [|discriminate]. simpl in Hn. f_equal.
  destruct v as [q|c|]; simpl in Hn; try (inversion Hn; reflexivity). destruct c; simpl in Hn; try (inversion Hn; reflexivity).
  destruct (e0 =? e); inversion Hn.
Qed.

Lemma handle_disembargo_QI : forall tg cx s s0 o0 ab out, handle_disembargo cfg_fixed tg cx s = Ok (s0, o0, ab) ->
  QI (aux_of s) out -> QI (aux_of s0) (out ++ o0).
Proof.
  intros tg cx s s0 o0 ab out H HQ. unfold handle_disembargo in H.
  assert (SIMPLE : forall o, ifq o -> Ok (s, o, true) = Ok (s0, o0, ab) \/ Ok (s, o, false) = Ok (s0, o0, ab) -> QI (aux_of s0) (out ++ o0)).
  { intros o I [E|E]; inversion E; subst; (eapply QI_aux_same; [exact HQ|reflexivity|reflexivity|exact I]). }
  destruct (parse_target tg); [|eapply SIMPLE; [|left; exact H]; iq].
  destruct cx as [i|e|]; [eapply SIMPLE; [|left; exact H]; iq| |eapply SIMPLE; [|right; exact H]; iq].
  destruct (tget e (s_emb s)) as [em|]; [|eapply SIMPLE; [|left; exact H]; iq].
  unfold lift in H. cbn [fx22 cfg_fixed negb] in H. rewrite andb_false_r in H. cbv iota in H.
  match type of H with context [wake_calls e ?x ?l ?s1] => pose proof (wake_calls_aux e x l s1) as W; destruct (wake_calls e x l s1) as [s2 o2] end.
  simpl in W. destruct W as (W1 & W2 & W3). cbn [bind] in H. inversion H; subst.
  eapply QI_same; [exact HQ| | |exact W3].
  - simpl. rewrite W1. destruct (e_cap em); reflexivity.
  - intros h i Hz. simpl in Hz. rewrite W2 in Hz.
    assert (Hz' : znth h (map (rewrite_handle e (e_cap em)) (s_handles s)) = Some (HBoot i)) by (destruct (e_cap em); exact Hz).
    simpl. eapply map_rewrite_boot; eauto.
Qed.

(* every handler *)
Lemma handler_QI : forall e s s0 o0 ab out, handler cfg_fixed e s = Ok (s0, o0, ab) -> live s ->
  QI (aux_of s) out -> QI (aux_of s0) (out ++ o0).
Proof.
  intros e s s0 o0 ab out H L HQ.
  assert (TRIV : forall o, ifq o -> Ok (s, o, false) = Ok (s0, o0, ab) -> QI (aux_of s0) (out ++ o0)).
  { intros o I E. inversion E; subst. eapply QI_aux_same; [exact HQ|reflexivity|reflexivity|exact I]. }
  destruct e; simpl in H; try (eapply TRIV; [|exact H]; iq; fail).
  - eapply QI_qinert; [exact HQ|eapply handle_bootstrap_qinert; eauto].
  - eapply QI_qinert; [exact HQ|eapply handle_call_qinert; eauto].
  - eapply handle_return_QI; eauto.
  - eapply QI_qinert; [exact HQ|eapply handle_finish_qinert; eauto].
  - eapply QI_qinert; [exact HQ|eapply handle_release_qinert; eauto].
  - eapply handle_disembargo_QI; eauto.
  - eapply app_bootstrap_QI; eauto.
  - eapply app_call_QI; eauto.
  - eapply app_pipe_QI; eauto.
  - (* AReturn: a direct local call resolves, or a call of the connection returns *)
    unfold app_return in H. destruct (find_running k (s_ans s)) as [[id a]|].
    + destruct (release_caps cfg_fixed (a_args a) s) as [[s1 o1]| |] eqn:E1; cbn [bind] in H; try discriminate.
      assert (I1 : qinert s o1 s1) by (split; [apply qframe_eq; eapply aux_release_caps; eauto|eapply qq_release_caps; eauto]).
      assert (FIN : forall sx o2 o3 (b2 b3 : bool) sy, qinert (set_ans (aput id (set_a_args [] a) (s_ans s1)) s1) o2 sx -> qinert sx o3 sy ->
                Ok (sy, o1 ++ o2 ++ o3, b2 || b3) = Ok (s0, o0, ab) -> QI (aux_of s0) (out ++ o0)).
      { intros sx o2 o3 b2 b3 sy I2 I3 E. inversion E; subst. eapply QI_qinert; [exact HQ|].
        eapply qinert_trans; [exact I1|]. eapply qinert_trans; [|exact I3].
        destruct I2 as [F2 Q2]. split; [exact F2|exact Q2]. }
      destruct r as [fs| |].
      * destruct (results_of fs) as [kc rct].
        match type of H with (bind ?x _) = _ => destruct x as [[[s3 o3] b3]| |] eqn:E3; cbn [bind] in H; try discriminate end.
        match type of H with (bind ?x _) = _ => destruct x as [[[s4 o4] b4]| |] eqn:E4; cbn [bind] in H; try discriminate end.
        eapply (FIN s3 o3 o4 b3 b4 s4); [|split; [apply qframe_eq; eapply aux_send_return; eauto|eapply qq_send_return; eauto]|exact H].
        apply drain_qinert in E3. destruct E3 as [F3 Q3]. split; [|exact Q3].
        eapply qframe_trans; [|exact F3]. apply qframe_eq.
        clear. generalize (set_ans (aput id (set_a_args [] a) (s_ans s1)) s1) as sz. induction rct as [|[j|] rct IH]; intros sz; simpl; auto. rewrite IH. reflexivity.
      * match type of H with (bind ?x _) = _ => destruct x as [[[s3 o3] b3]| |] eqn:E3; cbn [bind] in H; try discriminate end.
        match type of H with (bind ?x _) = _ => destruct x as [[[s4 o4] b4]| |] eqn:E4; cbn [bind] in H; try discriminate end.
        eapply (FIN s3 o3 o4 b3 b4 s4); [eapply drain_qinert; eauto|split; [apply qframe_eq; eapply aux_send_return; eauto|eapply qq_send_return; eauto]|exact H].
      * match type of H with (bind ?x _) = _ => destruct x as [[[s3 o3] b3]| |] eqn:E3; cbn [bind] in H; try discriminate end.
        match type of H with (bind ?x _) = _ => destruct x as [[[s4 o4] b4]| |] eqn:E4; cbn [bind] in H; try discriminate end.
        eapply (FIN s3 o3 o4 b3 b4 s4); [eapply reject_all_qinert; eauto|split; [apply qframe_eq; eapply aux_send_exception; eauto|eapply qq_send_exception; eauto]|exact H].
    + destruct (aget k (s_lcalls s)); inversion H; subst; (eapply QI_aux_same; [exact HQ|reflexivity|reflexivity|iq]).
  - eapply app_release_QI; eauto.
  - eapply app_cancel_QI; eauto.
  - eapply app_hold_QI; eauto.
  - eapply app_unhold_QI; eauto.
Qed.

(* histories: the invariant holds while the connection is up *)
Definition qhinv (s : state) (out : list output) : Prop := s_shut s = false -> QI (aux_of s) out.

Lemma step_qhinv : forall s e W out s1 o, sinv s W -> qhinv s out -> W + ev_work e < LIM -> env_ok s e = true ->
  step cfg_fixed s e = Ok (s1, o) -> qhinv s1 (out ++ o).
Proof.
  intros s e W out s1 o I HQ Hb Henv Hstep Hs1. unfold step in Hstep. unfold sinv in I.
  destruct (s_shut s) eqn:Hs.
  - (* a shut-down connection stays shut down *)
    exfalso. destruct (is_peer e) eqn:Hp; simpl in Hstep.
    + inversion Hstep; subst. simpl in Hs1. congruence.
    + assert (S : shut_ok s) by (split; assumption).
      destruct e; simpl in Hp; try discriminate;
        try (match type of Hstep with context [handler cfg_fixed ?ev s] =>
               pose proof (handler_shut ev s S eq_refl) as P;
               destruct (handler cfg_fixed ev s) as [[[s0 o0] ab]| |] eqn:E; simpl in P; try contradiction end;
             cbn [bind fst] in *; destruct P as [S1 S2]; rewrite S1 in Hstep; rewrite andb_false_r in Hstep; cbn [bind] in Hstep;
             inversion Hstep; subst; simpl in Hs1; congruence).
      simpl in Hstep. inversion Hstep; subst. simpl in Hs1. congruence.
  - destruct I as [Li P]. assert (L : live s) by (split; assumption). pose proof (HQ Hs) as HQ'. clear HQ. rename HQ' into HQ. simpl in Hstep.
    assert (NOSHUT : forall abort s0 o0, (do '(sx, ox) <- (do '(s2, o2) <- do_shutdown cfg_fixed abort s0; Ok (s2, o0 ++ o2)); Ok (set_out (rev ox ++ s_out sx) sx, ox)) = Ok (s1, o) -> False).
    { intros abort s0 o0 HH. destruct (shutdown_total abort s0) as (s2 & o2 & H2 & _ & S2). rewrite H2 in HH. cbn [bind] in HH.
      inversion HH; subst. simpl in Hs1. congruence. }
    assert (GEN : forall ev, ev = e -> match ev with MAbort | AClose => False | _ => True end ->
              (do '(sx, ox) <- (do '(sa, o1, abort) <- handler cfg_fixed ev s;
                   if abort && negb (s_shut sa) then do '(s2, o2) <- do_shutdown cfg_fixed true sa; Ok (s2, o1 ++ o2) else Ok (sa, o1));
                 Ok (set_out (rev ox ++ s_out sx) sx, ox)) = Ok (s1, o) -> QI (aux_of s1) (out ++ o)).
    { intros ev -> Hne HH.
      pose proof (handler_live e s L ltac:(lia) Henv) as PL.
      destruct (handler cfg_fixed e s) as [[[s0 o0] ab]| |] eqn:EH; simpl in PL; try contradiction. cbn [bind] in HH.
      destruct PL as [S0 _]. rewrite S0 in HH. simpl negb in HH. rewrite andb_true_r in HH.
      destruct ab; [exfalso; eapply NOSHUT; exact HH|].
      cbn [bind] in HH. inversion HH; subst. apply (handler_QI _ _ _ _ _ _ EH L HQ). }
    destruct e; try (apply (GEN _ eq_refl I Hstep)); exfalso;
      match type of Hstep with (bind (do_shutdown cfg_fixed ?a s) _) = _ =>
        destruct (shutdown_total a s) as (s2 & o2 & H2 & _ & S2); rewrite H2 in Hstep; cbn [bind] in Hstep; inversion Hstep; subst; simpl in Hs1; congruence end.
Qed.

Fixpoint run_o (s : state) (evs : list event) (out : list output) : res (state * list output) :=
  match evs with
  | [] => Ok (s, out)
  | e :: r => if env_ok s e then do '(s1, o) <- step cfg_fixed s e; run_o s1 r (out ++ o) else Ok (s, out)
  end.

Lemma run_o_inv : forall evs s W out s' out', sinv s W -> qhinv s out -> W + work evs < LIM ->
  run_o s evs out = Ok (s', out') -> qhinv s' out' /\ exists W', sinv s' W'.
Proof.
  induction evs as [|e evs IH]; intros s W out s' out' I Hh Hb H; simpl in H.
  - inversion H; subst. split; [exact Hh|eauto].
  - destruct (env_ok s e) eqn:Henv; [|inversion H; subst; split; [exact Hh|eauto]].
    pose proof (ev_work_nonneg e) as He.
    assert (Hwork : 0 <= work evs) by (clear; induction evs as [|x l IHl]; simpl; [lia|pose proof (ev_work_nonneg x); lia]).
    simpl in Hb.
    destruct (step_ok s e W I ltac:(lia) Henv) as (s1 & o & H1 & I1). rewrite H1 in H. cbn [bind] in H.
    eapply (IH s1 (W + ev_work e)); [exact I1| |lia|exact H].
    apply (step_qhinv s e W out s1 o I Hh); [lia|exact Henv|exact H1].
Qed.

(* C06 question_ids, first half: while the connection is up, every Bootstrap / Call issued with a
   question id is matched by a Finish for that id in the outbox, except the current use of the id;
   hence an id that is free (no entry in the table) -- the only ids newQuestion hands out, see
   [new_question_q] -- has a Finish in the outbox for each of its earlier uses *)
Theorem question_ids : forall boot evs s out, work evs < LIM -> run_o (init boot) evs [] = Ok (s, out) -> s_shut s = false ->
  forall id, (cnt (is_issue id) out <= cnt (is_finish id) out + qb id (s_qs s))%nat /\
             (tget id (s_qs s) = None -> (cnt (is_issue id) out <= cnt (is_finish id) out)%nat).
Proof.
  intros boot evs s out Hb H Hs id.
  assert (Q0 : qhinv (init boot) []).
  { intros _. split; [|split].
    - intros j. unfold cnt, qb. simpl. replace (tget j (@nil (option question))) with (@None question); [lia|].
      unfold tget, znth. simpl. destruct ((j <? 0) || (0 <=? j)); [reflexivity|destruct (Z.to_nat j); reflexivity].
    - intros j q Hq. exfalso. unfold tget, znth in Hq. simpl in Hq. destruct ((j <? 0) || (0 <=? j)); [discriminate|destruct (Z.to_nat j); discriminate].
    - intros h qid Hz. exfalso. unfold znth in Hz. simpl in Hz. destruct ((h <? 0) || (0 <=? h)); [discriminate|destruct (Z.to_nat h); discriminate]. }
  destruct (run_o_inv evs (init boot) 0 [] s out (sinv_init boot) Q0 ltac:(lia) H) as [HQ _].
  destruct (HQ Hs) as (Q & _). specialize (Q id). split; [exact Q|]. intros Hn. unfold qb in Q. simpl in Q. rewrite Hn in Q. lia.
Qed.

(* ---------------------------------------------------------------- C07 export_count over histories *)
Theorem export_count : forall boot evs s out, work evs < LIM -> run_o (init boot) evs [] = Ok (s, out) -> s_shut s = false ->
  exp_count (s_exp s) (s_sent s) (s_rel s) /\ slots_free (s_egen s) (s_exp s).
Proof.
  intros boot evs s out Hb H Hs.
  assert (Q0 : qhinv (init boot) []).
  { intros _. split; [|split].
    - intros j. unfold cnt, qb. simpl. replace (tget j (@nil (option question))) with (@None question); [lia|].
      unfold tget, znth. simpl. destruct ((j <? 0) || (0 <=? j)); [reflexivity|destruct (Z.to_nat j); reflexivity].
    - intros j q Hq. exfalso. unfold tget, znth in Hq. simpl in Hq. destruct ((j <? 0) || (0 <=? j)); [discriminate|destruct (Z.to_nat j); discriminate].
    - intros h qid Hz. exfalso. unfold znth in Hz. simpl in Hz. destruct ((h <? 0) || (0 <=? h)); [discriminate|destruct (Z.to_nat h); discriminate]. }
  destruct (run_o_inv evs (init boot) 0 [] s out (sinv_init boot) Q0 ltac:(lia) H) as [_ [W' I]].
  unfold sinv in I. rewrite Hs in I. destruct I as [(_ & _ & _ & _ & (_ & X2 & X3) & _) _]. simpl in X2, X3. split; assumption.
Qed.

(* the ghost counter [s_sent] is bumped exactly where a senderHosted descriptor is written *)
Theorem send_cap_sent : forall x s s1 d oe, send_cap cfg_fixed x s = Ok (s1, d, oe) ->
  forall e, cget e (s_sent s1) = cget e (s_sent s) + (match d with DSH i => if e =? i then 1 else 0 | _ => 0 end) /\ s_rel s1 = s_rel s.
Proof.
  intros x s s1 d oe H e. unfold send_cap in H.
  assert (FOUND : forall id w y, Ok (set_sent (cadd id 1 (s_sent s)) (set_exp (replace_nth (Z.to_nat id) (Some (y, w + 1)) (s_exp s)) s), DSH id, Some id) = Ok (s1, d, oe) ->
            cget e (s_sent s1) = cget e (s_sent s) + (match d with DSH i => if e =? i then 1 else 0 | _ => 0 end) /\ s_rel s1 = s_rel s).
  { intros id w y E. inversion E; subst. simpl. rewrite cget_cadd. split; [destruct (e =? id) eqn:Ee; [replace e with id by lia|]; lia|reflexivity]. }
  assert (NEW : forall y s0, s_rel s0 = s_rel s ->
            (do '(id, g) <- gen_next (s_egen s); do t <- tput id (y, 1) (s_exp s);
             Ok (set_sent (cadd id 1 (s_sent s)) (set_allocs (s_allocs s + 1) (set_egen g (set_exp t s0))), DSH id, Some id)) = Ok (s1, d, oe) ->
            cget e (s_sent s1) = cget e (s_sent s) + (match d with DSH i => if e =? i then 1 else 0 | _ => 0 end) /\ s_rel s1 = s_rel s).
  { intros y s0 A HH. destruct (gen_next (s_egen s)) as [[id g']| |]; cbn [bind] in HH; try discriminate.
    destruct (tput id (y, 1) (s_exp s)) as [t'| |]; cbn [bind] in HH; try discriminate. inversion HH; subst.
    simpl. rewrite cget_cadd. split; [destruct (e =? id) eqn:Ee; [replace e with id by lia|]; lia|exact A]. }
  assert (SAME : forall d0, Ok (s, d0, @None Z) = Ok (s1, d, oe) -> match d0 with DSH _ => False | _ => True end ->
            cget e (s_sent s1) = cget e (s_sent s) + (match d with DSH i => if e =? i then 1 else 0 | _ => 0 end) /\ s_rel s1 = s_rel s).
  { intros d0 E Hd. inversion E; subst. split; [destruct d; try contradiction; lia|reflexivity]. }
  destruct x.
  - apply (SAME DNone H I).
  - simpl in H. destruct (find_export CErr (s_exp s) 0) as [[id w]|]; [apply (FOUND _ _ _ H)|apply (NEW CErr s eq_refl H)].
  - simpl in H. destruct (find_export (CLocal j) (s_exp s) 0) as [[id w]|]; [apply (FOUND _ _ _ H)|apply (NEW (CLocal j) (lref 1 j s) eq_refl H)].
  - destruct (imp_current i g s); [apply (SAME (DRH i) H I)|].
    destruct (find_export (CImp i g) (s_exp s) 0) as [[id w]|]; [apply (FOUND _ _ _ H)|].
    apply (NEW (CImp i g) (addref_cap (CImp i g) s)); [|exact H]. simpl. destruct (aget i (s_imp s)); [destruct (_ && _)|]; reflexivity.
  - simpl in H. destruct (find_export (CEmb e0) (s_exp s) 0) as [[id w]|]; [apply (FOUND _ _ _ H)|].
    apply (NEW (CEmb e0) (addref_cap (CEmb e0) s)); [|exact H]. simpl. destruct (tget e0 (s_emb s)) as [em|]; [destruct (0 <? e_refs em)|]; reflexivity.
Qed.
