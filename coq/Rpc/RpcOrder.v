(* Proofs for C06 delivery_order (observers of RpcOrderSpec.v over the machine of Rpc.v). *)
From CV Require Import Rpc.Rpc Rpc.RpcSpec Rpc.RpcProofs Rpc.RpcInv Rpc.RpcResp Rpc.RpcLocal Rpc.RpcHist Rpc.RpcQids Rpc.RpcOrderSpec.
From Coq Require Import ZifyBool.
Open Scope Z_scope.

(* ---------------------------------------------------------------- outputs without deliveries *)
Definition nod (o : list output) : Prop := delivs o = [].
Lemma delivs_app : forall a b, delivs (a ++ b) = delivs a ++ delivs b.
Proof. intros. apply flat_map_app. Qed.
Lemma nod_app : forall a b, nod a -> nod b -> nod (a ++ b).
Proof. unfold nod. intros a b Ha Hb. rewrite delivs_app, Ha, Hb. reflexivity. Qed.
Lemma nod_nil : nod []. Proof. reflexivity. Qed.

Lemma nod_imp_shutdown : forall c i g s s' o, imp_shutdown c i g s = Ok (s', o) -> nod o.
Proof.
  intros c i g s s' o H. unfold imp_shutdown in H. destruct (s_shut s); [inversion H; reflexivity|].
  destruct (aget i (s_imp s)) as [e|].
  - destruct (i_gen e =? g); inversion H; reflexivity.
  - destruct (fx20 c); inversion H; reflexivity.
Qed.
Lemma nod_release_cap : forall c x s s' o, release_cap c x s = Ok (s', o) -> nod o.
Proof.
  intros c x s s' o H. destruct x; simpl in H; try (inversion H; reflexivity).
  unfold imp_release in H. destruct (aget i (s_imp s)) as [e|]; [|eapply nod_imp_shutdown; eauto].
  destruct ((i_gen e =? g) && (0 <? i_refs e)); [|eapply nod_imp_shutdown; eauto].
  destruct (i_refs _ =? 0); [|inversion H; reflexivity].
  destruct (busy_get i g (s_busy s) =? 0); [eapply nod_imp_shutdown; eauto|inversion H; reflexivity].
Qed.
Lemma nod_release_caps : forall c l s s' o, release_caps c l s = Ok (s', o) -> nod o.
Proof.
  induction l as [|x l IH]; intros s s' o H; simpl in H; [inversion H; reflexivity|].
  destruct (release_cap c x s) as [[s1 o1]| |] eqn:E1; simpl in H; try discriminate.
  destruct (release_caps c l s1) as [[s2 o2]| |] eqn:E2; simpl in H; try discriminate.
  inversion H; subst. apply nod_app; [eapply nod_release_cap; eauto|eapply IH; eauto].
Qed.
Lemma nod_destroy : forall c id a s s1 o err, destroy c id a s = Ok (s1, o, err) -> nod o.
Proof.
  intros c id a s s1 o err H. unfold destroy in H.
  destruct (a_rrc a && _).
  - destruct (release_exports (a_xrefs a) _) as [[sx cl] e2].
    destruct (release_caps c _ sx) as [[s3 o3]| |] eqn:E3; simpl in H; try discriminate. inversion H; subst. eapply nod_release_caps; eauto.
  - destruct (release_caps c _ _) as [[s3 o3]| |] eqn:E3; simpl in H; try discriminate. inversion H; subst. eapply nod_release_caps; eauto.
Qed.
Lemma nod_send_exception : forall c id a s s1 o ab, send_exception c id a s = Ok (s1, o, ab) -> nod o.
Proof.
  intros c id a s s1 o ab H. unfold send_exception in H.
  assert (N0 : nod (if s_shut s then [] else [OReturnExc id])) by (destruct (s_shut s); reflexivity).
  destruct (a_fin a).
  - destruct (destroy c id _ _) as [[[sx ox] ex]| |] eqn:E; simpl in H; try discriminate. inversion H; subst.
    apply nod_app; [exact N0|eapply nod_destroy; eauto].
  - inversion H; subst. exact N0.
Qed.
Lemma nod_reject : forall c id a s s1 o ab, reject c id a s = Ok (s1, o, ab) -> nod o.
Proof.
  intros c id a s s1 o ab H. unfold reject in H.
  destruct (release_caps c (a_args a) s) as [[sx ox]| |] eqn:E1; simpl in H; try discriminate.
  destruct (send_exception c id _ sx) as [[[sy oy] ey]| |] eqn:E2; simpl in H; try discriminate.
  inversion H; subst. apply nod_app; [eapply nod_release_caps; eauto|eapply nod_send_exception; eauto].
Qed.

(* ---------------------------------------------------------------- frames of the rejecting paths (repaired machine) *)
Lemma ndeliv_aux : forall s s1, aux_of s1 = aux_of s -> s_ndeliv s1 = s_ndeliv s /\ s_ecalls s1 = s_ecalls s.
Proof.
  intros s s1 A. split.
  - change (x_ndeliv (aux_of s1) = x_ndeliv (aux_of s)). rewrite A. reflexivity.
  - change (x_ecalls (aux_of s1) = x_ecalls (aux_of s)). rewrite A. reflexivity.
Qed.

Lemma send_exception_q : forall id a s s1 o ab, send_exception cfg_fixed id a s = Ok (s1, o, ab) ->
  s_queue s1 = zremove id (s_queue s) /\
  (forall a1, aget id (s_ans s1) = Some a1 -> a_st a1 = AIdle) /\
  (forall b, b <> id -> aget b (s_ans s1) = aget b (s_ans s)).
Proof.
  intros id a s s1 o ab H. unfold send_exception in H. destruct (a_fin a).
  - destruct (destroy cfg_fixed id _ _) as [[[sx ox] ex]| |] eqn:E; simpl in H; try discriminate. inversion H; subst.
    pose proof (destroy_out _ _ _ _ _ _ _ E) as [_ Dn].
    apply destroy_shape in E. destruct E as (A & Q & _ & _). simpl in *. split; [exact Q|]. split.
    + intros a1 Ha. rewrite Dn in Ha. discriminate.
    + intros b Hb. rewrite A, aget_adel. destruct (b =? id) eqn:Eb; [lia|reflexivity].
  - inversion H; subst. unfold zremove_q, set_ans, set_queue. cbn [s_ans s_queue]. split; [reflexivity|]. split.
    + intros a1 Ha. rewrite aget_aput, Z.eqb_refl in Ha. inversion Ha; subst. reflexivity.
    + intros b Hb. rewrite aget_aput. destruct (b =? id) eqn:Eb; [lia|reflexivity].
Qed.

Lemma reject_settled : forall id a s s1 o ab, reject cfg_fixed id a s = Ok (s1, o, ab) -> settled id s s1 o.
Proof.
  intros id a s s1 o ab H. pose proof (nod_reject _ _ _ _ _ _ _ H) as N. pose proof (aux_reject _ _ _ _ _ _ _ H) as A.
  destruct (ndeliv_aux _ _ A) as [Nd _]. unfold reject in H.
  destruct (release_caps cfg_fixed (a_args a) s) as [[sx ox]| |] eqn:E1; simpl in H; try discriminate.
  destruct (send_exception cfg_fixed id _ sx) as [[[sy oy] ey]| |] eqn:E2; simpl in H; try discriminate.
  inversion H; subst. apply release_caps_inv in E1. destruct E1 as [C _]. destruct (core_ans _ _ C) as (A1 & A2 & _).
  destruct (send_exception_q _ _ _ _ _ _ E2) as (Q1 & Q2 & Q3).
  split; [exact N|]. split; [exact Nd|]. split; [rewrite Q1, A2; reflexivity|]. split; [exact Q2|].
  intros b Hb. rewrite (Q3 b Hb), A1. reflexivity.
Qed.

Lemma deliver_tri : forall id a t s s1 o ab, deliver cfg_fixed id a t s = Ok (s1, o, ab) ->
  (exists j, t = DLocal j /\ delivered id j (a_tag a) s s1 o) \/ settled id s s1 o.
Proof.
  intros id a t s s1 o ab H. unfold deliver in H. destruct t as [j| |]; try discriminate; try (right; eapply reject_settled; eauto; fail).
  destruct (a_mok a); [|right; eapply reject_settled; eauto].
  left. exists j. split; [reflexivity|]. inversion H; subst. unfold delivered, running_as, others_same, zremove_q, set_ans, set_queue, set_ndeliv.
  cbn [s_ans s_queue s_ndeliv]. split; [reflexivity|]. split; [reflexivity|]. split; [reflexivity|]. split.
  - eexists. rewrite aget_aput, Z.eqb_refl. split; [reflexivity|]. split; reflexivity.
  - intros b Hb. rewrite aget_aput. destruct (b =? id) eqn:Eb; [lia|reflexivity].
Qed.
