(* Proofs for C06 delivery_order (observers of RpcOrderSpec.v over the machine of Rpc.v). *)
From CV Require Import Rpc.Rpc Rpc.RpcSpec Rpc.RpcProofs Rpc.RpcInv Rpc.RpcResp Rpc.RpcLocal Rpc.RpcHist Rpc.RpcQids Rpc.RpcOrderSpec.
From Coq Require Import ZifyBool.
Open Scope Z_scope.

(* ---------------------------------------------------------------- outputs without deliveries *)
Definition nod (o : list output) : Prop := delivs o = [].
Lemma delivs_app : forall a b, delivs (a ++ b) = delivs a ++ delivs b.
Proof. intros. apply flat_map_app. Qed.
Lemma nod_app : forall a b, nod a -> nod b -> nod (a ++ b).
Proof. unfold nod. intros a b Ha Hb. rewrite delivs_app, Ha, Hb. reflexivity. Qed.
Lemma nod_nil : nod []. Proof. reflexivity. Qed.

Lemma nod_imp_shutdown : forall c i g s s' o, imp_shutdown c i g s = Ok (s', o) -> nod o.
Proof.
  intros c i g s s' o H. unfold imp_shutdown in H. destruct (s_shut s); [inversion H; reflexivity|].
  destruct (aget i (s_imp s)) as [e|].
  - destruct (i_gen e =? g); inversion H; reflexivity.
  - destruct (fx20 c); inversion H; reflexivity.
Qed.
Lemma nod_release_cap : forall c x s s' o, release_cap c x s = Ok (s', o) -> nod o.
Proof.
  intros c x s s' o H. destruct x; simpl in H; try (inversion H; reflexivity).
  unfold imp_release in H. destruct (aget i (s_imp s)) as [e|]; [|eapply nod_imp_shutdown; eauto].
  destruct ((i_gen e =? g) && (0 <? i_refs e)); [|eapply nod_imp_shutdown; eauto].
  destruct (i_refs _ =? 0); [|inversion H; reflexivity].
  destruct (busy_get i g (s_busy s) =? 0); [eapply nod_imp_shutdown; eauto|inversion H; reflexivity].
Qed.
Lemma nod_release_caps : forall c l s s' o, release_caps c l s = Ok (s', o) -> nod o.
Proof.
  induction l as [|x l IH]; intros s s' o H; simpl in H; [inversion H; reflexivity|].
  destruct (release_cap c x s) as [[s1 o1]| |] eqn:E1; simpl in H; try discriminate.
  destruct (release_caps c l s1) as [[s2 o2]| |] eqn:E2; simpl in H; try discriminate.
  inversion H; subst. apply nod_app; [eapply nod_release_cap; eauto|eapply IH; eauto].
Qed.
Lemma nod_destroy : forall c id a s s1 o err, destroy c id a s = Ok (s1, o, err) -> nod o.
Proof.
  intros c id a s s1 o err H. unfold destroy in H.
  destruct (a_rrc a && _).
  - destruct (release_exports (a_xrefs a) _) as [[sx cl] e2].
    destruct (release_caps c _ sx) as [[s3 o3]| |] eqn:E3; simpl in H; try discriminate. inversion H; subst. eapply nod_release_caps; eauto.
  - destruct (release_caps c _ _) as [[s3 o3]| |] eqn:E3; simpl in H; try discriminate. inversion H; subst. eapply nod_release_caps; eauto.
Qed.
Lemma nod_send_exception : forall c id a s s1 o ab, send_exception c id a s = Ok (s1, o, ab) -> nod o.
Proof.
  intros c id a s s1 o ab H. unfold send_exception in H.
  assert (N0 : nod (if s_shut s then [] else [OReturnExc id])) by (destruct (s_shut s); reflexivity).
  destruct (a_fin a).
  - destruct (destroy c id _ _) as [[[sx ox] ex]| |] eqn:E; simpl in H; try discriminate. inversion H; subst.
    apply nod_app; [exact N0|eapply nod_destroy; eauto].
  - inversion H; subst. exact N0.
Qed.
Lemma nod_reject : forall c id a s s1 o ab, reject c id a s = Ok (s1, o, ab) -> nod o.
Proof.
  intros c id a s s1 o ab H. unfold reject in H.
  destruct (release_caps c (a_args a) s) as [[sx ox]| |] eqn:E1; simpl in H; try discriminate.
  destruct (send_exception c id _ sx) as [[[sy oy] ey]| |] eqn:E2; simpl in H; try discriminate.
  inversion H; subst. apply nod_app; [eapply nod_release_caps; eauto|eapply nod_send_exception; eauto].
Qed.

(* ---------------------------------------------------------------- frames of the rejecting paths (repaired machine) *)
Lemma ndeliv_aux : forall s s1, aux_of s1 = aux_of s -> s_ndeliv s1 = s_ndeliv s /\ s_ecalls s1 = s_ecalls s.
Proof.
  intros s s1 A. split.
  - change (x_ndeliv (aux_of s1) = x_ndeliv (aux_of s)). rewrite A. reflexivity.
  - change (x_ecalls (aux_of s1) = x_ecalls (aux_of s)). rewrite A. reflexivity.
Qed.

Lemma send_exception_q : forall id a s s1 o ab, send_exception cfg_fixed id a s = Ok (s1, o, ab) ->
  s_queue s1 = zremove id (s_queue s) /\
  (forall a1, aget id (s_ans s1) = Some a1 -> a_st a1 = AIdle) /\
  (forall b, b <> id -> aget b (s_ans s1) = aget b (s_ans s)).
Proof.
  intros id a s s1 o ab H. unfold send_exception in H. destruct (a_fin a).
  - destruct (destroy cfg_fixed id _ _) as [[[sx ox] ex]| |] eqn:E; simpl in H; try discriminate. inversion H; subst.
    pose proof (destroy_out _ _ _ _ _ _ _ E) as [_ Dn].
    apply destroy_shape in E. destruct E as (A & Q & _ & _). simpl in *. split; [exact Q|]. split.
    + intros a1 Ha. rewrite Dn in Ha. discriminate.
    + intros b Hb. rewrite A, aget_adel. destruct (b =? id) eqn:Eb; [lia|reflexivity].
  - inversion H; subst. unfold zremove_q, set_ans, set_queue. cbn [s_ans s_queue]. split; [reflexivity|]. split.
    + intros a1 Ha. rewrite aget_aput, Z.eqb_refl in Ha. inversion Ha; subst. reflexivity.
    + intros b Hb. rewrite aget_aput. destruct (b =? id) eqn:Eb; [lia|reflexivity].
Qed.

Lemma reject_settled : forall id a s s1 o ab, reject cfg_fixed id a s = Ok (s1, o, ab) -> settled id s s1 o.
Proof.
  intros id a s s1 o ab H. pose proof (nod_reject _ _ _ _ _ _ _ H) as N. pose proof (aux_reject _ _ _ _ _ _ _ H) as A.
  destruct (ndeliv_aux _ _ A) as [Nd _]. unfold reject in H.
  destruct (release_caps cfg_fixed (a_args a) s) as [[sx ox]| |] eqn:E1; simpl in H; try discriminate.
  destruct (send_exception cfg_fixed id _ sx) as [[[sy oy] ey]| |] eqn:E2; simpl in H; try discriminate.
  inversion H; subst. apply release_caps_inv in E1. destruct E1 as [C _]. destruct (core_ans _ _ C) as (A1 & A2 & _).
  destruct (send_exception_q _ _ _ _ _ _ E2) as (Q1 & Q2 & Q3).
  split; [exact N|]. split; [exact Nd|]. split; [rewrite Q1, A2; reflexivity|]. split; [exact Q2|].
  intros b Hb. rewrite (Q3 b Hb), A1. reflexivity.
Qed.

Lemma deliver_tri : forall id a t s s1 o ab, deliver cfg_fixed id a t s = Ok (s1, o, ab) ->
  (exists j, t = DLocal j /\ delivered id j (a_tag a) s s1 o) \/ settled id s s1 o.
Proof.
  intros id a t s s1 o ab H. unfold deliver in H. destruct t as [j| |]; try discriminate; try (right; eapply reject_settled; eauto; fail).
  destruct (a_mok a); [|right; eapply reject_settled; eauto].
  left. exists j. split; [reflexivity|]. inversion H; subst. unfold delivered, running_as, others_same, zremove_q, set_ans, set_queue, set_ndeliv.
  cbn [s_ans s_queue s_ndeliv]. split; [reflexivity|]. split; [reflexivity|]. split; [reflexivity|]. split.
  - eexists. rewrite aget_aput, Z.eqb_refl. split; [reflexivity|]. split; reflexivity.
  - intros b Hb. rewrite aget_aput. destruct (b =? id) eqn:Eb; [lia|reflexivity].
Qed.

Lemma settled_dropped : forall id s s1 o, settled id s s1 o -> dropped id s s1 o.
Proof.
  intros id s s1 o (A & B & C & D & E). split; [exact A|]. split; [exact B|]. split; [right; exact C|]. split; [|exact E].
  intros a1 Ha. left. apply D. exact Ha.
Qed.

(* every incoming Call: delivered in its own handler as the next delivery, or appended to the END of
   the answer queue (only when its target is an answer without results), or never delivered *)
Lemma call_sync : forall id tg params tc mok tag s s1 o ab,
  handle_call cfg_fixed id tg params tc mok tag s = Ok (s1, o, ab) ->
  (exists j, delivered id j tag s s1 o /\ tgt_returned tg s) \/
  (exists t x, parse_target tg = Some (PAns t x) /\ enqueued id t x tag s s1 o) \/
  dropped id s s1 o.
Proof.
  intros id tg params tc mok tag s s0 o0 ab H. unfold handle_call in H.
  assert (SAME : dropped id s s nil).
  { split; [reflexivity|]. split; [reflexivity|]. split; [left; reflexivity|]. split; [intros a1 Ha; right; exact Ha|intros b _; reflexivity]. }
  destruct tc; simpl negb in H; cbv iota in H.
  2:{ inversion H; subst. right; right. destruct SAME as (_ & B & C & D & E). split; [reflexivity|]. repeat split; assumption. }
  destruct (aget id (s_ans s)) eqn:Eid; [inversion H; subst; right; right; exact SAME|].
  match type of H with (bind ?r _) = _ => destruct r as [[[s1 parsed] tor]| |] eqn:EP; cbn [bind] in H; try discriminate end.
  assert (CA : core_of s1 = core_of s /\ aux_of s1 = aux_of s).
  { destruct params as [p|]; [|inversion EP; split; reflexivity].
    pose proof (recv_payload_core cfg_fixed p s) as C. pose proof (aux_recv_payload cfg_fixed p s) as A.
    destruct (recv_payload cfg_fixed p s) as [sa k tab loc|sa part].
    - destruct (parse_target tg); inversion EP; subst; split; assumption.
    - rewrite payload_err_fixed in EP. simpl in EP. inversion EP; subst. split; assumption. }
  destruct CA as [C A]. destruct (core_ans _ _ C) as (A1 & Q1 & S1). destruct (ndeliv_aux _ _ A) as [N1 _].
  (* everything below starts from s1, which has the answers, queue and delivery counter of s *)
  assert (LS : forall o, settled id s1 s0 o -> dropped id s s0 o).
  { intros o (a & b & c & d & e). apply settled_dropped. split; [exact a|]. split; [congruence|]. split; [congruence|]. split; [exact d|].
    intros b' Hb. rewrite (e b' Hb), A1. reflexivity. }
  assert (LD : forall j o, delivered id j tag s1 s0 o -> delivered id j tag s s0 o).
  { intros j o (a & b & c & d & e). split; [congruence|]. split; [congruence|]. split; [congruence|]. split; [rewrite <- N1; exact d|].
    intros b' Hb. rewrite (e b' Hb), A1. reflexivity. }
  destruct parsed as [[pt tab]|].
  2:{ cbn [fx15 cfg_fixed negb] in H.
      destruct (send_exception cfg_fixed id (new_answer [] mok tag) s1) as [[[s2 o2] b2]| |] eqn:E2; cbn [bind] in H; try discriminate.
      destruct (release_caps cfg_fixed tor s2) as [[s3 o3]| |] eqn:E3; cbn [bind] in H; try discriminate. inversion H; subst.
      pose proof (nod_release_caps _ _ _ _ _ E3) as N3. pose proof (aux_release_caps _ _ _ _ _ E3) as X3.
      apply release_caps_inv in E3. destruct E3 as [C3 _]. destruct (core_ans _ _ C3) as (A3 & Q3 & _). destruct (ndeliv_aux _ _ X3) as [N3' _].
      pose proof (nod_send_exception _ _ _ _ _ _ _ E2) as N2. pose proof (aux_send_exception _ _ _ _ _ _ _ E2) as X2. destruct (ndeliv_aux _ _ X2) as [N2' _].
      destruct (send_exception_q _ _ _ _ _ _ E2) as (q1 & q2 & q3).
      right; right. apply LS. split; [apply nod_app; assumption|]. split; [congruence|]. split; [congruence|]. split.
      - intros a1 Ha. rewrite A3 in Ha. apply q2. exact Ha.
      - intros b Hb. rewrite A3. apply q3. exact Hb. }
  assert (PT : parse_target tg = Some pt).
  { destruct params as [p|]; [|inversion EP]. destruct (recv_payload cfg_fixed p s) as [sa k tab' loc|sa part].
    - destruct (parse_target tg); inversion EP; subst; reflexivity.
    - rewrite payload_err_fixed in EP. simpl in EP. inversion EP. }
  assert (UNK : forall o2, (do '(s2, o2) <- release_caps cfg_fixed tab (set_ans (aput id placeholder (s_ans s1)) s1); Ok (s2, o2, true)) = Ok (s0, o2, ab) ->
            dropped id s s0 o2).
  { intros o2 HU. destruct (release_caps cfg_fixed tab (set_ans (aput id placeholder (s_ans s1)) s1)) as [[s2 o2']| |] eqn:E2; cbn [bind] in HU; try discriminate.
    inversion HU; subst. pose proof (nod_release_caps _ _ _ _ _ E2) as N2. pose proof (aux_release_caps _ _ _ _ _ E2) as X2.
    apply release_caps_inv in E2. destruct E2 as [C2 _]. destruct (core_ans _ _ C2) as (A2 & Qu2 & _). destruct (ndeliv_aux _ _ X2) as [N2' _].
    unfold set_ans in *. cbn [s_ans s_queue s_ndeliv] in *.
    split; [exact N2|]. split; [congruence|]. split; [left; congruence|]. split.
    - intros a1 Ha. rewrite A2, aget_aput, Z.eqb_refl in Ha. inversion Ha; subst. left. reflexivity.
    - intros b Hb. rewrite A2, aget_aput, A1. destruct (b =? id) eqn:Eb; [lia|reflexivity]. }
  destruct pt as [e|t x].
  - destruct (tget e (s_exp s1)) as [[xc w]|] eqn:Ee; [|right; right; apply UNK; exact H].
    destruct (deliver_tri _ _ _ _ _ _ _ H) as [(j & _ & D)|S].
    + left. exists j. split; [apply LD; exact D|]. unfold tgt_returned. rewrite PT. exact I.
    + right; right. apply LS. exact S.
  - cbn [fx24 cfg_fixed negb andb] in H. rewrite andb_false_r in H. destruct (t =? id) eqn:Et; [right; right; apply UNK; exact H|].
    destruct (aget t (s_ans s1)) as [ta|] eqn:Eta; [|right; right; apply UNK; exact H].
    destruct (a_fin ta) eqn:Ef; [right; right; apply UNK; exact H|].
    destruct (a_ready ta) eqn:Er.
    + destruct (a_err ta).
      * right; right. apply LS. eapply reject_settled; eauto.
      * destruct (deliver_tri _ _ _ _ _ _ _ H) as [(j & _ & D)|S].
        -- left. exists j. split; [apply LD; exact D|]. unfold tgt_returned. rewrite PT. exists ta. rewrite <- A1. split; assumption.
        -- right; right. apply LS. exact S.
    + right; left. exists t, x. split; [exact PT|].
      assert (HQ : Ok (set_queue (s_queue s1 ++ [id]) (set_ans (aput id (set_a_st (AQueued t x) (new_answer tab mok tag)) (s_ans s1)) s1), @nil output, false) = Ok (s0, o0, ab))
        by (destruct (a_st ta); [discriminate| |]; exact H).
      inversion HQ; subst. unfold enqueued, queued_as, others_same, set_queue, set_ans. cbn [s_ans s_queue s_ndeliv].
      split; [reflexivity|]. split; [exact N1|]. split; [rewrite Q1; reflexivity|]. split.
      * eexists. rewrite aget_aput, Z.eqb_refl. split; [reflexivity|]. split; reflexivity.
      * split; [exists ta; rewrite <- A1; repeat split; assumption|].
        intros b Hb. rewrite aget_aput, A1. destruct (b =? id) eqn:Eb; [lia|reflexivity].
Qed.

(* ---------------------------------------------------------------- embargo: held calls are let through in issue order *)
Lemma held_app : forall e a b, held e (a ++ b) = held e a ++ held e b.
Proof. intros. unfold held. rewrite filter_app, map_app. reflexivity. Qed.

Lemma wake_calls_order : forall e j l s,
  delivs (snd (wake_calls e (CLocal j) l s)) = number j (s_ndeliv s) (held e l) /\
  s_ndeliv (fst (wake_calls e (CLocal j) l s)) = s_ndeliv s + Z.of_nat (length (held e l)) /\
  s_ecalls (fst (wake_calls e (CLocal j) l s)) = s_ecalls s /\
  s_queue (fst (wake_calls e (CLocal j) l s)) = s_queue s /\ s_ans (fst (wake_calls e (CLocal j) l s)) = s_ans s.
Proof.
  induction l as [|[[e' n] tag] l IH]; intros s.
  - simpl. repeat split; lia.
  - cbn [wake_calls]. unfold held. cbn [filter fst snd]. destruct (e' =? e) eqn:E.
    + match goal with |- context [wake_calls e (CLocal j) l ?sx] => specialize (IH sx); destruct (wake_calls e (CLocal j) l sx) as [s2 o2] end.
      cbn [fst snd map number length] in *. destruct IH as (I1 & I2 & I3 & I4 & I5).
      unfold set_ndeliv, set_lcalls in *. cbn [s_ndeliv s_ecalls s_queue s_ans] in *.
      split; [unfold delivs in *; cbn [flat_map deliv_of app]; f_equal; exact I1|]. split; [fold (held e l) in *; lia|]. repeat split; assumption.
    + apply IH.
Qed.

Lemma held_filter_out : forall e l, held e (filter (fun p => negb (fst (fst p) =? e)) l) = [].
Proof.
  intros e l. unfold held. induction l as [|p l IH]; simpl; [reflexivity|].
  destruct (fst (fst p) =? e) eqn:E; simpl; [exact IH|]. rewrite E. exact IH.
Qed.
Lemma held_filter_other : forall e e' l, e' <> e -> held e' (filter (fun p => negb (fst (fst p) =? e)) l) = held e' l.
Proof.
  intros e e' l Hne. unfold held. induction l as [|p l IH]; simpl; [reflexivity|].
  destruct (fst (fst p) =? e) eqn:E; simpl.
  - destruct (fst (fst p) =? e') eqn:E'; [lia|exact IH].
  - destruct (fst (fst p) =? e') eqn:E'; simpl; [f_equal|]; exact IH.
Qed.

(* the Disembargo comes back for embargo e on local server j: exactly the calls held behind e are
   delivered, oldest first, as the next deliveries; nothing stays behind e; other embargoes keep theirs *)
Lemma disembargo_order : forall tg e em j s s1 o ab,
  handle_disembargo cfg_fixed tg (DxReceiver e) s = Ok (s1, o, ab) -> parse_target tg <> None ->
  tget e (s_emb s) = Some em -> e_cap em = CLocal j ->
  delivs o = number j (s_ndeliv s) (held e (s_ecalls s)) /\
  s_ndeliv s1 = s_ndeliv s + Z.of_nat (length (held e (s_ecalls s))) /\
  held e (s_ecalls s1) = [] /\ (forall e', e' <> e -> held e' (s_ecalls s1) = held e' (s_ecalls s)) /\
  s_queue s1 = s_queue s /\ s_ans s1 = s_ans s.
Proof.
  intros tg e em j s s1 o ab H Hp He Hc. unfold handle_disembargo in H.
  destruct (parse_target tg); [|contradiction]. rewrite He in H. unfold lift in H.
  cbn [fx22 cfg_fixed negb] in H. rewrite andb_false_r in H. rewrite Hc in H.
  match type of H with context [wake_calls e (CLocal j) ?l ?sx] =>
    pose proof (wake_calls_order e j l sx) as W; destruct (wake_calls e (CLocal j) l sx) as [s2 o2] end.
  cbn [bind fst snd] in *. inversion H; subst. destruct W as (W1 & W2 & W3 & W4 & W5).
  unfold lref_cap, lref, set_lrefs, set_handles, set_mgen, set_emb, set_ecalls in *. cbn [s_ndeliv s_ecalls s_queue s_ans] in *.
  split; [exact W1|]. split; [exact W2|]. split; [apply held_filter_out|]. split; [|split; assumption].
  intros e' Hne. rewrite W3. apply held_filter_other. exact Hne.
Qed.

(* ---------------------------------------------------------------- outgoing side: a local call is written / delivered / held in its own handler *)
Lemma app_pipe_out : forall c q0 x caps s s1 o ab, app_pipe c q0 x caps s = Ok (s1, o, ab) ->
  (exists id ds, o = [OCall id (OTAns q0 x) ds]) \/ (exists cls, o = [LAppRes (s_ncall s) cls]).
Proof.
  intros c q0 x caps s s1 o ab H. unfold app_pipe, next_call in H.
  match type of H with context [s_shut ?sx] => destruct (s_shut sx) end; [inversion H; right; eexists; reflexivity|].
  match type of H with context [tget q0 ?t] => destruct (tget q0 t) as [q|] end; [|inversion H; right; eexists; reflexivity].
  destruct (q_fin q); [inversion H; right; eexists; reflexivity|].
  match type of H with (bind ?r _) = _ => destruct r as [[s2 id]| |]; cbn [bind] in H; try discriminate end.
  match type of H with (bind ?r _) = _ => destruct r as [[[s3 ds] refs]| |]; cbn [bind] in H; try discriminate end.
  inversion H; subst. left. eexists _, _. reflexivity.
Qed.

Lemma app_call_out : forall c h caps tag s s1 o ab, app_call c h caps tag s = Ok (s1, o, ab) ->
  match hget h s with
  | HBoot q0 => (exists id ds, o = [OCall id (OTAns q0 []) ds]) \/ (exists cls, o = [LAppRes (s_ncall s) cls])
  | HCap (CImp i g) => (exists id ds, o = [OCall id (OTImp i) ds]) \/ o = [LAppRes (s_ncall s) 3]
  | HCap (CLocal j) => o = [LDeliver j tag (s_ndeliv s)] /\ s_ndeliv s1 = s_ndeliv s + 1 /\ s_ecalls s1 = s_ecalls s
  | HCap (CEmb e) => o = [] /\ s_ecalls s1 = s_ecalls s ++ [(e, s_ncall s, tag)] /\ s_ndeliv s1 = s_ndeliv s
  | _ => o = [LAppRes (s_ncall s) 1]
  end.
Proof.
  intros c h caps tag s s1 o ab H. unfold app_call in H. destruct (hget h s) as [q0|[| |j|i g|e]|].
  - eapply app_pipe_out; eauto.
  - unfold next_call in H. inversion H; reflexivity.
  - unfold next_call in H. inversion H; reflexivity.
  - unfold next_call in H. inversion H; subst. repeat split.
  - unfold next_call in H.
    match type of H with context [s_shut ?sx] => destruct (s_shut sx) end; [inversion H; right; reflexivity|].
    match type of H with context [imp_current i g ?sx] => destruct (imp_current i g sx) end; simpl negb in H; cbv iota in H; [|inversion H; right; reflexivity].
    match type of H with (bind ?r _) = _ => destruct r as [[s2 id]| |]; cbn [bind] in H; try discriminate end.
    match type of H with (bind ?r _) = _ => destruct r as [[[s3 ds] refs]| |]; cbn [bind] in H; try discriminate end.
    inversion H; subst. left. eexists _, _. reflexivity.
  - unfold next_call in H. inversion H; subst. repeat split.
  - unfold next_call in H. inversion H; reflexivity.
Qed.

(* a held call (PlaceArgs window): its Call is written by the step that ends the window, first *)
Lemma app_unhold_out : forall c n s s1 o ab, app_unhold c n s = Ok (s1, o, ab) ->
  o = [] \/ exists qid i rest, o = OCall qid (OTImp i) [] :: rest /\ ocalls rest = [] /\ delivs rest = [].
Proof.
  intros c n s s1 o ab H. unfold app_unhold in H.
  destruct (find_held n (s_qs s) 0) as [[qid q]|]; [|inversion H; left; reflexivity].
  destruct (q_held q) as [[[i g] cs]|]; [|inversion H; left; reflexivity].
  destruct (s_shut s); [inversion H; left; reflexivity|].
  match type of H with context [if ?b then _ else _] => destruct b end.
  - match type of H with (bind ?r _) = _ => destruct r as [[s3 o3]| |] eqn:E3; cbn [bind] in H; try discriminate end.
    inversion H; subst. right. exists qid, i, o3. split; [reflexivity|].
    unfold imp_shutdown in E3. cbn [s_shut set_dead set_busy set_qs] in E3.
    destruct (s_shut _); [inversion E3; split; reflexivity|]. destruct (aget i _) as [e|].
    + destruct (i_gen e =? g); inversion E3; split; reflexivity.
    + destruct (fx20 c); inversion E3; split; reflexivity.
  - inversion H; subst. right. exists qid, i, []. repeat split.
Qed.

(* ---------------------------------------------------------------- the answer queue is drained in queue order *)
Lemma sublist_in : forall A (l1 l : list A) x, sublist l1 l -> In x l1 -> In x l.
Proof. intros A l1 l x H. induction H; intros Hi; simpl in *; [exact Hi|right; auto|destruct Hi; [left; assumption|right; auto]]. Qed.

Lemma drain_order : forall r k rct lst ids s s1 o ab, drain cfg_fixed r k rct lst ids s = Ok (s1, o, ab) -> NoDup ids ->
  exists dl, sublist dl ids /\ map (fun d => snd (fst d)) (delivs o) = map (tagz (s_ans s)) dl /\
             map snd (delivs o) = seqZ (s_ndeliv s) (length dl) /\
             s_ndeliv s1 = s_ndeliv s + Z.of_nat (length dl) /\
             (forall b, ~ In b ids -> aget b (s_ans s1) = aget b (s_ans s)).
Proof.
  induction ids as [|id ids IH]; intros s s1 o ab H N; simpl in H.
  - inversion H; subst. exists []. simpl. split; [constructor|]. repeat split; lia.
  - match type of H with (bind ?r _) = _ => destruct r as [[[s' o'] b']| |] eqn:E; cbn [bind] in H; try discriminate end.
    destruct (drain cfg_fixed r k rct lst ids s') as [[[s2 o2] b2]| |] eqn:E2; cbn [bind] in H; try discriminate. inversion H; subst.
    inversion N as [|? ? Hni N']; subst. destruct (IH _ _ _ _ E2 N') as (dl & S & T & K & C & F).
    assert (D : (exists j a, aget id (s_ans s) = Some a /\ delivered id j (a_tag a) s s' o') \/
                (delivs o' = [] /\ s_ndeliv s' = s_ndeliv s /\ others_same id s s')).
    { assert (NOOP : Ok (s, @nil output, false) = Ok (s', o', b') -> delivs o' = [] /\ s_ndeliv s' = s_ndeliv s /\ others_same id s s').
      { intros HH. inversion HH; subst. split; [reflexivity|]. split; [reflexivity|]. intros b _. reflexivity. }
      destruct (aget id (s_ans s)) as [a|] eqn:Ea; [|right; apply NOOP; exact E].
      assert (TRI : forall t, deliver cfg_fixed id a t s = Ok (s', o', b') ->
                (exists j a0, Some a = Some a0 /\ delivered id j (a_tag a0) s s' o') \/ (delivs o' = [] /\ s_ndeliv s' = s_ndeliv s /\ others_same id s s')).
      { intros t Ht. destruct (deliver_tri _ _ _ _ _ _ _ Ht) as [(j & _ & Dd)|(x1 & x2 & _ & _ & x5)];
          [left; exists j, a; split; [reflexivity|exact Dd]|right; repeat split; assumption]. }
      assert (REJ : reject cfg_fixed id a s = Ok (s', o', b') -> delivs o' = [] /\ s_ndeliv s' = s_ndeliv s /\ others_same id s s').
      { intros Hr. apply reject_settled in Hr. destruct Hr as (x1 & x2 & _ & _ & x5). repeat split; assumption. }
      destruct (a_st a) as [|srv|p x] eqn:Est; try (right; apply NOOP; exact E).
      unfold eff_parent in E. cbn [fx23 cfg_fixed orb] in E.
      destruct (p =? r); [apply (TRI _ E)|].
      destruct (aget p (s_ans s)) as [b|]; [|right; apply REJ; exact E].
      destruct (a_ready b); [destruct (a_err b); [right; apply REJ; exact E|apply (TRI _ E)]|].
      inversion E; subst. right. split; [reflexivity|]. split; [reflexivity|].
      intros b0 Hb. unfold set_ans. cbn [s_ans]. rewrite aget_aput. destruct (b0 =? id) eqn:Eb; [lia|reflexivity]. }
    assert (OS : others_same id s s') by (destruct D as [(j & a & _ & (_ & _ & _ & _ & d5))|(_ & _ & d5)]; exact d5).
    assert (TG : map (tagz (s_ans s')) dl = map (tagz (s_ans s)) dl).
    { apply map_ext_in. intros b Hb. unfold tagz. rewrite OS; [reflexivity|]. intros ->. apply Hni. eapply sublist_in; eauto. }
    assert (FF : forall b, ~ In b (id :: ids) -> aget b (s_ans s1) = aget b (s_ans s)).
    { intros b Hb. rewrite F by (intros Hi; apply Hb; right; exact Hi). apply OS. intros ->. apply Hb. left. reflexivity. }
    rewrite delivs_app, !map_app.
    destruct D as [(j & a & Ea & (d1 & d2 & _ & _ & _))|(d1 & d2 & _)].
    + exists (id :: dl). split; [constructor; exact S|]. rewrite d1. cbn [map fst snd app length seqZ]. unfold tagz at 1. rewrite Ea.
      split; [f_equal; rewrite T; exact TG|]. split; [f_equal; rewrite K, d2; reflexivity|]. split; [lia|exact FF].
    + exists dl. split; [apply sub_skip; exact S|]. rewrite d1. cbn [map app].
      split; [rewrite T; exact TG|]. split; [rewrite K, d2; reflexivity|]. split; [lia|exact FF].
Qed.

Lemma queued_under_sublist : forall ans q under, sublist (queued_under ans q under) q.
Proof.
  intros ans q. induction q as [|id q IH]; intros under; simpl; [constructor|].
  destruct (aget id ans) as [a|]; [|apply sub_skip; apply IH].
  destruct (a_st a); try (apply sub_skip; apply IH).
  destruct (zmem on under); [apply sub_keep|apply sub_skip]; apply IH.
Qed.

(* ---------------------------------------------------------------- the named sub-statements *)
(* direct: a Call on an importedCap target is never queued *)
Lemma order_direct : forall id e params tc mok tag s s1 o ab,
  handle_call cfg_fixed id (TgImp e) params tc mok tag s = Ok (s1, o, ab) ->
  (exists j, delivered id j tag s s1 o) \/ dropped id s s1 o.
Proof.
  intros id e params tc mok tag s s1 o ab H.
  destruct (call_sync _ _ _ _ _ _ _ _ _ _ H) as [(j & D & _)|[(t & x & P & _)|D]]; [left; eauto|simpl in P; discriminate|right; exact D].
Qed.

(* pipelined on an answer that has returned: never queued *)
Lemma order_pipelined_returned : forall id tg t x ta params tc mok tag s s1 o ab,
  handle_call cfg_fixed id tg params tc mok tag s = Ok (s1, o, ab) ->
  parse_target tg = Some (PAns t x) -> aget t (s_ans s) = Some ta -> a_ready ta = true ->
  (exists j, delivered id j tag s s1 o) \/ dropped id s s1 o.
Proof.
  intros id tg t x ta params tc mok tag s s1 o ab H P Ea Er.
  destruct (call_sync _ _ _ _ _ _ _ _ _ _ H) as [(j & D & _)|[(t' & x' & P' & (_ & _ & _ & _ & (ta' & Ea' & Er' & _) & _))|D]]; [left; eauto| |right; exact D].
  rewrite P in P'. inversion P'; subst. rewrite Ea in Ea'. inversion Ea'; subst. congruence.
Qed.

(* pipelined on an answer that has NOT returned: never delivered by the Call's own handler -- it goes
   to the end of the answer queue (or is dropped); the queue is drained in queue order: [drain_order] *)
Lemma order_pipelined_pending : forall id tg t x ta params tc mok tag s s1 o ab,
  handle_call cfg_fixed id tg params tc mok tag s = Ok (s1, o, ab) ->
  parse_target tg = Some (PAns t x) -> aget t (s_ans s) = Some ta -> a_ready ta = false ->
  enqueued id t x tag s s1 o \/ dropped id s s1 o.
Proof.
  intros id tg t x ta params tc mok tag s s1 o ab H P Ea Er.
  destruct (call_sync _ _ _ _ _ _ _ _ _ _ H) as [(j & _ & R)|[(t' & x' & P' & Q)|D]]; [|left|right; exact D].
  - unfold tgt_returned in R. rewrite P in R. destruct R as (ta' & Ea' & Er'). rewrite Ea in Ea'. inversion Ea'; subst. congruence.
  - rewrite P in P'. inversion P'; subst. exact Q.
Qed.

(* not vacuous: Bootstrap; Call 1 on the bootstrap export (delivered, runs); Call 2 and 3 pipelined on
   answer 1 (queued in this order); the server returns: 2 then 3 are delivered *)
Definition h_order : list event :=
  [MBootstrap 0; MCall 1 (TgImp 0) (Some (mkPayload true false (KStruct []) (Some []))) true true 11;
   MCall 2 (TgAns 1 (Some [XField 0])) (Some (mkPayload true false (KStruct []) (Some []))) true true 22;
   MCall 3 (TgAns 1 (Some [XField 0])) (Some (mkPayload true false (KStruct []) (Some []))) true true 33;
   AReturn 0 (ARResults [FLocal 1])].
Example order_reached :
  match run_o (init true) (firstn 4 h_order) [] with
  | Ok (s, out) => s_queue s = [2; 3] /\ delivs out = [(0, 11, 0)]
  | _ => False
  end /\
  match run_o (init true) h_order [] with
  | Ok (s, out) => s_queue s = [] /\ delivs out = [(0, 11, 0); (1, 22, 1); (1, 33, 2)]
  | _ => False
  end.
Proof. vm_compute. repeat split. Qed.
