(* Proofs about the RPC machine, part 8: history-level C07 import_release.
   [s_recv] is a ghost counter: the descriptors (senderHosted / senderPromise) received per import
   id, bumped by addImport and nowhere else.  For every history, while the connection is up:
     (sum of the referenceCounts of all Release messages sent for id i) + wireRefs of i's entry
       = descriptors received for i,
   entries have wireRefs > 0, a Release is sent exactly when an entry is deleted and carries the
   entry's wireRefs, and an entry whose client has no local reference left is only there because a
   call is still in progress on it (its Shutdown runs when that call is through). *)
From CV Require Import Rpc.Rpc Rpc.RpcSpec Rpc.RpcProofs Rpc.RpcInv Rpc.RpcResp Rpc.RpcLocal Rpc.RpcHist Rpc.RpcQids.
From Coq Require Import ZifyBool.
Open Scope Z_scope.

Definition rl1 (i : Z) (o : output) : Z := match o with ORelease j n => if j =? i then n else 0 | _ => 0 end.
Fixpoint rlsum (i : Z) (o : list output) : Z := match o with [] => 0 | x :: r => rl1 i x + rlsum i r end.
Definition wire (i : Z) (m : list (Z * impent)) : Z := match aget i m with Some e => i_wire e | None => 0 end.
Definition ibal (i : Z) (s : state) : Z := wire i (s_imp s) - cget i (s_recv s).
Definition wpos (s : state) : Prop := forall i e, aget i (s_imp s) = Some e -> 0 < i_wire e.

(* a piece of a handler keeps the balance of every import id *)
Definition ib (s : state) (o : list output) (s1 : state) : Prop :=
  (forall i, rlsum i o + ibal i s1 = ibal i s) /\ (wpos s -> wpos s1).

Lemma rlsum_app : forall i a b, rlsum i (a ++ b) = rlsum i a + rlsum i b.
Proof. intros i a b. induction a as [|x a IH]; simpl; [reflexivity|]. rewrite IH. lia. Qed.

Lemma ib_refl : forall s, ib s [] s.
Proof. intros s. split; [intros i; simpl; lia|auto]. Qed.
Lemma ib_trans : forall s o1 s1 o2 s2, ib s o1 s1 -> ib s1 o2 s2 -> ib s (o1 ++ o2) s2.
Proof. intros s o1 s1 o2 s2 [A1 B1] [A2 B2]. split; [intros i; rewrite rlsum_app; specialize (A1 i); specialize (A2 i); lia|auto]. Qed.

Definition norel (o : list output) : Prop := forall i, rlsum i o = 0.
Lemma norel_nil : norel []. Proof. intros i. reflexivity. Qed.
Lemma norel_cons : forall x o, (forall i, rl1 i x = 0) -> norel o -> norel (x :: o).
Proof. intros x o Hx Ho i. simpl. rewrite Hx, Ho. reflexivity. Qed.
Lemma norel_app : forall a b, norel a -> norel b -> norel (a ++ b).
Proof. intros a b Ha Hb i. rewrite rlsum_app, Ha, Hb. reflexivity. Qed.
Ltac nrl := repeat (first [apply norel_nil | apply norel_cons; [intros ?; reflexivity|] | apply norel_app]).

(* nothing about imports changes *)
Lemma ib_same : forall s o s1, s_imp s1 = s_imp s -> s_recv s1 = s_recv s -> norel o -> ib s o s1.
Proof.
  intros s o s1 E1 E2 N. split.
  - intros i. rewrite (N i). unfold ibal. rewrite E1, E2. lia.
  - unfold wpos. rewrite E1. auto.
Qed.
Lemma ib_out : forall s o s1 o', ib s o s1 -> norel o' -> ib s (o ++ o') s1.
Proof. intros s o s1 o' H N. rewrite <- (app_nil_r o), <- app_assoc. eapply ib_trans; [exact H|]. simpl. apply ib_same; auto. Qed.
Lemma ib_pre : forall s o s1 o', ib s o s1 -> norel o' -> ib s (o' ++ o) s1.
Proof. intros s o s1 o' H N. eapply ib_trans; [|exact H]. apply ib_same; auto. Qed.

Lemma wire_aput : forall i j e m, wire i (aput j e m) = if i =? j then i_wire e else wire i m.
Proof. intros. unfold wire. rewrite aget_aput. destruct (i =? j); reflexivity. Qed.
Lemma wire_adel : forall i j m, wire i (adel j m) = if i =? j then 0 else wire i m.
Proof. intros. unfold wire. rewrite aget_adel. destruct (i =? j); reflexivity. Qed.

(* an entry is rewritten with the same wireRefs *)
Lemma ib_refs : forall s i e e', aget i (s_imp s) = Some e -> i_wire e' = i_wire e -> ib s [] (set_imp (aput i e' (s_imp s)) s).
Proof.
  intros s i e e' E W. split.
  - intros j. simpl. unfold ibal. cbn [s_imp s_recv set_imp]. rewrite wire_aput. destruct (j =? i) eqn:Ej; [|lia].
    assert (j = i) by lia. subst j. unfold wire. rewrite E. lia.
  - intros P j e0 H. cbn [s_imp set_imp] in H. rewrite aget_aput in H. destruct (j =? i) eqn:Ej; [|eapply P; eauto].
    inversion H; subst. rewrite W. eapply P; eauto.
Qed.

(* ---------------------------------------------------------------- the primitives *)
Lemma ib_imp_shutdown : forall i g s s1 o, imp_shutdown cfg_fixed i g s = Ok (s1, o) -> ib s o s1.
Proof.
  intros i g s s1 o H. unfold imp_shutdown in H. destruct (s_shut s); [inversion H; apply ib_refl|].
  destruct (aget i (s_imp s)) as [e|] eqn:E; [|inversion H; apply ib_refl].
  destruct (i_gen e =? g); inversion H; subst; [|apply ib_refl]. split.
  - intros j. simpl. unfold ibal. cbn [s_imp s_recv set_imp]. rewrite wire_adel. destruct (j =? i) eqn:Ej.
    + assert (j = i) by lia. subst j. rewrite Z.eqb_refl. unfold wire. rewrite E. lia.
    + replace (i =? j) with false by lia. lia.
  - intros P j e0 H0. cbn [s_imp set_imp] in H0. rewrite aget_adel in H0. destruct (j =? i); [discriminate|eapply P; eauto].
Qed.

Lemma ib_imp_release : forall i g s s1 o, imp_release cfg_fixed i g s = Ok (s1, o) -> ib s o s1.
Proof.
  intros i g s s1 o H. unfold imp_release in H. destruct (aget i (s_imp s)) as [e|] eqn:E; [|eapply ib_imp_shutdown; eauto].
  destruct ((i_gen e =? g) && (0 <? i_refs e)); [|eapply ib_imp_shutdown; eauto].
  cbn [i_refs] in H.
  pose proof (ib_refs s i e (mkImp (i_wire e) (i_gen e) (i_refs e - 1)) E eq_refl) as R.
  destruct (i_refs e - 1 =? 0); [|inversion H; subst; exact R].
  destruct (busy_get i g (s_busy s) =? 0).
  - apply ib_imp_shutdown in H. change o with ([] ++ o). eapply ib_trans; eauto.
  - inversion H; subst. change (@nil output) with (@nil output ++ []). eapply ib_trans; [exact R|]. apply ib_same; try reflexivity. nrl.
Qed.

Lemma ib_add_import : forall i s, ib s [] (fst (add_import cfg_fixed i s)).
Proof.
  intros i s. unfold add_import. cbn [fx20 cfg_fixed].
  assert (G : forall e' sx, s_imp sx = aput i e' (s_imp s) -> s_recv sx = s_recv s -> (wpos s -> 0 < i_wire e') ->
            i_wire e' = wire i (s_imp s) + 1 -> ib s [] (bump_recv i sx)).
  { intros e' sx E1 E2 Hp Hw. split.
    - intros j. simpl. unfold ibal, bump_recv. cbn [s_imp s_recv set_recv]. rewrite E1, E2, wire_aput, cget_cadd.
      destruct (j =? i) eqn:Ej; [|lia]. assert (j = i) by lia. subst j. lia.
    - intros P j e0 H. unfold bump_recv in H. cbn [s_imp set_recv] in H. rewrite E1, aget_aput in H.
      destruct (j =? i); [inversion H; subst; exact (Hp P)|eapply P; eauto]. }
  destruct (aget i (s_imp s)) as [e|] eqn:E.
  - assert (W : wire i (s_imp s) = i_wire e) by (unfold wire; rewrite E; reflexivity).
    destruct (0 <? i_refs e); cbn [fst]; (eapply G; [reflexivity|reflexivity| |cbn [i_wire]; lia]);
      intros P; cbn [i_wire]; pose proof (P _ _ E); lia.
  - assert (W : wire i (s_imp s) = 0) by (unfold wire; rewrite E; reflexivity).
    cbn [fst]. eapply G; [reflexivity|reflexivity|intros _; cbn [i_wire]; lia|cbn [i_wire]; lia].
Qed.

Lemma ib_state : forall s s1, s_imp s1 = s_imp s -> s_recv s1 = s_recv s -> ib s [] s1.
Proof. intros. apply ib_same; auto. nrl. Qed.

Lemma ib_emb_release : forall e s, ib s [] (emb_release cfg_fixed e s).
Proof.
  intros e s. unfold emb_release. destruct (tget e (s_emb s)) as [em|]; [|apply ib_refl]. destruct (0 <? e_refs em); [|apply ib_refl].
  destruct (_ && _ && _); [destruct (e_cap em)|]; apply ib_state; reflexivity.
Qed.

Lemma ib_release_cap : forall x s s1 o, release_cap cfg_fixed x s = Ok (s1, o) -> ib s o s1.
Proof.
  intros x s s1 o H. destruct x; simpl in H; try (inversion H; subst; apply ib_state; reflexivity).
  - eapply ib_imp_release; eauto.
  - inversion H; subst. apply ib_emb_release.
Qed.

Lemma ib_release_caps : forall l s s1 o, release_caps cfg_fixed l s = Ok (s1, o) -> ib s o s1.
Proof.
  induction l as [|x l IH]; intros s s1 o H; simpl in H; [inversion H; apply ib_refl|].
  destruct (release_cap cfg_fixed x s) as [[sa oa]| |] eqn:Ea; simpl in H; try discriminate.
  destruct (release_caps cfg_fixed l sa) as [[sb ob]| |] eqn:Eb; simpl in H; try discriminate. inversion H; subst.
  eapply ib_trans; [eapply ib_release_cap; eauto|eapply IH; eauto].
Qed.

Lemma ib_addref : forall x s, ib s [] (addref_cap x s).
Proof.
  intros x s. destruct x; simpl; try apply ib_refl.
  - apply ib_state; reflexivity.
  - destruct (aget i (s_imp s)) as [e|] eqn:E; [|apply ib_refl]. destruct (_ && _); [|apply ib_refl].
    eapply ib_refs; [exact E|reflexivity].
  - destruct (tget e (s_emb s)) as [em|]; [|apply ib_refl]. destruct (0 <? e_refs em); [apply ib_state; reflexivity|apply ib_refl].
Qed.

Lemma ib_wake_calls : forall e x l s, ib s (snd (wake_calls e x l s)) (fst (wake_calls e x l s)).
Proof.
  induction l as [|[[e' n] tag] l IH]; intros s; simpl; [apply ib_refl|].
  destruct (e' =? e); [|apply IH].
  destruct x; try (specialize (IH s); destruct (wake_calls e _ l s) as [s2 o2]; simpl in *;
                   change (LAppRes n 1 :: o2) with ([LAppRes n 1] ++ o2); apply ib_pre; [exact IH|nrl]).
  match goal with |- context [wake_calls e ?x l ?s1] => specialize (IH s1); destruct (wake_calls e x l s1) as [s2 o2] end.
  simpl in *. match goal with |- ib _ (?m :: o2) _ => change (m :: o2) with ([m] ++ o2) end.
  eapply ib_trans; [|exact IH]. apply ib_same; try reflexivity. nrl.
Qed.

Lemma ib_lift : forall e em s s1 o, lift cfg_fixed e em s = Ok (s1, o) -> ib s o s1.
Proof.
  intros e em s s1 o H. unfold lift in H. cbn [fx22 cfg_fixed negb] in H. rewrite andb_false_r in H. cbv iota in H.
  match type of H with context [wake_calls e ?x ?l ?s1] => set (sb := s1) in * end.
  pose proof (ib_wake_calls e (e_cap em) (s_ecalls sb) sb) as W.
  destruct (wake_calls e (e_cap em) (s_ecalls sb) sb) as [s2 o2]. simpl in W. inversion H; subst.
  rewrite <- (app_nil_l o). eapply ib_trans; [|rewrite <- (app_nil_r o); eapply ib_trans; [exact W|apply ib_state; reflexivity]].
  unfold sb. destruct (e_cap em); apply ib_state; reflexivity.
Qed.

Lemma ib_recv_caps : forall ds s tab loc,
  match recv_caps cfg_fixed ds s tab loc with RPOk s1 _ _ => ib s [] s1 | RPErr s1 _ => ib s [] s1 end.
Proof.
  induction ds as [|d ds IH]; intros s tab loc; simpl; [apply ib_refl|].
  assert (T : forall sa, ib s [] sa -> forall tab' loc', match recv_caps cfg_fixed ds sa tab' loc' with RPOk s1 _ _ => ib s [] s1 | RPErr s1 _ => ib s [] s1 end).
  { intros sa A tab' loc'. specialize (IH sa tab' loc'). destruct (recv_caps cfg_fixed ds sa tab' loc');
      (change (@nil output) with (@nil output ++ []); eapply ib_trans; eauto). }
  destruct d; try apply IH.
  - pose proof (ib_add_import i s) as A. destruct (add_import cfg_fixed i s) as [s1 x]. apply T. exact A.
  - pose proof (ib_add_import i s) as A. destruct (add_import cfg_fixed i s) as [s1 x]. apply T. exact A.
  - destruct (tget i (s_exp s)) as [[x w]|]; [|apply ib_refl]. apply T. apply ib_addref.
Qed.

Lemma ib_recv_payload : forall p s,
  match recv_payload cfg_fixed p s with PLOk s1 _ _ _ => ib s [] s1 | PLErr s1 _ => ib s [] s1 end.
Proof.
  intros p s. unfold recv_payload. destruct (negb (p_valid p)); [apply ib_refl|]. destruct (p_cerr p); [apply ib_refl|].
  destruct (p_caps p) as [ds|]; [|apply ib_refl]. pose proof (ib_recv_caps ds s [] []) as H.
  destruct (recv_caps cfg_fixed ds s [] []); exact H.
Qed.

Lemma ib_send_cap : forall x s s1 d oe, send_cap cfg_fixed x s = Ok (s1, d, oe) -> ib s [] s1.
Proof.
  intros x s s1 d oe H. unfold send_cap in H.
  assert (NEW : forall y s0, ib s [] s0 ->
            (do '(id, g) <- gen_next (s_egen s); do t <- tput id (y, 1) (s_exp s);
             Ok (set_sent (cadd id 1 (s_sent s)) (set_allocs (s_allocs s + 1) (set_egen g (set_exp t s0))), DSH id, Some id)) = Ok (s1, d, oe) ->
            ib s [] s1).
  { intros y s0 A HH. destruct (gen_next (s_egen s)) as [[id g']| |]; cbn [bind] in HH; try discriminate.
    destruct (tput id (y, 1) (s_exp s)) as [t'| |]; cbn [bind] in HH; try discriminate. inversion HH; subst.
    change (@nil output) with (@nil output ++ []). eapply ib_trans; [exact A|]. apply ib_state; reflexivity. }
  destruct x.
  - inversion H; apply ib_refl.
  - simpl in H. destruct (find_export CErr (s_exp s) 0) as [[id w]|]; [inversion H; apply ib_state; reflexivity|apply (NEW CErr s (ib_refl s) H)].
  - simpl in H. destruct (find_export (CLocal j) (s_exp s) 0) as [[id w]|]; [inversion H; apply ib_state; reflexivity|apply (NEW (CLocal j) (lref 1 j s) (ib_addref (CLocal j) s) H)].
  - destruct (imp_current i g s); [inversion H; apply ib_refl|].
    destruct (find_export (CImp i g) (s_exp s) 0) as [[id w]|]; [inversion H; apply ib_state; reflexivity|apply (NEW (CImp i g) (addref_cap (CImp i g) s) (ib_addref _ _) H)].
  - simpl in H. destruct (find_export (CEmb e) (s_exp s) 0) as [[id w]|]; [inversion H; apply ib_state; reflexivity|apply (NEW (CEmb e) (addref_cap (CEmb e) s) (ib_addref _ _) H)].
Qed.

Lemma ib_fill_caps : forall l s s1 ds refs, fill_caps cfg_fixed l s = Ok (s1, ds, refs) -> ib s [] s1.
Proof.
  induction l as [|x l IH]; intros s s1 ds refs H; simpl in H; [inversion H; apply ib_refl|].
  destruct (send_cap cfg_fixed x s) as [[[sa d] oe]| |] eqn:Ea; cbn [bind] in H; try discriminate.
  destruct (fill_caps cfg_fixed l sa) as [[[sb ds'] refs']| |] eqn:Eb; cbn [bind] in H; try discriminate. inversion H; subst.
  change (@nil output) with (@nil output ++ []). eapply ib_trans; [eapply ib_send_cap; eauto|eapply IH; eauto].
Qed.

Lemma ib_release_export : forall id n s, ib s [] (fst (fst (release_export id n s))).
Proof.
  intros id n s. unfold release_export. destruct (tget id (s_exp s)) as [[x w]|]; [|apply ib_refl].
  destruct (n =? w); [apply ib_state; reflexivity|]. destruct (w <? n); [apply ib_refl|apply ib_state; reflexivity].
Qed.

Lemma ib_release_exports : forall refs s, ib s [] (fst (fst (release_exports refs s))).
Proof.
  induction refs as [|[i n] refs IH]; intros s; simpl; [apply ib_refl|].
  pose proof (ib_release_export i n s) as F1. destruct (release_export i n s) as [[sa oc] ea]. simpl in F1.
  specialize (IH sa). destruct (release_exports refs sa) as [[sb clb] eb]. simpl in *.
  change (@nil output) with (@nil output ++ []). eapply ib_trans; eauto.
Qed.

Lemma ib_destroy : forall id a s s1 o err, destroy cfg_fixed id a s = Ok (s1, o, err) -> ib s o s1.
Proof.
  intros id a s s1 o err H. unfold destroy in H.
  destruct (a_rrc a && negb match a_xrefs a with [] => true | _ :: _ => false end).
  - pose proof (ib_release_exports (a_xrefs a) (set_ans (adel id (s_ans s)) s)) as F.
    destruct (release_exports (a_xrefs a) (set_ans (adel id (s_ans s)) s)) as [[sx cl] e2]. simpl in F.
    destruct (release_caps cfg_fixed (rct_caps (a_rct a) ++ cl) sx) as [[s3 o3]| |] eqn:E3; simpl in H; try discriminate.
    inversion H; subst. rewrite <- (app_nil_l o). eapply ib_trans; [|eapply ib_release_caps; eauto].
    change (@nil output) with (@nil output ++ []). eapply ib_trans; [|exact F]. apply ib_state; reflexivity.
  - destruct (release_caps cfg_fixed (rct_caps (a_rct a) ++ []) (set_ans (adel id (s_ans s)) s)) as [[s3 o3]| |] eqn:E3; simpl in H; try discriminate.
    inversion H; subst. rewrite <- (app_nil_l o). eapply ib_trans; [|eapply ib_release_caps; eauto]. apply ib_state; reflexivity.
Qed.

Lemma norel_outs : forall (b : bool) x, (forall i, rl1 i x = 0) -> norel (if b then [] else [x]).
Proof. intros b x H. destruct b; [apply norel_nil|apply norel_cons; [exact H|apply norel_nil]]. Qed.

Lemma ib_send_exception : forall id a s s1 o ab, send_exception cfg_fixed id a s = Ok (s1, o, ab) -> ib s o s1.
Proof.
  intros id a s s1 o ab H. unfold send_exception in H. destruct (a_fin a).
  - destruct (destroy cfg_fixed id _ _) as [[[s2 o2] e2]| |] eqn:E; simpl in H; try discriminate. inversion H; subst.
    apply ib_pre; [|apply norel_outs; reflexivity]. rewrite <- (app_nil_l o2). eapply ib_trans; [|eapply ib_destroy; eauto].
    apply ib_state; reflexivity.
  - inversion H; subst. apply ib_same; try reflexivity. apply norel_outs; reflexivity.
Qed.

Lemma ib_send_return : forall id a k rct s s1 o ab, send_return cfg_fixed id a k rct s = Ok (s1, o, ab) -> ib s o s1.
Proof.
  intros id a k rct s s1 o ab H. unfold send_return in H.
  destruct (fill_caps cfg_fixed (rct_caps rct) s) as [[[s0 ds] refs]| |] eqn:E0; cbn [bind] in H; try discriminate.
  apply ib_fill_caps in E0. destruct (a_fin a).
  - destruct (destroy cfg_fixed id _ _) as [[[s2 o2] e2]| |] eqn:E; simpl in H; try discriminate. inversion H; subst.
    apply ib_pre; [|apply norel_outs; reflexivity]. rewrite <- (app_nil_l o2). eapply ib_trans; [exact E0|].
    rewrite <- (app_nil_l o2). eapply ib_trans; [|eapply ib_destroy; eauto]. apply ib_state; reflexivity.
  - inversion H; subst. rewrite <- (app_nil_l (if s_shut s then [] else _)). eapply ib_trans; [exact E0|].
    apply ib_same; try reflexivity. apply norel_outs; reflexivity.
Qed.

Lemma ib_reject : forall id a s s1 o ab, reject cfg_fixed id a s = Ok (s1, o, ab) -> ib s o s1.
Proof.
  intros id a s s1 o ab H. unfold reject in H.
  destruct (release_caps cfg_fixed (a_args a) s) as [[s0 o0]| |] eqn:E0; simpl in H; try discriminate.
  destruct (send_exception cfg_fixed id (set_a_args [] a) s0) as [[[s2 o2] b2]| |] eqn:E2; simpl in H; try discriminate.
  inversion H; subst. eapply ib_trans; [eapply ib_release_caps; eauto|eapply ib_send_exception; eauto].
Qed.

Lemma ib_deliver : forall id a t s s1 o ab, deliver cfg_fixed id a t s = Ok (s1, o, ab) -> ib s o s1.
Proof.
  intros id a t s s1 o ab H. unfold deliver in H.
  destruct t; [|eapply ib_reject; eauto|discriminate].
  destruct (a_mok a); [|eapply ib_reject; eauto]. inversion H; subst. apply ib_same; try reflexivity. nrl.
Qed.

Lemma ib_reject_all : forall ids s s1 o ab, reject_all cfg_fixed ids s = Ok (s1, o, ab) -> ib s o s1.
Proof.
  induction ids as [|id ids IH]; intros s s1 o ab H; simpl in H; [inversion H; subst; apply ib_refl|].
  destruct (aget id (s_ans s)) as [a|]; [|eapply IH; eauto].
  destruct (reject cfg_fixed id a s) as [[[s' o'] b']| |] eqn:E; cbn [bind] in H; try discriminate.
  destruct (reject_all cfg_fixed ids s') as [[[s2 o2] b2]| |] eqn:E2; simpl in H; try discriminate. inversion H; subst.
  eapply ib_trans; [eapply ib_reject; eauto|eapply IH; eauto].
Qed.

Lemma ib_drain : forall r k rct lst ids s s1 o ab, drain cfg_fixed r k rct lst ids s = Ok (s1, o, ab) -> ib s o s1.
Proof.
  induction ids as [|id ids IH]; intros s s1 o ab H; simpl in H; [inversion H; subst; apply ib_refl|].
  match type of H with (bind ?x _) = _ => destruct x as [[[s' o'] b']| |] eqn:E; cbn [bind] in H; try discriminate end.
  destruct (drain cfg_fixed r k rct lst ids s') as [[[s2 o2] b2]| |] eqn:E2; simpl in H; try discriminate. inversion H; subst.
  eapply ib_trans; [|eapply IH; eauto].
  destruct (aget id (s_ans s)) as [a|]; [|inversion E; subst; apply ib_refl].
  destruct (a_st a); try (inversion E; subst; apply ib_refl).
  destruct (_ =? r); [eapply ib_deliver; eauto|].
  destruct (aget _ (s_ans s)) as [b|]; [|eapply ib_reject; eauto].
  destruct (a_ready b); [destruct (a_err b); [eapply ib_reject; eauto|eapply ib_deliver; eauto]|].
  inversion E; subst. apply ib_state; reflexivity.
Qed.

Lemma ib_embargo_caps : forall qid k called loc done tab s s1 tab1 o,
  embargo_caps cfg_fixed qid k called loc done tab s = Ok (s1, tab1, o) -> ib s o s1.
Proof.
  induction called as [|x called IH]; intros loc done tab s s1 tab1 o H; simpl in H.
  - inversion H; subst. apply ib_refl.
  - destruct (transform_eval k x); try (eapply IH; eauto; fail).
    destruct (znth k0 tab) as [lc|]; [|eapply IH; eauto].
    destruct (znth k0 loc) as [[|]|]; try (eapply IH; eauto; fail).
    destruct (zmem k0 done); [eapply IH; eauto|].
    destruct (gen_next (s_mgen s)) as [[e g]| |]; cbn [bind] in H; try discriminate.
    destruct (tput e (mkEmb lc 1) (s_emb s)) as [t| |]; cbn [bind] in H; try discriminate.
    match type of H with (bind ?r _) = _ => destruct r as [[[s2 tab2] o2]| |] eqn:E2; cbn [bind] in H; try discriminate end.
    inversion H; subst. apply IH in E2.
    match goal with |- ib _ (?m :: o2) _ => change (m :: o2) with ([m] ++ o2) end.
    eapply ib_trans; [|exact E2]. apply ib_same; try reflexivity. nrl.
Qed.

(* ---------------------------------------------------------------- handlers for peer messages *)
Lemma ib_handle_bootstrap : forall id s s0 o0 ab, handle_bootstrap cfg_fixed id s = Ok (s0, o0, ab) -> ib s o0 s0.
Proof.
  intros id s s0 o0 ab H. unfold handle_bootstrap in H.
  destruct (aget id (s_ans s)); [inversion H; subst; apply ib_refl|].
  destruct (negb (s_boot s)); [eapply ib_send_exception; eauto|].
  destruct (send_return cfg_fixed id _ _ _ _) as [[[s1 o] err]| |] eqn:E; cbn [bind] in H; try discriminate.
  destruct err; [discriminate|]. inversion H; subst.
  rewrite <- (app_nil_l o0). eapply ib_trans; [|eapply ib_send_return; eauto]. apply ib_state; reflexivity.
Qed.

Lemma ib_handle_finish : forall id rrc s s0 o0 ab, handle_finish cfg_fixed id rrc s = Ok (s0, o0, ab) -> ib s o0 s0.
Proof.
  intros id rrc s s0 o0 ab H. unfold handle_finish in H.
  destruct (aget id (s_ans s)) as [a|]; [|inversion H; subst; apply ib_refl].
  destruct (a_fin a); [inversion H; subst; apply ib_refl|].
  destruct (negb (a_ret a)); [inversion H; subst; apply ib_state; reflexivity|].
  eapply ib_destroy; eauto.
Qed.

Lemma ib_handle_release : forall id n s s0 o0 ab, handle_release cfg_fixed id n s = Ok (s0, o0, ab) -> ib s o0 s0.
Proof.
  intros id n s s0 o0 ab H. unfold handle_release in H.
  pose proof (ib_release_export id n s) as F. destruct (release_export id n s) as [[s1 oc] err]. simpl in F.
  destruct err; [inversion H; subst; apply ib_refl|].
  destruct oc as [x|]; [|inversion H; subst; exact F].
  destruct (release_cap cfg_fixed x s1) as [[s2 o]| |] eqn:E; cbn [bind] in H; try discriminate. inversion H; subst.
  rewrite <- (app_nil_l o0). eapply ib_trans; [exact F|eapply ib_release_cap; eauto].
Qed.

Lemma ib_handle_call : forall id tg params toCaller mok tag s s0 o0 ab,
  handle_call cfg_fixed id tg params toCaller mok tag s = Ok (s0, o0, ab) -> ib s o0 s0.
Proof.
  intros id tg params toCaller mok tag s s0 o0 ab H. unfold handle_call in H.
  destruct toCaller; simpl negb in H; cbv iota in H; [|inversion H; subst; apply ib_same; try reflexivity; nrl].
  destruct (aget id (s_ans s)); [inversion H; subst; apply ib_refl|].
  match type of H with (bind ?r _) = _ => destruct r as [[[s1 parsed] tor]| |] eqn:EP; cbn [bind] in H; try discriminate end.
  assert (C : ib s [] s1).
  { destruct params as [p|]; [|inversion EP; apply ib_refl].
    pose proof (ib_recv_payload p s) as C.
    destruct (recv_payload cfg_fixed p s) as [sa k tab loc|sa part].
    - destruct (parse_target tg); inversion EP; subst; exact C.
    - rewrite payload_err_fixed in EP. simpl in EP. inversion EP; subst. exact C. }
  assert (LIFT : ib s1 o0 s0 -> ib s o0 s0).
  { intros F. rewrite <- (app_nil_l o0). eapply ib_trans; eauto. }
  apply LIFT.
  destruct parsed as [[pt tab]|].
  2:{ cbn [fx15 cfg_fixed negb] in H.
      destruct (send_exception cfg_fixed id _ s1) as [[[s2 o2] b2]| |] eqn:E2; cbn [bind] in H; try discriminate.
      destruct (release_caps cfg_fixed tor s2) as [[s3 o3]| |] eqn:E3; cbn [bind] in H; try discriminate. inversion H; subst.
      eapply ib_trans; [eapply ib_send_exception; eauto|eapply ib_release_caps; eauto]. }
  assert (UNK : forall o2, (do '(s2, o2) <- release_caps cfg_fixed tab (set_ans (aput id placeholder (s_ans s1)) s1); Ok (s2, o2, true)) = Ok (s0, o2, ab) ->
            ib s1 o2 s0).
  { intros o2 HU. destruct (release_caps cfg_fixed tab _) as [[s2 o2']| |] eqn:E2; cbn [bind] in HU; try discriminate.
    inversion HU; subst. rewrite <- (app_nil_l o2). eapply ib_trans; [|eapply ib_release_caps; eauto]. apply ib_state; reflexivity. }
  destruct pt as [e|t x].
  - destruct (tget e (s_exp s1)) as [[xc w]|]; [eapply ib_deliver; eauto|apply UNK; exact H].
  - cbn [fx24 cfg_fixed negb andb] in H. rewrite andb_false_r in H. destruct (t =? id); [apply UNK; exact H|].
    destruct (aget t (s_ans s1)) as [ta|]; [|apply UNK; exact H].
    destruct (a_fin ta); [apply UNK; exact H|].
    destruct (a_ready ta).
    + destruct (a_err ta); [eapply ib_reject; eauto|eapply ib_deliver; eauto].
    + destruct (a_st ta); [discriminate| |]; cbn [fx14 cfg_fixed] in H; inversion H; subst; apply ib_state; reflexivity.
Qed.

Lemma ib_handle_disembargo : forall tg cx s s0 o0 ab, handle_disembargo cfg_fixed tg cx s = Ok (s0, o0, ab) -> ib s o0 s0.
Proof.
  intros tg cx s s0 o0 ab H. unfold handle_disembargo in H.
  destruct (parse_target tg); [|inversion H; subst; apply ib_refl].
  destruct cx as [i|e|]; [inversion H; subst; apply ib_refl| |inversion H; subst; apply ib_same; try reflexivity; nrl].
  destruct (tget e (s_emb s)) as [em|]; [|inversion H; subst; apply ib_refl].
  match type of H with (bind (lift cfg_fixed e em ?sx) _) = _ => destruct (lift cfg_fixed e em sx) as [[s1 o1]| |] eqn:EL; cbn [bind] in H; try discriminate end.
  inversion H; subst. rewrite <- (app_nil_l o0). eapply ib_trans; [|eapply ib_lift; eauto]. apply ib_state; reflexivity.
Qed.

Lemma ib_handle_return : forall qid rpc k s s0 o0 ab, handle_return cfg_fixed qid rpc k s = Ok (s0, o0, ab) -> ib s o0 s0.
Proof.
  intros qid rpc k s s0 o0 ab H. unfold handle_return in H.
  destruct (tget qid (s_qs s)) as [q|] eqn:Eq; [|inversion H; subst; apply ib_refl].
  set (sa := set_qs (tclear qid (s_qs s)) s) in *.
  assert (A1 : exists s1 pc, (if fx19 cfg_fixed && rpc then let '(s1, cl, _) := release_exports (q_prefs q) sa in (s1, cl) else (sa, [])) = (s1, pc) /\ ib s [] s1).
  { assert (Sa : ib s [] sa) by (apply ib_state; reflexivity).
    destruct (fx19 cfg_fixed && rpc).
    - pose proof (ib_release_exports (q_prefs q) sa) as F. destruct (release_exports (q_prefs q) sa) as [[s1 cl] e]. simpl in F.
      exists s1, cl. split; [reflexivity|]. change (@nil output) with (@nil output ++ []). eapply ib_trans; [exact Sa|exact F].
    - eauto. }
  destruct A1 as (s1 & pc & E1 & A1). rewrite E1 in H. clear E1.
  assert (LIFT : forall sx, ib s1 o0 sx -> ib s o0 sx).
  { intros sx F. rewrite <- (app_nil_l o0). eapply ib_trans; eauto. }
  destruct (q_fin q) eqn:Ef.
  { destruct (release_caps cfg_fixed pc _) as [[s2 o2]| |] eqn:E2; cbn [bind] in H; try discriminate. inversion H; subst.
    apply LIFT. rewrite <- (app_nil_l o0). eapply ib_trans; [|eapply ib_release_caps; eauto]. apply ib_state; reflexivity. }
  match type of H with (bind ?r _) = _ => destruct r as [[[[s2 parsed] tor] disemb]| |] eqn:EP; cbn [bind] in H; try discriminate end.
  assert (A2 : ib s1 disemb s2).
  { destruct k as [[p|]| |]; try (inversion EP; subst; apply ib_refl).
    pose proof (ib_recv_payload p s1) as Cp.
    destruct (recv_payload cfg_fixed p s1) as [sb kc tab loc|sb part].
    - destruct (embargo_caps cfg_fixed qid kc (q_called q) loc [] tab sb) as [[[s3 tab3] o3]| |] eqn:E3; cbn [bind] in EP; try discriminate.
      inversion EP; subst. rewrite <- (app_nil_l disemb). eapply ib_trans; [exact Cp|eapply ib_embargo_caps; eauto].
    - rewrite payload_err_fixed in EP. simpl in EP. inversion EP; subst. exact Cp. }
  match type of H with (bind ?r _) = _ => destruct r as [[s3 o3]| |] eqn:E3; cbn [bind] in H; try discriminate end.
  destruct (release_caps cfg_fixed pc s3) as [[s5 o5]| |] eqn:E5; cbn [bind] in H; try discriminate. inversion H; subst.
  assert (A3 : ib s2 o3 s3).
  { destruct (q_boot q) as [h|] eqn:Eb; destruct parsed as [[kc tab]|]; cbn [fx17 cfg_fixed negb andb] in E3;
      match type of E3 with (bind ?r _) = _ => destruct r as [[s4 o4]| |] eqn:E4; cbn [bind] in E3; try discriminate end;
      inversion E3; subst; pose proof (ib_release_caps _ _ _ _ E4) as A4.
    - rewrite <- (app_nil_l o3). eapply ib_trans; [|exact A4].
      change (@nil output) with (@nil output ++ []). eapply ib_trans; [apply ib_addref|apply ib_state; reflexivity].
    - rewrite <- (app_nil_l o3). eapply ib_trans; [|exact A4]. apply ib_state; reflexivity.
    - match goal with |- ib _ (?m :: o4) _ => change (m :: o4) with ([m] ++ o4) end. apply ib_pre; [exact A4|nrl].
    - match goal with |- ib _ (?m :: o4) _ => change (m :: o4) with ([m] ++ o4) end. apply ib_pre; [exact A4|nrl]. }
  apply LIFT. eapply ib_trans; [exact A2|].
  apply (ib_pre s2 (o3 ++ o5) _ [OFinish qid false]); [|nrl].
  eapply ib_trans; [exact A3|]. rewrite <- (app_nil_r o5). eapply ib_trans; [eapply ib_release_caps; eauto|apply ib_state; reflexivity].
Qed.

(* ---------------------------------------------------------------- application actions *)
Lemma new_question_imp : forall q s s1 id, new_question q s = Ok (s1, id) -> s_imp s1 = s_imp s /\ s_recv s1 = s_recv s.
Proof.
  intros q s s1 id H. unfold new_question in H.
  destruct (gen_next (s_qgen s)) as [[i g]| |]; cbn [bind] in H; try discriminate.
  destruct (tput i q (s_qs s)) as [t| |]; cbn [bind] in H; try discriminate. inversion H; subst. split; reflexivity.
Qed.

Lemma ib_send_call : forall s1 n caps (mk : Z -> list desc -> output) s0 o0 ab, (forall id ds i, rl1 i (mk id ds) = 0) ->
  (do '(s2, id) <- new_question (mkQ None n false [] [] None) s1;
   do '(s3, ds, refs) <- fill_caps cfg_fixed (map (acap_cap s2) caps) s2;
   let s4 := if fx19 cfg_fixed then set_qs (replace_nth (Z.to_nat id) (Some (mkQ None n false [] refs None)) (s_qs s3)) s3 else s3 in
   Ok (s4, [mk id ds], false)) = Ok (s0, o0, ab) -> ib s1 o0 s0.
Proof.
  intros s1 n caps mk s0 o0 ab Hmk H.
  destruct (new_question _ s1) as [[s2 id]| |] eqn:E; cbn [bind] in H; try discriminate.
  destruct (new_question_imp _ _ _ _ E) as [I1 I2].
  destruct (fill_caps cfg_fixed _ s2) as [[[s3 ds] refs]| |] eqn:E3; cbn [bind] in H; try discriminate.
  apply ib_fill_caps in E3. cbn [fx19 cfg_fixed] in H. inversion H; subst.
  rewrite <- (app_nil_l [mk id ds]). eapply ib_trans; [apply ib_state; eauto|].
  rewrite <- (app_nil_l [mk id ds]). eapply ib_trans; [exact E3|]. apply ib_same; try reflexivity.
  apply norel_cons; [intros i; apply Hmk|apply norel_nil].
Qed.

Lemma ib_app_pipe : forall q0 x caps s s0 o0 ab, app_pipe cfg_fixed q0 x caps s = Ok (s0, o0, ab) -> ib s o0 s0.
Proof.
  intros q0 x caps s s0 o0 ab H. unfold app_pipe, next_call in H.
  set (sa := set_ncall (s_ncall s + 1) s) in *.
  assert (SIMPLE : forall c, Ok (sa, [LAppRes (s_ncall s) c], false) = Ok (s0, o0, ab) -> ib s o0 s0).
  { intros c E. inversion E; subst. apply ib_same; try reflexivity. nrl. }
  destruct (s_shut sa); [apply (SIMPLE _ H)|].
  destruct (tget q0 (s_qs sa)) as [q|]; [|apply (SIMPLE _ H)].
  destruct (q_fin q); [apply (SIMPLE _ H)|].
  rewrite <- (app_nil_l o0). eapply ib_trans; [|eapply (ib_send_call _ _ _ (fun id ds => OCall id (OTAns q0 x) ds)); [|exact H]; reflexivity].
  apply ib_state; reflexivity.
Qed.

Lemma ib_app_call : forall h caps tag s s0 o0 ab, app_call cfg_fixed h caps tag s = Ok (s0, o0, ab) -> ib s o0 s0.
Proof.
  intros h caps tag s s0 o0 ab H. unfold app_call in H.
  destruct (hget h s) as [q0|x|]; [eapply ib_app_pipe; eauto| |unfold next_call in H; inversion H; subst; apply ib_same; try reflexivity; nrl].
  unfold next_call in H. set (sa := set_ncall (s_ncall s + 1) s) in *.
  destruct x; try (inversion H; subst; apply ib_same; try reflexivity; nrl; fail).
  destruct (s_shut sa); [inversion H; subst; apply ib_same; try reflexivity; nrl|].
  destruct (negb (imp_current i g sa)); [inversion H; subst; apply ib_same; try reflexivity; nrl|].
  rewrite <- (app_nil_l o0). eapply ib_trans; [|eapply (ib_send_call _ _ _ (fun id ds => OCall id (OTImp i) ds)); [|exact H]; reflexivity].
  apply ib_state; reflexivity.
Qed.

Lemma ib_app_hold : forall h s s0 o0 ab, app_hold cfg_fixed h s = Ok (s0, o0, ab) -> ib s o0 s0.
Proof.
  intros h s s0 o0 ab H. unfold app_hold, next_call in H.
  set (sa := set_ncall (s_ncall s + 1) s) in *.
  destruct (hget h sa) as [q0|x|]; try (inversion H; subst; apply ib_same; try reflexivity; nrl; fail).
  destruct x; try (inversion H; subst; apply ib_same; try reflexivity; nrl; fail).
  destruct (s_shut sa || _); [inversion H; subst; apply ib_same; try reflexivity; nrl|].
  destruct (new_question _ sa) as [[s2 id]| |] eqn:E; cbn [bind] in H; try discriminate. inversion H; subst.
  destruct (new_question_imp _ _ _ _ E) as [I1 I2]. apply ib_state; [exact I1|exact I2].
Qed.

Lemma ib_app_unhold : forall n s s0 o0 ab, app_unhold cfg_fixed n s = Ok (s0, o0, ab) -> ib s o0 s0.
Proof.
  intros n s s0 o0 ab H. unfold app_unhold in H.
  destruct (find_held n (s_qs s) 0) as [[qid q]|]; [|inversion H; subst; apply ib_refl].
  destruct (q_held q) as [[[i g] cs]|]; [|inversion H; subst; apply ib_refl].
  destruct (s_shut s); [inversion H; subst; apply ib_refl|].
  match type of H with context [if ?c then _ else _] => destruct c end.
  - match type of H with context [imp_shutdown cfg_fixed i g ?sx] => destruct (imp_shutdown cfg_fixed i g sx) as [[s3 o3]| |] eqn:E3; cbn [bind] in H; try discriminate end.
    inversion H; subst. apply ib_imp_shutdown in E3.
    match goal with |- ib _ (?m :: o3) _ => change (m :: o3) with ([m] ++ o3) end.
    eapply ib_trans; [|exact E3]. apply ib_same; try reflexivity. nrl.
  - inversion H; subst. apply ib_same; try reflexivity. nrl.
Qed.

Lemma ib_app_cancel : forall qid s s0 o0 ab, app_cancel cfg_fixed qid s = Ok (s0, o0, ab) -> ib s o0 s0.
Proof.
  intros qid s s0 o0 ab H. unfold app_cancel in H.
  destruct (s_shut s); [inversion H; subst; apply ib_refl|].
  destruct (tget qid (s_qs s)) as [q|]; [|inversion H; subst; apply ib_refl].
  destruct (q_fin q || (q_call q <? 0) || _); [inversion H; subst; apply ib_refl|].
  unfold cancel_question in H. cbn [bind] in H. inversion H; subst. apply ib_same; try reflexivity. nrl.
Qed.

Lemma ib_app_release : forall h s s0 o0 ab, app_release cfg_fixed h s = Ok (s0, o0, ab) -> ib s o0 s0.
Proof.
  intros h s s0 o0 ab H. unfold app_release in H.
  destruct (hget h s) as [qid|x|]; [| |inversion H; subst; apply ib_refl].
  - set (sa := set_handle h HGone s) in *.
    destruct (s_shut sa); [inversion H; subst; apply ib_state; reflexivity|].
    destruct (tget qid (s_qs sa)) as [q|]; [|inversion H; subst; apply ib_state; reflexivity].
    destruct (q_fin q); [inversion H; subst; apply ib_state; reflexivity|].
    unfold cancel_question in H. cbn [bind] in H. inversion H; subst. apply ib_same; try reflexivity. nrl.
  - destruct (release_cap cfg_fixed x _) as [[s1 o]| |] eqn:E; cbn [bind] in H; try discriminate. inversion H; subst.
    rewrite <- (app_nil_l o0). eapply ib_trans; [|eapply ib_release_cap; eauto]. apply ib_state; reflexivity.
Qed.

Lemma addrefs_local_imp : forall l s, s_imp (addrefs_local l s) = s_imp s /\ s_recv (addrefs_local l s) = s_recv s.
Proof. induction l as [|[j|] l IH]; intros s; simpl; auto. destruct (IH (lref 1 j s)) as [A B]. rewrite A, B. split; reflexivity. Qed.

Lemma ib_app_return : forall k r s s0 o0 ab, app_return cfg_fixed k r s = Ok (s0, o0, ab) -> ib s o0 s0.
Proof.
  intros k r s s0 o0 ab H. unfold app_return in H. destruct (find_running k (s_ans s)) as [[id a]|].
  - destruct (release_caps cfg_fixed (a_args a) s) as [[s1 o1]| |] eqn:E1; cbn [bind] in H; try discriminate.
    apply ib_release_caps in E1.
    assert (FIN : forall sm sx o2 o3 (b2 b3 : bool) sy, s_imp sm = s_imp s1 -> s_recv sm = s_recv s1 -> ib sm o2 sx -> ib sx o3 sy ->
              Ok (sy, o1 ++ o2 ++ o3, b2 || b3) = Ok (s0, o0, ab) -> ib s o0 s0).
    { intros sm sx o2 o3 b2 b3 sy M1 M2 I2 I3 E. inversion E; subst. eapply ib_trans; [exact E1|].
      rewrite <- (app_nil_l (o2 ++ o3)). eapply ib_trans; [apply ib_state; eauto|]. eapply ib_trans; eauto. }
    destruct r as [fs| |].
    + destruct (results_of fs) as [kc rct].
      match type of H with (bind ?x _) = _ => destruct x as [[[s3 o3] b3]| |] eqn:E3; cbn [bind] in H; try discriminate end.
      match type of H with (bind ?x _) = _ => destruct x as [[[s4 o4] b4]| |] eqn:E4; cbn [bind] in H; try discriminate end.
      match type of E3 with drain _ _ _ _ _ _ ?sm = _ => destruct (addrefs_local_imp rct (set_ans (aput id (set_a_args [] a) (s_ans s1)) s1)) as [M1 M2];
        eapply (FIN sm s3 o3 o4 b3 b4 s4); [exact M1|exact M2|eapply ib_drain; eauto|eapply ib_send_return; eauto|exact H] end.
    + match type of H with (bind ?x _) = _ => destruct x as [[[s3 o3] b3]| |] eqn:E3; cbn [bind] in H; try discriminate end.
      match type of H with (bind ?x _) = _ => destruct x as [[[s4 o4] b4]| |] eqn:E4; cbn [bind] in H; try discriminate end.
      match type of E3 with drain _ _ _ _ _ _ ?sm = _ =>
        eapply (FIN sm s3 o3 o4 b3 b4 s4); [reflexivity|reflexivity|eapply ib_drain; eauto|eapply ib_send_return; eauto|exact H] end.
    + match type of H with (bind ?x _) = _ => destruct x as [[[s3 o3] b3]| |] eqn:E3; cbn [bind] in H; try discriminate end.
      match type of H with (bind ?x _) = _ => destruct x as [[[s4 o4] b4]| |] eqn:E4; cbn [bind] in H; try discriminate end.
      match type of E3 with reject_all _ _ ?sm = _ =>
        eapply (FIN sm s3 o3 o4 b3 b4 s4); [reflexivity|reflexivity|eapply ib_reject_all; eauto|eapply ib_send_exception; eauto|exact H] end.
  - destruct (aget k (s_lcalls s)); inversion H; subst; [apply ib_same; try reflexivity; nrl|apply ib_refl].
Qed.

Lemma ib_app_bootstrap : forall s s0 o0 ab, app_bootstrap cfg_fixed s = Ok (s0, o0, ab) -> ib s o0 s0.
Proof.
  intros s s0 o0 ab H. unfold app_bootstrap in H. destruct (s_shut s); [inversion H; subst; apply ib_state; reflexivity|].
  destruct (new_question _ s) as [[s1 id]| |] eqn:E; cbn [bind] in H; try discriminate. inversion H; subst.
  destruct (new_question_imp _ _ _ _ E) as [I1 I2]. apply ib_same; [exact I1|exact I2|nrl].
Qed.

Lemma ib_handler : forall e s s0 o0 ab, handler cfg_fixed e s = Ok (s0, o0, ab) -> ib s o0 s0.
Proof.
  intros e s s0 o0 ab H.
  destruct e; simpl in H; try (inversion H; subst; apply ib_same; try reflexivity; nrl; fail).
  - eapply ib_handle_bootstrap; eauto.
  - eapply ib_handle_call; eauto.
  - eapply ib_handle_return; eauto.
  - eapply ib_handle_finish; eauto.
  - eapply ib_handle_release; eauto.
  - eapply ib_handle_disembargo; eauto.
  - eapply ib_app_bootstrap; eauto.
  - eapply ib_app_call; eauto.
  - eapply ib_app_pipe; eauto.
  - eapply ib_app_return; eauto.
  - eapply ib_app_release; eauto.
  - eapply ib_app_cancel; eauto.
  - eapply ib_app_hold; eauto.
  - eapply ib_app_unhold; eauto.
Qed.

(* ---------------------------------------------------------------- histories *)
Definition IR (s : state) (out : list output) : Prop :=
  (forall i, rlsum i out + wire i (s_imp s) = cget i (s_recv s)) /\ wpos s.
Definition irinv (s : state) (out : list output) : Prop := s_shut s = false -> IR s out.

Lemma IR_ib : forall s out o s1, IR s out -> ib s o s1 -> IR s1 (out ++ o).
Proof.
  intros s out o s1 [A P] [B Q]. split; [|auto]. intros i. rewrite rlsum_app. specialize (A i). specialize (B i). unfold ibal in B. lia.
Qed.

Lemma step_irinv : forall s e W out s1 o, sinv s W -> irinv s out -> W + ev_work e < LIM -> env_ok s e = true ->
  step cfg_fixed s e = Ok (s1, o) -> irinv s1 (out ++ o).
Proof.
  intros s e W out s1 o I HQ Hb Henv Hstep Hs1. unfold step in Hstep. unfold sinv in I.
  destruct (s_shut s) eqn:Hs.
  - exfalso. destruct (is_peer e) eqn:Hp; simpl in Hstep.
    + inversion Hstep; subst. simpl in Hs1. congruence.
    + assert (S : shut_ok s) by (split; assumption).
      destruct e; simpl in Hp; try discriminate;
        try (match type of Hstep with context [handler cfg_fixed ?ev s] =>
               pose proof (handler_shut ev s S eq_refl) as P;
               destruct (handler cfg_fixed ev s) as [[[s0 o0] ab]| |] eqn:E; simpl in P; try contradiction end;
             cbn [bind fst] in *; destruct P as [S1 S2]; rewrite S1 in Hstep; rewrite andb_false_r in Hstep; cbn [bind] in Hstep;
             inversion Hstep; subst; simpl in Hs1; congruence).
      simpl in Hstep. inversion Hstep; subst. simpl in Hs1. congruence.
  - pose proof (HQ Hs) as HQ'. clear HQ. rename HQ' into HQ. simpl in Hstep. clear I.
    assert (NOSHUT : forall abort s0 o0, (do '(sx, ox) <- (do '(s2, o2) <- do_shutdown cfg_fixed abort s0; Ok (s2, o0 ++ o2)); Ok (set_out (rev ox ++ s_out sx) sx, ox)) = Ok (s1, o) -> False).
    { intros abort s0 o0 HH. destruct (shutdown_total abort s0) as (s2 & o2 & H2 & _ & S2). rewrite H2 in HH. cbn [bind] in HH.
      inversion HH; subst. simpl in Hs1. congruence. }
    assert (GEN : forall ev, ev = e -> match ev with MAbort | AClose => False | _ => True end ->
              (do '(sx, ox) <- (do '(sa, o1, abort) <- handler cfg_fixed ev s;
                   if abort && negb (s_shut sa) then do '(s2, o2) <- do_shutdown cfg_fixed true sa; Ok (s2, o1 ++ o2) else Ok (sa, o1));
                 Ok (set_out (rev ox ++ s_out sx) sx, ox)) = Ok (s1, o) -> IR s1 (out ++ o)).
    { intros ev -> Hne HH.
      destruct (handler cfg_fixed e s) as [[[s0 o0] ab]| |] eqn:EH; cbn [bind] in HH; try discriminate.
      destruct (ab && negb (s_shut s0)); [exfalso; eapply NOSHUT; exact HH|].
      cbn [bind] in HH. inversion HH; subst. apply (IR_ib s out o s0 HQ (ib_handler _ _ _ _ _ EH)). }
    destruct e; try (apply (GEN _ eq_refl I Hstep)); exfalso;
      match type of Hstep with (bind (do_shutdown cfg_fixed ?a s) _) = _ =>
        destruct (shutdown_total a s) as (s2 & o2 & H2 & _ & S2); rewrite H2 in Hstep; cbn [bind] in Hstep; inversion Hstep; subst; simpl in Hs1; congruence end.
Qed.

Lemma run_o_irinv : forall evs s W out s' out', sinv s W -> irinv s out -> W + work evs < LIM ->
  run_o s evs out = Ok (s', out') -> irinv s' out'.
Proof.
  induction evs as [|e evs IH]; intros s W out s' out' I Hh Hb H; simpl in H.
  - inversion H; subst. exact Hh.
  - destruct (env_ok s e) eqn:Henv; [|inversion H; subst; exact Hh].
    pose proof (ev_work_nonneg e) as He.
    assert (Hwork : 0 <= work evs) by (clear; induction evs as [|x l IHl]; simpl; [lia|pose proof (ev_work_nonneg x); lia]).
    simpl in Hb.
    destruct (step_ok s e W I ltac:(lia) Henv) as (s1 & o & H1 & I1). rewrite H1 in H. cbn [bind] in H.
    eapply (IH s1 (W + ev_work e)); [exact I1| |lia|exact H].
    apply (step_irinv s e W out s1 o I Hh); [lia|exact Henv|exact H1].
Qed.

(* C07 import_release over histories: while the connection is up, for every import id i
     (sum of referenceCount over all Release messages sent for i) + wireRefs of i's entry (0 if none)
        = number of descriptors received for i          ([s_recv], bumped by addImport only),
   and every entry has wireRefs > 0.  So the references of an import id are given back exactly:
   never more than received, and all of them as soon as the entry is gone. *)
Theorem import_release : forall boot evs s out, work evs < LIM -> run_o (init boot) evs [] = Ok (s, out) -> s_shut s = false ->
  (forall i, rlsum i out + wire i (s_imp s) = cget i (s_recv s)) /\
  (forall i e, aget i (s_imp s) = Some e -> 0 < i_wire e) /\
  (forall i, aget i (s_imp s) = None -> rlsum i out = cget i (s_recv s)).
Proof.
  intros boot evs s out Hb H Hs.
  assert (I0 : irinv (init boot) []).
  { intros _. split; [intros i; reflexivity|intros i e Hi; discriminate]. }
  destruct (run_o_irinv evs (init boot) 0 [] s out (sinv_init boot) I0 ltac:(lia) H Hs) as [A P].
  split; [exact A|split; [exact P|]]. intros i Hn. specialize (A i). unfold wire in A. rewrite Hn in A. lia.
Qed.

(* the Release is sent by the step that drops the last local reference (no call in progress on the
   client): the entry goes and the message carries its wireRefs *)
Theorem release_at_last_ref : forall i g s e s1 o, imp_release cfg_fixed i g s = Ok (s1, o) -> s_shut s = false ->
  aget i (s_imp s) = Some e -> i_gen e = g -> i_refs e = 1 -> busy_get i g (s_busy s) = 0 ->
  o = [ORelease i (i_wire e)] /\ aget i (s_imp s1) = None.
Proof.
  intros i g s e s1 o H Hs E Eg Er Eb. unfold imp_release in H. rewrite E in H.
  replace ((i_gen e =? g) && (0 <? i_refs e)) with true in H by lia. cbn [i_refs] in H.
  replace (i_refs e - 1 =? 0) with true in H by lia. rewrite Eb in H. cbn [Z.eqb] in H.
  unfold imp_shutdown in H. cbn [s_shut set_imp s_imp] in H. rewrite Hs, aget_aput, Z.eqb_refl in H. cbn [i_gen i_wire] in H.
  replace (i_gen e =? g) with true in H by lia. inversion H; subst. split; [reflexivity|].
  cbn [s_imp set_imp]. rewrite Z.eqb_refl, aget_adel, Z.eqb_refl. reflexivity.
Qed.
