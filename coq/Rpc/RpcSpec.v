(* Specification-level definitions for the RPC machine: the environment assumption on the local
   application, the work bound, reachability, and the declarative classification of peer
   messages used by C08's [response_class].  No proofs here. *)
From CV Require Import Rpc.Rpc.
Open Scope Z_scope.

(* ---- environment: what the local application may pass as a parameter.
   An embargoed capability is a promise until its Disembargo returns; passing it on exports it,
   and a call of the peer on that export blocks the receive loop (known finding F26). *)
Definition acap_ok (s : state) (a : acap) : bool :=
  match a with
  | AHandle h => match hget h s with HCap (CEmb _) => false | _ => true end
  | _ => true
  end.
Definition env_ok (s : state) (e : event) : bool :=
  match e with
  | ACall _ caps _ | APipe _ _ caps _ => forallb (acap_ok s) caps
  | _ => true
  end.

(* ids one event can allocate (idgen.next calls): a question and one export per parameter
   capability for a local call (plus one embargo id the pipelined path may cost when the answer
   arrives), one export per result capability, the bootstrap export *)
Definition ev_work (e : event) : Z :=
  match e with
  | MBootstrap _ => 1
  | ABootstrap | AHold _ => 1
  | ACall _ caps _ | APipe _ _ caps _ => 2 + Z.of_nat (length caps)
  | AReturn _ (ARResults fs) => Z.of_nat (length fs)
  | _ => 0
  end.
Fixpoint work (evs : list event) : Z :=
  match evs with [] => 0 | e :: r => ev_work e + work r end.

(* all histories that respect the environment assumption: the run stops (successfully) at the
   first event that does not *)
Fixpoint run_env (c : cfg) (s : state) (evs : list event) : res state :=
  match evs with
  | [] => Ok s
  | e :: r => if env_ok s e then do '(s1, _) <- step c s e; run_env c s1 r else Ok s
  end.

(* reachable states *)
Inductive reach (c : cfg) (boot : bool) : state -> Z -> Prop :=
| reach_init : reach c boot (init boot) 0
| reach_step : forall s w e s1 o, reach c boot s w -> env_ok s e = true -> step c s e = Ok (s1, o) ->
               reach c boot s1 (w + ev_work e).

Definition tables_empty (s : state) : Prop :=
  s_qs s = [] /\ s_ans s = [] /\ s_exp s = [] /\ s_imp s = [] /\ s_emb s = [] /\ s_queue s = [].

(* ---- C08 response classes.  What the protocol prescribes for a message, read off the tables
   (not off [step]): *)
Inductive response :=
| RespAbort          (* protocol violation: Abort, then the connection is shut down *)
| RespUnimpl         (* Unimplemented echo *)
| RespException (a : Z)   (* the caller's fault: an exception Return for its question *)
| RespNone.          (* a well-formed message, or one that is only reported (garbage) *)

Definition payload_bad (s : state) (p : option payload) : bool :=
  match p with
  | None => true
  | Some p =>
    p_valid p && (p_cerr p ||
      match p_caps p with
      | Some ds => existsb (fun d => match d with DRH e => match tget e (s_exp s) with None => true | Some _ => false end | _ => false end) ds
      | None => false
      end)
  end.

Definition classify (s : state) (e : event) : response :=
  match e with
  | MBootstrap q => match aget q (s_ans s) with Some _ => RespAbort | None => RespNone end
  | MCall q tg params toCaller _ _ =>
    if negb toCaller then RespUnimpl
    else match aget q (s_ans s) with
    | Some _ => RespAbort
    | None =>
      if payload_bad s params then RespException q
      else match parse_target tg with
      | None => RespException q
      | Some (PImp e) => match tget e (s_exp s) with None => RespAbort | Some _ => RespNone end
      | Some (PAns t _) =>
        if t =? q then RespAbort
        else match aget t (s_ans s) with
             | None => RespAbort
             | Some ta => if a_fin ta then RespAbort else RespNone
             end
      end
    end
  | MReturn a _ _ => match tget a (s_qs s) with None => RespAbort | Some _ => RespNone end
  | MFinish q _ => match aget q (s_ans s) with
                   | None => RespAbort
                   | Some a => if a_fin a then RespAbort else RespNone
                   end
  | MRelease i n => match tget i (s_exp s) with
                    | None => RespAbort
                    | Some (_, w) => if w <? n then RespAbort else RespNone
                    end
  | MDisembargo tg cx =>
    match parse_target tg with
    | None => RespAbort
    | Some _ => match cx with
                | DxReceiver e => match tget e (s_emb s) with None => RespAbort | Some _ => RespNone end
                | DxSender _ => RespAbort
                | DxOther => RespUnimpl
                end
    end
  | MUnknown => RespUnimpl
  | _ => RespNone
  end.

Definition is_exc (a : Z) (o : output) : bool := match o with OReturnExc b => b =? a | _ => false end.
Definition is_abort (o : output) : bool := match o with OAbort => true | _ => false end.
Definition is_unimpl (o : output) : bool := match o with OUnimpl => true | _ => false end.
Definition count {A} (f : A -> bool) (l : list A) : nat := length (filter f l).
