(* Proofs about the RPC machine, part 2: the invariant behind [handlers_total]. *)
From CV Require Import Rpc.Rpc Rpc.RpcSpec Rpc.RpcProofs.
From Coq Require Import ZifyBool.
Open Scope Z_scope.

Definition LIM := 4294967295.

(* ------------------------------------------------------------------ association lists *)
Lemma aget_adel : forall A k k' (m : list (Z * A)), aget k' (adel k m) = if k' =? k then None else aget k' m.
Proof.
  induction m as [|[k0 v] m IH]; simpl.
  - destruct (k' =? k); reflexivity.
  - destruct (k0 =? k) eqn:E0.
    + rewrite IH. destruct (k' =? k) eqn:E1; [reflexivity|].
      destruct (k0 =? k') eqn:E2; [lia|reflexivity].
    + simpl. destruct (k0 =? k') eqn:E2.
      * destruct (k' =? k) eqn:E1; [lia|reflexivity].
      * exact IH.
Qed.

Lemma aget_aput : forall A k k' v (m : list (Z * A)), aget k' (aput k v m) = if k' =? k then Some v else aget k' m.
Proof.
  intros. unfold aput. simpl. rewrite aget_adel. rewrite Z.eqb_sym. destruct (k' =? k); reflexivity.
Qed.

(* ------------------------------------------------------------------ id generators and tables *)
Definition gen_ok (g : idgen) (n : nat) : Prop :=
  g_i g = Z.of_nat n /\ Forall (fun x => 0 <= x < g_i g) (g_free g).

Lemma list_min_in : forall l m, list_min l = Some m -> In m l.
Proof.
  induction l as [|a l IH]; simpl; intros m H; [discriminate|].
  destruct (list_min l) as [m'|] eqn:E.
  - inversion H; subst. destruct (Z.min_spec a m') as [[_ ->]|[_ ->]]; auto.
  - inversion H; auto.
Qed.

Lemma list_min_none : forall l, list_min l = None -> l = [].
Proof. destruct l; simpl; auto. destruct (list_min l); discriminate. Qed.

Lemma replace_nth_length : forall A n (v : A) l, length (replace_nth n v l) = length l.
Proof. induction n; destruct l; simpl; auto. Qed.

Lemma replace_nth_in : forall A n (v : A) l x, In x (replace_nth n v l) -> x = v \/ In x l.
Proof.
  induction n; destruct l; simpl; intros x H; auto.
  - destruct H; auto.
  - destruct H; auto. apply IHn in H. tauto.
Qed.

Lemma tclear_length : forall A i (t : tbl A), length (tclear i t) = length t.
Proof. intros. unfold tclear. destruct (_ && _); auto. apply replace_nth_length. Qed.

Lemma tclear_in : forall A i (t : tbl A) x, In x (tclear i t) -> x = None \/ In x t.
Proof. intros A i t x. unfold tclear. destruct (_ && _); auto. apply replace_nth_in. Qed.

Lemma zremove_forall : forall P x l, Forall P l -> Forall P (zremove x l).
Proof. intros. unfold zremove. rewrite Forall_forall in *. intros y Hy. apply filter_In in Hy. apply H, Hy. Qed.

(* reading tables *)
Lemma tget_replace : forall A (t : tbl A) n v i, (n < length t)%nat ->
  tget i (replace_nth n v t) = if i =? Z.of_nat n then v else tget i t.
Proof.
  intros A t n v i Hn. unfold tget, znth. rewrite replace_nth_length.
  destruct ((i <? 0) || (Z.of_nat (length t) <=? i)) eqn:E.
  - destruct (i =? Z.of_nat n) eqn:E2; [lia|reflexivity].
  - destruct (i =? Z.of_nat n) eqn:E2.
    + replace (Z.to_nat i) with n by lia. clear - Hn. revert n Hn. induction t as [|a t IH]; intros n Hn; simpl in *; [lia|].
      destruct n; simpl; [destruct v; reflexivity|]. apply IH. lia.
    + assert (Hne : Z.to_nat i <> n) by lia. clear - Hne. revert n Hne. generalize (Z.to_nat i) as m.
      induction t as [|a t IH]; intros m n Hne; simpl; [destruct n; reflexivity|].
      destruct n, m; simpl; try reflexivity; try congruence. apply IH. congruence.
Qed.

Lemma tget_app : forall A (t : tbl A) v i,
  tget i (t ++ [v]) = if i =? Z.of_nat (length t) then v else tget i t.
Proof.
  intros A t v i. unfold tget, znth. rewrite app_length. simpl.
  destruct (i =? Z.of_nat (length t)) eqn:E.
  - replace ((i <? 0) || (Z.of_nat (length t + 1) <=? i)) with false by lia.
    rewrite nth_error_app2 by lia. replace (Z.to_nat i - length t)%nat with 0%nat by lia. simpl. destruct v; reflexivity.
  - destruct ((i <? 0) || (Z.of_nat (length t) <=? i)) eqn:E2.
    + replace ((i <? 0) || (Z.of_nat (length t + 1) <=? i)) with true by lia. reflexivity.
    + replace ((i <? 0) || (Z.of_nat (length t + 1) <=? i)) with false by lia.
      rewrite nth_error_app1 by lia. reflexivity.
Qed.

Lemma tget_tclear : forall A (t : tbl A) n i, tget i (tclear n t) = if i =? n then None else tget i t.
Proof.
  intros A t n i. unfold tclear. destruct ((0 <=? n) && (n <? Z.of_nat (length t))) eqn:E.
  - rewrite tget_replace by lia. replace (Z.of_nat (Z.to_nat n)) with n by lia. reflexivity.
  - destruct (i =? n) eqn:E2; [|reflexivity]. unfold tget, znth.
    replace ((i <? 0) || (Z.of_nat (length t) <=? i)) with true by lia. reflexivity.
Qed.

Lemma tget_in : forall A i (t : tbl A) a, tget i t = Some a -> In (Some a) t.
Proof. intros A i t a H. apply tget_some in H. destruct H as [_ H]. eapply nth_error_In; eauto. Qed.

(* the ids of the free list name empty slots *)
Definition slots_free {A} (g : idgen) (t : tbl A) : Prop := forall x, In x (g_free g) -> tget x t = None.

(* allocation: gen_next followed by tput *)
Lemma alloc_ok : forall A (g : idgen) (t : tbl A) (v : A), gen_ok g (length t) -> slots_free g t -> g_i g < LIM ->
  exists id g' t', gen_next g = Ok (id, g') /\ tput id v t = Ok t' /\ gen_ok g' (length t') /\
    g_i g <= g_i g' <= g_i g + 1 /\ (forall x, In x t' -> x = Some v \/ In x t) /\
    slots_free g' t' /\ tget id t = None /\ (forall i, tget i t' = if i =? id then Some v else tget i t).
Proof.
  intros A g t v [Hi Hf] Hsl Hl. unfold gen_next.
  destruct (list_min (g_free g)) as [m|] eqn:E.
  - apply list_min_in in E. rewrite Forall_forall in Hf. pose proof (Hf _ E) as Hm.
    eexists _, _, _. split; [reflexivity|]. unfold tput.
    destruct (m =? Z.of_nat (length t)) eqn:E1; [lia|].
    replace ((0 <=? m) && (m <? Z.of_nat (length t))) with true by lia.
    split; [reflexivity|]. rewrite replace_nth_length. simpl.
    assert (TG : forall i, tget i (replace_nth (Z.to_nat m) (Some v) t) = if i =? m then Some v else tget i t).
    { intros i. rewrite tget_replace by lia. replace (Z.of_nat (Z.to_nat m)) with m by lia. reflexivity. }
    split; [split; [assumption|apply zremove_forall; rewrite Forall_forall; exact Hf]|].
    split; [lia|]. split; [intros x Hx; apply replace_nth_in in Hx; exact Hx|].
    split; [|split; [apply Hsl; exact E|exact TG]].
    intros x Hx. unfold zremove in Hx. apply filter_In in Hx. destruct Hx as [Hx Hne]. rewrite TG.
    destruct (x =? m) eqn:Exm; [discriminate|]. apply Hsl; exact Hx.
  - apply list_min_none in E.
    replace (g_i g =? 4294967295) with false by (unfold LIM in Hl; lia).
    eexists _, _, _. split; [reflexivity|]. unfold tput. rewrite Hi. rewrite Z.eqb_refl.
    split; [reflexivity|]. rewrite app_length. simpl.
    assert (TG : forall i, tget i (t ++ [Some v]) = if i =? Z.of_nat (length t) then Some v else tget i t) by (intros; apply tget_app).
    split; [split; simpl; [lia|rewrite E; constructor]|].
    split; [lia|]. split; [intros x Hx; apply in_app_or in Hx; destruct Hx as [Hx|[Hx|[]]]; auto|].
    split; [intros x Hx; simpl in Hx; rewrite E in Hx; destruct Hx|].
    split; [|exact TG]. unfold tget, znth. replace ((Z.of_nat (length t) <? 0) || (Z.of_nat (length t) <=? Z.of_nat (length t))) with true by lia. reflexivity.
Qed.

Lemma alloc_ok0 : forall A (g : idgen) (t : tbl A) (v : A), gen_ok g (length t) -> g_i g < LIM ->
  exists id g' t', gen_next g = Ok (id, g') /\ tput id v t = Ok t' /\ gen_ok g' (length t') /\
    g_i g <= g_i g' <= g_i g + 1.
Proof.
  intros A g t v [Hi Hf] Hl. unfold gen_next.
  destruct (list_min (g_free g)) as [m|] eqn:E.
  - apply list_min_in in E. rewrite Forall_forall in Hf. pose proof (Hf _ E) as Hm.
    eexists _, _, _. split; [reflexivity|]. unfold tput.
    destruct (m =? Z.of_nat (length t)) eqn:E1; [lia|].
    replace ((0 <=? m) && (m <? Z.of_nat (length t))) with true by lia.
    split; [reflexivity|]. rewrite replace_nth_length. simpl.
    split; [split; [assumption|apply zremove_forall; rewrite Forall_forall; exact Hf]|lia].
  - apply list_min_none in E.
    replace (g_i g =? 4294967295) with false by (unfold LIM in Hl; lia).
    eexists _, _, _. split; [reflexivity|]. unfold tput. rewrite Hi. rewrite Z.eqb_refl.
    split; [reflexivity|]. rewrite app_length. simpl.
    split; [split; simpl; [lia|rewrite E; constructor]|lia].
Qed.

Lemma gen_remove_ok : forall g n id, gen_ok g n -> 0 <= id < Z.of_nat n -> gen_ok (gen_remove id g) n /\ g_i (gen_remove id g) = g_i g.
Proof.
  intros g n id [Hi Hf] Hid. unfold gen_remove, gen_ok. simpl. repeat split; auto.
  destruct (zmem id (g_free g)); auto. constructor; auto. lia.
Qed.

Lemma gen_remove_slots : forall A (g : idgen) (t : tbl A) id, slots_free g t -> tget id t = None -> slots_free (gen_remove id g) t.
Proof.
  intros A g t id H Hn x Hx. unfold gen_remove in Hx. simpl in Hx.
  destruct (zmem id (g_free g)); [apply H; exact Hx|]. destruct Hx as [<-|Hx]; [exact Hn|apply H; exact Hx].
Qed.

Lemma slots_free_tclear : forall A (g : idgen) (t : tbl A) n, slots_free g t -> slots_free g (tclear n t).
Proof. intros A g t n H x Hx. rewrite tget_tclear. destruct (x =? n); [reflexivity|apply H; exact Hx]. Qed.

Lemma slots_free_replace : forall A (g : idgen) (t : tbl A) n q q', slots_free g t ->
  nth_error t n = Some (Some q) -> slots_free g (replace_nth n (Some q') t).
Proof.
  intros A g t n q q' H Hn x Hx.
  assert (Hl : (n < length t)%nat) by (apply nth_error_Some; rewrite Hn; discriminate).
  rewrite tget_replace by exact Hl. destruct (x =? Z.of_nat n) eqn:E; [|apply H; exact Hx].
  exfalso. specialize (H x Hx). unfold tget, znth in H.
  replace ((x <? 0) || (Z.of_nat (length t) <=? x)) with false in H by lia.
  replace (Z.to_nat x) with n in H by lia. rewrite Hn in H. discriminate.
Qed.

(* ------------------------------------------------------------------ the invariant *)
(* an answer that has not returned is running on a server or queued behind another answer;
   an answer that is running or queued has not sent its Return *)
Definition ans1_ok (a : answer) : Prop :=
  (a_ready a = false -> a_st a <> AIdle) /\ (a_st a <> AIdle -> a_ret a = false).
Definition ans_ok (l : list (Z * answer)) : Prop := forall id a, In (id, a) l -> ans1_ok a.
Definition not_emb (x : cap) : Prop := match x with CEmb _ => False | _ => True end.
(* wireRefs e = sent e - released e (cumulative ghost counters), entries exist exactly while the
   count is positive *)
Definition exp_count (t : tbl expent) (sent rel : list (Z * Z)) : Prop :=
  forall id, match tget id t with
             | Some (_, w) => w = cget id sent - cget id rel /\ 0 < w
             | None => cget id sent = cget id rel
             end.
Definition exp_ok (k : core) : Prop :=
  (forall x w, In (Some (x, w)) (k_exp k) -> not_emb x) /\ slots_free (k_egen k) (k_exp k) /\
  exp_count (k_exp k) (k_sent k) (k_rel k).
Definition qgen_ok (k : core) : Prop := gen_ok (k_qgen k) (length (k_qs k)) /\ slots_free (k_qgen k) (k_qs k).

Definition live_inv (k : core) : Prop :=
  qgen_ok k /\ gen_ok (k_egen k) (length (k_exp k)) /\
  gen_ok (k_mgen k) (length (k_emb k)) /\ ans_ok (k_ans k) /\ exp_ok k /\
  g_i (k_qgen k) <= k_allocs k /\ g_i (k_egen k) <= k_allocs k /\ g_i (k_mgen k) <= k_allocs k.

Definition inv (s : state) : Prop := if s_shut s then s_ans s = [] else live_inv (core_of s).

Lemma aget_in : forall A k (m : list (Z * A)) v, aget k m = Some v -> In (k, v) m.
Proof.
  induction m as [|[k0 v0] m IH]; intros v H; simpl in H; [discriminate|].
  destruct (k0 =? k) eqn:E; [inversion H; subst; left; f_equal; lia|right; apply IH; exact H].
Qed.

Lemma adel_in : forall A k (m : list (Z * A)) x, In x (adel k m) -> In x m.
Proof.
  induction m as [|[k0 v0] m IH]; intros x H; simpl in *; [exact H|].
  destruct (k0 =? k); [right; apply IH; exact H|]. destruct H as [H|H]; [left; exact H|right; apply IH; exact H].
Qed.

Lemma ans_ok_aput : forall id a l, ans_ok l -> ans1_ok a -> ans_ok (aput id a l).
Proof.
  intros id a l H Ha id' a' Hin. unfold aput in Hin. destruct Hin as [E|Hin].
  - inversion E; subst. exact Ha.
  - apply adel_in in Hin. apply (H _ _ Hin).
Qed.

Lemma ans_ok_adel : forall id l, ans_ok l -> ans_ok (adel id l).
Proof. intros id l H id' a' Hin. apply adel_in in Hin. apply (H _ _ Hin). Qed.

(* the standard cases of [ans1_ok] *)
Lemma ans1_done : forall a, a_ready a = true -> a_st a = AIdle -> ans1_ok a.
Proof. intros a H1 H2. split; [rewrite H1; discriminate|rewrite H2; intros H; exfalso; apply H; reflexivity]. Qed.
Lemma ans1_busy : forall a, a_st a <> AIdle -> a_ret a = false -> ans1_ok a.
Proof. intros a H1 H2. split; auto. Qed.

(* live state: the good outcome of a helper that may allocate at most w ids *)
Definition live (s : state) : Prop := s_shut s = false /\ live_inv (core_of s).
Definition good (w : Z) (s s1 : state) : Prop := live s1 /\ s_allocs s1 <= s_allocs s + w /\ s_qs s1 = s_qs s.

Lemma live_core : forall s s', live s -> core_of s' = core_of s -> live s'.
Proof.
  intros s s' [H1 H2] C. split.
  - change (s_shut s') with (k_shut (core_of s')). rewrite C. exact H1.
  - rewrite C. exact H2.
Qed.

Lemma allocs_core : forall s s', core_of s' = core_of s -> s_allocs s' = s_allocs s.
Proof. intros s s' C. change (k_allocs (core_of s') = k_allocs (core_of s)). rewrite C. reflexivity. Qed.

Lemma good_core : forall w s s0 s', good w s s0 -> core_of s' = core_of s0 -> good w s s'.
Proof.
  intros w s s0 s' [L [A Q]] C. split; [eapply live_core; eauto|]. rewrite (allocs_core _ _ C). split; [exact A|].
  change (s_qs s') with (k_qs (core_of s')). rewrite C. exact Q.
Qed.

Lemma good_refl : forall s, live s -> good 0 s s.
Proof. intros. split; auto. split; [lia|reflexivity]. Qed.

Lemma good_trans : forall w1 w2 s s1 s2, good w1 s s1 -> good w2 s1 s2 -> good (w1 + w2) s s2.
Proof. intros w1 w2 s s1 s2 [L1 [A1 Q1]] [L2 [A2 Q2]]. split; auto. split; [lia|congruence]. Qed.

Lemma good_trans0 : forall s s1 s2, good 0 s s1 -> good 0 s1 s2 -> good 0 s s2.
Proof. intros s s1 s2 H1 H2. replace 0 with (0 + 0) by lia. eapply good_trans; eassumption. Qed.

Lemma good_mono : forall w1 w2 s s1, good w1 s s1 -> w1 <= w2 -> good w2 s s1.
Proof. intros w1 w2 s s1 [L [A Q]] H. split; auto. split; [lia|exact Q]. Qed.

(* ------------------------------------------------------------------ potential: ids allocated so far,
   plus the embargo ids the pending questions may still cost (one per pipelined path) *)
Fixpoint called_total (t : tbl question) : Z :=
  match t with
  | [] => 0
  | Some q :: r => Z.of_nat (length (q_called q)) + called_total r
  | None :: r => called_total r
  end.
Definition pot (s : state) : Z := s_allocs s + called_total (s_qs s).

Lemma called_total_nonneg : forall t, 0 <= called_total t.
Proof. induction t as [|[q|] t IH]; simpl; lia. Qed.

Lemma pot_core : forall s s', core_of s' = core_of s -> pot s' = pot s.
Proof.
  intros s s' C. unfold pot. rewrite (allocs_core _ _ C).
  change (s_qs s') with (k_qs (core_of s')). rewrite C. reflexivity.
Qed.

(* frames *)
Definition okc (r : res (state * list output)) (s : state) : Prop := okp r (fun p => core_of (fst p) = core_of s).

Lemma release_caps_okc : forall l s, okc (release_caps cfg_fixed l s) s.
Proof. intros l s. destruct (release_caps_fixed l s) as (s' & o & H & C). unfold okc. rewrite H. exact C. Qed.

Lemma release_cap_okc : forall x s, okc (release_cap cfg_fixed x s) s.
Proof. intros x s. destruct (release_cap_fixed x s) as (s' & o & H & C). unfold okc. rewrite H. exact C. Qed.

Lemma core_addref : forall x s, core_of (addref_cap x s) = core_of s.
Proof.
  intros x s. destruct x; simpl; auto.
  - destruct (aget i (s_imp s)); auto. destruct (_ && _); auto.
  - destruct (tget e (s_emb s)) as [em|] eqn:E; auto. destruct (0 <? e_refs em); auto.
    unfold core_of; simpl. apply tget_some in E. destruct E as [_ E].
    rewrite emb_shape_replace; eauto.
Qed.

Lemma core_add_import : forall c i s, core_of (fst (add_import c i s)) = core_of s.
Proof.
  intros c i s. unfold add_import. destruct (aget i (s_imp s)); [destruct (0 <? i_refs i0)|]; reflexivity.
Qed.

Lemma recv_caps_core : forall c ds s tab loc,
  match recv_caps c ds s tab loc with RPOk s1 _ _ => core_of s1 = core_of s | RPErr s1 _ => core_of s1 = core_of s end.
Proof.
  induction ds as [|d ds IH]; intros s tab loc; simpl; auto.
  destruct d; try apply IH.
  - destruct (add_import c i s) as [s1 x] eqn:E. specialize (IH s1 (x :: tab) (false :: loc)).
    pose proof (core_add_import c i s) as C. rewrite E in C. simpl in C.
    destruct (recv_caps c ds s1 (x :: tab) (false :: loc)); congruence.
  - destruct (add_import c i s) as [s1 x] eqn:E. specialize (IH s1 (x :: tab) (false :: loc)).
    pose proof (core_add_import c i s) as C. rewrite E in C. simpl in C.
    destruct (recv_caps c ds s1 (x :: tab) (false :: loc)); congruence.
  - destruct (tget i (s_exp s)) as [[x w]|]; auto.
    specialize (IH (addref_cap x s) (x :: tab) (true :: loc)).
    destruct (recv_caps c ds (addref_cap x s) (x :: tab) (true :: loc)); rewrite IH; apply core_addref.
Qed.

Lemma recv_payload_core : forall c p s,
  match recv_payload c p s with PLOk s1 _ _ _ => core_of s1 = core_of s | PLErr s1 _ => core_of s1 = core_of s end.
Proof.
  intros c p s. unfold recv_payload. destruct (negb (p_valid p)); auto. destruct (p_cerr p); auto.
  destruct (p_caps p) as [ds|]; auto. pose proof (recv_caps_core c ds s [] []) as H.
  destruct (recv_caps c ds s [] []); exact H.
Qed.

(* everything of the core but the export table and the allocation counter *)
Definition frame_x (s s1 : state) : Prop :=
  s_qs s1 = s_qs s /\ s_qgen s1 = s_qgen s /\ s_ans s1 = s_ans s /\ s_queue s1 = s_queue s /\
  emb_shape (s_emb s1) = emb_shape (s_emb s) /\ s_mgen s1 = s_mgen s /\ s_shut s1 = s_shut s.

Lemma frame_x_refl : forall s, frame_x s s.
Proof. intros; repeat split. Qed.

Lemma frame_x_trans : forall s s1 s2, frame_x s s1 -> frame_x s1 s2 -> frame_x s s2.
Proof. unfold frame_x. intros s s1 s2 H1 H2. intuition congruence. Qed.

Lemma frame_x_core : forall s s1, core_of s1 = core_of s -> frame_x s s1.
Proof.
  intros s s1 C. unfold frame_x.
  change (k_qs (core_of s1) = k_qs (core_of s) /\ k_qgen (core_of s1) = k_qgen (core_of s) /\
          k_ans (core_of s1) = k_ans (core_of s) /\ k_queue (core_of s1) = k_queue (core_of s) /\
          k_emb (core_of s1) = k_emb (core_of s) /\ k_mgen (core_of s1) = k_mgen (core_of s) /\
          k_shut (core_of s1) = k_shut (core_of s)).
  rewrite C. repeat split.
Qed.

(* a live state stays live when only the export side changes consistently *)
Lemma live_exp : forall s s1, live s -> frame_x s s1 ->
  gen_ok (s_egen s1) (length (s_exp s1)) -> exp_ok (core_of s1) -> g_i (s_egen s1) <= s_allocs s1 ->
  s_allocs s <= s_allocs s1 -> live s1.
Proof.
  intros s s1 [Hs (Gq & Ge & Gm & A & X & Bq & Be & Bm)] (F1 & F2 & F3 & F4 & F5 & F6 & F7) Ge1 X1 Be1 Al.
  split; [congruence|]. unfold live_inv, qgen_ok in *. simpl in *.
  rewrite F1, F2, F3, F6, F5.
  split; [exact Gq|]. split; [exact Ge1|]. split; [exact Gm|]. split; [exact A|]. split; [exact X1|].
  split; [lia|]. split; [exact Be1|lia].
Qed.

Lemma find_export_some : forall x t i id w, find_export x t i = Some (id, w) ->
  exists y, nth_error t (Z.to_nat (id - i)) = Some (Some (y, w)) /\ i <= id.
Proof.
  induction t as [|[[y w0]|] t IH]; intros i id w H; simpl in H; try discriminate.
  - destruct (cap_eqb y x).
    + inversion H; subst. replace (id - id) with 0 by lia. simpl. exists y. split; [reflexivity|lia].
    + apply IH in H. destruct H as (y' & H & Hi). exists y'. split; [|lia].
      replace (Z.to_nat (id - i)) with (S (Z.to_nat (id - (i + 1)))) by lia. exact H.
  - apply IH in H. destruct H as (y' & H & Hi). exists y'. split; [|lia].
    replace (Z.to_nat (id - i)) with (S (Z.to_nat (id - (i + 1)))) by lia. exact H.
Qed.

Lemma cget_cadd : forall k k' d m, cget k' (cadd k d m) = if k' =? k then cget k m + d else cget k' m.
Proof.
  intros. unfold cadd, cget at 1. rewrite aget_aput. destruct (k' =? k) eqn:E; [|reflexivity].
  assert (k' = k) by lia. subst. reflexivity.
Qed.

Lemma nth_tget : forall A (t : tbl A) n a, nth_error t n = Some (Some a) -> tget (Z.of_nat n) t = Some a.
Proof.
  intros A t n a H. assert (Hl : (n < length t)%nat) by (apply nth_error_Some; rewrite H; discriminate).
  unfold tget, znth. replace ((Z.of_nat n <? 0) || (Z.of_nat (length t) <=? Z.of_nat n)) with false by lia.
  rewrite Nat2Z.id, H. reflexivity.
Qed.

(* the export side after sendCap found / made an entry, after releaseExport *)
Lemma exp_ok_bump : forall k t' id x y w, exp_ok k -> not_emb x -> 0 <= id ->
  nth_error (k_exp k) (Z.to_nat id) = Some (Some (y, w)) ->
  t' = replace_nth (Z.to_nat id) (Some (x, w + 1)) (k_exp k) ->
  exp_ok (mkCore (k_shut k) (k_qs k) (k_qgen k) (k_ans k) t' (k_egen k) (k_emb k) (k_mgen k) (k_allocs k) (k_queue k)
                 (cadd id 1 (k_sent k)) (k_rel k)).
Proof.
  intros k t' id x y w (X1 & X2 & X3) Hx Hid Hn ->. 
  assert (Hl : (Z.to_nat id < length (k_exp k))%nat) by (apply nth_error_Some; rewrite Hn; discriminate).
  split; [|split]; simpl.
  - intros x0 w0 Hin. apply replace_nth_in in Hin. destruct Hin as [E|Hin]; [inversion E; subst; exact Hx|eapply X1; eauto].
  - eapply slots_free_replace; eauto.
  - intros i. rewrite tget_replace by exact Hl. rewrite cget_cadd. replace (Z.of_nat (Z.to_nat id)) with id by lia.
    specialize (X3 i). destruct (i =? id) eqn:E; [|exact X3].
    assert (i = id) by lia. subst i. apply nth_tget in Hn. replace (Z.of_nat (Z.to_nat id)) with id in Hn by lia.
    assert (T : @tget expent id (k_exp k) = Some (y, w)) by exact Hn. rewrite T in X3. lia.
Qed.

Lemma exp_ok_new : forall k t' g' id x, exp_ok k -> not_emb x ->
  (forall o, In o t' -> o = Some (x, 1) \/ In o (k_exp k)) -> slots_free g' t' -> tget id (k_exp k) = None ->
  (forall i, tget i t' = if i =? id then Some (x, 1) else tget i (k_exp k)) -> forall al,
  exp_ok (mkCore (k_shut k) (k_qs k) (k_qgen k) (k_ans k) t' g' (k_emb k) (k_mgen k) al (k_queue k)
                 (cadd id 1 (k_sent k)) (k_rel k)).
Proof.
  intros k t' g' id x (X1 & X2 & X3) Hx Hin Hsl Hnone TG al. split; [|split]; simpl.
  - intros x0 w0 H. apply Hin in H. destruct H as [E|H]; [inversion E; subst; exact Hx|eapply X1; eauto].
  - exact Hsl.
  - intros i. rewrite TG, cget_cadd. specialize (X3 i). destruct (i =? id) eqn:E; [|exact X3].
    assert (i = id) by lia. subst i. rewrite Hnone in X3. lia.
Qed.

Lemma exp_ok_ext : forall k k', k_exp k' = k_exp k -> k_egen k' = k_egen k -> k_sent k' = k_sent k -> k_rel k' = k_rel k ->
  exp_ok k -> exp_ok k'.
Proof. intros k k' H1 H2 H3 H4 H. unfold exp_ok in *. rewrite H1, H2, H3, H4. exact H. Qed.

Lemma send_cap_ok : forall x s, live s -> not_emb x -> s_allocs s < LIM ->
  okp (send_cap cfg_fixed x s) (fun r => let '(s1, d, oe) := r in good 1 s s1 /\ frame_x s s1).
Proof.
  intros x s L Hx Hl. pose proof L as [Hs (Gq & Ge & Gm & A & X & Bq & Be & Bm)].
  unfold qgen_ok in Gq. simpl in Gq, Ge, Gm, A, Bq, Be, Bm.
  assert (SAME : good 1 s s /\ frame_x s s) by (split; [apply good_mono with 0; [apply good_refl; auto|lia]|apply frame_x_refl]).
  (* the two ways an export entry is used *)
  assert (FOUND : forall id w, find_export x (s_exp s) 0 = Some (id, w) ->
            let s1 := set_sent (cadd id 1 (s_sent s)) (set_exp (replace_nth (Z.to_nat id) (Some (x, w + 1)) (s_exp s)) s) in
            good 1 s s1 /\ frame_x s s1).
  { intros id w E s1. apply find_export_some in E. destruct E as (y & E & Hid). rewrite Z.sub_0_r in E.
    split; [|repeat split]. split; [|simpl; split; [lia|reflexivity]].
    eapply live_exp; eauto; try (repeat split; fail); simpl; try lia.
    - rewrite replace_nth_length. exact Ge.
    - apply (exp_ok_bump (core_of s) _ id x y w X Hx Hid E eq_refl). }
  assert (NEW : find_export x (s_exp s) 0 = None -> forall s0, core_of s0 = core_of s ->
            okp (do '(id, g) <- gen_next (s_egen s);
                 do t <- tput id (x, 1) (s_exp s);
                 Ok (set_sent (cadd id 1 (s_sent s)) (set_allocs (s_allocs s + 1) (set_egen g (set_exp t s0))), DSH id, Some id))
                (fun r => let '(s1, d, oe) := r in good 1 s s1 /\ frame_x s s1)).
  { intros _ s0 C0. destruct X as (X1 & X2 & X3). simpl in X1, X2, X3.
    destruct (alloc_ok (cap * Z)%type (s_egen s) (s_exp s) (x, 1) Ge X2) as (id & g' & t' & H1 & H2 & G' & Hg & Hin & Hsl & Hnone & TG); [simpl in *; lia|].
    rewrite H1; cbn [bind]; cbv beta iota; rewrite H2; cbn [bind]; cbv beta iota. cbn [okp].
    pose proof (frame_x_core _ _ C0) as (F1 & F2 & F3 & F4 & F5 & F6 & F7).
    assert (AL : s_allocs s0 = s_allocs s) by (apply allocs_core; exact C0).
    split; [|unfold frame_x; simpl; repeat split; assumption].
    split; [|simpl; split; [lia|exact F1]].
    eapply live_exp; eauto; simpl; try (unfold frame_x; simpl; repeat split; assumption); try lia.
    pose proof (exp_ok_new (core_of s) t' g' id x (conj X1 (conj X2 X3)) Hx Hin Hsl Hnone TG (s_allocs s + 1)) as E.
    eapply exp_ok_ext; [| | | |exact E]; simpl; try reflexivity.
    change (k_rel (core_of s0) = k_rel (core_of s)). rewrite C0. reflexivity. }
  unfold send_cap. destruct x; try contradiction.
  - exact SAME.
  - (* CErr *) simpl. destruct (find_export CErr (s_exp s) 0) as [[id w]|] eqn:E; [exact (FOUND id w eq_refl)|apply (NEW eq_refl s eq_refl)].
  - (* CLocal *) simpl. destruct (find_export (CLocal j) (s_exp s) 0) as [[id w]|] eqn:E; [exact (FOUND id w eq_refl)|].
    apply (NEW eq_refl (lref 1 j s) eq_refl).
  - (* CImp *)
    destruct (imp_current i g s); [exact SAME|].
    destruct (find_export (CImp i g) (s_exp s) 0) as [[id w]|] eqn:E; [exact (FOUND id w eq_refl)|].
    apply (NEW eq_refl (addref_cap (CImp i g) s) (core_addref _ _)).
Qed.

Lemma frame_x_live_allocs : forall s s1, frame_x s s1 -> True.
Proof. auto. Qed.

Lemma fill_caps_ok : forall l s, live s -> Forall not_emb l -> s_allocs s + Z.of_nat (length l) < LIM ->
  okp (fill_caps cfg_fixed l s) (fun r => let '(s1, ds, refs) := r in good (Z.of_nat (length l)) s s1 /\ frame_x s s1).
Proof.
  induction l as [|x l IH]; intros s L Hl Hb.
  - simpl. split; [apply good_refl; auto|apply frame_x_refl].
  - simpl fill_caps. inversion Hl; subst.
    eapply okp_bind; [apply send_cap_ok; auto; simpl length in Hb; lia|].
    intros [[s1 d] oe] [G1 F1].
    eapply okp_bind; [apply IH; [apply G1|assumption|destruct G1 as [_ A1]; simpl length in Hb; lia]|].
    intros [[s2 ds] refs] [G2 F2]. cbv beta iota. cbn [okp].
    split; [|eapply frame_x_trans; eauto].
    replace (Z.of_nat (length (x :: l))) with (1 + Z.of_nat (length l)) by (simpl length; lia).
    eapply good_trans; eauto.
Qed.

Lemma rct_caps_not_emb : forall l, Forall not_emb (rct_caps l).
Proof. induction l as [|[j|] l IH]; simpl; constructor; simpl; auto. Qed.

Lemma rct_caps_length : forall l, length (rct_caps l) = length l.
Proof. intros. unfold rct_caps. apply map_length. Qed.

(* releaseExport *)
Lemma release_export_ok : forall id n s, live s ->
  let '(s1, oc, err) := release_export id n s in good 0 s s1 /\ frame_x s s1.
Proof.
  intros id n s L. pose proof L as [Hs (Gq & Ge & Gm & A & X & Bq & Be & Bm)].
  simpl in Ge, Gm, A, Bq, Be, Bm. destruct X as (X1 & X2 & X3). simpl in X1, X2, X3.
  unfold release_export. destruct (tget id (s_exp s)) as [[x w]|] eqn:E.
  - pose proof (tget_some _ _ _ _ E) as [Hid En].
    assert (Hx : not_emb x) by (eapply X1; eapply nth_error_In; eauto).
    assert (Hl : (Z.to_nat id < length (s_exp s))%nat) by lia.
    pose proof (X3 id) as X3id. rewrite E in X3id.
    destruct (n =? w) eqn:Enw.
    + split; [|repeat split]. split; [|simpl; split; [lia|reflexivity]].
      destruct (gen_remove_ok _ _ id Ge Hid) as [GR GI].
      eapply live_exp; eauto; try (repeat split; fail); simpl; try lia.
      * rewrite tclear_length. exact GR.
      * split; [|split]; simpl.
        -- intros y w' Hy. apply tclear_in in Hy. destruct Hy as [Hy|Hy]; [discriminate|eapply X1; eauto].
        -- apply gen_remove_slots; [apply slots_free_tclear; exact X2|]. rewrite tget_tclear, Z.eqb_refl. reflexivity.
        -- intros i. rewrite tget_tclear, cget_cadd. specialize (X3 i). destruct (i =? id) eqn:Ei; [|exact X3].
           assert (i = id) by lia. subst i. lia.
    + destruct (w <? n) eqn:Ewn.
      * split; [apply good_refl; auto|apply frame_x_refl].
      * split; [|repeat split]. split; [|simpl; split; [lia|reflexivity]].
        eapply live_exp; eauto; try (repeat split; fail); simpl; try lia.
        -- rewrite replace_nth_length. exact Ge.
        -- split; [|split]; simpl.
           ++ intros y w' Hy. apply replace_nth_in in Hy. destruct Hy as [Hy|Hy]; [inversion Hy; subst; exact Hx|eapply X1; eauto].
           ++ eapply slots_free_replace; eauto.
           ++ intros i. rewrite tget_replace by exact Hl. rewrite cget_cadd. replace (Z.of_nat (Z.to_nat id)) with id by lia.
              specialize (X3 i). destruct (i =? id) eqn:Ei; [|exact X3]. assert (i = id) by lia. subst i. lia.
  - split; [apply good_refl; auto|apply frame_x_refl].
Qed.

Lemma release_exports_ok : forall refs s, live s ->
  let '(s1, cl, err) := release_exports refs s in good 0 s s1 /\ frame_x s s1.
Proof.
  induction refs as [|[id n] refs IH]; intros s L; simpl.
  - split; [apply good_refl; auto|apply frame_x_refl].
  - pose proof (release_export_ok id n s L) as H1. destruct (release_export id n s) as [[s1 oc] e1].
    destruct H1 as [G1 F1]. pose proof (IH s1 (proj1 G1)) as H2.
    destruct (release_exports refs s1) as [[s2 cl] e2]. destruct H2 as [G2 F2].
    split; [exact (good_trans0 _ _ _ G1 G2)|eapply frame_x_trans; eauto].
Qed.

Lemma good_okc : forall w s s0 (r : res (state * list output)), good w s s0 -> okc r s0 -> okp r (fun p => good w s (fst p)).
Proof. intros w s s0 r G H. eapply okp_weaken; [exact H|]. intros [s1 o] C. simpl in *. eapply good_core; eauto. Qed.

(* answer.destroy *)
Lemma live_set_ans : forall s l, live s -> ans_ok l -> live (set_ans l s).
Proof.
  intros s l [Hs (Gq & Ge & Gm & A & X & B)] Hl. split; [exact Hs|]. unfold live_inv in *; simpl in *. tauto.
Qed.

Lemma destroy_ok : forall id a s, live s ->
  okp (destroy cfg_fixed id a s) (fun r => let '(s1, o, err) := r in good 0 s s1).
Proof.
  intros id a s L. unfold destroy.
  assert (L1 : live (set_ans (adel id (s_ans s)) s)).
  { apply live_set_ans; auto. apply ans_ok_adel. apply L. }
  set (s1 := set_ans (adel id (s_ans s)) s) in *.
  assert (G1 : good 0 s s1) by (split; [exact L1|simpl; split; [lia|reflexivity]]).
  destruct (a_rrc a && negb match a_xrefs a with [] => true | _ :: _ => false end).
  - pose proof (release_exports_ok (a_xrefs a) s1 L1) as H2.
    destruct (release_exports (a_xrefs a) s1) as [[s2 cl] err]. destruct H2 as [G2 F2].
    assert (G12 : good 0 s s2) by (exact (good_trans0 _ _ _ G1 G2)).
    eapply okp_bind; [eapply good_okc; [exact G12|apply release_caps_okc]|].
    intros [s3 o] G3. exact G3.
  - eapply okp_bind; [eapply good_okc; [exact G1|apply release_caps_okc]|].
    intros [s3 o] G3. exact G3.
Qed.

Lemma live_zremove_q : forall id s, live s -> live (zremove_q id s).
Proof. intros id s [Hs H]. split; [exact Hs|]. exact H. Qed.

Lemma ans_of_live : forall s, live s -> ans_ok (s_ans s).
Proof. intros s [_ H]. apply H. Qed.

(* answer.sendException *)
Lemma send_exception_ok : forall id a s, live s ->
  okp (send_exception cfg_fixed id a s) (fun r => let '(s1, o, ab) := r in good 0 s s1 /\ ab = false).
Proof.
  intros id a s L. unfold send_exception.
  assert (L0 : live (zremove_q id s)) by (apply live_zremove_q; auto).
  destruct (a_fin a).
  - eapply okp_bind; [apply destroy_ok; exact L0|].
    intros [[s1 o] err] G. simpl. split; [exact G|reflexivity].
  - simpl. split; [|reflexivity]. split; [|simpl; split; [lia|reflexivity]].
    apply live_set_ans; auto. apply ans_ok_aput; [apply (ans_of_live _ L0)|]. apply ans1_done; reflexivity.
Qed.

(* answer.sendReturn *)
Lemma send_return_ok : forall id a k rct s, live s -> s_allocs s + Z.of_nat (length rct) < LIM ->
  okp (send_return cfg_fixed id a k rct s)
      (fun r => let '(s1, o, ab) := r in good (Z.of_nat (length rct)) s s1 /\ (a_fin a = false -> ab = false)).
Proof.
  intros id a k rct s L Hb. unfold send_return.
  eapply okp_bind; [apply fill_caps_ok; [exact L|apply rct_caps_not_emb|rewrite rct_caps_length; exact Hb]|].
  intros [[s1 ds] refs] [G1 F1]. rewrite rct_caps_length in G1.
  assert (L2 : live (zremove_q id s1)) by (apply live_zremove_q; apply G1).
  destruct (a_fin a).
  - eapply okp_bind; [apply destroy_ok; exact L2|].
    intros [[s3 o] err] G3. simpl. split; [|discriminate].
    destruct G1 as [_ [A1 Q1]]. destruct G3 as [L3 [A3 Q3]]. split; auto. simpl in A3, Q3. split; [lia|congruence].
  - simpl. split; auto. destruct G1 as [L1 [A1 Q1]]. split; [|simpl; split; [lia|exact Q1]].
    apply live_set_ans; auto. apply ans_ok_aput; [apply (ans_of_live _ L2)|]. apply ans1_done; reflexivity.
Qed.

Lemma reject_ok : forall id a s, live s ->
  okp (reject cfg_fixed id a s) (fun r => let '(s1, o, ab) := r in good 0 s s1 /\ ab = false).
Proof.
  intros id a s L. unfold reject.
  eapply okp_bind; [eapply good_okc; [apply good_refl; exact L|apply release_caps_okc]|].
  intros [s1 o1] G1. simpl in G1.
  eapply okp_bind; [apply send_exception_ok; apply G1|].
  intros [[s2 o2] ab] [G2 Hab]. simpl. split; auto.
  exact (good_trans0 _ _ _ G1 G2).
Qed.

Lemma deliver_ok : forall id a t s, live s -> t <> DBlock -> a_ret a = false ->
  okp (deliver cfg_fixed id a t s) (fun r => let '(s1, o, ab) := r in good 0 s s1 /\ ab = false).
Proof.
  intros id a t s L Ht Hret. unfold deliver. destruct t; try contradiction; try (apply reject_ok; auto).
  destruct (a_mok a); [|apply reject_ok; auto].
  simpl. split; [|reflexivity]. split; [|simpl; split; [lia|reflexivity]].
  assert (L0 : live (zremove_q id s)) by (apply live_zremove_q; auto).
  eapply live_core; [|reflexivity].
  apply live_set_ans; [exact L0|].
  apply ans_ok_aput; [apply (ans_of_live _ L0)|]. apply ans1_busy; simpl; [discriminate|exact Hret].
Qed.

Lemma pipeline_tgt_not_block : forall k rct x, pipeline_tgt k rct x <> DBlock.
Proof.
  intros. unfold pipeline_tgt. destruct (transform_eval k x); try discriminate.
  destruct (znth k0 rct) as [[j|]|]; discriminate.
Qed.

Lemma reject_all_ok : forall ids s, live s ->
  okp (reject_all cfg_fixed ids s) (fun r => let '(s1, o, ab) := r in good 0 s s1 /\ ab = false).
Proof.
  induction ids as [|id ids IH]; intros s L; simpl.
  - split; auto. apply good_refl; auto.
  - destruct (aget id (s_ans s)) as [a|]; [|apply IH; auto].
    eapply okp_bind; [apply reject_ok; auto|].
    intros [[s1 o1] b1] [G1 E1].
    eapply okp_bind; [apply IH; apply G1|].
    intros [[s2 o2] b2] [G2 E2]. simpl. subst. split; auto.
    exact (good_trans0 _ _ _ G1 G2).
Qed.

Lemma drain_ok : forall r k rct lst ids s, live s ->
  okp (drain cfg_fixed r k rct lst ids s) (fun x => let '(s1, o, ab) := x in good 0 s s1 /\ ab = false).
Proof.
  induction ids as [|id ids IH]; intros s L; simpl.
  - split; auto. apply good_refl; auto.
  - eapply okp_bind with (Q1 := fun x => let '(s1, o, ab) := x in good 0 s s1 /\ ab = false).
    + destruct (aget id (s_ans s)) as [a|] eqn:Ea; [|simpl; split; auto; apply good_refl; auto].
      destruct (a_st a) as [|j|p x] eqn:Est; try (simpl; split; auto; apply good_refl; auto).
      assert (Hret : a_ret a = false).
      { destruct (ans_of_live _ L _ _ (aget_in _ _ _ _ Ea)) as [_ H2]. apply H2. rewrite Est. discriminate. }
      destruct (eff_parent cfg_fixed r lst p =? r).
      * apply deliver_ok; auto. apply pipeline_tgt_not_block.
      * destruct (aget (eff_parent cfg_fixed r lst p) (s_ans s)) as [b|]; [|apply reject_ok; auto].
        destruct (a_ready b).
        -- destruct (a_err b); [apply reject_ok; auto|apply deliver_ok; auto; apply pipeline_tgt_not_block].
        -- simpl. split; auto. split; [|simpl; split; [lia|reflexivity]].
           apply live_set_ans; auto. apply ans_ok_aput; [apply (ans_of_live _ L)|].
           apply ans1_busy; simpl; [discriminate|exact Hret].
    + intros [[s1 o1] b1] [G1 E1].
      eapply okp_bind; [apply IH; apply G1|].
      intros [[s2 o2] b2] [G2 E2]. simpl. subst. split; auto.
      exact (good_trans0 _ _ _ G1 G2).
Qed.

(* ------------------------------------------------------------------ handlers *)
Definition hpost (w : Z) (s : state) (r : state * list output * bool) : Prop :=
  let '(s1, o, ab) := r in s_shut s1 = false /\ (ab = false -> live s1 /\ pot s1 <= pot s + w).

Lemma good_pot : forall w s s1, good w s s1 -> live s1 /\ pot s1 <= pot s + w.
Proof. intros w s s1 [L [A Q]]. split; auto. unfold pot. rewrite Q. lia. Qed.

Lemma hpost_good : forall w s s1 o ab, good w s s1 -> hpost w s (s1, o, ab).
Proof. intros w s s1 o ab G. split; [apply G|intros _; apply good_pot; exact G]. Qed.

Lemma hpost_abort : forall w s o, live s -> hpost w s (s, o, true).
Proof. intros w s o L. split; [apply L|discriminate]. Qed.

Lemma hpost_live : forall w s s1 o ab, live s1 -> pot s1 <= pot s + w -> hpost w s (s1, o, ab).
Proof. intros w s s1 o ab L P. split; [apply L|auto]. Qed.

Lemma pot_allocs : forall s, s_allocs s <= pot s.
Proof. intros. unfold pot. pose proof (called_total_nonneg (s_qs s)). lia. Qed.

Lemma okp_hpost_good : forall w s (r : hres),
  okp r (fun x => let '(s1, o, ab) := x in good w s s1 /\ ab = false) -> okp r (hpost w s).
Proof.
  intros w s r H. eapply okp_weaken; [exact H|]. intros [[s1 o] ab] [G E]. apply hpost_good; auto.
Qed.

Lemma handle_bootstrap_ok : forall id s, live s -> pot s + 1 < LIM ->
  okp (handle_bootstrap cfg_fixed id s) (hpost 1 s).
Proof.
  intros id s L Hb. pose proof (pot_allocs s) as Ha. unfold handle_bootstrap.
  destruct (aget id (s_ans s)); [apply hpost_abort; exact L|].
  destruct (negb (s_boot s)).
  - eapply okp_weaken; [apply send_exception_ok; auto|].
    intros [[s1 o] ab] [G E]. apply hpost_good. eapply good_mono; eauto. lia.
  - assert (L1 : live (lref 1 0 s)) by (eapply live_core; eauto).
    eapply okp_bind; [apply (send_return_ok id (new_answer [] true 0) (KCap 0) [Some 0] (lref 1 0 s) L1); simpl; lia|].
    intros [[s1 o] err] [G E]. simpl in E. rewrite (E eq_refl). cbn [okp]. apply hpost_good. exact G.
Qed.

Lemma not_block_of_exp : forall s e x w, live s -> tget e (s_exp s) = Some (x, w) -> cap_dtgt x <> DBlock.
Proof.
  intros s e x w [_ (_ & _ & _ & _ & X & _)] H. simpl in X. apply tget_some in H. destruct H as [_ H].
  apply nth_error_In in H. apply X in H. destruct x; simpl in *; try discriminate. contradiction.
Qed.

Lemma payload_err_fixed : forall s part, payload_err cfg_fixed s part = Ok (s, part).
Proof. reflexivity. Qed.

Lemma handle_call_ok : forall id tg params toCaller mok tag s, live s ->
  okp (handle_call cfg_fixed id tg params toCaller mok tag s) (hpost 0 s).
Proof.
  intros id tg params toCaller mok tag s L. unfold handle_call.
  destruct (negb toCaller).
  { cbn [okp]. apply hpost_good. apply good_refl; auto. }
  destruct (aget id (s_ans s)) eqn:Eid; [apply hpost_abort; exact L|].
  (* parseCall *)
  eapply okp_bind with (Q1 := fun x => let '(s1, parsed, torelease) := x in core_of s1 = core_of s).
  { destruct params as [p|]; [|reflexivity].
    pose proof (recv_payload_core cfg_fixed p s) as C.
    destruct (recv_payload cfg_fixed p s) as [s1 k tab loc|s1 part].
    - destruct (parse_target tg); simpl; exact C.
    - rewrite payload_err_fixed. simpl. exact C. }
  intros [[s1 parsed] torelease] C.
  assert (L1 : live s1) by (eapply live_core; eauto).
  assert (G1 : good 0 s s1) by (eapply good_core; [apply good_refl; exact L|exact C]).
  assert (Eid1 : aget id (s_ans s1) = None).
  { change (s_ans s1) with (k_ans (core_of s1)). rewrite C. exact Eid. }
  destruct parsed as [[pt tab]|].
  2:{ cbn [fx15 cfg_fixed negb].
      eapply okp_bind; [apply send_exception_ok; exact L1|].
      intros [[s2 o2] ab] [G2 E2].
      eapply okp_bind; [eapply good_okc; [exact (good_trans0 _ _ _ G1 G2)|apply release_caps_okc]|].
      intros [s3 o3] G3. cbn [okp fst] in *. apply hpost_good. exact G3. }
  assert (UNK : forall s', core_of s' = core_of s1 -> okp (do '(s2, o2) <- release_caps cfg_fixed tab (set_ans (aput id placeholder (s_ans s')) s'); Ok (s2, o2, true)) (hpost 0 s)).
  { intros s' C'. destruct (release_caps_fixed tab (set_ans (aput id placeholder (s_ans s')) s')) as (s2 & o2 & H2 & C2). rewrite H2. cbn [bind okp].
    split; [|discriminate]. change (s_shut s2) with (k_shut (core_of s2)). rewrite C2. simpl.
    change (s_shut s') with (k_shut (core_of s')). rewrite C'. apply L1. }
  destruct pt as [e|t x].
  - destruct (tget e (s_exp s1)) as [[xc w]|] eqn:Ee; [|apply UNK; reflexivity].
    eapply okp_weaken; [apply deliver_ok; [exact L1|eapply not_block_of_exp; eauto|reflexivity]|].
    intros [[s2 o2] ab] [G2 E2]. apply hpost_good. exact (good_trans0 _ _ _ G1 G2).
  - cbn [fx24 cfg_fixed negb andb]. rewrite andb_false_r. destruct (t =? id) eqn:Et; [apply UNK; reflexivity|].
    destruct (aget t (s_ans s1)) as [ta|] eqn:Eta; [|apply UNK; reflexivity].
    destruct (a_fin ta); [apply UNK; reflexivity|].
    destruct (a_ready ta) eqn:Er.
    + destruct (a_err ta).
      * eapply okp_weaken; [apply reject_ok; exact L1|].
        intros [[s2 o2] ab] [G2 E2]. apply hpost_good. exact (good_trans0 _ _ _ G1 G2).
      * eapply okp_weaken; [apply deliver_ok; [exact L1|apply pipeline_tgt_not_block|reflexivity]|].
        intros [[s2 o2] ab] [G2 E2]. apply hpost_good. exact (good_trans0 _ _ _ G1 G2).
    + pose proof (proj1 (ans_of_live _ L1 _ _ (aget_in _ _ _ _ Eta)) Er) as Hst.
      assert (QUEUE : forall p, hpost 0 s
         (set_queue (s_queue s1 ++ [id]) (set_ans (aput id (set_a_st (AQueued t x) (new_answer tab mok tag)) (s_ans s1)) s1), p, false)).
      { intros p. apply hpost_good. eapply good_trans0; [exact G1|].
        split; [|simpl; split; [lia|reflexivity]].
        eapply live_core; [|reflexivity]. apply live_set_ans; [exact L1|].
        apply ans_ok_aput; [apply (ans_of_live _ L1)|]. apply ans1_busy; simpl; [discriminate|reflexivity]. }
      destruct (a_st ta) eqn:Est; [contradiction| |]; cbn [okp]; apply QUEUE.
Qed.

Lemma handle_finish_ok : forall id rrc s, live s -> okp (handle_finish cfg_fixed id rrc s) (hpost 0 s).
Proof.
  intros id rrc s L. unfold handle_finish.
  destruct (aget id (s_ans s)) as [a|] eqn:Ea; [|apply hpost_abort; exact L].
  destruct (a_fin a); [apply hpost_abort; exact L|].
  destruct (negb (a_ret a)).
  - cbn [okp]. apply hpost_good. split; [|simpl; split; [lia|reflexivity]].
    apply live_set_ans; auto. apply ans_ok_aput; [apply (ans_of_live _ L)|].
    exact (ans_of_live _ L _ _ (aget_in _ _ _ _ Ea)).
  - eapply okp_weaken; [apply destroy_ok; exact L|].
    intros [[s1 o] err] G. apply hpost_good. exact G.
Qed.

Lemma handle_release_ok : forall id n s, live s -> okp (handle_release cfg_fixed id n s) (hpost 0 s).
Proof.
  intros id n s L. unfold handle_release.
  pose proof (release_export_ok id n s L) as H. destruct (release_export id n s) as [[s1 oc] err].
  destruct H as [G F]. destruct err; [apply hpost_abort; exact L|].
  destruct oc as [x|].
  - eapply okp_bind; [eapply good_okc; [exact G|apply release_cap_okc]|].
    intros [s2 o] G2. cbn [okp fst] in *. apply hpost_good. exact G2.
  - cbn [okp]. apply hpost_good. exact G.
Qed.

Lemma emb_shape_length : forall t, length (emb_shape t) = length t.
Proof. intros. unfold emb_shape. apply map_length. Qed.

Lemma live_lift_prep : forall e em s, live s -> tget e (s_emb s) = Some em ->
  live (set_mgen (gen_remove e (s_mgen s)) (set_emb (tclear e (s_emb s)) s)).
Proof.
  intros e em s [Hs (Gq & Ge & Gm & A & X & Bq & Be & Bm)] H. split; [exact Hs|].
  apply tget_some in H. destruct H as [Hr _].
  unfold live_inv in *; simpl in *.
  rewrite emb_shape_length in *. rewrite tclear_length.
  destruct (gen_remove_ok _ _ e Gm Hr) as [G1 G2].
  split; [exact Gq|]. split; [exact Ge|]. split; [exact G1|]. split; [exact A|]. split; [exact X|].
  split; [exact Bq|]. split; [exact Be|exact Bm].
Qed.

Lemma handle_disembargo_ok : forall tg cx s, live s -> okp (handle_disembargo cfg_fixed tg cx s) (hpost 0 s).
Proof.
  intros tg cx s L. unfold handle_disembargo.
  destruct (parse_target tg); [|apply hpost_abort; exact L].
  destruct cx as [i|e|]; try (apply hpost_abort; exact L).
  - destruct (tget e (s_emb s)) as [em|] eqn:E; [|apply hpost_abort; exact L].
    pose proof (live_lift_prep e em s L E) as L1.
    destruct (lift_fixed e em (set_mgen (gen_remove e (s_mgen s)) (set_emb (tclear e (s_emb s)) s))) as (s1 & o1 & H1 & C1 & _).
    rewrite H1. cbn [bind okp]. apply hpost_good. eapply good_core; [|exact C1].
    split; [exact L1|simpl; split; [lia|reflexivity]].
  - cbn [okp]. apply hpost_good. apply good_refl; auto.
Qed.

(* tables of questions *)
Lemma called_total_replace : forall t n q, called_total (replace_nth n (Some q) t) <= called_total t + Z.of_nat (length (q_called q)).
Proof.
  induction t as [|[q0|] t IH]; intros n q.
  - destruct n; simpl; lia.
  - destruct n; simpl; [lia|]. specialize (IH n q). lia.
  - destruct n; simpl; [lia|]. specialize (IH n q). lia.
Qed.

Lemma called_total_app : forall t q, called_total (t ++ [Some q]) = called_total t + Z.of_nat (length (q_called q)).
Proof. induction t as [|[q0|] t IH]; intros q; simpl; try rewrite IH; lia. Qed.

Lemma called_total_clear : forall t n q, nth_error t n = Some (Some q) ->
  called_total (replace_nth n None t) = called_total t - Z.of_nat (length (q_called q)).
Proof.
  induction t as [|[q0|] t IH]; intros n q H; destruct n; simpl in *; try discriminate.
  - inversion H; subst. lia.
  - rewrite (IH _ _ H). lia.
  - rewrite (IH _ _ H). lia.
Qed.

Lemma live_set_qs : forall s t, live s -> length t = length (s_qs s) -> slots_free (s_qgen s) t -> live (set_qs t s).
Proof.
  intros s t [Hs ([Gq Sq] & Ge & Gm & A & X & B)] Hl Hsl. split; [exact Hs|]. unfold live_inv, qgen_ok in *; simpl in *.
  rewrite Hl. tauto.
Qed.

Lemma qs_slots : forall s, live s -> slots_free (s_qgen s) (s_qs s).
Proof. intros s [_ ([_ Sq] & _)]. exact Sq. Qed.

Lemma new_question_ok : forall q s, live s -> s_allocs s < LIM -> q_called q = [] ->
  okp (new_question q s) (fun r => let '(s1, id) := r in live s1 /\ pot s1 <= pot s + 1 /\
     core_of s1 = mkCore (s_shut s) (s_qs s1) (s_qgen s1) (s_ans s) (s_exp s) (s_egen s) (emb_shape (s_emb s)) (s_mgen s) (s_allocs s + 1) (s_queue s) (s_sent s) (s_rel s)
     /\ s_handles s1 = s_handles s /\ s_imp s1 = s_imp s /\ s_busy s1 = s_busy s /\ s_emb s1 = s_emb s
     /\ tget id (s_qs s1) = Some q).
Proof.
  intros q s L Hl Hq. pose proof L as [Hs ([Gq Sq] & Ge & Gm & A & X & Bq & Be & Bm)].
  simpl in Gq, Sq, Ge, Gm, A, Bq, Be, Bm. unfold new_question.
  destruct (alloc_ok question (s_qgen s) (s_qs s) q Gq Sq) as (id & g' & t' & H1 & H2 & G' & Hg & Hin & Hsl & Hnone & TG); [lia|].
  rewrite H1; cbn [bind]; cbv beta iota; rewrite H2; cbn [bind]; cbv beta iota. cbn [okp].
  split; [|split; [|split; [reflexivity|]]].
  - split; [exact Hs|]. unfold live_inv, qgen_ok; simpl.
    split; [split; [exact G'|exact Hsl]|]. split; [exact Ge|]. split; [exact Gm|]. split; [exact A|]. split; [exact X|]. lia.
  - unfold pot; simpl. unfold tput in H2.
    destruct (id =? Z.of_nat (length (s_qs s))).
    + inversion H2; subst. rewrite called_total_app. rewrite Hq. simpl. lia.
    + destruct ((0 <=? id) && (id <? Z.of_nat (length (s_qs s)))); [|discriminate].
      inversion H2; subst. pose proof (called_total_replace (s_qs s) (Z.to_nat id) q). rewrite Hq in H. simpl in H. lia.
  - simpl. repeat split; auto. unfold tput in H2. unfold tget, znth.
    destruct (id =? Z.of_nat (length (s_qs s))) eqn:E1.
    + inversion H2; subst. rewrite app_length. simpl.
      replace (id <? 0) with false by lia. replace (Z.of_nat (length (s_qs s) + 1) <=? id) with false by lia. simpl.
      rewrite nth_error_app2 by lia. replace (Z.to_nat id - length (s_qs s))%nat with 0%nat by lia. reflexivity.
    + destruct ((0 <=? id) && (id <? Z.of_nat (length (s_qs s)))) eqn:E2; [|discriminate].
      inversion H2; subst. rewrite replace_nth_length.
      replace (id <? 0) with false by lia. replace (Z.of_nat (length (s_qs s)) <=? id) with false by lia. simpl.
      assert (Hn : (Z.to_nat id < length (s_qs s))%nat) by lia.
      clear - Hn. revert Hn. generalize (Z.to_nat id) as n. generalize (s_qs s) as t.
      induction t as [|a t IH]; intros n Hn; simpl in *; [lia|]. destruct n; simpl; [reflexivity|]. apply IH. lia.
Qed.

Lemma embargo_caps_ok : forall qid k called loc done tab s, live s -> s_allocs s + Z.of_nat (length called) < LIM ->
  okp (embargo_caps cfg_fixed qid k called loc done tab s)
      (fun r => let '(s1, tab1, o) := r in good (Z.of_nat (length called)) s s1).
Proof.
  induction called as [|x called IH]; intros loc done tab s L Hb.
  - simpl. apply good_refl; auto.
  - assert (SKIP : forall done' tab', okp (embargo_caps cfg_fixed qid k called loc done' tab' s)
                     (fun r => let '(s1, tab1, o) := r in good (Z.of_nat (length (x :: called))) s s1)).
    { intros done' tab'. eapply okp_weaken; [apply IH; [exact L|simpl length in Hb; lia]|].
      intros [[s1 t1] o] G. eapply good_mono; [exact G|simpl length; lia]. }
    simpl embargo_caps. destruct (transform_eval k x); try apply SKIP.
    destruct (znth k0 tab) as [lc|]; [|apply SKIP].
    destruct (znth k0 loc) as [[|]|]; try apply SKIP.
    destruct (zmem k0 done); [apply SKIP|].
    pose proof L as [Hs (Gq & Ge & Gm & A & X & Bq & Be & Bm)].
    simpl in Gq, Ge, Gm, A, X, Bq, Be, Bm. rewrite emb_shape_length in Gm.
    destruct (alloc_ok0 embent (s_mgen s) (s_emb s) (mkEmb lc 1) Gm) as (e & g' & t' & H1 & H2 & G' & Hg); [simpl length in Hb; lia|].
    rewrite H1; cbn [bind]; cbv beta iota; rewrite H2; cbn [bind]; cbv beta iota.
    set (s1 := set_allocs (s_allocs s + 1) (set_mgen g' (set_emb t' s))).
    assert (G1 : good 1 s s1).
    { split; [|simpl; split; [lia|reflexivity]]. split; [exact Hs|]. unfold live_inv; simpl.
      rewrite emb_shape_length.
      split; [exact Gq|]. split; [exact Ge|]. split; [exact G'|]. split; [exact A|]. split; [exact X|]. lia. }
    eapply okp_bind; [apply IH; [apply G1|destruct G1 as [_ [A1 _]]; simpl length in Hb; lia]|].
    intros [[s2 tab2] o2] G2. cbn [okp].
    replace (Z.of_nat (length (x :: called))) with (1 + Z.of_nat (length called)) by (simpl length; lia).
    eapply good_trans; eauto.
Qed.

Lemma core_set_handle : forall h v s, core_of (set_handle h v s) = core_of s.
Proof. reflexivity. Qed.

Lemma live_qgen_remove : forall qid s, live s -> 0 <= qid < Z.of_nat (length (s_qs s)) -> tget qid (s_qs s) = None ->
  live (set_qgen (gen_remove qid (s_qgen s)) s).
Proof.
  intros qid s [Hs ([Gq Sq] & Ge & Gm & A & X & Bq & Be & Bm)] Hr Hnone. split; [exact Hs|].
  unfold live_inv, qgen_ok in *; simpl in *. destruct (gen_remove_ok _ _ qid Gq Hr) as [G1 G2].
  split; [split; [exact G1|apply gen_remove_slots; assumption]|]. tauto.
Qed.

Lemma handle_return_ok : forall qid rpc k s, live s -> pot s < LIM ->
  okp (handle_return cfg_fixed qid rpc k s) (hpost 0 s).
Proof.
  intros qid rpc k s L Hb. unfold handle_return.
  destruct (tget qid (s_qs s)) as [q|] eqn:Eq; [|apply hpost_abort; exact L].
  pose proof (tget_some _ _ _ _ Eq) as [Hr Hn].
  set (s0 := set_qs (tclear qid (s_qs s)) s).
  assert (L0 : live s0) by (apply live_set_qs; [exact L|apply tclear_length|apply slots_free_tclear; apply qs_slots; exact L]).
  assert (P0 : pot s0 = pot s - Z.of_nat (length (q_called q))).
  { unfold pot, s0; simpl. unfold tclear. replace ((0 <=? qid) && (qid <? Z.of_nat (length (s_qs s)))) with true by lia.
    rewrite (called_total_clear _ _ _ Hn). lia. }
  assert (Q0 : length (s_qs s0) = length (s_qs s)) by (unfold s0; simpl; apply tclear_length).
  (* release of the parameter capabilities *)
  assert (E1 : exists s1 pclients, (if fx19 cfg_fixed && rpc then let '(s1, cl, _) := release_exports (q_prefs q) s0 in (s1, cl) else (s0, [])) = (s1, pclients) /\ good 0 s0 s1).
  { destruct (fx19 cfg_fixed && rpc).
    - pose proof (release_exports_ok (q_prefs q) s0 L0) as H. destruct (release_exports (q_prefs q) s0) as [[s1 cl] e].
      exists s1, cl. split; [reflexivity|apply H].
    - exists s0, []. split; [reflexivity|apply good_refl; exact L0]. }
  destruct E1 as (s1 & pclients & E1 & G1). rewrite E1. clear E1.
  assert (Q1 : length (s_qs s1) = length (s_qs s)) by (destruct G1 as [_ [_ Q]]; rewrite Q; exact Q0).
  assert (FIN : forall w s2, good w s0 s2 -> w <= Z.of_nat (length (q_called q)) ->
                live (set_qgen (gen_remove qid (s_qgen s2)) s2) /\ pot (set_qgen (gen_remove qid (s_qgen s2)) s2) <= pot s + 0).
  { intros w s2 [L2 [A2 Q2]] Hw. split.
    - apply live_qgen_remove; [exact L2|rewrite Q2, Q0; exact Hr|].
      rewrite Q2. unfold s0. simpl. rewrite tget_tclear, Z.eqb_refl. reflexivity.
    - unfold pot in *; simpl in *. rewrite Q2. lia. }
  destruct (q_fin q).
  { eapply okp_bind with (Q1 := fun p => core_of (fst p) = core_of (set_qgen (gen_remove qid (s_qgen s1)) s1)); [apply release_caps_okc|].
    intros [s2 o2] C2. simpl in C2. cbn [okp].
    destruct (FIN 0 s1 G1 ltac:(lia)) as [F1 F2].
    apply hpost_live; [eapply live_core; eauto|]. rewrite (pot_core _ _ C2). exact F2. }
  assert (Hb1 : s_allocs s1 + Z.of_nat (length (q_called q)) < LIM).
  { destruct G1 as [_ [A1 _]]. pose proof (pot_allocs s0). pose proof (called_total_nonneg (s_qs s0)).
    unfold pot in *. simpl in *. lia. }
  (* parseReturn *)
  eapply okp_bind with (Q1 := fun x => let '(s2, parsed, torelease, disemb) := x in good (Z.of_nat (length (q_called q))) s1 s2).
  { assert (SAME : good (Z.of_nat (length (q_called q))) s1 s1) by (eapply good_mono; [apply good_refl; apply G1|lia]).
    destruct k as [[p|]| |]; try exact SAME.
    pose proof (recv_payload_core cfg_fixed p s1) as C.
    destruct (recv_payload cfg_fixed p s1) as [s2 kc tab loc|s2 part].
    - assert (L2 : live s2) by (eapply live_core; [apply G1|exact C]).
      eapply okp_bind; [apply embargo_caps_ok; [exact L2|rewrite (allocs_core _ _ C); exact Hb1]|].
      intros [[s3 tab3] o3] G3. cbn [okp]. eapply good_core in SAME; [|exact C].
      destruct SAME as [_ [A _]]. destruct G3 as [L3 [A3 Q3]]. split; [exact L3|].
      rewrite (allocs_core _ _ C) in A3. split; [lia|].
      rewrite Q3. change (s_qs s2) with (k_qs (core_of s2)). rewrite C. reflexivity.
    - rewrite payload_err_fixed. cbn [bind okp]. eapply good_core; [exact SAME|exact C]. }
  intros [[[s2 parsed] torelease] disemb] G2.
  (* the local promise resolves *)
  eapply okp_bind with (Q1 := fun p => core_of (fst p) = core_of s2).
  { destruct (q_boot q) as [h|]; destruct parsed as [[kc tab]|].
    - cbn [fx17 cfg_fixed negb andb].
      eapply okp_bind; [apply release_caps_okc|]. intros [s4 o4] C4. cbn [okp fst] in *.
      rewrite C4. apply core_addref.
    - eapply okp_bind; [apply release_caps_okc|]. intros [s4 o4] C4. cbn [okp fst] in *. rewrite C4. reflexivity.
    - eapply okp_bind; [apply release_caps_okc|]. intros [s4 o4] C4. cbn [okp fst] in *. exact C4.
    - eapply okp_bind; [apply release_caps_okc|]. intros [s4 o4] C4. cbn [okp fst] in *. exact C4. }
  intros [s3 o3] C3. simpl in C3.
  eapply okp_bind with (Q1 := fun p => core_of (fst p) = core_of s3); [apply release_caps_okc|].
  intros [s5 o5] C5. simpl in C5. cbn [okp].
  assert (G5 : good (Z.of_nat (length (q_called q))) s0 s5).
  { eapply good_core; [|exact C5]. eapply good_core; [|exact C3].
    replace (Z.of_nat (length (q_called q))) with (0 + Z.of_nat (length (q_called q))) by lia.
    eapply good_trans; eauto. }
  destruct (FIN _ _ G5 ltac:(lia)) as [F1 F2]. apply hpost_live; assumption.
Qed.

(* ------------------------------------------------------------------ application handlers *)
Lemma called_total_replace_some : forall t n q q', nth_error t n = Some (Some q) ->
  called_total (replace_nth n (Some q') t) = called_total t - Z.of_nat (length (q_called q)) + Z.of_nat (length (q_called q')).
Proof.
  induction t as [|[q0|] t IH]; intros n q q' H; destruct n; simpl in *; try discriminate.
  - inversion H; subst. lia.
  - rewrite (IH _ _ q' H). lia.
  - rewrite (IH _ _ q' H). lia.
Qed.

Lemma acap_cap_handles : forall s s' a, s_handles s' = s_handles s -> acap_cap s' a = acap_cap s a.
Proof. intros s s' a H. destruct a; simpl; auto. unfold hget. rewrite H. reflexivity. Qed.

Lemma acap_ok_not_emb : forall s a, acap_ok s a = true -> not_emb (acap_cap s a).
Proof.
  intros s a H. destruct a; simpl in *; auto.
  destruct (hget h s) as [q|x|]; simpl; auto. destruct x; simpl; auto. discriminate.
Qed.

Lemma caps_not_emb : forall s s' caps, s_handles s' = s_handles s -> forallb (acap_ok s) caps = true ->
  Forall not_emb (map (acap_cap s') caps).
Proof.
  intros s s' caps Hh. induction caps as [|a caps IH]; simpl; intros H; constructor.
  - rewrite (acap_cap_handles _ _ _ Hh). apply acap_ok_not_emb. apply andb_true_iff in H. apply H.
  - apply IH. apply andb_true_iff in H. apply H.
Qed.

Lemma app_bootstrap_ok : forall s, live s -> pot s + 1 < LIM -> okp (app_bootstrap cfg_fixed s) (hpost 1 s).
Proof.
  intros s L Hb. unfold app_bootstrap. destruct L as [Hs Li]. rewrite Hs.
  pose proof (pot_allocs s).
  eapply okp_bind; [apply new_question_ok; [split; assumption|lia|reflexivity]|].
  intros [s1 id] (L1 & P1 & C1 & _). cbn [okp]. apply hpost_live.
  - eapply live_core; [exact L1|reflexivity].
  - unfold pot in *; simpl in *. exact P1.
Qed.

Lemma mark_called_length : forall x q, (length (q_called (mark_called x q)) <= length (q_called q) + 1)%nat.
Proof. intros. unfold mark_called. destruct (existsb _ _); simpl; [lia|]. rewrite app_length. simpl. lia. Qed.

(* the tail shared by importClient.Send and question.PipelineSend: a new question, the params *)
Lemma send_call_ok : forall s s1 n caps (mk : Z -> list desc -> output), live s1 -> s_handles s1 = s_handles s ->
  forallb (acap_ok s) caps = true -> s_allocs s1 + 1 + Z.of_nat (length caps) < LIM ->
  okp (do '(s2, id) <- new_question (mkQ None n false [] [] None) s1;
       do '(s3, ds, refs) <- fill_caps cfg_fixed (map (acap_cap s2) caps) s2;
       let s4 := if fx19 cfg_fixed then set_qs (replace_nth (Z.to_nat id) (Some (mkQ None n false [] refs None)) (s_qs s3)) s3 else s3 in
       Ok (s4, [mk id ds], false))
      (fun r => let '(s4, o, ab) := r in live s4 /\ pot s4 <= pot s1 + 1 + Z.of_nat (length caps)).
Proof.
  intros s s1 n caps mk L1 Hh Henv Hb.
  eapply okp_bind; [apply new_question_ok; [exact L1|lia|reflexivity]|].
  intros [s2 id] (L2 & P2 & C2 & H2 & _ & _ & _ & T2).
  assert (A2 : s_allocs s2 = s_allocs s1 + 1).
  { change (s_allocs s2) with (k_allocs (core_of s2)). rewrite C2. reflexivity. }
  eapply okp_bind.
  { apply fill_caps_ok; [exact L2| |rewrite map_length; lia].
    apply caps_not_emb with (s := s); [congruence|exact Henv]. }
  intros [[s3 ds] refs] [G3 F3]. rewrite map_length in G3. cbn [fx19 cfg_fixed okp].
  destruct G3 as [L3 [A3 Q3]].
  apply tget_some in T2. destruct T2 as [_ T2].
  split.
  - apply live_set_qs; [exact L3|apply replace_nth_length|].
    eapply slots_free_replace; [apply qs_slots; exact L3|rewrite Q3; exact T2].
  - unfold pot in *. simpl. rewrite Q3. rewrite (called_total_replace_some _ _ _ _ T2). simpl. lia.
Qed.

Lemma app_pipe_ok : forall q0 x caps s, live s -> pot s + 2 + Z.of_nat (length caps) < LIM ->
  forallb (acap_ok s) caps = true ->
  okp (app_pipe cfg_fixed q0 x caps s) (hpost (2 + Z.of_nat (length caps)) s).
Proof.
  intros q0 x caps s L Hb Henv. unfold app_pipe, next_call.
  set (s0 := set_ncall (s_ncall s + 1) s).
  assert (L0 : live s0) by (eapply live_core; [exact L|reflexivity]).
  assert (P0 : pot s0 = pot s) by reflexivity.
  destruct L0 as [Hs0 Li0]. rewrite Hs0.
  assert (SAME : forall o, okp (Ok (s0, o, false)) (hpost (2 + Z.of_nat (length caps)) s)).
  { intros o. cbn [okp]. apply hpost_live; [split; assumption|]. rewrite P0. lia. }
  destruct (tget q0 (s_qs s0)) as [q|] eqn:Eq; [|apply SAME].
  destruct (q_fin q); [apply SAME|].
  apply tget_some in Eq. destruct Eq as [Hr Hn].
  set (s1 := set_qs (replace_nth (Z.to_nat q0) (Some (mark_called x q)) (s_qs s0)) s0).
  assert (L1 : live s1) by (apply live_set_qs; [split; assumption|apply replace_nth_length|eapply slots_free_replace; [apply qs_slots; split; assumption|exact Hn]]).
  assert (P1 : pot s1 <= pot s + 1).
  { unfold pot, s1; simpl. rewrite (called_total_replace_some _ _ _ _ Hn).
    pose proof (mark_called_length x q). change (s_qs s0) with (s_qs s). lia. }
  pose proof (pot_allocs s1).
  eapply okp_weaken.
  { apply (send_call_ok s s1 (s_ncall s) caps (fun id ds => OCall id (OTAns q0 x) ds)).
    - exact L1.
    - reflexivity.
    - exact Henv.
    - lia. }
  intros [[s4 o] ab] [L4 P4]. apply hpost_live; [exact L4|lia].
Qed.

Lemma app_call_ok : forall h caps tag s, live s -> pot s + 2 + Z.of_nat (length caps) < LIM ->
  forallb (acap_ok s) caps = true ->
  okp (app_call cfg_fixed h caps tag s) (hpost (2 + Z.of_nat (length caps)) s).
Proof.
  intros h caps tag s L Hb Henv. unfold app_call.
  assert (SAME : forall s' o, core_of s' = core_of s -> okp (Ok (s', o, false)) (hpost (2 + Z.of_nat (length caps)) s)).
  { intros s' o C. cbn [okp]. apply hpost_live; [eapply live_core; eauto|]. rewrite (pot_core _ _ C). lia. }
  destruct (hget h s) as [q0|x|] eqn:Eh; [apply app_pipe_ok; auto| |unfold next_call; apply SAME; reflexivity].
  destruct x; try (unfold next_call; apply SAME; reflexivity).
  unfold next_call. set (s0 := set_ncall (s_ncall s + 1) s).
  assert (L0 : live s0) by (eapply live_core; [exact L|reflexivity]).
  destruct L0 as [Hs0 Li0]. rewrite Hs0.
  destruct (negb (imp_current i g s0)); [apply SAME; reflexivity|].
  pose proof (pot_allocs s) as Ha.
  eapply okp_weaken.
  { apply (send_call_ok s s0 (s_ncall s) caps (fun id ds => OCall id (OTImp i) ds)).
    - split; assumption.
    - reflexivity.
    - exact Henv.
    - simpl. lia. }
  intros [[s4 o] ab] [L4 P4]. apply hpost_live; [exact L4|]. change (pot s0) with (pot s) in P4. lia.
Qed.

Lemma app_hold_ok : forall h s, live s -> pot s + 1 < LIM -> okp (app_hold cfg_fixed h s) (hpost 1 s).
Proof.
  intros h s L Hb. unfold app_hold, next_call. set (s0 := set_ncall (s_ncall s + 1) s).
  assert (L0 : live s0) by (eapply live_core; [exact L|reflexivity]).
  assert (SAME : forall o, okp (Ok (s0, o, false)) (hpost 1 s)).
  { intros o. cbn [okp]. apply hpost_live; [exact L0|]. change (pot s0) with (pot s). lia. }
  destruct (hget h s0) as [q0|x|]; try apply SAME. destruct x; try apply SAME.
  destruct (s_shut s0 || negb (imp_current i g s0)); [apply SAME|].
  pose proof (pot_allocs s).
  eapply okp_bind; [apply new_question_ok; [exact L0|simpl; lia|reflexivity]|].
  intros [s2 id] (L2 & P2 & _). cbn [okp]. apply hpost_live.
  - eapply live_core; [exact L2|reflexivity].
  - change (pot s0) with (pot s) in P2. unfold pot in *; simpl in *. exact P2.
Qed.

Lemma find_held_some : forall n t i qid q, find_held n t i = Some (qid, q) ->
  nth_error t (Z.to_nat (qid - i)) = Some (Some q) /\ i <= qid.
Proof.
  induction t as [|[q0|] t IH]; intros i qid q H; simpl in H; try discriminate.
  - destruct ((q_call q0 =? n) && _).
    + inversion H; subst. replace (qid - qid) with 0 by lia. simpl. split; [reflexivity|lia].
    + apply IH in H. destruct H as [H Hi]. split; [|lia].
      replace (Z.to_nat (qid - i)) with (S (Z.to_nat (qid - (i + 1)))) by lia. exact H.
  - apply IH in H. destruct H as [H Hi]. split; [|lia].
    replace (Z.to_nat (qid - i)) with (S (Z.to_nat (qid - (i + 1)))) by lia. exact H.
Qed.

Lemma app_unhold_ok : forall n s, live s -> okp (app_unhold cfg_fixed n s) (hpost 0 s).
Proof.
  intros n s L. unfold app_unhold.
  assert (SAME : okp (Ok (s, [], false)) (hpost 0 s)).
  { cbn [okp]. apply hpost_live; [exact L|lia]. }
  destruct (find_held n (s_qs s) 0) as [[qid q]|] eqn:Ef; [|exact SAME].
  destruct (q_held q) as [[[i g] cs]|]; [|exact SAME].
  destruct (s_shut s); [exact SAME|].
  apply find_held_some in Ef. destruct Ef as [Hn _]. rewrite Z.sub_0_r in Hn.
  set (s1 := set_qs _ s). set (s2 := set_busy _ s1).
  assert (L2 : live s2).
  { eapply live_core with (s := s1); [|reflexivity]. apply live_set_qs; [exact L|apply replace_nth_length|eapply slots_free_replace; [apply qs_slots; exact L|exact Hn]]. }
  assert (P2 : pot s2 <= pot s).
  { unfold pot, s2, s1; simpl. rewrite (called_total_replace_some _ _ _ _ Hn). simpl. lia. }
  destruct ((busy_get i g (s_busy s2) =? 0) && dead_mem i g (s_dead s2)).
  - destruct (imp_shutdown_fixed i g (set_dead (dead_del i g (s_dead s2)) s2)) as (s3 & o3 & H3 & C3).
    rewrite H3. cbn [bind okp].
    apply hpost_live; [eapply live_core; [exact L2|exact C3]|]. rewrite (pot_core _ _ C3). change (pot (set_dead _ s2)) with (pot s2). lia.
  - cbn [okp]. apply hpost_live; [exact L2|lia].
Qed.

Lemma cancel_question_ok : forall qid q s, live s -> nth_error (s_qs s) (Z.to_nat qid) = Some (Some q) ->
  okp (cancel_question qid q s) (fun r => live (fst r) /\ pot (fst r) = pot s).
Proof.
  intros qid q s L Hn. unfold cancel_question. cbn [okp fst]. split.
  - apply live_set_qs; [exact L|apply replace_nth_length|eapply slots_free_replace; [apply qs_slots; exact L|exact Hn]].
  - unfold pot; simpl. rewrite (called_total_replace_some _ _ _ _ Hn). simpl. lia.
Qed.

Lemma app_cancel_ok : forall qid s, live s -> okp (app_cancel cfg_fixed qid s) (hpost 0 s).
Proof.
  intros qid s L. unfold app_cancel.
  assert (SAME : okp (Ok (s, [], false)) (hpost 0 s)).
  { cbn [okp]. apply hpost_live; [exact L|lia]. }
  destruct (s_shut s); [exact SAME|].
  destruct (tget qid (s_qs s)) as [q|] eqn:Eq; [|exact SAME].
  destruct (q_fin q || (q_call q <? 0) || _); [exact SAME|].
  apply tget_some in Eq. destruct Eq as [_ Hn].
  eapply okp_bind; [apply cancel_question_ok; eauto|].
  intros [s1 o] [L1 P1]. cbn [okp fst] in *. apply hpost_live; [exact L1|lia].
Qed.

Lemma app_release_ok : forall h s, live s -> okp (app_release cfg_fixed h s) (hpost 0 s).
Proof.
  intros h s L. unfold app_release.
  assert (SAME : forall s', core_of s' = core_of s -> okp (Ok (s', [], false)) (hpost 0 s)).
  { intros s' C. cbn [okp]. apply hpost_live; [eapply live_core; eauto|]. rewrite (pot_core _ _ C). lia. }
  destruct (hget h s) as [qid|x|]; [| |apply SAME; reflexivity].
  - set (s0 := set_handle h HGone s).
    assert (L0 : live s0) by (eapply live_core; [exact L|reflexivity]).
    destruct (s_shut s0); [apply SAME; reflexivity|].
    destruct (tget qid (s_qs s0)) as [q|] eqn:Eq; [|apply SAME; reflexivity].
    destruct (q_fin q); [apply SAME; reflexivity|].
    apply tget_some in Eq. destruct Eq as [_ Hn].
    eapply okp_bind; [apply cancel_question_ok; eauto|].
    intros [s1 o] [L1 P1]. cbn [okp fst] in *. apply hpost_live; [exact L1|].
    change (pot s0) with (pot s) in P1. lia.
  - eapply okp_bind with (Q1 := fun p => core_of (fst p) = core_of (set_handle h HGone s)); [apply release_cap_okc|].
    intros [s1 o] C. cbn [okp fst] in *.
    apply hpost_live; [eapply live_core; [exact L|exact C]|]. rewrite (pot_core _ _ C). change (pot (set_handle h HGone s)) with (pot s). lia.
Qed.

Lemma find_running_some : forall k l id a, find_running k l = Some (id, a) -> (exists j, a_st a = ARunning j) /\ In (id, a) l.
Proof.
  induction l as [|[id0 a0] l IH]; intros id a H; simpl in H; [discriminate|].
  destruct (a_st a0) eqn:E; try (destruct (IH _ _ H) as [H1 H2]; split; [exact H1|right; exact H2]).
  destruct (a_deliv a0 =? k); [|destruct (IH _ _ H) as [H1 H2]; split; [exact H1|right; exact H2]].
  inversion H; subst. split; [eauto|left; reflexivity].
Qed.

Fixpoint go_res (fs : list rfield) (n : Z) : list pfield * list (option Z) :=
  match fs with
  | [] => ([], [])
  | FNull :: r => let '(p, t) := go_res r n in (PNull :: p, t)
  | FOther :: r => let '(p, t) := go_res r n in (POther :: p, t)
  | FLocal j :: r => let '(p, t) := go_res r (n + 1) in (PCap n :: p, Some j :: t)
  end.
Lemma results_of_eq : forall fs, results_of fs = let '(p, t) := go_res fs 0 in (KStruct p, t).
Proof. reflexivity. Qed.
Lemma go_res_length : forall fs n, (length (snd (go_res fs n)) <= length fs)%nat.
Proof.
  induction fs as [|f fs IH]; intros n; simpl; [lia|].
  destruct f.
  - specialize (IH n). destruct (go_res fs n). simpl in *. lia.
  - specialize (IH (n + 1)). destruct (go_res fs (n + 1)). simpl in *. lia.
  - specialize (IH n). destruct (go_res fs n). simpl in *. lia.
Qed.
Lemma results_of_length : forall fs, (length (snd (results_of fs)) <= length fs)%nat.
Proof.
  intros fs. rewrite results_of_eq. pose proof (go_res_length fs 0) as H. destruct (go_res fs 0). simpl in *. exact H.
Qed.

Lemma core_addrefs_local : forall l s, core_of (addrefs_local l s) = core_of s.
Proof. induction l as [|[j|] l IH]; intros s; simpl; auto. rewrite IH. reflexivity. Qed.

Lemma app_return_ok : forall k r s, live s -> pot s + ev_work (AReturn k r) < LIM ->
  okp (app_return cfg_fixed k r s) (hpost (ev_work (AReturn k r)) s).
Proof.
  intros k r s L Hb. unfold app_return.
  destruct (find_running k (s_ans s)) as [[id a]|] eqn:Ef.
  2:{ destruct (aget k (s_lcalls s)); cbn [okp]; apply hpost_live.
      - eapply live_core; [exact L|reflexivity].
      - unfold pot; simpl. pose proof (called_total_nonneg (s_qs s)). destruct r; simpl; lia.
      - exact L.
      - destruct r; simpl; lia. }
  apply find_running_some in Ef. destruct Ef as [[j Hj] Hin].
  eapply okp_bind with (Q1 := fun p => core_of (fst p) = core_of s); [apply release_caps_okc|].
  intros [s1 o1] C1. cbn [fst] in C1.
  assert (L1 : live s1) by (eapply live_core; eauto).
  set (s1' := set_ans (aput id (set_a_args [] a) (s_ans s1)) s1).
  assert (L1' : live s1').
  { apply live_set_ans; [exact L1|]. apply ans_ok_aput; [apply (ans_of_live _ L1)|]. exact (ans_of_live _ L _ _ Hin). }
  assert (G1 : good 0 s s1').
  { split; [exact L1'|]. simpl. rewrite (allocs_core _ _ C1). split; [lia|].
    change (s_qs s1) with (k_qs (core_of s1)). rewrite C1. reflexivity. }
  pose proof (pot_allocs s) as Hpa.
  destruct r as [fs| |].
  - pose proof (results_of_length fs) as Hlen. destruct (results_of fs) as [kc rct]. simpl snd in Hlen.
    set (s2 := addrefs_local rct s1').
    assert (G2 : good 0 s s2) by (eapply good_core; [exact G1|apply core_addrefs_local]).
    eapply okp_bind; [apply drain_ok; apply G2|].
    intros [[s3 o3] b3] [G3 E3].
    assert (G03 : good 0 s s3) by exact (good_trans0 _ _ _ G2 G3).
    eapply okp_bind; [apply send_return_ok; [apply G03|]|].
    { destruct G03 as [_ [A _]]. simpl ev_work in Hb. lia. }
    intros [[s4 o4] b4] [G4 E4]. cbn [okp].
    apply hpost_good. eapply good_mono; [eapply good_trans; [exact G03|exact G4]|]. simpl ev_work. lia.
  - eapply okp_bind; [apply drain_ok; apply G1|].
    intros [[s3 o3] b3] [G3 E3].
    assert (G03 : good 0 s s3) by exact (good_trans0 _ _ _ G1 G3).
    eapply okp_bind; [apply send_return_ok; [apply G03|]|].
    { destruct G03 as [_ [A _]]. simpl. simpl ev_work in Hb. lia. }
    intros [[s4 o4] b4] [G4 E4]. cbn [okp].
    apply hpost_good. eapply good_mono; [eapply good_trans; [exact G03|exact G4]|]. simpl. lia.
  - eapply okp_bind; [apply reject_all_ok; apply G1|].
    intros [[s3 o3] b3] [G3 E3].
    assert (G03 : good 0 s s3) by exact (good_trans0 _ _ _ G1 G3).
    eapply okp_bind; [apply send_exception_ok; apply G03|].
    intros [[s4 o4] b4] [G4 E4]. cbn [okp].
    apply hpost_good. simpl ev_work. exact (good_trans0 _ _ _ G03 G4).
Qed.

(* ------------------------------------------------------------------ the step *)
Lemma hpost_mono : forall w1 w2 s r, hpost w1 s r -> w1 <= w2 -> hpost w2 s r.
Proof. intros w1 w2 s [[s1 o] ab] [H1 H2] Hw. split; auto. intros E. destruct (H2 E). split; auto. lia. Qed.

Lemma ev_work_nonneg : forall e, 0 <= ev_work e.
Proof. intros e. destruct e; unfold ev_work; try lia. destruct r; lia. Qed.

Lemma handler_live : forall e s, live s -> pot s + ev_work e < LIM -> env_ok s e = true ->
  okp (handler cfg_fixed e s) (hpost (ev_work e) s).
Proof.
  intros e s L Hb Henv. pose proof (ev_work_nonneg e) as Hw.
  assert (TRIV : forall o, okp (Ok (s, o, false)) (hpost (ev_work e) s)).
  { intros o. cbn [okp]. apply hpost_live; [exact L|lia]. }
  destruct e; simpl handler; try apply TRIV.
  - apply handle_bootstrap_ok; auto.
  - eapply okp_weaken; [apply handle_call_ok; auto|]. intros r H. eapply hpost_mono; eauto.
  - eapply okp_weaken; [apply handle_return_ok; auto; unfold ev_work in Hb; lia|]. intros r0 H. eapply hpost_mono; eauto.
  - eapply okp_weaken; [apply handle_finish_ok; auto|]. intros r H. eapply hpost_mono; eauto.
  - eapply okp_weaken; [apply handle_release_ok; auto|]. intros r H. eapply hpost_mono; eauto.
  - eapply okp_weaken; [apply handle_disembargo_ok; auto|]. intros r H. eapply hpost_mono; eauto.
  - apply app_bootstrap_ok; auto.
  - unfold ev_work in *. apply app_call_ok; auto; lia.
  - unfold ev_work in *. apply app_pipe_ok; auto; lia.
  - apply app_return_ok; auto.
  - eapply okp_weaken; [apply app_release_ok; auto|]. intros r H. eapply hpost_mono; eauto.
  - eapply okp_weaken; [apply app_cancel_ok; auto|]. intros r H. eapply hpost_mono; eauto.
  - apply app_hold_ok; auto.
  - eapply okp_weaken; [apply app_unhold_ok; auto|]. intros r H. eapply hpost_mono; eauto.
Qed.

Definition shut_ok (s : state) : Prop := s_shut s = true /\ s_ans s = [].

Lemma shut_core : forall s s', shut_ok s -> core_of s' = core_of s -> shut_ok s'.
Proof.
  intros s s' [H1 H2] C. split.
  - change (s_shut s') with (k_shut (core_of s')). rewrite C. exact H1.
  - change (s_ans s') with (k_ans (core_of s')). rewrite C. exact H2.
Qed.

Lemma handler_shut : forall e s, shut_ok s -> is_peer e = false ->
  okp (handler cfg_fixed e s) (fun r => shut_ok (fst (fst r))).
Proof.
  intros e s S Hp. pose proof S as [Hs Ha].
  assert (SAME : forall s' o ab, core_of s' = core_of s -> okp (Ok (s', o, ab)) (fun r : state * list output * bool => shut_ok (fst (fst r)))).
  { intros s' o ab C. cbn [okp fst]. eapply shut_core; eauto. }
  Ltac same S := first [ match goal with H : forall s' o ab, _ -> okp _ _ |- _ => apply H; reflexivity end
                       | simpl; eapply shut_core; [exact S|reflexivity] ].
  destruct e; simpl in Hp; try discriminate; simpl handler.
  - (* ABootstrap *) unfold app_bootstrap. rewrite Hs. same S.
  - (* ACall *) unfold app_call. destruct (hget h s) as [q0|x|].
    + unfold app_pipe, next_call. cbn [s_shut set_ncall]. rewrite Hs. same S.
    + destruct x; unfold next_call; try same S. cbn [s_shut set_ncall]. rewrite Hs. same S.
    + unfold next_call. same S.
  - unfold app_pipe, next_call. cbn [s_shut set_ncall]. rewrite Hs. same S.
  - unfold app_return. rewrite Ha. cbn [find_running]. destruct (aget k (s_lcalls s)); same S.
  - unfold app_release. destruct (hget h s) as [qid|x|]; [| |same S].
    + cbn [s_shut set_handle set_handles]. rewrite Hs. same S.
    + eapply okp_bind with (Q1 := fun p => core_of (fst p) = core_of (set_handle h HGone s)); [apply release_cap_okc|].
      intros [s1 o] C. apply SAME. exact C.
  - unfold app_cancel. rewrite Hs. same S.
  - unfold app_hold, next_call. destruct (hget h _) as [q0|x|]; try same S.
    destruct x; try same S. cbn [s_shut set_ncall]. rewrite Hs. cbn [orb]. same S.
  - unfold app_unhold. destruct (find_held n (s_qs s) 0) as [[qid q]|]; [|same S].
    destruct (q_held q) as [[[i g] cs]|]; [|same S]. rewrite Hs. same S.
  - same S.
Qed.

(* the invariant of a run: W bounds the ids allocated so far (plus those promised) *)
Definition sinv (s : state) (W : Z) : Prop :=
  if s_shut s then s_ans s = [] else live_inv (core_of s) /\ pot s <= W.

Lemma sinv_set_out : forall o s W, sinv s W -> sinv (set_out o s) W.
Proof. intros o s W H. exact H. Qed.

Lemma sinv_shutdown : forall abort s W, exists s' o, do_shutdown cfg_fixed abort s = Ok (s', o) /\ sinv s' W.
Proof.
  intros abort s W. destruct (shutdown_total abort s) as (s' & o & H & T & Hs).
  exists s', o. split; auto. unfold sinv. rewrite Hs. apply T.
Qed.

Lemma step_ok : forall s e W, sinv s W -> W + ev_work e < LIM -> env_ok s e = true ->
  exists s1 o, step cfg_fixed s e = Ok (s1, o) /\ sinv s1 (W + ev_work e).
Proof.
  intros s e W I Hb Henv. unfold step. unfold sinv in I.
  destruct (s_shut s) eqn:Hs.
  - (* shut down *)
    destruct (is_peer e) eqn:Hp; simpl.
    + eexists _, _. split; [reflexivity|]. unfold sinv. simpl. rewrite Hs. exact I.
    + assert (S : shut_ok s) by (split; assumption).
      destruct e; simpl in Hp; try discriminate;
      try (match goal with |- context [handler cfg_fixed ?ev s] =>
             destruct (okp_inv _ _ _ (handler_shut ev s S eq_refl)) as ([[s1 o1] ab] & H1 & [S1 S2]) end;
           rewrite H1; cbn [bind fst] in *; rewrite S1; rewrite andb_false_r; cbn [bind];
           eexists _, _; split; [reflexivity|]; unfold sinv; simpl; rewrite S1; exact S2).
      simpl. eexists _, _. split; [reflexivity|]. unfold sinv. simpl. rewrite Hs. exact I.
  - destruct I as [Li P]. assert (L : live s) by (split; assumption).
    simpl.
    assert (SD : forall abort s0 o0, exists s1 o, (do '(s1, o) <- (do '(s2, o2) <- do_shutdown cfg_fixed abort s0; Ok (s2, o0 ++ o2)); Ok (set_out (rev o ++ s_out s1) s1, o)) = Ok (s1, o) /\ sinv s1 (W + ev_work e)).
    { intros abort s0 o0. destruct (sinv_shutdown abort s0 (W + ev_work e)) as (s' & o' & H & I').
      rewrite H. simpl. eexists _, _. split; [reflexivity|]. apply sinv_set_out. exact I'. }
    assert (SD0 : forall abort, exists s1 o, (do '(s1, o) <- do_shutdown cfg_fixed abort s; Ok (set_out (rev o ++ s_out s1) s1, o)) = Ok (s1, o) /\ sinv s1 (W + ev_work e)).
    { intros abort. destruct (sinv_shutdown abort s (W + ev_work e)) as (s' & o' & H & I').
      rewrite H. simpl. eexists _, _. split; [reflexivity|]. apply sinv_set_out. exact I'. }
    assert (GEN : forall ev, ev = e -> match ev with MAbort | AClose => False | _ => True end ->
              exists s1 o, (do '(s1, o) <- (do '(s1, o1, abort) <- handler cfg_fixed ev s;
                   if abort && negb (s_shut s1) then do '(s2, o2) <- do_shutdown cfg_fixed true s1; Ok (s2, o1 ++ o2) else Ok (s1, o1));
                 Ok (set_out (rev o ++ s_out s1) s1, o)) = Ok (s1, o) /\ sinv s1 (W + ev_work e)).
    { intros ev -> Hne.
      destruct (okp_inv _ _ _ (handler_live e s L ltac:(lia) Henv)) as ([[s1 o1] ab] & H1 & [S1 H2]).
      rewrite H1. cbn [bind]. rewrite S1. simpl negb. rewrite andb_true_r.
      destruct ab.
      - apply SD.
      - simpl. eexists _, _. split; [reflexivity|]. destruct (H2 eq_refl) as [L1 P1].
        apply sinv_set_out. unfold sinv. rewrite S1. split; [apply L1|lia]. }
    destruct e; try (apply (GEN _ eq_refl I)); try apply SD0.
Qed.

Theorem handlers_total_env : forall evs s W, sinv s W -> W + work evs < LIM ->
  exists s', run_env cfg_fixed s evs = Ok s'.
Proof.
  induction evs as [|e evs IH]; intros s W I Hb; simpl.
  - eauto.
  - destruct (env_ok s e) eqn:Henv; [|eauto].
    pose proof (ev_work_nonneg e) as He.
    assert (Hwork : 0 <= work evs) by (clear; induction evs as [|x l IHl]; simpl; [lia|pose proof (ev_work_nonneg x); lia]).
    simpl in Hb.
    destruct (step_ok s e W I ltac:(lia) Henv) as (s1 & o & H1 & I1).
    rewrite H1. simpl. apply (IH s1 (W + ev_work e)); [exact I1|lia].
Qed.

Lemma sinv_init : forall boot, sinv (init boot) 0.
Proof.
  intros boot. unfold sinv. simpl. split; [|unfold pot; simpl; lia].
  unfold live_inv, qgen_ok, gen_ok, ans_ok, exp_ok, slots_free, exp_count; simpl.
  split; [split; [split; [reflexivity|constructor]|intros x []]|].
  split; [split; [reflexivity|constructor]|].
  split; [split; [reflexivity|constructor]|].
  split; [intros id a []|].
  split; [split; [intros x w []|split; [intros x []|intros id; assert (T : @tget expent id [] = None) by (unfold tget, znth; simpl; destruct ((id <? 0) || (0 <=? id)); [reflexivity|destruct (Z.to_nat id); reflexivity]); rewrite T; reflexivity]]|].
  lia.
Qed.

(* C08 handlers_total: from the initial state, no history of peer messages (any field values) and
   application actions (respecting the environment assumption) makes a handler panic or block *)
Theorem handlers_total : forall boot evs, work evs < LIM ->
  exists s', run_env cfg_fixed (init boot) evs = Ok s'.
Proof. intros boot evs H. apply (handlers_total_env evs (init boot) 0); [apply sinv_init|lia]. Qed.
