(* Observers for C06 delivery_order: what a step hands to the local servers and writes as Calls,
   read off the step's output in output order; the calls held behind an embargo, read off the
   ghost-free state component [s_ecalls] in issue order.  Definitions only (no proofs here);
   nothing of Rpc.v is changed.  The history's outbox is the concatenation of the step outputs
   ([run_o] of RpcQids.v: out ++ o), so "earlier in the outbox" = earlier step, or earlier in the
   same step's output. *)
From CV Require Import Rpc.Rpc.
Open Scope Z_scope.

(* deliveries to local servers: (server, tag of the call, delivery number) *)
Definition deliv_of (x : output) : list (Z * Z * Z) :=
  match x with LDeliver j t k => [(j, t, k)] | _ => [] end.
Definition delivs (o : list output) : list (Z * Z * Z) := flat_map deliv_of o.

(* Calls written to the transport: (question id, target) *)
Definition ocall_of (x : output) : list (Z * otarget) :=
  match x with OCall q tg _ => [(q, tg)] | _ => [] end.
Definition ocalls (o : list output) : list (Z * otarget) := flat_map ocall_of o.

(* the local calls blocked behind embargo e, oldest first: (call number, tag) *)
Definition held (e : Z) (l : list (Z * Z * Z)) : list (Z * Z) :=
  map (fun p => (snd (fst p), snd p)) (filter (fun p => fst (fst p) =? e) l).

(* the deliveries of the calls l to server j, numbered from k on, in the order of l *)
Fixpoint number (j k : Z) (l : list (Z * Z)) : list (Z * Z * Z) :=
  match l with
  | [] => []
  | (_, t) :: r => (j, t, k) :: number j (k + 1) r
  end.

(* answer id runs on server j as delivery number k *)
Definition running_as (id j k : Z) (s : state) : Prop :=
  exists a, aget id (s_ans s) = Some a /\ a_st a = ARunning j /\ a_deliv a = k.
(* answer id waits in the answer queue behind answer t (transform x), with tag [tag] *)
Definition queued_as (id t : Z) (x : list Z) (tag : Z) (s : state) : Prop :=
  exists a, aget id (s_ans s) = Some a /\ a_st a = AQueued t x /\ a_tag a = tag.

(* l1 is l with some elements removed (order kept) *)
Inductive sublist {A} : list A -> list A -> Prop :=
| sub_nil : sublist [] []
| sub_skip : forall x l1 l, sublist l1 l -> sublist l1 (x :: l)
| sub_keep : forall x l1 l, sublist l1 l -> sublist (x :: l1) (x :: l).

(* the tag of answer id, if it is in the table *)
Definition tag_of (ans : list (Z * answer)) (id : Z) : option Z :=
  match aget id ans with Some a => Some (a_tag a) | None => None end.

(* what one incoming call [id] can do to the deliveries in a handler from s to s1 with output o *)
Definition others_same (id : Z) (s s1 : state) : Prop :=
  forall b, b <> id -> aget b (s_ans s1) = aget b (s_ans s).
(* delivered at once: the ONLY delivery of the handler, it is the next delivery, the answer runs *)
Definition delivered (id j tag : Z) (s s1 : state) (o : list output) : Prop :=
  delivs o = [(j, tag, s_ndeliv s)] /\ s_ndeliv s1 = s_ndeliv s + 1 /\ s_queue s1 = zremove id (s_queue s) /\
  running_as id j (s_ndeliv s) s1 /\ others_same id s s1.
(* answered without delivery (rejected / aborted): nothing is delivered, the call is not left waiting *)
Definition settled (id : Z) (s s1 : state) (o : list output) : Prop :=
  delivs o = [] /\ s_ndeliv s1 = s_ndeliv s /\ s_queue s1 = zremove id (s_queue s) /\
  (forall a1, aget id (s_ans s1) = Some a1 -> a_st a1 = AIdle) /\ others_same id s s1.
(* queued: nothing is delivered, the call is the LAST entry of the answer queue *)
Definition enqueued (id t : Z) (x : list Z) (tag : Z) (s s1 : state) (o : list output) : Prop :=
  delivs o = [] /\ s_ndeliv s1 = s_ndeliv s /\ s_queue s1 = s_queue s ++ [id] /\ queued_as id t x tag s1 /\
  (exists ta, aget t (s_ans s) = Some ta /\ a_ready ta = false /\ a_fin ta = false) /\ others_same id s s1.
(* answered / ignored without the call ever being delivered or queued (id in use, unknown target, ...) *)
Definition dropped (id : Z) (s s1 : state) (o : list output) : Prop :=
  delivs o = [] /\ s_ndeliv s1 = s_ndeliv s /\ (s_queue s1 = s_queue s \/ s_queue s1 = zremove id (s_queue s)) /\
  (forall a1, aget id (s_ans s1) = Some a1 -> a_st a1 = AIdle \/ aget id (s_ans s) = Some a1) /\ others_same id s s1.
(* a promisedAnswer target whose answer has its results (the Return was made); importedCap: nothing to say *)
Definition tgt_returned (tg : target) (s : state) : Prop :=
  match parse_target tg with
  | Some (PAns t _) => exists ta, aget t (s_ans s) = Some ta /\ a_ready ta = true
  | _ => True
  end.

Fixpoint seqZ (k : Z) (n : nat) : list Z := match n with O => [] | S m => k :: seqZ (k + 1) m end.
Definition tagz (ans : list (Z * answer)) (id : Z) : Z := match aget id ans with Some a => a_tag a | None => 0 end.
