(* Proofs about the RPC machine, part 7: history-level C06, second half of question_ids:
   every local call resolves exactly once.  A call number n handed out by [next_call] is, at every
   point of every history, EITHER resolved exactly once in the outbox (one [LAppRes n _]) and held
   nowhere, OR not resolved and held at exactly one place: an unfinished question, a running direct
   delivery to a local server, or a call blocked behind an embargo.  Numbers not handed out yet
   have no resolution.  The invariant goes through every handler and through shutdown. *)
From CV Require Import Rpc.Rpc Rpc.RpcSpec Rpc.RpcProofs Rpc.RpcInv Rpc.RpcResp Rpc.RpcLocal Rpc.RpcHist Rpc.RpcQids.
From Coq Require Import ZifyBool.
Open Scope Z_scope.

(* ---------------------------------------------------------------- counting *)
Definition is_res (n : Z) (o : output) : bool := match o with LAppRes m _ => m =? n | _ => false end.
Definition hq (n : Z) (oq : option question) : nat :=
  match oq with Some q => if negb (q_fin q) && (q_call q =? n) then 1%nat else 0%nat | None => 0%nat end.
Definition HQ (n : Z) (t : tbl question) : nat := list_sum (map (hq n) t).
Definition HL (n : Z) (l : list (Z * Z)) : nat := length (filter (fun p => snd p =? n) l).
Definition HE (n : Z) (l : list (Z * Z * Z)) : nat := length (filter (fun p => snd (fst p) =? n) l).
Definition hold (n : Z) (x : aux) : nat := (HQ n (x_qs x) + HL n (x_lcalls x) + HE n (x_ecalls x))%nat.

Definition K1 (x : aux) (out : list output) : Prop :=
  forall n, 0 <= n -> (cnt (is_res n) out + hold n x)%nat = if n <? x_ncall x then 1%nat else 0%nat.
Definition K2 (x : aux) : Prop :=
  NoDup (map fst (x_lcalls x)) /\ (forall k, In k (map fst (x_lcalls x)) -> k < x_ndeliv x).
Definition K3 (x : aux) : Prop := 0 <= x_ncall x.
Definition K4 (x : aux) : Prop := forall id q, tget id (x_qs x) = Some q -> q_boot q <> None -> q_call q < 0.
Definition KI (x : aux) (out : list output) : Prop := K1 x out /\ K2 x /\ K3 x /\ K4 x.

(* outputs without resolutions *)
Definition rq (o : list output) : Prop := forall n, cnt (is_res n) o = 0%nat.
Lemma res_qkind : forall n x, is_res n x = true -> qkind x = true.
Proof. intros n x. destruct x; simpl; auto; discriminate. Qed.
Lemma rq_qquiet : forall o, qquiet o -> rq o.
Proof. intros o Q n. apply (cnt_qquiet _ _ (res_qkind n) Q). Qed.
Lemma rq_app : forall a b, rq a -> rq b -> rq (a ++ b).
Proof. intros a b Ha Hb n. rewrite cnt_app, Ha, Hb. reflexivity. Qed.
Lemma rq_cons : forall x o, (forall n, is_res n x = false) -> rq o -> rq (x :: o).
Proof. intros x o Hx Ho n. rewrite cnt_cons, Hx, Ho. reflexivity. Qed.
Lemma rq_nil : rq []. Proof. intros n. reflexivity. Qed.
Ltac rqt := repeat (first [apply rq_nil | apply rq_cons; [intros ?; reflexivity|] | apply rq_app]).

(* tables *)
Lemma list_sum_cons : forall a l, list_sum (a :: l) = (a + list_sum l)%nat. Proof. reflexivity. Qed.
Lemma HQ_app : forall n t v, HQ n (t ++ [v]) = (HQ n t + hq n v)%nat.
Proof. intros. unfold HQ. rewrite map_app, list_sum_app. cbn [map]. rewrite list_sum_cons. cbn [list_sum fold_right]. lia. Qed.

Lemma HQ_replace : forall n t k v old, nth_error t k = Some old ->
  (HQ n (replace_nth k v t) + hq n old = HQ n t + hq n v)%nat.
Proof.
  intros n t. unfold HQ. induction t as [|a t IH]; intros k v old H; destruct k; simpl in H; try discriminate;
    cbn [replace_nth map]; rewrite !list_sum_cons.
  - inversion H; subst. lia.
  - specialize (IH _ v _ H). lia.
Qed.

Lemma HQ_tclear_some : forall n t id q, tget id t = Some q -> (HQ n (tclear id t) + hq n (Some q) = HQ n t)%nat.
Proof.
  intros n t id q H. apply tget_some in H. destruct H as [Hr Hn]. unfold tclear.
  replace ((0 <=? id) && (id <? Z.of_nat (length t))) with true by lia.
  pose proof (HQ_replace n t _ None _ Hn) as R. change (hq n None) with 0%nat in R. lia.
Qed.

Lemma HQ_replace_some : forall n t id q q', tget id t = Some q ->
  (HQ n (replace_nth (Z.to_nat id) (Some q') t) + hq n (Some q) = HQ n t + hq n (Some q'))%nat.
Proof. intros n t id q q' H. apply tget_some in H. destruct H as [_ Hn]. apply (HQ_replace n t _ (Some q') _ Hn). Qed.

Lemma HQ_nil : forall n, HQ n [] = 0%nat. Proof. reflexivity. Qed.

(* a question allocated on a free slot *)
Lemma new_question_hq : forall q s s1 id n, new_question q s = Ok (s1, id) -> live s ->
  HQ n (s_qs s1) = (HQ n (s_qs s) + hq n (Some q))%nat.
Proof.
  intros q s s1 id n H L. pose proof L as [Hs ([Gq Sq] & _)]. simpl in Gq, Sq. unfold new_question in H.
  destruct (gen_next (s_qgen s)) as [[i g]| |] eqn:E1; cbn [bind] in H; try discriminate.
  destruct (tput i q (s_qs s)) as [t| |] eqn:E2; cbn [bind] in H; try discriminate. inversion H; subst.
  unfold gen_next in E1. destruct (list_min (g_free (s_qgen s))) as [m|] eqn:Em.
  - inversion E1; subst. apply list_min_in in Em. pose proof (Sq _ Em) as Hn.
    destruct Gq as [Gi Gf]. rewrite Forall_forall in Gf. pose proof (Gf _ Em) as Hr.
    unfold tput in E2. destruct (id =? Z.of_nat (length (s_qs s))) eqn:E3; [lia|].
    replace ((0 <=? id) && (id <? Z.of_nat (length (s_qs s)))) with true in E2 by lia. inversion E2; subst. cbn [s_qs set_allocs set_qgen set_qs].
    assert (NE : nth_error (s_qs s) (Z.to_nat id) = Some None).
    { unfold tget, znth in Hn. replace ((id <? 0) || (Z.of_nat (length (s_qs s)) <=? id)) with false in Hn by lia.
      destruct (nth_error (s_qs s) (Z.to_nat id)) as [[x|]|] eqn:E; try discriminate; [reflexivity|].
      apply nth_error_None in E. lia. }
    pose proof (HQ_replace n _ _ (Some q) _ NE) as R. change (hq n None) with 0%nat in R. cbn [s_qs set_allocs set_qgen set_qs]. lia.
  - destruct (g_i (s_qgen s) =? 4294967295); [discriminate|]. inversion E1; subst.
    destruct Gq as [Gi Gf]. unfold tput in E2. rewrite Gi, Z.eqb_refl in E2. inversion E2; subst. cbn [s_qs set_allocs set_qgen set_qs]. apply HQ_app.
Qed.

(* association lists of running direct deliveries *)
Lemma HL_adel : forall n k l v, NoDup (map fst l) -> aget k l = Some v ->
  (HL n (adel k l) + (if (v =? n)%Z then 1 else 0) = HL n l)%nat.
Proof.
  intros n k l v. unfold HL. induction l as [|[k' v'] l IH]; simpl; intros ND H; [discriminate|].
  inversion ND as [|? ? Hnin ND']; subst. destruct (k' =? k) eqn:E.
  - inversion H; subst v'. assert (k' = k) by lia. subst k'.
    assert (A : adel k l = l).
    { clear - Hnin. induction l as [|[a b] l IH]; simpl in *; [reflexivity|].
      destruct (a =? k) eqn:E; [exfalso; apply Hnin; left; lia|]. f_equal. apply IH. tauto. }
    rewrite A. destruct (v =? n); simpl; lia.
  - simpl. specialize (IH ND' H). destruct (v' =? n); simpl; lia.
Qed.

Lemma adel_K2 : forall k (l : list (Z * Z)) b, NoDup (map fst l) /\ (forall x, In x (map fst l) -> x < b) ->
  NoDup (map fst (adel k l)) /\ (forall x, In x (map fst (adel k l)) -> x < b).
Proof.
  intros k l b [ND Hb]. split; [apply adel_nodup; exact ND|]. intros x Hx. apply adel_keys in Hx. apply Hb. tauto.
Qed.

(* ---------------------------------------------------------------- generic preservation *)
Lemma KI_same : forall x x1 out o, KI x out -> x_qs x1 = x_qs x -> x_lcalls x1 = x_lcalls x -> x_ecalls x1 = x_ecalls x ->
  x_ncall x1 = x_ncall x -> x_ndeliv x <= x_ndeliv x1 -> rq o -> KI x1 (out ++ o).
Proof.
  intros x x1 out o (A & (B1 & B2) & C & D) Eq El Ee En Ed R. split; [|split; [|split]].
  - intros n Hn. rewrite cnt_app, R. unfold hold. rewrite Eq, El, Ee, En. specialize (A n Hn). unfold hold in A. lia.
  - unfold K2. rewrite El. split; [exact B1|]. intros k Hk. specialize (B2 k Hk). lia.
  - unfold K3. rewrite En. exact C.
  - unfold K4. rewrite Eq. exact D.
Qed.

Lemma KI_qinert : forall s o s1 out, KI (aux_of s) out -> qinert s o s1 -> KI (aux_of s1) (out ++ o).
Proof.
  intros s o s1 out H [(F1 & F2 & F3 & F4 & F5 & F6 & F7) Q].
  eapply KI_same; [exact H|exact F1|exact F3|exact F4|exact F5|exact F7|apply rq_qquiet; exact Q].
Qed.

Lemma KI_aux : forall s s1 out o, KI (aux_of s) out -> aux_of s1 = aux_of s -> rq o -> KI (aux_of s1) (out ++ o).
Proof. intros s s1 out o H E R. rewrite E. eapply KI_same; [exact H|reflexivity..|lia|exact R]. Qed.

Lemma K1_step : forall x x1 out o, K1 x out ->
  (forall n, 0 <= n -> (cnt (is_res n) o + hold n x1 + (if (n <? x_ncall x)%Z then 1 else 0) =
                        hold n x + (if (n <? x_ncall x1)%Z then 1 else 0))%nat) -> K1 x1 (out ++ o).
Proof.
  intros x x1 out o K D n Hn. rewrite cnt_app. specialize (K n Hn). specialize (D n Hn).
  destruct (n <? x_ncall x), (n <? x_ncall x1); lia.
Qed.

Lemma K4_replace : forall t qid q q', (forall id q, tget id t = Some q -> q_boot q <> None -> q_call q < 0) ->
  tget qid t = Some q -> (q_boot q' <> None -> q_call q' < 0) ->
  forall id q0, tget id (replace_nth (Z.to_nat qid) (Some q') t) = Some q0 -> q_boot q0 <> None -> q_call q0 < 0.
Proof.
  intros t qid q q' K Eq Hq' id q0 H Hb. pose proof (tget_some _ _ _ _ Eq) as [Hr Hn].
  rewrite tget_replace in H by lia. replace (Z.of_nat (Z.to_nat qid)) with qid in H by lia.
  destruct (id =? qid); [inversion H; subst; auto|eapply K; eauto].
Qed.

Lemma is_res_cons : forall n m c o, cnt (is_res n) (LAppRes m c :: o) = ((if (m =? n)%Z then 1 else 0) + cnt (is_res n) o)%nat.
Proof. intros. rewrite cnt_cons. reflexivity. Qed.

(* ---------------------------------------------------------------- a direct local call returns *)
Lemma app_return_local_KI : forall k n c s out, KI (aux_of s) out -> aget k (s_lcalls s) = Some n ->
  KI (aux_of (set_lcalls (adel k (s_lcalls s)) s)) (out ++ [LAppRes n c]).
Proof.
  intros k n c s out (A & B & C & D) E. split; [|split; [|split]].
  - apply (K1_step (aux_of s)); [exact A|]. intros m Hm. unfold hold. cbn [aux_of x_qs x_lcalls x_ecalls x_ncall].
    change (s_qs (set_lcalls _ s)) with (s_qs s). change (s_ecalls (set_lcalls _ s)) with (s_ecalls s).
    change (s_ncall (set_lcalls _ s)) with (s_ncall s). change (s_lcalls (set_lcalls ?v s)) with v.
    pose proof (HL_adel m k _ _ (proj1 B) E) as R. rewrite is_res_cons. change (cnt (is_res m) []) with 0%nat.
    cbn [aux_of x_lcalls] in R. destruct (n =? m), (m <? s_ncall s); lia.
  - apply (adel_K2 k (s_lcalls s) (s_ndeliv s) B).
  - exact C.
  - exact D.
Qed.

(* ---------------------------------------------------------------- cancel *)
Lemma cancel_KI : forall x x1 out qid q o3, KI x out -> tget qid (x_qs x) = Some q -> q_fin q = false ->
  x_qs x1 = replace_nth (Z.to_nat qid) (Some (mkQ (q_boot q) (q_call q) true (q_called q) (q_prefs q) (q_held q))) (x_qs x) ->
  x_lcalls x1 = x_lcalls x -> x_ecalls x1 = x_ecalls x -> x_ncall x1 = x_ncall x -> x_ndeliv x1 = x_ndeliv x ->
  (forall n, 0 <= n -> cnt (is_res n) o3 = if q_call q =? n then 1%nat else 0%nat) -> KI x1 (out ++ OFinish qid true :: o3).
Proof.
  intros x x1 out qid q o3 (A & B & C & D) Eq Hf Eqs El Ee En Ed R. split; [|split; [|split]].
  - apply (K1_step x); [exact A|]. intros n Hn. rewrite cnt_cons. change (is_res n (OFinish qid true)) with false. cbv iota.
    rewrite (R n Hn). unfold hold. rewrite Eqs, El, Ee, En.
    pose proof (HQ_replace_some n _ _ _ (mkQ (q_boot q) (q_call q) true (q_called q) (q_prefs q) (q_held q)) Eq) as H.
    unfold hq in H. cbn [q_fin q_call negb andb] in H. rewrite Hf in H. cbn [negb andb] in H.
    destruct (q_call q =? n); lia.
  - unfold K2. rewrite El, Ed. exact B.
  - unfold K3. rewrite En. exact C.
  - unfold K4. rewrite Eqs. eapply K4_replace; [exact D|exact Eq|]. cbn [q_boot q_call]. intros Hb. eapply D; eauto.
Qed.

Lemma app_cancel_KI : forall qid s s0 o0 ab out, app_cancel cfg_fixed qid s = Ok (s0, o0, ab) -> KI (aux_of s) out -> KI (aux_of s0) (out ++ o0).
Proof.
  intros qid s s0 o0 ab out H HK. unfold app_cancel in H.
  assert (SIMPLE : Ok (s, @nil output, false) = Ok (s0, o0, ab) -> KI (aux_of s0) (out ++ o0)).
  { intros E. inversion E; subst. rewrite app_nil_r. exact HK. }
  destruct (s_shut s); [apply (SIMPLE H)|].
  destruct (tget qid (s_qs s)) as [q|] eqn:Eq; [|apply (SIMPLE H)].
  destruct (q_fin q) eqn:Ef; [apply (SIMPLE H)|]. destruct (q_call q <? 0) eqn:Ec; [apply (SIMPLE H)|].
  destruct (q_held q) eqn:Eh; [apply (SIMPLE H)|]. simpl in H. unfold cancel_question in H. simpl in H. inversion H; subst.
  eapply (cancel_KI (aux_of s) _ out qid q [LAppRes (q_call q) 2] HK Eq Ef); try reflexivity.
  intros n Hn. rewrite is_res_cons. change (cnt (is_res n) []) with 0%nat. destruct (q_call q =? n); lia.
Qed.

(* ---------------------------------------------------------------- release of a handle *)
Lemma app_release_KI : forall h s s0 o0 ab out, app_release cfg_fixed h s = Ok (s0, o0, ab) ->
  (s_shut s = false -> QI (aux_of s) out) -> KI (aux_of s) out -> KI (aux_of s0) (out ++ o0).
Proof.
  intros h s s0 o0 ab out H HQ HK. unfold app_release in H.
  destruct (hget h s) as [qid|x|] eqn:Eh; [| |inversion H; subst; rewrite app_nil_r; exact HK].
  - pose proof (hget_znth _ _ _ Eh ltac:(discriminate)) as Hz.
    set (sa := set_handle h HGone s) in *.
    assert (SIMPLE : Ok (sa, @nil output, false) = Ok (s0, o0, ab) -> KI (aux_of s0) (out ++ o0)).
    { intros E. inversion E; subst. eapply KI_same; [exact HK|reflexivity..|simpl; lia|rqt]. }
    destruct (s_shut sa) eqn:Es; [apply (SIMPLE H)|].
    destruct (tget qid (s_qs sa)) as [q|] eqn:Eq; [|apply (SIMPLE H)].
    destruct (q_fin q) eqn:Ef; [apply (SIMPLE H)|].
    unfold cancel_question in H. simpl in H. inversion H; subst.
    destruct (HQ Es) as (_ & _ & B). destruct (B h qid Hz) as (q0 & E0 & _ & _ & Rc & _). simpl in E0.
    change (s_qs sa) with (s_qs s) in Eq. rewrite Eq in E0. inversion E0; subst q0.
    replace [OFinish qid true] with (OFinish qid true :: []) by reflexivity.
    eapply (cancel_KI (aux_of s) _ out qid q [] HK Eq Ef); try reflexivity.
    intros n Hn. replace (q_call q =? n) with false by lia. reflexivity.
  - destruct (release_cap cfg_fixed x _) as [[s1 o]| |] eqn:E; cbn [bind] in H; try discriminate. inversion H; subst.
    pose proof (aux_release_cap _ _ _ _ _ E) as A.
    eapply KI_same; [exact HK|rewrite A; reflexivity..|rewrite A; simpl; lia|apply rq_qquiet; eapply qq_release_cap; eauto].
Qed.

(* ---------------------------------------------------------------- new calls *)
Lemma KI_next_res : forall s out c, KI (aux_of s) out ->
  KI (aux_of (set_ncall (s_ncall s + 1) s)) (out ++ [LAppRes (s_ncall s) c]).
Proof.
  intros s out c (A & B & C & D). split; [|split; [|split]]; [|exact B|unfold K3 in *; simpl in *; lia|exact D].
  apply (K1_step (aux_of s)); [exact A|]. intros m Hm. rewrite is_res_cons. change (cnt (is_res m) []) with 0%nat.
  change (hold m (aux_of (set_ncall (s_ncall s + 1) s))) with (hold m (aux_of s)).
  cbn [aux_of x_ncall]. change (s_ncall (set_ncall (s_ncall s + 1) s)) with (s_ncall s + 1).
  unfold K3 in C. simpl in C.
  destruct (s_ncall s =? m) eqn:E1, (m <? s_ncall s) eqn:E2, (m <? s_ncall s + 1) eqn:E3; lia.
Qed.

(* the new call number gets exactly one holder *)
Lemma KI_next_hold : forall s sx out o, KI (aux_of s) out -> s_ncall sx = s_ncall s + 1 -> rq o ->
  K2 (aux_of sx) -> K4 (aux_of sx) ->
  (forall m, hold m (aux_of sx) = (hold m (aux_of s) + if (s_ncall s =? m)%Z then 1 else 0)%nat) -> KI (aux_of sx) (out ++ o).
Proof.
  intros s sx out o (A & B & C & D) En R B' D' Hh. split; [|split; [|split]]; [|exact B'|unfold K3 in *; simpl in *; lia|exact D'].
  apply (K1_step (aux_of s)); [exact A|]. intros m Hm. rewrite (R m), (Hh m). cbn [aux_of x_ncall]. rewrite En.
  unfold K3 in C. simpl in C.
  destruct (s_ncall s =? m) eqn:E1, (m <? s_ncall s) eqn:E2, (m <? s_ncall s + 1) eqn:E3; lia.
Qed.

Lemma HQ_replace_same : forall n t id q q', tget id t = Some q -> hq n (Some q') = hq n (Some q) ->
  HQ n (replace_nth (Z.to_nat id) (Some q') t) = HQ n t.
Proof. intros n t id q q' H E. pose proof (HQ_replace_some n t id q q' H). lia. Qed.

Lemma send_call_K : forall s1 n caps (mk : Z -> list desc -> output) s0 o0 ab, live s1 ->
  (do '(s2, id) <- new_question (mkQ None n false [] [] None) s1;
   do '(s3, ds, refs) <- fill_caps cfg_fixed (map (acap_cap s2) caps) s2;
   let s4 := if fx19 cfg_fixed then set_qs (replace_nth (Z.to_nat id) (Some (mkQ None n false [] refs None)) (s_qs s3)) s3 else s3 in
   Ok (s4, [mk id ds], false)) = Ok (s0, o0, ab) ->
  (forall m, HQ m (s_qs s0) = (HQ m (s_qs s1) + if (n =? m)%Z then 1 else 0)%nat) /\
  s_lcalls s0 = s_lcalls s1 /\ s_ecalls s0 = s_ecalls s1 /\ s_ncall s0 = s_ncall s1 /\ s_ndeliv s0 = s_ndeliv s1 /\
  (K4 (aux_of s1) -> K4 (aux_of s0)) /\ exists id ds, o0 = [mk id ds].
Proof.
  intros s1 n caps mk s0 o0 ab L1 H.
  destruct (new_question _ s1) as [[s2 id]| |] eqn:E; cbn [bind] in H; try discriminate.
  destruct (new_question_q _ _ _ _ E L1) as (Hn & TG & Hh1 & Hl & He & Hc & Hd & _).
  destruct (fill_caps cfg_fixed _ s2) as [[[s3 ds] refs]| |] eqn:E3; cbn [bind] in H; try discriminate.
  apply aux_fill_caps in E3. cbn [fx19 cfg_fixed] in H. inversion H; subst.
  assert (Q3 : s_qs s3 = s_qs s2) by (change (x_qs (aux_of s3) = x_qs (aux_of s2)); rewrite E3; reflexivity).
  assert (T2 : tget id (s_qs s2) = Some (mkQ None n false [] [] None)) by (rewrite TG, Z.eqb_refl; reflexivity).
  split; [|split; [|split; [|split; [|split; [|split]]]]].
  - intros m. cbn [s_qs set_qs]. rewrite Q3.
    rewrite (HQ_replace_same m _ id _ (mkQ None n false [] refs None) T2) by reflexivity.
    rewrite (new_question_hq _ _ _ _ m E L1). reflexivity.
  - change (x_lcalls (aux_of s3) = s_lcalls s1). rewrite E3. exact Hl.
  - change (x_ecalls (aux_of s3) = s_ecalls s1). rewrite E3. exact He.
  - change (x_ncall (aux_of s3) = s_ncall s1). rewrite E3. exact Hc.
  - change (x_ndeliv (aux_of s3) = s_ndeliv s1). rewrite E3. exact Hd.
  - intros D. unfold K4. cbn [aux_of x_qs s_qs set_qs]. rewrite Q3.
    eapply K4_replace; [|exact T2|cbn [q_boot]; congruence].
    intros j q Hq Hb. rewrite TG in Hq. destruct (j =? id); [inversion Hq; subst; cbn [q_boot] in Hb; congruence|eapply D; eauto].
  - eauto.
Qed.

Lemma K2_same : forall x x1, K2 x -> x_lcalls x1 = x_lcalls x -> x_ndeliv x <= x_ndeliv x1 -> K2 x1.
Proof. intros x x1 [A B] E L. unfold K2. rewrite E. split; [exact A|]. intros k Hk. specialize (B k Hk). lia. Qed.

Lemma app_pipe_KI : forall q0 x caps s s0 o0 ab out, app_pipe cfg_fixed q0 x caps s = Ok (s0, o0, ab) ->
  (s_shut s = false -> live s) -> KI (aux_of s) out -> KI (aux_of s0) (out ++ o0).
Proof.
  intros q0 x caps s s0 o0 ab out H Lv HK. unfold app_pipe, next_call in H.
  set (sa := set_ncall (s_ncall s + 1) s) in *.
  assert (SIMPLE : forall c, Ok (sa, [LAppRes (s_ncall s) c], false) = Ok (s0, o0, ab) -> KI (aux_of s0) (out ++ o0)).
  { intros c E. inversion E; subst. apply KI_next_res. exact HK. }
  destruct (s_shut sa) eqn:Es; [apply (SIMPLE _ H)|]. pose proof (Lv Es) as L.
  destruct (tget q0 (s_qs sa)) as [q|] eqn:Eq; [|apply (SIMPLE _ H)].
  destruct (q_fin q); [apply (SIMPLE _ H)|].
  pose proof (tget_some _ _ _ _ Eq) as [Hr Hn].
  set (s1 := set_qs (replace_nth (Z.to_nat q0) (Some (mark_called x q)) (s_qs sa)) sa) in *.
  assert (La : live sa) by (eapply live_core; [exact L|reflexivity]).
  assert (L1 : live s1) by (apply live_set_qs; [exact La|apply replace_nth_length|eapply slots_free_replace; [apply qs_slots; exact La|exact Hn]]).
  destruct (mark_called_same x q) as (S1 & S2 & S3 & S4).
  destruct HK as (A & B & C & D).
  destruct (send_call_K s1 (s_ncall s) caps (fun id ds => OCall id (OTAns q0 x) ds) _ _ _ L1 H) as (HQs & El & Ee & En & Ed & K4s & (id & ds & Eo)).
  subst o0. eapply (KI_next_hold s); [exact (conj A (conj B (conj C D)))|rewrite En; reflexivity|rqt| | |].
  - eapply K2_same; [exact B|exact El|cbn [aux_of x_ndeliv]; rewrite Ed; simpl; lia].
  - apply K4s. unfold K4. cbn [aux_of x_qs]. change (s_qs s1) with (replace_nth (Z.to_nat q0) (Some (mark_called x q)) (s_qs s)).
    change (s_qs sa) with (s_qs s) in Eq. eapply K4_replace; [exact D|exact Eq|]. rewrite S1, S3. intros Hb. eapply D; eauto.
  - intros m. unfold hold. cbn [aux_of x_qs x_lcalls x_ecalls]. rewrite HQs, El, Ee.
    change (s_qs s1) with (replace_nth (Z.to_nat q0) (Some (mark_called x q)) (s_qs s)). change (s_qs sa) with (s_qs s) in Eq.
    rewrite (HQ_replace_same m _ q0 q (mark_called x q) Eq) by (unfold hq; rewrite S2, S3; reflexivity).
    change (s_lcalls s1) with (s_lcalls s). change (s_ecalls s1) with (s_ecalls s). lia.
Qed.

Lemma HL_cons : forall m k n l, HL m ((k, n) :: l) = ((if (n =? m)%Z then 1 else 0) + HL m l)%nat.
Proof. intros. unfold HL. cbn [filter snd]. destruct (n =? m); reflexivity. Qed.
Lemma HE_snoc : forall m e n tag l, HE m (l ++ [(e, n, tag)]) = (HE m l + if (n =? m)%Z then 1 else 0)%nat.
Proof. intros. unfold HE. rewrite filter_app, app_length. cbn [filter fst snd]. destruct (n =? m); reflexivity. Qed.

Lemma app_call_KI : forall h caps tag s s0 o0 ab out, app_call cfg_fixed h caps tag s = Ok (s0, o0, ab) ->
  (s_shut s = false -> live s) -> KI (aux_of s) out -> KI (aux_of s0) (out ++ o0).
Proof.
  intros h caps tag s s0 o0 ab out H Lv HK. unfold app_call in H.
  destruct (hget h s) as [q0|x|]; [eapply app_pipe_KI; eauto| |unfold next_call in H; inversion H; subst; apply KI_next_res; exact HK].
  unfold next_call in H. set (sa := set_ncall (s_ncall s + 1) s) in *.
  assert (SIMPLE : forall c, Ok (sa, [LAppRes (s_ncall s) c], false) = Ok (s0, o0, ab) -> KI (aux_of s0) (out ++ o0)).
  { intros c E. inversion E; subst. apply KI_next_res. exact HK. }
  destruct x; try (apply (SIMPLE _ H)).
  - (* a local capability: delivered directly *)
    inversion H; subst. pose proof HK as (A & (B1 & B2) & C & D).
    eapply (KI_next_hold s); [exact HK|reflexivity|rqt| |exact D|].
    + split; cbn [aux_of x_lcalls x_ndeliv]; simpl.
      * constructor; [|exact B1]. intros Hin. specialize (B2 _ Hin). simpl in B2. lia.
      * intros k [Hk|Hk]; [lia|]. specialize (B2 _ Hk). simpl in B2. lia.
    + intros m. unfold hold. cbn [aux_of x_qs x_lcalls x_ecalls]. simpl s_lcalls. rewrite HL_cons. simpl. lia.
  - (* an import *)
    destruct (s_shut sa) eqn:Es; [apply (SIMPLE _ H)|]. pose proof (Lv Es) as L.
    destruct (negb (imp_current i g sa)); [apply (SIMPLE _ H)|].
    assert (La : live sa) by (eapply live_core; [exact L|reflexivity]).
    pose proof HK as (A & B & C & D).
    destruct (send_call_K sa (s_ncall s) caps (fun id ds => OCall id (OTImp i) ds) _ _ _ La H) as (HQs & El & Ee & En & Ed & K4s & (id & ds & Eo)).
    subst o0. eapply (KI_next_hold s); [exact HK|rewrite En; reflexivity|rqt| | |].
    + eapply K2_same; [exact B|exact El|cbn [aux_of x_ndeliv]; rewrite Ed; simpl; lia].
    + apply K4s. exact D.
    + intros m. unfold hold. cbn [aux_of x_qs x_lcalls x_ecalls]. rewrite HQs, El, Ee. simpl. lia.
  - (* an embargoed capability: the call waits *)
    inversion H; subst. pose proof HK as (A & B & C & D).
    eapply (KI_next_hold s); [exact HK|reflexivity|rqt|exact B|exact D|].
    intros m. unfold hold. cbn [aux_of x_qs x_lcalls x_ecalls]. simpl s_ecalls. rewrite HE_snoc. simpl. lia.
Qed.

Lemma app_hold_KI : forall h s s0 o0 ab out, app_hold cfg_fixed h s = Ok (s0, o0, ab) ->
  (s_shut s = false -> live s) -> KI (aux_of s) out -> KI (aux_of s0) (out ++ o0).
Proof.
  intros h s s0 o0 ab out H Lv HK. unfold app_hold, next_call in H.
  set (sa := set_ncall (s_ncall s + 1) s) in *.
  assert (SIMPLE : forall c, Ok (sa, [LAppRes (s_ncall s) c], false) = Ok (s0, o0, ab) -> KI (aux_of s0) (out ++ o0)).
  { intros c E. inversion E; subst. apply KI_next_res. exact HK. }
  destruct (hget h sa) as [q0|x|]; try (apply (SIMPLE _ H)).
  destruct x; try (apply (SIMPLE _ H)).
  destruct (s_shut sa) eqn:Es; [apply (SIMPLE _ H)|]. cbn [orb] in H. pose proof (Lv Es) as L.
  destruct (negb (imp_current i g sa)); [apply (SIMPLE _ H)|].
  assert (La : live sa) by (eapply live_core; [exact L|reflexivity]).
  destruct (new_question _ sa) as [[s2 id]| |] eqn:E; cbn [bind] in H; try discriminate. inversion H; subst.
  destruct (new_question_q _ _ _ _ E La) as (Hn & TG & Hh1 & Hl & He & Hc & Hd & _).
  pose proof HK as (A & B & C & D).
  eapply (KI_next_hold s); [exact HK|exact Hc|rqt| | |].
  - eapply K2_same; [exact B|exact Hl|cbn [aux_of x_ndeliv]; simpl; rewrite Hd; simpl; lia].
  - intros j q Hq Hb. cbn [aux_of x_qs] in Hq. change (s_qs (set_busy _ s2)) with (s_qs s2) in Hq. rewrite TG in Hq.
    destruct (j =? id); [inversion Hq; subst; cbn [q_boot] in Hb; congruence|eapply D; eauto].
  - intros m. unfold hold. cbn [aux_of x_qs x_lcalls x_ecalls].
    change (s_qs (set_busy _ s2)) with (s_qs s2). change (s_lcalls (set_busy _ s2)) with (s_lcalls s2). change (s_ecalls (set_busy _ s2)) with (s_ecalls s2).
    rewrite (new_question_hq _ _ _ _ m E La), Hl, He. unfold hq. cbn [q_fin q_call negb andb]. simpl. lia.
Qed.

Lemma app_unhold_KI : forall n s s0 o0 ab out, app_unhold cfg_fixed n s = Ok (s0, o0, ab) ->
  KI (aux_of s) out -> KI (aux_of s0) (out ++ o0).
Proof.
  intros n s s0 o0 ab out H HK. unfold app_unhold in H.
  assert (SIMPLE : Ok (s, @nil output, false) = Ok (s0, o0, ab) -> KI (aux_of s0) (out ++ o0)).
  { intros E. inversion E; subst. rewrite app_nil_r. exact HK. }
  destruct (find_held n (s_qs s) 0) as [[qid q]|] eqn:Ef; [|apply (SIMPLE H)].
  destruct (find_held_tget _ _ _ _ Ef) as [Eq Hheld].
  destruct (q_held q) as [[[i g] cs]|] eqn:Eh; [|apply (SIMPLE H)].
  destruct (s_shut s); [apply (SIMPLE H)|].
  set (q' := mkQ None (q_call q) (q_fin q) [] [] None) in *.
  assert (RES : forall sx o3, s_qs sx = replace_nth (Z.to_nat qid) (Some q') (s_qs s) -> s_lcalls sx = s_lcalls s ->
            s_ecalls sx = s_ecalls s -> s_ncall sx = s_ncall s -> s_ndeliv sx = s_ndeliv s -> rq o3 ->
            KI (aux_of sx) (out ++ OCall qid (OTImp i) [] :: o3)).
  { intros sx o3 Eqs El Ee En Ed R3. destruct HK as (A & B & C & D). split; [|split; [|split]].
    - apply (K1_step (aux_of s)); [exact A|]. intros m Hm. rewrite cnt_cons. change (is_res m (OCall qid (OTImp i) [])) with false. cbv iota.
      rewrite (R3 m). unfold hold. cbn [aux_of x_qs x_lcalls x_ecalls x_ncall]. rewrite Eqs, El, Ee, En.
      rewrite (HQ_replace_same m _ qid q q' Eq) by reflexivity. lia.
    - eapply K2_same; [exact B|exact El|cbn [aux_of x_ndeliv]; lia].
    - unfold K3. cbn [aux_of x_ncall]. rewrite En. exact C.
    - unfold K4. cbn [aux_of x_qs]. rewrite Eqs. eapply K4_replace; [exact D|exact Eq|]. cbn [q' q_boot]. congruence. }
  match type of H with context [if ?c then _ else _] => destruct c end.
  - match type of H with context [imp_shutdown cfg_fixed i g ?sx] => destruct (imp_shutdown cfg_fixed i g sx) as [[s3 o3]| |] eqn:E3; cbn [bind] in H; try discriminate end.
    inversion H; subst. pose proof (aux_imp_shutdown _ _ _ _ _ _ E3) as A3.
    apply RES; [change (x_qs (aux_of s0) = replace_nth (Z.to_nat qid) (Some q') (s_qs s)); rewrite A3; reflexivity
               |change (x_lcalls (aux_of s0) = s_lcalls s); rewrite A3; reflexivity
               |change (x_ecalls (aux_of s0) = s_ecalls s); rewrite A3; reflexivity
               |change (x_ncall (aux_of s0) = s_ncall s); rewrite A3; reflexivity
               |change (x_ndeliv (aux_of s0) = s_ndeliv s); rewrite A3; reflexivity
               |apply rq_qquiet; eapply qq_imp_shutdown; eauto].
  - inversion H; subst. apply RES; try reflexivity. rqt.
Qed.

Lemma app_bootstrap_KI : forall s s0 o0 ab out, app_bootstrap cfg_fixed s = Ok (s0, o0, ab) ->
  (s_shut s = false -> live s) -> KI (aux_of s) out -> KI (aux_of s0) (out ++ o0).
Proof.
  intros s s0 o0 ab out H Lv HK. unfold app_bootstrap in H.
  destruct (s_shut s) eqn:Es.
  - inversion H; subst. eapply KI_same; [exact HK|reflexivity..|simpl; lia|rqt].
  - pose proof (Lv eq_refl) as L.
    destruct (new_question _ s) as [[s1 id]| |] eqn:E; cbn [bind] in H; try discriminate. inversion H; subst.
    destruct (new_question_q _ _ _ _ E L) as (Hn & TG & Hh1 & Hl & He & Hc & Hd & _).
    destruct HK as (A & B & C & D). split; [|split; [|split]].
    + apply (K1_step (aux_of s)); [exact A|]. intros m Hm. rewrite cnt_cons. change (is_res m (OBootstrap id)) with false. cbv iota.
      change (cnt (is_res m) []) with 0%nat. unfold hold. cbn [aux_of x_qs x_lcalls x_ecalls x_ncall].
      change (s_qs (set_handles _ s1)) with (s_qs s1). change (s_lcalls (set_handles _ s1)) with (s_lcalls s1).
      change (s_ecalls (set_handles _ s1)) with (s_ecalls s1). change (s_ncall (set_handles _ s1)) with (s_ncall s1).
      rewrite (new_question_hq _ _ _ _ m E L), Hl, He, Hc. unfold hq. cbn [q_fin q_call negb andb].
      replace (-1 =? m) with false by lia. lia.
    + eapply K2_same; [exact B|exact Hl|cbn [aux_of x_ndeliv]; simpl; rewrite Hd; lia].
    + unfold K3. cbn [aux_of x_ncall]. simpl. rewrite Hc. exact C.
    + intros j q Hq Hb. cbn [aux_of x_qs] in Hq. change (s_qs (set_handles _ s1)) with (s_qs s1) in Hq. rewrite TG in Hq.
      destruct (j =? id); [inversion Hq; subst; cbn [q_call]; lia|eapply D; eauto].
Qed.

(* ---------------------------------------------------------------- a Disembargo comes back: blocked calls go on *)
Definition HW (e m : Z) (l : list (Z * Z * Z)) : nat :=
  length (filter (fun p => (fst (fst p) =? e) && (snd (fst p) =? m)) l).

Lemma HE_split : forall e m (l : list (Z * Z * Z)),
  (HE m (filter (fun p => negb (fst (fst p) =? e)%Z) l) + HW e m l = HE m l)%nat.
Proof.
  intros e m l. unfold HE, HW. induction l as [|[[e' n] tag] l IH]; [reflexivity|]. cbn [filter fst snd].
  destruct (e' =? e); cbn [negb andb filter fst snd]; destruct (n =? m); cbn [length]; lia.
Qed.

Lemma wake_calls_K : forall e x l s s2 o2, wake_calls e x l s = (s2, o2) ->
  s_qs s2 = s_qs s /\ s_ecalls s2 = s_ecalls s /\ s_ncall s2 = s_ncall s /\ s_ndeliv s <= s_ndeliv s2 /\
  (K2 (aux_of s) -> K2 (aux_of s2)) /\
  (forall m, (cnt (is_res m) o2 + HL m (s_lcalls s2) = HL m (s_lcalls s) + HW e m l)%nat).
Proof.
  induction l as [|[[e' n] tag] l IH]; intros s s2 o2 H; simpl in H.
  - inversion H; subst. split; [reflexivity|split; [reflexivity|split; [reflexivity|split; [lia|split; [auto|]]]]].
    intros m. unfold HW. cbn [filter length]. change (cnt (is_res m) []) with 0%nat. lia.
  - destruct (e' =? e) eqn:Ee.
    + destruct x;
        try (destruct (wake_calls e _ l s) as [s2' o2'] eqn:EW; inversion H; subst;
             destruct (IH _ _ _ EW) as (W1 & W2 & W3 & W4 & W5 & W6);
             split; [exact W1|split; [exact W2|split; [exact W3|split; [exact W4|split; [exact W5|]]]]];
             intros m; rewrite is_res_cons; specialize (W6 m); unfold HW in *; cbn [filter fst snd]; rewrite Ee; cbn [andb];
             destruct (n =? m); cbn [length]; lia).
      match type of H with context [wake_calls e ?x l ?s1] => destruct (wake_calls e x l s1) as [s2' o2'] eqn:EW end.
      inversion H; subst. destruct (IH _ _ _ EW) as (W1 & W2 & W3 & W4 & W5 & W6).
      split; [exact W1|split; [exact W2|split; [exact W3|split; [simpl in W4; lia|split]]]].
      * intros [B1 B2]. apply W5. split; cbn [aux_of x_lcalls x_ndeliv]; simpl.
        -- constructor; [|exact B1]. intros Hin. specialize (B2 _ Hin). simpl in B2. lia.
        -- intros k [Hk|Hk]; [lia|]. specialize (B2 _ Hk). simpl in B2. lia.
      * intros m. rewrite cnt_cons. change (is_res m (LDeliver j tag (s_ndeliv s))) with false. cbv iota.
        specialize (W6 m). simpl s_lcalls in W6. rewrite HL_cons in W6. unfold HW in *. cbn [filter fst snd]. rewrite Ee. cbn [andb].
        destruct (n =? m); cbn [length]; lia.
    + destruct (IH _ _ _ H) as (W1 & W2 & W3 & W4 & W5 & W6).
      split; [exact W1|split; [exact W2|split; [exact W3|split; [exact W4|split; [exact W5|]]]]].
      intros m. specialize (W6 m). unfold HW in *. cbn [filter fst snd]. rewrite Ee. cbn [andb]. exact W6.
Qed.

Lemma lift_KI : forall e em s s' o out, lift cfg_fixed e em s = Ok (s', o) -> KI (aux_of s) out -> KI (aux_of s') (out ++ o).
Proof.
  intros e em s s' o out H (A & B & C & D). unfold lift in H. cbn [fx22 cfg_fixed negb] in H. rewrite andb_false_r in H. cbv iota in H.
  match type of H with context [wake_calls e ?x ?l ?s1] => set (sb := s1) in * end.
  destruct (wake_calls e (e_cap em) (s_ecalls sb) sb) as [s2 o2] eqn:EW.
  inversion H; subst. clear H.
  assert (Ab : aux_of sb = aux_of (set_handles (map (rewrite_handle e (e_cap em)) (s_handles s)) s)) by apply aux_lref_cap.
  assert (Qb : s_qs sb = s_qs s) by (change (x_qs (aux_of sb) = s_qs s); rewrite Ab; reflexivity).
  assert (Lb : s_lcalls sb = s_lcalls s) by (change (x_lcalls (aux_of sb) = s_lcalls s); rewrite Ab; reflexivity).
  assert (Eb : s_ecalls sb = s_ecalls s) by (change (x_ecalls (aux_of sb) = s_ecalls s); rewrite Ab; reflexivity).
  assert (Nb : s_ncall sb = s_ncall s) by (change (x_ncall (aux_of sb) = s_ncall s); rewrite Ab; reflexivity).
  assert (Db : s_ndeliv sb = s_ndeliv s) by (change (x_ndeliv (aux_of sb) = s_ndeliv s); rewrite Ab; reflexivity).
  apply wake_calls_K in EW. destruct EW as (W1 & W2 & W3 & W4 & W5 & W6).
  split; [|split; [|split]].
  - apply (K1_step (aux_of s)); [exact A|]. intros m Hm. unfold hold. cbn [aux_of x_qs x_lcalls x_ecalls x_ncall].
    change (s_qs (set_ecalls _ s2)) with (s_qs s2). change (s_lcalls (set_ecalls _ s2)) with (s_lcalls s2).
    change (s_ncall (set_ecalls _ s2)) with (s_ncall s2). change (s_ecalls (set_ecalls ?v s2)) with v.
    rewrite W1, W2, W3, Qb, Eb, Nb. specialize (W6 m). rewrite Lb, Eb in W6. pose proof (HE_split e m (s_ecalls s)). lia.
  - assert (K2b : K2 (aux_of sb)) by (unfold K2; cbn [aux_of x_lcalls x_ndeliv]; rewrite Lb, Db; exact B).
    exact (W5 K2b).
  - unfold K3. cbn [aux_of x_ncall]. change (s_ncall (set_ecalls _ s2)) with (s_ncall s2). rewrite W3, Nb. exact C.
  - unfold K4. cbn [aux_of x_qs]. change (s_qs (set_ecalls _ s2)) with (s_qs s2). rewrite W1, Qb. exact D.
Qed.

Lemma handle_disembargo_KI : forall tg cx s s0 o0 ab out, handle_disembargo cfg_fixed tg cx s = Ok (s0, o0, ab) ->
  KI (aux_of s) out -> KI (aux_of s0) (out ++ o0).
Proof.
  intros tg cx s s0 o0 ab out H HK. unfold handle_disembargo in H.
  assert (SIMPLE : forall o, rq o -> Ok (s, o, true) = Ok (s0, o0, ab) \/ Ok (s, o, false) = Ok (s0, o0, ab) -> KI (aux_of s0) (out ++ o0)).
  { intros o I [E|E]; inversion E; subst; (eapply KI_aux; [exact HK|reflexivity|exact I]). }
  destruct (parse_target tg); [|eapply SIMPLE; [|left; exact H]; rqt].
  destruct cx as [i|e|]; [eapply SIMPLE; [|left; exact H]; rqt| |eapply SIMPLE; [|right; exact H]; rqt].
  destruct (tget e (s_emb s)) as [em|]; [|eapply SIMPLE; [|left; exact H]; rqt].
  match type of H with (bind (lift cfg_fixed e em ?sx) _) = _ => destruct (lift cfg_fixed e em sx) as [[s1 o1]| |] eqn:EL; cbn [bind] in H; try discriminate end.
  inversion H; subst. eapply lift_KI; [exact EL|]. exact HK.
Qed.

(* ---------------------------------------------------------------- a Return arrives: the question's call resolves *)
Definition cframe (x x1 : aux) : Prop :=
  x_qs x1 = x_qs x /\ x_lcalls x1 = x_lcalls x /\ x_ecalls x1 = x_ecalls x /\ x_ncall x1 = x_ncall x /\ x_ndeliv x1 = x_ndeliv x.
Lemma cframe_eq : forall x x1, x1 = x -> cframe x x1.
Proof. intros x x1 ->. repeat split. Qed.
Lemma cframe_trans : forall x x1 x2, cframe x x1 -> cframe x1 x2 -> cframe x x2.
Proof. intros x x1 x2 (A1 & A2 & A3 & A4 & A5) (B1 & B2 & B3 & B4 & B5). repeat split; congruence. Qed.

Lemma embargo_caps_rq : forall qid k called loc done tab s s1 tab1 o,
  embargo_caps cfg_fixed qid k called loc done tab s = Ok (s1, tab1, o) -> rq o.
Proof.
  induction called as [|x called IH]; intros loc done tab s s1 tab1 o H; simpl in H.
  - inversion H; subst. rqt.
  - destruct (transform_eval k x); try (eapply IH; eauto; fail).
    destruct (znth k0 tab) as [lc|]; [|eapply IH; eauto].
    destruct (znth k0 loc) as [[|]|]; try (eapply IH; eauto; fail).
    destruct (zmem k0 done); [eapply IH; eauto|].
    destruct (gen_next (s_mgen s)) as [[e g]| |]; cbn [bind] in H; try discriminate.
    destruct (tput e (mkEmb lc 1) (s_emb s)) as [t| |]; cbn [bind] in H; try discriminate.
    match type of H with (bind ?r _) = _ => destruct r as [[[s2 tab2] o2]| |] eqn:E2; cbn [bind] in H; try discriminate end.
    inversion H; subst. apply IH in E2. apply rq_cons; [intros ?; reflexivity|exact E2].
Qed.

Lemma handle_return_KI : forall qid rpc k s s0 o0 ab out, handle_return cfg_fixed qid rpc k s = Ok (s0, o0, ab) ->
  KI (aux_of s) out -> KI (aux_of s0) (out ++ o0).
Proof.
  intros qid rpc k s s0 o0 ab out H HK. unfold handle_return in H.
  destruct (tget qid (s_qs s)) as [q|] eqn:Eq; [|inversion H; subst; rewrite app_nil_r; exact HK].
  set (sa := set_qs (tclear qid (s_qs s)) s) in *.
  assert (A1 : exists s1 pc, (if fx19 cfg_fixed && rpc then let '(s1, cl, _) := release_exports (q_prefs q) sa in (s1, cl) else (sa, [])) = (s1, pc) /\ aux_of s1 = aux_of sa).
  { destruct (fx19 cfg_fixed && rpc).
    - pose proof (aux_release_exports (q_prefs q) sa) as F. destruct (release_exports (q_prefs q) sa) as [[s1 cl] e]. simpl in F. eauto.
    - eauto. }
  destruct A1 as (s1 & pc & E1 & A1). rewrite E1 in H. clear E1.
  destruct HK as (A & B & C & D).
  assert (FINAL : forall sx fin, cframe (aux_of sa) (aux_of sx) ->
            (forall m, 0 <= m -> cnt (is_res m) fin = hq m (Some q)) -> KI (aux_of sx) (out ++ fin)).
  { intros sx fin (F1 & F2 & F3 & F4 & F5) R. split; [|split; [|split]].
    - apply (K1_step (aux_of s)); [exact A|]. intros m Hm. rewrite (R m Hm). unfold hold. rewrite F1, F2, F3, F4.
      cbn [aux_of x_qs x_lcalls x_ecalls x_ncall]. change (s_qs sa) with (tclear qid (s_qs s)).
      change (s_lcalls sa) with (s_lcalls s). change (s_ecalls sa) with (s_ecalls s). change (s_ncall sa) with (s_ncall s).
      pose proof (HQ_tclear_some m _ _ _ Eq). lia.
    - unfold K2. rewrite F2, F5. exact B.
    - unfold K3. rewrite F4. exact C.
    - unfold K4. rewrite F1. cbn [aux_of x_qs]. change (s_qs sa) with (tclear qid (s_qs s)).
      intros j q0 Hq Hb. rewrite tget_tclear in Hq. destruct (j =? qid); [discriminate|eapply D; eauto]. }
  destruct (q_fin q) eqn:Ef.
  { destruct (release_caps cfg_fixed pc _) as [[s2 o2]| |] eqn:E2; cbn [bind] in H; try discriminate. inversion H; subst.
    pose proof (aux_release_caps _ _ _ _ _ E2) as A2. apply FINAL.
    - apply cframe_eq. rewrite A2. exact A1.
    - intros m Hm. rewrite (rq_qquiet _ (qq_release_caps _ _ _ _ _ E2) m). unfold hq. rewrite Ef. reflexivity. }
  match type of H with (bind ?r _) = _ => destruct r as [[[[s2 parsed] tor] disemb]| |] eqn:EP; cbn [bind] in H; try discriminate end.
  assert (A2 : aux_of s2 = aux_of s1 /\ rq disemb).
  { destruct k as [[p|]| |]; try (inversion EP; subst; split; [reflexivity|rqt]).
    pose proof (aux_recv_payload cfg_fixed p s1) as Cp.
    destruct (recv_payload cfg_fixed p s1) as [sb kc tab loc|sb part].
    - destruct (embargo_caps cfg_fixed qid kc (q_called q) loc [] tab sb) as [[[s3 tab3] o3]| |] eqn:E3; cbn [bind] in EP; try discriminate.
      inversion EP; subst. pose proof (embargo_caps_rq _ _ _ _ _ _ _ _ _ _ E3) as R3. apply aux_embargo_caps in E3. destruct E3 as [A3 _].
      split; [congruence|exact R3].
    - rewrite payload_err_fixed in EP. simpl in EP. inversion EP; subst. split; [exact Cp|rqt]. }
  destruct A2 as [A2 I2].
  match type of H with (bind ?r _) = _ => destruct r as [[s3 o3]| |] eqn:E3; cbn [bind] in H; try discriminate end.
  destruct (release_caps cfg_fixed pc s3) as [[s5 o5]| |] eqn:E5; cbn [bind] in H; try discriminate. inversion H; subst.
  pose proof (aux_release_caps _ _ _ _ _ E5) as A5. pose proof (rq_qquiet _ (qq_release_caps _ _ _ _ _ E5)) as I5.
  assert (A3 : cframe (aux_of s2) (aux_of s3) /\ (forall m, 0 <= m -> cnt (is_res m) o3 = hq m (Some q))).
  { assert (NOCALL : q_boot q <> None -> forall m, 0 <= m -> hq m (Some q) = 0%nat).
    { intros Hb m Hm. pose proof (D _ _ Eq Hb) as Hc. unfold hq. replace (q_call q =? m) with false by lia. rewrite andb_false_r. reflexivity. }
    assert (CALL : forall m c o4, rq o4 -> cnt (is_res m) (LAppRes (q_call q) c :: o4) = hq m (Some q)).
    { intros m c o4 R4. rewrite is_res_cons, (R4 m). unfold hq. rewrite Ef. cbn [negb andb]. destruct (q_call q =? m); reflexivity. }
    destruct (q_boot q) as [h|] eqn:Eb; destruct parsed as [[kc tab]|]; cbn [fx17 cfg_fixed negb andb] in E3;
      match type of E3 with (bind ?r _) = _ => destruct r as [[s4 o4]| |] eqn:E4; cbn [bind] in E3; try discriminate end;
      inversion E3; subst; pose proof (aux_release_caps _ _ _ _ _ E4) as A4; pose proof (rq_qquiet _ (qq_release_caps _ _ _ _ _ E4)) as I4.
    - split; [|intros m Hm; rewrite (I4 m), NOCALL; [reflexivity|discriminate|exact Hm]].
      rewrite A4. unfold cframe. cbn [aux_of x_qs x_lcalls x_ecalls x_ncall x_ndeliv].
      match goal with |- context [addref_cap ?x s2] => pose proof (aux_addref x s2) as AR; set (sr := addref_cap x s2) in * end.
      change (s_qs (set_handle h _ sr)) with (x_qs (aux_of sr)). change (s_lcalls (set_handle h _ sr)) with (x_lcalls (aux_of sr)).
      change (s_ecalls (set_handle h _ sr)) with (x_ecalls (aux_of sr)). change (s_ncall (set_handle h _ sr)) with (x_ncall (aux_of sr)).
      change (s_ndeliv (set_handle h _ sr)) with (x_ndeliv (aux_of sr)). rewrite AR. repeat split.
    - split; [|intros m Hm; rewrite (I4 m), NOCALL; [reflexivity|discriminate|exact Hm]].
      rewrite A4. repeat split.
    - split; [apply cframe_eq; exact A4|]. intros m Hm. apply CALL. exact I4.
    - split; [apply cframe_eq; exact A4|]. intros m Hm. apply CALL. exact I4. }
  destruct A3 as (F3 & R3).
  apply FINAL.
  - eapply cframe_trans; [apply cframe_eq; exact A1|]. eapply cframe_trans; [apply cframe_eq; exact A2|].
    eapply cframe_trans; [exact F3|]. apply cframe_eq. change (aux_of s5 = aux_of s3). exact A5.
  - intros m Hm. repeat (rewrite cnt_app || rewrite cnt_cons). rewrite (I2 m), (I5 m), (R3 m Hm).
    change (is_res m (OFinish qid false)) with false. cbv iota. change (cnt (is_res m) []) with 0%nat. lia.
Qed.

(* ---------------------------------------------------------------- every handler *)
Lemma handler_KI : forall e s s0 o0 ab out, handler cfg_fixed e s = Ok (s0, o0, ab) ->
  (s_shut s = false -> live s /\ QI (aux_of s) out) -> KI (aux_of s) out -> KI (aux_of s0) (out ++ o0).
Proof.
  intros e s s0 o0 ab out H LQ HK.
  assert (Lv : s_shut s = false -> live s) by (intros Hs; apply (LQ Hs)).
  assert (TRIV : forall o, rq o -> Ok (s, o, false) = Ok (s0, o0, ab) -> KI (aux_of s0) (out ++ o0)).
  { intros o I E. inversion E; subst. eapply KI_aux; [exact HK|reflexivity|exact I]. }
  destruct e; simpl in H; try (eapply TRIV; [|exact H]; rqt; fail).
  - eapply KI_qinert; [exact HK|eapply handle_bootstrap_qinert; eauto].
  - eapply KI_qinert; [exact HK|eapply handle_call_qinert; eauto].
  - eapply handle_return_KI; eauto.
  - eapply KI_qinert; [exact HK|eapply handle_finish_qinert; eauto].
  - eapply KI_qinert; [exact HK|eapply handle_release_qinert; eauto].
  - eapply handle_disembargo_KI; eauto.
  - eapply app_bootstrap_KI; eauto.
  - eapply app_call_KI; eauto.
  - eapply app_pipe_KI; eauto.
  - (* AReturn: a direct local call resolves, or a call of the connection returns *)
    unfold app_return in H. destruct (find_running k (s_ans s)) as [[id a]|].
    + destruct (release_caps cfg_fixed (a_args a) s) as [[s1 o1]| |] eqn:E1; cbn [bind] in H; try discriminate.
      assert (I1 : qinert s o1 s1) by (split; [apply qframe_eq; eapply aux_release_caps; eauto|eapply qq_release_caps; eauto]).
      assert (FIN : forall sx o2 o3 (b2 b3 : bool) sy, qinert (set_ans (aput id (set_a_args [] a) (s_ans s1)) s1) o2 sx -> qinert sx o3 sy ->
                Ok (sy, o1 ++ o2 ++ o3, b2 || b3) = Ok (s0, o0, ab) -> KI (aux_of s0) (out ++ o0)).
      { intros sx o2 o3 b2 b3 sy I2 I3 E. inversion E; subst. eapply KI_qinert; [exact HK|].
        eapply qinert_trans; [exact I1|]. eapply qinert_trans; [|exact I3].
        destruct I2 as [F2 Q2]. split; [exact F2|exact Q2]. }
      destruct r as [fs| |].
      * destruct (results_of fs) as [kc rct].
        match type of H with (bind ?x _) = _ => destruct x as [[[s3 o3] b3]| |] eqn:E3; cbn [bind] in H; try discriminate end.
        match type of H with (bind ?x _) = _ => destruct x as [[[s4 o4] b4]| |] eqn:E4; cbn [bind] in H; try discriminate end.
        eapply (FIN s3 o3 o4 b3 b4 s4); [|split; [apply qframe_eq; eapply aux_send_return; eauto|eapply qq_send_return; eauto]|exact H].
        apply drain_qinert in E3. destruct E3 as [F3 Q3]. split; [|exact Q3].
        eapply qframe_trans; [|exact F3]. apply qframe_eq.
        clear. generalize (set_ans (aput id (set_a_args [] a) (s_ans s1)) s1) as sz. induction rct as [|[j|] rct IH]; intros sz; simpl; auto. rewrite IH. reflexivity.
      * match type of H with (bind ?x _) = _ => destruct x as [[[s3 o3] b3]| |] eqn:E3; cbn [bind] in H; try discriminate end.
        match type of H with (bind ?x _) = _ => destruct x as [[[s4 o4] b4]| |] eqn:E4; cbn [bind] in H; try discriminate end.
        eapply (FIN s3 o3 o4 b3 b4 s4); [eapply drain_qinert; eauto|split; [apply qframe_eq; eapply aux_send_return; eauto|eapply qq_send_return; eauto]|exact H].
      * match type of H with (bind ?x _) = _ => destruct x as [[[s3 o3] b3]| |] eqn:E3; cbn [bind] in H; try discriminate end.
        match type of H with (bind ?x _) = _ => destruct x as [[[s4 o4] b4]| |] eqn:E4; cbn [bind] in H; try discriminate end.
        eapply (FIN s3 o3 o4 b3 b4 s4); [eapply reject_all_qinert; eauto|split; [apply qframe_eq; eapply aux_send_exception; eauto|eapply qq_send_exception; eauto]|exact H].
    + destruct (aget k (s_lcalls s)) as [n|] eqn:Ea; inversion H; subst; [|rewrite app_nil_r; exact HK].
      apply app_return_local_KI; assumption.
  - eapply app_release_KI; eauto. intros Hs. apply (LQ Hs).
  - eapply app_cancel_KI; eauto.
  - eapply app_hold_KI; eauto.
  - eapply app_unhold_KI; eauto.
Qed.

(* ---------------------------------------------------------------- shutdown *)
Lemma KI_cframe : forall x x1 out o, KI x out -> cframe x x1 -> rq o -> KI x1 (out ++ o).
Proof. intros x x1 out o H (F1 & F2 & F3 & F4 & F5) R. eapply KI_same; eauto. lia. Qed.

Lemma fail_questions_res : forall m t i, 0 <= m -> cnt (is_res m) (fail_questions t i) = HQ m t.
Proof.
  intros m t. induction t as [|[q|] t IH]; intros i Hm; [reflexivity| |].
  - cbn [fail_questions]. rewrite !cnt_app, (IH (i + 1) Hm). unfold HQ. cbn [map]. rewrite list_sum_cons.
    assert (E1 : cnt (is_res m) (match q_held q with Some (imp, _, _) => [OCall i (OTImp imp) []] | None => [] end) = 0%nat)
      by (destruct (q_held q) as [[[a b] c]|]; reflexivity).
    rewrite E1. unfold hq. destruct (q_fin q); cbn [negb andb orb]; [reflexivity|].
    destruct (q_call q <? 0) eqn:Ec.
    + replace (q_call q =? m) with false by lia. reflexivity.
    + rewrite is_res_cons. change (cnt (is_res m) []) with 0%nat. destruct (q_call q =? m); lia.
  - cbn [fail_questions]. rewrite (IH (i + 1) Hm). unfold HQ. cbn [map]. rewrite list_sum_cons. reflexivity.
Qed.

Lemma release_all_args_aux : forall l s s1 o, release_all_args cfg_fixed l s = Ok (s1, o) -> aux_of s1 = aux_of s /\ qquiet o.
Proof.
  induction l as [|[id a] l IH]; intros s s1 o H; simpl in H.
  - inversion H; subst. split; reflexivity.
  - destruct (release_caps cfg_fixed (a_args a) s) as [[sa oa]| |] eqn:E1; cbn [bind] in H; try discriminate.
    destruct (release_all_args cfg_fixed l sa) as [[sb ob]| |] eqn:E2; cbn [bind] in H; try discriminate. inversion H; subst.
    destruct (IH _ _ _ E2) as [A Q]. split; [rewrite A; eapply aux_release_caps; eauto|apply qq_app; [eapply qq_release_caps; eauto|exact Q]].
Qed.

Lemma release_answers_aux : forall l s s1 o, release_answers cfg_fixed l s = Ok (s1, o) -> aux_of s1 = aux_of s /\ qquiet o.
Proof.
  induction l as [|[id a] l IH]; intros s s1 o H; simpl in H.
  - inversion H; subst. split; reflexivity.
  - destruct (release_caps cfg_fixed _ s) as [[sa oa]| |] eqn:E1; cbn [bind] in H; try discriminate.
    rewrite andb_false_r in H.
    destruct (release_answers cfg_fixed l sa) as [[sb ob]| |] eqn:E2; cbn [bind] in H; try discriminate. inversion H; subst.
    destruct (IH _ _ _ E2) as [A Q]. split; [rewrite A; eapply aux_release_caps; eauto|apply qq_app; [eapply qq_release_caps; eauto|exact Q]].
Qed.

Lemma lift_all_KI : forall t i s s1 o out, lift_all cfg_fixed t i s = Ok (s1, o) -> KI (aux_of s) out -> KI (aux_of s1) (out ++ o).
Proof.
  induction t as [|[em|] t IH]; intros i s s1 o out H HK; simpl in H.
  - inversion H; subst. rewrite app_nil_r. exact HK.
  - destruct (lift cfg_fixed i em s) as [[sa oa]| |] eqn:E1; cbn [bind] in H; try discriminate.
    destruct (lift_all cfg_fixed t (i + 1) sa) as [[sb ob]| |] eqn:E2; cbn [bind] in H; try discriminate. inversion H; subst.
    rewrite app_assoc. eapply IH; [exact E2|]. eapply lift_KI; eauto.
  - eapply IH; eauto.
Qed.

Lemma do_shutdown_KI : forall abort s s1 o out, do_shutdown cfg_fixed abort s = Ok (s1, o) -> KI (aux_of s) out -> KI (aux_of s1) (out ++ o).
Proof.
  intros abort s s1 o out H HK. unfold do_shutdown in H.
  destruct (release_all_args cfg_fixed _ _) as [[sa o1]| |] eqn:E1; cbn [bind] in H; try discriminate.
  match type of H with context [release_caps cfg_fixed ?l ?sx] => set (s3 := sx) in *; destruct (release_caps cfg_fixed l s3) as [[s4 o4]| |] eqn:E4; cbn [bind] in H; try discriminate end.
  destruct (lift_all cfg_fixed _ _ _) as [[s5 o5]| |] eqn:E5; cbn [bind] in H; try discriminate.
  destruct (release_answers cfg_fixed _ _) as [[s6 o6]| |] eqn:E6; cbn [bind] in H; try discriminate.
  inversion H; subst. clear H.
  destruct (release_all_args_aux _ _ _ _ E1) as [A1 Q1].
  assert (Ka : KI (aux_of sa) (out ++ o1)).
  { eapply KI_cframe; [exact HK| |apply rq_qquiet; exact Q1]. rewrite A1. repeat split. }
  (* the questions are failed and the tables emptied *)
  assert (Kb : KI (aux_of s3) ((out ++ o1) ++ fail_questions (s_qs sa) 0)).
  { assert (F3 : x_qs (aux_of s3) = [] /\ x_lcalls (aux_of s3) = s_lcalls sa /\ x_ecalls (aux_of s3) = s_ecalls sa /\
                 x_ncall (aux_of s3) = s_ncall sa /\ x_ndeliv (aux_of s3) = s_ndeliv sa).
    { unfold s3. destruct (s_boot _); repeat split. }
    destruct F3 as (F1 & F2 & F3 & F4 & F5). destruct Ka as (A & B & C & D). split; [|split; [|split]].
    - apply (K1_step (aux_of sa)); [exact A|]. intros m Hm. rewrite (fail_questions_res m _ 0 Hm). unfold hold. rewrite F1, F2, F3, F4.
      cbn [aux_of x_qs x_lcalls x_ecalls x_ncall]. rewrite HQ_nil. lia.
    - unfold K2. rewrite F2, F5. exact B.
    - unfold K3. rewrite F4. exact C.
    - unfold K4. rewrite F1. intros j q Hq. exfalso. unfold tget, znth in Hq. simpl in Hq.
      destruct ((j <? 0) || (0 <=? j)); [discriminate|destruct (Z.to_nat j); discriminate]. }
  pose proof (aux_release_caps _ _ _ _ _ E4) as A4.
  assert (Kc : KI (aux_of s4) (((out ++ o1) ++ fail_questions (s_qs sa) 0) ++ o4)).
  { eapply KI_aux; [exact Kb|exact A4|apply rq_qquiet; eapply qq_release_caps; eauto]. }
  assert (Kd : KI (aux_of (set_emb [] s4)) (((out ++ o1) ++ fail_questions (s_qs sa) 0) ++ o4)) by exact Kc.
  pose proof (lift_all_KI _ _ _ _ _ _ E5 Kd) as Ke.
  destruct (release_answers_aux _ _ _ _ E6) as [A6 Q6].
  assert (Kf : KI (aux_of s1) (((((out ++ o1) ++ fail_questions (s_qs sa) 0) ++ o4) ++ o5) ++ o6)).
  { eapply KI_aux; [exact Ke|exact A6|apply rq_qquiet; exact Q6]. }
  assert (Kg : KI (aux_of s1) ((((((out ++ o1) ++ fail_questions (s_qs sa) 0) ++ o4) ++ o5) ++ o6) ++ (if abort then [OAbort] else []))).
  { eapply KI_aux; [exact Kf|reflexivity|destruct abort; rqt]. }
  repeat rewrite <- app_assoc in Kg. exact Kg.
Qed.

(* ---------------------------------------------------------------- histories *)
Lemma step_handler_KI : forall e s s1 o out,
  (do '(sx, ox) <- (do '(sa, o1, abort) <- handler cfg_fixed e s;
       if abort && negb (s_shut sa) then do '(s2, o2) <- do_shutdown cfg_fixed true sa; Ok (s2, o1 ++ o2) else Ok (sa, o1));
     Ok (set_out (rev ox ++ s_out sx) sx, ox)) = Ok (s1, o) ->
  (s_shut s = false -> live s /\ QI (aux_of s) out) -> KI (aux_of s) out -> KI (aux_of s1) (out ++ o).
Proof.
  intros e s s1 o out H LQ HK.
  destruct (handler cfg_fixed e s) as [[[sa o1] ab]| |] eqn:EH; cbn [bind] in H; try discriminate.
  pose proof (handler_KI _ _ _ _ _ _ EH LQ HK) as Ka.
  destruct (ab && negb (s_shut sa)).
  - destruct (do_shutdown cfg_fixed true sa) as [[s2 o2]| |] eqn:ES; cbn [bind] in H; try discriminate. inversion H; subst.
    rewrite app_assoc. change (KI (aux_of s2) ((out ++ o1) ++ o2)). eapply do_shutdown_KI; eauto.
  - cbn [bind] in H. inversion H; subst. exact Ka.
Qed.

Lemma step_KI : forall s e W out s1 o, sinv s W -> qhinv s out -> KI (aux_of s) out ->
  step cfg_fixed s e = Ok (s1, o) -> KI (aux_of s1) (out ++ o).
Proof.
  intros s e W out s1 o I HQ HK Hstep. unfold step in Hstep.
  assert (LQ : s_shut s = false -> live s /\ QI (aux_of s) out).
  { intros Hs. split; [|apply HQ; exact Hs]. unfold sinv in I. rewrite Hs in I. destruct I as [Li P]. split; assumption. }
  destruct (s_shut s && is_peer e) eqn:Esp.
  - cbn [bind] in Hstep. inversion Hstep; subst. rewrite app_nil_r. exact HK.
  - destruct e; try (eapply step_handler_KI; [exact Hstep|exact LQ|exact HK]).
    + destruct (do_shutdown cfg_fixed false s) as [[s2 o2]| |] eqn:ES; cbn [bind] in Hstep; try discriminate. inversion Hstep; subst.
      change (KI (aux_of s2) (out ++ o)). eapply do_shutdown_KI; eauto.
    + destruct (s_shut s).
      * cbn [bind] in Hstep. inversion Hstep; subst. rewrite app_nil_r. exact HK.
      * destruct (do_shutdown cfg_fixed true s) as [[s2 o2]| |] eqn:ES; cbn [bind] in Hstep; try discriminate. inversion Hstep; subst.
        change (KI (aux_of s2) (out ++ o)). eapply do_shutdown_KI; eauto.
Qed.

Lemma run_o_KI : forall evs s W out s' out', sinv s W -> qhinv s out -> KI (aux_of s) out -> W + work evs < LIM ->
  run_o s evs out = Ok (s', out') -> KI (aux_of s') out'.
Proof.
  induction evs as [|e evs IH]; intros s W out s' out' I Hh HK Hb H; simpl in H.
  - inversion H; subst. exact HK.
  - destruct (env_ok s e) eqn:Henv; [|inversion H; subst; exact HK].
    pose proof (ev_work_nonneg e) as He.
    assert (Hwork : 0 <= work evs) by (clear; induction evs as [|x l IHl]; simpl; [lia|pose proof (ev_work_nonneg x); lia]).
    simpl in Hb.
    destruct (step_ok s e W I ltac:(lia) Henv) as (s1 & o & H1 & I1). rewrite H1 in H. cbn [bind] in H.
    eapply (IH s1 (W + ev_work e)); [exact I1| | |lia|exact H].
    + apply (step_qhinv s e W out s1 o I Hh); [lia|exact Henv|exact H1].
    + apply (step_KI s e W out s1 o I Hh HK H1).
Qed.

Lemma KI_init : forall boot, KI (aux_of (init boot)) [].
Proof.
  intros boot. split; [|split; [|split]].
  - intros n Hn. simpl. replace (n <? 0) with false by lia. reflexivity.
  - split; [constructor|intros k []].
  - unfold K3. simpl. lia.
  - intros j q Hq. exfalso. unfold tget, znth in Hq. simpl in Hq. destruct ((j <? 0) || (0 <=? j)); [discriminate|destruct (Z.to_nat j); discriminate].
Qed.

Lemma qhinv_init : forall boot, qhinv (init boot) [].
Proof.
  intros boot _. split; [|split].
  - intros j. unfold cnt, qb. simpl. replace (tget j (@nil (option question))) with (@None question); [lia|].
    unfold tget, znth. simpl. destruct ((j <? 0) || (0 <=? j)); [reflexivity|destruct (Z.to_nat j); reflexivity].
  - intros j q Hq. exfalso. unfold tget, znth in Hq. simpl in Hq. destruct ((j <? 0) || (0 <=? j)); [discriminate|destruct (Z.to_nat j); discriminate].
  - intros h qid Hz. exfalso. unfold znth in Hz. simpl in Hz. destruct ((h <? 0) || (0 <=? h)); [discriminate|destruct (Z.to_nat h); discriminate].
Qed.

(* C06 question_ids, second half -- every local call resolves exactly once.  For EVERY history
   (up or shut down at the end) and every call number n:
   - a number that has been handed out (n < s_ncall) has, together, exactly ONE of: a resolution
     [LAppRes n _] in the outbox, an unfinished question carrying it, a running direct delivery,
     a place in the queue behind an embargo -- so it is never resolved twice, a resolved call is
     held nowhere (nothing can resolve it again), and an unresolved call is held at exactly one
     place (it is not lost);
   - a number not handed out yet has no resolution;
   - once the connection is shut down no question holds a call any more: every call made through
     the connection has been resolved (what remains are direct calls on local servers, which
     return when the server does). *)
Theorem call_resolves_once : forall boot evs s out, work evs < LIM -> run_o (init boot) evs [] = Ok (s, out) ->
  forall n, 0 <= n ->
    (n < s_ncall s -> (cnt (is_res n) out + hold n (aux_of s) = 1)%nat) /\
    (s_ncall s <= n -> cnt (is_res n) out = 0%nat /\ hold n (aux_of s) = 0%nat) /\
    (cnt (is_res n) out <= 1)%nat.
Proof.
  intros boot evs s out Hb H n Hn.
  pose proof (run_o_KI evs (init boot) 0 [] s out (sinv_init boot) (qhinv_init boot) (KI_init boot) ltac:(lia) H) as (K & _).
  specialize (K n Hn). cbn [aux_of x_ncall] in K. split; [|split].
  - intros Hlt. replace (n <? s_ncall s) with true in K by lia. exact K.
  - intros Hge. replace (n <? s_ncall s) with false in K by lia. lia.
  - destruct (n <? s_ncall s); lia.
Qed.

(* after shutdown no question is left, and none is created *)
Lemma handler_shut_qs : forall e s s0 o0 ab, handler cfg_fixed e s = Ok (s0, o0, ab) -> shut_ok s -> s_qs s = [] -> is_peer e = false ->
  s_qs s0 = [] /\ s_shut s0 = true.
Proof.
  intros e s s0 o0 ab H [Hs Ha] Hq Hp.
  destruct e; simpl in Hp; try discriminate; simpl in H.
  - unfold app_bootstrap in H. rewrite Hs in H. inversion H; subst. split; assumption.
  - unfold app_call in H. destruct (hget h s) as [q0|x|].
    + unfold app_pipe, next_call in H. cbn [s_shut set_ncall] in H. rewrite Hs in H. inversion H; subst. split; assumption.
    + destruct x; unfold next_call in H; try (inversion H; subst; split; assumption).
      cbn [s_shut set_ncall] in H. rewrite Hs in H. inversion H; subst. split; assumption.
    + unfold next_call in H. inversion H; subst. split; assumption.
  - unfold app_pipe, next_call in H. cbn [s_shut set_ncall] in H. rewrite Hs in H. inversion H; subst. split; assumption.
  - unfold app_return in H. rewrite Ha in H. cbn [find_running] in H. destruct (aget k (s_lcalls s)); inversion H; subst; split; assumption.
  - unfold app_release in H. destruct (hget h s) as [qid|x|]; [| |inversion H; subst; split; assumption].
    + cbn [s_shut set_handle set_handles] in H. rewrite Hs in H. inversion H; subst. split; assumption.
    + destruct (release_cap cfg_fixed x _) as [[s1 o]| |] eqn:E; cbn [bind] in H; try discriminate. inversion H; subst.
      pose proof (aux_release_cap _ _ _ _ _ E) as A. split.
      * change (x_qs (aux_of s0) = []). rewrite A. exact Hq.
      * change (x_shut (aux_of s0) = true). rewrite A. exact Hs.
  - unfold app_cancel in H. rewrite Hs in H. inversion H; subst. split; assumption.
  - unfold app_hold, next_call in H. destruct (hget h _) as [q0|x|]; try (inversion H; subst; split; assumption).
    destruct x; try (inversion H; subst; split; assumption). cbn [s_shut set_ncall] in H. rewrite Hs in H. cbn [orb] in H.
    inversion H; subst. split; assumption.
  - unfold app_unhold in H. rewrite Hq in H. cbn [find_held] in H. inversion H; subst. split; assumption.
  - inversion H; subst. split; assumption.
Qed.

Definition sqinv (s : state) : Prop := s_shut s = true -> s_qs s = [].

Lemma step_sqinv : forall s e W s1 o, sinv s W -> sqinv s -> W + ev_work e < LIM -> env_ok s e = true ->
  step cfg_fixed s e = Ok (s1, o) -> sqinv s1.
Proof.
  intros s e W s1 o I SQ Hb Henv Hstep Hs1. unfold step in Hstep. unfold sinv in I.
  assert (SHUT : forall abort s0 o0, (do '(sx, ox) <- (do '(s2, o2) <- do_shutdown cfg_fixed abort s0; Ok (s2, o0 ++ o2)); Ok (set_out (rev ox ++ s_out sx) sx, ox)) = Ok (s1, o) -> s_qs s1 = []).
  { intros abort s0 o0 HH. destruct (shutdown_total abort s0) as (s2 & o2 & H2 & T2 & S2). rewrite H2 in HH. cbn [bind] in HH.
    inversion HH; subst. simpl. apply T2. }
  destruct (s_shut s) eqn:Hs.
  - assert (S : shut_ok s) by (split; assumption). pose proof (SQ Hs) as Hq.
    destruct (is_peer e) eqn:Hp; simpl in Hstep.
    + inversion Hstep; subst. exact Hq.
    + destruct e; simpl in Hp; try discriminate;
        try (match type of Hstep with context [handler cfg_fixed ?ev s] =>
               destruct (handler cfg_fixed ev s) as [[[s0 o0] ab]| |] eqn:E; cbn [bind] in Hstep; try discriminate;
               destruct (handler_shut_qs ev s s0 o0 ab E S Hq eq_refl) as [Q0 S0] end;
             rewrite S0 in Hstep; rewrite andb_false_r in Hstep; cbn [bind] in Hstep; inversion Hstep; subst; exact Q0).
      inversion Hstep; subst. exact Hq.
  - destruct I as [Li P]. assert (L : live s) by (split; assumption). simpl in Hstep.
    assert (GEN : forall ev, ev = e -> match ev with MAbort | AClose => False | _ => True end ->
              (do '(sx, ox) <- (do '(sa, o1, abort) <- handler cfg_fixed ev s;
                   if abort && negb (s_shut sa) then do '(s2, o2) <- do_shutdown cfg_fixed true sa; Ok (s2, o1 ++ o2) else Ok (sa, o1));
                 Ok (set_out (rev ox ++ s_out sx) sx, ox)) = Ok (s1, o) -> s_qs s1 = []).
    { intros ev -> Hne HH.
      pose proof (handler_live e s L ltac:(lia) Henv) as PL.
      destruct (handler cfg_fixed e s) as [[[s0 o0] ab]| |] eqn:EH; simpl in PL; try contradiction. cbn [bind] in HH.
      destruct PL as [S0 _]. rewrite S0 in HH. simpl negb in HH. rewrite andb_true_r in HH.
      destruct ab; [eapply SHUT; exact HH|].
      cbn [bind] in HH. inversion HH; subst. simpl in Hs1. congruence. }
    destruct e; try (apply (GEN _ eq_refl I Hstep));
      match type of Hstep with (bind (do_shutdown cfg_fixed ?a s) _) = _ =>
        destruct (shutdown_total a s) as (s2 & o2 & H2 & T2 & S2); rewrite H2 in Hstep; cbn [bind] in Hstep; inversion Hstep; subst; simpl; apply T2 end.
Qed.

Lemma run_o_sqinv : forall evs s W out s' out', sinv s W -> sqinv s -> W + work evs < LIM ->
  run_o s evs out = Ok (s', out') -> sqinv s'.
Proof.
  induction evs as [|e evs IH]; intros s W out s' out' I SQ Hb H; simpl in H.
  - inversion H; subst. exact SQ.
  - destruct (env_ok s e) eqn:Henv; [|inversion H; subst; exact SQ].
    pose proof (ev_work_nonneg e) as He.
    assert (Hwork : 0 <= work evs) by (clear; induction evs as [|x l IHl]; simpl; [lia|pose proof (ev_work_nonneg x); lia]).
    simpl in Hb.
    destruct (step_ok s e W I ltac:(lia) Henv) as (s1 & o & H1 & I1). rewrite H1 in H. cbn [bind] in H.
    eapply (IH s1 (W + ev_work e)); [exact I1| |lia|exact H].
    apply (step_sqinv s e W s1 o I SQ); [lia|exact Henv|exact H1].
Qed.

Theorem shut_calls_resolved : forall boot evs s out, work evs < LIM -> run_o (init boot) evs [] = Ok (s, out) -> s_shut s = true ->
  forall n, HQ n (s_qs s) = 0%nat.
Proof.
  intros boot evs s out Hb H Hs n.
  assert (S0 : sqinv (init boot)) by (intros _; reflexivity).
  rewrite (run_o_sqinv evs (init boot) 0 [] s out (sinv_init boot) S0 ltac:(lia) H Hs). reflexivity.
Qed.

(* ---------------------------------------------------------------- the kind of the resolution *)
(* a Return for a question that is neither canceled nor a bootstrap resolves its local call in the
   same step, with class 0 (results) or 1 (an error for the caller); class 0 only for a results
   Return (an exception Return, any other kind of Return and unreadable results give class 1).
   With [call_resolves_once] this is THE resolution of that call. *)
Theorem return_resolves_kind : forall qid rpc k s s0 o0 ab q, handle_return cfg_fixed qid rpc k s = Ok (s0, o0, ab) ->
  tget qid (s_qs s) = Some q -> q_fin q = false -> q_boot q = None ->
  exists c, In (LAppRes (q_call q) c) o0 /\ (c = 0 \/ c = 1) /\ (c = 0 -> exists p, k = RkResults (Some p)).
Proof.
  intros qid rpc k s s0 o0 ab q H Eq Ef Eb. unfold handle_return in H. rewrite Eq in H.
  set (sa := set_qs (tclear qid (s_qs s)) s) in *.
  destruct (if fx19 cfg_fixed && rpc then let '(s1, cl, _) := release_exports (q_prefs q) sa in (s1, cl) else (sa, [])) as [s1 pc].
  rewrite Ef in H.
  match type of H with (bind ?r _) = _ => destruct r as [[[[s2 parsed] tor] disemb]| |] eqn:EP; cbn [bind] in H; try discriminate end.
  rewrite Eb in H.
  assert (PK : (exists p, k = RkResults (Some p)) \/ parsed = None).
  { destruct k as [[p|]| |]; [left; eauto|right|right|right]; inversion EP; subst; reflexivity. }
  destruct parsed as [[kc tab]|].
  - destruct PK as [PK|PK]; [|discriminate].
    match type of H with (bind ?r _) = _ => destruct r as [[s3 o3]| |] eqn:E3; cbn [bind] in H; try discriminate end.
    destruct (release_caps cfg_fixed tab s2) as [[s4 o4]| |]; cbn [bind] in E3; try discriminate. inversion E3; subst.
    destruct (release_caps cfg_fixed pc s3) as [[s5 o5]| |]; cbn [bind] in H; try discriminate. inversion H; subst.
    exists 0. split; [apply in_or_app; right; right; left; reflexivity|split; [left; reflexivity|intros _; exact PK]].
  - match type of H with (bind ?r _) = _ => destruct r as [[s3 o3]| |] eqn:E3; cbn [bind] in H; try discriminate end.
    destruct (release_caps cfg_fixed tor s2) as [[s4 o4]| |]; cbn [bind] in E3; try discriminate. inversion E3; subst.
    destruct (release_caps cfg_fixed pc s3) as [[s5 o5]| |]; cbn [bind] in H; try discriminate. inversion H; subst.
    exists 1. split; [apply in_or_app; right; right; left; reflexivity|split; [right; reflexivity|discriminate]].
Qed.

(* ---------------------------------------------------------------- where the machine leaves rpc.Conn: a peer that answers an unsent question *)
(* [AHold] is a local call whose PlaceArgs callback blocks: its question is allocated, nothing is
   sent.  A peer that keeps to the protocol cannot name that question (it has not seen its Call).
   If a Return names it nevertheless, the machine resolves the call at once and [AUnhold] sends
   nothing, whereas importClient.Send still writes the Call with the (already freed) id once
   PlaceArgs is through -- the id can then be on the wire twice without a Finish in between.
   [late_free] says that no event of a history is such a Return; the history-level statements about
   question ids are statements about rpc.Conn for late_free histories only. *)
Definition ret_held (s : state) (e : event) : bool :=
  match e with
  | MReturn qid _ _ => match tget qid (s_qs s) with Some q => held q | None => false end
  | _ => false
  end.
Fixpoint late_free (s : state) (evs : list event) : bool :=
  match evs with
  | [] => true
  | e :: r => if ret_held s e then false
              else match step cfg_fixed s e with Ok (s1, _) => late_free s1 r | _ => true end
  end.
Definition imp5 : payload := mkPayload true false (KCap 0) (Some [DSH 5]).
Definition h_late : list event :=
  [ABootstrap; MReturn 0 false (RkResults (Some imp5)); AHold 0; MReturn 0 false (RkExc true); ACall 0 [] 7; AUnhold 0].
Definition calls0 (o : list output) : nat := cnt (is_issue 0) o.
(* the reviewer's history: not late_free (its 4th event answers the held question 0); the machine
   issues id 0 twice (the Bootstrap and the call c0) with a Finish between -- the Call of the held
   call is never sent by the machine, rpc.Conn sends it after c0's *)
Example late_return_history : late_free (init true) h_late = false /\
  late_free (init true) (firstn 3 h_late) = true /\
  match run_o (init true) h_late [] with Ok (_, o) => calls0 o = 2%nat /\ cnt (is_finish 0) o = 2%nat | _ => False end.
Proof. vm_compute. repeat split; reflexivity. Qed.

(* [app_return_result] is not vacuous: after Bootstrap and a Call on the bootstrap export the answer
   1 runs on a server; when the server returns, the step sends the results Return for 1.  The
   descriptor list is all the machine keeps of a Return's content ([OReturnRes id ds]): two
   different results without capabilities give the same output. *)
Definition h_ret (fs : list rfield) : list event :=
  [MBootstrap 0; MCall 1 (TgImp 0) (Some (mkPayload true false (KStruct []) (Some []))) true true 1; AReturn 0 (ARResults fs)].
Example return_reached :
  match run_o (init true) (firstn 2 (h_ret [FOther])) [] with
  | Ok (s, _) => exists a, find_running 0 (s_ans s) = Some (1, a) /\ live s
  | _ => False
  end /\
  match run_o (init true) (h_ret [FOther]) [], run_o (init true) (h_ret [FNull; FNull; FOther]) [] with
  | Ok (_, o1), Ok (_, o2) => In (OReturnRes 1 []) o1 /\ o1 = o2
  | _, _ => False
  end.
Proof.
  split.
  - destruct (run_o (init true) (firstn 2 (h_ret [FOther])) []) as [[s o]| |] eqn:E; vm_compute in E; try discriminate.
    inversion E; subst. eexists. split; [vm_compute; reflexivity|].
    destruct (run_o_inv (firstn 2 (h_ret [FOther])) (init true) 0 [] _ _ (sinv_init true) (qhinv_init true) ltac:(vm_compute; reflexivity) ltac:(vm_compute; reflexivity)) as [_ [W I]].
    unfold sinv in I. simpl in I. split; [reflexivity|apply I].
  - vm_compute. split; [repeat (try (left; reflexivity); right)|reflexivity].
Qed.
