(* L1 protocol machine of /repo/rpc (rpc.go, answer.go, question.go, import.go, export.go,
   idgen.go) at the granularity of ONE HANDLER PER EVENT: every event (a message from the peer,
   an action of the local application) is run to quiescence, the way the correspondence harness
   runs the implementation inside testing/synctest.

   The model follows the code as it is AFTER the repairs listed in [cfg]; every repair is a
   boolean of [cfg], [cfg_fixed] has them all, and the pre-fix behaviour of each handler stays
   executable ([cfg_without ...]) for the [..._refuted] Examples and for the sensitivity runs
   of the driver.

   Outcomes: [Ok], [Panic w] exactly where the Go code panics (nil dereference, nil func call,
   explicit panic; w names the site), [Stuck w] where the handler's goroutine blocks for ever
   (self-deadlock on Conn.mu, sender lock never released).

   No proofs in this file (the model must still extract when a proof breaks).

   Environment assumptions that are built into the types (see docs/C06.md):
   * capabilities which the local application places in call results are local servers or null
     ([rfield]); in call parameters: local servers, imports it holds, null ([acap]);
   * local servers acknowledge delivery at once (server.Call.Ack) and return when the history
     says so ([AReturn]); at connection shutdown every running call returns (cancellation);
   * transport operations succeed (faults are C09's events). *)
From Coq Require Export List ZArith Bool Lia.
Export ListNotations.
Open Scope Z_scope.

(* ------------------------------------------------------------------ outcomes *)
Inductive res (A : Type) : Type := Ok (a : A) | Panic (w : Z) | Stuck (w : Z).
Arguments Ok {A} a. Arguments Panic {A} w. Arguments Stuck {A} w.
Definition bind {A B} (r : res A) (f : A -> res B) : res B :=
  match r with Ok a => f a | Panic w => Panic w | Stuck w => Stuck w end.
Notation "'do' x <- e ; f" := (bind e (fun x => f)) (at level 200, x name, e at level 100, f at level 200).
Notation "'do' ' p <- e ; f" := (bind e (fun x => match x with p => f end))
  (at level 200, p strict pattern, e at level 100, f at level 200).

(* panic / stuck sites *)
Definition W_IDGEN := 1.      (* idgen.next: panic("overflow ID") *)
Definition W_PCALL := 2.      (* tgtAns.pcall.PipelineRecv on a nil PipelineCaller *)
Definition W_INDEX := 3.      (* c.questions[id] = q / c.exports[id] = ee with id > len *)
Definition W_BOOTERR := 4.    (* handleBootstrap: panic(err) *)
Definition W_F14 := 14.       (* handleCall leaves the sender lock taken: every later sender blocks *)
Definition W_F15 := 15.       (* handleCall: annotate(nil) *)
Definition W_F16 := 16.       (* shutdown: a.releaseMsg() is nil *)
Definition W_F17 := 17.       (* handleReturn: clearCapTable(nil) *)
Definition W_F20 := 20.       (* importClient.Shutdown: ent == nil, ent.generation *)
Definition W_F21 := 21.       (* recvPayload releases an import client while holding c.mu *)
Definition W_F22 := 22.       (* embargo.lift: ClientPromise.Fulfill with a released client *)
Definition W_F25 := 25.       (* a Call / Return whose struct pointer is null: call.Message() is nil *)
Definition W_F26 := 26.       (* a Call on an export that is an embargoed capability: embargo.Recv blocks the
                                 receive loop, the only goroutine that can lift the embargo (NOT repaired) *)
Definition W_F24 := 24.       (* handleCall: a Call whose promisedAnswer target is the call itself: nil pcall *)

(* the repairs made in /repo (one `fix:` commit each); false = behaviour before the repair *)
Record cfg := mkCfg { fx14 : bool; fx15 : bool; fx16 : bool; fx17 : bool; fx19 : bool;
                      fx20 : bool; fx21 : bool; fx22 : bool; fx23 : bool; fx24 : bool; fx25 : bool }.
Definition cfg_fixed := mkCfg true true true true true true true true true true true.

(* ------------------------------------------------------------------ wire-level values *)
(* capability descriptors (rpc.capnp CapDescriptor), projected *)
Inductive desc := DNone | DSH (i : Z) | DSP (i : Z) | DRH (i : Z) | DOther.
(* what a *capnp.Client held in a table of the Conn denotes *)
Inductive cap := CNull | CErr | CLocal (j : Z) | CImp (i g : Z) | CEmb (e : Z).
(* payload content, as far as capnp.Transform can see it *)
Inductive pfield := PNull | PCap (k : Z) | POther | PBad.
Inductive content := KNull | KCap (k : Z) | KStruct (fs : list pfield) | KOther.
Inductive tres := TNull | TIface (k : Z) | TValid | TErr.

Definition znth {A} (i : Z) (l : list A) : option A :=
  if (i <? 0) || (Z.of_nat (length l) <=? i) then None else nth_error l (Z.to_nat i).

(* capnp.Transform followed by Ptr.Interface() *)
Definition transform_eval (c : content) (x : list Z) : tres :=
  match x with
  | [] => match c with KNull => TNull | KCap k => TIface k | KStruct _ => TValid | KOther => TValid end
  | f :: rest =>
    match c with
    | KStruct fs =>
      match znth f fs with
      | None | Some PNull => TNull
      | Some PBad => TErr
      | Some (PCap k) => match rest with [] => TIface k | _ => TNull end
      | Some POther => match rest with [] => TValid | _ => TNull end
      end
    | _ => TNull
    end
  end.

Record payload := mkPayload {
  p_valid : bool;                 (* Payload pointer non-null *)
  p_cerr : bool;                  (* payload.Content() fails *)
  p_content : content;
  p_caps : option (list desc) }.  (* None: payload.CapTable() fails *)

Inductive xop := XNoop | XField (f : Z) | XBad.
Inductive target :=
| TgImp (i : Z)
| TgAns (q : Z) (ops : option (list xop))   (* None: PromisedAnswer / Transform unreadable *)
| TgBad                                     (* unknown MessageTarget.Which *)
| TgErr.                                    (* call.Target() fails *)
Inductive retk :=
| RkResults (p : option payload)            (* None: ret.Results() fails *)
| RkExc (readable : bool)
| RkOther.                                  (* canceled, resultsSentElsewhere, takeFromOtherQuestion, acceptFromThirdParty, unknown *)
Inductive dctx := DxSender (i : Z) | DxReceiver (i : Z) | DxOther.

(* application side *)
Inductive rfield := FNull | FLocal (j : Z) | FOther.
Inductive appret := ARResults (fs : list rfield) | AREmpty | ARExc.
Inductive acap := ANull | ALocal (j : Z) | AHandle (h : Z).

Inductive event :=
| MBootstrap (q : Z)
| MCall (q : Z) (tg : target) (params : option payload) (toCaller : bool) (mok : bool) (tag : Z)
| MReturn (a : Z) (rpc : bool) (k : retk)
| MFinish (q : Z) (rrc : bool)
| MRelease (i n : Z)
| MDisembargo (tg : target) (cx : dctx)
| MUnimplemented
| MAbort
| MUnknown                    (* resolve, provide, accept, join, obsolete*, unknown Which *)
| MGarbage                    (* recv.Call()/Return()/... fails: reported, skipped *)
| MNullCall                   (* Message.call / Message.return is a null pointer: the accessors *)
| MNullReturn                 (*   return the zero struct without error *)
| ABootstrap
| ACall (h : Z) (caps : list acap) (tag : Z)
| APipe (q : Z) (x : list Z) (caps : list acap) (tag : Z)
| AReturn (k : Z) (r : appret)
| ARelease (h : Z)
| ACancel (q : Z)
| AHold (h : Z)               (* a call on handle h whose PlaceArgs blocks: keeps the hook busy *)
| AUnhold (n : Z)             (* ... PlaceArgs of the held local call number n returns *)
| AClose.

Inductive otarget := OTImp (i : Z) | OTAns (q : Z) (x : list Z).
Inductive output :=
| OBootstrap (q : Z)
| OCall (q : Z) (tg : otarget) (ds : list desc)
| OReturnRes (a : Z) (ds : list desc)
| OReturnExc (a : Z)
| OFinish (q : Z) (rrc : bool)
| ORelease (i n : Z)
| ODisembargoS (e q : Z) (x : list Z)
| OUnimpl
| OAbort
| LDeliver (srv tag k : Z)          (* local server srv sees the call (k-th delivery) *)
| LAppRes (n cls : Z).              (* local call n resolves: 0 results, 1 exception, 2 canceled, 3 disconnected *)

(* ------------------------------------------------------------------ id generator (idgen.go) *)
Record idgen := mkGen { g_i : Z; g_free : list Z }.
Definition gen0 := mkGen 0 [].
Fixpoint list_min (l : list Z) : option Z :=
  match l with
  | [] => None
  | a :: r => match list_min r with None => Some a | Some m => Some (Z.min a m) end
  end.
Definition zremove (x : Z) (l : list Z) : list Z := filter (fun y => negb (y =? x)) l.
Definition zmem (x : Z) (l : list Z) : bool := existsb (Z.eqb x) l.
Definition gen_next (g : idgen) : res (Z * idgen) :=
  match list_min (g_free g) with
  | Some m => Ok (m, mkGen (g_i g) (zremove m (g_free g)))
  | None => if g_i g =? 4294967295 then Panic W_IDGEN else Ok (g_i g, mkGen (g_i g + 1) (g_free g))
  end.
Definition gen_remove (i : Z) (g : idgen) : idgen :=
  mkGen (g_i g) (if zmem i (g_free g) then g_free g else i :: g_free g).

(* ------------------------------------------------------------------ tables *)
(* Go slices of pointers indexed by id (questions, exports, embargoes) *)
Definition tbl (A : Type) := list (option A).
Definition tget {A} (i : Z) (t : tbl A) : option A :=
  match znth i t with Some (Some a) => Some a | _ => None end.
Fixpoint replace_nth {A} (n : nat) (v : A) (l : list A) : list A :=
  match l, n with
  | [], _ => []
  | _ :: r, O => v :: r
  | a :: r, S m => a :: replace_nth m v r
  end.
(* `if id == len(t) { t = append(t, v) } else { t[id] = v }` : Panic beyond the end *)
Definition tput {A} (i : Z) (v : A) (t : tbl A) : res (tbl A) :=
  if i =? Z.of_nat (length t) then Ok (t ++ [Some v])
  else if (0 <=? i) && (i <? Z.of_nat (length t)) then Ok (replace_nth (Z.to_nat i) (Some v) t)
  else Panic W_INDEX.
Definition tclear {A} (i : Z) (t : tbl A) : tbl A :=
  if (0 <=? i) && (i <? Z.of_nat (length t)) then replace_nth (Z.to_nat i) None t else t.
Definition tcount {A} (t : tbl A) : Z :=
  Z.of_nat (length (filter (fun o => match o with Some _ => true | None => false end) t)).

(* Go maps keyed by id *)
Fixpoint aget {A} (k : Z) (m : list (Z * A)) : option A :=
  match m with
  | [] => None
  | (k', v) :: r => if k' =? k then Some v else aget k r
  end.
Fixpoint adel {A} (k : Z) (m : list (Z * A)) : list (Z * A) :=
  match m with
  | [] => []
  | (k', v) :: r => if k' =? k then adel k r else (k', v) :: adel k r
  end.
Definition aput {A} (k : Z) (v : A) (m : list (Z * A)) : list (Z * A) := (k, v) :: adel k m.
(* counters *)
Definition cget (k : Z) (m : list (Z * Z)) : Z := match aget k m with Some v => v | None => 0 end.
Definition cadd (k d : Z) (m : list (Z * Z)) : list (Z * Z) := aput k (cget k m + d) m.

(* ------------------------------------------------------------------ entries *)
Inductive astate := AIdle | ARunning (srv : Z) | AQueued (on : Z) (x : list Z).
Record answer := mkAns {
  a_ret : bool;                 (* returnSent *)
  a_fin : bool;                 (* finishReceived *)
  a_ready : bool;               (* resultsReady *)
  a_rrc : bool;                 (* releaseResultCapsFlag *)
  a_ph : bool;                  (* placeholder: ret invalid, sendMsg/releaseMsg nil *)
  a_err : bool;                 (* err != nil *)
  a_content : content;          (* results content *)
  a_rct : list (option Z);      (* resultCapTable: local server or null *)
  a_xrefs : list (Z * Z);       (* exportRefs *)
  a_st : astate;                (* where the call is: pcall is non-nil iff not AIdle *)
  a_args : list cap;            (* the call message's CapTable until ReleaseArgs *)
  a_mok : bool;                 (* the servers implement the method *)
  a_tag : Z;
  a_deliv : Z }.
Definition set_a_st (v : astate) (a : answer) :=
  mkAns (a_ret a) (a_fin a) (a_ready a) (a_rrc a) (a_ph a) (a_err a) (a_content a) (a_rct a) (a_xrefs a) v (a_args a) (a_mok a) (a_tag a) (a_deliv a).
Definition set_a_args (v : list cap) (a : answer) :=
  mkAns (a_ret a) (a_fin a) (a_ready a) (a_rrc a) (a_ph a) (a_err a) (a_content a) (a_rct a) (a_xrefs a) (a_st a) v (a_mok a) (a_tag a) (a_deliv a).
Definition set_a_deliv (v : Z) (a : answer) :=
  mkAns (a_ret a) (a_fin a) (a_ready a) (a_rrc a) (a_ph a) (a_err a) (a_content a) (a_rct a) (a_xrefs a) (a_st a) (a_args a) (a_mok a) (a_tag a) v.
Definition set_a_fin (rrc : bool) (a : answer) :=
  mkAns (a_ret a) true (a_ready a) (a_rrc a || rrc) (a_ph a) (a_err a) (a_content a) (a_rct a) (a_xrefs a) (a_st a) (a_args a) (a_mok a) (a_tag a) (a_deliv a).
Definition new_answer (args : list cap) (mok : bool) (tag : Z) : answer :=
  mkAns false false false false false false KNull [] [] AIdle args mok tag (-1).

Record question := mkQ {
  q_boot : option Z;            (* bootstrapPromise: the handle it resolves *)
  q_call : Z;                   (* number of the local call (LAppRes) *)
  q_fin : bool;                 (* finished (canceled; the Finish was sent) *)
  q_called : list (list Z);     (* transforms pipelined on *)
  q_prefs : list (Z * Z);       (* export references placed in the params (fix F19) *)
  q_held : option (Z * Z * list acap) }. (* a held call: import id, generation, params; nothing sent yet *)

Definition expent := (cap * Z)%type.        (* client, wireRefs *)
Record impent := mkImp { i_wire : Z; i_gen : Z; i_refs : Z }.
                                            (* i_refs: strong references on the current client;
                                               0 = dead, its Shutdown is still to run (s_dead) *)
Record embent := mkEmb { e_cap : cap; e_refs : Z }.
                                            (* e_refs strong references on the promised client *)
Inductive hstate := HBoot (q : Z) | HCap (c : cap) | HGone.
Record state := mkState {
  s_shut : bool;
  s_boot : bool;
  s_qs : tbl question;
  s_qgen : idgen;
  s_ans : list (Z * answer);
  s_exp : tbl expent;
  s_egen : idgen;
  s_imp : list (Z * impent);
  s_impgen : Z;
  s_emb : tbl embent;
  s_mgen : idgen;
  s_queue : list Z;
  s_handles : list hstate;
  s_lrefs : list (Z * Z);
  s_ndeliv : Z;
  s_ncall : Z;
  s_allocs : Z;
  s_busy : list (Z * Z * Z);
  s_dead : list (Z * Z);
  s_lcalls : list (Z * Z);
  s_ecalls : list (Z * Z * Z);
  s_sent : list (Z * Z);
  s_rel : list (Z * Z);
  s_recv : list (Z * Z);          (* ghost: descriptors received per import id (addImport calls) *)
  s_out : list output
}.
Definition set_shut (v : bool) (s : state) : state := mkState v (s_boot s) (s_qs s) (s_qgen s) (s_ans s) (s_exp s) (s_egen s) (s_imp s) (s_impgen s) (s_emb s) (s_mgen s) (s_queue s) (s_handles s) (s_lrefs s) (s_ndeliv s) (s_ncall s) (s_allocs s) (s_busy s) (s_dead s) (s_lcalls s) (s_ecalls s) (s_sent s) (s_rel s) (s_recv s) (s_out s).
Definition set_boot (v : bool) (s : state) : state := mkState (s_shut s) v (s_qs s) (s_qgen s) (s_ans s) (s_exp s) (s_egen s) (s_imp s) (s_impgen s) (s_emb s) (s_mgen s) (s_queue s) (s_handles s) (s_lrefs s) (s_ndeliv s) (s_ncall s) (s_allocs s) (s_busy s) (s_dead s) (s_lcalls s) (s_ecalls s) (s_sent s) (s_rel s) (s_recv s) (s_out s).
Definition set_qs (v : tbl question) (s : state) : state := mkState (s_shut s) (s_boot s) v (s_qgen s) (s_ans s) (s_exp s) (s_egen s) (s_imp s) (s_impgen s) (s_emb s) (s_mgen s) (s_queue s) (s_handles s) (s_lrefs s) (s_ndeliv s) (s_ncall s) (s_allocs s) (s_busy s) (s_dead s) (s_lcalls s) (s_ecalls s) (s_sent s) (s_rel s) (s_recv s) (s_out s).
Definition set_qgen (v : idgen) (s : state) : state := mkState (s_shut s) (s_boot s) (s_qs s) v (s_ans s) (s_exp s) (s_egen s) (s_imp s) (s_impgen s) (s_emb s) (s_mgen s) (s_queue s) (s_handles s) (s_lrefs s) (s_ndeliv s) (s_ncall s) (s_allocs s) (s_busy s) (s_dead s) (s_lcalls s) (s_ecalls s) (s_sent s) (s_rel s) (s_recv s) (s_out s).
Definition set_ans (v : list (Z * answer)) (s : state) : state := mkState (s_shut s) (s_boot s) (s_qs s) (s_qgen s) v (s_exp s) (s_egen s) (s_imp s) (s_impgen s) (s_emb s) (s_mgen s) (s_queue s) (s_handles s) (s_lrefs s) (s_ndeliv s) (s_ncall s) (s_allocs s) (s_busy s) (s_dead s) (s_lcalls s) (s_ecalls s) (s_sent s) (s_rel s) (s_recv s) (s_out s).
Definition set_exp (v : tbl expent) (s : state) : state := mkState (s_shut s) (s_boot s) (s_qs s) (s_qgen s) (s_ans s) v (s_egen s) (s_imp s) (s_impgen s) (s_emb s) (s_mgen s) (s_queue s) (s_handles s) (s_lrefs s) (s_ndeliv s) (s_ncall s) (s_allocs s) (s_busy s) (s_dead s) (s_lcalls s) (s_ecalls s) (s_sent s) (s_rel s) (s_recv s) (s_out s).
Definition set_egen (v : idgen) (s : state) : state := mkState (s_shut s) (s_boot s) (s_qs s) (s_qgen s) (s_ans s) (s_exp s) v (s_imp s) (s_impgen s) (s_emb s) (s_mgen s) (s_queue s) (s_handles s) (s_lrefs s) (s_ndeliv s) (s_ncall s) (s_allocs s) (s_busy s) (s_dead s) (s_lcalls s) (s_ecalls s) (s_sent s) (s_rel s) (s_recv s) (s_out s).
Definition set_imp (v : list (Z * impent)) (s : state) : state := mkState (s_shut s) (s_boot s) (s_qs s) (s_qgen s) (s_ans s) (s_exp s) (s_egen s) v (s_impgen s) (s_emb s) (s_mgen s) (s_queue s) (s_handles s) (s_lrefs s) (s_ndeliv s) (s_ncall s) (s_allocs s) (s_busy s) (s_dead s) (s_lcalls s) (s_ecalls s) (s_sent s) (s_rel s) (s_recv s) (s_out s).
Definition set_impgen (v : Z) (s : state) : state := mkState (s_shut s) (s_boot s) (s_qs s) (s_qgen s) (s_ans s) (s_exp s) (s_egen s) (s_imp s) v (s_emb s) (s_mgen s) (s_queue s) (s_handles s) (s_lrefs s) (s_ndeliv s) (s_ncall s) (s_allocs s) (s_busy s) (s_dead s) (s_lcalls s) (s_ecalls s) (s_sent s) (s_rel s) (s_recv s) (s_out s).
Definition set_emb (v : tbl embent) (s : state) : state := mkState (s_shut s) (s_boot s) (s_qs s) (s_qgen s) (s_ans s) (s_exp s) (s_egen s) (s_imp s) (s_impgen s) v (s_mgen s) (s_queue s) (s_handles s) (s_lrefs s) (s_ndeliv s) (s_ncall s) (s_allocs s) (s_busy s) (s_dead s) (s_lcalls s) (s_ecalls s) (s_sent s) (s_rel s) (s_recv s) (s_out s).
Definition set_mgen (v : idgen) (s : state) : state := mkState (s_shut s) (s_boot s) (s_qs s) (s_qgen s) (s_ans s) (s_exp s) (s_egen s) (s_imp s) (s_impgen s) (s_emb s) v (s_queue s) (s_handles s) (s_lrefs s) (s_ndeliv s) (s_ncall s) (s_allocs s) (s_busy s) (s_dead s) (s_lcalls s) (s_ecalls s) (s_sent s) (s_rel s) (s_recv s) (s_out s).
Definition set_queue (v : list Z) (s : state) : state := mkState (s_shut s) (s_boot s) (s_qs s) (s_qgen s) (s_ans s) (s_exp s) (s_egen s) (s_imp s) (s_impgen s) (s_emb s) (s_mgen s) v (s_handles s) (s_lrefs s) (s_ndeliv s) (s_ncall s) (s_allocs s) (s_busy s) (s_dead s) (s_lcalls s) (s_ecalls s) (s_sent s) (s_rel s) (s_recv s) (s_out s).
Definition set_handles (v : list hstate) (s : state) : state := mkState (s_shut s) (s_boot s) (s_qs s) (s_qgen s) (s_ans s) (s_exp s) (s_egen s) (s_imp s) (s_impgen s) (s_emb s) (s_mgen s) (s_queue s) v (s_lrefs s) (s_ndeliv s) (s_ncall s) (s_allocs s) (s_busy s) (s_dead s) (s_lcalls s) (s_ecalls s) (s_sent s) (s_rel s) (s_recv s) (s_out s).
Definition set_lrefs (v : list (Z * Z)) (s : state) : state := mkState (s_shut s) (s_boot s) (s_qs s) (s_qgen s) (s_ans s) (s_exp s) (s_egen s) (s_imp s) (s_impgen s) (s_emb s) (s_mgen s) (s_queue s) (s_handles s) v (s_ndeliv s) (s_ncall s) (s_allocs s) (s_busy s) (s_dead s) (s_lcalls s) (s_ecalls s) (s_sent s) (s_rel s) (s_recv s) (s_out s).
Definition set_ndeliv (v : Z) (s : state) : state := mkState (s_shut s) (s_boot s) (s_qs s) (s_qgen s) (s_ans s) (s_exp s) (s_egen s) (s_imp s) (s_impgen s) (s_emb s) (s_mgen s) (s_queue s) (s_handles s) (s_lrefs s) v (s_ncall s) (s_allocs s) (s_busy s) (s_dead s) (s_lcalls s) (s_ecalls s) (s_sent s) (s_rel s) (s_recv s) (s_out s).
Definition set_ncall (v : Z) (s : state) : state := mkState (s_shut s) (s_boot s) (s_qs s) (s_qgen s) (s_ans s) (s_exp s) (s_egen s) (s_imp s) (s_impgen s) (s_emb s) (s_mgen s) (s_queue s) (s_handles s) (s_lrefs s) (s_ndeliv s) v (s_allocs s) (s_busy s) (s_dead s) (s_lcalls s) (s_ecalls s) (s_sent s) (s_rel s) (s_recv s) (s_out s).
Definition set_allocs (v : Z) (s : state) : state := mkState (s_shut s) (s_boot s) (s_qs s) (s_qgen s) (s_ans s) (s_exp s) (s_egen s) (s_imp s) (s_impgen s) (s_emb s) (s_mgen s) (s_queue s) (s_handles s) (s_lrefs s) (s_ndeliv s) (s_ncall s) v (s_busy s) (s_dead s) (s_lcalls s) (s_ecalls s) (s_sent s) (s_rel s) (s_recv s) (s_out s).
Definition set_busy (v : list (Z * Z * Z)) (s : state) : state := mkState (s_shut s) (s_boot s) (s_qs s) (s_qgen s) (s_ans s) (s_exp s) (s_egen s) (s_imp s) (s_impgen s) (s_emb s) (s_mgen s) (s_queue s) (s_handles s) (s_lrefs s) (s_ndeliv s) (s_ncall s) (s_allocs s) v (s_dead s) (s_lcalls s) (s_ecalls s) (s_sent s) (s_rel s) (s_recv s) (s_out s).
Definition set_dead (v : list (Z * Z)) (s : state) : state := mkState (s_shut s) (s_boot s) (s_qs s) (s_qgen s) (s_ans s) (s_exp s) (s_egen s) (s_imp s) (s_impgen s) (s_emb s) (s_mgen s) (s_queue s) (s_handles s) (s_lrefs s) (s_ndeliv s) (s_ncall s) (s_allocs s) (s_busy s) v (s_lcalls s) (s_ecalls s) (s_sent s) (s_rel s) (s_recv s) (s_out s).
Definition set_lcalls (v : list (Z * Z)) (s : state) : state := mkState (s_shut s) (s_boot s) (s_qs s) (s_qgen s) (s_ans s) (s_exp s) (s_egen s) (s_imp s) (s_impgen s) (s_emb s) (s_mgen s) (s_queue s) (s_handles s) (s_lrefs s) (s_ndeliv s) (s_ncall s) (s_allocs s) (s_busy s) (s_dead s) v (s_ecalls s) (s_sent s) (s_rel s) (s_recv s) (s_out s).
Definition set_ecalls (v : list (Z * Z * Z)) (s : state) : state := mkState (s_shut s) (s_boot s) (s_qs s) (s_qgen s) (s_ans s) (s_exp s) (s_egen s) (s_imp s) (s_impgen s) (s_emb s) (s_mgen s) (s_queue s) (s_handles s) (s_lrefs s) (s_ndeliv s) (s_ncall s) (s_allocs s) (s_busy s) (s_dead s) (s_lcalls s) v (s_sent s) (s_rel s) (s_recv s) (s_out s).
Definition set_sent (v : list (Z * Z)) (s : state) : state := mkState (s_shut s) (s_boot s) (s_qs s) (s_qgen s) (s_ans s) (s_exp s) (s_egen s) (s_imp s) (s_impgen s) (s_emb s) (s_mgen s) (s_queue s) (s_handles s) (s_lrefs s) (s_ndeliv s) (s_ncall s) (s_allocs s) (s_busy s) (s_dead s) (s_lcalls s) (s_ecalls s) v (s_rel s) (s_recv s) (s_out s).
Definition set_rel (v : list (Z * Z)) (s : state) : state := mkState (s_shut s) (s_boot s) (s_qs s) (s_qgen s) (s_ans s) (s_exp s) (s_egen s) (s_imp s) (s_impgen s) (s_emb s) (s_mgen s) (s_queue s) (s_handles s) (s_lrefs s) (s_ndeliv s) (s_ncall s) (s_allocs s) (s_busy s) (s_dead s) (s_lcalls s) (s_ecalls s) (s_sent s) v (s_recv s) (s_out s).
Definition set_recv (v : list (Z * Z)) (s : state) : state := mkState (s_shut s) (s_boot s) (s_qs s) (s_qgen s) (s_ans s) (s_exp s) (s_egen s) (s_imp s) (s_impgen s) (s_emb s) (s_mgen s) (s_queue s) (s_handles s) (s_lrefs s) (s_ndeliv s) (s_ncall s) (s_allocs s) (s_busy s) (s_dead s) (s_lcalls s) (s_ecalls s) (s_sent s) (s_rel s) v (s_out s).
Definition set_out (v : list output) (s : state) : state := mkState (s_shut s) (s_boot s) (s_qs s) (s_qgen s) (s_ans s) (s_exp s) (s_egen s) (s_imp s) (s_impgen s) (s_emb s) (s_mgen s) (s_queue s) (s_handles s) (s_lrefs s) (s_ndeliv s) (s_ncall s) (s_allocs s) (s_busy s) (s_dead s) (s_lcalls s) (s_ecalls s) (s_sent s) (s_rel s) (s_recv s) v.

(* ------------------------------------------------------------------ initial state *)
Definition init (boot : bool) : state :=
  mkState false boot [] gen0 [] [] gen0 [] 0 [] gen0 [] [] (if boot then [(0, 1)] else []) 0 0 0 [] [] [] [] [] [] [] [].

Definition hres := res (state * list output * bool).   (* bool: the handler's error aborts the connection *)

Definition lref (d j : Z) (s : state) : state := set_lrefs (cadd j d (s_lrefs s)) s.
Definition cap_eqb (x y : cap) : bool :=
  match x, y with
  | CNull, CNull => true
  | CLocal a, CLocal b => a =? b
  | CImp a g, CImp b h => (a =? b) && (g =? h)
  | CEmb a, CEmb b => a =? b
  | _, _ => false                    (* every ErrorClient is its own hook *)
  end.

(* calls in progress on the hook of import client (i, g) *)
Fixpoint busy_get (i g : Z) (l : list (Z * Z * Z)) : Z :=
  match l with
  | [] => 0
  | (i', g', n) :: r => if (i' =? i) && (g' =? g) then n else busy_get i g r
  end.
Fixpoint busy_del (i g : Z) (l : list (Z * Z * Z)) : list (Z * Z * Z) :=
  match l with
  | [] => []
  | (i', g', n) :: r => if (i' =? i) && (g' =? g) then busy_del i g r else (i', g', n) :: busy_del i g r
  end.
Definition busy_add (i g d : Z) (l : list (Z * Z * Z)) : list (Z * Z * Z) :=
  (i, g, busy_get i g l + d) :: busy_del i g l.
Definition dead_mem (i g : Z) (l : list (Z * Z)) : bool :=
  existsb (fun p => (fst p =? i) && (snd p =? g)) l.
Definition dead_del (i g : Z) (l : list (Z * Z)) : list (Z * Z) :=
  filter (fun p => negb ((fst p =? i) && (snd p =? g))) l.

(* ------------------------------------------------------------------ imports (import.go) *)
(* importClient.Shutdown *)
Definition imp_shutdown (c : cfg) (i g : Z) (s : state) : res (state * list output) :=
  if s_shut s then Ok (s, [])                       (* startTask fails *)
  else match aget i (s_imp s) with
       | None => if fx20 c then Ok (s, []) else Panic W_F20
       | Some e =>
         if i_gen e =? g then
           Ok (set_imp (adel i (s_imp s)) s, [ORelease i (i_wire e)])
         else Ok (s, [])
       end.

(* Client.Release on a reference to import client (i, g) *)
Definition imp_release (c : cfg) (i g : Z) (s : state) : res (state * list output) :=
  match aget i (s_imp s) with
  | Some e =>
    if (i_gen e =? g) && (0 <? i_refs e) then
      let e' := mkImp (i_wire e) (i_gen e) (i_refs e - 1) in
      let s1 := set_imp (aput i e' (s_imp s)) s in
      if i_refs e' =? 0 then
        if busy_get i g (s_busy s) =? 0 then imp_shutdown c i g s1
        else Ok (set_dead ((i, g) :: s_dead s) s1, [])      (* Release blocks on h.done *)
      else Ok (s1, [])
    else imp_shutdown c i g s
  | None => imp_shutdown c i g s     (* the entry was deleted under a live client (F20) *)
  end.

(* Conn.addImport *)
Definition bump_recv (i : Z) (s : state) : state := set_recv (cadd i 1 (s_recv s)) s.   (* ghost *)
Definition add_import (c : cfg) (i : Z) (s : state) : state * cap :=
  match aget i (s_imp s) with
  | Some e =>
    if 0 <? i_refs e then
      (bump_recv i (set_imp (aput i (mkImp (i_wire e + 1) (i_gen e) (i_refs e + 1)) (s_imp s)) s), CImp i (i_gen e))
    else
      let g := if fx20 c then s_impgen s + 1 else i_gen e + 1 in
      (bump_recv i (set_impgen (s_impgen s + 1) (set_imp (aput i (mkImp (i_wire e + 1) g 1) (s_imp s)) s)), CImp i g)
  | None =>
    let g := if fx20 c then s_impgen s + 1 else 0 in
    (bump_recv i (set_impgen (s_impgen s + 1) (set_imp (aput i (mkImp 1 g 1) (s_imp s)) s)), CImp i g)
  end.

(* ------------------------------------------------------------------ embargoes (export.go) *)
(* the references of the connection on a local capability held through x *)
Definition lref_cap (d : Z) (x : cap) (s : state) : state :=
  match x with CLocal j => lref d j s | _ => s end.
Definition emb_busy (e : Z) (s : state) : bool := existsb (fun p => fst (fst p) =? e) (s_ecalls s).
(* embargo.Shutdown (the promised client has run out of references).  As repaired (F22) the
   embargoed client e.c is released by whichever of lift / Shutdown comes last; before the repair
   Shutdown released it at once (not before the calls blocked on the hook were through). *)
Definition emb_release (c : cfg) (e : Z) (s : state) : state :=
  match tget e (s_emb s) with
  | Some em =>
    if 0 <? e_refs em then
      let s1 := set_emb (replace_nth (Z.to_nat e) (Some (mkEmb (e_cap em) (e_refs em - 1))) (s_emb s)) s in
      if (e_refs em - 1 =? 0) && negb (emb_busy e s) && negb (fx22 c) then lref_cap (-1) (e_cap em) s1
      else s1
    else s
  | None => s
  end.

Definition release_cap (c : cfg) (x : cap) (s : state) : res (state * list output) :=
  match x with
  | CNull | CErr => Ok (s, [])
  | CLocal j => Ok (lref (-1) j s, [])
  | CImp i g => imp_release c i g s
  | CEmb e => Ok (emb_release c e s, [])
  end.
Fixpoint release_caps (c : cfg) (l : list cap) (s : state) : res (state * list output) :=
  match l with
  | [] => Ok (s, [])
  | x :: r => do '(s1, o1) <- release_cap c x s; do '(s2, o2) <- release_caps c r s1; Ok (s2, o1 ++ o2)
  end.

Definition addref_cap (x : cap) (s : state) : state :=
  match x with
  | CLocal j => lref 1 j s
  | CImp i g =>
    match aget i (s_imp s) with
    | Some e => if (i_gen e =? g) && (0 <? i_refs e)
                then set_imp (aput i (mkImp (i_wire e) (i_gen e) (i_refs e + 1)) (s_imp s)) s else s
    | None => s
    end
  | CEmb e =>
    match tget e (s_emb s) with
    | Some em => if 0 <? e_refs em
                 then set_emb (replace_nth (Z.to_nat e) (Some (mkEmb (e_cap em) (e_refs em + 1))) (s_emb s)) s else s
    | None => s
    end
  | _ => s
  end.

(* embargo.lift: p.Fulfill(e.c) moves the promised client's references to the local server *)
Definition rewrite_handle (e : Z) (x : cap) (h : hstate) : hstate :=
  match h with
  | HCap (CEmb e') => if e' =? e then HCap x else h
  | _ => h
  end.
(* the local calls blocked in embargo.Send are let through, in the order they were made *)
Fixpoint wake_calls (e : Z) (x : cap) (l : list (Z * Z * Z)) (s : state) : state * list output :=
  match l with
  | [] => (s, [])
  | (e', n, tag) :: r =>
    if e' =? e then
      match x with
      | CLocal j =>
        let s1 := set_ndeliv (s_ndeliv s + 1) (set_lcalls ((s_ndeliv s, n) :: s_lcalls s) s) in
        let '(s2, o2) := wake_calls e x r s1 in (s2, LDeliver j tag (s_ndeliv s) :: o2)
      | _ => let '(s2, o2) := wake_calls e x r s in (s2, LAppRes n 1 :: o2)
      end
    else wake_calls e x r s
  end.
Definition lift (c : cfg) (e : Z) (em : embent) (s : state) : res (state * list output) :=
  if (e_refs em =? 0) && negb (emb_busy e s) && negb (fx22 c) then Panic W_F22
  else
    let d := if e_refs em =? 0 then -1 else e_refs em - 1 in
    let s1 := lref_cap d (e_cap em) (set_handles (map (rewrite_handle e (e_cap em)) (s_handles s)) s) in
    let '(s2, o2) := wake_calls e (e_cap em) (s_ecalls s1) s1 in
    Ok (set_ecalls (filter (fun p => negb (fst (fst p) =? e)) (s_ecalls s2)) s2, o2).

(* ------------------------------------------------------------------ receiving payloads (rpc.go recvCap, recvPayload) *)
Inductive rp := RPOk (s : state) (tab : list cap) (loc : list bool) | RPErr (s : state) (partial : list cap).
Fixpoint recv_caps (c : cfg) (ds : list desc) (s : state) (tab : list cap) (loc : list bool) : rp :=
  match ds with
  | [] => RPOk s (rev tab) (rev loc)
  | d :: r =>
    match d with
    | DNone => recv_caps c r s (CNull :: tab) (false :: loc)
    | DSH i | DSP i => let '(s1, x) := add_import c i s in recv_caps c r s1 (x :: tab) (false :: loc)
    | DRH e =>
      match tget e (s_exp s) with
      | Some (x, _) => recv_caps c r (addref_cap x s) (x :: tab) (true :: loc)
      | None => RPErr s (rev tab)
      end
    | DOther => recv_caps c r s (CErr :: tab) (false :: loc)
    end
  end.
Inductive pl := PLOk (s : state) (k : content) (tab : list cap) (loc : list bool) | PLErr (s : state) (partial : list cap).
Definition recv_payload (c : cfg) (p : payload) (s : state) : pl :=
  if negb (p_valid p) then PLOk s KNull [] []
  else if p_cerr p then PLErr s []
  else match p_caps p with
       | None => PLOk s (p_content p) [] []
       | Some ds => match recv_caps c ds s [] [] with
                    | RPOk s1 tab loc => PLOk s1 (p_content p) tab loc
                    | RPErr s1 part => PLErr s1 part
                    end
       end.
(* before fix F21: releaseList(mtab[:i]).release() while c.mu is held; an import client whose
   last reference this is runs importClient.Shutdown, which locks c.mu again *)
Fixpoint release_under_mu (l : list cap) (s : state) : res state :=
  match l with
  | [] => Ok s
  | x :: r =>
    match x with
    | CImp i g =>
      match aget i (s_imp s) with
      | Some e => if (i_gen e =? g) && (i_refs e =? 1) then Stuck W_F21
                  else do '(s1, _) <- imp_release cfg_fixed i g s; release_under_mu r s1
      | None => release_under_mu r s
      end
    | _ => do '(s1, _) <- release_cap cfg_fixed x s; release_under_mu r s1
    end
  end.
(* the error path of recvPayload: what is left for the caller to release after unlocking *)
Definition payload_err (c : cfg) (s : state) (part : list cap) : res (state * list cap) :=
  if fx21 c then Ok (s, part) else do s1 <- release_under_mu part s; Ok (s1, []).

(* ------------------------------------------------------------------ sending payloads (export.go sendCap, fillPayloadCapTable) *)
Fixpoint find_export (x : cap) (t : tbl expent) (i : Z) : option (Z * Z) :=
  match t with
  | [] => None
  | Some (y, w) :: r => if cap_eqb y x then Some (i, w) else find_export x r (i + 1)
  | None :: r => find_export x r (i + 1)
  end.
Definition imp_current (i g : Z) (s : state) : bool :=
  match aget i (s_imp s) with Some e => i_gen e =? g | None => false end.
Definition send_cap (c : cfg) (x : cap) (s : state) : res (state * desc * option Z) :=
  match x with
  | CNull => Ok (s, DNone, None)
  | _ =>
    if match x with CImp i g => imp_current i g s | _ => false end
    then Ok (s, match x with CImp i _ => DRH i | _ => DNone end, None)
    else match find_export x (s_exp s) 0 with
         | Some (id, w) =>
           Ok (set_sent (cadd id 1 (s_sent s)) (set_exp (replace_nth (Z.to_nat id) (Some (x, w + 1)) (s_exp s)) s),
               DSH id, Some id)
         | None =>
           do '(id, g) <- gen_next (s_egen s);
           do t <- tput id (x, 1) (s_exp s);
           Ok (set_sent (cadd id 1 (s_sent s))
                 (set_allocs (s_allocs s + 1) (set_egen g (set_exp t (addref_cap x s)))), DSH id, Some id)
         end
  end.
Fixpoint fill_caps (c : cfg) (l : list cap) (s : state) : res (state * list desc * list (Z * Z)) :=
  match l with
  | [] => Ok (s, [], [])
  | x :: r =>
    do '(s1, d, oe) <- send_cap c x s;
    do '(s2, ds, refs) <- fill_caps c r s1;
    Ok (s2, d :: ds, match oe with Some id => cadd id 1 refs | None => refs end)
  end.

(* export.go releaseExport / releaseExports *)
Definition release_export (id n : Z) (s : state) : state * option cap * bool :=
  match tget id (s_exp s) with
  | None => (s, None, true)
  | Some (x, w) =>
    if n =? w then
      (set_rel (cadd id n (s_rel s)) (set_egen (gen_remove id (s_egen s)) (set_exp (tclear id (s_exp s)) s)), Some x, false)
    else if w <? n then (s, None, true)
    else (set_rel (cadd id n (s_rel s)) (set_exp (replace_nth (Z.to_nat id) (Some (x, w - n)) (s_exp s)) s), None, false)
  end.
Fixpoint release_exports (refs : list (Z * Z)) (s : state) : state * list cap * bool :=
  match refs with
  | [] => (s, [], false)
  | (id, n) :: r =>
    let '(s1, oc, e1) := release_export id n s in
    let '(s2, cl, e2) := release_exports r s1 in
    (s2, match oc with Some x => x :: cl | None => cl end, e1 || e2)
  end.

(* ------------------------------------------------------------------ answers (answer.go) *)
Definition rct_caps (l : list (option Z)) : list cap :=
  map (fun o => match o with Some j => CLocal j | None => CNull end) l.
(* answer.destroy followed by rl.release() once c.mu is released *)
Definition destroy (c : cfg) (id : Z) (a : answer) (s : state) : res (state * list output * bool) :=
  let s1 := set_ans (adel id (s_ans s)) s in
  let '(s2, cl, err) :=
    if a_rrc a && negb (match a_xrefs a with [] => true | _ => false end)
    then release_exports (a_xrefs a) s1 else (s1, [], false) in
  do '(s3, o) <- release_caps c (rct_caps (a_rct a) ++ cl) s2;
  Ok (s3, o, err).

Definition mark_done (err : bool) (a : answer) : answer :=
  mkAns true (a_fin a) true (a_rrc a) (a_ph a) err (a_content a) (a_rct a) (a_xrefs a) AIdle (a_args a) (a_mok a) (a_tag a) (a_deliv a).
Definition zremove_q (id : Z) (s : state) : state := set_queue (zremove id (s_queue s)) s.

(* answer.sendException (with the bookkeeping of its callers: flags, destroy when finished) *)
Definition send_exception (c : cfg) (id : Z) (a : answer) (s : state) : hres :=
  let outs := if s_shut s then [] else [OReturnExc id] in
  let a1 := mark_done true a in
  let s0 := zremove_q id s in
  if a_fin a then
    do '(s1, o, _) <- destroy c id a1 s0; Ok (s1, outs ++ o, false)
  else Ok (set_ans (aput id a1 (s_ans s0)) s0, outs, false).

(* answer.sendReturn: results content k, cap table rct *)
Definition send_return (c : cfg) (id : Z) (a : answer) (k : content) (rct : list (option Z)) (s : state) : hres :=
  do '(s1, ds, refs) <- fill_caps c (rct_caps rct) s;
  let outs := if s_shut s then [] else [OReturnRes id ds] in
  let a1 := mkAns true (a_fin a) true (a_rrc a) (a_ph a) false k rct refs AIdle (a_args a) (a_mok a) (a_tag a) (a_deliv a) in
  let s2 := zremove_q id s1 in
  if a_fin a then
    do '(s3, o, err) <- destroy c id a1 s2; Ok (s3, outs ++ o, err)
  else Ok (set_ans (aput id a1 (s_ans s2)) s2, outs, false).

(* Recv.Reject: ReleaseArgs, then Returner.Return(err) *)
Definition reject (c : cfg) (id : Z) (a : answer) (s : state) : hres :=
  do '(s1, o1) <- release_caps c (a_args a) s;
  do '(s2, o2, ab) <- send_exception c id (set_a_args [] a) s1;
  Ok (s2, o1 ++ o2, ab).

(* Client.RecvCall on the capability a call is addressed to *)
Inductive dtgt := DLocal (j : Z) | DReject | DBlock.
Definition cap_dtgt (x : cap) : dtgt := match x with CLocal j => DLocal j | CEmb _ => DBlock | _ => DReject end.
Definition deliver (c : cfg) (id : Z) (a : answer) (t : dtgt) (s : state) : hres :=
  match t with
  | DLocal j =>
    if a_mok a then
      let a1 := set_a_deliv (s_ndeliv s) (set_a_st (ARunning j) a) in
      let s0 := zremove_q id s in
      Ok (set_ndeliv (s_ndeliv s + 1) (set_ans (aput id a1 (s_ans s0)) s0), [LDeliver j (a_tag a) (s_ndeliv s)], false)
    else reject c id a s
  | DReject => reject c id a s
  | DBlock => Stuck W_F26
  end.
(* the capability a promisedAnswer target designates once the answer has results *)
Definition pipeline_tgt (k : content) (rct : list (option Z)) (x : list Z) : dtgt :=
  match transform_eval k x with
  | TIface i => match znth i rct with Some (Some j) => DLocal j | _ => DReject end
  | _ => DReject
  end.

(* server/answer.go answerQueue: the calls queued (transitively) behind answer r, in arrival order *)
Fixpoint queued_under (ans : list (Z * answer)) (q : list Z) (under : list Z) : list Z :=
  match q with
  | [] => []
  | id :: r =>
    match aget id ans with
    | Some a => match a_st a with
                | AQueued on _ => if zmem on under then id :: queued_under ans r (id :: under) else queued_under ans r under
                | _ => queued_under ans r under
                end
    | None => queued_under ans r under
    end
  end.
Fixpoint reject_all (c : cfg) (ids : list Z) (s : state) : hres :=
  match ids with
  | [] => Ok (s, [], false)
  | id :: r =>
    match aget id (s_ans s) with
    | Some a => do '(s1, o1, b1) <- reject c id a s; do '(s2, o2, b2) <- reject_all c r s1; Ok (s2, o1 ++ o2, b1 || b2)
    | None => reject_all c r s
    end
  end.
(* answerQueue.fulfill of answer r: the queue (everything queued behind r, transitively, in
   arrival order) is drained in order.  A call queued on r itself is delivered to the capability
   its transform designates in the results; a call queued behind an earlier entry follows that
   entry: rejected with it, or (the entry now runs on a server) it waits in that call's queue.
   Before fix F23 queueCaller numbered the entries one too low: a call queued behind entry i was
   resolved against entry i-1, the first one against the results of r itself. *)
Fixpoint index_of (x : Z) (l : list Z) (i : nat) : option nat :=
  match l with
  | [] => None
  | y :: r => if y =? x then Some i else index_of x r (S i)
  end.
Definition eff_parent (c : cfg) (r : Z) (lst : list Z) (p : Z) : Z :=
  if fx23 c || (p =? r) then p
  else match index_of p lst 0 with
       | Some O => r
       | Some (S i) => nth i lst p
       | None => p
       end.
Fixpoint drain (c : cfg) (r : Z) (k : content) (rct : list (option Z)) (lst ids : list Z) (s : state) : hres :=
  match ids with
  | [] => Ok (s, [], false)
  | id :: rest =>
    do '(s1, o1, b1) <-
      match aget id (s_ans s) with
      | Some a =>
        match a_st a with
        | AQueued p x =>
          let ep := eff_parent c r lst p in
          if ep =? r then deliver c id a (pipeline_tgt k rct x) s
          else match aget ep (s_ans s) with
               | Some b =>
                 if a_ready b then
                   if a_err b then reject c id a s
                   else deliver c id a (pipeline_tgt (a_content b) (a_rct b) x) s
                 else Ok (set_ans (aput id (set_a_st (AQueued ep x) a) (s_ans s)) s, [], false)
               | None => reject c id a s
               end
        | _ => Ok (s, [], false)
        end
      | None => Ok (s, [], false)
      end;
    do '(s2, o2, b2) <- drain c r k rct lst rest s1;
    Ok (s2, o1 ++ o2, b1 || b2)
  end.

(* ------------------------------------------------------------------ shutdown (rpc.go) *)
Fixpoint release_all_args (c : cfg) (l : list (Z * answer)) (s : state) : res (state * list output) :=
  match l with
  | [] => Ok (s, [])
  | (_, a) :: r => do '(s1, o1) <- release_caps c (a_args a) s; do '(s2, o2) <- release_all_args c r s1; Ok (s2, o1 ++ o2)
  end.
Fixpoint lift_all (c : cfg) (t : tbl embent) (i : Z) (s : state) : res (state * list output) :=
  match t with
  | [] => Ok (s, [])
  | Some em :: r => do '(s1, o1) <- lift c i em s; do '(s2, o2) <- lift_all c r (i + 1) s1; Ok (s2, o1 ++ o2)
  | None :: r => lift_all c r (i + 1) s
  end.
Fixpoint release_answers (c : cfg) (l : list (Z * answer)) (s : state) : res (state * list output) :=
  match l with
  | [] => Ok (s, [])
  | (_, a) :: r =>
    do '(s1, o1) <- release_caps c (rct_caps (a_rct a)) s;
    if a_ph a && negb (fx16 c) then Panic W_F16                  (* a.releaseMsg() *)
    else do '(s2, o2) <- release_answers c r s1; Ok (s2, o1 ++ o2)
  end.
Definition exp_clients (t : tbl expent) : list cap :=
  flat_map (fun o => match o with Some (x, _) => [x] | None => [] end) t.
(* local calls still waiting: rejected with "connection closed"; held calls finish sending first *)
Fixpoint fail_questions (t : tbl question) (i : Z) : list output :=
  match t with
  | [] => []
  | Some q :: r =>
    (match q_held q with Some (imp, _, _) => [OCall i (OTImp imp) []] | None => [] end) ++
    (if q_fin q || (q_call q <? 0) then [] else [LAppRes (q_call q) 3]) ++ fail_questions r (i + 1)
  | None :: r => fail_questions r (i + 1)
  end.
Definition fail_handle (h : hstate) : hstate := match h with HBoot _ => HCap CErr | _ => h end.

Definition do_shutdown (c : cfg) (abort : bool) (s : state) : res (state * list output) :=
  let s0 := set_shut true s in
  (* tasks.Wait(): every running / queued call returns (cancelled); its arguments are released *)
  do '(s1, o1) <- release_all_args c (s_ans s0) s0;
  let oq := fail_questions (s_qs s1) 0 in
  let answers := s_ans s1 in
  let exports := s_exp s1 in
  let s2 := set_handles (map fail_handle (s_handles s1))
            (set_queue [] (set_busy [] (set_dead [] (set_imp [] (set_exp [] (set_qs [] (set_ans [] s1))))))) in
  let s3 := if s_boot s2 then set_boot false (lref (-1) 0 s2) else s2 in
  do '(s4, o4) <- release_caps c (exp_clients exports) s3;
  (* an exported embargoed client may just have lost its last reference *)
  let embargoes := s_emb s4 in
  do '(s5, o5) <- lift_all c embargoes 0 (set_emb [] s4);
  do '(s6, o6) <- release_answers c answers s5;
  Ok (s6, o1 ++ oq ++ o4 ++ o5 ++ o6 ++ (if abort then [OAbort] else [])).

(* ------------------------------------------------------------------ handlers for peer messages (rpc.go) *)

Definition handle_bootstrap (c : cfg) (id : Z) (s : state) : hres :=
  match aget id (s_ans s) with
  | Some _ => Ok (s, [], true)                                  (* answer ID reused *)
  | None =>
    let a := new_answer [] true 0 in
    if negb (s_boot s) then send_exception c id a s
    else
      (* setBootstrap(c.bootstrap.AddRef()); sendReturn *)
      do '(s1, o, err) <- send_return c id a (KCap 0) [Some 0] (lref 1 0 s);
      if err then Panic W_BOOTERR else Ok (s1, o, false)
  end.

Fixpoint parse_xops (ops : list xop) : option (list Z) :=
  match ops with
  | [] => Some []
  | XNoop :: r => parse_xops r
  | XField f :: r => match parse_xops r with Some l => Some (f :: l) | None => None end
  | XBad :: _ => None
  end.
Inductive ptarget := PImp (i : Z) | PAns (q : Z) (x : list Z).
Definition parse_target (tg : target) : option ptarget :=
  match tg with
  | TgImp i => Some (PImp i)
  | TgAns q (Some ops) => match parse_xops ops with Some x => Some (PAns q x) | None => None end
  | _ => None
  end.

Definition placeholder : answer := mkAns false false false false true false KNull [] [] AIdle [] true 0 (-1).

Definition handle_call (c : cfg) (id : Z) (tg : target) (params : option payload) (toCaller mok : bool) (tag : Z) (s : state) : hres :=
  if negb toCaller then Ok (s, [OUnimpl], false)
  else match aget id (s_ans s) with
  | Some _ => Ok (s, [], true)                                  (* answer ID reused *)
  | None =>
    (* parseCall *)
    do '(s1, parsed, torelease) <-
      match params with
      | None => Ok (s, None, [])
      | Some p =>
        match recv_payload c p s with
        | PLErr s1 part => do '(s2, rest) <- payload_err c s1 part; Ok (s2, None, rest)
        | PLOk s1 _ tab _ =>
          match parse_target tg with
          | Some pt => Ok (s1, Some (pt, tab), [])
          | None => Ok (s1, None, tab)
          end
        end
      end;
    match parsed with
    | None =>
      if negb (fx15 c) then Panic W_F15                         (* annotate(err) with err == nil *)
      else
        do '(s2, o2, _) <- send_exception c id (new_answer [] mok tag) s1;
        do '(s3, o3) <- release_caps c torelease s2;            (* clearCapTable(call.Message()) *)
        Ok (s3, o2 ++ o3, false)
    | Some (pt, tab) =>
      let a := new_answer tab mok tag in
      let unknown :=
        (* the placeholder stays in the table; the receive loop returns the error *)
        do '(s2, o2) <- release_caps c tab (set_ans (aput id placeholder (s_ans s1)) s1);
        Ok (s2, o2, true) in
      match pt with
      | PImp e =>
        match tget e (s_exp s1) with
        | None => unknown
        | Some (x, _) => deliver c id a (cap_dtgt x) s1
        end
      | PAns t x =>
        (* c.answers[id] = ans comes before the lookup: a call may name itself *)
        if (t =? id) && negb (fx24 c) then Panic W_F24 else
        if t =? id then unknown else
        match aget t (s_ans s1) with
        | None => unknown
        | Some ta =>
          if a_fin ta then unknown
          else if a_ready ta then
            if a_err ta then reject c id a s1
            else deliver c id a (pipeline_tgt (a_content ta) (a_rct ta) x) s1
          else
            match a_st ta with
            | AIdle => Panic W_PCALL
            | _ =>
              let s2 := set_queue (s_queue s1 ++ [id]) (set_ans (aput id (set_a_st (AQueued t x) a) (s_ans s1)) s1) in
              (* before fix F14 the sender lock is never released: the connection is wedged *)
              if fx14 c then Ok (s2, [], false) else Stuck W_F14
            end
        end
      end
    end
  end.

(* parseReturn: embargo the local capabilities the application has pipelined calls on *)
Fixpoint embargo_caps (c : cfg) (qid : Z) (k : content) (called : list (list Z)) (loc : list bool)
         (done : list Z) (tab : list cap) (s : state) : res (state * list cap * list output) :=
  match called with
  | [] => Ok (s, tab, [])
  | x :: r =>
    match transform_eval k x with
    | TIface i =>
      match znth i tab, znth i loc with
      | Some lc, Some true =>
        if zmem i done then embargo_caps c qid k r loc done tab s
        else
        do '(e, g) <- gen_next (s_mgen s);
        do t <- tput e (mkEmb lc 1) (s_emb s);
        let s1 := set_allocs (s_allocs s + 1) (set_mgen g (set_emb t s)) in
        do '(s2, tab2, o2) <- embargo_caps c qid k r loc (i :: done) (replace_nth (Z.to_nat i) (CEmb e) tab) s1;
        Ok (s2, tab2, ODisembargoS e qid x :: o2)
      | _, _ => embargo_caps c qid k r loc done tab s
      end
    | _ => embargo_caps c qid k r loc done tab s
    end
  end.

Definition set_handle (h : Z) (v : hstate) (s : state) : state :=
  set_handles (replace_nth (Z.to_nat h) v (s_handles s)) s.

Definition handle_return (c : cfg) (qid : Z) (rpc : bool) (k : retk) (s : state) : hres :=
  match tget qid (s_qs s) with
  | None => Ok (s, [], true)                                    (* question does not exist *)
  | Some q =>
    let s0 := set_qs (tclear qid (s_qs s)) s in
    (* fix F19: Return.releaseParamCaps (errors are ignored: the references are gone either way);
       the clients are released when the handler returns *)
    let '(s1, pclients) :=
      if fx19 c && rpc then let '(s1, cl, _) := release_exports (q_prefs q) s0 in (s1, cl) else (s0, []) in
    if q_fin q then
      do '(s2, o2) <- release_caps c pclients (set_qgen (gen_remove qid (s_qgen s1)) s1);
      Ok (s2, o2, false)
    else
    (* parseReturn: Some (content, cap table) or None for pr.err != nil *)
    do '(s2, parsed, torelease, disemb) <-
      match k with
      | RkResults None => Ok (s1, None, [], [])
      | RkResults (Some p) =>
        match recv_payload c p s1 with
        | PLErr s2 part => do '(s3, rest) <- payload_err c s2 part; Ok (s3, None, rest, [])
        | PLOk s2 kc tab loc =>
          do '(s3, tab3, o3) <- embargo_caps c qid kc (q_called q) loc [] tab s2;
          Ok (s3, Some (kc, tab3), [], o3)
        end
      | RkExc _ => Ok (s1, None, [], [])
      | RkOther => Ok (s1, None, [], [])
      end;
    (* resolve the local promise; the application drops the answer at once *)
    do '(s3, o3) <-
      match q_boot q, parsed with
      | Some h, Some (kc, tab) =>
        if negb (fx17 c) && match kc with KNull => true | _ => false end then Panic W_F17
        else
          let x := match transform_eval kc [] with
                   | TIface i => match znth i tab with Some x => x | None => CNull end
                   | TValid => CErr
                   | _ => CNull
                   end in
          do '(s4, o4) <- release_caps c tab (set_handle h (HCap x) (addref_cap x s2));
          Ok (s4, o4)
      | Some h, None => do '(s4, o4) <- release_caps c torelease (set_handle h (HCap CErr) s2); Ok (s4, o4)
      | None, Some (_, tab) => do '(s4, o4) <- release_caps c tab s2; Ok (s4, LAppRes (q_call q) 0 :: o4)
      | None, None => do '(s4, o4) <- release_caps c torelease s2; Ok (s4, LAppRes (q_call q) 1 :: o4)
      end;
    do '(s5, o5) <- release_caps c pclients s3;
    Ok (set_qgen (gen_remove qid (s_qgen s5)) s5, disemb ++ [OFinish qid false] ++ o3 ++ o5, false)
  end.

Definition handle_finish (c : cfg) (id : Z) (rrc : bool) (s : state) : hres :=
  match aget id (s_ans s) with
  | None => Ok (s, [], true)
  | Some a =>
    if a_fin a then Ok (s, [], true)
    else
      let a1 := set_a_fin rrc a in
      if negb (a_ret a) then Ok (set_ans (aput id a1 (s_ans s)) s, [], false)
      else
        destroy c id a1 s
  end.

Definition handle_release (c : cfg) (id n : Z) (s : state) : hres :=
  let '(s1, oc, err) := release_export id n s in
  if err then Ok (s, [], true)
  else match oc with
       | Some x => do '(s2, o) <- release_cap c x s1; Ok (s2, o, false)
       | None => Ok (s1, [], false)
       end.

Definition handle_disembargo (c : cfg) (tg : target) (cx : dctx) (s : state) : hres :=
  match parse_target tg with
  | None => Ok (s, [], true)
  | Some pt =>
    match cx with
    | DxReceiver e =>
      match tget e (s_emb s) with
      | None => Ok (s, [], true)
      | Some em =>
        do '(s1, o1) <- lift c e em (set_mgen (gen_remove e (s_mgen s)) (set_emb (tclear e (s_emb s)) s));
        Ok (s1, o1, false)
      end
    | DxSender _ =>
      (* answers hold local capabilities only, so the request can never name an import:
         every path ends in a protocol error *)
      Ok (s, [], true)
    | DxOther => Ok (s, [OUnimpl], false)
    end
  end.

(* ------------------------------------------------------------------ application actions *)
Definition hget (h : Z) (s : state) : hstate := match znth h (s_handles s) with Some v => v | None => HGone end.
Definition acap_cap (s : state) (a : acap) : cap :=
  match a with
  | ANull => CNull
  | ALocal j => CLocal j
  | AHandle h => match hget h s with HCap x => x | _ => CNull end
  end.
Definition new_question (q : question) (s : state) : res (state * Z) :=
  do '(id, g) <- gen_next (s_qgen s);
  do t <- tput id q (s_qs s);
  Ok (set_allocs (s_allocs s + 1) (set_qgen g (set_qs t s)), id).

Definition app_bootstrap (c : cfg) (s : state) : hres :=
  let h := Z.of_nat (length (s_handles s)) in
  if s_shut s then Ok (set_handles (s_handles s ++ [HCap CErr]) s, [], false)
  else
    do '(s1, id) <- new_question (mkQ (Some h) (-1) false [] [] None) s;
    Ok (set_handles (s_handles s1 ++ [HBoot id]) s1, [OBootstrap id], false).

Definition next_call (s : state) : state * Z := (set_ncall (s_ncall s + 1) s, s_ncall s).

Definition mark_called (x : list Z) (q : question) : question :=
  if existsb (fun y => if list_eq_dec Z.eq_dec x y then true else false) (q_called q) then q
  else mkQ (q_boot q) (q_call q) (q_fin q) (q_called q ++ [x]) (q_prefs q) (q_held q).

(* question.PipelineSend *)
Definition app_pipe (c : cfg) (q0 : Z) (x : list Z) (caps : list acap) (s : state) : hres :=
  let '(s0, n) := next_call s in
  if s_shut s0 then Ok (s0, [LAppRes n 3], false)
  else match tget q0 (s_qs s0) with
  | None => Ok (s0, [LAppRes n 1], false)
  | Some q =>
    if q_fin q then Ok (s0, [LAppRes n 1], false)
    else
      let s1 := set_qs (replace_nth (Z.to_nat q0) (Some (mark_called x q)) (s_qs s0)) s0 in
      do '(s2, id) <- new_question (mkQ None n false [] [] None) s1;
      do '(s3, ds, refs) <- fill_caps c (map (acap_cap s2) caps) s2;
      let s4 := if fx19 c then set_qs (replace_nth (Z.to_nat id) (Some (mkQ None n false [] refs None)) (s_qs s3)) s3 else s3 in
      Ok (s4, [OCall id (OTAns q0 x) ds], false)
  end.

(* importClient.Send *)
Definition app_call (c : cfg) (h : Z) (caps : list acap) (tag : Z) (s : state) : hres :=
  match hget h s with
  | HBoot q0 => app_pipe c q0 [] caps s
  | HCap (CImp i g) =>
    let '(s0, n) := next_call s in
    if s_shut s0 then Ok (s0, [LAppRes n 3], false)
    else if negb (imp_current i g s0) then Ok (s0, [LAppRes n 3], false)
    else
      do '(s2, id) <- new_question (mkQ None n false [] [] None) s0;
      do '(s3, ds, refs) <- fill_caps c (map (acap_cap s2) caps) s2;
      let s4 := if fx19 c then set_qs (replace_nth (Z.to_nat id) (Some (mkQ None n false [] refs None)) (s_qs s3)) s3 else s3 in
      Ok (s4, [OCall id (OTImp i) ds], false)
  | HCap (CLocal j) =>
    (* the handle has resolved to a capability of this vat: the call goes to the server directly *)
    let '(s0, n) := next_call s in
    Ok (set_ndeliv (s_ndeliv s0 + 1) (set_lcalls ((s_ndeliv s0, n) :: s_lcalls s0) s0), [LDeliver j tag (s_ndeliv s0)], false)
  | HCap (CEmb e) =>
    (* embargo.Send blocks until the Disembargo has come back *)
    let '(s0, n) := next_call s in Ok (set_ecalls (s_ecalls s0 ++ [(e, n, tag)]) s0, [], false)
  | _ => let '(s0, n) := next_call s in Ok (s0, [LAppRes n 1], false)
  end.

(* a call whose PlaceArgs blocks: the question exists, nothing is sent, the hook stays busy *)
Definition app_hold (c : cfg) (h : Z) (s : state) : hres :=
  let '(s0, n) := next_call s in
  match hget h s0 with
  | HCap (CImp i g) =>
    if s_shut s0 || negb (imp_current i g s0) then Ok (s0, [LAppRes n 3], false)
    else
      do '(s2, id) <- new_question (mkQ None n false [] [] (Some (i, g, []))) s0;
      Ok (set_busy (busy_add i g 1 (s_busy s2)) s2, [], false)
  | _ => Ok (s0, [LAppRes n 1], false)
  end.
(* the held call number n: PlaceArgs returns, the Call is sent *)
Fixpoint find_held (n : Z) (t : tbl question) (i : Z) : option (Z * question) :=
  match t with
  | [] => None
  | Some q :: r =>
    if (q_call q =? n) && match q_held q with Some _ => true | None => false end then Some (i, q)
    else find_held n r (i + 1)
  | None :: r => find_held n r (i + 1)
  end.
Definition app_unhold (c : cfg) (n : Z) (s : state) : hres :=
  match find_held n (s_qs s) 0 with
  | Some (qid, q) =>
    match q_held q with
    | Some (i, g, _) =>
      if s_shut s then Ok (s, [], false) else
      let s1 := set_qs (replace_nth (Z.to_nat qid) (Some (mkQ None (q_call q) (q_fin q) [] [] None)) (s_qs s)) s in
      let s2 := set_busy (busy_add i g (-1) (s_busy s1)) s1 in
      if (busy_get i g (s_busy s2) =? 0) && dead_mem i g (s_dead s2) then
        do '(s3, o3) <- imp_shutdown c i g (set_dead (dead_del i g (s_dead s2)) s2);
        Ok (s3, OCall qid (OTImp i) [] :: o3, false)
      else Ok (s2, [OCall qid (OTImp i) []], false)
    | None => Ok (s, [], false)
    end
  | None => Ok (s, [], false)
  end.

(* question.handleCancel on cancellation of the call's context *)
Definition cancel_question (qid : Z) (q : question) (s : state) : res (state * list output) :=
  Ok (set_qs (replace_nth (Z.to_nat qid) (Some (mkQ (q_boot q) (q_call q) true (q_called q) (q_prefs q) (q_held q))) (s_qs s)) s,
      [OFinish qid true]).
Definition app_cancel (c : cfg) (qid : Z) (s : state) : hres :=
  if s_shut s then Ok (s, [], false)
  else match tget qid (s_qs s) with
  | Some q =>
    if q_fin q || (q_call q <? 0) || match q_held q with Some _ => true | None => false end then Ok (s, [], false)
    else do '(s1, o) <- cancel_question qid q s; Ok (s1, o ++ [LAppRes (q_call q) 2], false)
  | None => Ok (s, [], false)
  end.

Definition app_release (c : cfg) (h : Z) (s : state) : hres :=
  match hget h s with
  | HGone => Ok (s, [], false)
  | HBoot qid =>
    let s0 := set_handle h HGone s in
    if s_shut s0 then Ok (s0, [], false)
    else match tget qid (s_qs s0) with
    | Some q => if q_fin q then Ok (s0, [], false)
                else do '(s1, o) <- cancel_question qid q s0; Ok (s1, o, false)
    | None => Ok (s0, [], false)
    end
  | HCap x => do '(s1, o) <- release_cap c x (set_handle h HGone s); Ok (s1, o, false)
  end.

(* the local server returns from its k-th call: ReleaseArgs, answerQueue.fulfill/reject, Return *)
Fixpoint find_running (k : Z) (l : list (Z * answer)) : option (Z * answer) :=
  match l with
  | [] => None
  | (id, a) :: r =>
    match a_st a with
    | ARunning _ => if a_deliv a =? k then Some (id, a) else find_running k r
    | _ => find_running k r
    end
  end.
Definition results_of (fs : list rfield) : content * list (option Z) :=
  let fix go (fs : list rfield) (n : Z) : list pfield * list (option Z) :=
    match fs with
    | [] => ([], [])
    | FNull :: r => let '(p, t) := go r n in (PNull :: p, t)
    | FOther :: r => let '(p, t) := go r n in (POther :: p, t)
    | FLocal j :: r => let '(p, t) := go r (n + 1) in (PCap n :: p, Some j :: t)
    end in
  let '(p, t) := go fs 0 in (KStruct p, t).
Fixpoint addrefs_local (l : list (option Z)) (s : state) : state :=
  match l with
  | [] => s
  | Some j :: r => addrefs_local r (lref 1 j s)
  | None :: r => addrefs_local r s
  end.
Definition app_return (c : cfg) (k : Z) (r : appret) (s : state) : hres :=
  match find_running k (s_ans s) with
  | None =>
    match aget k (s_lcalls s) with
    | Some n => Ok (set_lcalls (adel k (s_lcalls s)) s, [LAppRes n (match r with ARExc => 1 | _ => 0 end)], false)
    | None => Ok (s, [], false)
    end
  | Some (id, a) =>
    do '(s1, o1) <- release_caps c (a_args a) s;
    let a1 := set_a_args [] a in
    let s1 := set_ans (aput id a1 (s_ans s1)) s1 in
    match r with
    | ARExc =>
      do '(s2, o2, b2) <- reject_all c (queued_under (s_ans s1) (s_queue s1) [id]) s1;
      do '(s3, o3, b3) <- send_exception c id a1 s2;
      Ok (s3, o1 ++ o2 ++ o3, b2 || b3)
    | AREmpty =>
      let lst := queued_under (s_ans s1) (s_queue s1) [id] in
      do '(s2, o2, b2) <- drain c id KNull [] lst lst s1;
      do '(s3, o3, b3) <- send_return c id a1 KNull [] s2;
      Ok (s3, o1 ++ o2 ++ o3, b2 || b3)
    | ARResults fs =>
      let '(kc, rct) := results_of fs in
      let s1' := addrefs_local rct s1 in
      let lst := queued_under (s_ans s1') (s_queue s1') [id] in
      do '(s2, o2, b2) <- drain c id kc rct lst lst s1';
      do '(s3, o3, b3) <- send_return c id a1 kc rct s2;
      Ok (s3, o1 ++ o2 ++ o3, b2 || b3)
    end
  end.

(* ------------------------------------------------------------------ step *)
Definition handler (c : cfg) (e : event) (s : state) : hres :=
  match e with
  | MBootstrap q => handle_bootstrap c q s
  | MCall q tg params toCaller mok tag => handle_call c q tg params toCaller mok tag s
  | MReturn a rpc k => handle_return c a rpc k s
  | MFinish q rrc => handle_finish c q rrc s
  | MRelease i n => handle_release c i n s
  | MDisembargo tg cx => handle_disembargo c tg cx s
  | MUnimplemented => Ok (s, [], false)
  | MGarbage => Ok (s, [], false)
  | MNullCall =>
    (* before fix F25: question 0, target importedCap 0, no parameters; every path ends in
       clearCapTable(call.Message()) with a nil message (at once, or when the arguments are released) *)
    if fx25 c then Ok (s, [], false)
    else match aget 0 (s_ans s) with Some _ => Ok (s, [], true) | None => Panic W_F25 end
  | MNullReturn =>
    (* before fix F25: answer id 0, results, null payload; parseReturn reads ret.Message().CapTable *)
    if fx25 c then Ok (s, [], false)
    else match tget 0 (s_qs s) with
         | None => Ok (s, [], true)
         | Some q => if q_fin q then handle_return c 0 true (RkResults None) s else Panic W_F25
         end
  | MUnknown => Ok (s, [OUnimpl], false)
  | MAbort | AClose => Ok (s, [], false)      (* see [step] *)
  | ABootstrap => app_bootstrap c s
  | ACall h caps tag => app_call c h caps tag s
  | APipe q x caps _ => app_pipe c q x caps s
  | AReturn k r => app_return c k r s
  | ARelease h => app_release c h s
  | ACancel q => app_cancel c q s
  | AHold h => app_hold c h s
  | AUnhold n => app_unhold c n s
  end.

Definition is_peer (e : event) : bool :=
  match e with
  | MBootstrap _ | MCall _ _ _ _ _ _ | MReturn _ _ _ | MFinish _ _ | MRelease _ _ | MDisembargo _ _
  | MUnimplemented | MAbort | MUnknown | MGarbage | MNullCall | MNullReturn => true
  | _ => false
  end.

(* one event, run to quiescence.  After shutdown the receive loop is gone: messages are dropped. *)
Definition step (c : cfg) (s : state) (e : event) : res (state * list output) :=
  do '(s1, o) <-
    (if s_shut s && is_peer e then Ok (s, [])
     else match e with
     | MAbort => do_shutdown c false s          (* receive returns nil: no Abort is sent back *)
     | AClose => if s_shut s then Ok (s, []) else do_shutdown c true s
     | _ =>
       do '(s1, o1, abort) <- handler c e s;
       if abort && negb (s_shut s1) then do '(s2, o2) <- do_shutdown c true s1; Ok (s2, o1 ++ o2)
       else Ok (s1, o1)
     end);
  Ok (set_out (rev o ++ s_out s1) s1, o).

Fixpoint run (c : cfg) (s : state) (evs : list event) : res state :=
  match evs with
  | [] => Ok s
  | e :: r => do '(s1, _) <- step c s e; run c s1 r
  end.

(* table occupancy, the projection compared with rpc.VerifView *)
Definition wire_total (t : tbl expent) : Z :=
  fold_right (fun o acc => match o with Some (_, w) => w + acc | None => acc end) 0 t.
Definition view (s : state) : list Z :=
  [ (if s_shut s then 1 else 0); tcount (s_qs s); Z.of_nat (length (s_ans s)); tcount (s_exp s);
    wire_total (s_exp s); Z.of_nat (length (s_imp s)); tcount (s_emb s) ].
