(* Proofs about the RPC machine, part 1: outcome algebra, frame lemmas, shutdown_total. *)
From CV Require Import Rpc.Rpc Rpc.RpcSpec.
From Coq Require Import ZifyBool.
Open Scope Z_scope.

(* ------------------------------------------------------------------ outcome algebra *)
Definition okp {A} (r : res A) (Q : A -> Prop) : Prop := match r with Ok a => Q a | _ => False end.

Lemma okp_bind : forall A B (r : res A) (f : A -> res B) (Q1 : A -> Prop) (Q2 : B -> Prop),
  okp r Q1 -> (forall a, Q1 a -> okp (f a) Q2) -> okp (bind r f) Q2.
Proof. intros A B r f Q1 Q2 H1 H2. destruct r; simpl in *; try contradiction. apply H2, H1. Qed.

Lemma okp_weaken : forall A (r : res A) (Q1 Q2 : A -> Prop), okp r Q1 -> (forall a, Q1 a -> Q2 a) -> okp r Q2.
Proof. intros A r Q1 Q2 H1 H2. destruct r; simpl in *; auto. Qed.

Lemma okp_inv : forall A (r : res A) Q, okp r Q -> exists a, r = Ok a /\ Q a.
Proof. intros A r Q H. destruct r; simpl in *; try contradiction. eauto. Qed.

Lemma okp_intro : forall A (r : res A) (Q : A -> Prop) a, r = Ok a -> Q a -> okp r Q.
Proof. intros; subst; simpl; auto. Qed.

(* ------------------------------------------------------------------ the core of a state *)
(* what the invariants talk about; most helpers leave it alone *)
Definition emb_shape (t : tbl embent) : list bool := map (fun o => match o with Some _ => true | None => false end) t.
Record core := mkCore { k_shut : bool; k_qs : tbl question; k_qgen : idgen; k_ans : list (Z * answer);
                        k_exp : tbl expent; k_egen : idgen; k_emb : list bool; k_mgen : idgen;
                        k_allocs : Z; k_queue : list Z; k_sent : list (Z * Z); k_rel : list (Z * Z) }.
Definition core_of (s : state) : core :=
  mkCore (s_shut s) (s_qs s) (s_qgen s) (s_ans s) (s_exp s) (s_egen s) (emb_shape (s_emb s)) (s_mgen s)
         (s_allocs s) (s_queue s) (s_sent s) (s_rel s).

Lemma emb_shape_replace : forall t n v,
  (exists w, nth_error t n = Some (Some w)) -> emb_shape (replace_nth n (Some v) t) = emb_shape t.
Proof.
  induction t as [|a t IH]; intros n v [w Hw].
  - destruct n; simpl in Hw; discriminate.
  - destruct n; simpl in *.
    + inversion Hw; subst. reflexivity.
    + f_equal. apply IH; eauto.
Qed.

Lemma znth_some : forall A i (l : list A) a, znth i l = Some a -> 0 <= i < Z.of_nat (length l) /\ nth_error l (Z.to_nat i) = Some a.
Proof.
  unfold znth. intros A i l a H.
  destruct (i <? 0) eqn:E1; simpl in H; try discriminate.
  destruct (Z.of_nat (length l) <=? i) eqn:E2; simpl in H; try discriminate.
  split; [lia|assumption].
Qed.

Lemma tget_some : forall A i (t : tbl A) a, tget i t = Some a ->
  0 <= i < Z.of_nat (length t) /\ nth_error t (Z.to_nat i) = Some (Some a).
Proof.
  unfold tget. intros A i t a H. destruct (znth i t) as [[x|]|] eqn:E; try discriminate.
  inversion H; subst. apply znth_some in E. exact E.
Qed.

Lemma core_lref : forall d j s, core_of (lref d j s) = core_of s.
Proof. reflexivity. Qed.

Lemma core_lref_cap : forall d x s, core_of (lref_cap d x s) = core_of s.
Proof. intros d x s. destruct x; reflexivity. Qed.

Lemma core_emb_release : forall c e s, core_of (emb_release c e s) = core_of s.
Proof.
  intros c e s. unfold emb_release. destruct (tget e (s_emb s)) as [em|] eqn:E; auto.
  destruct (0 <? e_refs em); auto.
  assert (Hs : emb_shape (replace_nth (Z.to_nat e) (Some (mkEmb (e_cap em) (e_refs em - 1))) (s_emb s)) = emb_shape (s_emb s)).
  { apply tget_some in E. destruct E as [_ E]. apply emb_shape_replace; eauto. }
  destruct ((e_refs em - 1 =? 0) && negb (emb_busy e s) && negb (fx22 c)).
  - rewrite core_lref_cap. unfold core_of; simpl. rewrite Hs. reflexivity.
  - unfold core_of; simpl. rewrite Hs. reflexivity.
Qed.

Lemma imp_shutdown_fixed : forall i g s, exists s' o,
  imp_shutdown cfg_fixed i g s = Ok (s', o) /\ core_of s' = core_of s.
Proof.
  intros i g s. unfold imp_shutdown. destruct (s_shut s); [eauto|].
  destruct (aget i (s_imp s)) as [e|]; simpl; [|eauto].
  destruct (i_gen e =? g); eauto.
Qed.

Lemma imp_release_fixed : forall i g s, exists s' o,
  imp_release cfg_fixed i g s = Ok (s', o) /\ core_of s' = core_of s.
Proof.
  intros i g s. unfold imp_release.
  destruct (aget i (s_imp s)) as [e|]; [|apply imp_shutdown_fixed].
  destruct ((i_gen e =? g) && (0 <? i_refs e)); [|apply imp_shutdown_fixed].
  simpl. destruct (i_refs e - 1 =? 0); [|eauto].
  destruct (busy_get i g (s_busy s) =? 0); [|eauto].
  match goal with |- context [imp_shutdown _ _ _ ?s1] => destruct (imp_shutdown_fixed i g s1) as (s' & o & H1 & H2) end.
  exists s', o. split; auto.
Qed.

Lemma release_cap_fixed : forall x s, exists s' o,
  release_cap cfg_fixed x s = Ok (s', o) /\ core_of s' = core_of s.
Proof.
  intros x s. destruct x; simpl; eauto.
  - apply imp_release_fixed.
  - eexists _, _. split; [reflexivity|]. apply core_emb_release.
Qed.

Lemma release_caps_fixed : forall l s, exists s' o,
  release_caps cfg_fixed l s = Ok (s', o) /\ core_of s' = core_of s.
Proof.
  induction l as [|x l IH]; intros s; simpl; eauto.
  destruct (release_cap_fixed x s) as (s1 & o1 & H1 & C1). rewrite H1. simpl.
  destruct (IH s1) as (s2 & o2 & H2 & C2). rewrite H2. simpl.
  eexists _, _. split; [reflexivity|congruence].
Qed.

(* ------------------------------------------------------------------ shutdown_total *)
Definition imp_empty (s : state) : Prop := s_shut s = true /\ s_imp s = [].

Lemma imp_empty_release_cap : forall c x s s' o, imp_empty s -> release_cap c x s = Ok (s', o) -> imp_empty s'.
Proof.
  intros c x s s' o [Hs Hi] H. destruct x; simpl in H; try (inversion H; subst; split; assumption).
  - unfold imp_release in H. rewrite Hi in H. simpl in H. unfold imp_shutdown in H. rewrite Hs in H.
    inversion H; subst. split; assumption.
  - inversion H; subst. unfold emb_release. destruct (tget e (s_emb s)); [|split; assumption].
    destruct (0 <? e_refs e0); [|split; assumption].
    destruct ((e_refs e0 - 1 =? 0) && negb (emb_busy e s) && negb (fx22 c)); [destruct (e_cap e0)|]; split; assumption.
Qed.

Lemma imp_empty_release_caps : forall c l s s' o, imp_empty s -> release_caps c l s = Ok (s', o) -> imp_empty s'.
Proof.
  induction l as [|x l IH]; intros s s' o Hi H; simpl in H.
  - inversion H; subst; assumption.
  - destruct (release_cap c x s) as [[s1 o1]| |] eqn:E1; simpl in H; try discriminate.
    destruct (release_caps c l s1) as [[s2 o2]| |] eqn:E2; simpl in H; try discriminate.
    inversion H; subst. eapply IH; [|exact E2]. eapply imp_empty_release_cap; eauto.
Qed.

Lemma release_all_args_fixed : forall l s, exists s' o,
  release_all_args cfg_fixed l s = Ok (s', o) /\ core_of s' = core_of s.
Proof.
  induction l as [|[id a] l IH]; intros s; simpl; eauto.
  destruct (release_caps_fixed (a_args a) s) as (s1 & o1 & H1 & C1). rewrite H1. simpl.
  destruct (IH s1) as (s2 & o2 & H2 & C2). rewrite H2. simpl.
  eexists _, _. split; [reflexivity|congruence].
Qed.

Lemma wake_calls_core : forall e x l s, core_of (fst (wake_calls e x l s)) = core_of s /\ s_imp (fst (wake_calls e x l s)) = s_imp s
  /\ s_emb (fst (wake_calls e x l s)) = s_emb s.
Proof.
  induction l as [|[[e' n] tag] l IH]; intros s; simpl; auto.
  destruct (e' =? e); [|apply IH].
  destruct x; try (destruct (wake_calls e _ l s) eqn:E; simpl; specialize (IH s); rewrite E in IH; exact IH).
  match goal with |- context [wake_calls e ?x l ?s1] => destruct (wake_calls e x l s1) eqn:E; specialize (IH s1); rewrite E in IH end.
  simpl in *. exact IH.
Qed.

Lemma lift_fixed : forall e em s, exists s' o, lift cfg_fixed e em s = Ok (s', o) /\ core_of s' = core_of s
  /\ s_imp s' = s_imp s /\ s_emb s' = s_emb s.
Proof.
  intros e em s. unfold lift. cbn [fx22 cfg_fixed negb]. rewrite andb_false_r. cbv iota.
  match goal with |- context [wake_calls e ?x ?l ?s1] =>
    destruct (wake_calls e x l s1) as [s2 o2] eqn:E; pose proof (wake_calls_core e x l s1) as W; rewrite E in W; simpl in W end.
  destruct W as (W1 & W2 & W3).
  eexists _, _. split; [reflexivity|]. simpl.
  split; [|split].
  - unfold core_of in *; simpl in *. rewrite W1. destruct (e_cap em); reflexivity.
  - simpl. rewrite W2. destruct (e_cap em); reflexivity.
  - simpl. rewrite W3. destruct (e_cap em); reflexivity.
Qed.

Lemma lift_all_fixed : forall t i s, exists s' o, lift_all cfg_fixed t i s = Ok (s', o) /\ core_of s' = core_of s
  /\ s_imp s' = s_imp s /\ s_emb s' = s_emb s.
Proof.
  induction t as [|[em|] t IH]; intros i s; simpl; eauto 6.
  destruct (lift_fixed i em s) as (s1 & o1 & H1 & C1 & I1 & E1). rewrite H1. simpl.
  destruct (IH (i + 1) s1) as (s2 & o2 & H2 & C2 & I2 & E2). rewrite H2. simpl.
  eexists _, _. split; [reflexivity|]. repeat split; congruence.
Qed.

Lemma release_answers_fixed : forall l s, exists s' o,
  release_answers cfg_fixed l s = Ok (s', o) /\ core_of s' = core_of s.
Proof.
  induction l as [|[id a] l IH]; intros s; simpl; eauto.
  destruct (release_caps_fixed (rct_caps (a_rct a)) s) as (s1 & o1 & H1 & C1). rewrite H1. simpl.
  rewrite andb_false_r.
  destruct (IH s1) as (s2 & o2 & H2 & C2). rewrite H2. simpl.
  eexists _, _. split; [reflexivity|congruence].
Qed.

Lemma release_answers_imp_empty : forall l s s' o, release_answers cfg_fixed l s = Ok (s', o) -> imp_empty s -> imp_empty s'.
Proof.
  induction l as [|[id a] l IH]; intros s s' o H I; simpl in H.
  - inversion H; subst; assumption.
  - destruct (release_caps cfg_fixed (rct_caps (a_rct a)) s) as [[sa oa]| |] eqn:Ea; simpl in H; try discriminate.
    rewrite andb_false_r in H.
    destruct (release_answers cfg_fixed l sa) as [[sb ob]| |] eqn:Eb; simpl in H; try discriminate.
    inversion H; subst. eapply IH; [exact Eb|]. eapply imp_empty_release_caps; eauto.
Qed.

Lemma emb_shape_nil : forall t, emb_shape t = [] -> t = [].
Proof. destruct t; simpl; [auto|discriminate]. Qed.

Theorem shutdown_total : forall abort s, exists s' o,
  do_shutdown cfg_fixed abort s = Ok (s', o) /\ tables_empty s' /\ s_shut s' = true.
Proof.
  intros abort s. unfold do_shutdown.
  destruct (release_all_args_fixed (s_ans (set_shut true s)) (set_shut true s)) as (s1 & o1 & H1 & C1).
  rewrite H1. cbn [bind].
  set (s2 := set_handles _ _).
  set (s3 := if s_boot s2 then _ else s2).
  assert (K3 : s_shut s3 = true /\ s_qs s3 = [] /\ s_ans s3 = [] /\ s_exp s3 = [] /\ s_imp s3 = [] /\ s_queue s3 = []).
  { assert (Hsh : s_shut s1 = true).
    { assert (k_shut (core_of s1) = k_shut (core_of (set_shut true s))) by congruence. exact H. }
    subst s3 s2. destruct (s_boot _); simpl; repeat split; auto. }
  destruct K3 as (K1 & K2 & K3 & K4 & K5 & K6).
  destruct (release_caps_fixed (exp_clients (s_exp s1)) s3) as (s4 & o4 & H4 & C4).
  rewrite H4. cbn [bind].
  assert (I4 : imp_empty s4) by (eapply imp_empty_release_caps; [split; eassumption|exact H4]).
  destruct (lift_all_fixed (s_emb s4) 0 (set_emb [] s4)) as (s5 & o5 & H5 & C5 & I5 & E5).
  rewrite H5. cbn [bind].
  destruct (release_answers_fixed (s_ans s1) s5) as (s6 & o6 & H6 & C6).
  rewrite H6. cbn [bind].
  eexists _, _. split; [reflexivity|].
  assert (I5' : imp_empty s5).
  { destruct I4 as [A B]. split.
    - assert (k_shut (core_of s5) = k_shut (core_of (set_emb [] s4))) by congruence. simpl in H. congruence.
    - rewrite I5. simpl. exact B. }
  assert (CC : core_of s6 = core_of (set_emb [] s4)) by congruence.
  assert (C43 : core_of s4 = core_of s3) by exact C4.
  unfold tables_empty.
  assert (Q : k_qs (core_of s6) = []) by (rewrite CC; simpl; change (s_qs s4) with (k_qs (core_of s4)); rewrite C43; exact K2).
  assert (A : k_ans (core_of s6) = []) by (rewrite CC; simpl; change (s_ans s4) with (k_ans (core_of s4)); rewrite C43; exact K3).
  assert (X : k_exp (core_of s6) = []) by (rewrite CC; simpl; change (s_exp s4) with (k_exp (core_of s4)); rewrite C43; exact K4).
  assert (U : k_queue (core_of s6) = []) by (rewrite CC; simpl; change (s_queue s4) with (k_queue (core_of s4)); rewrite C43; exact K6).
  assert (M : k_emb (core_of s6) = []) by (rewrite CC; reflexivity).
  assert (S : k_shut (core_of s6) = true) by (rewrite CC; simpl; apply I4).
  assert (I6 : imp_empty s6) by (eapply release_answers_imp_empty; eauto).
  simpl in *. repeat split; auto.
  - apply I6.
  - apply emb_shape_nil. exact M.
Qed.
