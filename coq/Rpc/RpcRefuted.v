(* Pre-fix variants of the handlers: for every defect found by the machinery a shortest history
   on which the machine WITHOUT the repair panics / wedges, while the repaired machine does not.
   The same histories are scenarios of the harness (harness/cmd/c06/gen.go) and were replayed
   on the implementation before each `fix:` commit (docs/C08.md, docs/C07.md, docs/C06.md). *)
From CV Require Import Rpc.Rpc.
Open Scope Z_scope.

Definition without14 := mkCfg false true true true true true true true true true true.
Definition without15 := mkCfg true false true true true true true true true true true.
Definition without16 := mkCfg true true false true true true true true true true true.
Definition without17 := mkCfg true true true false true true true true true true true.
Definition without19 := mkCfg true true true true false true true true true true true.
Definition without20 := mkCfg true true true true true false true true true true true.
Definition without21 := mkCfg true true true true true true false true true true true.
Definition without22 := mkCfg true true true true true true true false true true true.

Definition without23 := mkCfg true true true true true true true true false true true.
Definition without24 := mkCfg true true true true true true true true true false true.
Definition without25 := mkCfg true true true true true true true true true true false.

Definition outcome (c : cfg) (evs : list event) : Z :=
  match run c (init true) evs with Ok _ => 0 | Panic w => w | Stuck w => - w end.

Definition pl0 : payload := mkPayload true false (KStruct []) (Some []).
Definition plcaps (fs : list pfield) (ds : list desc) : payload := mkPayload true false (KStruct fs) (Some ds).

(* F14: a call pipelined on an answer that has not returned leaves the sender lock taken *)
Definition h14 := [MBootstrap 0; MCall 1 (TgImp 0) (Some pl0) true true 1;
                   MCall 2 (TgAns 1 (Some [XField 0])) (Some pl0) true true 2].
Example F14_refuted : outcome without14 h14 = - W_F14 /\ outcome cfg_fixed h14 = 0.
Proof. vm_compute. split; reflexivity. Qed.

(* F15: parameters naming an export that does not exist: annotate(nil) panics *)
Definition h15 := [MBootstrap 0; MCall 1 (TgImp 0) (Some (plcaps [PCap 0] [DRH 9])) true true 1].
Example F15_refuted : outcome without15 h15 = W_F15 /\ outcome cfg_fixed h15 = 0.
Proof. vm_compute. split; reflexivity. Qed.

(* F16: a call on an export that does not exist leaves a placeholder answer; shutdown calls its
   nil releaseMsg *)
Definition h16 := [MBootstrap 0; MCall 1 (TgImp 9) (Some pl0) true true 1].
Example F16_refuted : outcome without16 h16 = W_F16 /\ outcome cfg_fixed h16 = 0.
Proof. vm_compute. split; reflexivity. Qed.

(* F17: the bootstrap question is answered with a null payload *)
Definition h17 := [ABootstrap; MReturn 0 false (RkResults (Some (mkPayload false false KNull (Some []))))].
Example F17_refuted : outcome without17 h17 = W_F17 /\ outcome cfg_fixed h17 = 0.
Proof. vm_compute. split; reflexivity. Qed.

(* F20: the Shutdown of an old import client runs after the entry was deleted and re-created *)
Definition h20 := [ABootstrap; MReturn 0 false (RkResults (Some (mkPayload true false (KCap 0) (Some [DSH 5]))));
                   AHold 0; ARelease 0; MBootstrap 0;
                   MCall 1 (TgImp 0) (Some (plcaps [PCap 0] [DSH 5])) true true 1; AReturn 0 AREmpty;
                   MCall 2 (TgImp 0) (Some (plcaps [PCap 0] [DSH 5])) true true 2; AUnhold 0; AReturn 1 AREmpty].
Example F20_refuted : outcome without20 h20 = W_F20 /\ outcome cfg_fixed h20 = 0.
Proof. vm_compute. split; reflexivity. Qed.

(* F21: recvPayload releases the clients created so far while c.mu is held *)
Definition h21 := [MBootstrap 0; MCall 1 (TgImp 0) (Some (plcaps [PCap 0; PCap 1] [DSH 5; DRH 9])) true true 1].
Example F21_refuted : outcome without21 h21 = - W_F21 /\ outcome cfg_fixed h21 = 0.
Proof. vm_compute. split; reflexivity. Qed.

(* F22: the application drops an embargoed capability before the Disembargo comes back *)
Definition h22 := [MBootstrap 0; ABootstrap; ACall 0 [] 1;
                   MReturn 0 false (RkResults (Some (mkPayload true false (KCap 0) (Some [DRH 0]))));
                   MReturn 1 false (RkResults (Some pl0)); ARelease 0;
                   MDisembargo (TgImp 0) (DxReceiver 0)].
Example F22_refuted : outcome without22 h22 = W_F22 /\ outcome cfg_fixed h22 = 0.
Proof. vm_compute. split; reflexivity. Qed.

(* F24: a Call whose target is the promised answer of the call itself *)
Definition h24 := [MCall 3 (TgAns 3 (Some [])) (Some pl0) true true 1].
Example F24_refuted : outcome without24 h24 = W_F24 /\ outcome cfg_fixed h24 = 0.
Proof. vm_compute. split; reflexivity. Qed.

(* F25: a Return (Call) message whose union pointer is null *)
Definition h25 := [ABootstrap; MNullReturn].
Example F25_refuted : outcome without25 h25 = W_F25 /\ outcome without25 [MNullCall] = W_F25 /\
                      outcome cfg_fixed h25 = 0 /\ outcome cfg_fixed [MNullCall] = 0.
Proof. vm_compute. repeat split; reflexivity. Qed.

(* F26 (not repaired, known finding): the peer calls an export that is an embargoed capability *)
Definition h26 := [MBootstrap 0; ABootstrap; ABootstrap; ACall 0 [] 1;
                   MReturn 0 false (RkResults (Some (mkPayload true false (KCap 0) (Some [DRH 0]))));
                   ACall 1 [AHandle 0] 2; MCall 1 (TgImp 1) (Some pl0) true true 3].
Example F26_witness : outcome cfg_fixed h26 = - W_F26.
Proof. vm_compute. reflexivity. Qed.
