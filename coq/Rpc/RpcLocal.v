(* Proofs about the RPC machine, part 4: handler-level facts behind C06 and C07.
   They are the proved parts of one_return / question_ids (C06) and export_count /
   import_release / close_releases_all (C07); what is missing for the history-level statements
   is said in coq/Props/Properties_C06.v and _C07.v. *)
From CV Require Import Rpc.Rpc Rpc.RpcSpec Rpc.RpcProofs Rpc.RpcInv Rpc.RpcResp.
From Coq Require Import ZifyBool.
Open Scope Z_scope.

Definition is_return (a : Z) (o : output) : bool :=
  match o with OReturnRes b _ | OReturnExc b => b =? a | _ => false end.
Definition returns (a : Z) (o : list output) : nat := length (filter (is_return a) o).

Lemma returns_app : forall a x y, returns a (x ++ y) = (returns a x + returns a y)%nat.
Proof. intros. unfold returns. rewrite filter_app, app_length. reflexivity. Qed.

Lemma quiet_returns : forall a o, quiet o -> returns a o = 0%nat.
Proof.
  intros a o. unfold quiet, resp_msgs, returns. induction o as [|x o IH]; simpl; intros H; [reflexivity|].
  destruct x; simpl in *; try discriminate; auto.
Qed.

(* ---------------------------------------------------------------- C06 one_return, the sending side:
   answer.sendException / sendReturn put exactly one Return with the answer's own id on the wire
   (none once the connection is shut down) and leave the answer returnSent, or destroyed when its
   Finish had already been received; nothing else they do sends a Return *)
Definition returned_or_gone (id : Z) (s : state) : Prop :=
  match aget id (s_ans s) with Some a => a_ret a = true /\ a_ready a = true /\ a_st a = AIdle | None => True end.

Lemma release_cap_ans : forall c x s s' o, release_cap c x s = Ok (s', o) -> s_ans s' = s_ans s.
Proof.
  intros c x s s' o H. destruct x; simpl in H; try (inversion H; reflexivity).
  - unfold imp_release, imp_shutdown in H.
    repeat match type of H with context [match ?x with _ => _ end] => destruct x; simpl in H; try discriminate end;
      inversion H; reflexivity.
  - inversion H; subst. change (k_ans (core_of (emb_release c e s)) = k_ans (core_of s)). rewrite core_emb_release. reflexivity.
Qed.

Lemma release_caps_ans : forall c l s s' o, release_caps c l s = Ok (s', o) -> s_ans s' = s_ans s.
Proof.
  induction l as [|x l IH]; intros s s' o H; simpl in H; [inversion H; reflexivity|].
  destruct (release_cap c x s) as [[sa oa]| |] eqn:Ea; simpl in H; try discriminate.
  destruct (release_caps c l sa) as [[sb ob]| |] eqn:Eb; simpl in H; try discriminate. inversion H; subst.
  rewrite (IH _ _ _ Eb). eapply release_cap_ans; eauto.
Qed.

Lemma release_exports_ans : forall refs s, s_ans (fst (fst (release_exports refs s))) = s_ans s.
Proof.
  induction refs as [|[i n] refs IH]; intros s; simpl; [reflexivity|].
  destruct (release_export i n s) as [[sa oc] ea] eqn:Ea. specialize (IH sa).
  destruct (release_exports refs sa) as [[sb clb] eb]. simpl in *. rewrite IH.
  unfold release_export in Ea. destruct (tget i (s_exp s)) as [[x w]|]; [|inversion Ea; reflexivity].
  destruct (n =? w); [inversion Ea; reflexivity|]. destruct (w <? n); inversion Ea; reflexivity.
Qed.

Lemma destroy_out : forall c id a s s1 o err, destroy c id a s = Ok (s1, o, err) ->
  quiet o /\ aget id (s_ans s1) = None.
Proof.
  intros c id a s s1 o err H. unfold destroy in H.
  destruct (a_rrc a && negb match a_xrefs a with [] => true | _ :: _ => false end).
  - pose proof (release_exports_ans (a_xrefs a) (set_ans (adel id (s_ans s)) s)) as A2.
    destruct (release_exports (a_xrefs a) (set_ans (adel id (s_ans s)) s)) as [[sx cl] e2]. simpl in A2.
    destruct (release_caps c (rct_caps (a_rct a) ++ cl) sx) as [[s3 o3]| |] eqn:E3; simpl in H; try discriminate. inversion H; subst.
    split; [eapply quiet_release_caps; eauto|].
    rewrite (release_caps_ans _ _ _ _ _ E3), A2. rewrite aget_adel, Z.eqb_refl. reflexivity.
  - destruct (release_caps c (rct_caps (a_rct a) ++ []) (set_ans (adel id (s_ans s)) s)) as [[s3 o3]| |] eqn:E3; simpl in H; try discriminate.
    inversion H; subst. split; [eapply quiet_release_caps; eauto|].
    rewrite (release_caps_ans _ _ _ _ _ E3). simpl. rewrite aget_adel, Z.eqb_refl. reflexivity.
Qed.

Theorem send_exception_one_return : forall c id a s s1 o ab, send_exception c id a s = Ok (s1, o, ab) ->
  returns id o = (if s_shut s then 0 else 1)%nat /\ (forall b, b <> id -> returns b o = 0%nat) /\ returned_or_gone id s1.
Proof.
  intros c id a s s1 o ab H. unfold send_exception in H.
  destruct (a_fin a).
  - destruct (destroy c id (mark_done true a) (zremove_q id s)) as [[[s2 o2] e2]| |] eqn:E; simpl in H; try discriminate.
    inversion H; subst. apply destroy_out in E. destruct E as [Q G].
    repeat split.
    + rewrite returns_app, (quiet_returns _ _ Q). destruct (s_shut s); simpl; [reflexivity|]. unfold returns; simpl. rewrite Z.eqb_refl. reflexivity.
    + intros b Hb. rewrite returns_app, (quiet_returns _ _ Q). destruct (s_shut s); simpl; [reflexivity|].
      unfold returns; simpl. replace (id =? b) with false by lia. reflexivity.
    + unfold returned_or_gone. rewrite G. exact I.
  - inversion H; subst. repeat split.
    + destruct (s_shut s); simpl; [reflexivity|]. unfold returns; simpl. rewrite Z.eqb_refl. reflexivity.
    + intros b Hb. destruct (s_shut s); simpl; [reflexivity|]. unfold returns; simpl. replace (id =? b) with false by lia. reflexivity.
    + unfold returned_or_gone, set_ans. cbn [s_ans]. rewrite aget_aput, Z.eqb_refl. simpl. auto.
Qed.

(* ---------------------------------------------------------------- C06 question_ids, the freeing side:
   handleReturn is the only handler that frees a question id, and when it does the Finish for
   that id is among the messages of the same step, unless the question had been canceled (then
   handleCancel sent the Finish when it set the flag: [cancel_sends_finish]) *)
Theorem return_sends_finish : forall qid rpc k s q s1 o ab,
  handle_return cfg_fixed qid rpc k s = Ok (s1, o, ab) -> tget qid (s_qs s) = Some q -> q_fin q = false ->
  In (OFinish qid false) o /\ ab = false.
Proof.
  intros qid rpc k s q s1 o ab H Hq Hf. unfold handle_return in H. rewrite Hq, Hf in H.
  destruct (if fx19 cfg_fixed && rpc then _ else _) as [s1' pclients].
  repeat match type of H with
         | bind ?r _ = Ok _ => destruct r as [?| |] eqn:?; simpl in H; try discriminate
         | context [let '(_, _) := ?x in _] => destruct x
         | context [let (_, _) := ?x in _] => destruct x
         end.
  inversion H; subst. split; [|reflexivity]. apply in_or_app. right. left. reflexivity.
Qed.

Theorem cancel_sends_finish : forall qid q s s1 o, cancel_question qid q s = Ok (s1, o) ->
  o = [OFinish qid true] /\
  s_qs s1 = replace_nth (Z.to_nat qid) (Some (mkQ (q_boot q) (q_call q) true (q_called q) (q_prefs q) (q_held q))) (s_qs s).
Proof. intros qid q s s1 o H. unfold cancel_question in H. inversion H; subst. split; reflexivity. Qed.

(* ---------------------------------------------------------------- C07 export_count, the two primitives:
   sendCap and releaseExport keep  wireRefs e = sent e - released e  (cumulative ghost counters
   [s_sent], [s_rel]) for every export id, entries exist exactly while that count is positive *)
Definition exp_count_ok (s : state) : Prop :=
  forall id, match tget id (s_exp s) with
             | Some (_, w) => w = cget id (s_sent s) - cget id (s_rel s) /\ 0 < w
             | None => cget id (s_sent s) = cget id (s_rel s)
             end.

Lemma cget_cadd : forall k k' d m, cget k' (cadd k d m) = if k' =? k then cget k m + d else cget k' m.
Proof.
  intros. unfold cadd, cget at 1. rewrite aget_aput. destruct (k' =? k) eqn:E; [|reflexivity].
  assert (k' = k) by lia. subst. reflexivity.
Qed.

Lemma tget_replace : forall A (t : tbl A) n v i, (n < length t)%nat ->
  tget i (replace_nth n (Some v) t) = if i =? Z.of_nat n then Some v else tget i t.
Proof.
  intros A t n v i Hn. unfold tget, znth. rewrite replace_nth_length.
  destruct ((i <? 0) || (Z.of_nat (length t) <=? i)) eqn:E.
  - destruct (i =? Z.of_nat n) eqn:E2; [lia|reflexivity].
  - assert (Hi : (Z.to_nat i < length t)%nat) by lia.
    destruct (i =? Z.of_nat n) eqn:E2.
    + replace (Z.to_nat i) with n by lia. clear - Hn. revert n Hn. induction t as [|a t IH]; intros n Hn; simpl in *; [lia|].
      destruct n; simpl; [reflexivity|]. apply IH. lia.
    + assert (Hne : Z.to_nat i <> n) by lia. clear - Hne. revert n Hne. generalize (Z.to_nat i) as m.
      induction t as [|a t IH]; intros m n Hne; simpl; [destruct n; reflexivity|].
      destruct n, m; simpl; try reflexivity; try congruence. apply IH. congruence.
Qed.

Theorem release_export_count : forall id n s, exp_count_ok s -> 0 <= n ->
  let '(s1, oc, err) := release_export id n s in
  exp_count_ok s1 /\ (err = true -> s1 = s) /\
  (err = false -> cget id (s_rel s1) = cget id (s_rel s) + n).
Proof.
  intros id n s H Hn. unfold release_export. pose proof (H id) as Hid.
  destruct (tget id (s_exp s)) as [[x w]|] eqn:E.
  - destruct Hid as [Hw Hpos]. pose proof (tget_some _ _ _ _ E) as [Hr Hnth].
    destruct (n =? w) eqn:Enw.
    + repeat split; try discriminate; [|intros _; simpl; rewrite cget_cadd, Z.eqb_refl; reflexivity].
      intros i. simpl. unfold tclear. replace ((0 <=? id) && (id <? Z.of_nat (length (s_exp s)))) with true by lia.
      specialize (H i). rewrite cget_cadd.
      assert (T : tget i (replace_nth (Z.to_nat id) None (s_exp s)) = if i =? id then None else tget i (s_exp s)).
      { unfold tget, znth. rewrite replace_nth_length.
        destruct ((i <? 0) || (Z.of_nat (length (s_exp s)) <=? i)) eqn:Eo; [destruct (i =? id); reflexivity|].
        destruct (i =? id) eqn:Ei.
        - replace (Z.to_nat i) with (Z.to_nat id) by lia. assert (Hl : (Z.to_nat id < length (s_exp s))%nat) by lia.
          clear - Hl. revert Hl. generalize (Z.to_nat id) as m. induction (s_exp s) as [|a t IH]; intros m Hl; simpl in *; [lia|].
          destruct m; simpl; [reflexivity|]. apply IH. lia.
        - assert (Hne : Z.to_nat i <> Z.to_nat id) by lia. clear - Hne. revert Hne. generalize (Z.to_nat i) as m. generalize (Z.to_nat id) as k.
          induction (s_exp s) as [|a t IH]; intros k m Hne; simpl; [destruct k; reflexivity|].
          destruct k, m; simpl; try reflexivity; try congruence. apply IH. congruence. }
      rewrite T. destruct (i =? id) eqn:Ei.
      * assert (i = id) by lia. subst i. lia.
      * exact H.
    + destruct (w <? n) eqn:Ewn.
      * repeat split; auto; discriminate.
      * repeat split; try discriminate; [|intros _; simpl; rewrite cget_cadd, Z.eqb_refl; reflexivity].
        assert (Hl : (Z.to_nat id < length (s_exp s))%nat) by (apply nth_error_Some; rewrite Hnth; discriminate).
        intros i. simpl. rewrite tget_replace by exact Hl. rewrite cget_cadd. specialize (H i).
        replace (Z.of_nat (Z.to_nat id)) with id by lia.
        destruct (i =? id) eqn:Ei.
        -- assert (i = id) by lia. subst i. lia.
        -- exact H.
  - repeat split; auto; discriminate.
Qed.

(* ---------------------------------------------------------------- C07 import_release, the sending side:
   importClient.Shutdown sends one Release whose count is the number of references received for
   the entry (i_wire, incremented once per descriptor by addImport) and removes the entry; a
   client of another generation sends nothing *)
Theorem import_release_exact : forall i g s s1 o, imp_shutdown cfg_fixed i g s = Ok (s1, o) ->
  match aget i (s_imp s) with
  | Some e => if negb (s_shut s) && (i_gen e =? g) then o = [ORelease i (i_wire e)] /\ aget i (s_imp s1) = None
              else o = [] /\ s1 = s
  | None => o = [] /\ s1 = s
  end.
Proof.
  intros i g s s1 o H. unfold imp_shutdown in H. destruct (s_shut s).
  - inversion H; subst. destruct (aget i (s_imp s1)); simpl; auto.
  - destruct (aget i (s_imp s)) as [e|]; simpl in *.
    + destruct (i_gen e =? g); inversion H; subst; simpl; auto. split; [reflexivity|]. rewrite aget_adel, Z.eqb_refl. reflexivity.
    + inversion H; auto.
Qed.

Theorem add_import_counts : forall i s, 
  let '(s1, x) := add_import cfg_fixed i s in
  match aget i (s_imp s1) with
  | Some e1 => i_wire e1 = (match aget i (s_imp s) with Some e => i_wire e | None => 0 end) + 1 /\ x = CImp i (i_gen e1) /\ 0 < i_refs e1
  | None => False
  end.
Proof.
  intros i s. unfold add_import. destruct (aget i (s_imp s)) as [e|] eqn:E.
  - destruct (0 <? i_refs e) eqn:Er; unfold bump_recv, set_recv, set_imp, set_impgen; cbn [s_imp fst snd fx20 cfg_fixed];
      rewrite aget_aput, Z.eqb_refl; cbn [i_wire i_gen i_refs]; repeat split; lia.
  - unfold bump_recv, set_recv, set_imp, set_impgen; cbn [s_imp fst snd fx20 cfg_fixed]. rewrite aget_aput, Z.eqb_refl. cbn [i_wire i_gen i_refs]. repeat split; lia.
Qed.

(* a re-created client never shares its generation with an older client of the same import id
   (the repair of F20): generations come from one counter of the connection *)
Theorem add_import_fresh_generation : forall i s, 
  (forall j e, aget j (s_imp s) = Some e -> i_gen e <= s_impgen s) ->
  let '(s1, x) := add_import cfg_fixed i s in
  (forall j e, aget j (s_imp s1) = Some e -> i_gen e <= s_impgen s1) /\ s_impgen s <= s_impgen s1 /\
  (match aget i (s_imp s) with
   | Some e => if 0 <? i_refs e then True else x = CImp i (s_impgen s + 1)
   | None => x = CImp i (s_impgen s + 1)
   end).
Proof.
  intros i s H. unfold add_import. destruct (aget i (s_imp s)) as [e|] eqn:E.
  - destruct (0 <? i_refs e) eqn:Er; unfold bump_recv, set_recv, set_imp, set_impgen; cbn [s_imp s_impgen fst snd fx20 cfg_fixed].
    + repeat split; try lia. intros j e' Hj. rewrite aget_aput in Hj. destruct (j =? i) eqn:Ej.
      * inversion Hj; subst; cbn [i_gen]. apply (H i e E).
      * apply (H j e' Hj).
    + repeat split; try lia. intros j e' Hj. rewrite aget_aput in Hj. destruct (j =? i) eqn:Ej.
      * inversion Hj; subst; cbn [i_gen]. lia.
      * pose proof (H j e' Hj). lia.
  - unfold bump_recv, set_recv, set_imp, set_impgen; cbn [s_imp s_impgen fst snd fx20 cfg_fixed]. repeat split; try lia.
    intros j e' Hj. rewrite aget_aput in Hj. destruct (j =? i) eqn:Ej.
    + inversion Hj; subst; cbn [i_gen]. lia.
    + pose proof (H j e' Hj). lia.
Qed.

(* ---------------------------------------------------------------- C07 close_releases_all, the table side *)
Theorem close_empties : forall s, exists s' o,
  step cfg_fixed s AClose = Ok (s', o) /\ s_shut s' = true /\ (s_shut s = false -> tables_empty s').
Proof.
  intros s. unfold step. destruct (s_shut s) eqn:Hs; simpl.
  - eexists _, _. split; [reflexivity|]. split; [exact Hs|discriminate].
  - destruct (shutdown_total true s) as (s' & o & H & T & S). rewrite H. simpl.
    eexists _, _. split; [reflexivity|]. split; [exact S|]. intros _. exact T.
Qed.
