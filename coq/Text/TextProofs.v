(* Proofs about the rendering model (TextM.v) against the independent reader (TextSpec.v):
   reading back what is printed, and the encoder's independence of its history. *)
From CV Require Import Text.Strquote Text.TextSpec Text.StrquoteProofs Text.TextM.
From Coq Require Import Decimal DecimalPos DecimalZ ZifyBool ZifyNat.
Open Scope Z_scope.

(* ------------------------------------------------------------ the float-free fragment *)

Definition name_ok (n : list Z) : Prop := n <> [] /\ forallb is_idchar n = true.
Definition ident_ok (n : list Z) : Prop :=
  forallb is_idchar n = true /\ exists c r, n = c :: r /\ is_alpha c = true.

Fixpoint wf_tval (t : tval) : Prop :=
  match t with
  | TvVoid | TvBool _ | TvInt _ => True
  | TvFloat _ | TvData _ => False
  | TvStr s => bytes_ok s
  | TvIdent n => ident_ok n /\ ident_value n = TvIdent n
  | TvMarker m => m = marker_cap \/ m = marker_any
  | TvList l => wf_tvals l
  | TvStruct fs => wf_tfields fs
  end
with wf_tvals (l : tvals) : Prop :=
  match l with TNil => True | TCons v r => wf_tval v /\ wf_tvals r end
with wf_tfields (fs : tfields) : Prop :=
  match fs with FNil => True | FCons n v r => name_ok n /\ wf_tval v /\ wf_tfields r end.

Fixpoint msize (t : tval) : nat :=
  match t with
  | TvList l => S (msl l)
  | TvStruct fs => S (msf fs)
  | _ => 1%nat
  end
with msl (l : tvals) : nat :=
  match l with TNil => O | TCons v r => S (msize v + msl r) end
with msf (fs : tfields) : nat :=
  match fs with FNil => O | FCons _ v r => S (msize v + msf r) end.

Scheme tval_mind := Induction for tval Sort Prop
  with tvals_mind := Induction for tvals Sort Prop
  with tfields_mind := Induction for tfields Sort Prop.
Combined Scheme tval_mutind from tval_mind, tvals_mind, tfields_mind.

(* what may follow a value: nothing, or ',' ')' ']' *)
Definition ends_token (rest : list Z) : Prop :=
  match rest with [] => True | c :: _ => c = 44 \/ c = 41 \/ c = 93 end.

(* ------------------------------------------------------------ small facts *)

Lemma span_app : forall p a b, forallb p a = true ->
  match b with [] => True | c :: _ => p c = false end ->
  span p (a ++ b) = (a, b).
Proof.
  induction a as [|x a IH]; intros b Ha Hb; simpl in *.
  - destruct b as [|c b]; [reflexivity|]. simpl. now rewrite Hb.
  - apply andb_true_iff in Ha. destruct Ha as [Hx Ha]. rewrite Hx, (IH b Ha Hb). reflexivity.
Qed.

Lemma ends_token_head : forall (p : Z -> bool) rest, ends_token rest ->
  p 44 = false -> p 41 = false -> p 93 = false ->
  match rest with [] => True | c :: _ => p c = false end.
Proof.
  intros p [|c r] H H1 H2 H3; [exact I|]. simpl in H. destruct H as [->|[->| ->]]; assumption.
Qed.

Lemma skip_ws_nonblank : forall c r, is_blank c = false -> skip_ws (c :: r) = c :: r.
Proof. intros c r H. simpl. now rewrite H. Qed.

Lemma parse_value_blank : forall fuel l, parse_value fuel (32 :: l) = parse_value fuel l.
Proof. intros [|f] l; reflexivity. Qed.

Lemma parse_elems_blank : forall fuel l, parse_elems fuel (32 :: l) = parse_elems fuel l.
Proof. intros [|f] l; [reflexivity|]. cbn [parse_elems]. now rewrite parse_value_blank. Qed.

Lemma parse_fields_blank : forall fuel l, parse_fields fuel (32 :: l) = parse_fields fuel l.
Proof. intros [|f] l; reflexivity. Qed.

Lemma skip_ws_eq_sign : forall x, skip_ws (eq_sign ++ x) = 61 :: 32 :: x.
Proof. reflexivity. Qed.

(* one unfolding of the reader, keeping its helpers folded *)
Ltac step_pv :=
  with_strategy opaque [skip_ws span starts_hexlit parse_body take_marker parse_hexdata number_of_token
                        ident_value is_digit is_alpha is_blank is_idchar is_numchar quote Z.eqb skipn eq_sign sep] simpl.

(* ------------------------------------------------------------ decimal numbers *)

Lemma uint_of_digits_bytes : forall u, uint_of_digits (uint_bytes u) = Some u.
Proof. induction u; simpl; try rewrite IHu; reflexivity. Qed.

Lemma uint_bytes_numchar : forall u, forallb is_numchar (uint_bytes u) = true.
Proof. induction u; simpl; try rewrite IHu; reflexivity. Qed.

Lemma uint_bytes_head : forall u, u <> Nil ->
  exists c r, uint_bytes u = c :: r /\ is_digit c = true.
Proof. destruct u; intros H; try congruence; simpl; eexists; eexists; split; reflexivity. Qed.

Lemma print_int_numchar : forall z, forallb is_numchar (print_int z) = true.
Proof.
  intros z. unfold print_int. destruct (Z.to_int z); simpl; apply uint_bytes_numchar.
Qed.

Lemma to_int_nonnil : forall z, match Z.to_int z with Pos u => u <> Nil | Neg u => u <> Nil end.
Proof.
  destruct z; simpl; try apply Unsigned.to_uint_nonnil. discriminate.
Qed.

(* first byte of a printed integer: a digit or '-' *)
Lemma print_int_head : forall z, exists c r, print_int z = c :: r /\ (is_digit c = true \/ c = 45).
Proof.
  intros z. unfold print_int. pose proof (to_int_nonnil z) as H. destruct (Z.to_int z) as [u|u].
  - destruct (uint_bytes_head u H) as (c & r & E & D). exists c, r. split; [assumption|now left].
  - eexists; eexists. split; [reflexivity|now right].
Qed.

Lemma number_of_print_int : forall z, number_of_token (print_int z) = TvInt z.
Proof.
  intros z. unfold print_int. pose proof (to_int_nonnil z) as H. pose proof (DecimalZ.of_to z) as R.
  destruct (Z.to_int z) as [u|u].
  - destruct (uint_bytes_head u H) as (c & r & E & D). unfold number_of_token. rewrite E.
    assert (Hc : (c =? 45) = false) by (unfold is_digit in D; lia). rewrite Hc. cbn [andb].
    rewrite <- E, uint_of_digits_bytes. simpl in R. now rewrite R.
  - destruct (uint_bytes_head u H) as (c & r & E & D). unfold number_of_token.
    change (45 =? 45) with true. rewrite E. cbn [length Nat.eqb negb andb].
    rewrite <- E, uint_of_digits_bytes. simpl in R. now rewrite R.
Qed.

(* ------------------------------------------------------------ tokens *)

Lemma alpha_not_special : forall c, is_alpha c = true ->
  (c =? 40) = false /\ (c =? 91) = false /\ (c =? 34) = false /\ (c =? 60) = false /\
  (c =? 48) = false /\ is_digit c = false /\ (c =? 45) = false /\ (c =? 43) = false /\ is_blank c = false.
Proof. intros c H. unfold is_alpha in H. unfold is_digit, is_blank. lia. Qed.

Lemma starts_hexlit_false : forall c r, (c =? 48) = false -> starts_hexlit c r = false.
Proof. intros c [|a [|b r]] H; simpl; try reflexivity. now rewrite H. Qed.

Lemma parse_ident_token : forall name rest fuel, ident_ok name -> ends_token rest ->
  parse_value (S fuel) (name ++ rest) = Some (ident_value name, rest).
Proof.
  intros name rest fuel [Hall (c & r & -> & Hc)] He.
  destruct (alpha_not_special c Hc) as (H1 & H2 & H3 & H4 & H5 & H6 & H7 & H8 & H9).
  cbn [app]. step_pv. rewrite (skip_ws_nonblank _ _ H9). cbv beta iota.
  rewrite H1, H2, H3, H4, (starts_hexlit_false _ _ H5), H6, H7, H8, Hc. cbn [orb].
  change (c :: r ++ rest) with ((c :: r) ++ rest).
  rewrite (span_app is_idchar (c :: r) rest Hall); [reflexivity|].
  apply ends_token_head; [assumption|reflexivity..].
Qed.

Lemma parse_int_token : forall z rest fuel, ends_token rest ->
  parse_value (S fuel) (print_int z ++ rest) = Some (TvInt z, rest).
Proof.
  intros z rest fuel He.
  destruct (print_int_head z) as (c & r & E & Hc).
  pose proof (print_int_numchar z) as Hn. pose proof (number_of_print_int z) as Hv.
  rewrite E in *. cbn [app]. step_pv.
  assert (Hb : is_blank c = false) by (unfold is_digit, is_blank in *; lia).
  rewrite (skip_ws_nonblank _ _ Hb). cbv beta iota.
  assert (H1 : (c =? 40) = false) by (unfold is_digit in *; lia).
  assert (H2 : (c =? 91) = false) by (unfold is_digit in *; lia).
  assert (H3 : (c =? 34) = false) by (unfold is_digit in *; lia).
  assert (H4 : (c =? 60) = false) by (unfold is_digit in *; lia).
  rewrite H1, H2, H3, H4.
  assert (H5 : starts_hexlit c (r ++ rest) = false).
  { destruct r as [|a r].
    - destruct rest as [|x [|y rest]]; try reflexivity. simpl in He. simpl.
      assert ((x =? 120) = false) by lia. rewrite H. now rewrite andb_false_r.
    - simpl in Hn. assert (Ha : is_numchar a = true) by (destruct (is_numchar c), (is_numchar a); simpl in Hn; congruence).
      change ((a :: r) ++ rest) with (a :: (r ++ rest)). destruct (r ++ rest) as [|b q] eqn:Eq; [reflexivity|].
      destruct r as [|b' r'].
      + simpl in Eq. subst rest. simpl in He. unfold starts_hexlit.
        assert ((b =? 34) = false) by lia. rewrite H. now rewrite andb_false_r.
      + simpl in Eq. inversion Eq; subst b'. simpl in Hn.
        assert (Hb' : is_numchar b = true) by (destruct (is_numchar c), (is_numchar a), (is_numchar b); simpl in Hn; congruence).
        unfold starts_hexlit. assert ((b =? 34) = false) by (unfold is_numchar, is_idchar, is_alpha, is_digit in Hb'; lia).
        rewrite H. now rewrite andb_false_r. }
  rewrite H5.
  assert (H6 : is_digit c || (c =? 45) || (c =? 43) = true) by (destruct Hc as [Hc|Hc]; [rewrite Hc; reflexivity|subst c; reflexivity]).
  rewrite H6.
  change (c :: r ++ rest) with ((c :: r) ++ rest).
  rewrite (span_app is_numchar (c :: r) rest Hn); [now rewrite Hv|].
  apply ends_token_head; [assumption|reflexivity..].
Qed.

Lemma parse_str_token : forall s rest fuel, bytes_ok s ->
  parse_value (S fuel) (quote s ++ rest) = Some (TvStr s, rest).
Proof.
  intros s rest fuel Hs. rewrite quote_eq. unfold quote_gen.
  cbn [app]. step_pv. rewrite skip_ws_nonblank by reflexivity. cbv beta iota.
  change (34 =? 40) with false. change (34 =? 91) with false. change (34 =? 34) with true. cbv iota.
  rewrite <- app_assoc. change ([34] ++ rest) with (34 :: rest). now rewrite parse_quote_body.
Qed.

Lemma parse_marker_token : forall m rest fuel, m = marker_cap \/ m = marker_any ->
  parse_value (S fuel) (m ++ rest) = Some (TvMarker m, rest).
Proof. intros m rest fuel [->| ->]; reflexivity. Qed.

(* first byte of a printed value *)
Lemma print_head : forall t, wf_tval t ->
  exists c r, print t = c :: r /\ is_blank c = false /\ c <> 93 /\ c <> 41.
Proof.
  intros t H. destruct t; simpl in H; try contradiction.
  - eexists; eexists; repeat split; try reflexivity; discriminate.
  - destruct b; eexists; eexists; repeat split; try reflexivity; discriminate.
  - destruct (print_int_head z) as (c & r & E & Hc). exists c, r. simpl. split; [assumption|].
    unfold is_digit, is_blank in *. lia.
  - simpl. rewrite quote_eq. unfold quote_gen. eexists; eexists; repeat split; try reflexivity; discriminate.
  - destruct H as [[_ (c & r & -> & Hc)] _]. exists c, r. simpl. split; [reflexivity|].
    unfold is_alpha, is_blank in *. lia.
  - destruct H as [->| ->]; eexists; eexists; repeat split; try reflexivity; discriminate.
  - eexists; eexists; repeat split; try reflexivity; discriminate.
  - eexists; eexists; repeat split; try reflexivity; discriminate.
Qed.

(* ------------------------------------------------------------ reading back a printed value *)

Definition P_val (t : tval) : Prop := wf_tval t -> forall fuel rest,
  (msize t < fuel)%nat -> ends_token rest -> parse_value fuel (print t ++ rest) = Some (t, rest).
Definition P_elems (l : tvals) : Prop := wf_tvals l -> forall fuel rest,
  (msl l < fuel)%nat ->
  match l with
  | TNil => True
  | TCons v r => parse_elems fuel (print v ++ print_elems false r ++ 93 :: rest) = Some (l, rest)
  end.
Definition P_fields (fs : tfields) : Prop := wf_tfields fs -> forall fuel rest,
  (msf fs < fuel)%nat ->
  match fs with
  | FNil => True
  | FCons n v r => parse_fields fuel (n ++ eq_sign ++ print v ++ print_fields false r ++ 41 :: rest) = Some (fs, rest)
  end.

Lemma print_elems_tail : forall r rest,
  exists c q, print_elems false r ++ 93 :: rest = c :: q /\ (c = 44 \/ c = 93) /\
    match r with TNil => c = 93 /\ q = rest | TCons v r' => c = 44 /\ q = 32 :: print v ++ print_elems false r' ++ 93 :: rest end.
Proof.
  intros [|v r'] rest; cbn [print_elems].
  - eexists; eexists; repeat split; auto.
  - exists 44, (32 :: print v ++ print_elems false r' ++ 93 :: rest).
    split; [unfold sep; now rewrite <- !app_assoc|]. split; [now left|]. split; reflexivity.
Qed.

Lemma print_fields_tail : forall r rest,
  exists c q, print_fields false r ++ 41 :: rest = c :: q /\ (c = 44 \/ c = 41) /\
    match r with FNil => c = 41 /\ q = rest
    | FCons n v r' => c = 44 /\ q = 32 :: n ++ eq_sign ++ print v ++ print_fields false r' ++ 41 :: rest end.
Proof.
  intros [|n v r'] rest; cbn [print_fields].
  - eexists; eexists; repeat split; auto.
  - exists 44, (32 :: n ++ eq_sign ++ print v ++ print_fields false r' ++ 41 :: rest).
    split; [unfold sep; now rewrite <- !app_assoc|]. split; [now left|]. split; reflexivity.
Qed.

Lemma parse_print_all :
  (forall t, P_val t) /\ (forall l, P_elems l) /\ (forall fs, P_fields fs).
Proof.
  apply tval_mutind; unfold P_val, P_elems, P_fields.
  - (* void *) intros _ [|f] rest Hf He; [simpl in Hf; lia|].
    apply (parse_ident_token kw_void rest f); [|assumption].
    split; [reflexivity|]. eexists; eexists; split; reflexivity.
  - (* bool *) intros b _ [|f] rest Hf He; [simpl in Hf; lia|]. destruct b.
    + apply (parse_ident_token kw_true rest f); [|assumption].
      split; [reflexivity|]. eexists; eexists; split; reflexivity.
    + apply (parse_ident_token kw_false rest f); [|assumption].
      split; [reflexivity|]. eexists; eexists; split; reflexivity.
  - (* int *) intros z _ [|f] rest Hf He; [simpl in Hf; lia|]. now apply parse_int_token.
  - (* float *) intros tok H; contradiction.
  - (* str *) intros s H [|f] rest Hf He; [simpl in Hf; lia|]. now apply parse_str_token.
  - (* data *) intros s H; contradiction.
  - (* ident *) intros n [H1 H2] [|f] rest Hf He; [simpl in Hf; lia|].
    cbn [print]. rewrite (parse_ident_token n rest f H1 He). now rewrite H2.
  - (* marker *) intros m H [|f] rest Hf He; [simpl in Hf; lia|]. now apply parse_marker_token.
  - (* list *) intros l IH H [|f] rest Hf He; [simpl in Hf; lia|].
    simpl in H, Hf. cbn [print app]. step_pv. rewrite skip_ws_nonblank by reflexivity. cbv beta iota.
    change (91 =? 40) with false. change (91 =? 91) with true. cbv iota.
    destruct l as [|v r].
    + reflexivity.
    + cbn [print_elems app]. destruct H as [Hv Hr].
      destruct (print_head v Hv) as (c & q & E & Hb & H93 & H41).
      rewrite <- !app_assoc. rewrite E. rewrite !app_nil_l, <- !app_comm_cons.
      rewrite (skip_ws_nonblank _ _ Hb). cbv beta iota.
      destruct (Z.eqb_spec c 93); [contradiction|].
      match goal with |- context [parse_elems f ?x] =>
        change x with ((c :: q) ++ print_elems false r ++ 93 :: rest) end.
      rewrite <- E. rewrite (IH (conj Hv Hr) f rest); [reflexivity|lia].
  - (* struct *) intros fs IH H [|f] rest Hf He; [simpl in Hf; lia|].
    simpl in H, Hf. cbn [print app]. step_pv. rewrite skip_ws_nonblank by reflexivity. cbv beta iota.
    change (40 =? 40) with true. cbv iota.
    destruct fs as [|n v r].
    + reflexivity.
    + cbn [print_fields app]. destruct H as [[Hn1 Hn2] [Hv Hr]].
      destruct n as [|c q]; [congruence|].
      assert (Hc : is_idchar c = true) by (simpl in Hn2; apply andb_true_iff in Hn2; tauto).
      assert (Hb : is_blank c = false) by (unfold is_idchar, is_alpha, is_digit, is_blank in *; lia).
      rewrite <- !app_assoc. rewrite !app_nil_l, <- !app_comm_cons.
      rewrite (skip_ws_nonblank _ _ Hb). cbv beta iota.
      destruct (Z.eqb_spec c 41); [unfold is_idchar, is_alpha, is_digit in Hc; lia|].
      match goal with |- context [parse_fields f ?x] =>
        change x with ((c :: q) ++ eq_sign ++ print v ++ print_fields false r ++ 41 :: rest) end.
      rewrite (IH (conj (conj Hn1 Hn2) (conj Hv Hr)) f rest); [reflexivity|lia].
  - (* TNil *) intros; exact I.
  - (* TCons *) intros v IHv r IHr [Hv Hr] [|f] rest Hf; [simpl in Hf; lia|]. simpl in Hf.
    step_pv.
    destruct (print_elems_tail r rest) as (c & q & E & Hc & Hq).
    rewrite (IHv Hv f (print_elems false r ++ 93 :: rest)); [|lia|rewrite E; simpl; tauto].
    rewrite E. assert (Hb : is_blank c = false) by (unfold is_blank; lia).
    rewrite (skip_ws_nonblank _ _ Hb). cbv beta iota.
    destruct r as [|v' r'].
    + destruct Hq as [-> ->]. reflexivity.
    + destruct Hq as [-> ->]. change (44 =? 93) with false. change (44 =? 44) with true. cbv iota.
      rewrite parse_elems_blank. specialize (IHr Hr f rest). cbv beta iota in IHr. rewrite IHr; [reflexivity|lia].
  - (* FNil *) intros; exact I.
  - (* FCons *) intros n v IHv r IHr [[Hn1 Hn2] [Hv Hr]] [|f] rest Hf; [simpl in Hf; lia|]. simpl in Hf.
    step_pv.
    destruct n as [|c0 q0]; [congruence|].
    assert (Hc : is_idchar c0 = true) by (simpl in Hn2; apply andb_true_iff in Hn2; tauto).
    assert (Hb : is_blank c0 = false) by (unfold is_idchar, is_alpha, is_digit, is_blank in *; lia).
    rewrite <- !app_comm_cons. rewrite (skip_ws_nonblank _ _ Hb).
    match goal with |- context [span is_idchar ?x] =>
      change x with ((c0 :: q0) ++ eq_sign ++ print v ++ print_fields false r ++ 41 :: rest) end.
    rewrite (span_app is_idchar (c0 :: q0) _ Hn2); [|reflexivity]. cbv beta iota.
    rewrite skip_ws_eq_sign. cbv beta iota.
    change (61 =? 61) with true. cbn [negb]. rewrite parse_value_blank.
    destruct (print_fields_tail r rest) as (c & q & E & Hc' & Hq).
    rewrite (IHv Hv f (print_fields false r ++ 41 :: rest)); [|lia|rewrite E; simpl; tauto].
    rewrite E. assert (Hb' : is_blank c = false) by (unfold is_blank; lia).
    rewrite (skip_ws_nonblank _ _ Hb'). cbv beta iota.
    destruct r as [|n' v' r'].
    + destruct Hq as [-> ->]. reflexivity.
    + destruct Hq as [-> ->]. change (44 =? 41) with false. change (44 =? 44) with true. cbv iota.
      rewrite parse_fields_blank. specialize (IHr Hr f rest). cbv beta iota in IHr. rewrite IHr; [reflexivity|lia].
Qed.

Lemma print_length : forall t, wf_tval t -> (1 <= length (print t))%nat.
Proof. intros t H. destruct (print_head t H) as (c & r & E & _). rewrite E. simpl. lia. Qed.

Lemma msize_le_print :
  (forall t, wf_tval t -> (msize t <= length (print t))%nat) /\
  (forall l, wf_tvals l -> forall b : bool, (msl l <= length (print_elems b l) + (if b then 1 else 0))%nat) /\
  (forall fs, wf_tfields fs -> forall b : bool, (msf fs <= length (print_fields b fs) + (if b then 1 else 0))%nat).
Proof.
  apply tval_mutind.
  - intros H; now apply print_length.
  - intros b H; now apply print_length.
  - intros z H; now apply print_length.
  - intros tok H; contradiction.
  - intros s0 H; now apply print_length.
  - intros s0 H; contradiction.
  - intros n H; now apply print_length.
  - intros m H; now apply print_length.
  - intros l IH H. cbn [msize print wf_tval] in *. specialize (IH H true). cbv beta iota in IH.
    cbn [length]. rewrite app_length. cbn [length]. lia.
  - intros fs IH H. cbn [msize print wf_tval] in *. specialize (IH H true). cbv beta iota in IH.
    cbn [length]. rewrite app_length. cbn [length]. lia.
  - intros _ b. cbn [msl]. lia.
  - intros v IHv r IHr [Hv Hr] b. cbn [msl print_elems]. rewrite !app_length.
    specialize (IHv Hv). specialize (IHr Hr false). destruct b; cbn [length sep] in *; lia.
  - intros _ b. cbn [msf]. lia.
  - intros n v IHv r IHr [[Hn _] [Hv Hr]] b. cbn [msf print_fields]. rewrite !app_length.
    specialize (IHv Hv). specialize (IHr Hr false). destruct b; cbn [length sep] in *; lia.
Qed.

(* every printed value of the float-free fragment is read back exactly, with nothing left *)
Theorem parse_print : forall t, wf_tval t -> parse_text (print t) = Some t.
Proof.
  intros t H. unfold parse_text.
  destruct parse_print_all as [PV _].
  pose proof (PV t H (S (length (print t))) [] ) as E. rewrite app_nil_r in E.
  rewrite E; [reflexivity| |exact I].
  destruct msize_le_print as [M _]. specialize (M t H). lia.
Qed.

Corollary print_injective : forall t1 t2, wf_tval t1 -> wf_tval t2 -> print t1 = print t2 -> t1 = t2.
Proof.
  intros t1 t2 H1 H2 E. pose proof (parse_print t1 H1) as P1. rewrite E, (parse_print t2 H2) in P1.
  now inversion P1.
Qed.
