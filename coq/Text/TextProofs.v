(* Proofs about the rendering model (TextM.v) against the independent reader (TextSpec.v):
   reading back what is printed, and the encoder's independence of its history. *)
From CV Require Import Text.Strquote Text.TextSpec Text.StrquoteProofs Text.TextM.
From Coq Require Import Decimal DecimalPos DecimalZ ZifyBool ZifyNat.
Open Scope Z_scope.

(* ------------------------------------------------------------ the float-free fragment *)

Definition name_ok (n : list Z) : Prop := n <> [] /\ forallb is_idchar n = true.
Definition ident_ok (n : list Z) : Prop :=
  forallb is_idchar n = true /\ exists c r, n = c :: r /\ is_alpha c = true.

Fixpoint wf_tval (t : tval) : Prop :=
  match t with
  | TvVoid | TvBool _ | TvInt _ => True
  | TvFloat _ | TvData _ => False
  | TvStr s => bytes_ok s
  | TvIdent n => ident_ok n /\ ident_value n = TvIdent n
  | TvMarker m => m = marker_cap \/ m = marker_any
  | TvList l => wf_tvals l
  | TvStruct fs => wf_tfields fs
  end
with wf_tvals (l : tvals) : Prop :=
  match l with TNil => True | TCons v r => wf_tval v /\ wf_tvals r end
with wf_tfields (fs : tfields) : Prop :=
  match fs with FNil => True | FCons n v r => name_ok n /\ wf_tval v /\ wf_tfields r end.

Fixpoint msize (t : tval) : nat :=
  match t with
  | TvList l => S (msl l)
  | TvStruct fs => S (msf fs)
  | _ => 1%nat
  end
with msl (l : tvals) : nat :=
  match l with TNil => O | TCons v r => S (msize v + msl r) end
with msf (fs : tfields) : nat :=
  match fs with FNil => O | FCons _ v r => S (msize v + msf r) end.

Scheme tval_mind := Induction for tval Sort Prop
  with tvals_mind := Induction for tvals Sort Prop
  with tfields_mind := Induction for tfields Sort Prop.
Combined Scheme tval_mutind from tval_mind, tvals_mind, tfields_mind.

(* what may follow a value: nothing, or ',' ')' ']' *)
Definition ends_token (rest : list Z) : Prop :=
  match rest with [] => True | c :: _ => c = 44 \/ c = 41 \/ c = 93 end.

(* ------------------------------------------------------------ small facts *)

Lemma span_app : forall p a b, forallb p a = true ->
  match b with [] => True | c :: _ => p c = false end ->
  span p (a ++ b) = (a, b).
Proof.
  induction a as [|x a IH]; intros b Ha Hb; simpl in *.
  - destruct b as [|c b]; [reflexivity|]. simpl. now rewrite Hb.
  - apply andb_true_iff in Ha. destruct Ha as [Hx Ha]. rewrite Hx, (IH b Ha Hb). reflexivity.
Qed.

Lemma ends_token_head : forall (p : Z -> bool) rest, ends_token rest ->
  p 44 = false -> p 41 = false -> p 93 = false ->
  match rest with [] => True | c :: _ => p c = false end.
Proof.
  intros p [|c r] H H1 H2 H3; [exact I|]. simpl in H. destruct H as [->|[->| ->]]; assumption.
Qed.

Lemma skip_ws_nonblank : forall c r, is_blank c = false -> skip_ws (c :: r) = c :: r.
Proof. intros c r H. simpl. now rewrite H. Qed.

Lemma parse_value_blank : forall fuel l, parse_value fuel (32 :: l) = parse_value fuel l.
Proof. intros [|f] l; reflexivity. Qed.

Lemma parse_elems_blank : forall fuel l, parse_elems fuel (32 :: l) = parse_elems fuel l.
Proof. intros [|f] l; [reflexivity|]. cbn [parse_elems]. now rewrite parse_value_blank. Qed.

Lemma parse_fields_blank : forall fuel l, parse_fields fuel (32 :: l) = parse_fields fuel l.
Proof. intros [|f] l; reflexivity. Qed.

Lemma skip_ws_eq_sign : forall x, skip_ws (eq_sign ++ x) = 61 :: 32 :: x.
Proof. reflexivity. Qed.

(* one unfolding of the reader, keeping its helpers folded *)
Ltac step_pv :=
  with_strategy opaque [skip_ws span starts_hexlit parse_body take_marker parse_hexdata number_of_token
                        ident_value is_digit is_alpha is_blank is_idchar is_numchar quote Z.eqb skipn eq_sign sep] simpl.

(* ------------------------------------------------------------ decimal numbers *)

Lemma uint_of_digits_bytes : forall u, uint_of_digits (uint_bytes u) = Some u.
Proof. induction u; simpl; try rewrite IHu; reflexivity. Qed.

Lemma uint_bytes_numchar : forall u, forallb is_numchar (uint_bytes u) = true.
Proof. induction u; simpl; try rewrite IHu; reflexivity. Qed.

Lemma uint_bytes_head : forall u, u <> Nil ->
  exists c r, uint_bytes u = c :: r /\ is_digit c = true.
Proof. destruct u; intros H; try congruence; simpl; eexists; eexists; split; reflexivity. Qed.

Lemma print_int_numchar : forall z, forallb is_numchar (print_int z) = true.
Proof.
  intros z. unfold print_int. destruct (Z.to_int z); simpl; apply uint_bytes_numchar.
Qed.

Lemma to_int_nonnil : forall z, match Z.to_int z with Pos u => u <> Nil | Neg u => u <> Nil end.
Proof.
  destruct z; simpl; try apply Unsigned.to_uint_nonnil. discriminate.
Qed.

(* first byte of a printed integer: a digit or '-' *)
Lemma print_int_head : forall z, exists c r, print_int z = c :: r /\ (is_digit c = true \/ c = 45).
Proof.
  intros z. unfold print_int. pose proof (to_int_nonnil z) as H. destruct (Z.to_int z) as [u|u].
  - destruct (uint_bytes_head u H) as (c & r & E & D). exists c, r. split; [assumption|now left].
  - eexists; eexists. split; [reflexivity|now right].
Qed.

Lemma number_of_print_int : forall z, number_of_token (print_int z) = TvInt z.
Proof.
  intros z. unfold print_int. pose proof (to_int_nonnil z) as H. pose proof (DecimalZ.of_to z) as R.
  destruct (Z.to_int z) as [u|u].
  - destruct (uint_bytes_head u H) as (c & r & E & D). unfold number_of_token. rewrite E.
    assert (Hc : (c =? 45) = false) by (unfold is_digit in D; lia). rewrite Hc. cbn [andb].
    rewrite <- E, uint_of_digits_bytes. simpl in R. now rewrite R.
  - destruct (uint_bytes_head u H) as (c & r & E & D). unfold number_of_token.
    change (45 =? 45) with true. rewrite E. cbn [length Nat.eqb negb andb].
    rewrite <- E, uint_of_digits_bytes. simpl in R. now rewrite R.
Qed.

(* ------------------------------------------------------------ tokens *)

Lemma alpha_not_special : forall c, is_alpha c = true ->
  (c =? 40) = false /\ (c =? 91) = false /\ (c =? 34) = false /\ (c =? 60) = false /\
  (c =? 48) = false /\ is_digit c = false /\ (c =? 45) = false /\ (c =? 43) = false /\ is_blank c = false.
Proof. intros c H. unfold is_alpha in H. unfold is_digit, is_blank. lia. Qed.

Lemma starts_hexlit_false : forall c r, (c =? 48) = false -> starts_hexlit c r = false.
Proof. intros c [|a [|b r]] H; simpl; try reflexivity. now rewrite H. Qed.

Lemma parse_ident_token : forall name rest fuel, ident_ok name -> ends_token rest ->
  parse_value (S fuel) (name ++ rest) = Some (ident_value name, rest).
Proof.
  intros name rest fuel [Hall (c & r & -> & Hc)] He.
  destruct (alpha_not_special c Hc) as (H1 & H2 & H3 & H4 & H5 & H6 & H7 & H8 & H9).
  cbn [app]. step_pv. rewrite (skip_ws_nonblank _ _ H9). cbv beta iota.
  rewrite H1, H2, H3, H4, (starts_hexlit_false _ _ H5), H6, H7, H8, Hc. cbn [orb].
  change (c :: r ++ rest) with ((c :: r) ++ rest).
  rewrite (span_app is_idchar (c :: r) rest Hall); [reflexivity|].
  apply ends_token_head; [assumption|reflexivity..].
Qed.

Lemma parse_int_token : forall z rest fuel, ends_token rest ->
  parse_value (S fuel) (print_int z ++ rest) = Some (TvInt z, rest).
Proof.
  intros z rest fuel He.
  destruct (print_int_head z) as (c & r & E & Hc).
  pose proof (print_int_numchar z) as Hn. pose proof (number_of_print_int z) as Hv.
  rewrite E in *. cbn [app]. step_pv.
  assert (Hb : is_blank c = false) by (unfold is_digit, is_blank in *; lia).
  rewrite (skip_ws_nonblank _ _ Hb). cbv beta iota.
  assert (H1 : (c =? 40) = false) by (unfold is_digit in *; lia).
  assert (H2 : (c =? 91) = false) by (unfold is_digit in *; lia).
  assert (H3 : (c =? 34) = false) by (unfold is_digit in *; lia).
  assert (H4 : (c =? 60) = false) by (unfold is_digit in *; lia).
  rewrite H1, H2, H3, H4.
  assert (H5 : starts_hexlit c (r ++ rest) = false).
  { destruct r as [|a r].
    - destruct rest as [|x [|y rest]]; try reflexivity. simpl in He. simpl.
      assert ((x =? 120) = false) by lia. rewrite H. now rewrite andb_false_r.
    - simpl in Hn. assert (Ha : is_numchar a = true) by (destruct (is_numchar c), (is_numchar a); simpl in Hn; congruence).
      change ((a :: r) ++ rest) with (a :: (r ++ rest)). destruct (r ++ rest) as [|b q] eqn:Eq; [reflexivity|].
      destruct r as [|b' r'].
      + simpl in Eq. subst rest. simpl in He. unfold starts_hexlit.
        assert ((b =? 34) = false) by lia. rewrite H. now rewrite andb_false_r.
      + simpl in Eq. inversion Eq; subst b'. simpl in Hn.
        assert (Hb' : is_numchar b = true) by (destruct (is_numchar c), (is_numchar a), (is_numchar b); simpl in Hn; congruence).
        unfold starts_hexlit. assert ((b =? 34) = false) by (unfold is_numchar, is_idchar, is_alpha, is_digit in Hb'; lia).
        rewrite H. now rewrite andb_false_r. }
  rewrite H5.
  assert (H6 : is_digit c || (c =? 45) || (c =? 43) = true) by (destruct Hc as [Hc|Hc]; [rewrite Hc; reflexivity|subst c; reflexivity]).
  rewrite H6.
  change (c :: r ++ rest) with ((c :: r) ++ rest).
  rewrite (span_app is_numchar (c :: r) rest Hn); [now rewrite Hv|].
  apply ends_token_head; [assumption|reflexivity..].
Qed.

Lemma parse_str_token : forall s rest fuel, bytes_ok s ->
  parse_value (S fuel) (quote s ++ rest) = Some (TvStr s, rest).
Proof.
  intros s rest fuel Hs. rewrite quote_eq. unfold quote_gen.
  cbn [app]. step_pv. rewrite skip_ws_nonblank by reflexivity. cbv beta iota.
  change (34 =? 40) with false. change (34 =? 91) with false. change (34 =? 34) with true. cbv iota.
  rewrite <- app_assoc. change ([34] ++ rest) with (34 :: rest). now rewrite parse_quote_body.
Qed.

Lemma parse_marker_token : forall m rest fuel, m = marker_cap \/ m = marker_any ->
  parse_value (S fuel) (m ++ rest) = Some (TvMarker m, rest).
Proof. intros m rest fuel [->| ->]; reflexivity. Qed.

(* first byte of a printed value *)
Lemma print_head : forall t, wf_tval t ->
  exists c r, print t = c :: r /\ is_blank c = false /\ c <> 93 /\ c <> 41.
Proof.
  intros t H. destruct t; simpl in H; try contradiction.
  - eexists; eexists; repeat split; try reflexivity; discriminate.
  - destruct b; eexists; eexists; repeat split; try reflexivity; discriminate.
  - destruct (print_int_head z) as (c & r & E & Hc). exists c, r. simpl. split; [assumption|].
    unfold is_digit, is_blank in *. lia.
  - simpl. rewrite quote_eq. unfold quote_gen. eexists; eexists; repeat split; try reflexivity; discriminate.
  - destruct H as [[_ (c & r & -> & Hc)] _]. exists c, r. simpl. split; [reflexivity|].
    unfold is_alpha, is_blank in *. lia.
  - destruct H as [->| ->]; eexists; eexists; repeat split; try reflexivity; discriminate.
  - eexists; eexists; repeat split; try reflexivity; discriminate.
  - eexists; eexists; repeat split; try reflexivity; discriminate.
Qed.

(* ------------------------------------------------------------ reading back a printed value *)

Definition P_val (t : tval) : Prop := wf_tval t -> forall fuel rest,
  (msize t < fuel)%nat -> ends_token rest -> parse_value fuel (print t ++ rest) = Some (t, rest).
Definition P_elems (l : tvals) : Prop := wf_tvals l -> forall fuel rest,
  (msl l < fuel)%nat ->
  match l with
  | TNil => True
  | TCons v r => parse_elems fuel (print v ++ print_elems false r ++ 93 :: rest) = Some (l, rest)
  end.
Definition P_fields (fs : tfields) : Prop := wf_tfields fs -> forall fuel rest,
  (msf fs < fuel)%nat ->
  match fs with
  | FNil => True
  | FCons n v r => parse_fields fuel (n ++ eq_sign ++ print v ++ print_fields false r ++ 41 :: rest) = Some (fs, rest)
  end.

Lemma print_elems_tail : forall r rest,
  exists c q, print_elems false r ++ 93 :: rest = c :: q /\ (c = 44 \/ c = 93) /\
    match r with TNil => c = 93 /\ q = rest | TCons v r' => c = 44 /\ q = 32 :: print v ++ print_elems false r' ++ 93 :: rest end.
Proof.
  intros [|v r'] rest; cbn [print_elems].
  - eexists; eexists; repeat split; auto.
  - exists 44, (32 :: print v ++ print_elems false r' ++ 93 :: rest).
    split; [unfold sep; now rewrite <- !app_assoc|]. split; [now left|]. split; reflexivity.
Qed.

Lemma print_fields_tail : forall r rest,
  exists c q, print_fields false r ++ 41 :: rest = c :: q /\ (c = 44 \/ c = 41) /\
    match r with FNil => c = 41 /\ q = rest
    | FCons n v r' => c = 44 /\ q = 32 :: n ++ eq_sign ++ print v ++ print_fields false r' ++ 41 :: rest end.
Proof.
  intros [|n v r'] rest; cbn [print_fields].
  - eexists; eexists; repeat split; auto.
  - exists 44, (32 :: n ++ eq_sign ++ print v ++ print_fields false r' ++ 41 :: rest).
    split; [unfold sep; now rewrite <- !app_assoc|]. split; [now left|]. split; reflexivity.
Qed.

Lemma parse_print_all :
  (forall t, P_val t) /\ (forall l, P_elems l) /\ (forall fs, P_fields fs).
Proof.
  apply tval_mutind; unfold P_val, P_elems, P_fields.
  - (* void *) intros _ [|f] rest Hf He; [simpl in Hf; lia|].
    apply (parse_ident_token kw_void rest f); [|assumption].
    split; [reflexivity|]. eexists; eexists; split; reflexivity.
  - (* bool *) intros b _ [|f] rest Hf He; [simpl in Hf; lia|]. destruct b.
    + apply (parse_ident_token kw_true rest f); [|assumption].
      split; [reflexivity|]. eexists; eexists; split; reflexivity.
    + apply (parse_ident_token kw_false rest f); [|assumption].
      split; [reflexivity|]. eexists; eexists; split; reflexivity.
  - (* int *) intros z _ [|f] rest Hf He; [simpl in Hf; lia|]. now apply parse_int_token.
  - (* float *) intros tok H; contradiction.
  - (* str *) intros s H [|f] rest Hf He; [simpl in Hf; lia|]. now apply parse_str_token.
  - (* data *) intros s H; contradiction.
  - (* ident *) intros n [H1 H2] [|f] rest Hf He; [simpl in Hf; lia|].
    cbn [print]. rewrite (parse_ident_token n rest f H1 He). now rewrite H2.
  - (* marker *) intros m H [|f] rest Hf He; [simpl in Hf; lia|]. now apply parse_marker_token.
  - (* list *) intros l IH H [|f] rest Hf He; [simpl in Hf; lia|].
    simpl in H, Hf. cbn [print app]. step_pv. rewrite skip_ws_nonblank by reflexivity. cbv beta iota.
    change (91 =? 40) with false. change (91 =? 91) with true. cbv iota.
    destruct l as [|v r].
    + reflexivity.
    + cbn [print_elems app]. destruct H as [Hv Hr].
      destruct (print_head v Hv) as (c & q & E & Hb & H93 & H41).
      rewrite <- !app_assoc. rewrite E. rewrite !app_nil_l, <- !app_comm_cons.
      rewrite (skip_ws_nonblank _ _ Hb). cbv beta iota.
      destruct (Z.eqb_spec c 93); [contradiction|].
      match goal with |- context [parse_elems f ?x] =>
        change x with ((c :: q) ++ print_elems false r ++ 93 :: rest) end.
      rewrite <- E. rewrite (IH (conj Hv Hr) f rest); [reflexivity|lia].
  - (* struct *) intros fs IH H [|f] rest Hf He; [simpl in Hf; lia|].
    simpl in H, Hf. cbn [print app]. step_pv. rewrite skip_ws_nonblank by reflexivity. cbv beta iota.
    change (40 =? 40) with true. cbv iota.
    destruct fs as [|n v r].
    + reflexivity.
    + cbn [print_fields app]. destruct H as [[Hn1 Hn2] [Hv Hr]].
      destruct n as [|c q]; [congruence|].
      assert (Hc : is_idchar c = true) by (simpl in Hn2; apply andb_true_iff in Hn2; tauto).
      assert (Hb : is_blank c = false) by (unfold is_idchar, is_alpha, is_digit, is_blank in *; lia).
      rewrite <- !app_assoc. rewrite !app_nil_l, <- !app_comm_cons.
      rewrite (skip_ws_nonblank _ _ Hb). cbv beta iota.
      destruct (Z.eqb_spec c 41); [unfold is_idchar, is_alpha, is_digit in Hc; lia|].
      match goal with |- context [parse_fields f ?x] =>
        change x with ((c :: q) ++ eq_sign ++ print v ++ print_fields false r ++ 41 :: rest) end.
      rewrite (IH (conj (conj Hn1 Hn2) (conj Hv Hr)) f rest); [reflexivity|lia].
  - (* TNil *) intros; exact I.
  - (* TCons *) intros v IHv r IHr [Hv Hr] [|f] rest Hf; [simpl in Hf; lia|]. simpl in Hf.
    step_pv.
    destruct (print_elems_tail r rest) as (c & q & E & Hc & Hq).
    rewrite (IHv Hv f (print_elems false r ++ 93 :: rest)); [|lia|rewrite E; simpl; tauto].
    rewrite E. assert (Hb : is_blank c = false) by (unfold is_blank; lia).
    rewrite (skip_ws_nonblank _ _ Hb). cbv beta iota.
    destruct r as [|v' r'].
    + destruct Hq as [-> ->]. reflexivity.
    + destruct Hq as [-> ->]. change (44 =? 93) with false. change (44 =? 44) with true. cbv iota.
      rewrite parse_elems_blank. specialize (IHr Hr f rest). cbv beta iota in IHr. rewrite IHr; [reflexivity|lia].
  - (* FNil *) intros; exact I.
  - (* FCons *) intros n v IHv r IHr [[Hn1 Hn2] [Hv Hr]] [|f] rest Hf; [simpl in Hf; lia|]. simpl in Hf.
    step_pv.
    destruct n as [|c0 q0]; [congruence|].
    assert (Hc : is_idchar c0 = true) by (simpl in Hn2; apply andb_true_iff in Hn2; tauto).
    assert (Hb : is_blank c0 = false) by (unfold is_idchar, is_alpha, is_digit, is_blank in *; lia).
    rewrite <- !app_comm_cons. rewrite (skip_ws_nonblank _ _ Hb).
    match goal with |- context [span is_idchar ?x] =>
      change x with ((c0 :: q0) ++ eq_sign ++ print v ++ print_fields false r ++ 41 :: rest) end.
    rewrite (span_app is_idchar (c0 :: q0) _ Hn2); [|reflexivity]. cbv beta iota.
    rewrite skip_ws_eq_sign. cbv beta iota.
    change (61 =? 61) with true. cbn [negb]. rewrite parse_value_blank.
    destruct (print_fields_tail r rest) as (c & q & E & Hc' & Hq).
    rewrite (IHv Hv f (print_fields false r ++ 41 :: rest)); [|lia|rewrite E; simpl; tauto].
    rewrite E. assert (Hb' : is_blank c = false) by (unfold is_blank; lia).
    rewrite (skip_ws_nonblank _ _ Hb'). cbv beta iota.
    destruct r as [|n' v' r'].
    + destruct Hq as [-> ->]. reflexivity.
    + destruct Hq as [-> ->]. change (44 =? 41) with false. change (44 =? 44) with true. cbv iota.
      rewrite parse_fields_blank. specialize (IHr Hr f rest). cbv beta iota in IHr. rewrite IHr; [reflexivity|lia].
Qed.

Lemma print_length : forall t, wf_tval t -> (1 <= length (print t))%nat.
Proof. intros t H. destruct (print_head t H) as (c & r & E & _). rewrite E. simpl. lia. Qed.

Lemma msize_le_print :
  (forall t, wf_tval t -> (msize t <= length (print t))%nat) /\
  (forall l, wf_tvals l -> forall b : bool, (msl l <= length (print_elems b l) + (if b then 1 else 0))%nat) /\
  (forall fs, wf_tfields fs -> forall b : bool, (msf fs <= length (print_fields b fs) + (if b then 1 else 0))%nat).
Proof.
  apply tval_mutind.
  - intros H; now apply print_length.
  - intros b H; now apply print_length.
  - intros z H; now apply print_length.
  - intros tok H; contradiction.
  - intros s0 H; now apply print_length.
  - intros s0 H; contradiction.
  - intros n H; now apply print_length.
  - intros m H; now apply print_length.
  - intros l IH H. cbn [msize print wf_tval] in *. specialize (IH H true). cbv beta iota in IH.
    cbn [length]. rewrite app_length. cbn [length]. lia.
  - intros fs IH H. cbn [msize print wf_tval] in *. specialize (IH H true). cbv beta iota in IH.
    cbn [length]. rewrite app_length. cbn [length]. lia.
  - intros _ b. cbn [msl]. lia.
  - intros v IHv r IHr [Hv Hr] b. cbn [msl print_elems]. rewrite !app_length.
    specialize (IHv Hv). specialize (IHr Hr false). destruct b; cbn [length sep] in *; lia.
  - intros _ b. cbn [msf]. lia.
  - intros n v IHv r IHr [[Hn _] [Hv Hr]] b. cbn [msf print_fields]. rewrite !app_length.
    specialize (IHv Hv). specialize (IHr Hr false). destruct b; cbn [length sep] in *; lia.
Qed.

(* every printed value of the float-free fragment is read back exactly, with nothing left *)
Theorem parse_print : forall t, wf_tval t -> parse_text (print t) = Some t.
Proof.
  intros t H. unfold parse_text.
  destruct parse_print_all as [PV _].
  pose proof (PV t H (S (length (print t))) [] ) as E. rewrite app_nil_r in E.
  rewrite E; [reflexivity| |exact I].
  destruct msize_le_print as [M _]. specialize (M t H). lia.
Qed.

Corollary print_injective : forall t1 t2, wf_tval t1 -> wf_tval t2 -> print t1 = print t2 -> t1 = t2.
Proof.
  intros t1 t2 H1 H2 E. pose proof (parse_print t1 H1) as P1. rewrite E, (parse_print t2 H2) in P1.
  now inversion P1.
Qed.

(* ------------------------------------------------------------ history independence *)

Lemma find_fixed : forall c sc st, c_fixed c = true -> s_load sc <= c_limit0 c ->
  find c sc st = Ok (tt, Some (c_reset c)).
Proof.
  intros c sc st Hf Hl. unfold find. rewrite Hf.
  destruct st; [reflexivity|]. destruct (Z.leb_spec (s_load sc) (c_limit0 c)); [reflexivity|lia].
Qed.

(* with the fix, the first thing marshalStruct does (Find) puts the cache into a state that
   does not depend on what was there: the whole walk is the same function of the value *)
Lemma shown_struct_state_irrelevant : forall ffmt c sc, c_fixed c = true -> s_load sc <= c_limit0 c ->
  forall fuel exp id d ps st1 st2,
  shown_struct ffmt c sc fuel exp id d ps st1 = shown_struct ffmt c sc fuel exp id d ps st2.
Proof.
  intros ffmt c sc Hf Hl fuel exp id d ps st1 st2. destruct fuel as [|f]; [reflexivity|].
  with_strategy opaque [find bind charge lookup collect_fields collect_elems] simpl.
  unfold bind at 1. symmetry. unfold bind at 1.
  rewrite !(find_fixed c sc _ Hf Hl). reflexivity.
Qed.

Theorem encode_state_irrelevant : forall ffmt c sc fuel id v st,
  c_fixed c = true -> s_load sc <= c_limit0 c ->
  fst (encode ffmt c sc fuel id v st) = fst (encode ffmt c sc fuel id v None).
Proof.
  intros ffmt c sc fuel id v st Hf Hl. unfold encode. destruct (as_struct v) as [d ps].
  rewrite (shown_struct_state_irrelevant ffmt c sc Hf Hl fuel [] id d ps st None).
  destruct (shown_struct ffmt c sc fuel [] id d ps None) as [[t st']|e|]; reflexivity.
Qed.

(* Encode after any history of Encodes (of any values) on the same encoder writes what a
   fresh encoder writes *)
Theorem encode_history_independent : forall ffmt c sc fuel hist id v,
  c_fixed c = true -> s_load sc <= c_limit0 c ->
  fst (encode ffmt c sc fuel id v (run_history ffmt c sc fuel hist None))
  = fst (encode ffmt c sc fuel id v None).
Proof. intros. now apply encode_state_irrelevant. Qed.

(* the n-th Encode of the same value equals the first, for every n *)
Corollary encode_nth_eq_first : forall ffmt c sc fuel id v n,
  c_fixed c = true -> s_load sc <= c_limit0 c ->
  fst (encode ffmt c sc fuel id v (encode_again ffmt c sc fuel id v n None))
  = fst (encode ffmt c sc fuel id v None).
Proof. intros. now apply encode_state_irrelevant. Qed.

(* ---- before the fix of F10: a struct with one Void field; read sizes as measured on a real
   schema (field list 56, name 2, Type 32, Value 24 bytes; 114 bytes per Encode).  The 64 MiB
   budget of the cached schema message lasts for 588,673 Encodes; the next one fails. *)
Definition ex_schema : schema :=
  mkSchema [(1, NStruct 0 0 56 [mkField [120] 2 65535 (FSlot 0 TVoid 0 RNull 32 24 0)])] 100.
Definition ex_value : rval := RStruct [] [].
Definition no_floats (bits pat : Z) : list Z := [63].

Example encode_first_ok :
  fst (encode no_floats cfg_prefix ex_schema 5 1 ex_value None) = Ok [40; 120; 32; 61; 32; 118; 111; 105; 100; 41].
Proof. vm_compute. reflexivity. Qed.

Example encode_history_independent_refuted :
  exists n, fst (encode no_floats cfg_prefix ex_schema 5 1 ex_value
                   (encode_again no_floats cfg_prefix ex_schema 5 1 ex_value n None))
            <> fst (encode no_floats cfg_prefix ex_schema 5 1 ex_value None).
Proof. exists 588673%N. vm_compute. discriminate. Qed.

(* the same example on the fixed cache: still fine after as many Encodes *)
Example encode_fixed_example :
  fst (encode no_floats cfg_fixed ex_schema 5 1 ex_value
         (encode_again no_floats cfg_fixed ex_schema 5 1 ex_value 588673%N None))
  = Ok [40; 120; 32; 61; 32; 118; 111; 105; 100; 41].
Proof. vm_compute. reflexivity. Qed.

(* ------------------------------------------------------------ what the walk shows is in the fragment *)

Fixpoint ty_ff (t : ty) : Prop :=
  match t with TFloat _ => False | TList _ e => ty_ff e | _ => True end.

Fixpoint rval_ok (v : rval) : Prop :=
  match v with
  | RStruct _ ps => (fix go (l : list rval) : Prop := match l with [] => True | p :: r => rval_ok p /\ go r end) ps
  | RPtrs ps => (fix go (l : list rval) : Prop := match l with [] => True | p :: r => rval_ok p /\ go r end) ps
  | RComp es => (fix go (l : list rval) : Prop := match l with [] => True | p :: r => rval_ok p /\ go r end) es
  | RPrim w xs => w = 8 -> bytes_ok xs
  | _ => True
  end.

Lemma rval_ok_go : forall ps,
  (fix go (l : list rval) : Prop := match l with [] => True | p :: r => rval_ok p /\ go r end) ps <-> Forall rval_ok ps.
Proof.
  induction ps as [|p ps IH].
  - split; intros _; [constructor|exact I].
  - split; intros H.
    + destruct H as [Hp Hr]. constructor; [assumption|now apply IH].
    + inversion H; subst. split; [assumption|now apply IH].
Qed.

Definition field_ok (fd : field) : Prop :=
  name_ok (f_name fd) /\
  match f_kind fd with FSlot _ t _ dptr _ _ _ => ty_ff t /\ rval_ok dptr | _ => True end.
Definition enumerant_ok (p : list Z * Z) : Prop := ident_ok (fst p) /\ ident_value (fst p) = TvIdent (fst p).
Definition node_ok (n : node) : Prop :=
  match n with
  | NStruct _ _ _ fields => Forall field_ok fields
  | NEnum _ names => Forall enumerant_ok names
  | NOther => True
  end.
(* a float-free schema whose names are identifiers (enumerants not true/false/void) *)
Definition schema_ok (sc : schema) : Prop := Forall (fun p => node_ok (snd p)) (s_nodes sc).

Lemma lookup_ok : forall ns id n, Forall (fun p => node_ok (snd p)) ns -> lookup ns id = Some n -> node_ok n.
Proof.
  induction ns as [|[k m] ns IH]; intros id n H E; simpl in E; [discriminate|].
  inversion H; subst. destruct (k =? id); [inversion E; subst; assumption|]. eapply IH; eassumption.
Qed.

Lemma bind_ok : forall {A B} (m : M A) (k : A -> M B) st r,
  bind m k st = Ok r -> exists a st1, m st = Ok (a, st1) /\ k a st1 = Ok r.
Proof.
  intros A B m k st r H. unfold bind in H. destruct (m st) as [[a st1]|e|]; try discriminate.
  exists a, st1. split; [reflexivity|assumption].
Qed.
Lemma ret_ok : forall {A} (a b : A) st st', ret a st = Ok (b, st') -> a = b.
Proof. intros A a b st st' H. unfold ret in H. now inversion H. Qed.
Lemma lift_ok : forall {A} (r : res A) a st st', lift r st = Ok (a, st') -> r = Ok a.
Proof. intros A r a st st' H. unfold lift in H. destruct r; try discriminate. now inversion H. Qed.

Lemma wf_tvals_of : forall l, Forall wf_tval l -> wf_tvals (tvals_of l).
Proof. induction 1; simpl; auto. Qed.

Lemma collect_elems_wf : forall {A} (step : A -> M tval) (P : A -> Prop) l,
  (forall x st v st', P x -> step x st = Ok (v, st') -> wf_tval v) -> Forall P l ->
  forall st vs st', collect_elems step l st = Ok (vs, st') -> wf_tvals vs.
Proof.
  intros A step P l Hs. induction 1 as [|x l Hx _ IH]; intros st vs st' H; simpl in H.
  - apply ret_ok in H. subst. exact I.
  - apply bind_ok in H. destruct H as (v & s1 & H1 & H).
    apply bind_ok in H. destruct H as (vs' & s2 & H2 & H). apply ret_ok in H. subst.
    split; [eapply Hs; eassumption|eapply IH; eassumption].
Qed.

Lemma collect_fields_wf : forall (step : field -> M (option tval)) fields,
  (forall fd st v st', field_ok fd -> step fd st = Ok (Some v, st') -> wf_tval v) -> Forall field_ok fields ->
  forall st fs st', collect_fields step fields st = Ok (fs, st') -> wf_tfields fs.
Proof.
  intros step fields Hs. induction 1 as [|fd l Hx _ IH]; intros st fs st' H; simpl in H.
  - apply ret_ok in H. subst. exact I.
  - apply bind_ok in H. destruct H as (o & s1 & H1 & H).
    apply bind_ok in H. destruct H as (fs' & s2 & H2 & H). apply ret_ok in H. subst.
    destruct o as [v|].
    + split; [apply Hx|]. split; [eapply Hs; eassumption|eapply IH; eassumption].
    + eapply IH; eassumption.
Qed.

Lemma removelast_ok : forall l, bytes_ok l -> bytes_ok (removelast l).
Proof.
  induction 1 as [|x l Hx Hl IH]; simpl; [constructor|]. destruct l; [constructor|]. constructor; assumption.
Qed.

Lemma data_of_ok : forall p b, rval_ok p -> data_of p = Some b -> bytes_ok b.
Proof.
  intros [| d0 pp0 | w xs | ps0 | es0 |] b H E; simpl in E; try discriminate.
  destruct (Z.eqb_spec w 8); [|discriminate]. inversion E; subst. now apply H.
Qed.
Lemma text_of_ok : forall p b, rval_ok p -> text_of p = Some b -> bytes_ok b.
Proof.
  intros [| d0 pp0 | w xs | ps0 | es0 |] b H E; simpl in E; try discriminate.
  destruct (Z.eqb_spec w 8); [|discriminate]. destruct (last xs 1 =? 0); [|discriminate].
  inversion E; subst. apply removelast_ok. now apply H.
Qed.
Lemma data_bytes_ok : forall p, rval_ok p -> bytes_ok (data_bytes p).
Proof.
  intros p H. unfold data_bytes. destruct (data_of p) eqn:E; [eapply data_of_ok; eassumption|constructor].
Qed.
Lemma text_bytes_ok : forall p, rval_ok p -> bytes_ok (text_bytes p).
Proof.
  intros p H. unfold text_bytes. destruct (text_of p) eqn:E; [eapply text_of_ok; eassumption|constructor].
Qed.

Lemma ptr_at_ok : forall ptrs off, Forall rval_ok ptrs -> rval_ok (ptr_at ptrs off).
Proof.
  intros ptrs off H. unfold ptr_at. generalize (Z.to_nat (off mod 65536)) as n.
  induction H as [|p l Hp _ IH]; intros [|n]; simpl; auto.
Qed.

Lemma as_struct_ok : forall p d ps, rval_ok p -> as_struct p = (d, ps) -> Forall rval_ok ps.
Proof.
  intros [| d0 ps0 | w0 xs0 | ps0 | es0 |] d ps H E; simpl in E; inversion E; subst; try constructor.
  now apply rval_ok_go.
Qed.

Lemma first_ptrs_ok : forall es ps, Forall rval_ok es -> first_ptrs es = Some ps -> Forall rval_ok ps.
Proof.
  induction es as [|e es IH]; intros ps H E; simpl in E.
  - inversion E; subst. constructor.
  - inversion H as [|? ? He Hes]; subst.
    destruct e as [| d [|p pp] | | | |]; try discriminate.
    destruct (first_ptrs es) as [ps'|] eqn:E'; [|discriminate]. inversion E; subst.
    constructor; [|now apply IH].
    simpl in He. tauto.
Qed.

Lemma ptr_elems_ok : forall l ps, rval_ok l -> ptr_elems l = Ok ps -> Forall rval_ok ps.
Proof.
  intros [| d0 pp0 | w xs | ps0 | es0 |] ps H E; simpl in E; try (inversion E; subst; constructor).
  - destruct (length xs =? 0)%nat; inversion E; subst; constructor.
  - inversion E; subst. now apply rval_ok_go.
  - destruct (first_ptrs es0) as [ps'|] eqn:E'; [|discriminate]. inversion E; subst.
    eapply first_ptrs_ok; [|eassumption]. now apply rval_ok_go.
Qed.

Lemma struct_elems_ok : forall l ps, rval_ok l -> struct_elems l = Ok ps -> Forall rval_ok ps.
Proof.
  intros [| d0 pp0 | w xs | ps0 | es0 |] ps H E; simpl in E; try (inversion E; subst; constructor).
  - destruct (length xs =? 0)%nat; inversion E; subst; constructor.
  - inversion E; subst. now apply rval_ok_go.
  - inversion E; subst. now apply rval_ok_go.
Qed.

Lemma shown_enum_wf : forall c sc id v st t st', schema_ok sc ->
  shown_enum c sc id v st = Ok (t, st') -> wf_tval t.
Proof.
  intros c sc id v st t st' Hsc H. unfold shown_enum in H.
  apply bind_ok in H. destruct H as (u & s1 & _ & H).
  destruct (lookup (s_nodes sc) id) as [[| ecost names |]|] eqn:El; try discriminate.
  pose proof (lookup_ok _ _ _ Hsc El) as Hn. simpl in Hn.
  apply bind_ok in H. destruct H as (u2 & s2 & _ & H).
  destruct (Z.of_nat (length names) <=? v).
  - apply ret_ok in H. subst. exact I.
  - destruct (nth_error names (Z.to_nat v)) as [[name nc]|] eqn:En; [|discriminate].
    apply bind_ok in H. destruct H as (u3 & s3 & _ & H). apply ret_ok in H. subst.
    apply nth_error_In in En. rewrite Forall_forall in Hn. exact (Hn _ En).
Qed.

Lemma ident_null_ok : wf_tval (TvIdent ident_null).
Proof.
  split; [|reflexivity]. split; [reflexivity|]. eexists; eexists; split; reflexivity.
Qed.

Lemma Forall_map_wf : forall {A} (f : A -> tval) (P : A -> Prop) l,
  (forall x, P x -> wf_tval (f x)) -> Forall P l -> Forall wf_tval (map f l).
Proof. intros A f P l H. induction 1; simpl; constructor; auto. Qed.

Lemma Forall_True : forall {A} (l : list A), Forall (fun _ => True) l.
Proof. induction l; constructor; auto. Qed.

Ltac step_sh_in H :=
  with_strategy opaque [find bind charge lookup collect_fields collect_elems ret fail lift shown_enum existsb c_cut andb slot_value
                        prim_elems ptr_elems struct_elems list_len get_le get_bit ptr_at is_null as_struct
                        data_bytes text_bytes sint tvals_of Z.lxor Z.eqb Z.ltb Z.leb] simpl in H.

Lemma shown_wf : forall ffmt c sc, schema_ok sc -> forall fuel,
  (forall exp id d ps st t st', Forall rval_ok ps ->
     shown_struct ffmt c sc fuel exp id d ps st = Ok (t, st') -> wf_tval t) /\
  (forall exp e l st t st', ty_ff e -> rval_ok l ->
     shown_list ffmt c sc fuel exp e l st = Ok (t, st') -> wf_tval t).
Proof.
  intros ffmt c sc Hsc. induction fuel as [|f [IHs IHl]].
  { split; intros; discriminate. }
  split.
  - (* marshalStruct *)
    intros exp id d ps st t st' Hps H. step_sh_in H.
    apply bind_ok in H. destruct H as (u & s1 & _ & H).
    destruct (lookup (s_nodes sc) id) as [[dcount doff fcost fields| |]|] eqn:El; try discriminate.
    pose proof (lookup_ok _ _ _ Hsc El) as Hn. simpl in Hn.
    apply bind_ok in H. destruct H as (u2 & s2 & _ & H).
    apply bind_ok in H. destruct H as (fs & s3 & Hc & H). apply ret_ok in H. subst t.
    cbn [wf_tval]. eapply collect_fields_wf; [|exact Hn|exact Hc].
    clear Hc. intros fd st0 v st0' [Hname Hk] Hstep. cbv beta in Hstep.
    destruct (f_kind fd) as [off t dflt dptr tcost dvcost dpcost|gid|] eqn:Ek.
    + (* slot *)
      destruct (negb ((f_disc fd =? 65535) || (f_disc fd =? (if 0 <? dcount then get_le d (doff * 2) 2 else 0)))).
      { apply ret_ok in Hstep. discriminate. }
      destruct Hk as [Hty Hdp].
      apply bind_ok in Hstep. destruct Hstep as (u3 & s4 & _ & Hstep).
      apply bind_ok in Hstep. destruct Hstep as (u4 & s5 & _ & Hstep).
      apply bind_ok in Hstep. destruct Hstep as (u5 & s6 & _ & Hstep).
      apply bind_ok in Hstep. destruct Hstep as (v0 & s7 & Hv & Hstep).
      apply ret_ok in Hstep. inversion Hstep; subst v0. clear Hstep.
      unfold slot_value in Hv.
      destruct t as [| |bits|bits|bits| | |ecost e|eid|sid| |]; cbn [ty_ff] in Hty.
      * apply ret_ok in Hv. subst v. exact I.
      * apply ret_ok in Hv. subst v. exact I.
      * apply ret_ok in Hv. subst v. exact I.
      * apply ret_ok in Hv. subst v. exact I.
      * contradiction.
      * (* text *)
        destruct (c_acc c).
        { apply bind_ok in Hv. destruct Hv as (u6 & s8 & _ & Hv). apply ret_ok in Hv. subst v. cbn [wf_tval].
          destruct (text_of (ptr_at ps off)) eqn:E; [|now apply text_bytes_ok].
          eapply text_of_ok; [|exact E]. now apply ptr_at_ok. }
        destruct (is_null (ptr_at ps off)).
        -- apply bind_ok in Hv. destruct Hv as (u6 & s8 & _ & Hv). apply ret_ok in Hv. subst v.
           now apply text_bytes_ok.
        -- apply ret_ok in Hv. subst v. apply text_bytes_ok. now apply ptr_at_ok.
      * (* data *)
        destruct (c_acc c).
        { apply bind_ok in Hv. destruct Hv as (u6 & s8 & _ & Hv). apply ret_ok in Hv. subst v. cbn [wf_tval].
          destruct (data_of (ptr_at ps off)) eqn:E; [|now apply data_bytes_ok].
          eapply data_of_ok; [|exact E]. now apply ptr_at_ok. }
        destruct (is_null (ptr_at ps off)).
        -- apply bind_ok in Hv. destruct Hv as (u6 & s8 & _ & Hv). apply ret_ok in Hv. subst v.
           now apply data_bytes_ok.
        -- apply ret_ok in Hv. subst v. apply data_bytes_ok. now apply ptr_at_ok.
      * (* list *)
        apply bind_ok in Hv. destruct Hv as (u6 & s8 & _ & Hv).
        apply bind_ok in Hv. destruct Hv as (p' & s9 & Hp & Hv).
        assert (Hp' : rval_ok p').
        { destruct (if c_acc c then negb (is_list (ptr_at ps off)) else is_null (ptr_at ps off)).
          - apply bind_ok in Hp. destruct Hp as (u7 & s10 & _ & Hp). apply ret_ok in Hp. now subst p'.
          - apply ret_ok in Hp. subst p'. now apply ptr_at_ok. }
        eapply IHl; eassumption.
      * (* enum *) eapply shown_enum_wf; eassumption.
      * (* struct *)
        destruct (if c_acc c then negb (is_struct (ptr_at ps off)) else is_null (ptr_at ps off)).
        -- destruct (c_cut c && existsb (Z.eqb sid) exp).
           ++ apply ret_ok in Hv. subst v. exact I.
           ++ apply bind_ok in Hv. destruct Hv as (u7 & s10 & _ & Hv).
              destruct (as_struct dptr) as [d' ps'] eqn:Ea.
              eapply IHs; [|exact Hv]. eapply as_struct_ok; eassumption.
        -- destruct (as_struct (ptr_at ps off)) as [d' ps'] eqn:Ea.
           eapply IHs; [|exact Hv]. eapply as_struct_ok; [|eassumption]. now apply ptr_at_ok.
      * (* interface *)
        apply ret_ok in Hv. subst v. destruct (is_null (ptr_at ps off)); [apply ident_null_ok|now left].
      * (* anypointer *) apply ret_ok in Hv. subst v. now right.
    + (* group *)
      destruct (negb ((f_disc fd =? 65535) || (f_disc fd =? (if 0 <? dcount then get_le d (doff * 2) 2 else 0)))).
      { apply ret_ok in Hstep. discriminate. }
      apply bind_ok in Hstep. destruct Hstep as (u3 & s4 & _ & Hstep).
      apply bind_ok in Hstep. destruct Hstep as (v0 & s5 & Hv & Hstep).
      apply ret_ok in Hstep. inversion Hstep; subst v0.
      eapply IHs; eassumption.
    + apply ret_ok in Hstep. discriminate.
  - (* marshalList *)
    intros exp e l st t st' Hty Hl H. step_sh_in H.
    destruct e as [| |bits|bits|bits| | |ecost ee|eid|sid| |]; cbn [ty_ff] in Hty.
    + apply ret_ok in H. subst t. cbn [wf_tval]. apply wf_tvals_of.
      clear. induction (list_len l); simpl; constructor; auto. exact I.
    + apply bind_ok in H. destruct H as (xs & s1 & _ & H). apply ret_ok in H. subst t.
      cbn [wf_tval]. apply wf_tvals_of. eapply Forall_map_wf; [|apply Forall_True]. intros; exact I.
    + apply bind_ok in H. destruct H as (xs & s1 & _ & H). apply ret_ok in H. subst t.
      cbn [wf_tval]. apply wf_tvals_of. eapply Forall_map_wf; [|apply Forall_True]. intros; exact I.
    + apply bind_ok in H. destruct H as (xs & s1 & _ & H). apply ret_ok in H. subst t.
      cbn [wf_tval]. apply wf_tvals_of. eapply Forall_map_wf; [|apply Forall_True]. intros; exact I.
    + contradiction.
    + (* text *)
      apply bind_ok in H. destruct H as (pl & s1 & Hpl & H). apply ret_ok in H. subst t.
      apply lift_ok in Hpl. cbn [wf_tval]. apply wf_tvals_of.
      eapply Forall_map_wf; [|eapply ptr_elems_ok; eassumption]. intros x Hx. now apply text_bytes_ok.
    + (* data *)
      apply bind_ok in H. destruct H as (pl & s1 & Hpl & H). apply ret_ok in H. subst t.
      apply lift_ok in Hpl. cbn [wf_tval]. apply wf_tvals_of.
      eapply Forall_map_wf; [|eapply ptr_elems_ok; eassumption]. intros x Hx. now apply data_bytes_ok.
    + (* list of lists *)
      apply bind_ok in H. destruct H as (u1 & s1 & _ & H).
      apply bind_ok in H. destruct H as (pl & s2 & Hpl & H). apply lift_ok in Hpl.
      apply bind_ok in H. destruct H as (vs & s3 & Hc & H). apply ret_ok in H. subst t.
      cbn [wf_tval]. eapply (collect_elems_wf _ rval_ok); [|eapply ptr_elems_ok; eassumption|exact Hc].
      intros x st0 v st0' Hx Hs. eapply IHl; eassumption.
    + (* enums *)
      apply bind_ok in H. destruct H as (xs & s1 & _ & H).
      apply bind_ok in H. destruct H as (vs & s3 & Hc & H). apply ret_ok in H. subst t.
      cbn [wf_tval]. eapply (collect_elems_wf _ (fun _ => True)); [|apply Forall_True|exact Hc].
      intros x st0 v st0' _ Hs. eapply shown_enum_wf; eassumption.
    + (* structs *)
      apply bind_ok in H. destruct H as (pl & s2 & Hpl & H). apply lift_ok in Hpl.
      apply bind_ok in H. destruct H as (vs & s3 & Hc & H). apply ret_ok in H. subst t.
      cbn [wf_tval]. eapply (collect_elems_wf _ rval_ok); [|eapply struct_elems_ok; eassumption|exact Hc].
      intros x st0 v st0' Hx Hs. cbv beta in Hs. destruct (as_struct x) as [d' ps'] eqn:Ea.
      eapply IHs; [|exact Hs]. eapply as_struct_ok; eassumption.
    + (* interfaces *)
      apply bind_ok in H. destruct H as (pl & s1 & Hpl & H). apply ret_ok in H. subst t.
      cbn [wf_tval]. apply wf_tvals_of. eapply Forall_map_wf; [|apply Forall_True].
      intros x _. destruct (is_null x); [apply ident_null_ok|now left].
    + apply ret_ok in H. subst t. cbn [wf_tval]. apply wf_tvals_of.
      clear. induction (list_len l); simpl; constructor; auto. now right.
Qed.

(* ------------------------------------------------------------ parse (render v) = the values shown *)

(* For every float-free schema with identifier names, every stored value (bytes in range),
   every encoder configuration and cache state: if Encode succeeds, the text it writes is read
   back by the independent reader as exactly the tree of field values the walk shows
   (defaults applied, only the active union member, groups as nested structs). *)
Theorem parse_render : forall ffmt c sc fuel id v out,
  schema_ok sc -> rval_ok v ->
  render ffmt c sc fuel id v = Ok out ->
  exists t, shown ffmt c sc fuel id v = Ok t /\ out = print t /\ wf_tval t /\ parse_text out = Some t.
Proof.
  intros ffmt c sc fuel id v out Hsc Hv H. unfold render, encode, shown in *.
  destruct (as_struct v) as [d ps] eqn:Ea.
  destruct (shown_struct ffmt c sc fuel [] id d ps None) as [[t st']|e|] eqn:Es; simpl in H; try discriminate.
  inversion H; subst out. exists t.
  assert (Hw : wf_tval t).
  { destruct (shown_wf ffmt c sc Hsc fuel) as [Hs _]. eapply Hs; [|exact Es]. eapply as_struct_ok; eassumption. }
  split; [reflexivity|]. split; [reflexivity|]. split; [assumption|now apply parse_print].
Qed.

(* faithfulness: two values (of any two types of the schema) whose texts coincide show the same field values *)
Corollary render_faithful : forall ffmt c sc fuel id1 v1 id2 v2 out,
  schema_ok sc -> rval_ok v1 -> rval_ok v2 ->
  render ffmt c sc fuel id1 v1 = Ok out -> render ffmt c sc fuel id2 v2 = Ok out ->
  shown ffmt c sc fuel id1 v1 = shown ffmt c sc fuel id2 v2.
Proof.
  intros ffmt c sc fuel id1 v1 id2 v2 out Hsc H1 H2 R1 R2.
  destruct (parse_render _ _ _ _ _ _ _ Hsc H1 R1) as (t1 & S1 & _ & _ & P1).
  destruct (parse_render _ _ _ _ _ _ _ Hsc H2 R2) as (t2 & S2 & _ & _ & P2).
  rewrite S1, S2. rewrite P1 in P2. now inversion P2.
Qed.

(* non-vacuity: a union with a group, an enum (in and out of range), defaults, text with quotes *)
Definition ex2_schema : schema :=
  mkSchema
    [ (1, NStruct 2 0 56
            [ mkField [97] 2 65535 (FSlot 1 (TInt 16) 65535 RNull 32 24 0);               (* a :Int16 = -1 *)
              mkField [116] 2 0 (FSlot 0 TText 0 (RPrim 8 [104; 105; 0]) 32 24 3);       (* t :Text = hi, union member 0 *)
              mkField [103] 2 1 (FGroup 2);                                                (* g :group, union member 1 *)
              mkField [101] 2 65535 (FSlot 2 (TEnum 3) 0 RNull 32 24 0);                  (* e :E *)
              mkField [108] 2 65535 (FSlot 1 (TList 24 (TList 24 (TUint 8))) 0 RNull 32 24 0) ]);
      (2, NStruct 0 0 56 [ mkField [120] 2 65535 (FSlot 1 TBool 1 RNull 32 24 0) ]);      (* x :Bool = true *)
      (3, NEnum 16 [([117], 2); ([118], 2)]) ]
    400.
Definition ex2_value_t : rval :=   (* member t set to a DQUOTE b BACKSLASH, e = 1, l = [[1,2],[]] *)
  RStruct [0; 0; 5; 0; 1; 0; 0; 0] [RPrim 8 [97; 34; 98; 92; 0]; RPtrs [RPrim 8 [1; 2]; RNull]].
Definition ex2_value_g : rval :=   (* member g, e = 7 (no such enumerant) *)
  RStruct [1; 0; 0; 0; 7; 0; 0; 0] [].

Example ex2_schema_ok : schema_ok ex2_schema.
Proof.
  repeat constructor; try discriminate; try reflexivity;
    try (eexists; eexists; split; reflexivity); try (intros _; repeat constructor; unfold byte_ok; lia).
Qed.

Example parse_render_example_t :
  exists out, render no_floats cfg_fixed ex2_schema 9 1 ex2_value_t = Ok out /\
    parse_text out = Some (TvStruct (FCons [97] (TvInt (-6))
                            (FCons [116] (TvStr [97; 34; 98; 92])
                            (FCons [101] (TvIdent [118])
                            (FCons [108] (TvList (TCons (TvList (TCons (TvInt 1) (TCons (TvInt 2) TNil))) (TCons (TvList TNil) TNil)))
                             FNil))))).
Proof. eexists. split; vm_compute; reflexivity. Qed.

Example parse_render_example_g :
  exists out, render no_floats cfg_fixed ex2_schema 9 1 ex2_value_g = Ok out /\
    parse_text out = Some (TvStruct (FCons [97] (TvInt (-1))
                            (FCons [103] (TvStruct (FCons [120] (TvBool true) FNil))
                            (FCons [101] (TvInt 7)
                            (FCons [108] (TvList TNil) FNil))))).
Proof. eexists. split; vm_compute; reflexivity. Qed.

(* ------------------------------------------------------------ termination of the walk (C01/C02 for the renderer) *)

(* The result type of the walk has no panic outcome: every Go panic site of marshal.go
   (fields[f.CodeOrder()], enums.At, the typed lists' At, Value accessors of the wrong kind) is
   excluded by the checks modelled before it or by the schema assumptions stated in docs/C20.md.
   What remains is non-termination = [OutOfFuel] for every fuel.

   A struct with a field of its own type:  struct Node { next :Node; }   (read sizes as measured) *)
Definition rec_schema : schema :=
  mkSchema [(1, NStruct 0 0 56 [mkField [110; 101; 120; 116] 5 65535 (FSlot 0 (TStruct 1) 0 RNull 32 24 0)])] 100.
Definition rec_value : rval := RStruct [] [RNull].     (* a list node whose next pointer is null *)

(* before the fix (cfg_nocut): the default value of next is written, which contains next again ...
   the walk does not terminate for any amount of fuel (in Go: fatal stack overflow) *)
Lemma rec_diverges : forall fuel exp st,
  shown_struct no_floats cfg_nocut rec_schema fuel exp 1 [] [] st = OutOfFuel.
Proof.
  induction fuel as [|f IH]; intros exp st; [reflexivity|].
  destruct st as [b|]; simpl; unfold bind; simpl; rewrite IH; reflexivity.
Qed.

Example render_total_refuted : forall fuel,
  render no_floats cfg_nocut rec_schema fuel 1 rec_value = OutOfFuel.
Proof.
  intros [|f]; [reflexivity|].
  unfold render, encode. simpl. unfold bind. simpl. rewrite rec_diverges. reflexivity.
Qed.

(* after the fix: inside the default value of Node a further null Node is written as () *)
Example render_total_fixed_example :
  render no_floats cfg_fixed rec_schema 3 1 rec_value
  = Ok [40; 110; 101; 120; 116; 32; 61; 32; 40; 110; 101; 120; 116; 32; 61; 32; 40; 41; 41; 41].   (* (next = (next = ())) *)
Proof. vm_compute. reflexivity. Qed.

(* ---- totality, proved part.  For structs whose fields are all of primitive, text, data, enum,
   interface or AnyPointer type (no struct / list / group fields) the walk returns (a value or an
   error) with fuel 1, for EVERY stored value, cache state and expansion stack: discriminants
   of no member, enum ordinals without an enumerant, offsets outside the sections and pointers
   of the wrong kind never make it diverge.
   MISSING for the full statement (hence _partial): the fuel bound for nested values,
     fuel >= (depth v + 1 + N * (DD + 1)) * (G + 1)
   (N struct types, DD depth of the deepest default value, G longest chain of nested groups,
   groups acyclic) for the fixed walk; its pre-fix failure is [render_total_refuted]; the Go
   side of it is exercised by the hostile / recursive-type correspondence runs. *)
Definition no_oof {A} (m : M A) : Prop := forall st, m st <> OutOfFuel.

Lemma bind_no_oof : forall {A B} (m : M A) (k : A -> M B),
  no_oof m -> (forall a, no_oof (k a)) -> no_oof (bind m k).
Proof.
  intros A B m k Hm Hk st. unfold bind. specialize (Hm st).
  destruct (m st) as [[a st']|e|]; [apply Hk|discriminate|congruence].
Qed.
Lemma ret_no_oof : forall {A} (a : A), no_oof (ret a).
Proof. intros A a st. discriminate. Qed.
Lemma fail_no_oof : forall {A} e, no_oof (@fail A e).
Proof. intros A e st. discriminate. Qed.
Lemma charge_no_oof : forall k, no_oof (charge k).
Proof. intros k [b|]; unfold charge; [destruct (k <=? b)|]; discriminate. Qed.
Lemma find_no_oof : forall c sc, no_oof (find c sc).
Proof. intros c sc [b|]; unfold find; [|destruct (s_load sc <=? c_limit0 c)]; discriminate. Qed.

Lemma shown_enum_no_oof : forall c sc id v, no_oof (shown_enum c sc id v).
Proof.
  intros c sc id v. unfold shown_enum. apply bind_no_oof; [apply find_no_oof|intros _].
  destruct (lookup (s_nodes sc) id) as [[| ecost names |]|]; try apply fail_no_oof.
  apply bind_no_oof; [apply charge_no_oof|intros _].
  destruct (Z.of_nat (length names) <=? v); [apply ret_no_oof|].
  destruct (nth_error names (Z.to_nat v)) as [[name nc]|]; [|apply fail_no_oof].
  apply bind_no_oof; [apply charge_no_oof|intros _; apply ret_no_oof].
Qed.

Lemma collect_fields_no_oof : forall (step : field -> M (option tval)) fields,
  (forall fd, In fd fields -> no_oof (step fd)) -> no_oof (collect_fields step fields).
Proof.
  intros step. induction fields as [|fd r IH]; intros H; simpl.
  - apply ret_no_oof.
  - apply bind_no_oof; [apply H; now left|intros o].
    apply bind_no_oof; [apply IH; intros; apply H; now right|intros; apply ret_no_oof].
Qed.

Definition flat_ty (t : ty) : Prop := match t with TStruct _ | TList _ _ => False | _ => True end.
Definition flat_field (fd : field) : Prop :=
  match f_kind fd with FSlot _ t _ _ _ _ _ => flat_ty t | FGroup _ => False | FOther => True end.
Definition flat_schema (sc : schema) : Prop :=
  Forall (fun p => match snd p with NStruct _ _ _ fields => Forall flat_field fields | _ => True end) (s_nodes sc).

Lemma lookup_flat : forall ns id dc doff fc fields,
  Forall (fun p => match snd p with NStruct _ _ _ fields => Forall flat_field fields | _ => True end) ns ->
  lookup ns id = Some (NStruct dc doff fc fields) -> Forall flat_field fields.
Proof.
  induction ns as [|[k m] ns IH]; intros id dc doff fc fields H E; simpl in E; [discriminate|].
  inversion H; subst. destruct (k =? id); [inversion E; subst; assumption|]. eapply IH; eassumption.
Qed.

Theorem render_total_flat_partial : forall ffmt c sc fuel exp id d ps,
  flat_schema sc -> no_oof (shown_struct ffmt c sc (S fuel) exp id d ps).
Proof.
  intros ffmt c sc fuel exp id d ps Hflat.
  with_strategy opaque [find bind charge lookup collect_fields collect_elems ret fail lift shown_enum
                        get_le get_bit ptr_at is_null as_struct data_bytes text_bytes sint Z.lxor
                        Z.eqb Z.ltb Z.leb existsb c_cut andb slot_value] simpl.
  apply bind_no_oof; [apply find_no_oof|intros _].
  destruct (lookup (s_nodes sc) id) as [[dc doff fc fields| |]|] eqn:El; try apply fail_no_oof.
  pose proof (lookup_flat _ _ _ _ _ _ Hflat El) as Hf.
  apply bind_no_oof; [apply charge_no_oof|intros _].
  apply bind_no_oof; [|intros; apply ret_no_oof].
  apply collect_fields_no_oof. intros fd Hin. rewrite Forall_forall in Hf. specialize (Hf fd Hin).
  unfold flat_field in Hf.
  destruct (f_kind fd) as [off t dflt dptr tcost dvcost dpcost|gid|]; [|contradiction|apply ret_no_oof].
  destruct (negb _); [apply ret_no_oof|].
  apply bind_no_oof; [apply charge_no_oof|intros _].
  apply bind_no_oof; [apply charge_no_oof|intros _].
  apply bind_no_oof; [apply charge_no_oof|intros _].
  apply bind_no_oof; [|intros; apply ret_no_oof].
  unfold slot_value.
  destruct t; simpl in Hf; try contradiction; try apply ret_no_oof.
  - destruct (c_acc c); [apply bind_no_oof; [apply charge_no_oof|intros _; apply ret_no_oof]|].
    destruct (is_null (ptr_at ps off)); [apply bind_no_oof; [apply charge_no_oof|intros _]|]; apply ret_no_oof.
  - destruct (c_acc c); [apply bind_no_oof; [apply charge_no_oof|intros _; apply ret_no_oof]|].
    destruct (is_null (ptr_at ps off)); [apply bind_no_oof; [apply charge_no_oof|intros _]|]; apply ret_no_oof.
  - apply shown_enum_no_oof.
Qed.

(* ------------------------------------------------------------ histories with UseRegistry *)

Definition cache_coherent (st : enc_state) : Prop :=
  match es_cache st with Some (sc', _) => sc' = es_reg st | None => True end.

Definition op_loadable (c : cfg) (o : enc_op) : Prop :=
  match o with OpUse reg => s_load reg <= c_limit0 c | _ => True end.

Lemma with_schema_coherent : forall sc c, cache_coherent (mkEnc sc (with_schema sc c)).
Proof. intros sc [b|]; reflexivity. Qed.

Lemma apply_e_reg : forall f st, es_reg (snd (apply_e f st)) = es_reg st.
Proof.
  intros f [reg [[sc' b]|]]; unfold apply_e; simpl.
  - destruct (f sc' (Some b)); reflexivity.
  - destruct (f reg None); reflexivity.
Qed.

Lemma apply_e_coherent : forall f st, cache_coherent st -> cache_coherent (snd (apply_e f st)).
Proof.
  intros f [reg [[sc' b]|]] H; unfold cache_coherent in H; unfold apply_e; simpl in *.
  - subst sc'. destruct (f reg (Some b)) as [r c']. simpl. apply with_schema_coherent.
  - destruct (f reg None) as [r c']. simpl. apply with_schema_coherent.
Qed.

(* an operation whose output does not depend on the cache it finds gives, on a coherent
   encoder, the output of a fresh encoder on the same registry *)
Lemma apply_e_fresh : forall f st,
  (forall b, fst (f (es_reg st) (Some b)) = fst (f (es_reg st) None)) -> cache_coherent st ->
  fst (apply_e f st) = fst (f (es_reg st) None).
Proof.
  intros f [reg [[sc' b]|]] Hf H; unfold cache_coherent in H; unfold apply_e; simpl in *.
  - subst sc'. rewrite <- (Hf b). destruct (f reg (Some b)); reflexivity.
  - destruct (f reg None); reflexivity.
Qed.

Lemma run_ops_coherent : forall ffmt c fuel ops st,
  cache_coherent st -> cache_coherent (run_ops ffmt c true fuel ops st).
Proof.
  intros ffmt c fuel. induction ops as [|o r IH]; intros st H; [assumption|].
  simpl. apply IH. destruct o as [id v|id l|reg]; simpl.
  - now apply apply_e_coherent.
  - now apply apply_e_coherent.
  - exact I.
Qed.

(* the registry an encoder ends up with is loadable if the first one and all later ones are *)
Lemma run_ops_reg_loadable : forall ffmt c fuel ops st,
  s_load (es_reg st) <= c_limit0 c -> Forall (op_loadable c) ops ->
  s_load (es_reg (run_ops ffmt c true fuel ops st)) <= c_limit0 c.
Proof.
  intros ffmt c fuel. induction ops as [|o r IH]; intros st H Hops; [assumption|].
  inversion Hops; subst. simpl. apply IH; [|assumption].
  destruct o as [id v|id l|reg]; simpl.
  - unfold encode_e. now rewrite apply_e_reg.
  - unfold encode_list_e. now rewrite apply_e_reg.
  - assumption.
Qed.

(* EncodeList: a non-empty list starts with Find, which makes the rest independent of the cache;
   an empty list never consults the cache *)
Lemma collect_elems_state_irrelevant : forall {A} (step : A -> M tval) (l : list A),
  (forall x st1 st2, step x st1 = step x st2) -> l <> [] ->
  forall st1 st2, collect_elems step l st1 = collect_elems step l st2.
Proof.
  intros A step [|x r] Hs Hne st1 st2; [congruence|].
  simpl. unfold bind at 1. symmetry. unfold bind at 1. now rewrite (Hs x st1 st2).
Qed.

Definition elem_step ffmt c sc f id : rval -> M tval :=
  fun p => let (d, pp) := as_struct p in shown_struct ffmt c sc f [] id d pp.

Lemma shown_list_struct_unfold : forall ffmt c sc f id l st,
  shown_list ffmt c sc (S f) [] (TStruct id) l st =
  match struct_elems l with
  | Ok ps => match collect_elems (elem_step ffmt c sc f id) ps st with
             | Ok (vs, st') => Ok (TvList vs, st')
             | Err e => Err e
             | OutOfFuel => OutOfFuel
             end
  | Err e => Err e
  | OutOfFuel => OutOfFuel
  end.
Proof.
  intros. with_strategy opaque [struct_elems collect_elems] simpl.
  unfold bind, lift, ret, elem_step. destruct (struct_elems l); reflexivity.
Qed.

Lemma shown_list_struct_out_irrelevant : forall ffmt c sc, c_fixed c = true -> s_load sc <= c_limit0 c ->
  forall fuel id l st,
  match shown_list ffmt c sc fuel [] (TStruct id) l st, shown_list ffmt c sc fuel [] (TStruct id) l None with
  | Ok (t1, _), Ok (t2, _) => t1 = t2
  | Err e1, Err e2 => e1 = e2
  | OutOfFuel, OutOfFuel => True
  | _, _ => False
  end.
Proof.
  intros ffmt c sc Hf Hl fuel id l st. destruct fuel as [|f]; [exact I|].
  rewrite !shown_list_struct_unfold.
  destruct (struct_elems l) as [ps|e|]; [|reflexivity|exact I].
  destruct ps as [|p ps].
  - simpl. reflexivity.
  - rewrite (collect_elems_state_irrelevant (elem_step ffmt c sc f id) (p :: ps)) with (st2 := None).
    + destruct (collect_elems (elem_step ffmt c sc f id) (p :: ps) None) as [[vs s']|e|]; auto.
    + intros x s1 s2. unfold elem_step. destruct (as_struct x). now apply shown_struct_state_irrelevant.
    + discriminate.
Qed.

Lemma encode_list_state_irrelevant : forall ffmt c sc fuel id l st,
  c_fixed c = true -> s_load sc <= c_limit0 c ->
  fst (encode_list ffmt c sc fuel id l st) = fst (encode_list ffmt c sc fuel id l None).
Proof.
  intros ffmt c sc fuel id l st Hf Hl. unfold encode_list.
  pose proof (shown_list_struct_out_irrelevant ffmt c sc Hf Hl fuel id l st) as H.
  destruct (shown_list ffmt c sc fuel [] (TStruct id) l st) as [[t1 s1]|e1|];
  destruct (shown_list ffmt c sc fuel [] (TStruct id) l None) as [[t2 s2]|e2|]; simpl; try contradiction; congruence.
Qed.

(* Encode / EncodeList after ANY history of Encode, EncodeList and UseRegistry calls on one
   encoder write what a fresh encoder pointed at the same (current) registry writes *)
Theorem encode_history_independent_reg : forall ffmt c fuel reg0 ops id v,
  c_fixed c = true -> s_load reg0 <= c_limit0 c -> Forall (op_loadable c) ops ->
  let st := run_ops ffmt c true fuel ops (enc_init reg0) in
  fst (encode_e ffmt c fuel id v st) = fst (encode ffmt c (es_reg st) fuel id v None).
Proof.
  intros ffmt c fuel reg0 ops id v Hf Hl Hops st. unfold encode_e.
  apply (apply_e_fresh (fun sc => encode ffmt c sc fuel id v)).
  - intros b. apply encode_state_irrelevant; [assumption|]. apply run_ops_reg_loadable; assumption.
  - apply run_ops_coherent. exact I.
Qed.

Theorem encode_list_history_independent : forall ffmt c fuel reg0 ops id l,
  c_fixed c = true -> s_load reg0 <= c_limit0 c -> Forall (op_loadable c) ops ->
  let st := run_ops ffmt c true fuel ops (enc_init reg0) in
  fst (encode_list_e ffmt c fuel id l st) = fst (encode_list ffmt c (es_reg st) fuel id l None).
Proof.
  intros ffmt c fuel reg0 ops id l Hf Hl Hops st. unfold encode_list_e.
  apply (apply_e_fresh (fun sc => encode_list ffmt c sc fuel id l)).
  - intros b. apply encode_list_state_irrelevant; [assumption|]. apply run_ops_reg_loadable; assumption.
  - apply run_ops_coherent. exact I.
Qed.

(* ---- UseRegistry keeping the cached nodes: schema revision with a renamed field *)
Definition reg_v1 : schema :=
  mkSchema [(1, NStruct 0 0 56 [mkField [107; 101; 121] 4 65535 (FSlot 0 (TUint 8) 0 RNull 32 24 0)])] 100.   (* key *)
Definition reg_v2 : schema :=
  mkSchema [(1, NStruct 0 0 56 [mkField [110; 97; 109; 101] 5 65535 (FSlot 0 (TUint 8) 0 RNull 32 24 0)])] 100. (* name *)
Definition reg_empty : schema := mkSchema [] 8.

Example encode_history_independent_reg_refuted :
  exists ops id v,
    let st := run_ops no_floats cfg_fixed false 5 ops (enc_init reg_v1) in
    fst (encode_e no_floats cfg_fixed 5 id v st) <> fst (encode no_floats cfg_fixed (es_reg st) 5 id v None).
Proof.
  exists [OpEncode 1 (RStruct [7] []); OpUse reg_v2], 1, (RStruct [7] []). vm_compute. discriminate.
Qed.

(* ... and a type the new registry does not know is still rendered *)
Example use_registry_unknown_type_refuted :
  let st := run_ops no_floats cfg_fixed false 5 [OpEncode 1 (RStruct [7] []); OpUse reg_empty] (enc_init reg_v1) in
  fst (encode_e no_floats cfg_fixed 5 1 (RStruct [7] []) st) = Ok [40; 107; 101; 121; 32; 61; 32; 55; 41]   (* (key = 7) *)
  /\ fst (encode no_floats cfg_fixed reg_empty 5 1 (RStruct [7] []) None) = Err ENotFound.
Proof. split; vm_compute; reflexivity. Qed.

(* with the invalidation: the same history gives the new name / the error *)
Example use_registry_example :
  let st := run_ops no_floats cfg_fixed true 5 [OpEncode 1 (RStruct [7] []); OpUse reg_v2] (enc_init reg_v1) in
  fst (encode_e no_floats cfg_fixed 5 1 (RStruct [7] []) st) = Ok [40; 110; 97; 109; 101; 32; 61; 32; 55; 41].  (* (name = 7) *)
Proof. vm_compute. reflexivity. Qed.

(* ---- schema cycles of length 2 and 3 (A.b:B, B.a:A;  C.p:D, D.q:E, E.r:C), null fields.
   The stack of types whose default is being written must be searched as a whole: with the
   innermost entry alone the walk alternates between the types for ever. *)
Definition cyc_field (name : list Z) (t : Z) : field := mkField name 2 65535 (FSlot 0 (TStruct t) 0 RNull 32 24 0).
Definition cyc2_schema : schema :=
  mkSchema [(1, NStruct 0 0 56 [cyc_field [98] 2]); (2, NStruct 0 0 56 [cyc_field [97] 1])] 200.
Definition cyc3_schema : schema :=
  mkSchema [(1, NStruct 0 0 56 [cyc_field [112] 2]); (2, NStruct 0 0 56 [cyc_field [113] 3]);
            (3, NStruct 0 0 56 [cyc_field [114] 1])] 300.

Lemma cyc3_diverges : forall fuel exp st id, id = 1 \/ id = 2 \/ id = 3 ->
  shown_struct no_floats cfg_nocut cyc3_schema fuel exp id [] [] st = OutOfFuel.
Proof.
  induction fuel as [|f IH]; intros exp st id Hid; [reflexivity|].
  destruct Hid as [->|[->| ->]]; destruct st as [b|]; simpl; unfold bind; simpl; rewrite IH; auto.
Qed.

Example render_cycle3_refuted : forall fuel,
  render no_floats cfg_nocut cyc3_schema fuel 1 (RStruct [] []) = OutOfFuel.
Proof.
  intros fuel. unfold render, encode. simpl. rewrite cyc3_diverges; auto.
Qed.

Example render_cycle2_example :
  render no_floats cfg_fixed cyc2_schema 9 1 (RStruct [] [])
  = Ok [40; 98; 32; 61; 32; 40; 97; 32; 61; 32; 40; 98; 32; 61; 32; 40; 41; 41; 41; 41].      (* (b = (a = (b = ()))) *)
Proof. vm_compute. reflexivity. Qed.

Example render_cycle3_example :
  render no_floats cfg_fixed cyc3_schema 9 1 (RStruct [] [])
  = Ok [40; 112; 32; 61; 32; 40; 113; 32; 61; 32; 40; 114; 32; 61; 32; 40; 112; 32; 61; 32; 40; 41; 41; 41; 41; 41].
    (* (p = (q = (r = (p = ())))) *)
Proof. vm_compute. reflexivity. Qed.

(* ------------------------------------------------------------ the text shows what the generated accessors return *)

(* One slot field: what the walk shows is the rendering of the value the generated accessor
   returns - wrong-kind pointers included (a struct where a list / text is expected, a list in
   a struct slot, a capability, a byte list without NUL in a Text slot: the accessor returns the
   field's default, and so does the walk).  [rs]/[rl] are the recursive calls, any functions. *)
Theorem slot_value_eq_accessor : forall ffmt c sc rs rl exp data ptrs off t dflt dptr dpcost st,
  c_acc c = true ->
  slot_value ffmt c sc rs rl exp data ptrs off t dflt dptr dpcost st
  = show_aval ffmt c sc rs rl exp dpcost (accessor data ptrs off t dflt dptr) st.
Proof.
  intros ffmt c sc rs rl exp data ptrs off t dflt dptr dpcost st Hacc.
  unfold slot_value, accessor, show_aval. rewrite Hacc.
  destruct t as [| |bits|bits|bits| | |ecost e|eid|sid| |]; try reflexivity.
  all: destruct (ptr_at ptrs off) eqn:Ep; simpl; try reflexivity.
  all: try (destruct dptr; reflexivity).
  all: unfold bind, ret; destruct (charge ecost st) as [[u s1]|e1|]; try reflexivity;
       destruct (charge dpcost s1) as [[u2 s2]|e2|]; reflexivity.
Qed.

(* The whole struct: marshalStruct is the walk over the fields in code order in which every slot
   is read with its generated accessor. *)
Definition field_step_acc (ffmt : Z -> Z -> list Z) (c : cfg) (sc : schema) (f : nat) (exp : list Z)
    (disc : Z) (data : list Z) (ptrs : list rval) (fd : field) : M (option tval) :=
  match f_kind fd with
  | FOther => ret None
  | k =>
    if negb ((f_disc fd =? 65535) || (f_disc fd =? disc)) then ret None
    else
      charge (f_ncost fd) ;;
      match k with
      | FGroup gid => v <- shown_struct ffmt c sc f exp gid data ptrs ;; ret (Some v)
      | FSlot off t dflt dptr tcost dvcost dpcost =>
        charge tcost ;; charge dvcost ;;
        v <- show_aval ffmt c sc (shown_struct ffmt c sc f) (shown_list ffmt c sc f exp) exp dpcost
               (accessor data ptrs off t dflt dptr) ;;
        ret (Some v)
      | FOther => ret None
      end
  end.

Lemma collect_fields_ext : forall (s1 s2 : field -> M (option tval)) fields,
  (forall fd st, s1 fd st = s2 fd st) -> forall st, collect_fields s1 fields st = collect_fields s2 fields st.
Proof.
  intros s1 s2 fields H. induction fields as [|fd r IH]; intros st; [reflexivity|].
  simpl. unfold bind. rewrite H. destruct (s2 fd st) as [[o st1]|e|]; try reflexivity.
  rewrite IH. reflexivity.
Qed.

Theorem shown_struct_via_accessors : forall ffmt c sc f exp id data ptrs st,
  c_acc c = true ->
  shown_struct ffmt c sc (S f) exp id data ptrs st =
  (find c sc ;;
   match lookup (s_nodes sc) id with
   | None => fail ENotFound
   | Some (NStruct dcount doff fcost fields) =>
     let disc := if 0 <? dcount then get_le data (doff * 2) 2 else 0 in
     charge fcost ;;
     fs <- collect_fields (field_step_acc ffmt c sc f exp disc data ptrs) fields ;;
     ret (TvStruct fs)
   | Some _ => fail ENotStruct
   end) st.
Proof.
  intros ffmt c sc f exp id data ptrs st Hacc.
  with_strategy opaque [find bind charge lookup collect_fields ret fail slot_value show_aval accessor
                        get_le Z.ltb Z.eqb] simpl.
  unfold bind at 1. symmetry. unfold bind at 1. symmetry.
  destruct (find c sc st) as [[u s0]|e|]; try reflexivity.
  destruct (lookup (s_nodes sc) id) as [[dcount doff fcost fields| |]|]; try reflexivity.
  unfold bind at 1. symmetry. unfold bind at 1. symmetry.
  destruct (charge fcost s0) as [[u1 s1]|e|]; try reflexivity.
  unfold bind at 1. symmetry. unfold bind at 1. symmetry.
  rewrite (collect_fields_ext _ (field_step_acc ffmt c sc f exp (if 0 <? dcount then get_le data (doff * 2) 2 else 0) data ptrs)).
  - reflexivity.
  - intros fd st'. unfold field_step_acc.
    destruct (f_kind fd) as [off t dflt dptr tcost dvcost dpcost|gid|]; try reflexivity.
    destruct (negb _); [reflexivity|].
    unfold bind. destruct (charge (f_ncost fd) st') as [[a1 t1]|e|]; try reflexivity.
    destruct (charge tcost t1) as [[a2 t2]|e|]; try reflexivity.
    destruct (charge dvcost t2) as [[a3 t3]|e|]; try reflexivity.
    now rewrite slot_value_eq_accessor.
Qed.

(* ---- before the fix (cfg_noacc): field  t :Text = foo  whose pointer slot holds a struct
   pointer: the accessor returns foo, the text showed the empty string *)
Definition acc_schema : schema :=
  mkSchema [(1, NStruct 0 0 56 [mkField [116] 2 65535 (FSlot 0 TText 0 (RPrim 8 [102; 111; 111; 0]) 32 24 4)])] 100.
Definition acc_value : rval := RStruct [] [RStruct [] []].

Example accessor_says_foo : accessor [] [RStruct [] []] 0 TText 0 (RPrim 8 [102; 111; 111; 0]) = AvText [102; 111; 111].
Proof. reflexivity. Qed.

Example shows_accessor_value_refuted :
  render no_floats cfg_noacc acc_schema 5 1 acc_value = Ok [40; 116; 32; 61; 32; 34; 34; 41]            (* (t = "") *)
  /\ render no_floats cfg_fixed acc_schema 5 1 acc_value = Ok [40; 116; 32; 61; 32; 34; 102; 111; 111; 34; 41].  (* (t = "foo") *)
Proof. split; vm_compute; reflexivity. Qed.

(* parse_render on a USED encoder: any cache state (hence, by encode_history_independent_reg,
   any history of Encode / EncodeList / UseRegistry calls) *)
Corollary parse_encode_any_state : forall ffmt c sc fuel id v st out,
  c_fixed c = true -> s_load sc <= c_limit0 c -> schema_ok sc -> rval_ok v ->
  fst (encode ffmt c sc fuel id v st) = Ok out ->
  exists t, shown ffmt c sc fuel id v = Ok t /\ out = print t /\ wf_tval t /\ parse_text out = Some t.
Proof.
  intros ffmt c sc fuel id v st out Hf Hl Hsc Hv H.
  rewrite (encode_state_irrelevant ffmt c sc fuel id v st Hf Hl) in H.
  now apply (parse_render ffmt c sc fuel id v out Hsc Hv).
Qed.
