(* L1 model of /repo/internal/strquote/strquote.go : Append, needsEscape, hexDigit.
   Bytes are Z in [0,256).  No proofs in this file.

   The flag [fixed] selects the variant of needsEscape:
     fixed = false : the code before the fix of F09  (b < 0x20 || b >= 0x7f)
     fixed = true  : the code after it               (... || b == 'DQ' || b == '\\' || b == '\'')
   The switch of Append always had the cases for the three characters (dead code before the fix). *)
From Coq Require Export List ZArith Bool Lia.
Export ListNotations.
Open Scope Z_scope.

Definition byte_ok (b : Z) : Prop := 0 <= b < 256.
Definition bytes_ok (l : list Z) : Prop := Forall byte_ok l.

(* func needsEscape(b byte) bool *)
Definition needs_escape (fixed : bool) (b : Z) : bool :=
  (b <? 32) || (127 <=? b) ||
  (if fixed then (b =? 34) || (b =? 92) || (b =? 39) else false).

(* const digits = DQ0123456789abcdefDQ; return digits[b]    (index out of range = Go panic: None) *)
Definition digits : list Z := [48;49;50;51;52;53;54;55;56;57;97;98;99;100;101;102].
Definition hex_digit (b : Z) : option Z :=
  if (0 <=? b) && (b <? 16) then nth_error digits (Z.to_nat b) else None.
(* total form used inside Append, where b/16 and b%16 of a byte are always < 16 *)
Definition hex_digit_t (b : Z) : Z := match hex_digit b with Some d => d | None => 0 end.

(* the switch in the loop body of Append *)
Definition escape_byte (b : Z) : list Z :=
  if b =? 7 then [92; 97]           (* \a *)
  else if b =? 8 then [92; 98]      (* \b *)
  else if b =? 12 then [92; 102]    (* \f *)
  else if b =? 10 then [92; 110]    (* \n *)
  else if b =? 13 then [92; 114]    (* \r *)
  else if b =? 9 then [92; 116]     (* \t *)
  else if b =? 11 then [92; 118]    (* \v *)
  else if b =? 39 then [92; 39]     (* \' *)
  else if b =? 34 then [92; 34]     (* \DQ *)
  else if b =? 92 then [92; 92]     (* \\ *)
  else [92; 120; hex_digit_t (b / 16); hex_digit_t (b mod 16)].

(* ---- the loop exactly as written: indices [i] and [last] into [s], the output buffer [buf];
   [rest] is s[i:] (the part the range loop has not visited yet). *)
Definition slice (s : list Z) (lo hi : nat) : list Z := firstn (hi - lo) (skipn lo s).

Fixpoint append_loop (fixed : bool) (s : list Z) (rest : list Z) (i last : nat) (buf : list Z) : list Z :=
  match rest with
  | [] => buf ++ skipn last s                       (* buf = append(buf, s[last:]...) *)
  | b :: r =>
    if needs_escape fixed b
    then append_loop fixed s r (S i) (S i) (buf ++ slice s last i ++ escape_byte b)
    else append_loop fixed s r (S i) last buf
  end.

(* func Append(buf []byte, s []byte) []byte *)
Definition append (fixed : bool) (buf s : list Z) : list Z :=
  append_loop fixed s s 0 0 (buf ++ [34]) ++ [34].

(* ---- the same function, byte by byte (proved equal to [append] in StrquoteProofs) *)
Definition quote_byte (fixed : bool) (b : Z) : list Z :=
  if needs_escape fixed b then escape_byte b else [b].

Fixpoint quote_body (fixed : bool) (s : list Z) : list Z :=
  match s with
  | [] => []
  | b :: r => quote_byte fixed b ++ quote_body fixed r
  end.

Definition quote_gen (fixed : bool) (s : list Z) : list Z := 34 :: quote_body fixed s ++ [34].

(* the literal that the current code produces *)
Definition quote (s : list Z) : list Z := append true [] s.
(* the literal the code produced before the fix of F09 *)
Definition quote_prefix (s : list Z) : list Z := append false [] s.
