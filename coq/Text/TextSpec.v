(* L2: an independent reader for the Cap'n Proto text format, written from the grammar of the
   schema language (capnp language reference, DQstring literalsDQ, and the C++ lexer's escape
   table), not from the Go encoder:

     literal  ::= 'DQ' item* 'DQ'
     item     ::= any byte except 'DQ', '\' and newline
               |  '\' one of a b f n r t v ' DQ \ ?
               |  '\' 'x' hex hex
               |  '\' oct [oct [oct]]            (value < 256)
     (\u / \U escapes are not accepted: the reader is byte oriented)

     value    ::= '(' [ident '=' value {',' ident '=' value}] ')'
               |  '[' [value {',' value}] ']'
               |  literal | '0x' 'DQ' {hex hex | ' '} 'DQ'
               |  ['-'] digit+               (integer)
               |  number-like token that is not an integer (float: kept as an opaque token)
               |  ident                      (true, false, void, inf, nan, enumerant names)
               |  '<' ... '>'                (the encoder's markers for capabilities / AnyPointer)
     blanks (space, tab, CR, LF) are skipped before every token.

   Bytes are Z.  No proofs in this file. *)
From Coq Require Export List ZArith Bool Lia.
From Coq Require Import Decimal DecimalPos DecimalZ.
Export ListNotations.
Open Scope Z_scope.

(* ------------------------------------------------------------------ string literals *)

Definition is_oct (b : Z) : bool := (48 <=? b) && (b <=? 55).

Definition hex_val (b : Z) : option Z :=
  if (48 <=? b) && (b <=? 57) then Some (b - 48)
  else if (97 <=? b) && (b <=? 102) then Some (b - 87)
  else if (65 <=? b) && (b <=? 70) then Some (b - 55)
  else None.

(* the character after a backslash, for the one-character escapes *)
Definition simple_escape (e : Z) : option Z :=
  if e =? 97 then Some 7            (* \a *)
  else if e =? 98 then Some 8       (* \b *)
  else if e =? 102 then Some 12     (* \f *)
  else if e =? 110 then Some 10     (* \n *)
  else if e =? 114 then Some 13     (* \r *)
  else if e =? 116 then Some 9      (* \t *)
  else if e =? 118 then Some 11     (* \v *)
  else if e =? 39 then Some 39      (* \' *)
  else if e =? 34 then Some 34      (* \DQ *)
  else if e =? 92 then Some 92      (* \\ *)
  else if e =? 63 then Some 63      (* \? *)
  else None.

Definition cons_res (b : Z) (r : option (list Z * list Z)) : option (list Z * list Z) :=
  match r with
  | Some (s, rest) => Some (b :: s, rest)
  | None => None
  end.

(* after the opening quote: the bytes denoted up to the closing quote, and what follows it *)
Fixpoint parse_body (l : list Z) : option (list Z * list Z) :=
  match l with
  | [] => None                                   (* unterminated *)
  | b :: r =>
    if b =? 34 then Some ([], r)
    else if b =? 10 then None                    (* a literal does not span lines *)
    else if b =? 92 then
      match r with
      | [] => None
      | e :: r1 =>
        if e =? 120 then
          match r1 with
          | h1 :: h2 :: r2 =>
            match hex_val h1, hex_val h2 with
            | Some a, Some c => cons_res (16 * a + c) (parse_body r2)
            | _, _ => None
            end
          | _ => None
          end
        else if is_oct e then
          match r1 with
          | [] => None
          | o2 :: r2 =>
            if is_oct o2 then
              match r2 with
              | [] => None
              | o3 :: r3 =>
                if is_oct o3 then
                  let v := 64 * (e - 48) + 8 * (o2 - 48) + (o3 - 48) in
                  if v <? 256 then cons_res v (parse_body r3) else None
                else cons_res (8 * (e - 48) + (o2 - 48)) (parse_body r2)
              end
            else cons_res (e - 48) (parse_body r1)
          end
        else
          match simple_escape e with
          | Some v => cons_res v (parse_body r1)
          | None => None
          end
      end
    else cons_res b (parse_body r)
  end.

(* parse_literal l = Some (s, rest): l starts with a string literal denoting s, followed by rest *)
Definition parse_literal (l : list Z) : option (list Z * list Z) :=
  match l with
  | 34 :: r => parse_body r
  | _ => None
  end.
