(* L2: an independent reader for the Cap'n Proto text format, written from the grammar of the
   schema language (capnp language reference, DQstring literalsDQ, and the C++ lexer's escape
   table), not from the Go encoder:

     literal  ::= 'DQ' item* 'DQ'
     item     ::= any byte except 'DQ', '\' and newline
               |  '\' one of a b f n r t v ' DQ \ ?
               |  '\' 'x' hex hex
               |  '\' oct [oct [oct]]            (value < 256)
     (\u / \U escapes are not accepted: the reader is byte oriented)

     value    ::= '(' [ident '=' value {',' ident '=' value}] ')'
               |  '[' [value {',' value}] ']'
               |  literal | '0x' 'DQ' {hex hex | ' '} 'DQ'
               |  ['-'] digit+               (integer)
               |  number-like token that is not an integer (float: kept as an opaque token)
               |  ident                      (true, false, void, inf, nan, enumerant names)
               |  '<' ... '>'                (the encoder's markers for capabilities / AnyPointer)
     blanks (space, tab, CR, LF) are skipped before every token.

   Bytes are Z.  No proofs in this file. *)
From Coq Require Export List ZArith Bool Lia.
From Coq Require Import Decimal DecimalPos DecimalZ.
Export ListNotations.
Open Scope Z_scope.

(* ------------------------------------------------------------------ string literals *)

Definition is_oct (b : Z) : bool := (48 <=? b) && (b <=? 55).

Definition hex_val (b : Z) : option Z :=
  if (48 <=? b) && (b <=? 57) then Some (b - 48)
  else if (97 <=? b) && (b <=? 102) then Some (b - 87)
  else if (65 <=? b) && (b <=? 70) then Some (b - 55)
  else None.

(* the character after a backslash, for the one-character escapes *)
Definition simple_escape (e : Z) : option Z :=
  if e =? 97 then Some 7            (* \a *)
  else if e =? 98 then Some 8       (* \b *)
  else if e =? 102 then Some 12     (* \f *)
  else if e =? 110 then Some 10     (* \n *)
  else if e =? 114 then Some 13     (* \r *)
  else if e =? 116 then Some 9      (* \t *)
  else if e =? 118 then Some 11     (* \v *)
  else if e =? 39 then Some 39      (* \' *)
  else if e =? 34 then Some 34      (* \DQ *)
  else if e =? 92 then Some 92      (* \\ *)
  else if e =? 63 then Some 63      (* \? *)
  else None.

Definition cons_res (b : Z) (r : option (list Z * list Z)) : option (list Z * list Z) :=
  match r with
  | Some (s, rest) => Some (b :: s, rest)
  | None => None
  end.

(* after the opening quote: the bytes denoted up to the closing quote, and what follows it *)
Fixpoint parse_body (l : list Z) : option (list Z * list Z) :=
  match l with
  | [] => None                                   (* unterminated *)
  | b :: r =>
    if b =? 34 then Some ([], r)
    else if b =? 10 then None                    (* a literal does not span lines *)
    else if b =? 92 then
      match r with
      | [] => None
      | e :: r1 =>
        if e =? 120 then
          match r1 with
          | h1 :: h2 :: r2 =>
            match hex_val h1, hex_val h2 with
            | Some a, Some c => cons_res (16 * a + c) (parse_body r2)
            | _, _ => None
            end
          | _ => None
          end
        else if is_oct e then
          match r1 with
          | [] => None
          | o2 :: r2 =>
            if is_oct o2 then
              match r2 with
              | [] => None
              | o3 :: r3 =>
                if is_oct o3 then
                  let v := 64 * (e - 48) + 8 * (o2 - 48) + (o3 - 48) in
                  if v <? 256 then cons_res v (parse_body r3) else None
                else cons_res (8 * (e - 48) + (o2 - 48)) (parse_body r2)
              end
            else cons_res (e - 48) (parse_body r1)
          end
        else
          match simple_escape e with
          | Some v => cons_res v (parse_body r1)
          | None => None
          end
      end
    else cons_res b (parse_body r)
  end.

(* parse_literal l = Some (s, rest): l starts with a string literal denoting s, followed by rest *)
Definition parse_literal (l : list Z) : option (list Z * list Z) :=
  match l with
  | 34 :: r => parse_body r
  | _ => None
  end.

(* ------------------------------------------------------------------ values *)

(* what a text value denotes.  Text and Data written as a string literal are both [TvStr]
   (the two are not distinguished by the notation); [TvData] is the 0x-literal form.
   Floats and the encoder's markers for capabilities / AnyPointer are opaque tokens. *)
Inductive tval : Type :=
| TvVoid
| TvBool (b : bool)
| TvInt (z : Z)
| TvFloat (tok : list Z)
| TvStr (s : list Z)
| TvData (s : list Z)
| TvIdent (name : list Z)
| TvMarker (m : list Z)
| TvList (l : tvals)
| TvStruct (fs : tfields)
with tvals : Type :=
| TNil
| TCons (v : tval) (r : tvals)
with tfields : Type :=
| FNil
| FCons (name : list Z) (v : tval) (r : tfields).

Definition is_blank (c : Z) : bool := (c =? 32) || (c =? 9) || (c =? 10) || (c =? 13).
Definition is_digit (c : Z) : bool := (48 <=? c) && (c <=? 57).
Definition is_alpha (c : Z) : bool :=
  ((97 <=? c) && (c <=? 122)) || ((65 <=? c) && (c <=? 90)) || (c =? 95).
Definition is_idchar (c : Z) : bool := is_alpha c || is_digit c.
(* characters of a number token: digits, letters (exponent, hex, inf/nan), '.', '+', '-' *)
Definition is_numchar (c : Z) : bool := is_idchar c || (c =? 46) || (c =? 43) || (c =? 45).

Fixpoint skip_ws (l : list Z) : list Z :=
  match l with
  | c :: r => if is_blank c then skip_ws r else l
  | [] => []
  end.

(* longest prefix whose bytes satisfy p, and the rest *)
Fixpoint span (p : Z -> bool) (l : list Z) : list Z * list Z :=
  match l with
  | c :: r => if p c then let (a, b) := span p r in (c :: a, b) else ([], l)
  | [] => ([], [])
  end.

(* decimal digits -> Decimal.uint (most significant first) *)
Fixpoint uint_of_digits (l : list Z) : option uint :=
  match l with
  | [] => Some Nil
  | c :: r =>
    match uint_of_digits r with
    | None => None
    | Some u =>
      if c =? 48 then Some (D0 u) else if c =? 49 then Some (D1 u) else if c =? 50 then Some (D2 u)
      else if c =? 51 then Some (D3 u) else if c =? 52 then Some (D4 u) else if c =? 53 then Some (D5 u)
      else if c =? 54 then Some (D6 u) else if c =? 55 then Some (D7 u) else if c =? 56 then Some (D8 u)
      else if c =? 57 then Some (D9 u) else None
    end
  end.

(* a number token: an integer when it is  [-] digit+ , otherwise an opaque float token *)
Definition number_of_token (tok : list Z) : tval :=
  match tok with
  | [] => TvFloat tok
  | c :: ds =>
    if (c =? 45) && negb (length ds =? 0)%nat then
      match uint_of_digits ds with
      | Some u => TvInt (- Z.of_uint u)
      | None => TvFloat tok
      end
    else
      match uint_of_digits tok with
      | Some u => TvInt (Z.of_uint u)
      | None => TvFloat tok
      end
  end.

(* 0x followed by a quote *)
Definition starts_hexlit (c : Z) (r : list Z) : bool :=
  match r with
  | a :: b :: _ => (c =? 48) && (a =? 120) && (b =? 34)
  | _ => false
  end.

Definition kw_true : list Z := [116; 114; 117; 101].
Definition kw_false : list Z := [102; 97; 108; 115; 101].
Definition kw_void : list Z := [118; 111; 105; 100].

Definition bytes_eqb (a b : list Z) : bool :=
  (length a =? length b)%nat && forallb (fun p => fst p =? snd p) (combine a b).

Definition ident_value (name : list Z) : tval :=
  if bytes_eqb name kw_true then TvBool true
  else if bytes_eqb name kw_false then TvBool false
  else if bytes_eqb name kw_void then TvVoid
  else TvIdent name.

(* 0x-literal body: pairs of hex digits, blanks allowed between pairs, up to the closing quote *)
Fixpoint parse_hexdata (l : list Z) : option (list Z * list Z) :=
  match l with
  | [] => None
  | c :: r =>
    if c =? 34 then Some ([], r)
    else if is_blank c then parse_hexdata r
    else match r with
         | d :: r2 =>
           match hex_val c, hex_val d with
           | Some a, Some b => cons_res (16 * a + b) (parse_hexdata r2)
           | _, _ => None
           end
         | [] => None
         end
  end.

(* '<' ... '>' : the bytes up to and including the first '>' *)
Fixpoint take_marker (l : list Z) : option (list Z * list Z) :=
  match l with
  | [] => None
  | c :: r => if c =? 62 then Some ([c], r) else cons_res c (take_marker r)
  end.

(* The reader.  Every call consumes fuel; [parse_text] supplies more than any input needs
   (each call consumes at least one byte before calling again).  None = not a value. *)
Fixpoint parse_value (fuel : nat) (l : list Z) : option (tval * list Z) :=
  match fuel with
  | O => None
  | S f =>
    match skip_ws l with
    | [] => None
    | c :: r =>
      if c =? 40 then                                   (* ( *)
        match skip_ws r with
        | [] => None
        | c2 :: r' =>
          if c2 =? 41 then Some (TvStruct FNil, r')
          else match parse_fields f r with
               | Some (fs, r') => Some (TvStruct fs, r')
               | None => None
               end
        end
      else if c =? 91 then                              (* [ *)
        match skip_ws r with
        | [] => None
        | c2 :: r' =>
          if c2 =? 93 then Some (TvList TNil, r')
          else match parse_elems f r with
               | Some (vs, r') => Some (TvList vs, r')
               | None => None
               end
        end
      else if c =? 34 then                              (* string literal *)
        match parse_body r with
        | Some (s, r') => Some (TvStr s, r')
        | None => None
        end
      else if c =? 60 then                              (* < marker > *)
        match take_marker r with
        | Some (m, r') => Some (TvMarker (60 :: m), r')
        | None => None
        end
      else if starts_hexlit c r then
        match parse_hexdata (skipn 2 r) with
        | Some (s, r') => Some (TvData s, r')
        | None => None
        end
      else if is_digit c || (c =? 45) || (c =? 43) then
        let (tok, r') := span is_numchar (c :: r) in Some (number_of_token tok, r')
      else if is_alpha c then
        let (name, r') := span is_idchar (c :: r) in Some (ident_value name, r')
      else None
    end
  end
with parse_elems (fuel : nat) (l : list Z) : option (tvals * list Z) :=
  match fuel with
  | O => None
  | S f =>
    match parse_value f l with
    | None => None
    | Some (v, r1) =>
      match skip_ws r1 with
      | c :: r2 =>
        if c =? 93 then Some (TCons v TNil, r2)
        else if c =? 44 then
          match parse_elems f r2 with
          | Some (vs, r3) => Some (TCons v vs, r3)
          | None => None
          end
        else None
      | [] => None
      end
    end
  end
with parse_fields (fuel : nat) (l : list Z) : option (tfields * list Z) :=
  match fuel with
  | O => None
  | S f =>
    let (name, r0) := span is_idchar (skip_ws l) in
    match name with
    | [] => None
    | _ :: _ =>
      match skip_ws r0 with
      | [] => None
      | c0 :: r1 =>
        if negb (c0 =? 61) then None else
        match parse_value f r1 with
        | None => None
        | Some (v, r2) =>
          match skip_ws r2 with
          | c :: r3 =>
            if c =? 41 then Some (FCons name v FNil, r3)
            else if c =? 44 then
              match parse_fields f r3 with
              | Some (fs, r4) => Some (FCons name v fs, r4)
              | None => None
              end
            else None
          | [] => None
          end
        end
      end
    end
  end.

(* a complete text: one value, then only blanks *)
Definition parse_text (l : list Z) : option tval :=
  match parse_value (S (length l)) l with
  | Some (v, rest) => match skip_ws rest with [] => Some v | _ => None end
  | None => None
  end.
