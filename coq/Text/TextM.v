(* L1 model of /repo/encoding/text/marshal.go (Encoder.Encode, marshalStruct, marshalFieldValue,
   marshalList, marshalEnum, codeOrderFields), of the String methods of the typed lists in
   list.go that marshalList uses, and of the schema cache internal/nodemap (Map.Find) as a
   state machine over the traversal budget of the cached schema message.

   The Go code walks the struct and writes bytes as it goes.  The model separates the two:
     shown  : the walk (which fields, in which order, with which values) producing a [tval];
              every read of a pointer of the *schema* message is charged to the budget;
     print  : the bytes written for a [tval];
     render = print after shown.
   Not modelled: strconv float formatting (an oracle [ffmt], floats are opaque tokens); errors
   of the destination io.Writer; the traversal budget / depth limit of the *value* message
   (reading the value is C01-C03); pointers in the value whose kind contradicts the schema are
   rendered as the code does where that is simple (wrong kind = empty struct / empty list) and
   are [EIllTyped] otherwise.  Several errors of schema reads are dropped by the Go code
   (codeOrderFields, marshalEnum inside lists, default pointers): the model reports every
   failed schema read as [EBudget]; the Go code may instead produce truncated text.
   No proofs in this file. *)
From CV Require Import Text.Strquote Text.TextSpec.
From Coq Require Import Decimal DecimalPos DecimalZ.
Open Scope Z_scope.

(* ------------------------------------------------------------------ schema description *)

Inductive ty : Type :=
| TVoid | TBool
| TInt (bits : Z)              (* Int8..Int64 *)
| TUint (bits : Z)             (* UInt8..UInt64 *)
| TFloat (bits : Z)
| TText | TData
| TList (ecost : Z) (e : ty)   (* ecost: read size of the element Type struct (ElementType()) *)
| TEnum (id : Z)
| TStruct (id : Z)
| TInterface | TAnyPointer.

(* value trees as stored: what the pointers of a message lead to *)
Inductive rval : Type :=
| RNull
| RStruct (data : list Z) (ptrs : list rval)
| RPrim (w : Z) (xs : list Z)   (* list of w-bit elements (w = 0 void, 1 bit, 8, 16, 32, 64), raw unsigned *)
| RPtrs (ps : list rval)        (* list of pointers (elements of a struct list may also be given this way) *)
| RComp (es : list rval)        (* composite list: elements are RStruct, all of one size.  Every list
                                   type may be encoded this way (list upgrade): a primitive element is
                                   the first bytes of the data section, a pointer element the first pointer *)
| RCap.

Inductive fkind : Type :=
| FSlot (off : Z) (t : ty) (dflt : Z) (dptr : rval) (tcost dvcost dpcost : Z)
      (* offset, type, default (raw bits / default pointer target), read sizes of the
         Type struct, the Value struct and the default pointer's target *)
| FGroup (id : Z)
| FOther.

Record field : Type := mkField {
  f_name : list Z; f_ncost : Z;      (* name, read size of the name text *)
  f_disc : Z;                        (* discriminantValue, 65535 = not in the union *)
  f_kind : fkind }.

Inductive node : Type :=
| NStruct (dcount doff fcost : Z) (fields : list field)   (* fields in code order; fcost = read size of the field list *)
| NEnum (ecost : Z) (enumerants : list (list Z * Z))      (* read size of the enumerant list; names with their read sizes *)
| NOther.

Record schema : Type := mkSchema {
  s_nodes : list (Z * node);
  s_load : Z }.                      (* budget consumed by nodemap.Find while it indexes the message *)

Fixpoint lookup (ns : list (Z * node)) (id : Z) : option node :=
  match ns with
  | [] => None
  | (k, n) :: r => if k =? id then Some n else lookup r id
  end.

(* ------------------------------------------------------------------ results, budget *)

Inductive err : Type := ENotFound | ENotStruct | ENotEnum | EBudget | EIllTyped | EInternal.
Inductive res (A : Type) : Type := Ok (a : A) | Err (e : err) | OutOfFuel.
Arguments Ok {A} a. Arguments Err {A} e. Arguments OutOfFuel {A}.

(* the encoder's nodemap: None = schema message not loaded yet, Some b = loaded, b bytes of
   traversal budget left *)
Definition cache := option Z.

Record cfg : Type := mkCfg {
  c_fixed : bool;    (* Find resets the read limit of the schema message (the fix of F10) *)
  c_acc : bool;      (* a pointer of the wrong kind is treated like a null pointer (the field's default is shown),
                        as the generated accessors do (the fix of the accessor disagreement) *)
  c_cut : bool;      (* inside the default value of a type, a null field of that type is written as ()
                        (the fix of the unbounded recursion on recursive types) *)
  c_limit0 : Z;      (* limit of a freshly unmarshalled message: 64 MiB *)
  c_reset : Z }.     (* the limit Find resets to *)

Definition cfg_prefix : cfg := mkCfg false false false 67108864 0.
Definition cfg_fixed : cfg := mkCfg true true true 67108864 18446744073709551615.
(* F10 fixed, recursion on recursive types not yet cut *)
Definition cfg_nocut : cfg := mkCfg true true false 67108864 18446744073709551615.
(* the default is shown only for a NULL pointer (marshal.go before the accessor fix) *)
Definition cfg_noacc : cfg := mkCfg true false true 67108864 18446744073709551615.

Definition M (A : Type) : Type := cache -> res (A * cache).
Definition ret {A} (a : A) : M A := fun st => Ok (a, st).
Definition bind {A B} (m : M A) (k : A -> M B) : M B :=
  fun st => match m st with
            | Ok (a, st') => k a st'
            | Err e => Err e
            | OutOfFuel => OutOfFuel
            end.
Definition fail {A} (e : err) : M A := fun _ => Err e.
Notation "m ;; k" := (bind m (fun _ => k)) (at level 61, right associativity).
Notation "x <- m ;; k" := (bind m (fun x => k)) (at level 61, m at next level, right associativity).

(* Message.canRead(sz) on the schema message *)
Definition charge (k : Z) : M unit :=
  fun st => match st with
            | Some b => if k <=? b then Ok (tt, Some (b - k)) else Err EBudget
            | None => Err EInternal
            end.

(* nodemap.Map.Find for an id of the (single) schema file: the first call unmarshals the
   schema and indexes its nodes, later calls hit the cache *)
Definition find (c : cfg) (sc : schema) : M unit :=
  fun st =>
    match st with
    | None =>
      if s_load sc <=? c_limit0 c
      then Ok (tt, Some (if c_fixed c then c_reset c else c_limit0 c - s_load sc))
      else Err EBudget
    | Some b => Ok (tt, Some (if c_fixed c then c_reset c else b))
    end.

(* ------------------------------------------------------------------ reading a struct *)

Fixpoint le_val (bs : list Z) : Z :=
  match bs with
  | [] => 0
  | b :: r => b + 256 * le_val r
  end.

(* Struct.Uint8/16/32/64(off): n bytes little endian at byte offset off; 0 outside the data section *)
Definition get_le (data : list Z) (off n : Z) : Z :=
  if (0 <=? off) && (off + n <=? Z.of_nat (length data))
  then le_val (firstn (Z.to_nat n) (skipn (Z.to_nat off) data))
  else 0.

(* Struct.Bit(n) *)
Definition get_bit (data : list Z) (n : Z) : bool :=
  if (0 <=? n) && (n / 8 <? Z.of_nat (length data))
  then Z.testbit (nth (Z.to_nat (n / 8)) data 0) (n mod 8)
  else false.

(* Struct.Ptr(uint16(off)): null outside the pointer section *)
Definition ptr_at (ptrs : list rval) (off : Z) : rval :=
  nth (Z.to_nat (off mod 65536)) ptrs RNull.

Definition is_null (p : rval) : bool := match p with RNull => true | _ => false end.

(* Ptr.Struct(): the zero Struct when the pointer is not a struct pointer *)
Definition as_struct (p : rval) : list Z * list rval :=
  match p with RStruct d ps => (d, ps) | _ => ([], []) end.

(* Ptr.Data(), Ptr.TextBytes() *)
(* Ptr.DataDefault / Ptr.text(): Some = the pointer is a byte list (with NUL terminator for text) *)
Definition data_of (p : rval) : option (list Z) :=
  match p with RPrim w bs => if w =? 8 then Some bs else None | _ => None end.
Definition text_of (p : rval) : option (list Z) :=
  match p with
  | RPrim w bs => if (w =? 8) && (last bs 1 =? 0) then Some (removelast bs) else None
  | _ => None
  end.
Definition data_bytes (p : rval) : list Z := match data_of p with Some b => b | None => [] end.
Definition text_bytes (p : rval) : list Z := match text_of p with Some b => b | None => [] end.
Definition is_struct (p : rval) : bool := match p with RStruct _ _ => true | _ => false end.
Definition is_list (p : rval) : bool := match p with RPrim _ _ | RPtrs _ | RComp _ => true | _ => false end.

(* two's complement reading of an unsigned bit pattern *)
Definition sint (bits x : Z) : Z := if x <? 2 ^ (bits - 1) then x else x - 2 ^ bits.

Definition marker_cap : list Z :=      (* <external capability> *)
  [60;101;120;116;101;114;110;97;108;32;99;97;112;97;98;105;108;105;116;121;62].
Definition marker_any : list Z :=      (* <opaque pointer> *)
  [60;111;112;97;113;117;101;32;112;111;105;110;116;101;114;62].
Definition ident_null : list Z := [110;117;108;108].

(* ------------------------------------------------------------------ the walk *)

Fixpoint collect_fields (step : field -> M (option tval)) (fields : list field) : M tfields :=
  match fields with
  | [] => ret FNil
  | fd :: r =>
    o <- step fd ;;
    fs <- collect_fields step r ;;
    ret (match o with Some v => FCons (f_name fd) v fs | None => fs end)
  end.

Fixpoint collect_elems {A} (step : A -> M tval) (l : list A) : M tvals :=
  match l with
  | [] => ret TNil
  | x :: r => v <- step x ;; vs <- collect_elems step r ;; ret (TCons v vs)
  end.

Fixpoint tvals_of (l : list tval) : tvals :=
  match l with [] => TNil | v :: r => TCons v (tvals_of r) end.

(* In the walk, [ffmt bits pattern] stands for strconv.AppendFloat(.., 'g', -1, bits) of a bit
   pattern (not modelled: an argument), [c] is the cache variant and [sc] the schema. *)

(* marshalEnum *)
Definition shown_enum (c : cfg) (sc : schema) (id v : Z) : M tval :=
  find c sc ;;
  match lookup (s_nodes sc) id with
  | None => fail ENotFound
  | Some (NEnum ecost names) =>
    charge ecost ;;                                       (* n.Enum().Enumerants() *)
    if Z.of_nat (length names) <=? v then ret (TvInt v)   (* out of range: the number *)
    else match nth_error names (Z.to_nat v) with
         | Some (name, ncost) => charge ncost ;; ret (TvIdent name)     (* NameBytes() *)
         | None => fail EInternal
         end
  | Some _ => fail ENotEnum
  end.

(* elements of a primitive list of the expected width *)
Definition prim_elems (w : Z) (l : rval) : res (list Z) :=
  match l with
  (* a list of another element size: primitiveElem fails, At returns 0 (BitList.At: false) *)
  | RPrim w' xs => if w' =? w then Ok xs else Ok (map (fun _ => 0) xs)
  | RPtrs ps => Ok (map (fun _ => 0) ps)
  | RComp es =>
    (* primitiveElem on a composite list: the element's data section from its start (0 when the
       section is shorter: At returns 0 on a size mismatch); BitList.At is false on a non-bit list *)
    if w =? 1 then Ok (map (fun _ => 0) es)
    else Ok (map (fun e => get_le (fst (as_struct e)) 0 (w / 8)) es)
  | _ => Ok []                                            (* not a list: List{} has Len() = 0 *)
  end.
(* PointerList.At on a composite list: the first pointer of every element *)
Fixpoint first_ptrs (es : list rval) : option (list rval) :=
  match es with
  | [] => Some []
  | RStruct _ (p :: _) :: r => match first_ptrs r with Some ps => Some (p :: ps) | None => None end
  | _ => None                                             (* no pointer section: "mismatched list element size" *)
  end.
Definition ptr_elems (l : rval) : res (list rval) :=
  match l with
  | RPtrs ps => Ok ps
  | RComp es => match first_ptrs es with Some ps => Ok ps | None => Err EIllTyped end
  | RPrim _ xs => if (length xs =? 0)%nat then Ok [] else Err EIllTyped
  | _ => Ok []
  end.
(* List.Struct(i) for every i *)
Definition struct_elems (l : rval) : res (list rval) :=
  match l with
  | RPtrs ps => Ok ps
  | RComp es => Ok es
  | RPrim _ xs => if (length xs =? 0)%nat then Ok [] else Err EIllTyped
  | _ => Ok []
  end.
Definition list_len (l : rval) : nat :=
  match l with RPrim _ xs => length xs | RPtrs ps => length ps | RComp es => length es | _ => O end.

Definition lift {A} (r : res A) : M A :=
  fun st => match r with Ok a => Ok (a, st) | Err e => Err e | OutOfFuel => OutOfFuel end.

(* ------------------------------------------------------------------ one slot field *)

(* marshalFieldValue after Type() and DefaultValue() have been read: the value shown for a
   slot.  [rs] / [rl] are marshalStruct / marshalList (the recursive calls of the walk). *)
Definition slot_value (ffmt : Z -> Z -> list Z) (c : cfg) (sc : schema)
    (rs : list Z -> Z -> list Z -> list rval -> M tval) (rl : ty -> rval -> M tval)
    (exp : list Z) (data : list Z) (ptrs : list rval) (off : Z) (t : ty) (dflt : Z) (dptr : rval) (dpcost : Z) : M tval :=
  match t with
  | TVoid => ret TvVoid
  | TBool => ret (TvBool (xorb (get_bit data off) (negb (dflt =? 0))))
  | TInt bits => ret (TvInt (sint bits (Z.lxor (get_le data (off * (bits / 8)) (bits / 8)) dflt)))
  | TUint bits => ret (TvInt (Z.lxor (get_le data (off * (bits / 8)) (bits / 8)) dflt))
  | TFloat bits => ret (TvFloat (ffmt bits (Z.lxor (get_le data (off * (bits / 8)) (bits / 8)) dflt)))
  | TStruct sid =>
    let p := ptr_at ptrs off in
    (* st := p.Struct(); !st.IsValid()   (before the fix: !p.IsValid()) *)
    if (if c_acc c then negb (is_struct p) else is_null p) then
      (* the default value of the field; [exp] = enc.defaults *)
      if c_cut c && existsb (Z.eqb sid) exp then ret (TvStruct FNil)
      else
        charge dpcost ;;                                     (* dv.StructValue() *)
        let (d, ps) := as_struct dptr in
        rs (sid :: exp) sid d ps
    else
      let (d, ps) := as_struct p in
      rs exp sid d ps
  | TData =>
    let p := ptr_at ptrs off in
    if c_acc c then
      charge dpcost ;;                                       (* def, _ := dv.Data() *)
      ret (TvStr (match data_of p with Some b => b | None => data_bytes dptr end))   (* p.DataDefault(def) *)
    else if is_null p then charge dpcost ;; ret (TvStr (data_bytes dptr))
    else ret (TvStr (data_bytes p))
  | TText =>
    let p := ptr_at ptrs off in
    if c_acc c then
      charge dpcost ;;                                       (* def, _ := dv.TextBytes() *)
      ret (TvStr (match text_of p with Some b => b | None => text_bytes dptr end))   (* p.TextBytesDefault(def) *)
    else if is_null p then charge dpcost ;; ret (TvStr (text_bytes dptr))
    else ret (TvStr (text_bytes p))
  | TList ecost e =>
    charge ecost ;;                                          (* typ.List().ElementType() *)
    let p := ptr_at ptrs off in
    (* l := p.List(); !l.IsValid()   (before the fix: !p.IsValid()) *)
    p' <- (if (if c_acc c then negb (is_list p) else is_null p) then charge dpcost ;; ret dptr else ret p) ;;   (* dv.List() *)
    rl e p'
  | TEnum eid => shown_enum c sc eid (Z.lxor (get_le data (off * 2) 2) dflt)
  | TInterface =>
    ret (if is_null (ptr_at ptrs off) then TvIdent ident_null else TvMarker marker_cap)
  | TAnyPointer => ret (TvMarker marker_any)
  end.

(* ------------------------------------------------------------------ the generated accessors
   What capnpc-go emits for a slot field (templates structBoolField, structUintField,
   structTextField, structDataField, structStructField, structListField, ...), written from
   the templates and pointer.go, independently of the walk above:
     scalars / enum: read at the offset, XOR the default;
     Text: p.TextBytesDefault(def)   Data: p.DataDefault(def)
     struct: p.StructDefault(def)    list: p.ListDefault(def)      (no default: def empty / null)
   where every *Default falls back to def for a null pointer AND for a pointer of the wrong
   kind.  [fromdef] records that the default was returned (the encoder's bookkeeping of the
   defaults it is writing depends on it). *)
Inductive aval : Type :=
| AvVoid | AvBool (b : bool) | AvInt (z : Z) | AvFloat (bits pat : Z)
| AvText (bs : list Z) | AvData (bs : list Z)
| AvStruct (sid : Z) (fromdef : bool) (d : list Z) (ps : list rval)
| AvList (ecost : Z) (e : ty) (fromdef : bool) (l : rval)
| AvEnum (eid v : Z)
| AvIface (has : bool)
| AvAny.

Definition accessor (data : list Z) (ptrs : list rval) (off : Z) (t : ty) (dflt : Z) (dptr : rval) : aval :=
  let p := ptr_at ptrs off in
  match t with
  | TVoid => AvVoid
  | TBool => AvBool (xorb (get_bit data off) (negb (dflt =? 0)))
  | TInt bits => AvInt (sint bits (Z.lxor (get_le data (off * (bits / 8)) (bits / 8)) dflt))
  | TUint bits => AvInt (Z.lxor (get_le data (off * (bits / 8)) (bits / 8)) dflt)
  | TFloat bits => AvFloat bits (Z.lxor (get_le data (off * (bits / 8)) (bits / 8)) dflt)
  | TText => AvText (match text_of p with
                     | Some b => b
                     | None => match text_of dptr with Some b => b | None => [] end
                     end)
  | TData => AvData (match data_of p with
                     | Some b => b
                     | None => match data_of dptr with Some b => b | None => [] end
                     end)
  | TStruct sid =>
    match p with
    | RStruct d ps => AvStruct sid false d ps
    | _ => match dptr with RStruct d ps => AvStruct sid true d ps | _ => AvStruct sid true [] [] end
    end
  | TList ecost e =>
    match p with
    | RPrim _ _ | RPtrs _ | RComp _ => AvList ecost e false p
    | _ => AvList ecost e true dptr
    end
  | TEnum eid => AvEnum eid (Z.lxor (get_le data (off * 2) 2) dflt)
  | TInterface => AvIface (negb (is_null p))
  | TAnyPointer => AvAny
  end.

(* how the encoder writes a value obtained from an accessor *)
Definition show_aval (ffmt : Z -> Z -> list Z) (c : cfg) (sc : schema)
    (rs : list Z -> Z -> list Z -> list rval -> M tval) (rl : ty -> rval -> M tval)
    (exp : list Z) (dpcost : Z) (a : aval) : M tval :=
  match a with
  | AvVoid => ret TvVoid
  | AvBool b => ret (TvBool b)
  | AvInt z => ret (TvInt z)
  | AvFloat bits pat => ret (TvFloat (ffmt bits pat))
  | AvText b => charge dpcost ;; ret (TvStr b)
  | AvData b => charge dpcost ;; ret (TvStr b)
  | AvStruct sid fromdef d ps =>
    if fromdef then
      if c_cut c && existsb (Z.eqb sid) exp then ret (TvStruct FNil)
      else charge dpcost ;; rs (sid :: exp) sid d ps
    else rs exp sid d ps
  | AvList ecost e fromdef l =>
    charge ecost ;; (if fromdef then charge dpcost else ret tt) ;; rl e l
  | AvEnum eid v => shown_enum c sc eid v
  | AvIface has => ret (if has then TvMarker marker_cap else TvIdent ident_null)
  | AvAny => ret (TvMarker marker_any)
  end.

(* marshalStruct / marshalFieldValue / marshalList *)
Fixpoint shown_struct (ffmt : Z -> Z -> list Z) (c : cfg) (sc : schema) (fuel : nat) (exp : list Z) (id : Z) (data : list Z) (ptrs : list rval) {struct fuel} : M tval :=
  match fuel with
  | O => fun _ => OutOfFuel
  | S f =>
    find c sc ;;
    match lookup (s_nodes sc) id with
    | None => fail ENotFound
    | Some (NStruct dcount doff fcost fields) =>
      let disc := if 0 <? dcount then get_le data (doff * 2) 2 else 0 in
      charge fcost ;;                                     (* codeOrderFields: s.Fields() *)
      fs <- collect_fields (fun fd =>
              match f_kind fd with
              | FOther => ret None
              | k =>
                if negb ((f_disc fd =? 65535) || (f_disc fd =? disc)) then ret None
                else
                  charge (f_ncost fd) ;;                  (* f.NameBytes() *)
                  match k with
                  | FGroup gid => v <- shown_struct ffmt c sc f exp gid data ptrs ;; ret (Some v)
                  | FSlot off t dflt dptr tcost dvcost dpcost =>
                    charge tcost ;;                       (* f.Slot().Type() *)
                    charge dvcost ;;                      (* f.Slot().DefaultValue() *)
                    v <- slot_value ffmt c sc (shown_struct ffmt c sc f) (shown_list ffmt c sc f exp) exp data ptrs off t dflt dptr dpcost ;;
                    ret (Some v)
                  | FOther => ret None
                  end
              end) fields ;;
      ret (TvStruct fs)
    | Some _ => fail ENotStruct
    end
  end
with shown_list (ffmt : Z -> Z -> list Z) (c : cfg) (sc : schema) (fuel : nat) (exp : list Z) (e : ty) (l : rval) {struct fuel} : M tval :=
  match fuel with
  | O => fun _ => OutOfFuel
  | S f =>
    match e with
    | TVoid => ret (TvList (tvals_of (repeat TvVoid (list_len l))))
    | TBool => xs <- lift (prim_elems 1 l) ;; ret (TvList (tvals_of (map (fun x => TvBool (negb (x =? 0))) xs)))
    | TInt bits => xs <- lift (prim_elems bits l) ;; ret (TvList (tvals_of (map (fun x => TvInt (sint bits x)) xs)))
    | TUint bits => xs <- lift (prim_elems bits l) ;; ret (TvList (tvals_of (map TvInt xs)))
    | TFloat bits => xs <- lift (prim_elems bits l) ;; ret (TvList (tvals_of (map (fun x => TvFloat (ffmt bits x)) xs)))
    | TData => ps <- lift (ptr_elems l) ;; ret (TvList (tvals_of (map (fun p => TvStr (data_bytes p)) ps)))
    | TText => ps <- lift (ptr_elems l) ;; ret (TvList (tvals_of (map (fun p => TvStr (text_bytes p)) ps)))
    | TStruct sid =>
      ps <- lift (struct_elems l) ;;
      vs <- collect_elems (fun p => let (d, pp) := as_struct p in shown_struct ffmt c sc f exp sid d pp) ps ;;
      ret (TvList vs)
    | TList ecost ee =>
      charge ecost ;;                                     (* elem.List().ElementType() *)
      ps <- lift (ptr_elems l) ;;
      vs <- collect_elems (fun p => shown_list ffmt c sc f exp ee p) ps ;;
      ret (TvList vs)
    | TEnum eid =>
      xs <- lift (prim_elems 16 l) ;;
      vs <- collect_elems (fun x => shown_enum c sc eid x) xs ;;
      ret (TvList vs)
    | TInterface =>
      ps <- lift (ptr_elems l) ;;
      ret (TvList (tvals_of (map (fun p => if is_null p then TvIdent ident_null else TvMarker marker_cap) ps)))
    | TAnyPointer => ret (TvList (tvals_of (repeat (TvMarker marker_any) (list_len l))))
    end
  end.


(* ------------------------------------------------------------------ the bytes written *)

Fixpoint uint_bytes (u : uint) : list Z :=
  match u with
  | Nil => []
  | D0 r => 48 :: uint_bytes r | D1 r => 49 :: uint_bytes r | D2 r => 50 :: uint_bytes r
  | D3 r => 51 :: uint_bytes r | D4 r => 52 :: uint_bytes r | D5 r => 53 :: uint_bytes r
  | D6 r => 54 :: uint_bytes r | D7 r => 55 :: uint_bytes r | D8 r => 56 :: uint_bytes r
  | D9 r => 57 :: uint_bytes r
  end.

(* strconv.AppendInt(.., 10) / AppendUint(.., 10) *)
Definition print_int (z : Z) : list Z :=
  match Z.to_int z with
  | Pos u => uint_bytes u
  | Neg u => 45 :: uint_bytes u
  end.

Definition sep : list Z := [44; 32].          (* ", " *)
Definition eq_sign : list Z := [32; 61; 32].  (* " = " *)

Fixpoint print (t : tval) : list Z :=
  match t with
  | TvVoid => kw_void
  | TvBool b => if b then kw_true else kw_false
  | TvInt z => print_int z
  | TvFloat tok => tok
  | TvStr s => quote s
  | TvData s => quote s                 (* never produced by the walk; same form as TvStr *)
  | TvIdent n => n
  | TvMarker m => m
  | TvList l => 91 :: print_elems true l ++ [93]
  | TvStruct fs => 40 :: print_fields true fs ++ [41]
  end
with print_elems (first : bool) (l : tvals) : list Z :=
  match l with
  | TNil => []
  | TCons v r => (if first then [] else sep) ++ print v ++ print_elems false r
  end
with print_fields (first : bool) (fs : tfields) : list Z :=
  match fs with
  | FNil => []
  | FCons n v r => (if first then [] else sep) ++ n ++ eq_sign ++ print v ++ print_fields false r
  end.

(* ------------------------------------------------------------------ Encoder *)

(* Encoder.Encode(typeID, s) on an encoder whose cache is st:
   the text written (or the error) and the cache afterwards.  After a failed schema read the
   budget is 0 (canRead stores 0), which is all the later calls can observe. *)
Definition encode (ffmt : Z -> Z -> list Z) (c : cfg) (sc : schema) (fuel : nat) (id : Z) (v : rval)
    (st : cache) : res (list Z) * cache :=
  let (d, ps) := as_struct v in
  match shown_struct ffmt c sc fuel [] id d ps st with
  | Ok (t, st') => (Ok (print t), st')
  | Err e => (Err e, Some 0)
  | OutOfFuel => (OutOfFuel, st)
  end.

(* Encoder.EncodeList(typeID, l): marshalList with the element type struct typeID (the Type
   struct is built in a new message on every call: nothing of it is kept in the encoder) *)
Definition encode_list (ffmt : Z -> Z -> list Z) (c : cfg) (sc : schema) (fuel : nat) (id : Z) (l : rval)
    (st : cache) : res (list Z) * cache :=
  match shown_list ffmt c sc fuel [] (TStruct id) l st with
  | Ok (t, st') => (Ok (print t), st')
  | Err e => (Err e, Some 0)
  | OutOfFuel => (OutOfFuel, st)
  end.

(* the value tree shown by Encode on a fresh encoder (the field values the text displays) *)
Definition shown (ffmt : Z -> Z -> list Z) (c : cfg) (sc : schema) (fuel : nat) (id : Z) (v : rval) : res tval :=
  let (d, ps) := as_struct v in
  match shown_struct ffmt c sc fuel [] id d ps None with
  | Ok (t, _) => Ok t
  | Err e => Err e
  | OutOfFuel => OutOfFuel
  end.

Definition render (ffmt : Z -> Z -> list Z) (c : cfg) (sc : schema) (fuel : nat) (id : Z) (v : rval) : res (list Z) :=
  fst (encode ffmt c sc fuel id v None).

(* the cache after encoding the values of [hist] one after the other *)
Fixpoint run_history (ffmt : Z -> Z -> list Z) (c : cfg) (sc : schema) (fuel : nat)
    (hist : list (Z * rval)) (st : cache) : cache :=
  match hist with
  | [] => st
  | (id, v) :: r => run_history ffmt c sc fuel r (snd (encode ffmt c sc fuel id v st))
  end.

(* n further Encodes of the same value (n counted in binary: no large nat) *)
Definition encode_again (ffmt : Z -> Z -> list Z) (c : cfg) (sc : schema) (fuel : nat) (id : Z) (v : rval)
    (n : N) (st : cache) : cache :=
  N.iter n (fun s => snd (encode ffmt c sc fuel id v s)) st.

(* ------------------------------------------------------------------ Encoder.UseRegistry *)

(* An encoder with a registry: the registry it is pointed at, and the cached nodes - which
   schema they were read from and the remaining budget of that schema message.
   nodemap.Map.UseRegistry replaces the registry and drops the cached nodes ([inval] = true, the
   code as it is); with [inval] = false the nodes cached from the old registry stay in use
   (the variant in which the map is kept).  In that variant ids missing from the stale cache
   are reported not-found by the model (the Go code would load them from the new registry on
   top of the stale entries); the variant exists only for the refutation. *)
Record enc_state : Type := mkEnc { es_reg : schema; es_cache : option (schema * Z) }.

Definition enc_init (reg : schema) : enc_state := mkEnc reg None.

Definition use_registry (inval : bool) (reg : schema) (st : enc_state) : enc_state :=
  mkEnc reg (if inval then None else es_cache st).

Definition with_schema (sc : schema) (c : cache) : option (schema * Z) :=
  match c with Some b => Some (sc, b) | None => None end.

(* an operation of the encoder, given as a function of the schema the walk sees and the cache *)
Definition apply_e (f : schema -> cache -> res (list Z) * cache) (st : enc_state) : res (list Z) * enc_state :=
  match es_cache st with
  | Some (sc', b) => let (r, c') := f sc' (Some b) in (r, mkEnc (es_reg st) (with_schema sc' c'))
  | None => let (r, c') := f (es_reg st) None in (r, mkEnc (es_reg st) (with_schema (es_reg st) c'))
  end.

Definition encode_e (ffmt : Z -> Z -> list Z) (c : cfg) (fuel : nat) (id : Z) (v : rval)
    (st : enc_state) : res (list Z) * enc_state :=
  apply_e (fun sc => encode ffmt c sc fuel id v) st.

Definition encode_list_e (ffmt : Z -> Z -> list Z) (c : cfg) (fuel : nat) (id : Z) (l : rval)
    (st : enc_state) : res (list Z) * enc_state :=
  apply_e (fun sc => encode_list ffmt c sc fuel id l) st.

Inductive enc_op : Type :=
| OpEncode (id : Z) (v : rval)
| OpEncodeList (id : Z) (l : rval)
| OpUse (reg : schema).

Definition enc_step (ffmt : Z -> Z -> list Z) (c : cfg) (inval : bool) (fuel : nat) (o : enc_op)
    (st : enc_state) : enc_state :=
  match o with
  | OpEncode id v => snd (encode_e ffmt c fuel id v st)
  | OpEncodeList id l => snd (encode_list_e ffmt c fuel id l st)
  | OpUse reg => use_registry inval reg st
  end.

Fixpoint run_ops (ffmt : Z -> Z -> list Z) (c : cfg) (inval : bool) (fuel : nat) (ops : list enc_op)
    (st : enc_state) : enc_state :=
  match ops with
  | [] => st
  | o :: r => run_ops ffmt c inval fuel r (enc_step ffmt c inval fuel o st)
  end.
