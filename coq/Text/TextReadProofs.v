(* C01 / C02 for the text encoder composed with the reader model (Text/TextRead.v):
   for ALL segment bytes, all well-formed schemas, all limits:
     render_r_no_panic        never [RPanic];
     render_r_reads_wf        every Core accessor call it makes has a well-formed receiver
                              (so C01_accessor_safe applies to each: in-segment results);
     render_r_budget          the bytes handed out by its dereferences + the budget left <= the
                              budget it started with (<= T), the budget never goes negative;
     render_r_no_fuel_partial with fuel >= fuel_for G D it never returns [RFuel] on any message
                              (cyclic ones included) PROVIDED the walks of the schema's own default
                              values do not (hypothesis [dflt_total]; that is TextM's walk over the
                              trusted schema message, C20).
   One induction on fuel proves all four ([sat nf]). *)
From CV Require Import Core.SafetyProofs Core.LimitProofs Text.TextRead.
From Coq Require Import ZifyBool ZifyNat.
Open Scope Z_scope.
Ltac Zify.zify_post_hook ::= Z.div_mod_to_equations.

Lemma lookup_in : forall ns id n, TM.lookup ns id = Some n -> In (id, n) ns.
Proof.
  induction ns as [|[k n0] r IH]; intros id n H; cbn in H; [discriminate|].
  destruct (k =? id) eqn:E.
  - inversion H. subst. left. f_equal. lia.
  - right. apply IH. assumption.
Qed.

Lemma grp_ok_all sc0 g id :
  (forall kn, In kn (TM.s_nodes sc0) -> grp_ok sc0 (S g) (fst kn) = true) -> grp_ok sc0 (S g) id = true.
Proof.
  intros H. cbn [grp_ok]. destruct (TM.lookup (TM.s_nodes sc0) id) as [n|] eqn:L; [|reflexivity].
  pose proof (lookup_in _ _ _ L) as Hin. specialize (H _ Hin). cbn [fst grp_ok] in H. rewrite L in H. exact H.
Qed.

Section Proofs.
Variable ffmt : Z -> Z -> list Z.
Variable sc : TM.schema.
Variable c : config.
Variable fx : fixes.
Variable m : segs.
Variable rd : list Z -> Z -> TM.rval -> TM.res TS.tval.
Variable rdl : list Z -> TM.ty -> TM.rval -> TM.res TS.tval.
Variable G : nat.

Hypothesis Hm : msg_ok m.
Hypothesis Hstrict : cfg_strict c = true.
Hypothesis Hbit : fx_bit fx = true.
Hypothesis Hdepth : fx_depth fx = true.
Hypothesis Hsc : schema_wf G sc = true.
Hypothesis HG : (1 <= G)%nat.

Definition dflt_total : Prop :=
  (forall exp sid v, rd exp sid v <> TM.OutOfFuel) /\ (forall exp e v, rdl exp e v <> TM.OutOfFuel).

(* ------------------------------------------------------------------ the predicate transformer *)
Definition inv (s : rst) : Prop := 0 <= r_rl s /\ Forall (wf_ptr m) (r_log s).
Definition step_ok (s s' : rst) : Prop :=
  inv s' /\ r_rl s' + r_h s' <= r_rl s + r_h s /\ r_h s <= r_h s' /\ r_d s <= r_d s'.
Definition sat {A} (nf : bool) (x : RM A) (P : A -> Prop) : Prop :=
  forall s, inv s ->
    step_ok s (snd (x s)) /\
    match fst (x s) with ROk a => P a | RErr => True | RPanic => False | RFuel => nf = false end.

Lemma step_refl s : inv s -> step_ok s s.
Proof. intros H. unfold step_ok. repeat split; try apply H; lia. Qed.
Lemma step_trans a b d : step_ok a b -> step_ok b d -> step_ok a d.
Proof. unfold step_ok. intros (H1 & H2 & H3 & H4) (G1 & G2 & G3 & G4). repeat split; try apply G1; lia. Qed.

Lemma sat_ret {A} nf (a : A) (P : A -> Prop) : P a -> sat nf (rret a) P.
Proof. intros H s Hs. cbn. split; [apply step_refl; assumption|assumption]. Qed.
Lemma sat_fail {A} nf (P : A -> Prop) : sat nf (@rfail A) P.
Proof. intros s Hs. cbn. split; [apply step_refl; assumption|exact I]. Qed.
Lemma sat_bind {A B} nf (x : RM A) (k : A -> RM B) (Q : A -> Prop) (P : B -> Prop) :
  sat nf x Q -> (forall a, Q a -> sat nf (k a) P) -> sat nf (rbind x k) P.
Proof.
  intros Hx Hk s Hs. unfold rbind. specialize (Hx s Hs). destruct (x s) as [o s1]. cbn [fst snd] in Hx.
  destruct Hx as [H1 H2]. destruct o as [a| | |]; cbn [fst snd]; try (split; assumption).
  specialize (Hk a H2 s1 ltac:(apply H1)). destruct Hk as [K1 K2]. split; [|assumption].
  eapply step_trans; eassumption.
Qed.
Lemma sat_weaken {A} nf (x : RM A) (P Q : A -> Prop) : sat nf x P -> (forall a, P a -> Q a) -> sat nf x Q.
Proof.
  intros Hx H s Hs. specialize (Hx s Hs). destruct Hx as [H1 H2]. split; [assumption|].
  destruct (fst (x s)); auto.
Qed.

Lemma sat_acc {A} nf (p : Ptr) (r : res A) (P : A -> Prop) :
  wf_ptr m p -> res_sat r P -> sat nf (acc p r) P.
Proof.
  intros Hp Hr s [Hs1 Hs2]. unfold acc. cbn [fst snd]. split.
  - unfold step_ok, inv. cbn [r_rl r_h r_d r_log]. repeat split; try lia. constructor; assumption.
  - destruct r; cbn in *; auto.
Qed.

Lemma sat_deref nf (p : Ptr) (x : Z -> res Ptr * Z) (P : Ptr -> Prop) :
  wf_ptr m p ->
  (forall rl, 0 <= rl -> charged rl (x rl) /\ res_sat (fst (x rl)) P) ->
  sat nf (deref p x) P.
Proof.
  intros Hp Hx s [Hs1 Hs2]. unfold deref. destruct (Hx (r_rl s) Hs1) as [[[C1 C1'] C2] C3].
  destruct (x (r_rl s)) as [r rl']. cbn [fst snd] in *.
  assert (Forall (wf_ptr m) (p :: r_log s)) as HL by (constructor; assumption).
  destruct r as [q| |]; cbn [fst snd res_sat] in *.
  - split; [|assumption]. unfold step_ok, inv. cbn [r_rl r_h r_d r_log].
    change (rsize q) with (readSize q). pose proof (readSize_nonneg q).
    repeat split; try assumption; try lia. destruct (p_valid q); lia.
  - split; [|exact I]. unfold step_ok, inv. cbn [r_rl r_h r_d r_log]. repeat split; try assumption; lia.
  - contradiction.
Qed.

Lemma sat_dflt nf r : (nf = true -> r <> TM.OutOfFuel) -> sat nf (of_dflt r) (fun _ => True).
Proof.
  intros H s Hs. unfold of_dflt. cbn [fst snd]. split; [apply step_refl; assumption|].
  destruct r; try exact I. destruct nf; [exfalso; apply H; reflexivity|reflexivity].
Qed.

Lemma sat_for_each {A} nf (f : Z -> RM A) (P : A -> Prop) : forall n i,
  (forall j, i <= j < i + Z.of_nat n -> sat nf (f j) P) -> sat nf (for_each n i f) (Forall P).
Proof.
  induction n as [|n IH]; intros i H; cbn [for_each].
  - apply sat_ret. constructor.
  - eapply sat_bind; [apply H; lia|]. intros a Ha.
    eapply sat_bind; [apply IH; intros j Hj; apply H; lia|]. intros r Hr.
    apply sat_ret. constructor; assumption.
Qed.

Lemma sat_fields nf (step : TM.field -> RM (option TS.tval)) : forall fields,
  (forall fd, In fd fields -> sat nf (step fd) (fun _ => True)) ->
  sat nf (fields_r step fields) (fun _ => True).
Proof.
  induction fields as [|fd r IH]; intros H; cbn [fields_r].
  - apply sat_ret. exact I.
  - eapply sat_bind; [apply H; left; reflexivity|]. intros o _.
    eapply sat_bind; [apply IH; intros; apply H; right; assumption|]. intros fs _.
    apply sat_ret. exact I.
Qed.

Lemma sat_enum nf id v : sat nf (enum_r sc id v) (fun _ => True).
Proof.
  unfold enum_r. destruct (TM.lookup _ _) as [[| |]|]; try apply sat_fail.
  dif; [apply sat_ret; exact I|]. destruct (nth_error _ _) as [[name ?]|]; [apply sat_ret; exact I|apply sat_fail].
Qed.
Lemma sat_enum_lenient nf id v : sat nf (enum_lenient sc id v) (fun _ => True).
Proof.
  intros s Hs. unfold enum_lenient. pose proof (sat_enum nf id v s Hs) as H.
  destruct (enum_r sc id v s) as [o s']. cbn [fst snd] in *. destruct o; cbn [fst snd]; try assumption.
Qed.

(* ------------------------------------------------------------------ schema facts *)
Lemma lookup_node_ok id n : TM.lookup (TM.s_nodes sc) id = Some n -> node_ok n = true.
Proof.
  intros L. apply lookup_in in L. pose proof Hsc as H. unfold schema_wf in H. rewrite forallb_forall in H.
  specialize (H _ L). cbn [fst snd] in H. apply andb_prop in H. apply H.
Qed.

Lemma wf_grp id : grp_ok sc G id = true.
Proof.
  replace G with (S (pred G)) by lia. apply grp_ok_all. intros kn Hin.
  replace (S (pred G)) with G by lia. pose proof Hsc as H. unfold schema_wf in H. rewrite forallb_forall in H.
  specialize (H _ Hin). apply andb_prop in H. apply H.
Qed.

(* ------------------------------------------------------------------ pointers *)
Definition dok (p : Ptr) : Prop := p_valid p = true -> 0 <= p_depth p.
Definition dep (p : Ptr) : Z := if p_valid p then p_depth p else 0.
Definition K : Z := Z.of_nat G + 3.

(* what a dereference from receiver [p] hands out *)
Definition child_of (p q : Ptr) : Prop :=
  wf_ptr m q /\ (p_valid q = true -> p_valid p = true /\ 1 <= p_depth p /\ 0 <= p_depth q <= p_depth p - 1).

Lemma sat_ptr_field nf p off : wf_struct m p -> dok p -> sat nf (ptr_field c m p off) (child_of p).
Proof.
  intros Hw Hd. unfold ptr_field. apply sat_deref; [apply Hw|]. intros rl Hrl. split.
  - apply struct_ptr_charge. assumption.
  - pose proof (struct_ptr_safe c m rl p (off mod 65536) Hm Hw ltac:(lia)) as Hs.
    destruct (fst (struct_ptr c m rl p (off mod 65536))) as [q| |] eqn:E; cbn [res_sat] in *; auto.
    split; [auto|]. intros V. destruct (p_valid p) eqn:Vp.
    + pose proof (struct_ptr_depth c m rl p (off mod 65536) q (Hd Vp) E V) as H. rewrite Vp in H. exact H.
    + unfold struct_ptr in E. rewrite Vp in E. cbn in E. inversion E. subst q. discriminate.
Qed.

Lemma sat_ptr_elem nf l i : wf_list m l -> dok l -> 0 <= i < list_len l ->
  sat nf (ptr_elem c fx m l i) (child_of l).
Proof.
  intros Hw Hd Hi. unfold ptr_elem. apply sat_deref; [apply Hw|]. intros rl Hrl. split.
  - apply ptrlist_at_charge. assumption.
  - pose proof (ptrlist_at_safe c (fx_upgrade fx) m rl l i Hm Hw Hi) as Hs.
    destruct (fst (ptrlist_at c (fx_upgrade fx) m rl l i)) as [q| |] eqn:E; cbn [res_sat] in *; auto.
    split; [auto|]. intros V. apply list_len_valid in Hi. destruct Hi as [Vl _].
    eapply ptrlist_at_depth; eauto.
Qed.

Lemma is_struct_wf q : wf_ptr m q -> is_struct q = true -> wf_struct m q /\ p_valid q = true.
Proof.
  intros Hw H. unfold is_struct in H. apply andb_prop in H. destruct H as [V Hk].
  split; [|assumption]. split; [assumption|]. intros _. destruct (p_kind q); try discriminate. reflexivity.
Qed.
Lemma is_list_wf q : wf_ptr m q -> is_list q = true -> wf_list m q /\ p_valid q = true.
Proof.
  intros Hw H. unfold is_list in H. apply andb_prop in H. destruct H as [V Hk].
  split; [|assumption]. split; [assumption|]. intros _. destruct (p_kind q); try discriminate. reflexivity.
Qed.

Lemma off_ok_range off n : off_ok off n = true -> 0 <= n <= 8 -> 0 <= u32 (off * n) < 524288.
Proof.
  unfold off_ok. intros H Hn. apply andb_prop in H. destruct H as [H1 H2].
  rewrite u32_id; nia.
Qed.

Lemma sat_data_field nf p off n : wf_struct m p -> off_ok off n = true -> 0 <= n <= 8 ->
  sat nf (data_field m p off n) (fun _ => True).
Proof.
  intros Hw Ho Hn. unfold data_field. apply sat_acc; [apply Hw|].
  pose proof (struct_uint_safe m p (u32 (off * n)) n Hm Hw (off_ok_range off n Ho Hn) Hn) as H.
  destruct (struct_uint m p (u32 (off * n)) n); cbn; auto.
Qed.

Lemma width_div b : width_ok b = true -> 0 <= b / 8 <= 8.
Proof. unfold width_ok. intros H. lia. Qed.
Lemma fwidth_div b : (b =? 32) || (b =? 64) = true -> 0 <= b / 8 <= 8.
Proof. intros H. lia. Qed.

Lemma res_nopanic_sat {A} (r : res A) : r <> Panic -> res_sat r (fun _ => True).
Proof. destruct r; cbn; auto. Qed.

(* ------------------------------------------------------------------ one slot *)
Lemma sat_slot nf rs rl exp p off t dflt dptr :
  wf_struct m p -> dok p -> slot_ok off t = true ->
  (nf = true -> dflt_total) ->
  (forall sid q, wf_struct m q -> p_valid q = true -> p_valid p = true ->
                 1 <= p_depth p -> 0 <= p_depth q <= p_depth p - 1 -> sat nf (rs exp sid q) (fun _ => True)) ->
  (forall e q, ty_ok e = true -> wf_list m q -> p_valid q = true -> p_valid p = true ->
               1 <= p_depth p -> 0 <= p_depth q <= p_depth p - 1 -> sat nf (rl e q) (fun _ => True)) ->
  sat nf (slot_r ffmt sc c m rd rdl rs rl exp p off t dflt dptr) (fun _ => True).
Proof.
  intros Hw Hd Hok Hdt Hrs Hrl. unfold slot_ok in Hok. apply andb_prop in Hok. destruct Hok as [Hty Hoff].
  destruct t; cbn [slot_r]; cbn [ty_ok] in Hty; cbv beta iota in Hoff.
  - apply sat_ret; exact I.
  - eapply sat_bind; [|intros; apply sat_ret; exact I].
    apply sat_acc; [apply Hw|]. apply res_nopanic_sat. apply struct_bit_safe; auto. lia.
  - eapply sat_bind; [apply sat_data_field; auto; apply width_div; exact Hty|intros; apply sat_ret; exact I].
  - eapply sat_bind; [apply sat_data_field; auto; apply width_div; exact Hty|intros; apply sat_ret; exact I].
  - eapply sat_bind; [apply sat_data_field; auto; apply fwidth_div; exact Hty|intros; apply sat_ret; exact I].
  - (* text *)
    eapply sat_bind; [apply sat_ptr_field; assumption|]. intros q [Hq _].
    eapply sat_bind with (Q := fun _ => True); [|intros; apply sat_ret; exact I].
    apply sat_acc; [assumption|]. eapply res_sat_weaken; [apply ptr_text_safe; assumption|auto].
  - (* data *)
    eapply sat_bind; [apply sat_ptr_field; assumption|]. intros q [Hq _].
    eapply sat_bind with (Q := fun _ => True); [|intros; apply sat_ret; exact I].
    apply sat_acc; [assumption|]. eapply res_sat_weaken; [apply ptr_data_safe; assumption|auto].
  - (* list *)
    eapply sat_bind; [apply sat_ptr_field; assumption|]. intros q [Hq Hdq].
    destruct (is_list q) eqn:E.
    + destruct (is_list_wf q Hq E) as [Hwl V]. destruct (Hdq V) as (Vp & H1 & H2). apply Hrl; assumption.
    + apply sat_dflt. intros Hn. apply (Hdt Hn).
  - (* enum *)
    eapply sat_bind; [apply sat_data_field; auto; lia|]. intros v _. apply sat_enum.
  - (* struct *)
    eapply sat_bind; [apply sat_ptr_field; assumption|]. intros q [Hq Hdq].
    destruct (is_struct q) eqn:E.
    + destruct (is_struct_wf q Hq E) as [Hws V]. destruct (Hdq V) as (Vp & H1 & H2). apply Hrs; assumption.
    + destruct (existsb _ _); [apply sat_ret; exact I|]. apply sat_dflt. intros Hn. apply (Hdt Hn).
  - (* interface *)
    eapply sat_bind; [|intros; apply sat_ret; exact I].
    apply sat_acc; [apply Hw|]. apply res_nopanic_sat. apply struct_hasptr_safe; auto. lia.
  - apply sat_ret; exact I.
Qed.

(* ------------------------------------------------------------------ one list element of text / data *)
Lemma sat_bytes_elem nf text l i : wf_list m l -> dok l -> 0 <= i < list_len l ->
  sat nf (bytes_elem c fx m text l i) (fun _ => True).
Proof.
  intros Hw Hd Hi s Hs. unfold bytes_elem.
  pose proof (sat_ptr_elem nf l i Hw Hd Hi s Hs) as H.
  destruct (ptr_elem c fx m l i s) as [o s1]. cbn [fst snd] in H. destruct H as [H1 H2].
  destruct o as [q| | |]; cbn [fst snd]; try (split; [assumption|auto]).
  destruct H2 as [Hq _].
  assert (sat nf (o <-- acc q (if text then ptr_text m q else ptr_data m q) ;;
                  rret (TS.TvStr (match o with Some b => b | None => [] end))) (fun _ => True)) as Hk.
  { eapply sat_bind with (Q := fun _ => True); [|intros; apply sat_ret; exact I]. apply sat_acc; [assumption|].
    destruct text; (eapply res_sat_weaken; [first [apply ptr_text_safe|apply ptr_data_safe]; assumption|auto]). }
  specialize (Hk s1 ltac:(apply H1)). destruct Hk as [K1 K2]. split; [|assumption].
  eapply step_trans; eassumption.
Qed.

(* ------------------------------------------------------------------ the walk *)
Definition need_s (nf : bool) (fuel : nat) (id : Z) (p : Ptr) : Prop :=
  nf = true -> dflt_total /\
    exists g : nat, grp_ok sc g id = true /\ (g <= G)%nat /\ K * dep p + Z.of_nat g + 1 <= Z.of_nat fuel.
Definition need_l (nf : bool) (fuel : nat) (l : Ptr) : Prop :=
  nf = true -> dflt_total /\ (1 <= fuel)%nat /\
    (p_valid l = true -> K * p_depth l + Z.of_nat G + 2 <= Z.of_nat fuel).

Lemma list_len_idx l j : 0 <= j < 0 + Z.of_nat (len_nat l) -> 0 <= j < list_len l.
Proof. unfold len_nat. lia. Qed.

Lemma walk_sat nf : forall fuel,
  (forall exp id p, wf_struct m p -> dok p -> need_s nf fuel id p ->
     sat nf (struct_r ffmt sc c fx m rd rdl fuel exp id p) (fun _ => True)) /\
  (forall exp e l, wf_list m l -> dok l -> ty_ok e = true -> need_l nf fuel l ->
     sat nf (list_r ffmt sc c fx m rd rdl fuel exp e l) (fun _ => True)).
Proof.
  induction fuel as [|f [IHs IHl]].
  { split.
    - intros exp id p Hw Hd Hn s Hs. cbn. split; [apply step_refl; assumption|].
      destruct nf; [|reflexivity]. exfalso. destruct (Hn eq_refl) as [_ (g & _ & _ & H)].
      unfold dep, K in H. unfold dok in Hd. destruct (p_valid p); [specialize (Hd eq_refl)|]; nia.
    - intros exp e l Hw Hd Hty Hn s Hs. cbn. split; [apply step_refl; assumption|].
      destruct nf; [|reflexivity]. exfalso. destruct (Hn eq_refl) as [_ [H _]]. lia. }
  split.
  - (* marshalStruct *)
    intros exp id p Hw Hd Hn. cbn [struct_r].
    destruct (TM.lookup (TM.s_nodes sc) id) as [n|] eqn:L; [|apply sat_fail].
    pose proof (lookup_node_ok id n L) as Hno.
    destruct n as [dcount doff fcost fields| |]; try apply sat_fail.
    cbn [node_ok] in Hno. apply andb_prop in Hno. destruct Hno as [Hdo Hfs]. rewrite forallb_forall in Hfs.
    eapply sat_bind with (Q := fun _ => True).
    { destruct (0 <? dcount); [apply sat_data_field; auto; lia|apply sat_ret; exact I]. }
    intros disc _. eapply sat_bind; [|intros; apply sat_ret; exact I].
    apply sat_fields. intros fd Hin. specialize (Hfs fd Hin). unfold field_ok in Hfs.
    destruct (TM.f_kind fd) as [off t dflt dptr tc dvc dpc|gid|] eqn:Ek; cbv beta iota.
    + (* slot *)
      destruct (negb _); [apply sat_ret; exact I|].
      eapply sat_bind; [|intros; apply sat_ret; exact I].
      apply sat_slot; try assumption.
      * intros Hnf. apply (Hn Hnf).
      * intros sid q Hwq Vq Vp H1 H2. apply IHs; [assumption|intros _; lia|].
        intros Hnf. destruct (Hn Hnf) as [Hdt (g & Hg & Hgl & Hfu)]. split; [assumption|].
        exists G. split; [apply wf_grp|]. split; [lia|]. unfold dep in *. rewrite Vq. rewrite Vp in Hfu.
        unfold K in *. nia.
      * intros e q Hte Hwq Vq Vp H1 H2. apply IHl; [assumption|intros _; lia|assumption|].
        intros Hnf. destruct (Hn Hnf) as [Hdt (g & Hg & Hgl & Hfu)]. split; [assumption|].
        unfold dep in Hfu. rewrite Vp in Hfu. unfold K in *. split; [lia|]. intros _. nia.
    + (* group: the same struct *)
      destruct (negb _); [apply sat_ret; exact I|].
      eapply sat_bind; [|intros; apply sat_ret; exact I].
      apply IHs; [assumption|assumption|].
      intros Hnf. destruct (Hn Hnf) as [Hdt (g & Hg & Hgl & Hfu)]. split; [assumption|].
      destruct g as [|g']; [discriminate|]. cbn [grp_ok] in Hg. rewrite L in Hg. rewrite forallb_forall in Hg.
      specialize (Hg fd Hin). rewrite Ek in Hg. exists g'. split; [assumption|]. split; lia.
    + apply sat_ret; exact I.
  - (* marshalList *)
    intros exp e l Hw Hd Hty Hn. cbn [list_r]. cbv zeta.
    assert (forall j, 0 <= j < list_len l -> p_valid l = true /\ 0 <= p_depth l /\
              (nf = true -> dflt_total /\ K * p_depth l + Z.of_nat G + 1 <= Z.of_nat f)) as Hv.
    { intros j Hj. apply list_len_valid in Hj. destruct Hj as [V _]. split; [assumption|].
      split; [apply Hd; assumption|]. intros Hnf. destruct (Hn Hnf) as (Hdt & _ & H). specialize (H V).
      split; [assumption|lia]. }
    assert (forall n, 0 <= n -> forall j, 0 <= j < 0 + Z.of_nat (len_nat l) ->
              sat nf (acc l (list_uint_at (fx_upgrade fx) m l j n)) (fun _ => True)) as Hu.
    { intros n Hn0 j Hj. apply list_len_idx in Hj. apply sat_acc; [apply Hw|].
      eapply res_sat_weaken; [apply list_uint_at_safe; auto|intros; exact I]. }
    destruct e; cbn [ty_ok] in Hty.
    + apply sat_ret; exact I.
    + eapply sat_bind; [|intros; apply sat_ret; exact I]. apply sat_for_each. intros j Hj.
      apply list_len_idx in Hj. apply sat_acc; [apply Hw|]. rewrite Hbit. apply res_nopanic_sat.
      apply bitlist_at_safe; auto.
    + eapply sat_bind; [|intros; apply sat_ret; exact I]. apply sat_for_each. apply Hu. apply width_div; assumption.
    + eapply sat_bind; [|intros; apply sat_ret; exact I]. apply sat_for_each. apply Hu. apply width_div; assumption.
    + eapply sat_bind; [|intros; apply sat_ret; exact I]. apply sat_for_each. apply Hu. apply fwidth_div; assumption.
    + eapply sat_bind; [|intros; apply sat_ret; exact I]. apply sat_for_each. intros j Hj.
      apply list_len_idx in Hj. apply sat_bytes_elem; assumption.
    + eapply sat_bind; [|intros; apply sat_ret; exact I]. apply sat_for_each. intros j Hj.
      apply list_len_idx in Hj. apply sat_bytes_elem; assumption.
    + (* list of lists *)
      eapply sat_bind; [|intros; apply sat_ret; exact I]. apply sat_for_each. intros j Hj.
      apply list_len_idx in Hj. destruct (Hv j Hj) as (Vl & Hdl & Hfu).
      eapply sat_bind; [apply sat_ptr_elem; assumption|]. intros q [Hq Hdq].
      apply IHl; [apply wf_list_as_list; assumption| |assumption|].
      * intros V. apply as_list_valid in V. destruct V as [-> V]. destruct (Hdq V) as (_ & _ & H). lia.
      * intros Hnf. destruct (Hfu Hnf) as [Hdt Hf]. split; [assumption|]. unfold K in *. split; [nia|].
        intros V. apply as_list_valid in V. destruct V as [-> V]. destruct (Hdq V) as (_ & H1 & H2). nia.
    + (* enums *)
      eapply sat_bind; [|intros; apply sat_ret; exact I]. apply sat_for_each. intros j Hj.
      eapply sat_bind; [apply Hu; [lia|assumption]|]. intros v _. apply sat_enum_lenient.
    + (* list of structs *)
      eapply sat_bind; [|intros; apply sat_ret; exact I]. apply sat_for_each. intros j Hj.
      apply list_len_idx in Hj. destruct (Hv j Hj) as (Vl & Hdl & Hfu).
      eapply sat_bind with (Q := fun q => wf_struct m q /\
          (p_valid q = true -> 0 <= p_depth q /\ (p_depth q <= p_depth l - 1 \/ (p_depth l = 0 /\ p_depth q = 0)))).
      { apply sat_acc; [apply Hw|]. pose proof (list_struct_safe (fx_depth fx) m l j Hm Hw Hj) as Hs.
        rewrite Hdepth in *. destruct (list_struct true l j) as [q| |] eqn:E; cbn [res_sat] in *; auto.
        split; [assumption|]. intros V. destruct (list_struct_depth' l j q Hdl E V) as (_ & H1 & H2). auto. }
      intros q [Hwq Hdq]. apply IHs; [assumption|intros V; apply (Hdq V)|].
      intros Hnf. destruct (Hfu Hnf) as [Hdt Hf]. split; [assumption|].
      exists G. split; [apply wf_grp|]. split; [lia|]. unfold dep, K in *.
      destruct (p_valid q); [destruct (Hdq eq_refl) as [H0 [H1|[H1 H2]]]; nia|nia].
    + (* interfaces *)
      eapply sat_bind; [|intros; apply sat_ret; exact I]. apply sat_for_each with (P := fun _ => True). intros j Hj.
      apply list_len_idx in Hj. destruct (Hv j Hj) as (Vl & Hdl & Hfu).
      eapply sat_bind; [apply sat_ptr_elem; assumption|]. intros q _. apply sat_ret; exact I.
    + apply sat_ret; exact I.
Qed.


(* ------------------------------------------------------------------ text.Marshal *)
Definition final_ok (rl : Z) (s : rst) : Prop :=
  Forall (wf_ptr m) (r_log s) /\ 0 <= r_rl s /\ 0 <= r_h s /\ 0 <= r_d s /\ r_rl s + r_h s <= rl.

Lemma shown_r_sat nf fuel id p rl D :
  wf_ptr m p -> (p_valid p = true -> 0 <= p_depth p) -> 0 <= rl ->
  (nf = true -> dflt_total /\ (fuel_for G D <= fuel)%nat /\ (p_valid p = true -> p_depth p <= D) /\ 0 <= D) ->
  let r := shown_r ffmt sc c fx m rd rdl fuel id p rl in
  final_ok rl (snd r) /\
  match fst r with ROk _ => True | RErr => True | RPanic => False | RFuel => nf = false end.
Proof.
  intros Hw Hd Hrl Hn. unfold shown_r.
  assert (dok (as_struct p)) as Hd'.
  { intros V. apply as_struct_valid in V. destruct V as [-> V]. auto. }
  destruct (walk_sat nf fuel) as [Ws _].
  specialize (Ws [] id (as_struct p) (wf_struct_as_struct m p Hw) Hd').
  assert (need_s nf fuel id (as_struct p)) as Hns.
  { intros Hnf. destruct (Hn Hnf) as (Hdt & Hf & Hpd & HD). split; [assumption|].
    exists G. split; [apply wf_grp|]. split; [lia|]. unfold fuel_for in Hf. unfold dep, K.
    destruct (p_valid (as_struct p)) eqn:V.
    - apply as_struct_valid in V. destruct V as [E V]. rewrite E. specialize (Hpd V). specialize (Hd V). nia.
    - nia. }
  assert (inv (mkRst rl 0 0 [])) as Hi by (split; cbn [r_rl r_log]; [assumption|constructor]).
  specialize (Ws Hns (mkRst rl 0 0 []) Hi). cbv zeta.
  destruct Ws as [[[I1 I2] [S2 [S3 S4]]] R].
  cbn [r_rl r_h r_d] in *. split; [|exact R]. unfold final_ok. repeat split; try assumption; lia.
Qed.
End Proofs.

Section Top.
Variable ffmt : Z -> Z -> list Z.
Variable sc : TM.schema.
Variable c : config.
Variable fx : fixes.
Variable m : segs.
Variable rd : list Z -> Z -> TM.rval -> TM.res TS.tval.
Variable rdl : list Z -> TM.ty -> TM.rval -> TM.res TS.tval.

(* standing hypotheses: the message is a list of byte segments of admissible length; the
   repaired reader (as C01 / C02); a well-formed schema; the receiver is a pointer the reader
   handed out (well-formed, unsigned depth limit) *)
Definition std_hyps (G : nat) (p : Ptr) (rl : Z) : Prop :=
  msg_ok m /\ cfg_strict c = true /\ fx_bit fx = true /\ fx_depth fx = true /\
  schema_wf G sc = true /\ (1 <= G)%nat /\
  wf_ptr m p /\ (p_valid p = true -> 0 <= p_depth p) /\ 0 <= rl.

Lemma render_fst fuel id p rl :
  fst (render_r ffmt sc c fx m rd rdl fuel id p rl) =
  match fst (shown_r ffmt sc c fx m rd rdl fuel id p rl) with
  | ROk t => ROk (TM.print t) | RErr => RErr | RPanic => RPanic | RFuel => RFuel end.
Proof. unfold render_r. destruct (shown_r _ _ _ _ _ _ _ _ _ _ _) as [[| | |] s]; reflexivity. Qed.
Lemma render_snd fuel id p rl :
  snd (render_r ffmt sc c fx m rd rdl fuel id p rl) = snd (shown_r ffmt sc c fx m rd rdl fuel id p rl).
Proof. unfold render_r. destruct (shown_r _ _ _ _ _ _ _ _ _ _ _) as [[| | |] s]; reflexivity. Qed.

(* (a) never a panic: all segment bytes, all well-formed schemas, all limits, ALL fuel *)
Theorem render_r_no_panic G fuel id p rl : std_hyps G p rl ->
  fst (render_r ffmt sc c fx m rd rdl fuel id p rl) <> RPanic.
Proof.
  intros (H1 & H2 & H3 & H4 & H5 & H6 & H7 & H8 & H9).
  pose proof (shown_r_sat ffmt sc c fx m rd rdl G H1 H2 H3 H4 H5 H6 false fuel id p rl 0 H7 H8 H9
                ltac:(discriminate)) as [_ R].
  rewrite render_fst. destruct (fst (shown_r _ _ _ _ _ _ _ _ _ _ _)); try discriminate. contradiction.
Qed.

(* (c) every Core accessor call made during the walk has a well-formed receiver, and
   (d, bytes) the budget never goes negative and budget left + bytes handed out <= budget at the start *)
Theorem render_r_reads_wf_budget G fuel id p rl : std_hyps G p rl ->
  let s := snd (render_r ffmt sc c fx m rd rdl fuel id p rl) in
  Forall (wf_ptr m) (r_log s) /\ 0 <= r_rl s /\ 0 <= r_h s /\ 0 <= r_d s /\ r_rl s + r_h s <= rl.
Proof.
  intros (H1 & H2 & H3 & H4 & H5 & H6 & H7 & H8 & H9).
  pose proof (shown_r_sat ffmt sc c fx m rd rdl G H1 H2 H3 H4 H5 H6 false fuel id p rl 0 H7 H8 H9
                ltac:(discriminate)) as [F _].
  cbv zeta. rewrite render_snd. exact F.
Qed.

(* (b) fuel_for G D suffices on every message, cyclic ones included, for a receiver whose depth
   limit is at most D - PROVIDED the walks of the schema's own default values are total
   (dflt_total: TextM's walk over the trusted schema message; not proved here) *)
Theorem render_r_no_fuel_partial G D fuel id p rl : std_hyps G p rl ->
  dflt_total rd rdl -> 0 <= D -> (p_valid p = true -> p_depth p <= D) -> (fuel_for G D <= fuel)%nat ->
  fst (render_r ffmt sc c fx m rd rdl fuel id p rl) <> RFuel.
Proof.
  intros (H1 & H2 & H3 & H4 & H5 & H6 & H7 & H8 & H9) Hdt HD Hp Hf.
  pose proof (shown_r_sat ffmt sc c fx m rd rdl G H1 H2 H3 H4 H5 H6 true fuel id p rl D H7 H8 H9
                (fun _ => conj Hdt (conj Hf (conj Hp HD)))) as [_ R].
  rewrite render_fst. destruct (fst (shown_r _ _ _ _ _ _ _ _ _ _ _)); try discriminate.
Qed.
End Top.
