(* Well-formedness of the WHOLE output of the text encoder (not only of its string literals):
   every byte is printable ASCII, and the output is a concatenation of bytes other than the
   double quote and of literals [quote s] produced by the quoting function (strquote.Append) -
   every quote character of the output belongs to such a literal, whose inside is described by
   StrquoteProofs.quote_wellformed (quotes and backslashes only as escape sequences).
   Print level: for all value trees whose names / identifiers / markers / float tokens consist of
   printable bytes other than the double quote ([out_ok]; floats included).  Render level: for
   all float-free schemas with identifier names and all stored values (through shown_wf). *)
From CV Require Import Text.Strquote Text.TextSpec Text.StrquoteProofs Text.TextM Text.TextProofs.
From Coq Require Import Lia ZifyBool.
Open Scope Z_scope.

Definition plainc (c : Z) : Prop := printable c /\ c <> 34.
Definition plain (l : list Z) : Prop := Forall plainc l.

(* a sequence of non-quote bytes and whole literals *)
Inductive qstruct : list Z -> Prop :=
| qs_nil : qstruct []
| qs_plain c r : c <> 34 -> qstruct r -> qstruct (c :: r)
| qs_lit s r : bytes_ok s -> qstruct r -> qstruct (quote s ++ r).

Definition outw (l : list Z) : Prop := Forall printable l /\ qstruct l.

Fixpoint out_ok (t : tval) : Prop :=
  match t with
  | TvVoid | TvBool _ | TvInt _ => True
  | TvFloat tok => plain tok
  | TvStr s | TvData s => bytes_ok s
  | TvIdent n => plain n
  | TvMarker m => plain m
  | TvList l => out_oks l
  | TvStruct fs => out_okf fs
  end
with out_oks (l : tvals) : Prop :=
  match l with TNil => True | TCons v r => out_ok v /\ out_oks r end
with out_okf (fs : tfields) : Prop :=
  match fs with FNil => True | FCons n v r => plain n /\ out_ok v /\ out_okf r end.

Lemma qstruct_app : forall a b, qstruct a -> qstruct b -> qstruct (a ++ b).
Proof.
  intros a b Ha Hb. induction Ha as [|c r Hc _ IH|s r Hs _ IH]; [assumption| |].
  - cbn [app]. now constructor.
  - rewrite <- app_assoc. now constructor.
Qed.

Lemma outw_app : forall a b, outw a -> outw b -> outw (a ++ b).
Proof. intros a b [A1 A2] [B1 B2]. split; [apply Forall_app; now split|now apply qstruct_app]. Qed.

Lemma outw_nil : outw [].
Proof. split; constructor. Qed.

Lemma outw_plain : forall l, plain l -> outw l.
Proof.
  induction 1 as [|c r [Hp Hq] _ [IH1 IH2]]; [apply outw_nil|].
  split; [now constructor|now constructor].
Qed.

Lemma outw_cons : forall c l, plainc c -> outw l -> outw (c :: l).
Proof. intros c l Hc Hl. apply (outw_app [c] l); [|assumption]. apply outw_plain. now constructor. Qed.

Lemma outw_quote : forall s, bytes_ok s -> outw (quote s).
Proof.
  intros s Hs. split; [now apply quote_printable|].
  rewrite <- (app_nil_r (quote s)). constructor; [assumption|constructor].
Qed.

Lemma numchar_plain : forall c, is_numchar c = true -> plainc c.
Proof.
  intros c H. unfold is_numchar, is_idchar, is_alpha, is_digit in H. unfold plainc, printable. lia.
Qed.

Lemma idchar_plain : forall c, is_idchar c = true -> plainc c.
Proof. intros c H. apply numchar_plain. unfold is_numchar. rewrite H. reflexivity. Qed.

Lemma forallb_plain : forall p l, (forall c, p c = true -> plainc c) -> forallb p l = true -> plain l.
Proof.
  intros p l Hp H. unfold plain. rewrite Forall_forall. intros c Hc.
  apply Hp. rewrite forallb_forall in H. now apply H.
Qed.

Lemma plain_const : forall l, forallb (fun c => (32 <=? c) && (c <? 127) && negb (c =? 34)) l = true -> plain l.
Proof. intros l. apply forallb_plain. intros c H. unfold plainc, printable. lia. Qed.

Lemma plain_print_int : forall z, plain (print_int z).
Proof. intros z. eapply forallb_plain; [exact numchar_plain|apply print_int_numchar]. Qed.

(* ---- print level *)
Lemma print_outw_all :
  (forall t, out_ok t -> outw (print t)) /\
  (forall l, out_oks l -> forall first, outw (print_elems first l)) /\
  (forall fs, out_okf fs -> forall first, outw (print_fields first fs)).
Proof.
  apply tval_mutind.
  - intros _. apply outw_plain. apply plain_const. reflexivity.
  - intros [|] _; apply outw_plain; apply plain_const; reflexivity.
  - intros z _. apply outw_plain. apply plain_print_int.
  - intros tok H. now apply outw_plain.
  - intros s H. now apply outw_quote.
  - intros s H. now apply outw_quote.
  - intros n H. now apply outw_plain.
  - intros m H. now apply outw_plain.
  - intros l IH H. cbn [print]. cbn [out_ok] in H.
    apply outw_cons; [unfold plainc, printable; lia|].
    apply outw_app; [now apply IH|]. apply outw_plain. apply plain_const. reflexivity.
  - intros fs IH H. cbn [print]. cbn [out_ok] in H.
    apply outw_cons; [unfold plainc, printable; lia|].
    apply outw_app; [now apply IH|]. apply outw_plain. apply plain_const. reflexivity.
  - intros _ first. apply outw_nil.
  - intros v IHv r IHr [Hv Hr] first. cbn [print_elems].
    apply outw_app; [destruct first; [apply outw_nil|apply outw_plain; apply plain_const; reflexivity]|].
    apply outw_app; [now apply IHv|now apply IHr].
  - intros _ first. apply outw_nil.
  - intros n v IHv r IHr (Hn & Hv & Hr) first. cbn [print_fields].
    apply outw_app; [destruct first; [apply outw_nil|apply outw_plain; apply plain_const; reflexivity]|].
    apply outw_app; [now apply outw_plain|].
    apply outw_app; [apply outw_plain; apply plain_const; reflexivity|].
    apply outw_app; [now apply IHv|now apply IHr].
Qed.

Theorem print_printable : forall t, out_ok t -> Forall printable (print t).
Proof. intros t H. exact (proj1 (proj1 print_outw_all t H)). Qed.

Theorem print_quotes_balanced : forall t, out_ok t -> qstruct (print t).
Proof. intros t H. exact (proj2 (proj1 print_outw_all t H)). Qed.

(* the float-free fragment with identifier names is inside [out_ok] *)
Lemma wf_out_all :
  (forall t, wf_tval t -> out_ok t) /\ (forall l, wf_tvals l -> out_oks l) /\ (forall fs, wf_tfields fs -> out_okf fs).
Proof.
  apply tval_mutind; cbn [wf_tval wf_tvals wf_tfields out_ok out_oks out_okf]; try tauto.
  - intros n [[Hn _] _]. eapply forallb_plain; [exact idchar_plain|exact Hn].
  - intros m [->| ->]; apply plain_const; reflexivity.
  - intros n v IHv r IHr ([_ Hn] & Hv & Hr). split; [|split; auto].
    eapply forallb_plain; [exact idchar_plain|exact Hn].
Qed.

(* qstruct is not vacuous: a lone quote, or a literal cut short, is not of this shape *)
Lemma qstruct_inv_quote : forall l, qstruct l -> forall r, l = 34 :: r ->
  exists s r', bytes_ok s /\ l = quote s ++ r'.
Proof.
  intros l H. destruct H as [|c r0 Hc _|s r0 Hs _]; intros r E.
  - discriminate.
  - inversion E; subst. contradiction.
  - exists s, r0. split; [assumption|reflexivity].
Qed.

Example lone_quote_not_balanced : ~ qstruct [34].
Proof.
  intros H. destruct (qstruct_inv_quote _ H [] eq_refl) as (s & r' & Hs & E).
  destruct (quote_wellformed s Hs) as (body & Eq & _). rewrite Eq in E.
  cbn [app] in E. inversion E as [E']. destruct body; cbn [app] in E'; discriminate.
Qed.

(* ---- render level: all float-free schemas with identifier names, all stored values, all
   configurations and fuel: whatever Encode writes on success is printable ASCII throughout and
   every quote in it belongs to a literal of the quoting function *)
Theorem output_printable : forall ffmt c sc fuel id v out,
  schema_ok sc -> rval_ok v -> render ffmt c sc fuel id v = Ok out -> Forall printable out.
Proof.
  intros ffmt c sc fuel id v out Hsc Hv H.
  destruct (parse_render _ _ _ _ _ _ _ Hsc Hv H) as (t & _ & -> & Hw & _).
  apply print_printable. now apply (proj1 wf_out_all).
Qed.

Theorem output_quotes_balanced : forall ffmt c sc fuel id v out,
  schema_ok sc -> rval_ok v -> render ffmt c sc fuel id v = Ok out -> qstruct out.
Proof.
  intros ffmt c sc fuel id v out Hsc Hv H.
  destruct (parse_render _ _ _ _ _ _ _ Hsc Hv H) as (t & _ & -> & Hw & _).
  apply print_quotes_balanced. now apply (proj1 wf_out_all).
Qed.

Example ex2_value_ok : rval_ok ex2_value_t.
Proof. cbn. repeat split; intros _; repeat constructor; unfold byte_ok; lia. Qed.

Example output_example :
  exists out, render no_floats cfg_fixed ex2_schema 9 1 ex2_value_t = Ok out /\ Forall printable out /\ qstruct out.
Proof.
  destruct (render no_floats cfg_fixed ex2_schema 9 1 ex2_value_t) as [out| |] eqn:E;
    [|vm_compute in E; discriminate|vm_compute in E; discriminate].
  exists out. split; [reflexivity|].
  split; [eapply output_printable|eapply output_quotes_balanced]; try exact E;
    first [apply ex2_schema_ok|apply ex2_value_ok].
Qed.
