(* L1 model of /repo/encoding/text/marshal.go (marshalStruct, marshalFieldValue, marshalList,
   marshalEnum) and of the String methods of the typed lists (list.go) COMPOSED WITH THE READER
   MODEL Core/Reader.v: the value is not an abstract tree (as in Text/TextM.v) but a [Ptr] into
   arbitrary segment bytes [m]; every field is read with the Core accessor the Go code calls
   (Struct.Uint8..64 / Bit / Ptr / HasPtr, List.Struct, PointerList.At, UInt*List.At, BitList.At,
   Ptr.text / Ptr.Data), the traversal budget of the VALUE message is threaded through every
   pointer dereference, and every pointer carries its depth limit.

   The schema is TextM's schema representation.  Schema reads are free here (after the fix of
   F10 nodemap.Find re-arms the schema message's budget on every call; the schema budget is
   C20's subject, Text/TextM.v).  The DEFAULT VALUE of a pointer field lives in the schema
   message, not in the value message: it is TextM's abstract [rval] and the walk of a default
   (struct default of a null / wrong-kind struct pointer when the type is not already being
   defaulted - the code after fix 4b73eba -, list default of a null / wrong-kind list pointer)
   is delegated to the arguments [rd] / [rdl] (instantiated with TextM.shown_struct / shown_list
   at extraction).  Floats: the oracle [ffmt] as in TextM.

   Outcome: [ROk] value | [RErr] (Go returned an error) | [RPanic] (Go would panic) | [RFuel].
   State: remaining traversal budget of the value message + ghosts (number of successful
   pointer dereferences, bytes handed out, receivers of every accessor call).
   No proofs in this file. *)
From CV Require Export Core.ReadOps.
From CV Require Text.TextSpec Text.TextM.
Open Scope Z_scope.

Module TS := CV.Text.TextSpec.
Module TM := CV.Text.TextM.

(* ------------------------------------------------------------------ state, outcome, monad *)
Record rst : Type := mkRst {
  r_rl : Z;              (* Message.rlimit of the value message *)
  r_d : Z;               (* ghost: successful dereferences (a valid pointer was handed out) *)
  r_h : Z;               (* ghost: sum of the read sizes of the pointers handed out *)
  r_log : list Ptr }.    (* ghost: receiver of every Core accessor call, newest first *)

Inductive out (A : Type) : Type := ROk (a : A) | RErr | RPanic | RFuel.
Arguments ROk {A} a. Arguments RErr {A}. Arguments RPanic {A}. Arguments RFuel {A}.

Definition RM (A : Type) : Type := rst -> out A * rst.
Definition rret {A} (a : A) : RM A := fun s => (ROk a, s).
Definition rfail {A} : RM A := fun s => (RErr, s).
Definition rbind {A B} (x : RM A) (k : A -> RM B) : RM B :=
  fun s => match x s with
           | (ROk a, s') => k a s'
           | (RErr, s') => (RErr, s')
           | (RPanic, s') => (RPanic, s')
           | (RFuel, s') => (RFuel, s')
           end.
Notation "x <-- m ;; k" := (rbind m (fun x => k)) (at level 61, m at next level, right associativity).

Definition of_res {A} (r : res A) : out A :=
  match r with Ok a => ROk a | Err => RErr | Panic => RPanic end.

(* a Core accessor call on receiver [p] that does not dereference a pointer *)
Definition acc {A} (p : Ptr) (r : res A) : RM A :=
  fun s => (of_res r, mkRst (r_rl s) (r_d s) (r_h s) (p :: r_log s)).

(* what readPtr charges for the pointer it hands out (= LimitProofs.readSize) *)
Definition rsize (p : Ptr) : Z :=
  match p_kind p with
  | KStruct => struct_readSize p
  | KList => list_readSize p
  | KIface => 0
  end.

(* a Core accessor call on receiver [p] that dereferences a pointer (Struct.Ptr, PointerList.At) *)
Definition deref (p : Ptr) (x : Z -> res Ptr * Z) : RM Ptr :=
  fun s =>
    let '(r, rl') := x (r_rl s) in
    match r with
    | Ok q => (ROk q, mkRst rl' (r_d s + (if p_valid q then 1 else 0)) (r_h s + rsize q) (p :: r_log s))
    | Err => (RErr, mkRst rl' (r_d s) (r_h s) (p :: r_log s))
    | Panic => (RPanic, mkRst rl' (r_d s) (r_h s) (p :: r_log s))
    end.

(* the walk of a default value (TextM's walk over the schema's own value) *)
Definition of_dflt (r : TM.res TS.tval) : RM TS.tval :=
  fun s => (match r with TM.Ok t => ROk t | TM.Err _ => RErr | TM.OutOfFuel => RFuel end, s).

(* for i := i0; i < i0+n; i++ { f(i) }, stopping at the first error *)
Fixpoint for_each {A} (n : nat) (i : Z) (f : Z -> RM A) : RM (list A) :=
  match n with
  | O => rret []
  | S n' => a <-- f i ;; r <-- for_each n' (i + 1) f ;; rret (a :: r)
  end.

Fixpoint fields_r (step : TM.field -> RM (option TS.tval)) (fields : list TM.field) : RM TS.tfields :=
  match fields with
  | [] => rret TS.FNil
  | fd :: r =>
    o <-- step fd ;;
    fs <-- fields_r step r ;;
    rret (match o with Some v => TS.FCons (TM.f_name fd) v fs | None => fs end)
  end.

Definition marker_error : list Z := [60;101;114;114;111;114;62].   (* <error> *)

(* ------------------------------------------------------------------ schema well-formedness *)
(* group nesting below [id] ends within n levels (a group is rendered on the SAME struct: no
   pointer is dereferenced, so only the schema bounds that recursion) *)
Fixpoint grp_ok (sc : TM.schema) (n : nat) (id : Z) : bool :=
  match n with
  | O => false
  | S n' =>
    match TM.lookup (TM.s_nodes sc) id with
    | Some (TM.NStruct _ _ _ fields) =>
      forallb (fun fd => match TM.f_kind fd with TM.FGroup gid => grp_ok sc n' gid | _ => true end) fields
    | _ => true
    end
  end.

Definition width_ok (bits : Z) : bool := (bits =? 8) || (bits =? 16) || (bits =? 32) || (bits =? 64).
Fixpoint ty_ok (t : TM.ty) : bool :=
  match t with
  | TM.TInt b | TM.TUint b => width_ok b
  | TM.TFloat b => (b =? 32) || (b =? 64)
  | TM.TList _ e => ty_ok e
  | _ => true
  end.
(* byte offset of a data field: DataOffset < 2^19 (the documented domain of Struct.UintN) *)
Definition off_ok (off n : Z) : bool := (0 <=? off) && (off * n <? 524288).
Definition slot_ok (off : Z) (t : TM.ty) : bool :=
  ty_ok t &&
  match t with
  | TM.TInt b | TM.TUint b | TM.TFloat b => off_ok off (b / 8)
  | TM.TEnum _ => off_ok off 2
  | _ => 0 <=? off
  end.
Definition field_ok (fd : TM.field) : bool :=
  match TM.f_kind fd with TM.FSlot off t _ _ _ _ _ => slot_ok off t | _ => true end.
Definition node_ok (n : TM.node) : bool :=
  match n with
  | TM.NStruct _ doff _ fields => off_ok doff 2 && forallb field_ok fields
  | _ => true
  end.
(* decidable: every node has in-domain offsets / supported widths, and group nesting ends within G *)
Definition schema_wf (G : nat) (sc : TM.schema) : bool :=
  forallb (fun kn => node_ok (snd kn) && grp_ok sc G (fst kn)) (TM.s_nodes sc).

(* ------------------------------------------------------------------ the walk *)
Section Walk.
Variable ffmt : Z -> Z -> list Z.
Variable sc : TM.schema.
Variable c : config.
Variable fx : fixes.
Variable m : segs.
Variable rd : list Z -> Z -> TM.rval -> TM.res TS.tval.      (* exp, struct id, default pointer *)
Variable rdl : list Z -> TM.ty -> TM.rval -> TM.res TS.tval. (* exp, element type, default pointer *)

(* marshalEnum (schema reads only) *)
Definition enum_r (id v : Z) : RM TS.tval :=
  match TM.lookup (TM.s_nodes sc) id with
  | None => rfail
  | Some (TM.NEnum _ names) =>
    if zlen names <=? v then rret (TS.TvInt v)
    else match nth_error names (Z.to_nat v) with
         | Some (name, _) => rret (TS.TvIdent name)
         | None => rfail
         end
  | Some _ => rfail
  end.
(* inside marshalList the error of marshalEnum is dropped: nothing is written for the element *)
Definition enum_lenient (id v : Z) : RM TS.tval :=
  fun s => match enum_r id v s with
           | (RErr, s') => (ROk (TS.TvIdent []), s')
           | x => x
           end.

(* Struct.UintN(DataOffset(off * n)): the product is a uint32 *)
Definition data_field (p : Ptr) (off n : Z) : RM Z := acc p (struct_uint m p (u32 (off * n)) n).

(* s.Ptr(uint16(off)) *)
Definition ptr_field (p : Ptr) (off : Z) : RM Ptr :=
  deref p (fun rl => struct_ptr c m rl p (off mod 65536)).

(* PointerList{l}.At(i) *)
Definition ptr_elem (l : Ptr) (i : Z) : RM Ptr :=
  deref l (fun rl => ptrlist_at c (fx_upgrade fx) m rl l i).

(* TextList.String / DataList.String: one element; an error of BytesAt / At is written as <error> *)
Definition bytes_elem (text : bool) (l : Ptr) (i : Z) : RM TS.tval :=
  fun s => match ptr_elem l i s with
           | (ROk q, s') =>
             (o <-- acc q (if text then ptr_text m q else ptr_data m q) ;;
              rret (TS.TvStr (match o with Some b => b | None => [] end))) s'
           | (RErr, s') => (ROk (TS.TvIdent marker_error), s')
           | (RPanic, s') => (RPanic, s')
           | (RFuel, s') => (RFuel, s')
           end.

(* marshalFieldValue after Type() / DefaultValue(); [rs] = marshalStruct, [rl] = marshalList *)
Definition slot_r (rs : list Z -> Z -> Ptr -> RM TS.tval) (rl : TM.ty -> Ptr -> RM TS.tval)
    (exp : list Z) (p : Ptr) (off : Z) (t : TM.ty) (dflt : Z) (dptr : TM.rval) : RM TS.tval :=
  match t with
  | TM.TVoid => rret TS.TvVoid
  | TM.TBool =>
    b <-- acc p (struct_bit m p off) ;;
    rret (TS.TvBool (xorb b (negb (dflt =? 0))))
  | TM.TInt bits =>
    v <-- data_field p off (bits / 8) ;; rret (TS.TvInt (TM.sint bits (Z.lxor v dflt)))
  | TM.TUint bits =>
    v <-- data_field p off (bits / 8) ;; rret (TS.TvInt (Z.lxor v dflt))
  | TM.TFloat bits =>
    v <-- data_field p off (bits / 8) ;; rret (TS.TvFloat (ffmt bits (Z.lxor v dflt)))
  | TM.TStruct sid =>
    q <-- ptr_field p off ;;
    (* st := p.Struct(); st.IsValid() *)
    if is_struct q then rs exp sid q
    else
      (* null or not a struct pointer: the default; inside the default of a type a further
         null field of that type is written as () *)
      if existsb (Z.eqb sid) exp then rret (TS.TvStruct TS.FNil)
      else of_dflt (rd (sid :: exp) sid dptr)
  | TM.TData =>
    q <-- ptr_field p off ;;
    o <-- acc q (ptr_data m q) ;;                                  (* p.DataDefault(def) *)
    rret (TS.TvStr (match o with Some b => b | None => TM.data_bytes dptr end))
  | TM.TText =>
    q <-- ptr_field p off ;;
    o <-- acc q (ptr_text m q) ;;                                  (* p.TextBytesDefault(def) *)
    rret (TS.TvStr (match o with Some b => b | None => TM.text_bytes dptr end))
  | TM.TList _ e =>
    q <-- ptr_field p off ;;
    (* l := p.List(); !l.IsValid(): the default list *)
    if is_list q then rl e q else of_dflt (rdl exp e dptr)
  | TM.TEnum eid =>
    v <-- data_field p off 2 ;; enum_r eid (Z.lxor v dflt)
  | TM.TInterface =>
    b <-- acc p (struct_hasptr m p (off mod 65536)) ;;
    rret (if b then TS.TvMarker TM.marker_cap else TS.TvIdent TM.ident_null)
  | TM.TAnyPointer => rret (TS.TvMarker TM.marker_any)
  end.

Definition len_nat (l : Ptr) : nat := Z.to_nat (list_len l).

Fixpoint struct_r (fuel : nat) (exp : list Z) (id : Z) (p : Ptr) {struct fuel} : RM TS.tval :=
  match fuel with
  | O => fun s => (RFuel, s)
  | S f =>
    match TM.lookup (TM.s_nodes sc) id with
    | None => rfail
    | Some (TM.NStruct dcount doff _ fields) =>
      disc <-- (if 0 <? dcount then data_field p doff 2 else rret 0) ;;
      fs <-- fields_r (fun fd =>
               match TM.f_kind fd with
               | TM.FOther => rret None
               | k =>
                 if negb ((TM.f_disc fd =? 65535) || (TM.f_disc fd =? disc)) then rret None
                 else
                   match k with
                   | TM.FGroup gid => v <-- struct_r f exp gid p ;; rret (Some v)
                   | TM.FSlot off t dflt dptr _ _ _ =>
                     v <-- slot_r (struct_r f) (list_r f exp) exp p off t dflt dptr ;; rret (Some v)
                   | TM.FOther => rret None
                   end
               end) fields ;;
      rret (TS.TvStruct fs)
    | Some _ => rfail
    end
  end
with list_r (fuel : nat) (exp : list Z) (e : TM.ty) (l : Ptr) {struct fuel} : RM TS.tval :=
  match fuel with
  | O => fun s => (RFuel, s)
  | S f =>
    let n := len_nat l in
    match e with
    | TM.TVoid => rret (TS.TvList (TM.tvals_of (repeat TS.TvVoid n)))
    | TM.TBool =>
      bs <-- for_each n 0 (fun i => acc l (bitlist_at (fx_bit fx) m l i)) ;;
      rret (TS.TvList (TM.tvals_of (map TS.TvBool bs)))
    | TM.TInt bits =>
      xs <-- for_each n 0 (fun i => acc l (list_uint_at (fx_upgrade fx) m l i (bits / 8))) ;;
      rret (TS.TvList (TM.tvals_of (map (fun x => TS.TvInt (TM.sint bits x)) xs)))
    | TM.TUint bits =>
      xs <-- for_each n 0 (fun i => acc l (list_uint_at (fx_upgrade fx) m l i (bits / 8))) ;;
      rret (TS.TvList (TM.tvals_of (map TS.TvInt xs)))
    | TM.TFloat bits =>
      xs <-- for_each n 0 (fun i => acc l (list_uint_at (fx_upgrade fx) m l i (bits / 8))) ;;
      rret (TS.TvList (TM.tvals_of (map (fun x => TS.TvFloat (ffmt bits x)) xs)))
    | TM.TData => vs <-- for_each n 0 (bytes_elem false l) ;; rret (TS.TvList (TM.tvals_of vs))
    | TM.TText => vs <-- for_each n 0 (bytes_elem true l) ;; rret (TS.TvList (TM.tvals_of vs))
    | TM.TStruct sid =>
      vs <-- for_each n 0 (fun i =>
               q <-- acc l (list_struct (fx_depth fx) l i) ;; struct_r f exp sid q) ;;
      rret (TS.TvList (TM.tvals_of vs))
    | TM.TList _ ee =>
      vs <-- for_each n 0 (fun i => q <-- ptr_elem l i ;; list_r f exp ee (as_list q)) ;;
      rret (TS.TvList (TM.tvals_of vs))
    | TM.TEnum eid =>
      vs <-- for_each n 0 (fun i =>
               v <-- acc l (list_uint_at (fx_upgrade fx) m l i 2) ;; enum_lenient eid v) ;;
      rret (TS.TvList (TM.tvals_of vs))
    | TM.TInterface =>
      vs <-- for_each n 0 (fun i =>
               q <-- ptr_elem l i ;;
               rret (if p_valid q then TS.TvMarker TM.marker_cap else TS.TvIdent TM.ident_null)) ;;
      rret (TS.TvList (TM.tvals_of vs))
    | TM.TAnyPointer => rret (TS.TvList (TM.tvals_of (repeat (TS.TvMarker TM.marker_any) n)))
    end
  end.

(* text.Marshal(id, s) with s = p.Struct(), on a message with [rl] bytes of budget left *)
Definition shown_r (fuel : nat) (id : Z) (p : Ptr) (rl : Z) : out TS.tval * rst :=
  struct_r fuel [] id (as_struct p) (mkRst rl 0 0 []).

Definition render_r (fuel : nat) (id : Z) (p : Ptr) (rl : Z) : out (list Z) * rst :=
  match shown_r fuel id p rl with
  | (ROk t, s) => (ROk (TM.print t), s)
  | (RErr, s) => (RErr, s)
  | (RPanic, s) => (RPanic, s)
  | (RFuel, s) => (RFuel, s)
  end.
End Walk.

(* the fuel that suffices: every dereference lowers the depth limit, between two dereferences
   there are at most G group levels and one list level *)
Definition fuel_for (G : nat) (D : Z) : nat := Z.to_nat ((Z.of_nat G + 3) * D + Z.of_nat G + 1).

(* the default-value walks as the code does them: TextM's walk (fixed configuration) over the
   schema's own default value, on a schema message whose budget Find has re-armed *)
Definition dflt_struct (ffmt : Z -> Z -> list Z) (sc : TM.schema) (dfuel : nat)
    (exp : list Z) (sid : Z) (dptr : TM.rval) : TM.res TS.tval :=
  let (d, ps) := TM.as_struct dptr in
  match TM.shown_struct ffmt TM.cfg_fixed sc dfuel exp sid d ps (Some (TM.c_reset TM.cfg_fixed)) with
  | TM.Ok (t, _) => TM.Ok t
  | TM.Err e => TM.Err e
  | TM.OutOfFuel => TM.OutOfFuel
  end.
Definition dflt_list (ffmt : Z -> Z -> list Z) (sc : TM.schema) (dfuel : nat)
    (exp : list Z) (e : TM.ty) (dptr : TM.rval) : TM.res TS.tval :=
  match TM.shown_list ffmt TM.cfg_fixed sc dfuel exp e dptr (Some (TM.c_reset TM.cfg_fixed)) with
  | TM.Ok (t, _) => TM.Ok t
  | TM.Err e => TM.Err e
  | TM.OutOfFuel => TM.OutOfFuel
  end.

(* the instance that is extracted and run against text.Marshal *)
Definition render_go (ffmt : Z -> Z -> list Z) (sc : TM.schema) (c : config) (fx : fixes) (m : segs)
    (dfuel fuel : nat) (id : Z) (p : Ptr) (rl : Z) : out (list Z) * rst :=
  render_r ffmt sc c fx m (dflt_struct ffmt sc dfuel) (dflt_list ffmt sc dfuel) fuel id p rl.
