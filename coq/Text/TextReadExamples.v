(* Non-vacuity of the hypotheses of Text/TextReadProofs.v and two runs of the composed model:
   a well-formed message rendered from its bytes, and a CYCLIC message (a struct whose list
   field points back at the struct) on which the walk stops with an error (depth limit), never
   with RFuel or RPanic. *)
From CV Require Import Core.SafetyProofs Core.LimitProofs Text.TextRead Text.TextReadProofs.
Open Scope Z_scope.

Definition ex_ffmt (bits pat : Z) : list Z := [].
Definition mkf (name : list Z) (k : TM.fkind) : TM.field := TM.mkField name 0 65535 k.
Definition ex_schema : TM.schema :=
  TM.mkSchema
    [(1, TM.NStruct 0 0 0
           [mkf [97] (TM.FSlot 0 (TM.TUint 32) 0 TM.RNull 0 0 0);
            mkf [116] (TM.FSlot 0 TM.TText 0 TM.RNull 0 0 0);
            mkf [108] (TM.FSlot 1 (TM.TList 0 (TM.TStruct 2)) 0 TM.RNull 0 0 0);
            mkf [103] (TM.FGroup 2)]);
     (2, TM.NStruct 0 0 0 [mkf [120] (TM.FSlot 0 (TM.TUint 64) 0 TM.RNull 0 0 0)])] 0.
Definition ex_cfg := mkCfg 1000 4 true true.
Definition ex_fix := mkFix true true true.
Definition ex_root (m : segs) : Ptr :=
  match fst (root ex_cfg m 1000) with Ok p => p | _ => nullPtr end.

Lemma ex_schema_wf : schema_wf 2 ex_schema = true.
Proof. vm_compute. reflexivity. Qed.

Lemma ex_root_wf : wf_ptr rd_ex_msg (ex_root rd_ex_msg).
Proof.
  pose proof (root_safe ex_cfg rd_ex_msg 1000 (proj1 rd_ex_hypotheses) eq_refl) as H.
  unfold ex_root. destruct (fst (root ex_cfg rd_ex_msg 1000)); cbn in *; auto using wf_null.
Qed.

(* the hypotheses of the theorems are satisfiable *)
Example std_hyps_example :
  std_hyps ex_schema ex_cfg ex_fix rd_ex_msg 2 (ex_root rd_ex_msg) 900 /\
  dflt_total (fun _ _ _ => TM.Err TM.EInternal) (fun _ _ _ => TM.Err TM.EInternal) /\
  p_depth (ex_root rd_ex_msg) <= 4.
Proof.
  split; [|split; [split; intros; discriminate|vm_compute; discriminate]].
  unfold std_hyps. split; [apply rd_ex_hypotheses|]. split; [reflexivity|]. split; [reflexivity|].
  split; [reflexivity|]. split; [apply ex_schema_wf|]. split; [lia|]. split; [apply ex_root_wf|].
  split; [intros _; vm_compute; discriminate|lia].
Qed.

(* (a = 42, t = "hi", l = [(x = 1), (x = 2)], g = (x = 42)) *)
Example render_example :
  fst (render_go ex_ffmt ex_schema ex_cfg ex_fix rd_ex_msg 8 (fuel_for 2 4) 1 (ex_root rd_ex_msg) 900) =
  ROk [40; 97;32;61;32;52;50; 44;32; 116;32;61;32;34;104;105;34; 44;32;
       108;32;61;32;91;40;120;32;61;32;49;41;44;32;40;120;32;61;32;50;41;93; 44;32;
       103;32;61;32;40;120;32;61;32;52;50;41; 41].
Proof. vm_compute. reflexivity. Qed.

(* a cycle: struct{ptr0 -> composite list of 1 struct{ptr0 -> the same list}}.  Schema: node 3
   has a field l : List(node 3).  With depth limit 6 the walk ends with an error, with ANY
   larger fuel as well (render_r_no_fuel_partial); it neither panics nor runs out of fuel. *)
Definition cyc_schema : TM.schema :=
  TM.mkSchema [(3, TM.NStruct 0 0 0 [mkf [108] (TM.FSlot 0 (TM.TList 0 (TM.TStruct 3)) 0 TM.RNull 0 0 0)])] 0.
Definition cyc_cfg := mkCfg 0 6 true true.
Definition cyc_root : Ptr := match fst (root cyc_cfg cyc_msg 1000) with Ok p => p | _ => nullPtr end.
Example render_cyclic :
  p_valid cyc_root = true /\
  fst (render_go ex_ffmt cyc_schema cyc_cfg ex_fix cyc_msg 8 (fuel_for 1 6) 3 cyc_root 1000) = RErr /\
  r_d (snd (render_go ex_ffmt cyc_schema cyc_cfg ex_fix cyc_msg 8 (fuel_for 1 6) 3 cyc_root 1000)) = 3.
Proof. vm_compute. repeat split. Qed.

(* too little fuel IS reported as RFuel (the outcome excluded by the theorem is reachable) *)
Example render_cyclic_low_fuel :
  fst (render_go ex_ffmt cyc_schema cyc_cfg ex_fix cyc_msg 8 3 3 cyc_root 1000) = RFuel.
Proof. vm_compute. reflexivity. Qed.
