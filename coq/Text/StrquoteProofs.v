(* Proofs about the model of strquote.Append (Strquote.v) against the independent literal
   reader (TextSpec.v). *)
From CV Require Import Text.Strquote Text.TextSpec.
From Coq Require Import ZifyBool ZifyNat.
Open Scope Z_scope.
Ltac Zify.zify_post_hook ::= Z.div_mod_to_equations.

(* ------------------------------------------------------------ lists *)

Lemma skipn_skipn_add {A} : forall (l : list A) a b, skipn a (skipn b l) = skipn (a + b) l.
Proof.
  induction l as [|x l IH]; intros a b.
  - now rewrite !skipn_nil.
  - destruct b as [|b].
    + now rewrite Nat.add_0_r.
    + rewrite Nat.add_succ_r. simpl. apply IH.
Qed.

Lemma skipn_split_slice : forall (s : list Z) last i, (last <= i)%nat ->
  skipn last s = slice s last i ++ skipn i s.
Proof.
  intros s last i H. unfold slice.
  rewrite <- (firstn_skipn (i - last) (skipn last s)) at 1.
  f_equal. rewrite skipn_skipn_add. f_equal. lia.
Qed.

Lemma slice_length : forall (s : list Z) last i, (last <= i)%nat -> (i <= length s)%nat ->
  length (slice s last i) = (i - last)%nat.
Proof.
  intros s last i H1 H2. unfold slice. rewrite firstn_length, skipn_length. lia.
Qed.

Lemma slice_snoc : forall (s : list Z) last i b r, (last <= i)%nat -> (i <= length s)%nat ->
  skipn i s = b :: r -> slice s last (S i) = slice s last i ++ [b].
Proof.
  intros s last i b r H1 H2 E.
  pose proof (skipn_split_slice s last i H1) as S1. rewrite E in S1.
  unfold slice at 1. rewrite S1.
  replace (S i - last)%nat with (length (slice s last i) + 1)%nat
    by (rewrite slice_length by assumption; lia).
  rewrite firstn_app_2. reflexivity.
Qed.

Lemma slice_same : forall (s : list Z) i, slice s i i = [].
Proof. intros. unfold slice. now rewrite Nat.sub_diag. Qed.

(* ------------------------------------------------------------ loop = byte-wise map *)

Lemma quote_body_app : forall fixed a b,
  quote_body fixed (a ++ b) = quote_body fixed a ++ quote_body fixed b.
Proof.
  induction a as [|x a IH]; intros b; simpl; [reflexivity|]. now rewrite IH, app_assoc.
Qed.

Lemma quote_body_noesc : forall fixed a,
  Forall (fun b => needs_escape fixed b = false) a -> quote_body fixed a = a.
Proof.
  induction 1 as [|x a Hx _ IH]; simpl; [reflexivity|].
  unfold quote_byte. rewrite Hx, IH. reflexivity.
Qed.

Lemma append_loop_spec : forall fixed s rest i last buf,
  rest = skipn i s -> (last <= i)%nat -> (i <= length s)%nat ->
  Forall (fun b => needs_escape fixed b = false) (slice s last i) ->
  append_loop fixed s rest i last buf = buf ++ quote_body fixed (skipn last s).
Proof.
  intros fixed s. induction rest as [|b r IH]; intros i last buf E Hl Hi Hf.
  - simpl. f_equal.
    rewrite (skipn_split_slice s last i Hl), <- E, app_nil_r.
    symmetry. now apply quote_body_noesc.
  - symmetry in E. pose proof E as E0.
    assert (Er : r = skipn (S i) s).
    { change (S i) with (1 + i)%nat. rewrite <- skipn_skipn_add, E. reflexivity. }
    assert (Hi' : (S i <= length s)%nat).
    { destruct (Nat.le_gt_cases (length s) i) as [Hge|Hlt]; [|lia].
      rewrite skipn_all2 in E by assumption. discriminate. }
    cbn [append_loop]. destruct (needs_escape fixed b) eqn:Hb.
    + rewrite (IH (S i) (S i)); [|assumption|lia|assumption|rewrite slice_same; constructor].
      rewrite (skipn_split_slice s last i Hl), E, quote_body_app.
      rewrite (quote_body_noesc fixed _ Hf). cbn [quote_body]. unfold quote_byte. rewrite Hb.
      rewrite <- Er. now rewrite <- !app_assoc.
    + apply (IH (S i) last); [assumption|lia|assumption|].
      rewrite (slice_snoc s last i b r Hl Hi E0). apply Forall_app. split; [assumption|].
      constructor; [assumption|constructor].
Qed.

Theorem append_eq_quote_gen : forall fixed buf s,
  append fixed buf s = buf ++ quote_gen fixed s.
Proof.
  intros. unfold append, quote_gen.
  rewrite (append_loop_spec fixed s s 0 0); [|reflexivity|lia|lia|rewrite slice_same; constructor].
  simpl. rewrite <- !app_assoc. reflexivity.
Qed.

Corollary quote_eq : forall s, quote s = quote_gen true s.
Proof. intros. unfold quote. now rewrite append_eq_quote_gen. Qed.

(* ------------------------------------------------------------ hex digits *)

Lemma hex_digit_range : forall d, 0 <= d < 16 ->
  exists h, hex_digit d = Some h /\ hex_val h = Some d /\ 32 <= h < 127 /\ h <> 34 /\ h <> 92.
Proof.
  intros d H.
  assert (C : d = 0 \/ d = 1 \/ d = 2 \/ d = 3 \/ d = 4 \/ d = 5 \/ d = 6 \/ d = 7 \/ d = 8 \/ d = 9 \/
              d = 10 \/ d = 11 \/ d = 12 \/ d = 13 \/ d = 14 \/ d = 15) by lia.
  repeat (destruct C as [C|C]; [subst d; eexists; split; [reflexivity|]; split; [reflexivity|lia]|]).
  subst d; eexists; split; [reflexivity|]; split; [reflexivity|lia].
Qed.

Lemma hex_digit_t_val : forall d, 0 <= d < 16 -> hex_val (hex_digit_t d) = Some d.
Proof.
  intros d H. destruct (hex_digit_range d H) as (h & E & V & _). unfold hex_digit_t. now rewrite E.
Qed.

Lemma hex_digit_t_printable : forall d, 0 <= d < 16 ->
  32 <= hex_digit_t d < 127 /\ hex_digit_t d <> 34 /\ hex_digit_t d <> 92.
Proof.
  intros d H. destruct (hex_digit_range d H) as (h & E & _ & P). unfold hex_digit_t. now rewrite E.
Qed.

(* ------------------------------------------------------------ unquote (quote s) = s *)

Lemma parse_quote_byte : forall b l, byte_ok b ->
  parse_body (quote_byte true b ++ l) = cons_res b (parse_body l).
Proof.
  intros b l Hb. unfold byte_ok in Hb. unfold quote_byte.
  destruct (needs_escape true b) eqn:Hn.
  - unfold escape_byte.
    repeat match goal with
    | |- context [if ?x =? ?c then _ else _] =>
      destruct (Z.eqb_spec x c) as [->|?]; [reflexivity|]
    end.
    (* the \xHH case *)
    assert (H1 : 0 <= b / 16 < 16) by lia. assert (H2 : 0 <= b mod 16 < 16) by lia.
    cbn [app parse_body]. change (92 =? 34) with false. change (92 =? 10) with false.
    change (92 =? 92) with true. change (120 =? 120) with true. cbv iota.
    rewrite (hex_digit_t_val _ H1), (hex_digit_t_val _ H2).
    replace (16 * (b / 16) + b mod 16) with b by lia. reflexivity.
  - unfold needs_escape in Hn.
    cbn [app parse_body].
    destruct (Z.eqb_spec b 34); [lia|]. destruct (Z.eqb_spec b 10); [lia|].
    destruct (Z.eqb_spec b 92); [lia|]. reflexivity.
Qed.

Lemma parse_quote_body : forall s rest, bytes_ok s ->
  parse_body (quote_body true s ++ 34 :: rest) = Some (s, rest).
Proof.
  induction s as [|b s IH]; intros rest Hs.
  - reflexivity.
  - inversion Hs as [|? ? Hb Hs']; subst. simpl. rewrite <- app_assoc.
    rewrite parse_quote_byte by assumption. rewrite IH by assumption. reflexivity.
Qed.

Theorem unquote_quote_app : forall s rest, bytes_ok s ->
  parse_literal (quote s ++ rest) = Some (s, rest).
Proof.
  intros s rest Hs. rewrite quote_eq. unfold quote_gen. simpl. rewrite <- app_assoc.
  now apply parse_quote_body.
Qed.

Theorem unquote_quote : forall s, bytes_ok s -> parse_literal (quote s) = Some (s, []).
Proof. intros s Hs. rewrite <- (app_nil_r (quote s)). now apply unquote_quote_app. Qed.

Corollary quote_injective : forall s1 s2, bytes_ok s1 -> bytes_ok s2 ->
  quote s1 = quote s2 -> s1 = s2.
Proof.
  intros s1 s2 H1 H2 E. pose proof (unquote_quote s1 H1) as P1. rewrite E, (unquote_quote s2 H2) in P1.
  now inversion P1.
Qed.

(* ------------------------------------------------------------ shape of the output *)

Definition printable (c : Z) : Prop := 32 <= c < 127.
Definition is_hex (c : Z) : Prop := exists d, hex_val c = Some d.

(* the body of a literal is a sequence of: a printable byte other than 'DQ' and '\', or a
   backslash followed by a one-character escape, or \x and two hex digits.  In particular a
   'DQ' or '\' never stands alone. *)
Inductive wf_body : list Z -> Prop :=
| wf_nil : wf_body []
| wf_plain c r : printable c -> c <> 34 -> c <> 92 -> wf_body r -> wf_body (c :: r)
| wf_esc e v r : simple_escape e = Some v -> wf_body r -> wf_body (92 :: e :: r)
| wf_hex h1 h2 r : is_hex h1 -> is_hex h2 -> wf_body r -> wf_body (92 :: 120 :: h1 :: h2 :: r).

Lemma wf_quote_byte : forall b r, byte_ok b -> wf_body r -> wf_body (quote_byte true b ++ r).
Proof.
  intros b r Hb Hr. unfold byte_ok in Hb. unfold quote_byte.
  destruct (needs_escape true b) eqn:Hn.
  - unfold escape_byte.
    repeat match goal with
    | |- context [if ?x =? ?c then _ else _] =>
      destruct (Z.eqb_spec x c) as [->|?]; [eapply wf_esc; [reflexivity|assumption]|]
    end.
    assert (H1 : 0 <= b / 16 < 16) by lia. assert (H2 : 0 <= b mod 16 < 16) by lia.
    apply wf_hex; [eexists; apply (hex_digit_t_val _ H1)|eexists; apply (hex_digit_t_val _ H2)|assumption].
  - unfold needs_escape in Hn. apply wf_plain; [unfold printable; lia|lia|lia|assumption].
Qed.

Lemma wf_quote_body : forall s, bytes_ok s -> wf_body (quote_body true s).
Proof.
  induction 1 as [|b s Hb _ IH]; simpl; [constructor|]. now apply wf_quote_byte.
Qed.

Theorem quote_wellformed : forall s, bytes_ok s ->
  exists body, quote s = 34 :: body ++ [34] /\ wf_body body.
Proof.
  intros s Hs. exists (quote_body true s). split; [apply quote_eq|now apply wf_quote_body].
Qed.

Lemma printable_quote_byte : forall b, byte_ok b -> Forall printable (quote_byte true b).
Proof.
  intros b Hb. unfold byte_ok in Hb. unfold quote_byte.
  destruct (needs_escape true b) eqn:Hn.
  - unfold escape_byte.
    repeat match goal with
    | |- context [if ?x =? ?c then _ else _] =>
      destruct (Z.eqb_spec x c) as [->|?]; [repeat constructor; unfold printable; lia|]
    end.
    assert (H1 : 0 <= b / 16 < 16) by lia. assert (H2 : 0 <= b mod 16 < 16) by lia.
    pose proof (hex_digit_t_printable _ H1). pose proof (hex_digit_t_printable _ H2).
    repeat constructor; unfold printable; lia.
  - unfold needs_escape in Hn. repeat constructor; unfold printable; lia.
Qed.

Theorem quote_printable : forall s, bytes_ok s -> Forall printable (quote s).
Proof.
  intros s Hs. rewrite quote_eq. unfold quote_gen.
  constructor; [unfold printable; lia|]. apply Forall_app. split.
  - induction Hs as [|b s Hb _ IH]; simpl; [constructor|].
    apply Forall_app. split; [now apply printable_quote_byte|assumption].
  - repeat constructor; unfold printable; lia.
Qed.

(* a well-formed body never ends a literal early: the reader consumes all of it *)
Lemma wf_body_parses : forall body rest, wf_body body ->
  exists s, parse_body (body ++ 34 :: rest) = Some (s, rest).
Proof.
  induction 1 as [|c r Hp H34 H92 _ IH|e v r He _ IH|h1 h2 r [a Ha] [c Hc] _ IH].
  - exists []. reflexivity.
  - destruct IH as [s IH]. exists (c :: s). unfold printable in Hp. cbn [app parse_body].
    destruct (Z.eqb_spec c 34); [lia|]. destruct (Z.eqb_spec c 10); [lia|].
    destruct (Z.eqb_spec c 92); [lia|]. now rewrite IH.
  - destruct IH as [s IH]. exists (v :: s). cbn [app parse_body].
    change (92 =? 34) with false. change (92 =? 10) with false. change (92 =? 92) with true. cbv iota.
    unfold simple_escape in He.
    destruct (Z.eqb_spec e 120) as [->|?]; [discriminate|].
    destruct (is_oct e) eqn:Ho.
    { unfold is_oct in Ho.
      repeat match type of He with
      | context [if ?x =? ?c then _ else _] => destruct (Z.eqb_spec x c); [lia|]
      end. discriminate. }
    fold (simple_escape e). unfold simple_escape. fold (simple_escape e).
    replace (simple_escape e) with (Some v). now rewrite IH.
  - destruct IH as [s IH]. exists (16 * a + c :: s). cbn [app parse_body].
    change (92 =? 34) with false. change (92 =? 10) with false. change (92 =? 92) with true.
    change (120 =? 120) with true. cbv iota. rewrite Ha, Hc, IH. reflexivity.
Qed.

(* ------------------------------------------------------------ the code before the fix of F09 *)

(* a quote in the text ends the literal early: the reader gets the empty string back and
   finds a stray 'DQ' after the literal *)
Example unquote_quote_refuted :
  exists s, bytes_ok s /\ parse_literal (quote_prefix s) <> Some (s, []).
Proof.
  exists [34]. split; [repeat constructor; unfold byte_ok; lia|]. vm_compute. discriminate.
Qed.

(* backslash is not escaped: the two different texts  \n (2 bytes)  and  LF (1 byte)  are
   rendered identically *)
Example quote_injective_refuted :
  exists s1 s2, bytes_ok s1 /\ bytes_ok s2 /\ s1 <> s2 /\ quote_prefix s1 = quote_prefix s2.
Proof.
  exists [92; 110], [10].
  split; [repeat constructor; unfold byte_ok; lia|].
  split; [repeat constructor; unfold byte_ok; lia|].
  split; [discriminate|reflexivity].
Qed.

(* non-vacuity of the round trip: a string with every kind of escape *)
Example unquote_quote_example :
  parse_literal (quote [7; 8; 12; 10; 13; 9; 11; 39; 34; 92; 0; 31; 32; 65; 126; 127; 128; 255])
  = Some ([7; 8; 12; 10; 13; 9; 11; 39; 34; 92; 0; 31; 32; 65; 126; 127; 128; 255], []).
Proof. vm_compute. reflexivity. Qed.
