(* Totality of the rendering walk (TextM.shown_struct / shown_list) for nested, recursive and
   mutually recursive types: an explicit fuel bound under which the walk never runs out of fuel,
   for ALL stored values, cache states and encoder configurations with the default-expansion
   guard of fix 4b73eba (c_cut = true).

   Measure.  A call of marshalStruct on a struct whose pointers have depth [maxd ps], with the
   expansion stack [exp], for type [id]:
       ((1 + maxd ps) + freec SS exp * (DD + 1)) * (G + 2) + min (grank id) G
   - entering a group field: the value and the stack stay, the group rank drops;
   - entering a struct / list stored in the value: the value depth drops;
   - expanding the default of a null struct field of type sid: sid is pushed on the stack
     (it was not on it, or the guard writes "()"), so the number [freec] of struct types not yet
     on the stack drops, and the default value has depth <= DD.
   Premises on the schema ([tot_schema]): group fields refer to groups of strictly smaller rank
   (groups are acyclic, ranks <= G); struct-typed slots name a type of the list SS and their
   default value has depth <= DD; the default value of a LIST-typed slot holds no pointers
   (null, empty, or a list of primitives: depth <= 1).  The last premise cannot be dropped:
   [render_listdefault_refuted] below (a list default containing a struct of the enclosing type
   diverges for every fuel, also with the guard: the guard covers struct defaults only). *)
From CV Require Import Text.Strquote Text.TextSpec Text.StrquoteProofs Text.TextM Text.TextProofs.
From Coq Require Import Lia ZifyBool ZifyNat.
Open Scope Z_scope.

(* ------------------------------------------------------------ depth of a stored value *)

Fixpoint rdepth (v : rval) : nat :=
  match v with
  | RStruct _ ps => S ((fix go (l : list rval) : nat := match l with [] => O | p :: r => Nat.max (rdepth p) (go r) end) ps)
  | RPtrs ps => S ((fix go (l : list rval) : nat := match l with [] => O | p :: r => Nat.max (rdepth p) (go r) end) ps)
  | RComp es => S ((fix go (l : list rval) : nat := match l with [] => O | p :: r => Nat.max (rdepth p) (go r) end) es)
  | _ => 1%nat
  end.

Definition maxd (l : list rval) : nat := fold_right (fun p m => Nat.max (rdepth p) m) O l.

Lemma maxd_go : forall ps,
  (fix go (l : list rval) : nat := match l with [] => O | p :: r => Nat.max (rdepth p) (go r) end) ps = maxd ps.
Proof. induction ps as [|p r IH]; [reflexivity|]. cbn [maxd fold_right]. fold (maxd r). rewrite <- IH. reflexivity. Qed.

Lemma rdepth_struct : forall d ps, rdepth (RStruct d ps) = S (maxd ps).
Proof. intros. cbn [rdepth]. now rewrite maxd_go. Qed.
Lemma rdepth_ptrs : forall ps, rdepth (RPtrs ps) = S (maxd ps).
Proof. intros. cbn [rdepth]. now rewrite maxd_go. Qed.
Lemma rdepth_comp : forall ps, rdepth (RComp ps) = S (maxd ps).
Proof. intros. cbn [rdepth]. now rewrite maxd_go. Qed.

Lemma rdepth_pos : forall v, (1 <= rdepth v)%nat.
Proof. destruct v; cbn [rdepth]; lia. Qed.

Lemma maxd_in : forall ps p, In p ps -> (rdepth p <= maxd ps)%nat.
Proof.
  induction ps as [|q r IH]; intros p H; [contradiction|]. cbn [maxd fold_right]. fold (maxd r).
  destruct H as [->|H]; [lia|]. specialize (IH p H). lia.
Qed.

Lemma ptr_at_cases : forall ps off, In (ptr_at ps off) ps \/ ptr_at ps off = RNull.
Proof. intros ps off. unfold ptr_at. destruct (nth_in_or_default (Z.to_nat (off mod 65536)) ps RNull); auto. Qed.

Lemma as_struct_depth : forall p d ps, as_struct p = (d, ps) -> (S (maxd ps) <= rdepth p)%nat.
Proof.
  intros p d ps H. destruct p; cbn [as_struct] in H; inversion H; subst;
    try (cbn [maxd fold_right]; apply rdepth_pos).
  rewrite rdepth_struct. lia.
Qed.

Lemma struct_elems_depth : forall l ps p, struct_elems l = Ok ps -> In p ps -> (rdepth p < rdepth l)%nat.
Proof.
  intros l ps p H Hin. destruct l; cbn [struct_elems] in H.
  - inversion H; subst; contradiction.
  - inversion H; subst; contradiction.
  - destruct (length xs =? 0)%nat; inversion H; subst; contradiction.
  - inversion H; subst. rewrite rdepth_ptrs. apply maxd_in in Hin. lia.
  - inversion H; subst. rewrite rdepth_comp. apply maxd_in in Hin. lia.
  - inversion H; subst; contradiction.
Qed.

Lemma first_ptrs_depth : forall es ps p, first_ptrs es = Some ps -> In p ps -> (rdepth p <= maxd es)%nat.
Proof.
  induction es as [|e r IH]; intros ps p H Hin; cbn [first_ptrs] in H.
  - inversion H; subst; contradiction.
  - destruct e as [|d [|q qs]| | | |]; try discriminate.
    destruct (first_ptrs r) as [ps'|] eqn:E; [|discriminate]. inversion H; subst.
    cbn [maxd fold_right]. fold (maxd r). destruct Hin as [<-|Hin].
    + rewrite rdepth_struct. cbn [maxd fold_right]. lia.
    + specialize (IH ps' p eq_refl Hin). lia.
Qed.

Lemma ptr_elems_depth : forall l ps p, ptr_elems l = Ok ps -> In p ps -> (rdepth p < rdepth l)%nat.
Proof.
  intros l ps p H Hin. destruct l; cbn [ptr_elems] in H.
  - inversion H; subst; contradiction.
  - inversion H; subst; contradiction.
  - destruct (length xs =? 0)%nat; inversion H; subst; contradiction.
  - inversion H; subst. rewrite rdepth_ptrs. apply maxd_in in Hin. lia.
  - destruct (first_ptrs es) as [ps'|] eqn:E; [|discriminate]. inversion H; subst.
    rewrite rdepth_comp. pose proof (first_ptrs_depth _ _ _ E Hin). lia.
  - inversion H; subst; contradiction.
Qed.

(* ------------------------------------------------------------ struct types not yet on the expansion stack *)

Definition freec (SS exp : list Z) : nat := length (filter (fun s => negb (existsb (Z.eqb s) exp)) SS).

Lemma freec_nil : forall SS, freec SS [] = length SS.
Proof. unfold freec. induction SS as [|a r IH]; [reflexivity|]. cbn [filter existsb negb length]. f_equal. exact IH. Qed.

Lemma freec_le : forall SS exp sid, (freec SS (sid :: exp) <= freec SS exp)%nat.
Proof.
  unfold freec. induction SS as [|a r IH]; intros exp sid; cbn [filter existsb]; [lia|].
  specialize (IH exp sid). cbn [existsb] in IH.
  destruct (a =? sid); cbn [orb negb]; destruct (existsb (Z.eqb a) exp); cbn [negb length]; lia.
Qed.

Lemma freec_lt : forall SS exp sid, In sid SS -> existsb (Z.eqb sid) exp = false ->
  (freec SS (sid :: exp) < freec SS exp)%nat.
Proof.
  unfold freec. induction SS as [|a r IH]; intros exp sid Hin Hex; [contradiction|].
  pose proof (freec_le r exp sid) as Hle. unfold freec in Hle. cbn [filter existsb]. cbn [existsb] in Hle.
  destruct Hin as [->|Hin].
  - rewrite Z.eqb_refl, Hex. cbn [orb negb length]. lia.
  - specialize (IH exp sid Hin Hex). cbn [existsb] in IH.
    destruct (a =? sid); cbn [orb negb]; destruct (existsb (Z.eqb a) exp); cbn [negb length]; lia.
Qed.

(* ------------------------------------------------------------ arithmetic of the measure *)

Lemma arith_depth : forall a b k E K g, (a + 1 <= b -> g + 2 <= K ->
  (a + k * E) * K + g + 2 <= (b + k * E) * K)%nat.
Proof.
  intros a b k E K g H1 H2.
  assert (H : ((a + k * E + 1) * K <= (b + k * E) * K)%nat) by (apply Nat.mul_le_mono_r; lia).
  rewrite Nat.mul_add_distr_r, Nat.mul_1_l in H. lia.
Qed.

Lemma arith_exp : forall a vd k' k E K g, (a + 1 <= E -> k' + 1 <= k -> g + 2 <= K ->
  (a + k' * E) * K + g + 2 <= (vd + k * E) * K)%nat.
Proof.
  intros a vd k' k E K g H1 H2 H3.
  assert (Hk : ((k' + 1) * E <= k * E)%nat) by (apply Nat.mul_le_mono_r; lia).
  rewrite Nat.mul_add_distr_r, Nat.mul_1_l in Hk.
  assert (H : ((a + k' * E + 1) * K <= (vd + k * E) * K)%nat) by (apply Nat.mul_le_mono_r; lia).
  rewrite Nat.mul_add_distr_r, Nat.mul_1_l in H. lia.
Qed.

Lemma arith_mono : forall a b k E K, (a <= b -> (a + k * E) * K <= (b + k * E) * K)%nat.
Proof. intros. apply Nat.mul_le_mono_r. lia. Qed.

(* ------------------------------------------------------------ never OutOfFuel: small facts *)

Lemma bind_no_oof2 : forall {A B} (m : M A) (k : A -> M B),
  no_oof m -> (forall a st st', m st = Ok (a, st') -> no_oof (k a)) -> no_oof (bind m k).
Proof.
  intros A B m k Hm Hk st. unfold bind. specialize (Hm st).
  destruct (m st) as [[a st']|e|] eqn:E; [eapply Hk; exact E|discriminate|congruence].
Qed.

Lemma lift_no_oof : forall {A} (r : res A), r <> OutOfFuel -> no_oof (lift r).
Proof. intros A r H st. unfold lift. destruct r; [discriminate|discriminate|congruence]. Qed.

Lemma prim_elems_no : forall w l, prim_elems w l <> OutOfFuel.
Proof. intros w l. destruct l; cbn [prim_elems]; try discriminate; [destruct (w0 =? w)|destruct (w =? 1)]; discriminate. Qed.
Lemma ptr_elems_no : forall l, ptr_elems l <> OutOfFuel.
Proof.
  intros l. destruct l; cbn [ptr_elems]; try discriminate.
  - destruct (length xs =? 0)%nat; discriminate.
  - destruct (first_ptrs es); discriminate.
Qed.
Lemma struct_elems_no : forall l, struct_elems l <> OutOfFuel.
Proof. intros l. destruct l; cbn [struct_elems]; try discriminate. destruct (length xs =? 0)%nat; discriminate. Qed.

Lemma collect_elems_no_oof : forall {A} (step : A -> M tval) (l : list A),
  (forall x, In x l -> no_oof (step x)) -> no_oof (collect_elems step l).
Proof.
  intros A step. induction l as [|x r IH]; intros H; cbn [collect_elems].
  - apply ret_no_oof.
  - apply bind_no_oof; [apply H; now left|intros v].
    apply bind_no_oof; [apply IH; intros; apply H; now right|intros; apply ret_no_oof].
Qed.

(* ------------------------------------------------------------ the schema premises *)

Definition tot_field (grank : Z -> nat) (DD : nat) (SS : list Z) (owner : Z) (fd : field) : Prop :=
  match f_kind fd with
  | FGroup gid => (grank gid < grank owner)%nat
  | FSlot _ t _ dptr _ _ _ =>
    match t with
    | TStruct sid => In sid SS /\ (rdepth dptr <= DD)%nat
    | TList _ _ => (rdepth dptr <= 1)%nat
    | _ => True
    end
  | FOther => True
  end.

(* groups ranked (acyclic, rank <= G), struct-typed slots name a type of SS with a default of depth <= DD,
   list defaults hold no pointers *)
Definition tot_schema (sc : schema) (grank : Z -> nat) (G DD : nat) (SS : list Z) : Prop :=
  forall id dc doff fc fields, lookup (s_nodes sc) id = Some (NStruct dc doff fc fields) ->
    (grank id <= G)%nat /\ Forall (tot_field grank DD SS id) fields.

Section Total.
Variables (ffmt : Z -> Z -> list Z) (c : cfg) (sc : schema) (grank : Z -> nat) (G DD : nat) (SS : list Z).
Hypothesis Hcut : c_cut c = true.
Hypothesis Hsc : tot_schema sc grank G DD SS.

Definition needs (exp : list Z) (id : Z) (ps : list rval) : nat :=
  ((S (maxd ps) + freec SS exp * (DD + 1)) * (G + 2) + Nat.min (grank id) G)%nat.
Definition needl (exp : list Z) (l : rval) : nat :=
  ((rdepth l + freec SS exp * (DD + 1)) * (G + 2))%nat.

Lemma needl_ge2 : forall exp l, (2 <= needl exp l)%nat.
Proof.
  intros exp l. unfold needl. pose proof (rdepth_pos l).
  assert (H1 : (1 * (G + 2) <= (rdepth l + freec SS exp * (DD + 1)) * (G + 2))%nat) by (apply Nat.mul_le_mono_r; lia).
  lia.
Qed.

Ltac unfold_walk :=
  with_strategy opaque [find bind charge lookup collect_fields collect_elems ret fail lift shown_enum
                        get_le get_bit ptr_at is_null as_struct data_bytes text_bytes sint Z.lxor
                        Z.eqb Z.ltb Z.leb existsb c_cut andb slot_value prim_elems ptr_elems struct_elems
                        list_len tvals_of] simpl.

Lemma total_ind : forall fuel,
  (forall exp id d ps, (needs exp id ps < fuel)%nat -> no_oof (shown_struct ffmt c sc fuel exp id d ps)) /\
  (forall exp e l, (needl exp l <= fuel)%nat \/ ((rdepth l <= 1)%nat /\ (1 <= fuel)%nat) ->
     no_oof (shown_list ffmt c sc fuel exp e l)).
Proof.
  induction fuel as [|f [IHs IHl]].
  { split; [intros; lia|]. intros exp e l [H|[_ H]]; [pose proof (needl_ge2 exp l)|]; lia. }
  split.
  - (* marshalStruct *)
    intros exp id d ps Hf. unfold_walk.
    apply bind_no_oof; [apply find_no_oof|intros _].
    destruct (lookup (s_nodes sc) id) as [[dc doff fc fields| |]|] eqn:El; try apply fail_no_oof.
    destruct (Hsc _ _ _ _ _ El) as [HG Hfields].
    apply bind_no_oof; [apply charge_no_oof|intros _].
    apply bind_no_oof; [|intros; apply ret_no_oof].
    apply collect_fields_no_oof. intros fd Hin. rewrite Forall_forall in Hfields. specialize (Hfields fd Hin).
    unfold tot_field in Hfields. unfold needs in Hf.
    destruct (f_kind fd) as [off t dflt dptr tcost dvcost dpcost|gid|]; [| |apply ret_no_oof].
    + (* slot *)
      destruct (negb _); [apply ret_no_oof|].
      apply bind_no_oof; [apply charge_no_oof|intros _].
      apply bind_no_oof; [apply charge_no_oof|intros _].
      apply bind_no_oof; [apply charge_no_oof|intros _].
      apply bind_no_oof; [|intros; apply ret_no_oof].
      unfold slot_value.
      destruct t as [| |bits|bits|bits| | |ecost e|eid|sid| |]; try apply ret_no_oof.
      * destruct (c_acc c); [apply bind_no_oof; [apply charge_no_oof|intros _; apply ret_no_oof]|].
        destruct (is_null (ptr_at ps off)); [apply bind_no_oof; [apply charge_no_oof|intros _]|]; apply ret_no_oof.
      * destruct (c_acc c); [apply bind_no_oof; [apply charge_no_oof|intros _; apply ret_no_oof]|].
        destruct (is_null (ptr_at ps off)); [apply bind_no_oof; [apply charge_no_oof|intros _]|]; apply ret_no_oof.
      * (* list field *)
        apply bind_no_oof; [apply charge_no_oof|intros _].
        assert (Hleaf : forall p', (rdepth p' <= 1)%nat -> no_oof (shown_list ffmt c sc f exp e p')).
        { intros p' Hp. apply IHl. right. split; [assumption|].
          pose proof (arith_mono 1 (S (maxd ps)) (freec SS exp) (DD + 1) (G + 2)). lia. }
        assert (Hptr : no_oof (shown_list ffmt c sc f exp e (ptr_at ps off))).
        { destruct (ptr_at_cases ps off) as [Hp|Hp].
          - apply IHl. left. unfold needl. apply maxd_in in Hp.
            pose proof (arith_depth (rdepth (ptr_at ps off)) (S (maxd ps)) (freec SS exp) (DD + 1) (G + 2) 0). lia.
          - apply Hleaf. rewrite Hp. cbn [rdepth]. lia. }
        apply bind_no_oof2.
        { destruct (if c_acc c then negb (is_list (ptr_at ps off)) else is_null (ptr_at ps off));
            [apply bind_no_oof; [apply charge_no_oof|intros _]|]; apply ret_no_oof. }
        intros p' st st' Hp'.
        destruct (if c_acc c then negb (is_list (ptr_at ps off)) else is_null (ptr_at ps off)).
        -- apply bind_ok in Hp'. destruct Hp' as (u & s1 & _ & Hp'). apply ret_ok in Hp'. subst p'.
           now apply Hleaf.
        -- apply ret_ok in Hp'. subst p'. exact Hptr.
      * apply shown_enum_no_oof.
      * (* struct field *)
        destruct Hfields as [HinS Hdd].
        destruct (if c_acc c then negb (is_struct (ptr_at ps off)) else is_null (ptr_at ps off)) eqn:Econd.
        -- rewrite Hcut. cbn [andb].
           destruct (existsb (Z.eqb sid) exp) eqn:Eex; [apply ret_no_oof|].
           apply bind_no_oof; [apply charge_no_oof|intros _].
           destruct (as_struct dptr) as [d' ps'] eqn:Ea. apply IHs. unfold needs.
           pose proof (as_struct_depth _ _ _ Ea) as Hd.
           pose proof (freec_lt SS exp sid HinS Eex) as Hlt.
           pose proof (arith_exp (S (maxd ps')) (S (maxd ps)) (freec SS (sid :: exp)) (freec SS exp) (DD + 1) (G + 2)
                         (Nat.min (grank sid) G)). lia.
        -- destruct (as_struct (ptr_at ps off)) as [d' ps'] eqn:Ea. apply IHs. unfold needs.
           pose proof (as_struct_depth _ _ _ Ea) as Hd.
           destruct (ptr_at_cases ps off) as [Hp|Hp].
           ++ apply maxd_in in Hp.
              pose proof (arith_depth (S (maxd ps')) (S (maxd ps)) (freec SS exp) (DD + 1) (G + 2) (Nat.min (grank sid) G)). lia.
           ++ rewrite Hp in Econd. destruct (c_acc c); discriminate.
    + (* group *)
      destruct (negb _); [apply ret_no_oof|].
      apply bind_no_oof; [apply charge_no_oof|intros _].
      apply bind_no_oof; [|intros; apply ret_no_oof].
      apply IHs. unfold needs. lia.
  - (* marshalList *)
    intros exp e l Hf.
    assert (Hstruct : forall sid p, (rdepth p < rdepth l)%nat ->
              no_oof (let (d, pp) := as_struct p in shown_struct ffmt c sc f exp sid d pp)).
    { intros sid p Hp. destruct (as_struct p) as [d' pp] eqn:Ea. apply IHs.
      pose proof (as_struct_depth _ _ _ Ea) as Hd. pose proof (rdepth_pos p).
      destruct Hf as [Hf|[Hf _]]; [|lia]. unfold needs, needl in *.
      pose proof (arith_depth (S (maxd pp)) (rdepth l) (freec SS exp) (DD + 1) (G + 2) (Nat.min (grank sid) G)). lia. }
    assert (Hlist : forall ee p, (rdepth p < rdepth l)%nat -> no_oof (shown_list ffmt c sc f exp ee p)).
    { intros ee p Hp. apply IHl. left. pose proof (rdepth_pos p).
      destruct Hf as [Hf|[Hf _]]; [|lia]. unfold needl in *.
      pose proof (arith_depth (rdepth p) (rdepth l) (freec SS exp) (DD + 1) (G + 2) 0). lia. }
    unfold_walk.
    destruct e as [| |bits|bits|bits| | |ecost ee|eid|sid| |]; try apply ret_no_oof;
      try (apply bind_no_oof; [apply lift_no_oof; first [apply prim_elems_no|apply ptr_elems_no]|intros; apply ret_no_oof]).
    + (* list of lists *)
      apply bind_no_oof; [apply charge_no_oof|intros _].
      apply bind_no_oof2; [apply lift_no_oof; apply ptr_elems_no|]. intros pl st st' Hpl. apply lift_ok in Hpl.
      apply bind_no_oof; [|intros; apply ret_no_oof].
      apply collect_elems_no_oof. intros p Hin. apply Hlist. eapply ptr_elems_depth; eassumption.
    + (* enums *)
      apply bind_no_oof; [apply lift_no_oof; apply prim_elems_no|intros xs].
      apply bind_no_oof; [|intros; apply ret_no_oof].
      apply collect_elems_no_oof. intros; apply shown_enum_no_oof.
    + (* structs *)
      apply bind_no_oof2; [apply lift_no_oof; apply struct_elems_no|]. intros pl st st' Hpl. apply lift_ok in Hpl.
      apply bind_no_oof; [|intros; apply ret_no_oof].
      apply collect_elems_no_oof. intros p Hin. apply Hstruct. eapply struct_elems_depth; eassumption.
Qed.

(* the explicit bound for Encode of a value v of type id on an encoder in ANY cache state *)
Definition fuel_bound (v : rval) : nat := ((rdepth v + length SS * (DD + 1)) * (G + 2) + G + 1)%nat.

Lemma shown_struct_total : forall fuel id v st, (fuel_bound v <= fuel)%nat ->
  (let (d, ps) := as_struct v in shown_struct ffmt c sc fuel [] id d ps st) <> OutOfFuel.
Proof.
  intros fuel id v st Hf. destruct (as_struct v) as [d ps] eqn:Ea.
  destruct (total_ind fuel) as [Hs _]. apply Hs. unfold needs, fuel_bound in *. rewrite freec_nil.
  pose proof (as_struct_depth _ _ _ Ea) as Hd.
  pose proof (arith_mono (S (maxd ps)) (rdepth v) (length SS) (DD + 1) (G + 2) Hd). lia.
Qed.

Theorem render_total_sect : forall fuel id v, (fuel_bound v <= fuel)%nat ->
  (exists out, render ffmt c sc fuel id v = Ok out) \/ (exists e, render ffmt c sc fuel id v = Err e).
Proof.
  intros fuel id v Hf. pose proof (shown_struct_total fuel id v None Hf) as H.
  unfold render, encode. destruct (as_struct v) as [d ps].
  destruct (shown_struct ffmt c sc fuel [] id d ps None) as [[t st']|e|]; cbn [fst];
    [left; eexists; reflexivity|right; eexists; reflexivity|congruence].
Qed.

Theorem encode_total_sect : forall fuel id v st, (fuel_bound v <= fuel)%nat ->
  fst (encode ffmt c sc fuel id v st) <> OutOfFuel.
Proof.
  intros fuel id v st Hf. pose proof (shown_struct_total fuel id v st Hf) as H.
  unfold encode. destruct (as_struct v) as [d ps].
  destruct (shown_struct ffmt c sc fuel [] id d ps st) as [[t st']|e|]; cbn [fst]; congruence.
Qed.

End Total.

(* ------------------------------------------------------------ closed statements *)

(* Render totality.  For every schema satisfying [tot_schema] (groups acyclic; struct-typed slots
   name a type of SS and have a default of depth <= DD; list defaults hold no pointers), every
   encoder configuration with the default-expansion guard, every stored value v (any bytes, any
   pointer kinds, discriminants of no member, ...), every type id: with
       fuel >= (depth v + |SS| * (DD + 1)) * (G + 2) + G + 1
   Encode returns text or one of the enumerated errors [err]; it never runs out of fuel (and the
   result type has no panic outcome).  _partial: (a) the list-default premise is a restriction
   (necessary in some form: render_listdefault_refuted); (b) which inputs give [Err] is not
   characterised by a theorem (ENotFound/ENotStruct/ENotEnum: a type id that does not resolve to
   a node of the right kind; EBudget: read sizes above the budget; EIllTyped: a pointer-less list
   where a list of pointers / structs is expected; see docs/C20.md). *)
Theorem render_total_partial : forall ffmt c sc grank G DD SS fuel id v,
  c_cut c = true -> tot_schema sc grank G DD SS -> (fuel_bound G DD SS v <= fuel)%nat ->
  (exists out, render ffmt c sc fuel id v = Ok out) \/ (exists e, render ffmt c sc fuel id v = Err e).
Proof. intros. eapply render_total_sect; eassumption. Qed.

(* the same on a used encoder (any cache state) *)
Theorem encode_total_partial : forall ffmt c sc grank G DD SS fuel id v st,
  c_cut c = true -> tot_schema sc grank G DD SS -> (fuel_bound G DD SS v <= fuel)%nat ->
  fst (encode ffmt c sc fuel id v st) <> OutOfFuel.
Proof. intros. eapply encode_total_sect; eassumption. Qed.

(* parse_render without the success premise: within the fuel bound the outcome is either an
   enumerated error or a text that reads back as exactly the field values shown.
   _partial: the error alternative is not excluded (see render_total_partial (b)). *)
Theorem render_faithful_total_partial : forall ffmt c sc grank G DD SS fuel id v,
  schema_ok sc -> rval_ok v ->
  c_cut c = true -> tot_schema sc grank G DD SS -> (fuel_bound G DD SS v <= fuel)%nat ->
  (exists out t, render ffmt c sc fuel id v = Ok out /\ shown ffmt c sc fuel id v = Ok t /\
                 out = print t /\ wf_tval t /\ parse_text out = Some t)
  \/ (exists e, render ffmt c sc fuel id v = Err e).
Proof.
  intros ffmt c sc grank G DD SS fuel id v Hok Hv Hcut Hsc Hf.
  destruct (render_total_partial ffmt c sc grank G DD SS fuel id v Hcut Hsc Hf) as [[out Ho]|He]; [left|now right].
  destruct (parse_render _ _ _ _ _ _ _ Hok Hv Ho) as (t & H1 & H2 & H3 & H4).
  exists out, t. repeat split; assumption.
Qed.

(* ---- non-vacuity: the recursive type  struct Node { next :Node; }  and the 3-cycle C -> D -> E -> C *)
Example rec_schema_total : tot_schema rec_schema (fun _ => O) 0 1 [1].
Proof.
  intros id dc doff fc fields H. cbn [rec_schema s_nodes lookup] in H.
  destruct (1 =? id); [|discriminate]. inversion H; subst. split; [lia|].
  repeat constructor.
Qed.

Example rec_value_total :
  fuel_bound 0 1 [1] rec_value = 9%nat /\
  render no_floats cfg_fixed rec_schema 9 1 rec_value
  = Ok [40; 110; 101; 120; 116; 32; 61; 32; 40; 110; 101; 120; 116; 32; 61; 32; 40; 41; 41; 41].
Proof. split; vm_compute; reflexivity. Qed.

Example cyc3_schema_total : tot_schema cyc3_schema (fun _ => O) 0 1 [1; 2; 3].
Proof.
  intros id dc doff fc fields H. cbn [cyc3_schema s_nodes lookup] in H.
  destruct (1 =? id); [inversion H; subst; split; [lia|]; (constructor; [|constructor]); unfold tot_field; cbn; split; [auto 6|lia]|].
  destruct (2 =? id); [inversion H; subst; split; [lia|]; (constructor; [|constructor]); unfold tot_field; cbn; split; [auto 6|lia]|].
  destruct (3 =? id); [inversion H; subst; split; [lia|]; (constructor; [|constructor]); unfold tot_field; cbn; split; [auto 6|lia]|discriminate].
Qed.

(* ---- the list-default premise cannot be dropped:  struct L { l :List(L) = [()]; }
   The default of l is a one-element list whose element has a null l, whose default is that list
   again.  The guard of fix 4b73eba covers struct defaults only: the walk diverges for every fuel
   (Go: fatal stack overflow), on the fixed configuration. *)
Definition ldef_list : rval := RPtrs [RStruct [] []].
Definition ldef_schema : schema :=
  mkSchema [(1, NStruct 0 0 56 [mkField [108] 2 65535 (FSlot 0 (TList 24 (TStruct 1)) 0 ldef_list 32 24 40)])] 100.

Lemma ldef_diverges : forall fuel,
  (forall exp st, shown_struct no_floats cfg_fixed ldef_schema fuel exp 1 [] [] st = OutOfFuel) /\
  (forall exp st, shown_list no_floats cfg_fixed ldef_schema fuel exp (TStruct 1) ldef_list st = OutOfFuel).
Proof.
  induction fuel as [|f [IHs IHl]]; [split; reflexivity|]. split.
  - intros exp st. destruct st as [b|]; simpl; unfold bind; simpl; rewrite IHl; reflexivity.
  - intros exp st. simpl. unfold bind. simpl. unfold bind. rewrite IHs. reflexivity.
Qed.

Example render_listdefault_refuted : forall fuel,
  render no_floats cfg_fixed ldef_schema fuel 1 (RStruct [] []) = OutOfFuel.
Proof.
  intros fuel. unfold render, encode. cbn [as_struct]. rewrite (proj1 (ldef_diverges fuel)). reflexivity.
Qed.
