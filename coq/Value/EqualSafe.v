(* C01 / C02 for the recursive consumer capnp.Equal (model Value/EqualM.v): on ARBITRARY bytes
   (one or two hostile messages) [equal_m] never panics, never increases a traversal budget
   and never drives it negative, and with enough fuel never reports fuel exhaustion.
   Standing assumptions: [msg_ok] for both messages, the repaired reader (cfg_strict for
   well-formedness of what Struct.Ptr hands out, fx_depth for the fuel theorem), 64-bit uint. *)
From CV Require Import Value.EqualM Core.LimitProofs.
From Coq Require Import ZifyBool.
Open Scope Z_scope.
Ltac Zify.zify_post_hook ::= Z.div_mod_to_equations.

(* ------------------------------------------------------------------ the two messages *)
Lemma on_a_SA x : on_a x SA = true.
Proof. unfold on_a. apply Bool.orb_true_r. Qed.
Lemma segs_of_SA x : segs_of x SA = ec_segs_a x.
Proof. unfold segs_of. rewrite on_a_SA. reflexivity. Qed.

Definition ectx_ok (x : ectx) : Prop := msg_ok (segs_of x SA) /\ msg_ok (segs_of x SB).

Definition lims_nonneg (w : lims) : Prop := 0 <= fst w /\ 0 <= snd w.
Definition lims_le (w' w : lims) : Prop := 0 <= fst w' <= fst w /\ 0 <= snd w' <= snd w.

Lemma lims_le_refl w : lims_nonneg w -> lims_le w w.
Proof. unfold lims_nonneg, lims_le. lia. Qed.
Lemma lims_le_trans a b c : lims_le a b -> lims_le b c -> lims_le a c.
Proof. unfold lims_le. lia. Qed.
Lemma lims_le_nonneg a b : lims_le a b -> lims_nonneg a.
Proof. unfold lims_le, lims_nonneg. lia. Qed.

Lemma rl_of_nonneg x w s : lims_nonneg w -> 0 <= rl_of x w s.
Proof. unfold lims_nonneg, rl_of. destruct (on_a x s); lia. Qed.
Lemma put_rl_le x w s rl : lims_nonneg w -> 0 <= rl <= rl_of x w s -> lims_le (put_rl x w s rl) w.
Proof. unfold lims_nonneg, lims_le, rl_of, put_rl. destruct (on_a x s); cbn [fst snd]; lia. Qed.

(* an outcome that is not a panic, with budgets that only went down *)
Definition egood (w : lims) (r : eout * lims) : Prop := fst r <> EPanic /\ lims_le (snd r) w.

Lemma egood_trans w w1 r : lims_le w1 w -> egood w1 r -> egood w r.
Proof. intros H [G1 G2]. split; [assumption|]. eapply lims_le_trans; eassumption. Qed.
Lemma egood_leaf w b : lims_nonneg w -> egood w (EOk b, w).
Proof. intros H. split; [discriminate|apply lims_le_refl; assumption]. Qed.
Lemma egood_err w : lims_nonneg w -> egood w (EErr, w).
Proof. intros H. split; [discriminate|apply lims_le_refl; assumption]. Qed.

Definition rec_ok (x : ectx) (rec : erec) : Prop :=
  forall w p q, lims_nonneg w -> wf_ptr (segs_of x SA) p -> wf_ptr (segs_of x SB) q -> egood w (rec w p q).

(* ------------------------------------------------------------------ loops *)
Lemma ptr_loop_S c x rec p q k i w :
  ptr_loop c x rec p q (S k) i w =
  (let '(r1, rl1) := struct_ptr c (segs_of x SA) (rl_of x w SA) p i in
   let w1 := put_rl x w SA rl1 in
   match r1 with
   | Panic => (EPanic, w1) | Err => (EErr, w1)
   | Ok sp1 =>
     let '(r2, rl2) := struct_ptr c (segs_of x SB) (rl_of x w1 SB) q i in
     let w2 := put_rl x w1 SB rl2 in
     match r2 with
     | Panic => (EPanic, w2) | Err => (EErr, w2)
     | Ok sp2 =>
       match rec w2 sp1 sp2 with
       | (EOk true, w3) => ptr_loop c x rec p q k (i + 1) w3
       | other => other
       end
     end
   end).
Proof. reflexivity. Qed.

Lemma elem_loop_S fxd rec p q k i w :
  elem_loop fxd rec p q (S k) i w =
  match list_struct fxd p i with
  | Panic => (EPanic, w) | Err => (EErr, w)
  | Ok e1 =>
    match list_struct fxd q i with
    | Panic => (EPanic, w) | Err => (EErr, w)
    | Ok e2 =>
      match rec w e1 e2 with
      | (EOk true, w') => elem_loop fxd rec p q k (i + 1) w'
      | other => other
      end
    end
  end.
Proof. reflexivity. Qed.

Lemma ptr_loop_good c x rec p q : ectx_ok x -> cfg_strict c = true -> rec_ok x rec ->
  wf_struct (segs_of x SA) p -> wf_struct (segs_of x SB) q ->
  forall k i w, 0 <= i -> lims_nonneg w -> egood w (ptr_loop c x rec p q k i w).
Proof.
  intros [Ha Hb] Hc Hrec Hp Hq. induction k as [|k IH]; intros i w Hi Hw.
  - apply egood_leaf. assumption.
  - rewrite ptr_loop_S.
    pose proof (struct_ptr_safe c (segs_of x SA) (rl_of x w SA) p i Ha Hp Hi) as S1.
    pose proof (struct_ptr_charge c (segs_of x SA) (rl_of x w SA) p i (rl_of_nonneg x w SA Hw)) as [C1 _].
    destruct (struct_ptr c (segs_of x SA) (rl_of x w SA) p i) as [r1 rl1]. cbn [fst snd] in *. cbv zeta.
    pose proof (put_rl_le x w SA rl1 Hw C1) as L1. pose proof (lims_le_nonneg _ _ L1) as N1.
    destruct r1 as [sp1| |]; cbn [res_sat] in S1; [|split; [discriminate|exact L1]|destruct S1].
    pose proof (struct_ptr_safe c (segs_of x SB) (rl_of x (put_rl x w SA rl1) SB) q i Hb Hq Hi) as S2.
    pose proof (struct_ptr_charge c (segs_of x SB) (rl_of x (put_rl x w SA rl1) SB) q i (rl_of_nonneg x _ SB N1)) as [C2 _].
    destruct (struct_ptr c (segs_of x SB) _ q i) as [r2 rl2]. cbn [fst snd] in *.
    pose proof (put_rl_le x _ SB rl2 N1 C2) as L2. pose proof (lims_le_nonneg _ _ L2) as N2.
    pose proof (lims_le_trans _ _ _ L2 L1) as L12.
    destruct r2 as [sp2| |]; cbn [res_sat] in S2; [|split; [discriminate|exact L12]|destruct S2].
    pose proof (Hrec _ sp1 sp2 N2 (S1 Hc) (S2 Hc)) as G.
    destruct (rec _ sp1 sp2) as [o w3]. apply (egood_trans _ _ _ L12).
    destruct o as [[|]| | |]; try exact G.
    destruct G as [_ G]. cbn [snd] in G. eapply egood_trans; [exact G|].
    apply IH; [lia|]. eapply lims_le_nonneg; exact G.
Qed.

Lemma elem_loop_good fxd x rec p q : ectx_ok x -> rec_ok x rec ->
  wf_list (segs_of x SA) p -> wf_list (segs_of x SB) q -> list_len p = list_len q ->
  forall k i w, 0 <= i -> i + Z.of_nat k <= list_len p -> lims_nonneg w ->
  egood w (elem_loop fxd rec p q k i w).
Proof.
  intros [Ha Hb] Hrec Hp Hq Hlen. induction k as [|k IH]; intros i w Hi Hk Hw.
  - apply egood_leaf. assumption.
  - rewrite elem_loop_S.
    pose proof (list_struct_safe fxd _ p i Ha Hp ltac:(lia)) as S1.
    destruct (list_struct fxd p i) as [e1| |]; cbn [res_sat] in S1; [|apply egood_err; assumption|destruct S1].
    pose proof (list_struct_safe fxd _ q i Hb Hq ltac:(lia)) as S2.
    destruct (list_struct fxd q i) as [e2| |]; cbn [res_sat] in S2; [|apply egood_err; assumption|destruct S2].
    pose proof (Hrec w e1 e2 Hw (proj1 S1) (proj1 S2)) as G.
    destruct (rec w e1 e2) as [o w']. destruct o as [[|]| | |]; try exact G.
    destruct G as [_ G]. cbn [snd] in G. eapply egood_trans; [exact G|].
    apply IH; try lia. eapply lims_le_nonneg; exact G.
Qed.

(* the extra pointers of the longer struct *)
Lemma has_nonnull_ptr_safe strict m p i : msg_ok m -> wf_struct m p -> p_valid p = true ->
  0 <= i < PointerCount (p_size p) -> has_nonnull_ptr strict m p i <> Panic.
Proof.
  intros Hm Hw V Hi. unfold has_nonnull_ptr.
  destruct (wf_struct_inv m p Hw V) as (Hs & Hz & Ho & He). unfold wf_size in Hz.
  rewrite (pointerAddress_spec m p i Hm Hw V Hi).
  destruct (readRawPointer_ok (seg_of m p) (p_off p + DataSize (p_size p) + 8 * i) (seg_of_ok m p Hm)
              ltac:(lia) ltac:(lia)) as [v [E _]].
  rewrite E. cbn [bind]. destruct (v =? 0); [discriminate|].
  pose proof (resolveFarPointer_safe strict m (p_seg p) (seg_of m p) (p_off p + DataSize (p_size p) + 8 * i)
                Hm (seg_of_is_seg m p Hs) ltac:(lia) ltac:(lia)) as H.
  destruct (resolveFarPointer _ _ _ _ _) as [[[[a b] c0] d]| |]; cbn [res_sat] in H; [discriminate|discriminate|destruct H].
Qed.

Lemma no_ptrs_safe fixed strict m p : msg_ok m -> wf_struct m p -> p_valid p = true ->
  forall k i, 0 <= i -> i + Z.of_nat k <= PointerCount (p_size p) -> no_ptrs fixed strict m p k i <> Panic.
Proof.
  intros Hm Hw V. induction k as [|k IH]; intros i Hi Hk; cbn [no_ptrs]; [discriminate|].
  assert ((if fixed then has_nonnull_ptr strict m p i else struct_hasptr m p i) <> Panic) as H.
  { destruct fixed; [apply has_nonnull_ptr_safe; auto; lia|apply struct_hasptr_safe; auto]. }
  destruct (if fixed then has_nonnull_ptr strict m p i else struct_hasptr m p i) as [h| |]; cbn [bind];
    [|discriminate|congruence].
  destruct h; [discriminate|]. apply IH; lia.
Qed.

(* ------------------------------------------------------------------ struct / list / step *)
Lemma struct_data_slice m p : msg_ok m -> wf_struct m p -> p_valid p = true ->
  exists d, slice (seg_of m p) (p_off p) (DataSize (p_size p)) = Ok d.
Proof.
  intros Hm Hw V. destruct (wf_struct_inv m p Hw V) as (Hs & Hz & Ho & He). unfold wf_size in Hz.
  destruct (seg_of_ok m p Hm) as [Hl _]. unfold maxSegmentSize in Hl.
  eexists. apply slice_ok; lia.
Qed.

Lemma equal_struct_good c fx x rec w p q : ectx_ok x -> cfg_strict c = true -> rec_ok x rec ->
  wf_struct (segs_of x SA) p -> wf_struct (segs_of x SB) q -> p_valid p = true -> p_valid q = true ->
  lims_nonneg w -> egood w (equal_struct c fx x rec w p q).
Proof.
  intros Hx Hc Hrec Hp Hq Vp Vq Hw. pose proof Hx as [Ha Hb]. unfold equal_struct. cbv zeta.
  destruct (struct_data_slice _ p Ha Hp Vp) as [d1 ->]. destruct (struct_data_slice _ q Hb Hq Vq) as [d2 ->].
  destruct (negb (struct_data_equal d1 d2)); [apply egood_leaf; assumption|].
  destruct (wf_struct_inv _ p Hp Vp) as (_ & [_ Hz1] & _). destruct (wf_struct_inv _ q Hq Vq) as (_ & [_ Hz2] & _).
  pose proof (ptr_loop_good c x rec p q Hx Hc Hrec Hp Hq
                (Z.to_nat (Z.min (PointerCount (p_size p)) (PointerCount (p_size q)))) 0 w ltac:(lia) Hw) as G.
  destruct (ptr_loop _ _ _ _ _ _ _ _) as [o w']. destruct o as [[|]| | |]; try exact G.
  destruct G as [_ G]. cbn [snd] in G. pose proof (lims_le_nonneg _ _ G) as N.
  pose proof (no_ptrs_safe (fx_farnull fx) (cfg_strict c) _ p Ha Hp Vp
                (Z.to_nat (PointerCount (p_size p) - Z.min (PointerCount (p_size p)) (PointerCount (p_size q))))
                (Z.min (PointerCount (p_size p)) (PointerCount (p_size q))) ltac:(lia) ltac:(lia)) as N1.
  destruct (no_ptrs _ _ _ p _ _) as [[|]| |]; try (split; [discriminate|exact G]); [|congruence].
  pose proof (no_ptrs_safe (fx_farnull fx) (cfg_strict c) _ q Hb Hq Vq
                (Z.to_nat (PointerCount (p_size q) - Z.min (PointerCount (p_size p)) (PointerCount (p_size q))))
                (Z.min (PointerCount (p_size p)) (PointerCount (p_size q))) ltac:(lia) ltac:(lia)) as N2.
  destruct (no_ptrs _ _ _ q _ _) as [b| |]; try (split; [discriminate|exact G]). congruence.
Qed.

(* the bytes of a list: [n] bytes at its offset, for any n up to its content size *)
Lemma list_bytes_slice m p n : msg_ok m -> wf_list m p -> p_valid p = true -> 0 <= n ->
  n <= (if p_bit p then (p_len p + 7) / 8 else p_len p * totalSize (p_size p)) ->
  exists d, slice (seg_of m p) (p_off p) n = Ok d.
Proof.
  intros Hm Hw V Hn Hle. destruct (wf_list_inv m p Hw V) as (Hs & Ho & Hl & Hr).
  destruct (seg_of_ok m p Hm) as [Hsl _]. unfold maxSegmentSize in Hsl.
  eexists. apply slice_ok; try lia. destruct (p_bit p); lia.
Qed.

Lemma list_content_size m p : msg_ok m -> wf_list m p -> p_valid p = true ->
  times (totalSize (p_size p)) (p_len p) = Some (p_len p * totalSize (p_size p)) /\
  0 <= p_len p * totalSize (p_size p) /\
  (p_bit p = true -> totalSize (p_size p) = 0).
Proof.
  intros Hm Hw V. destruct (wf_list_inv m p Hw V) as (Hs & Ho & Hl & Hr).
  destruct (seg_of_ok m p Hm) as [Hsl _].
  pose proof (totalSize_nonneg (p_size p)) as Ht.
  assert (0 <= p_len p * totalSize (p_size p)) as Hnn by nia.
  destruct (p_bit p) eqn:B.
  - destruct Hr as [Hz _]. rewrite Hz. change (totalSize (mkOS 0 0)) with 0.
    split; [|split; [lia|reflexivity]]. destruct (times 0 (p_len p)) eqn:E.
    + apply times_spec in E. f_equal. lia.
    + unfold times in E. cbv zeta in E. rewrite Z.mul_0_l in E. discriminate.
  - destruct Hr as [Hz Hr]. split; [|split; [assumption|discriminate]].
    destruct (times _ _) eqn:E.
    + apply times_spec in E. f_equal. lia.
    + unfold times in E. cbv zeta in E.
      destruct ((totalSize (p_size p) * p_len p >? maxSegmentSize) || (totalSize (p_size p) * p_len p <? 0)) eqn:E2;
        [|discriminate]. lia.
Qed.

Lemma equal_list_good fx x rec w p q : ectx_ok x -> rec_ok x rec ->
  wf_list (segs_of x SA) p -> wf_list (segs_of x SB) q -> p_valid p = true -> p_valid q = true ->
  lims_nonneg w -> egood w (equal_list fx x rec w p q).
Proof.
  intros Hx Hrec Hp Hq Vp Vq Hw. pose proof Hx as [Ha Hb]. unfold equal_list. cbv zeta.
  destruct (list_len p =? list_len q) eqn:El; cbn [negb]; [|apply egood_leaf; assumption].
  assert (list_len p = list_len q) as Hlen by lia.
  assert (p_len p = p_len q) as Hpl by (unfold list_len in Hlen; rewrite Vp, Vq in Hlen; exact Hlen).
  destruct (wf_list_inv _ p Hp Vp) as (_ & _ & Hl1 & Hr1). destruct (wf_list_inv _ q Hq Vq) as (_ & _ & Hl2 & Hr2).
  destruct (list_content_size _ p Ha Hp Vp) as (T1 & T1' & T1'').
  destruct (list_content_size _ q Hb Hq Vq) as (T2 & T2' & T2'').
  (* the bit-list case of the repaired code *)
  assert (forall r : option (eout * lims),
            r = (if fx_bitlist fx then
                   if negb (Bool.eqb (p_bit p) (p_bit q)) then Some (EOk false, w)
                   else if p_bit p then
                     match slice (seg_of (segs_of x SA) p) (p_off p) (bitListSize (p_len p)) with
                     | Panic => Some (EPanic, w) | Err => Some (EErr, w)
                     | Ok d1 =>
                       match slice (seg_of (segs_of x SB) q) (p_off q) (bitListSize (p_len p)) with
                       | Panic => Some (EPanic, w) | Err => Some (EErr, w)
                       | Ok d2 => Some (EOk (bits_equal d1 d2 (p_len p)), w)
                       end
                     end
                   else None
                 else None) ->
            match r with Some r' => egood w r' | None => True end) as Hbit.
  { intros r ->. destruct (fx_bitlist fx); [|exact I].
    destruct (Bool.eqb (p_bit p) (p_bit q)) eqn:Eb; cbn [negb]; [|apply egood_leaf; assumption].
    apply Bool.eqb_prop in Eb. destruct (p_bit p) eqn:B1; [|exact I].
    rewrite bitListSize_spec by lia.
    destruct (list_bytes_slice _ p ((p_len p + 7) / 8) Ha Hp Vp ltac:(lia) ltac:(rewrite B1; lia)) as [d1 ->].
    destruct (list_bytes_slice _ q ((p_len p + 7) / 8) Hb Hq Vq ltac:(lia) ltac:(rewrite <- Eb, Hpl; lia)) as [d2 ->].
    apply egood_leaf. assumption. }
  match goal with |- egood w (match ?bc with Some r => r | None => ?rest end) =>
    specialize (Hbit bc eq_refl); destruct bc as [r'|]; [exact Hbit|] end.
  clear Hbit.
  destruct (negb (p_comp p) && negb (p_comp q) && negb (os_eqb (p_size p) (p_size q))); [apply egood_leaf; assumption|].
  destruct ((PointerCount (p_size p) =? 0) && (PointerCount (p_size q) =? 0)
            && (DataSize (p_size p) =? DataSize (p_size q))) eqn:Epd.
  - (* bytewise *)
    rewrite T1.
    assert (p_len q * totalSize (p_size q) = p_len p * totalSize (p_size p) \/
            (p_len p * totalSize (p_size p) = 0) \/
            (p_bit q = true /\ p_len p * totalSize (p_size p) = 0)) as Hsame.
    { destruct (p_bit p) eqn:B1; [right; left; rewrite (T1'' eq_refl); lia|].
      destruct (p_bit q) eqn:B2.
      - destruct Hr2 as [Hz2 _]. destruct Hr1 as [Hz1 _]. rewrite Hz2 in Epd. cbn [DataSize PointerCount] in Epd.
        right. left. rewrite (totalSize_wf _ Hz1). lia.
      - destruct Hr1 as [Hz1 _]. destruct Hr2 as [Hz2 _]. left.
        rewrite (totalSize_wf _ Hz1), (totalSize_wf _ Hz2). rewrite Hpl. lia. }
    destruct (list_bytes_slice _ p (p_len p * totalSize (p_size p)) Ha Hp Vp T1'
                ltac:(destruct (p_bit p) eqn:B; [rewrite (T1'' eq_refl); lia|lia])) as [d1 ->].
    destruct (list_bytes_slice _ q (p_len p * totalSize (p_size p)) Hb Hq Vq T1'
                ltac:(destruct (p_bit q) eqn:B; [destruct Hsame as [H|[H|[_ H]]]; try lia;
                                                rewrite <- H, (T2'' eq_refl); lia|
                                                destruct Hsame as [H|[H|[H _]]]; try lia; discriminate])) as [d2 ->].
    apply egood_leaf. assumption.
  - apply (elem_loop_good (fx_depth (fx_rd fx)) x); try assumption; try lia.
    unfold list_len in *. rewrite Vp in *. lia.
Qed.

Lemma equal_step_good c fx x rec w p q : ectx_ok x -> cfg_strict c = true -> rec_ok x rec ->
  wf_ptr (segs_of x SA) p -> wf_ptr (segs_of x SB) q -> lims_nonneg w ->
  egood w (equal_step c fx x rec w p q).
Proof.
  intros Hx Hc Hrec Hp Hq Hw. unfold equal_step.
  destruct (p_valid p) eqn:Vp; destruct (p_valid q) eqn:Vq; cbn [negb andb orb]; try (apply egood_leaf; assumption).
  destruct (p_kind p) eqn:Kp; destruct (p_kind q) eqn:Kq; try (apply egood_leaf; assumption).
  - apply equal_struct_good; auto; split; auto.
  - apply equal_list_good; auto; split; auto.
Qed.

(* equal_m_safe, part 1: no panic, budgets only go down and stay >= 0; any fuel, any limits,
   any two well-formed pointers into (one or two) arbitrary messages *)
Theorem equal_m_good c fx x : ectx_ok x -> cfg_strict c = true ->
  forall fuel w p q, wf_ptr (segs_of x SA) p -> wf_ptr (segs_of x SB) q -> lims_nonneg w ->
  egood w (equal_m fuel c fx x w p q).
Proof.
  intros Hx Hc. induction fuel as [|f IH]; intros w p q Hp Hq Hw; cbn [equal_m].
  - split; [discriminate|apply lims_le_refl; assumption].
  - apply equal_step_good; auto. intros w0 p0 q0 H0 Hp0 Hq0. apply IH; assumption.
Qed.

(* ------------------------------------------------------------------ fuel *)
(* Equal burns one unit of fuel per level, also on a pair of null pointers, so a pair whose
   smaller depth budget is d needs d + 3 (list -> element -> null pair at d = 0); a pair of
   structs that cannot be descended through (d = 0) needs 2; any pair needs 1. *)
Definition efuel_ok (p q : Ptr) (fuel : nat) : Prop :=
  (1 <= fuel)%nat /\
  (p_valid p = true -> p_valid q = true ->
   0 <= p_depth p /\ 0 <= p_depth q /\
   (Z.min (p_depth p) (p_depth q) + 3 <= Z.of_nat fuel \/
    (p_kind p = KStruct /\ p_kind q = KStruct /\ Z.min (p_depth p) (p_depth q) = 0 /\ (2 <= fuel)%nat))).

Definition rec_nf (f : nat) (rec : erec) : Prop :=
  forall w p q, efuel_ok p q f -> fst (rec w p q) <> EFuel.

Lemma ptr_loop_nofuel c x rec p q f : rec_nf f rec ->
  p_valid p = true -> p_valid q = true -> 0 <= p_depth p -> 0 <= p_depth q ->
  (Z.min (p_depth p) (p_depth q) + 2 <= Z.of_nat f \/ (Z.min (p_depth p) (p_depth q) = 0 /\ (1 <= f)%nat)) ->
  forall k i w, fst (ptr_loop c x rec p q k i w) <> EFuel.
Proof.
  intros Hrec Vp Vq Dp Dq Hf. induction k as [|k IH]; intros i w; [discriminate|].
  rewrite ptr_loop_S.
  destruct (struct_ptr c (segs_of x SA) (rl_of x w SA) p i) as [r1 rl1] eqn:E1. cbv zeta.
  destruct r1 as [sp1| |]; try discriminate.
  destruct (struct_ptr c (segs_of x SB) _ q i) as [r2 rl2] eqn:E2.
  destruct r2 as [sp2| |]; try discriminate.
  assert (efuel_ok sp1 sp2 f) as Hc.
  { split; [lia|]. intros V1 V2.
    pose proof (struct_ptr_depth c (segs_of x SA) (rl_of x w SA) p i sp1 Dp) as H1. rewrite E1 in H1. specialize (H1 eq_refl V1).
    pose proof (struct_ptr_depth c (segs_of x SB) (rl_of x (put_rl x w SA rl1) SB) q i sp2 Dq) as H2. rewrite E2 in H2. specialize (H2 eq_refl V2).
    split; [lia|]. split; [lia|]. left. lia. }
  specialize (Hrec (put_rl x (put_rl x w SA rl1) SB rl2) sp1 sp2 Hc).
  destruct (rec _ sp1 sp2) as [o w3]. cbn [fst] in Hrec.
  destruct o as [[|]| | |]; try discriminate; [apply IH|congruence].
Qed.

Lemma elem_loop_nofuel rec p q f : rec_nf f rec ->
  p_valid p = true -> p_valid q = true -> 0 <= p_depth p -> 0 <= p_depth q ->
  Z.min (p_depth p) (p_depth q) + 2 <= Z.of_nat f ->
  forall k i w, fst (elem_loop true rec p q k i w) <> EFuel.
Proof.
  intros Hrec Vp Vq Dp Dq Hf. induction k as [|k IH]; intros i w; [discriminate|].
  rewrite elem_loop_S.
  destruct (list_struct true p i) as [e1| |] eqn:E1; try discriminate.
  destruct (list_struct true q i) as [e2| |] eqn:E2; try discriminate.
  assert (efuel_ok e1 e2 f) as Hc.
  { split; [lia|]. intros V1 V2.
    destruct (list_struct_depth' p i e1 Dp E1 V1) as (K1 & N1 & H1).
    destruct (list_struct_depth' q i e2 Dq E2 V2) as (K2 & N2 & H2).
    split; [lia|]. split; [lia|].
    destruct (Z.eq_dec (Z.min (p_depth p) (p_depth q)) 0) as [Z0|NZ].
    - right. repeat split; auto; lia.
    - left. lia. }
  specialize (Hrec w e1 e2 Hc). destruct (rec w e1 e2) as [o w']. cbn [fst] in Hrec.
  destruct o as [[|]| | |]; try discriminate; [apply IH|congruence].
Qed.

Lemma equal_step_nofuel c fx x rec w p q f : fx_depth (fx_rd fx) = true -> rec_nf f rec ->
  efuel_ok p q (S f) -> fst (equal_step c fx x rec w p q) <> EFuel.
Proof.
  intros Hfd Hrec [_ Hf]. unfold equal_step.
  destruct (p_valid p) eqn:Vp; destruct (p_valid q) eqn:Vq; cbn [negb andb orb]; try discriminate.
  destruct (Hf eq_refl eq_refl) as (Dp & Dq & Hd). clear Hf.
  destruct (p_kind p) eqn:Kp; destruct (p_kind q) eqn:Kq; try discriminate.
  - (* struct *)
    unfold equal_struct. cbv zeta.
    destruct (slice _ _ _); try discriminate. destruct (slice _ _ _); try discriminate.
    destruct (negb _); [discriminate|].
    pose proof (ptr_loop_nofuel c x rec p q f Hrec Vp Vq Dp Dq
                  ltac:(destruct Hd as [H|(_ & _ & H0 & H2)]; [left; lia|right; split; [assumption|lia]])
                  (Z.to_nat (Z.min (PointerCount (p_size p)) (PointerCount (p_size q)))) 0 w) as G.
    destruct (ptr_loop _ _ _ _ _ _ _ _) as [o w']. cbn [fst] in G.
    destruct o as [[|]| | |]; try discriminate; [|congruence].
    destruct (no_ptrs _ _ _ p _ _) as [[|]| |]; try discriminate.
    destruct (no_ptrs _ _ _ q _ _); discriminate.
  - (* list *)
    destruct Hd as [Hd|(K & _)]; [|discriminate K].
    unfold equal_list. cbv zeta. destruct (negb (list_len p =? list_len q)); [discriminate|].
    match goal with |- fst (match ?bc with Some r => r | None => ?rest end) <> EFuel =>
      assert (match bc with Some r => fst r <> EFuel | None => True end) as Hb;
      [|destruct bc as [r'|]; [exact Hb|]] end.
    { destruct (fx_bitlist fx); [|exact I]. destruct (negb _); [discriminate|].
      destruct (p_bit p); [|exact I]. destruct (slice _ _ _); try discriminate.
      destruct (slice _ _ _); discriminate. }
    destruct (_ && _ && _); [discriminate|].
    destruct (_ && _ && _).
    + destruct (slice _ _ _); try discriminate. destruct (slice _ _ _); discriminate.
    + rewrite Hfd. apply (elem_loop_nofuel rec p q f); auto. lia.
Qed.

(* equal_m_safe, part 2: fuel exhaustion is excluded by the depth budgets *)
Theorem equal_m_nofuel c fx x : fx_depth (fx_rd fx) = true ->
  forall fuel w p q, efuel_ok p q fuel -> fst (equal_m fuel c fx x w p q) <> EFuel.
Proof.
  intros Hfd. induction fuel as [|f IH]; intros w p q Hf; cbn [equal_m].
  - destruct Hf as [Hf _]. lia.
  - apply (equal_step_nofuel c fx x _ w p q f); auto.
Qed.

(* ------------------------------------------------------------------ equal_m_safe *)
(* For two pointers obtained by any read path under depth limit D (their depth budgets are
   at most D - 1, see C02_depth_bound): fuel D + 2 is never exhausted; D + 1 suffices when
   both are structs and D = 1.  The traversal budgets of both messages only go down and stay
   non-negative, so what Equal consumes from each message is at most what was left of T. *)
Theorem equal_m_safe c fx x fuel w p q D :
  ectx_ok x -> cfg_strict c = true -> fx_depth (fx_rd fx) = true ->
  wf_ptr (segs_of x SA) p -> wf_ptr (segs_of x SB) q -> lims_nonneg w ->
  0 <= p_depth p <= D - 1 -> 0 <= p_depth q <= D - 1 -> D + 2 <= Z.of_nat fuel ->
  let r := equal_m fuel c fx x w p q in
  fst r <> EPanic /\ fst r <> EFuel /\ lims_le (snd r) w.
Proof.
  intros Hx Hc Hfd Hp Hq Hw Dp Dq Hf r.
  destruct (equal_m_good c fx x Hx Hc fuel w p q Hp Hq Hw) as [G1 G2].
  split; [exact G1|]. split; [|exact G2].
  apply equal_m_nofuel; auto. split; [lia|]. intros _ _. split; [lia|]. split; [lia|]. left. lia.
Qed.

(* the bound D + 2 is tight for this model: D = 2, a struct whose field is a composite list
   of one element with a null pointer; fuel D + 1 = 3 reports exhaustion, D + 2 = 4 does not *)
Definition eq_deep_msg : segs :=
  [[0;0;0;0;0;0;1;0;  1;0;0;0;15;0;0;0;  4;0;0;0;0;0;1;0;  0;0;0;0;0;0;0;0]].
Example equal_fuel_tight :
  let c := mkCfg 0 2 true true in
  let fx := mkEFix true true (mkFix true true true) in
  msg_ok eq_deep_msg /\
  fst (fst (run_equal 3 c c fx eq_deep_msg [] eq_deep_msg [] true SelRoot SelRoot)) = EFuel /\
  fst (fst (run_equal 4 c c fx eq_deep_msg [] eq_deep_msg [] true SelRoot SelRoot)) = EOk true.
Proof.
  split; [repeat constructor; cbn; try lia; unfold maxSegmentSize; lia|].
  vm_compute. split; reflexivity.
Qed.
